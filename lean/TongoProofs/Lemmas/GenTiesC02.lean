import TongoProofs.Lemmas.GenTiesA
/-! Ties ("gen = model") for the BYTE-LEVEL conventions of the cell hash: the length of `bocReprWithoutRefs`, the
completion tag OR-ed into its last byte (boc/cell.go) and the two big-endian depth bytes hashed per child
(boc/immutable_cell.go), all REGENERATED on every run by translator X4 into `TongoGen/CellDesc.lean`, against the hand
model `Tongo.reprNoRefs` / `Bits.toppedUp` / `Tongo.be16`. Restated in C02. Core Lean only, kernel-checked. -/
namespace Tongo.GenTies
open Tongo Tongo.Bits

/-- `BitVec.ofNat 64 n` of an in-range `n` -/
theorem c02tie_toNat (n : Nat) (h : n < 2^62) : (BitVec.ofNat 64 n).toNat = n := by
  simp; omega

/-- Go's signed `x % 8` (`BitVec.srem`) is `Nat` remainder on a non-negative `int` (sign bit clear) -/
theorem c02tie_srem8 (x : BitVec 64) (h : x.toNat < 2^63) : BitVec.srem x 8#64 = BitVec.ofNat 64 (x.toNat % 8) := by
  have hm : x.msb = false := by
    rw [BitVec.msb_eq_decide]; simp; omega
  have h8 : (8#64 : BitVec 64).msb = false := by decide
  apply BitVec.eq_of_toNat_eq
  simp [BitVec.srem, hm, h8]
  omega

/-- packing has ⌈n/8⌉ bytes -/
theorem c02tie_bitsToBytes_length (l : List Bool) : (bitsToBytes l).length = (l.length + 7) / 8 := by
  generalize hn : l.length = n
  induction n using Nat.strong_induction_on generalizing l with
  | _ n ih =>
    cases l with
    | nil => subst hn; rw [bitsToBytes_nil]; rfl
    | cons h t =>
      rw [bitsToBytes, List.length_cons]
      simp only [List.length_cons] at hn
      rw [ih (t.length - 7) (by omega) (t.drop 7) (by simp)]
      omega

/-- the topped-up data has ⌈n/8⌉ bytes: the completion tag never adds a byte -/
theorem c02tie_toppedUp_length (l : List Bool) : (toppedUp l).length = (l.length + 7) / 8 := by
  unfold toppedUp addTag
  rw [c02tie_bitsToBytes_length]
  split
  · rfl
  · simp only [List.length_append, List.length_cons, List.length_replicate]; omega

/-- boc/cell.go `bocReprWithoutRefs`: `res := make([]byte, (BitSize()+7)/8 + 2)` regenerated is the length of the
model's `reprNoRefs` (two descriptor bytes and the topped-up data), for every bit length below 2⁶². -/
theorem gen_reprLen (bits : List Bool) (h : bits.length < 2^62) (ty nrefs mask : Nat) :
    (Tongo.reprNoRefs ty bits nrefs mask).length = (Gen.CellDesc.reprLen (BitVec.ofNat 64 bits.length)).toNat := by
  have h2 : (BitVec.ofNat 64 bits.length + 7#64).toNat = bits.length + 7 := by simp [BitVec.toNat_add]; omega
  simp only [Tongo.reprNoRefs, List.length_cons, c02tie_toppedUp_length, Gen.CellDesc.reprLen, BitVec.toNat_add]
  rw [sdiv8 _ (by omega), h2]
  simp
  omega

/-- boc/cell.go `bocReprWithoutRefs`: the condition `c.BitSize()%8 != 0` regenerated (Go's signed remainder) is
`n % 8 ≠ 0` on `Nat`, the condition of the model's `Bits.addTag`. -/
theorem gen_tagNeeded (n : Nat) (h : n < 2^62) :
    Gen.CellDesc.tagNeeded (BitVec.ofNat 64 n) = decide (n % 8 ≠ 0) := by
  have h1 := c02tie_toNat n h
  have hlt : n % 8 < 8 := Nat.mod_lt _ (by decide)
  simp only [Gen.CellDesc.tagNeeded]
  rw [c02tie_srem8 _ (by omega), h1]
  by_cases hz : n % 8 = 0
  · simp [hz]
  · have : BitVec.ofNat 64 (n % 8) ≠ 0#64 := by
      intro he
      have := congrArg BitVec.toNat he
      simp at this
      omega
    simp [hz, this]

/-- boc/cell.go `bocReprWithoutRefs`: the completion tag `1 << (7 - c.BitSize()%8)` regenerated (a `byte`) is the
byte `2^(7 - n % 8)`. -/
theorem gen_tagBit (n : Nat) (h : n < 2^62) :
    Gen.CellDesc.tagBit (BitVec.ofNat 64 n) = BitVec.ofNat 8 (2 ^ (7 - n % 8)) := by
  have h1 := c02tie_toNat n h
  have hlt : n % 8 < 8 := Nat.mod_lt _ (by decide)
  simp only [Gen.CellDesc.tagBit]
  rw [c02tie_srem8 _ (by omega), h1]
  have hs : (7#64 - BitVec.ofNat 64 (n % 8)).toNat = 7 - n % 8 := by
    simp [BitVec.toNat_sub]; omega
  rw [hs]
  apply BitVec.eq_of_toNat_eq
  simp [BitVec.toNat_shiftLeft, Nat.shiftLeft_eq]

/-- Go: `res[len(res)-1] |= t` on a byte slice (nothing to do on an empty one) -/
def orLast : List UInt8 → BitVec 8 → List UInt8
  | [], _ => []
  | [b], t => [b ||| ⟨t⟩]
  | b :: c :: r, t => b :: orLast (c :: r) t

theorem c02tie_orLast_cons (b : UInt8) (r : List UInt8) (t : BitVec 8) (hr : r ≠ []) :
    orLast (b :: r) t = b :: orLast r t := by
  cases r with
  | nil => exact absurd rfl hr
  | cons c r => rfl

/-- the last, partial byte: zero padding OR tag bit is the tagged byte -/
theorem c02tie_lastByte (m r : Nat) (hr : r < 8) :
    UInt8.ofNat (m * 2 ^ (8 - r) + 2 ^ (7 - r)) = UInt8.ofNat (m * 2 ^ (8 - r)) ||| ⟨BitVec.ofNat 8 (2 ^ (7 - r))⟩ := by
  have e : 8 - r = (7 - r) + 1 := by omega
  have hlt : 2 ^ (7 - r) < 2 ^ ((7 - r) + 1) := Nat.pow_lt_pow_right (by decide) (by omega)
  have := Nat.shiftLeft_add_eq_or_of_lt hlt m
  rw [Nat.shiftLeft_eq] at this
  rw [e, this, UInt8.ofNat_or]
  rfl

theorem c02tie_bitsToNat_zeros (k : Nat) : bitsToNat (List.replicate k false) = 0 := by
  induction k with
  | zero => rfl
  | succ k ih => rw [List.replicate_succ, bitsToNat_cons, ih]; simp

/-- packing `l ++ 1 0…0` (completion tag) is packing `l` (zero padded) with the tag OR-ed into the last byte -/
theorem c02tie_bitsToBytes_tag (q : Nat) : ∀ (l : List Bool), l.length / 8 = q → l.length % 8 ≠ 0 →
    bitsToBytes (l ++ true :: List.replicate (7 - l.length % 8) false) =
      orLast (bitsToBytes l) (BitVec.ofNat 8 (2 ^ (7 - l.length % 8))) := by
  induction q with
  | zero =>
    intro l hq hr
    have hlt : l.length < 8 := by omega
    have hmod : l.length % 8 = l.length := Nat.mod_eq_of_lt hlt
    rw [hmod]
    match l, hr, hlt with
    | h :: t, _, hlt =>
      have hl8 : (h :: t ++ true :: List.replicate (7 - (h :: t).length) false).length = 8 := by
        simp at hlt ⊢; omega
      have e := bitsToBytes_append8 (h :: t ++ true :: List.replicate (7 - (h :: t).length) false) [] hl8
      rw [List.append_nil] at e
      rw [e, bitsToBytes_nil]
      conv => rhs; rw [bitsToBytes]
      have ht : List.take 8 (h :: t) = h :: t := List.take_of_length_le (by omega)
      have hd : List.drop 7 t = [] := List.drop_of_length_le (by simp at hlt; omega)
      rw [ht, hd, bitsToBytes_nil]
      simp only [orLast]
      have hlen : (h :: t).length < 8 := hlt
      generalize h :: t = l at hlen ⊢
      have eL : bitsToNat (l ++ true :: List.replicate (7 - l.length) false) =
          bitsToNat l * 2 ^ (8 - l.length) + 2 ^ (7 - l.length) := by
        rw [bitsToNat_append, bitsToNat_cons, c02tie_bitsToNat_zeros]
        simp only [List.length_cons, List.length_replicate]
        have e8 : 7 - l.length + 1 = 8 - l.length := by omega
        rw [e8]; simp
      have eR : bitsToNat (l ++ List.replicate (8 - l.length) false) = bitsToNat l * 2 ^ (8 - l.length) := by
        rw [bitsToNat_append, c02tie_bitsToNat_zeros]; simp
      rw [eL, eR]
      exact congrArg (fun x => [x]) (c02tie_lastByte _ _ hlen)
  | succ q ih =>
    intro l hq hr
    have hsplit : l = l.take 8 ++ l.drop 8 := (List.take_append_drop 8 l).symm
    have ht : (l.take 8).length = 8 := by rw [List.length_take]; omega
    have hd : (l.drop 8).length = l.length - 8 := List.length_drop
    have hmod : (l.drop 8).length % 8 = l.length % 8 := by rw [hd]; omega
    have e1 : l ++ true :: List.replicate (7 - l.length % 8) false
        = l.take 8 ++ (l.drop 8 ++ true :: List.replicate (7 - (l.drop 8).length % 8) false) := by
      rw [hmod, ← List.append_assoc, List.take_append_drop]
    have hne : bitsToBytes (l.drop 8) ≠ [] := by
      intro he
      have := c02tie_bitsToBytes_length (l.drop 8)
      rw [he, hd] at this
      simp at this
      omega
    rw [e1, bitsToBytes_append8 _ _ ht, ih (l.drop 8) (by rw [hd]; omega) (by rw [hmod]; exact hr), hmod]
    have e2 : bitsToBytes l = UInt8.ofNat (bitsToNat (l.take 8)) :: bitsToBytes (l.drop 8) := by
      conv => lhs; rw [hsplit, bitsToBytes_append8 _ _ ht]
    rw [e2, c02tie_orLast_cons _ _ _ hne]

/-- boc/cell.go `bocReprWithoutRefs`: `copy(res[2:], buffer); if BitSize%8 != 0 { res[len(res)-1] |= 1 << (7 - BitSize%8) }`
with the REGENERATED condition and tag byte, applied to the zero-padded data bytes (`Bits.bitsToBytes bits`, the
canonical `Buffer()`), is the model's `Bits.toppedUp bits`, for every bit length below 2⁶². -/
theorem gen_toppedUp (bits : List Bool) (h : bits.length < 2^62) :
    Bits.toppedUp bits =
      if Gen.CellDesc.tagNeeded (BitVec.ofNat 64 bits.length) then
        orLast (Bits.bitsToBytes bits) (Gen.CellDesc.tagBit (BitVec.ofNat 64 bits.length))
      else Bits.bitsToBytes bits := by
  rw [gen_tagNeeded _ h, gen_tagBit _ h]
  unfold toppedUp addTag
  by_cases hz : bits.length % 8 = 0
  · simp [hz]
  · simp only [hz, ↓reduceIte, ne_eq, not_false_eq_true, decide_true]
    exact c02tie_bitsToBytes_tag _ bits rfl hz

/-- boc/immutable_cell.go `newImmutableCell`: `binary.BigEndian.PutUint16(depthRepr[:], uint16(childDepth))`
regenerated (truncation of the `int` depth to `uint16`, high byte first) is the model's `Tongo.be16`, for every
non-negative depth. -/
theorem gen_depthBytes (d : Nat) (h : d < 2^63) :
    Gen.CellDesc.depthBytes (BitVec.ofNat 64 d) = (Tongo.be16 d).map UInt8.toBitVec := by
  have h1 : (BitVec.ofNat 64 d).toNat = d := by simp; omega
  simp only [Gen.CellDesc.depthBytes, Tongo.be16, List.map_cons, List.map_nil]
  congr 1
  · apply BitVec.eq_of_toNat_eq
    simp [BitVec.toNat_setWidth, BitVec.toNat_ushiftRight, Nat.shiftRight_eq_div_pow]
    omega
  · congr 1
    apply BitVec.eq_of_toNat_eq
    simp

end Tongo.GenTies
