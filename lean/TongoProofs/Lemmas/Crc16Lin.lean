import TongoModel.Prim.Crc16Fast
import TongoGen.Crc16Table
/-! Linearity of the bitwise CRC-16/XMODEM model over XOR, injectivity of the zero step, and the proof that the
table-driven byte step regenerated from utils/crc16.go equals eight bit steps (the XOR-linearity lemmas live in
TongoModel/Prim/Crc16Fast.lean, where they also justify the fast executable CRC). Kernel only (`decide +kernel` for the
256-case facts). -/
namespace Tongo.Crc16
open Tongo.Gen.Crc16Table

/-! ### injectivity of the zero step (the polynomial 0x1021 has constant term 1) -/

theorem zstep_injective {c d : BitVec 16} (h : zstep c = zstep d) : c = d := by
  have hm : c.msb = d.msb := by
    have := congrArg (fun v => v.getLsbD 0) h
    revert this
    unfold zstep
    cases c.msb <;> cases d.msb <;> simp
  have hs : c <<< 1 = d <<< 1 := by
    unfold zstep at h
    rw [hm] at h
    exact xor_right_cancel h
  apply BitVec.eq_of_getLsbD_eq; intro i hi
  by_cases h15 : i = 15
  · subst h15
    have : c.msb = c.getLsbD 15 := by simp [BitVec.msb_eq_getLsbD_last]
    have : d.msb = d.getLsbD 15 := by simp [BitVec.msb_eq_getLsbD_last]
    simp_all
  · have := congrArg (fun v => v.getLsbD (i + 1)) hs
    simp only [BitVec.getLsbD_shiftLeft] at this
    have h1 : i + 1 < 16 := by omega
    simpa [h1] using this

theorem zstep_eq_zero {c : BitVec 16} : zstep c = 0#16 ↔ c = 0#16 :=
  ⟨fun h => zstep_injective (h.trans zstep_zero.symm), fun h => h ▸ zstep_zero⟩

theorem bitStep_injective {c d : BitVec 16} {b : Bool} (h : bitStep c b = bitStep d b) : c = d := by
  unfold bitStep at h
  exact xor_right_cancel (zstep_injective h)

theorem feed_injective {c d : BitVec 16} (bits : List Bool) (h : feed c bits = feed d bits) : c = d := by
  induction bits generalizing c d with
  | nil => exact h
  | cons b bs ih => exact bitStep_injective (ih h)

theorem bitStep_false (c : BitVec 16) : bitStep c false = zstep c := by simp [bitStep, inj]

/-- feeding zero bits keeps the zero register -/
theorem feed_zero_replicate (n : Nat) : feed 0#16 (List.replicate n false) = 0#16 := by
  induction n with
  | zero => rfl
  | succ n ih => simp only [List.replicate_succ, feed, List.foldl_cons, bitStep_false, zstep_zero]; exact ih

/-! ### the byte step through `B x = byteStep x 0` -/

theorem byteStep_zero_zero : byteStep 0#16 0#8 = 0#16 := by decide

/-- 256 cases: the table entry is the register after the byte from the zero register -/
theorem table_getD (x : BitVec 8) : TABLE.getD x.toNat 0#16 = byteStep 0#16 x := by
  revert x; decide +kernel

theorem byteStep_eq_B (c : BitVec 16) (x : Byte) :
    byteStep c x = byteStep (c ^^^ (x.setWidth 16 <<< 8)) 0#8 := by
  have h1 := byteStep_xor c 0#16 0#8 x
  have h2 := byteStep_xor c (x.setWidth 16 <<< 8) 0#8 0#8
  simp only [BitVec.xor_zero, BitVec.zero_xor] at h1 h2
  rw [h1, h2, byteStep_hi]

theorem B_eq_zero {c : BitVec 16} : byteStep c 0#8 = 0#16 ↔ c = 0#16 := by
  constructor
  · intro h
    exact feed_injective (bitsOfByte 0#8) (h.trans byteStep_zero_zero.symm)
  · intro h; rw [h]; exact byteStep_zero_zero

/-- the table-driven step of utils.Crc16 is eight bit steps of the shift register -/
theorem gen_crc16Step_eq (c : BitVec 16) (b : BitVec 8) : crc16Step c b = byteStep c b := by
  have hidx : (((c >>> 8) ^^^ BitVec.setWidth 16 b) &&& 255#16).toNat = (c.extractLsb' 8 8 ^^^ b).toNat := by
    rw [← BitVec.toNat_setWidth_of_le (by omega : 8 ≤ 16) (b := c.extractLsb' 8 8 ^^^ b)]
    congr 1
    apply BitVec.eq_of_getLsbD_eq; intro i hi
    simp only [BitVec.getLsbD_and, BitVec.getLsbD_xor, BitVec.getLsbD_ushiftRight, BitVec.getLsbD_setWidth,
      BitVec.getLsbD_extractLsb']
    by_cases h : i < 8
    · have : (255#16).getLsbD i = true := by
        have : ∀ j : Fin 8, (255#16).getLsbD j.val = true := by decide
        exact this ⟨i, h⟩
      simp [h, hi, this]
    · have : (255#16).getLsbD i = false := by
        have : ∀ j : Fin 16, ¬ j.val < 8 → (255#16).getLsbD j.val = false := by decide
        exact this ⟨i, hi⟩ h
      have hb : b.getLsbD i = false := BitVec.getLsbD_of_ge b i (by omega)
      simp [h, this, hb]
  have hmask : ∀ v : BitVec 16, v &&& 0xffff#16 = v := by
    intro v
    apply BitVec.eq_of_getLsbD_eq; intro i hi
    have : ∀ j : Fin 16, (0xffff#16).getLsbD j.val = true := by decide
    simp [this ⟨i, hi⟩]
  unfold crc16Step
  simp only [hidx, hmask, table_getD]
  -- right-hand side
  have hr := byteStep_split c b
  rw [hr]
  congr 1
  apply BitVec.eq_of_getLsbD_eq; intro i hi
  simp only [BitVec.getLsbD_shiftLeft, BitVec.getLsbD_setWidth, BitVec.getLsbD_extractLsb']
  by_cases h : i < 8
  · simp [h]
  · have h2 : i - 8 < 8 := by omega
    have h3 : i - 8 < 16 := by omega
    simp [h, hi, h2, h3]

/-- the same for the loop of utils.Crc16String -/
theorem gen_crc16StringStep_eq (c : BitVec 16) (b : BitVec 8) : crc16StringStep c b = byteStep c b :=
  gen_crc16Step_eq c b

/-! ### the whole CRC as a bit feed, and the checksum test as "CRC of everything is zero" -/

theorem foldl_byteStep_eq_feed (c : BitVec 16) (bs : List Byte) :
    bs.foldl byteStep c = feed c (bitsOfBytes bs) := by
  induction bs generalizing c with
  | nil => rfl
  | cons b bs ih =>
    simp only [List.foldl_cons, bitsOfBytes, List.flatMap_cons, feed_append]
    exact ih _

theorem crc16_eq_feed (bs : List Byte) : crc16 bs = feed 0#16 (bitsOfBytes bs) :=
  foldl_byteStep_eq_feed _ _

theorem crc16_append (xs ys : List Byte) : crc16 (xs ++ ys) = ys.foldl byteStep (crc16 xs) := by
  simp [crc16, List.foldl_append]

/-- Lemma A: two more bytes bring the register to zero exactly when they spell the register, big-endian -/
theorem byteStep_byteStep_eq_zero (c : BitVec 16) (hi lo : Byte) :
    byteStep (byteStep c hi) lo = 0#16 ↔ c = hi ++ lo := by
  rw [byteStep_eq_B (byteStep c hi) lo, B_eq_zero, byteStep_eq_B c hi, ← byteStep_lo lo]
  have h := byteStep_xor (c ^^^ (hi.setWidth 16 <<< 8)) (lo.setWidth 16) 0#8 0#8
  rw [BitVec.xor_zero] at h
  rw [← h, B_eq_zero]
  have happ : hi ++ lo = (hi.setWidth 16 <<< 8) ^^^ lo.setWidth 16 := by
    apply BitVec.eq_of_getLsbD_eq; intro i hi'
    simp only [BitVec.getLsbD_append, BitVec.getLsbD_xor, BitVec.getLsbD_shiftLeft, BitVec.getLsbD_setWidth]
    by_cases h8 : i < 8
    · simp [h8, hi']
    · have hb : lo.getLsbD i = false := BitVec.getLsbD_of_ge lo i (by omega)
      have h2 : i - 8 < 16 := by omega
      simp [h8, hi', hb, h2]
  rw [happ]
  rw [BitVec.xor_assoc]
  exact BitVec.xor_eq_zero_iff

end Tongo.Crc16
