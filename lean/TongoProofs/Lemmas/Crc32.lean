import TongoModel.Prim.Crc32
/-! The table-driven CRC-32 equals the bitwise one for every input (linearity of the bit step over GF(2)). -/
namespace Tongo.Crc

theorem xor_mod_two (a b : Nat) : (a ^^^ b) % 2 = (a % 2 + b % 2) % 2 := by
  have h := Nat.testBit_xor a b 0
  simp only [Nat.testBit_zero] at h
  rcases Nat.mod_two_eq_zero_or_one a with ha | ha <;> rcases Nat.mod_two_eq_zero_or_one b with hb | hb <;>
    rcases Nat.mod_two_eq_zero_or_one (a ^^^ b) with hc | hc <;> simp_all

/-- the bit step is linear -/
theorem bitStepN_xor (a b : Nat) : bitStepN (a ^^^ b) = bitStepN a ^^^ bitStepN b := by
  unfold bitStepN
  rw [xor_mod_two, Nat.xor_div_two]
  rcases Nat.mod_two_eq_zero_or_one a with ha | ha <;> rcases Nat.mod_two_eq_zero_or_one b with hb | hb <;>
    simp only [ha, hb, Nat.reduceAdd, Nat.reduceMod, Nat.zero_ne_one, if_true, if_false]
  · ac_rfl
  · ac_rfl
  · rw [show a / 2 ^^^ poly32 ^^^ (b / 2 ^^^ poly32) = a / 2 ^^^ b / 2 ^^^ (poly32 ^^^ poly32) by ac_rfl, Nat.xor_self,
      Nat.xor_zero]

theorem iterStepN_xor (k a b : Nat) : iterStepN k (a ^^^ b) = iterStepN k a ^^^ iterStepN k b := by
  induction k generalizing a b with
  | zero => rfl
  | succ k ih => simp only [iterStepN, bitStepN_xor, ih]

theorem bitStepN_two_mul (n : Nat) : bitStepN (2 * n) = n := by
  unfold bitStepN
  rw [if_neg (by omega)]
  omega

theorem iterStepN_high (k m : Nat) : iterStepN k (2 ^ k * m) = m := by
  induction k generalizing m with
  | zero => simp [iterStepN]
  | succ k ih =>
    rw [iterStepN, show 2 ^ (k + 1) * m = 2 * (2 ^ k * m) by rw [Nat.pow_succ]; ac_rfl, bitStepN_two_mul, ih]

theorem split_low (k x : Nat) : x = (x % 2 ^ k) ^^^ (2 ^ k * (x / 2 ^ k)) := by
  apply Nat.eq_of_testBit_eq
  intro i
  rw [Nat.testBit_xor, Nat.testBit_mod_two_pow, Nat.testBit_two_pow_mul, Nat.testBit_div_two_pow]
  by_cases h : i < k
  · simp [h, show ¬ i ≥ k by omega]
  · simp [h, show i ≥ k by omega]

/-- four bit steps = the table entry of the low nibble, xor the rest shifted -/
theorem iterStepN_four (x : Nat) : iterStepN 4 x = iterStepN 4 (x % 16) ^^^ (x / 16) := by
  conv => lhs; rw [split_low 4 x]
  rw [iterStepN_xor, iterStepN_high]

theorem crcTable_spec : ∀ i, i < 16 → crcTable.getD i 0 = iterStepN 4 i := by decide

theorem nibbleStepT_eq (x : Nat) : nibbleStepT x = iterStepN 4 x := by
  unfold nibbleStepT
  rw [iterStepN_four x, crcTable_spec _ (Nat.mod_lt _ (by decide))]

theorem byteStepT_eq (c b : Nat) : byteStepT c b = byteStepN c b := by
  unfold byteStepT byteStepN
  rw [nibbleStepT_eq, nibbleStepT_eq]
  rfl

theorem crc32TAux_eq (bs : List Nat) (c : Nat) : crc32TAux bs c = bs.foldl byteStepN c := by
  induction bs generalizing c with
  | nil => rfl
  | cons b bs ih =>
    simp only [crc32TAux, List.foldl_cons, byteStepT_eq c b]
    split
    · rename_i h; rw [ih, h]
    · rename_i n h; rw [ih, h]

/-- **the table-driven CRC-32 is the bitwise CRC-32** -/
theorem crc32T_eq_crc32N (bs : List Nat) : crc32T bs = crc32N bs := by
  unfold crc32T crc32N
  rw [crc32TAux_eq bs _]

end Tongo.Crc
