import TongoModel.BitOps
import TongoProofs.Lemmas.BitStringBits
/-! Core of the refinement proof: evaluation lemmas for the state transformer `M`, the single-bit write and read, and
the generic "write a list of bits" lemma every write method reduces to. Helper lemmas only. -/
namespace Tongo.BitString
open Tongo.Bits

/-! ### evaluation of `M` programs -/
@[simp] theorem pure_run {α} (a : α) (s : BitString) : (pure a : M α) s = (.ok a, s) := rfl
@[simp] theorem bind_run {α β} (x : M α) (f : α → M β) (s : BitString) :
    (x >>= f) s = match x s with
      | (.ok a, s') => f a s'
      | (.err e, s') => (.err e, s')
      | (.panic p, s') => (.panic p, s') := rfl
@[simp] theorem get_run (s : BitString) : BitString.get s = (.ok s, s) := rfl
@[simp] theorem modify_run (f) (s : BitString) : modify f s = (.ok (), f s) := rfl
@[simp] theorem throwErr_run {α} (e) (s : BitString) : (throwErr e : M α) s = (.err e, s) := rfl
@[simp] theorem throwPanic_run {α} (e) (s : BitString) : (throwPanic e : M α) s = (.panic e, s) := rfl
@[simp] theorem liftO_ok {α} (a : α) (s : BitString) : liftO (.ok a) s = (.ok a, s) := rfl
@[simp] theorem liftO_err {α} (e) (s : BitString) : (liftO (.err e) : M α) s = (.err e, s) := rfl
@[simp] theorem liftO_panic {α} (e) (s : BitString) : (liftO (.panic e) : M α) s = (.panic e, s) := rfl
theorem checkRange_run (n) (s : BitString) :
    checkRange n s = if n ≥ s.cap then (.err errOverflow, s) else (.ok (), s) := rfl
theorem needBits_run (n) (s : BitString) :
    needBits n s = if s.len < s.rCursor + n then (.err errNotEnough, s) else (.ok (), s) := rfl
@[simp] theorem advance_run (n) (s : BitString) : advance n s = (.ok (), { s with rCursor := s.rCursor + n }) := rfl
@[simp] theorem ite_run {α} (c : Prop) [Decidable c] (x y : M α) (s : BitString) :
    (if c then x else y) s = if c then x s else y s := by
  split <;> rfl

theorem bind_assoc' {α β γ} (x : M α) (f : α → M β) (g : β → M γ) :
    (x >>= f) >>= g = x >>= fun a => f a >>= g := by
  funext s
  simp only [bind_run]
  rcases x s with ⟨r, s'⟩
  cases r <;> rfl

theorem pure_bind' {α β} (a : α) (f : α → M β) : (pure a >>= f) = f a := by
  funext s; rfl

theorem bind_pure_unit (x : M Unit) : (x >>= fun _ => pure ()) = x := by
  funext s
  simp only [bind_run]
  rcases x s with ⟨r, s'⟩
  cases r <;> rfl

/-! ### the invariant and the abstraction -/

theorem Inv.len_le_buf {s : BitString} (h : Inv s) : s.len ≤ 8 * s.buf.length := by
  unfold Inv at h; omega

theorem abs_length {s : BitString} (h : s.len ≤ 8 * s.buf.length) : (abs s).length = s.len := by
  simp [abs, List.length_take]; omega

theorem Inv.abs_length {s : BitString} (h : Inv s) : (abs s).length = s.len := BitString.abs_length h.len_le_buf

theorem inv_new (n : Nat) : Inv (new n) := by
  refine ⟨Nat.zero_le _, ?_, Nat.le_refl _, ?_⟩
  · simp [new]; omega
  · simp [new, bytesToBits_replicate_zero]

theorem abs_new (n : Nat) : abs (new n) = [] := by simp [abs, new]

theorem take_succ_set {α} (L : List α) (n : Nat) (v : α) (h : n < L.length) :
    (L.set n v).take (n + 1) = L.take n ++ [v] := by
  apply List.ext_getElem?
  intro i
  rw [List.getElem?_take, List.getElem?_set, List.getElem?_append, List.length_take, List.getElem?_take]
  have hm : min n L.length = n := by omega
  rw [hm]
  by_cases h1 : i < n
  · have : i < n + 1 := by omega
    have : n ≠ i := by omega
    simp [*]
  · by_cases h2 : i = n
    · subst h2; simp [h]
    · have : ¬ i < n + 1 := by omega
      have h3 : i - n ≠ 0 := by omega
      simp [*]

theorem drop_succ_set {α} (L : List α) (n : Nat) (v : α) : (L.set n v).drop (n + 1) = L.drop (n + 1) := by
  apply List.ext_getElem?
  intro i
  rw [List.getElem?_drop, List.getElem?_drop, List.getElem?_set]
  have : n ≠ n + 1 + i := by omega
  simp [this]

/-! ### WriteBit -/

theorem writeBit_run (v : Bool) (s : BitString) : writeBit v s =
    if s.cap ≤ s.len then (.err errOverflow, s)
    else match s.buf[s.len / 8]? with
      | none => (.panic panicIndex, s)
      | some b => (.ok (), { s with buf := s.buf.set (s.len / 8) (setBitByte b s.len v), len := s.len + 1 }) := by
  unfold writeBit
  simp only [bind_run, get_run]
  cases v
  · simp only [Bool.false_eq_true, if_false, off, bind_run, checkRange_run, get_run]
    by_cases h : s.cap ≤ s.len
    · simp [h]
    · simp only [h, if_false]
      cases hb : s.buf[s.len / 8]? <;> simp [setBitByte]
  · simp only [if_true, on, bind_run, checkRange_run, get_run]
    by_cases h : s.cap ≤ s.len
    · simp [h]
    · simp only [h, if_false]
      cases hb : s.buf[s.len / 8]? <;> simp [setBitByte]

theorem writeBit_full (v : Bool) (s : BitString) (h : s.cap ≤ s.len) : writeBit v s = (.err errOverflow, s) := by
  rw [writeBit_run]; simp [h]

/-- a bit write that fits: one more bit, invariant kept, nothing else changes -/
theorem writeBit_ok (v : Bool) (s : BitString) (hi : Inv s) (h : s.len < s.cap) :
    ∃ s', writeBit v s = (.ok (), s') ∧ abs s' = abs s ++ [v] ∧ Inv s' ∧ s'.cap = s.cap ∧ s'.rCursor = s.rCursor ∧
      s'.len = s.len + 1 ∧ s'.buf.length = s.buf.length := by
  obtain ⟨h1, h2, h3, h4⟩ := hi
  have hidx : s.len / 8 < s.buf.length := by omega
  have hb : s.buf[s.len / 8]? = some s.buf[s.len / 8] := List.getElem?_eq_getElem hidx
  refine ⟨{ s with buf := s.buf.set (s.len / 8) (setBitByte s.buf[s.len / 8] s.len v), len := s.len + 1 }, ?_, ?_, ?_, rfl, rfl, rfl, ?_⟩
  · rw [writeBit_run]
    have : ¬ s.cap ≤ s.len := by omega
    simp [this, hb]
  · simp only [abs, bytesToBits_setBit _ _ _ _ hb]
    have hlen : s.len < (bytesToBits s.buf).length := by simp; omega
    exact take_succ_set _ _ _ hlen
  · refine ⟨by simp; omega, by simpa using h2, by simp; omega, ?_⟩
    simp only [bytesToBits_setBit _ _ _ _ hb, drop_succ_set, List.length_set]
    have e : List.drop (s.len + 1) (bytesToBits s.buf) = List.drop 1 (List.drop s.len (bytesToBits s.buf)) := by
      rw [List.drop_drop]
    rw [e, h4, List.drop_replicate, Nat.sub_sub]
  · simp

/-- the executable specification of `WriteUnary` is the bit-list write of `n` ones and a zero -/
theorem writeUnary_spec_eq (n : Nat) : Ideal.writeUnary n = Ideal.write (List.replicate n true ++ [false]) := by
  funext t
  unfold Ideal.writeUnary Ideal.write
  simp only [List.length_append, List.length_replicate, List.length_singleton]
  by_cases h : t.bits.length + (n + 1) ≤ t.cap
  · simp only [h, if_true]
  · simp only [h, if_false]
    congr 3
    rw [List.take_append_of_le_length (by simp; omega), List.take_replicate]
    congr 1; omega

/-! ### writing a list of bits -/

/-- post-state of writing `l`: the prefix that fits is appended, everything else is unchanged -/
def WritePost (s s' : BitString) (l : List Bool) : Prop :=
  abs s' = abs s ++ l.take (s.cap - s.len) ∧ Inv s' ∧ s'.cap = s.cap ∧ s'.rCursor = s.rCursor

theorem writeBitArray_cons (b : Bool) (t : List Bool) :
    writeBitArray (b :: t) = writeBit b >>= fun _ => writeBitArray t := rfl

/-- every bit-list write: `ok` iff it fits, otherwise overflow after the prefix that fits -/
theorem writeBitArray_spec (l : List Bool) (s : BitString) (hi : Inv s) :
    ∃ s', writeBitArray l s = (if s.len + l.length ≤ s.cap then .ok () else .err errOverflow, s') ∧
      WritePost s s' l := by
  induction l generalizing s with
  | nil =>
    refine ⟨s, ?_, ?_, hi, rfl, rfl⟩
    · have := hi.1
      simp [writeBitArray, this]
    · simp
  | cons b t ih =>
    by_cases h : s.len < s.cap
    · obtain ⟨s1, hw, ha, hi1, hc, hr, hl, _⟩ := writeBit_ok b s hi h
      obtain ⟨s2, hw2, ha2, hi2, hc2, hr2⟩ := ih s1 hi1
      refine ⟨s2, ?_, ?_, hi2, by rw [hc2, hc], by rw [hr2, hr]⟩
      · rw [writeBitArray_cons, bind_run, hw]
        simp only [hw2, hl, hc, List.length_cons]
        congr 2
        apply propext; omega
      · rw [ha2, ha, hc, hl, List.append_assoc]
        congr 1
        have : s.cap - s.len = (s.cap - (s.len + 1)) + 1 := by omega
        rw [this, List.take_succ_cons]; rfl
    · have hfull : s.cap ≤ s.len := by omega
      refine ⟨s, ?_, ?_, hi, rfl, rfl⟩
      · rw [writeBitArray_cons, bind_run, writeBit_full b s hfull]
        have : ¬ (s.len + (b :: t).length ≤ s.cap) := by simp; omega
        simp only [this, if_false]
      · have : s.cap - s.len = 0 := by omega
        simp [this]

/-! ### every write method is a bit-list write -/

theorem writeUint_eq (v n : Nat) : writeUint v n = writeBitArray (natToBits n v) := by
  induction n with
  | zero => rfl
  | succ i ih => simp only [writeUint, natToBits, writeBitArray_cons, ih]

theorem writeBitArray_append (a b : List Bool) :
    writeBitArray (a ++ b) = writeBitArray a >>= fun _ => writeBitArray b := by
  induction a with
  | nil => simp [writeBitArray, pure_bind']
  | cons x t ih => simp only [List.cons_append, writeBitArray_cons, ih, bind_assoc']

theorem writeByte_eq (b : UInt8) : writeByte b = writeBitArray (byteToBits b) := by
  simp [writeByte, writeUint_eq, byteToBits]

theorem writeBytes_eq (l : List UInt8) : writeBytes l = writeBitArray (bytesToBits l) := by
  induction l with
  | nil => rfl
  | cons b t ih => simp only [writeBytes, bytesToBits_cons, writeBitArray_append, writeByte_eq, ih]

theorem writeOnes_eq (n : Nat) : writeOnes n = writeBitArray (List.replicate n true) := by
  induction n with
  | zero => rfl
  | succ n ih => simp only [writeOnes, List.replicate_succ, writeBitArray_cons, ih]

theorem writeZeros_eq (n : Nat) : writeZeros n = writeBitArray (List.replicate n false) := by
  induction n with
  | zero => rfl
  | succ n ih => simp only [writeZeros, List.replicate_succ, writeBitArray_cons, ih]

end Tongo.BitString
