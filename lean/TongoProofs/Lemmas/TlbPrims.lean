import TongoProofs.Lemmas.TlbGeneric
/-! `CodecOK_<custom>`: the round-trip lemma of each hand-written codec that the generic theorem relies on. -/
namespace Tongo.Tlb
open Tongo Tongo.Bits

/-! ### arithmetic of bit lengths -/
theorem lt_two_pow_bitLen (v : Nat) : v < 2 ^ Builder.bitLen v := by
  unfold Builder.bitLen
  split
  · subst_vars; simp
  · exact Nat.lt_log2_self

theorem bitLen_mono {a b : Nat} (h : a ≤ b) : Builder.bitLen a ≤ Builder.bitLen b := by
  unfold Builder.bitLen
  by_cases ha : a = 0
  · simp [ha]
  · have hb : b ≠ 0 := by omega
    rw [if_neg ha, if_neg hb]
    have : a.log2 ≤ b.log2 := by
      by_contra hlt
      have hlt' : b.log2 < a.log2 := by omega
      have := (Nat.log2_lt hb).mp hlt'
      have h2 := Nat.log2_self_le ha
      omega
    omega

theorem lt_two_pow_limBits {x n : Nat} (h : x ≤ n) : x < 2 ^ Builder.limBits n :=
  Nat.lt_of_lt_of_le (lt_two_pow_bitLen x) (Nat.pow_le_pow_right (by omega) (bitLen_mono h))

theorem lt_two_pow_bytes (v : Nat) : v < 2 ^ (natBytesLen v * 8) := by
  have h := lt_two_pow_bitLen v
  refine Nat.lt_of_lt_of_le h (Nat.pow_le_pow_right (by omega) ?_)
  unfold natBytesLen; omega

theorem bitLen_le_of_lt {v n : Nat} (h : v < 2 ^ n) : Builder.bitLen v ≤ n := by
  unfold Builder.bitLen
  split
  · omega
  · rename_i hv
    have := (Nat.log2_lt hv).mpr h
    omega

/-! ### unary -/
theorem readUnaryAux_replicate (k a : Nat) (ys : List Bool) :
    Slice.readUnaryAux (List.replicate k true ++ false :: ys) a = some (a + k, ys) := by
  induction k generalizing a with
  | zero => simp [Slice.readUnaryAux]
  | succ k ih =>
    simp only [List.replicate_succ, List.cons_append, Slice.readUnaryAux]
    rw [ih]; congr 2; omega

theorem primOK_unary : PrimOK .unary := by
  intro v b b' _ hd he
  cases v <;> simp only [Prim.inDom, Bool.false_eq_true] at hd
  rename_i n
  simp only [decide_eq_true_eq] at hd
  simp only [Prim.enc, Builder.writeUnary] at he
  split at he
  · cases he
    refine ⟨List.replicate n.toNat true ++ [false], [], by simp [Builder.app], RTs.toRT ?_ _⟩
    intro s _
    have := readUnaryAux_replicate n.toNat 0 s.bits
    simp only [Prim.dec, Slice.readUnary, Slice.prepend, List.append_assoc, List.singleton_append, this,
      Nat.zero_add, bind, Outcome.bind, pure, List.nil_append, Int.toNat_of_nonneg hd]
  · cases he

/-! ### fixed-length text -/
theorem primOK_fixedText : PrimOK .fixedText := by
  intro v b b' _ hd he
  cases v <;> simp only [Prim.inDom, Bool.false_eq_true] at hd
  rename_i bs
  simp only [decide_eq_true_eq] at hd
  simp only [Prim.enc, Builder.writeUint, Builder.writeBytes] at he
  obtain ⟨b1, hb1, he2⟩ := bind_ok_inv he
  have hb1' := Builder.writeBits_ok hb1
  have hb := Builder.writeBits_ok he2
  rw [natToBits_mod64 8 _ (by omega)] at hb1'
  refine ⟨natToBits 8 bs.length ++ bytesToBits bs, [], by rw [hb, hb1', Builder.app_app]; simp, RTs.toRT ?_ _⟩
  intro s hs
  have h1 := Slice.readUint_prepend s 8 bs.length (bytesToBits bs) [] (by omega)
  have h2 := Slice.readBytes_prepend s bs [] []
  simp only [List.append_nil] at h2
  have hl : bs.length % 2 ^ 8 = bs.length := Nat.mod_eq_of_lt (by omega)
  simp only [Prim.dec, h1, hl, h2, bind, Outcome.bind, pure, Slice.prepend_nil]

/-! ### Any -/
theorem primOK_any : PrimOK .any := by
  intro v b b' _ hd he
  cases v <;> simp only [Prim.inDom, Bool.false_eq_true] at hd
  rename_i c
  obtain ⟨ty, mask, bits, refs⟩ := c
  simp only [anyOk, Bool.and_eq_true, beq_iff_eq, decide_eq_true_eq] at hd
  obtain ⟨⟨⟨rfl, rfl⟩, _⟩, _⟩ := hd
  simp only [Prim.enc] at he
  obtain ⟨b1, hb1, he2⟩ := bind_ok_inv he
  have hb1' := Builder.writeBits_ok hb1
  have hb := foldl_addRef_ok refs b1 b' he2
  refine ⟨bits, refs, by rw [hb, hb1', Builder.app_app]; simp, ?_⟩
  intro s _ hc
  rcases hc with hng | ⟨h1, h2, _⟩
  · simp [Prim.greedy] at hng
  · refine ⟨s.prepend bits refs, ?_, fun hng => by simp [Prim.greedy] at hng⟩
    simp only [Prim.dec, Slice.prepend, h1, h2, List.append_nil]

/-! ### wide integers (every width) -/
theorem primOK_bigUint (n : Nat) : PrimOK (.bigUint n) := by
  intro v b b' _ hd he
  cases v <;> simp only [Prim.inDom, Bool.false_eq_true] at hd
  rename_i i
  simp only [Bool.and_eq_true, decide_eq_true_eq] at hd
  simp only [Prim.enc, Builder.writeBigUint] at he
  split at he
  · cases he
  · have hb := Builder.writeBits_ok he
    refine ⟨intToBits n i, [], hb, RTs.toRT ?_ _⟩
    intro s _
    have h1 := Slice.readBits_prepend s (intToBits n i) [] []
    rw [intToBits_length, List.append_nil] at h1
    have hv : (bitsToNat (intToBits n i) : Int) = i := by
      unfold intToBits
      rw [bitsToNat_natToBits, Int.emod_eq_of_lt hd.1 hd.2]
      have hlt : i.toNat < 2 ^ n := by
        have : ((i.toNat : Nat) : Int) < ((2 ^ n : Nat) : Int) := by
          rw [Int.toNat_of_nonneg hd.1]; push_cast; exact hd.2
        exact_mod_cast this
      rw [Nat.mod_eq_of_lt hlt, Int.toNat_of_nonneg hd.1]
    simp only [Prim.dec, Slice.readBigUint, h1, bind, Outcome.bind, pure, hv, Slice.prepend_nil]


theorem bitsToNat_intToBits_nonneg (n : Nat) (i : Int) (h0 : 0 ≤ i) (h1 : i < 2 ^ n) :
    (bitsToNat (intToBits n i) : Int) = i := by
  unfold intToBits
  rw [bitsToNat_natToBits, Int.emod_eq_of_lt h0 h1]
  have hlt : i.toNat < 2 ^ n := by
    have : ((i.toNat : Nat) : Int) < ((2 ^ n : Nat) : Int) := by
      rw [Int.toNat_of_nonneg h0]; push_cast; exact h1
    exact_mod_cast this
  rw [Nat.mod_eq_of_lt hlt, Int.toNat_of_nonneg h0]

/-- what WriteBigInt appends for a representable value: `w` bits whose two's complement value is `x` -/
theorem bigInt_chunk (m : Nat) (i : Int) (b b' : Builder) (hd : -(2 ^ m : Int) ≤ i ∧ i < 2 ^ m)
    (he : b.writeBigInt i (m + 1) = .ok b') :
    ∃ sgn rest, b' = b.app (sgn :: rest) [] ∧ rest.length = m ∧ bitsToInt (sgn :: rest) = i := by
  simp only [Builder.writeBigInt] at he
  by_cases hm : m = 0
  · subst hm
    have hi : i = -1 ∨ i = 0 := by
      have l2 : -(1 : Int) ≤ i := by simpa using hd.1
      have h2 : i < (1 : Int) := by simpa using hd.2
      omega
    rcases hi with rfl | rfl
    · have : b.writeBit true = .ok b' := by simpa using he
      exact ⟨true, [], Builder.writeBits_ok this, rfl, by decide⟩
    · have : b.writeBit false = .ok b' := by simpa using he
      exact ⟨false, [], Builder.writeBits_ok this, rfl, by decide⟩
  · rw [if_neg (by omega)] at he
    simp only [Nat.add_sub_cancel] at he
    by_cases hneg : i < 0
    · rw [if_pos hneg] at he
      obtain ⟨b1, hb1, he2⟩ := bind_ok_inv he
      have hb1' := Builder.writeBits_ok hb1
      simp only [Builder.writeBigUint] at he2
      split at he2
      · cases he2
      · have hb := Builder.writeBits_ok he2
        refine ⟨true, intToBits m (2 ^ m + i), by rw [hb, hb1', Builder.app_app]; simp, intToBits_length _ _, ?_⟩
        rw [bitsToInt_cons, if_pos rfl, intToBits_length,
          bitsToNat_intToBits_nonneg m (2 ^ m + i) (by omega) (by omega)]
        ring
    · rw [if_neg hneg] at he
      obtain ⟨b1, hb1, he2⟩ := bind_ok_inv he
      have hb1' := Builder.writeBits_ok hb1
      simp only [Builder.writeBigUint] at he2
      split at he2
      · cases he2
      · have hb := Builder.writeBits_ok he2
        refine ⟨false, intToBits m i, by rw [hb, hb1', Builder.app_app]; simp, intToBits_length _ _, ?_⟩
        rw [bitsToInt_cons, if_neg (by simp), bitsToNat_intToBits_nonneg m i (by omega) hd.2]

theorem primOK_bigInt (n : Nat) : PrimOK (.bigInt n) := by
  intro v b b' hwf hd he
  cases v <;> simp only [Prim.inDom, Bool.false_eq_true] at hd
  rename_i i
  simp only [Bool.and_eq_true, decide_eq_true_eq] at hd
  simp only [Prim.wf, Bool.and_eq_true, decide_eq_true_eq] at hwf
  obtain ⟨m, rfl⟩ : ∃ m, n = m + 1 := ⟨n - 1, by omega⟩
  simp only [Nat.add_sub_cancel] at hd
  simp only [Prim.enc] at he
  obtain ⟨sgn, rest, hb, hlen, hval⟩ := bigInt_chunk m i b b' hd he
  refine ⟨sgn :: rest, [], hb, RTs.toRT ?_ _⟩
  intro s _
  have h1 := Slice.readBits_prepend s (sgn :: rest) [] []
  simp only [List.length_cons, hlen, List.append_nil] at h1
  simp only [Prim.dec, Slice.readBigInt, h1, bind, Outcome.bind, pure, hval, Slice.prepend_nil]

/-! ### VarUInteger n -/
/-- what `encVarUint` appends, and that `decVarUint` reads it back: for every byte length -/
theorem varUint_chunk (n : Nat) (i : Int) (b b' : Builder) (hn : n - 1 < 2 ^ 64) (h0 : 0 ≤ i)
    (hlen : natBytesLen i.toNat ≤ n - 1) (he : Prim.encVarUint n i b = .ok b') :
    ∃ xs, b' = b.app xs [] ∧
      ∀ (s : Slice) (ys : List Bool) (rs : List Cell),
        Prim.decVarUint n (s.prepend (xs ++ ys) rs) = .ok (i, s.prepend ys rs) := by
  have habs : i.natAbs = i.toNat := by omega
  simp only [Prim.encVarUint, Builder.writeLimUint, Builder.writeUint, habs] at he
  obtain ⟨b1, hb1, he2⟩ := bind_ok_inv he
  have hb1' := Builder.writeBits_ok hb1
  have hb := Builder.writeBits_ok he2
  set L := natBytesLen i.toNat with hL
  have hlb : Builder.limBits (n - 1) ≤ 64 := by
    unfold Builder.limBits; exact bitLen_le_of_lt hn
  rw [natToBits_mod64 _ _ hlb] at hb1'
  refine ⟨natToBits (Builder.limBits (n - 1)) L ++ natToBits (L * 8) i.toNat, by
    rw [hb, hb1', Builder.app_app]; simp, ?_⟩
  intro s ys rs
  have h1 := Slice.readUint_prepend s (Builder.limBits (n - 1)) L (natToBits (L * 8) i.toNat ++ ys) rs hlb
  have hLlt : L % 2 ^ Builder.limBits (n - 1) = L := Nat.mod_eq_of_lt (lt_two_pow_limBits hlen)
  have h2 := Slice.readBits_prepend s (natToBits (L * 8) i.toNat) ys rs
  rw [natToBits_length] at h2
  have hv : (bitsToNat (natToBits (L * 8) i.toNat) : Int) = i := by
    rw [bitsToNat_natToBits, Nat.mod_eq_of_lt (lt_two_pow_bytes i.toNat), Int.toNat_of_nonneg h0]
  simp only [Prim.decVarUint, Slice.readLimUint, List.append_assoc, h1, hLlt, bind, Outcome.bind,
    Slice.readBigUint, h2, pure, hv]

theorem primOK_varUint (n : Nat) : PrimOK (.varUint n) := by
  intro v b b' hwf hd he
  cases v <;> simp only [Prim.inDom, Bool.false_eq_true] at hd
  rename_i i
  simp only [Bool.and_eq_true, decide_eq_true_eq] at hd
  simp only [Prim.wf, Bool.and_eq_true, decide_eq_true_eq] at hwf
  simp only [Prim.enc] at he
  have hn : n - 1 < 2 ^ 64 := by
    have : n - 1 < 32 := by omega
    exact Nat.lt_of_lt_of_le this (by decide)
  obtain ⟨xs, hb, hdec⟩ := varUint_chunk n i b b' hn hd.1 hd.2 he
  refine ⟨xs, [], hb, RTs.toRT ?_ _⟩
  intro s _
  have := hdec s [] []
  simp only [List.append_nil] at this
  simp only [Prim.dec, this, bind, Outcome.bind, pure, Slice.prepend_nil]


theorem natToBits_add (a b v : Nat) : natToBits (a + b) v = natToBits a (v / 2 ^ b) ++ natToBits b v := by
  induction a with
  | zero => simp [natToBits]
  | succ a ih =>
    have : a + 1 + b = (a + b) + 1 := by omega
    rw [this, natToBits, natToBits, ih, Nat.testBit_div_two_pow]
    rfl

/-- Grams.UnmarshalTLB's byte loop reads the big-endian value of `k` bytes (no wrap-around below 2^64) -/
theorem readBytesBE_prepend : ∀ (k acc v : Nat) (s : Slice) (ys : List Bool) (rs : List Cell),
    v < 2 ^ (k * 8) → acc * 2 ^ (k * 8) + v < 2 ^ 64 →
    Prim.readBytesBE k acc (s.prepend (natToBits (k * 8) v ++ ys) rs) = .ok (acc * 2 ^ (k * 8) + v, s.prepend ys rs)
  | 0, acc, v, s, ys, rs, hv, _ => by
    have : v = 0 := by simpa using hv
    subst this
    simp [Prim.readBytesBE, natToBits]
  | k + 1, acc, v, s, ys, rs, hv, hb => by
    have hk : (k + 1) * 8 = 8 + k * 8 := by omega
    rw [hk] at hv hb ⊢
    rw [natToBits_add 8 (k * 8) v, List.append_assoc]
    have hx : v / 2 ^ (k * 8) < 2 ^ 8 := by
      rw [Nat.div_lt_iff_lt_mul (Nat.two_pow_pos _), ← Nat.pow_add]; exact hv
    have h1 := Slice.readUint_prepend s 8 (v / 2 ^ (k * 8)) (natToBits (k * 8) v ++ ys) rs (by omega)
    rw [Nat.mod_eq_of_lt hx] at h1
    have hpow : 2 ^ (8 + k * 8) = 256 * 2 ^ (k * 8) := by rw [Nat.pow_add]
    rw [hpow] at hb
    generalize hP : 2 ^ (k * 8) = P at *
    have hp : 0 < P := by rw [← hP]; exact Nat.two_pow_pos _
    have hdm := Nat.div_add_mod v P
    have hml : v % P < P := Nat.mod_lt _ hp
    generalize hq : v / P = q at *
    generalize hr : v % P = r at *
    have hmul : (q + acc * 256) * P = P * q + acc * (256 * P) := by ring
    have hacc : q + acc * 256 < 2 ^ 64 := by
      have h1 : q + acc * 256 ≤ (q + acc * 256) * P := Nat.le_mul_of_pos_right _ hp
      omega
    simp only [Prim.readBytesBE, h1, bind, Outcome.bind, Nat.mod_eq_of_lt hacc]
    rw [← natToBits_mod (k * 8) v, hP, hr]
    have ih := readBytesBE_prepend k (q + acc * 256) r s ys rs (by rw [hP]; exact hml) (by rw [hP]; omega)
    rw [hP] at ih
    rw [ih]
    congr 2
    rw [hpow]; omega


theorem natBytesLen_le_of_lt {v k : Nat} (h : v < 2 ^ (k * 8)) : natBytesLen v ≤ k := by
  have := bitLen_le_of_lt h
  unfold natBytesLen; omega

/-- the VarUInteger16 chunk written for an amount below 2^64, read back by the byte loop of Grams / SignedCoins -/
theorem grams_chunk (a : Nat) (b b' : Builder) (ha : a < 2 ^ 64) (he : Prim.encVarUint 16 (a : Int) b = .ok b') :
    ∃ xs, b' = b.app xs [] ∧
      ∀ (s : Slice) (ys : List Bool) (rs : List Cell),
        ∃ L, L ≤ 8 ∧ (s.prepend (xs ++ ys) rs).readLimUint 15 = .ok (L, s.prepend (natToBits (L * 8) a ++ ys) rs) ∧
          Prim.readBytesBE L 0 (s.prepend (natToBits (L * 8) a ++ ys) rs) = .ok (a, s.prepend ys rs) := by
  simp only [Prim.encVarUint, Builder.writeLimUint, Builder.writeUint, Int.natAbs_natCast] at he
  obtain ⟨b1, hb1, he2⟩ := bind_ok_inv he
  have hb1' := Builder.writeBits_ok hb1
  have hb := Builder.writeBits_ok he2
  set L := natBytesLen a with hL
  have hL8 : L ≤ 8 := natBytesLen_le_of_lt (by simpa using ha)
  have hlb : Builder.limBits (16 - 1) = 4 := by decide
  rw [hlb] at hb1'
  rw [natToBits_mod64 4 _ (by omega)] at hb1'
  refine ⟨natToBits 4 L ++ natToBits (L * 8) a, by rw [hb, hb1', Builder.app_app]; simp, ?_⟩
  intro s ys rs
  refine ⟨L, hL8, ?_, ?_⟩
  · have h1 := Slice.readUint_prepend s 4 L (natToBits (L * 8) a ++ ys) rs (by omega)
    have : L % 2 ^ 4 = L := Nat.mod_eq_of_lt (by omega)
    have hl15 : Builder.limBits 15 = 4 := by decide
    simp only [Slice.readLimUint, hl15, List.append_assoc, h1, this]
  · have := readBytesBE_prepend L 0 a s ys rs (lt_two_pow_bytes a) (by simpa using ha)
    simpa using this

theorem primOK_grams : PrimOK .grams := by
  intro v b b' _ hd he
  cases v <;> simp only [Prim.inDom, Bool.false_eq_true] at hd
  rename_i i
  simp only [Bool.and_eq_true, decide_eq_true_eq] at hd
  simp only [Prim.enc, Prim.encGrams, Int.emod_eq_of_lt hd.1 hd.2] at he
  obtain ⟨a, rfl⟩ := Int.eq_ofNat_of_zero_le hd.1
  have ha : a < 2 ^ 64 := by exact_mod_cast hd.2
  obtain ⟨xs, hb, hdec⟩ := grams_chunk a b b' ha he
  refine ⟨xs, [], hb, RTs.toRT ?_ _⟩
  intro s _
  obtain ⟨L, hL, h1, h2⟩ := hdec s [] []
  simp only [List.append_nil] at h1 h2
  simp only [Prim.dec, Prim.decGrams, h1, bind, Outcome.bind, if_neg (by omega : ¬ L > 8), h2, pure,
    Slice.prepend_nil]

theorem primOK_signedCoins : PrimOK .signedCoins := by
  intro v b b' _ hd he
  cases v <;> simp only [Prim.inDom, Bool.false_eq_true] at hd
  rename_i i
  simp only [Bool.and_eq_true, decide_eq_true_eq] at hd
  simp only [Prim.enc, Prim.encSignedCoins] at he
  obtain ⟨b1, hb1, he2⟩ := bind_ok_inv he
  have hb1' := Builder.writeBits_ok hb1
  have ha : i.natAbs ≤ 2 ^ 63 := by omega
  obtain ⟨xs, hb, hdec⟩ := grams_chunk i.natAbs b1 b' (by omega) he2
  refine ⟨decide (i < 0) :: xs, [], by rw [hb, hb1', Builder.app_app]; simp, RTs.toRT ?_ _⟩
  intro s _
  obtain ⟨L, hL, h1, h2⟩ := hdec s [] []
  simp only [List.append_nil] at h1 h2
  have hrb := Slice.readBit_prepend s (decide (i < 0)) xs []
  simp only [Prim.dec, Prim.decSignedCoins, hrb, h1, bind, Outcome.bind, if_neg (by omega : ¬ L > 8), h2,
    if_neg (by omega : ¬ i.natAbs > 2 ^ 63), pure, Slice.prepend_nil]
  congr 2
  by_cases hneg : i < 0
  · simp only [hneg, decide_true, ↓reduceIte]
    have h3 : (2 ^ 64 - i.natAbs) % 2 ^ 64 = 2 ^ 64 - i.natAbs := Nat.mod_eq_of_lt (by omega)
    rw [h3]
    generalize hw : 2 ^ 64 - i.natAbs = w
    have hw' : w + i.natAbs = 2 ^ 64 := by omega
    have hw'' : (w : Int) + (i.natAbs : Int) = 2 ^ 64 := by exact_mod_cast hw'
    rw [if_pos (by omega)]
    congr 1
    omega
  · simp only [hneg, decide_false, Bool.false_eq_true, ↓reduceIte]
    rw [if_neg (by omega)]
    congr 1
    omega


/-! ### Anycast -/
theorem anycast_chunk (v : Val) (b b' : Builder) (hd : Prim.anycastDom v = true) (he : Prim.encAnycast v b = .ok b') :
    ∃ xs, b' = b.app xs [] ∧
      ∀ (s : Slice) (ys : List Bool) (rs : List Cell),
        Prim.decAnycast (s.prepend (xs ++ ys) rs) = .ok (v, s.prepend ys rs) := by
  unfold Prim.anycastDom at hd
  split at hd
  · rename_i d p
    simp only [Bool.and_eq_true, decide_eq_true_eq] at hd
    obtain ⟨⟨⟨hd1, hd30⟩, hp0⟩, hp⟩ := hd
    obtain ⟨dn, rfl⟩ := Int.eq_ofNat_of_zero_le (by omega : 0 ≤ d)
    obtain ⟨pn, rfl⟩ := Int.eq_ofNat_of_zero_le hp0
    simp only [Int.toNat_natCast] at hp
    have hdn1 : 1 ≤ dn := by exact_mod_cast hd1
    have hdn30 : dn ≤ 30 := by exact_mod_cast hd30
    have hpn : pn < 2 ^ dn := by exact_mod_cast hp
    simp only [Prim.encAnycast, Builder.writeLimUint, Builder.writeUint, Int.toNat_natCast] at he
    obtain ⟨b1, hb1, he2⟩ := bind_ok_inv he
    have hb1' := Builder.writeBits_ok hb1
    have hb := Builder.writeBits_ok he2
    have hl30 : Builder.limBits 30 = 5 := by decide
    rw [hl30, natToBits_mod64 5 _ (by omega)] at hb1'
    rw [natToBits_mod64 dn _ (by omega)] at hb
    refine ⟨natToBits 5 dn ++ natToBits dn pn, by rw [hb, hb1', Builder.app_app]; simp, ?_⟩
    intro s ys rs
    have h1 := Slice.readUint_prepend s 5 dn (natToBits dn pn ++ ys) rs (by omega)
    have h2 := Slice.readUint_prepend s dn pn ys rs (by omega)
    have hm1 : dn % 2 ^ 5 = dn := Nat.mod_eq_of_lt (by omega)
    have hm2 : pn % 2 ^ dn = pn := Nat.mod_eq_of_lt hpn
    have hm3 : pn % 2 ^ 32 = pn :=
      Nat.mod_eq_of_lt (Nat.lt_of_lt_of_le hpn (Nat.pow_le_pow_right (by omega) (by omega)))
    have hm3i : (pn : Int) % 2 ^ 32 = pn := by exact_mod_cast congrArg (Nat.cast : Nat → Int) hm3
    simp only [Prim.decAnycast, Slice.readLimUint, hl30, List.append_assoc, h1, hm1, bind, Outcome.bind,
      if_neg (by omega : ¬ dn < 1), h2, hm2, pure, Val.list]
    first | rfl | (rw [hm3i]) | (simp only [hm3i]) | (push_cast; rw [hm3i])
  · cases hd

theorem maybeAnycast_chunk (v : Val) (b b' : Builder) (hd : Prim.maybeAnycastDom v = true)
    (he : Prim.encMaybeAnycast v b = .ok b') :
    ∃ xs, b' = b.app xs [] ∧
      ∀ (s : Slice) (ys : List Bool) (rs : List Cell),
        Prim.decMaybeAnycast (s.prepend (xs ++ ys) rs) = .ok (v, s.prepend ys rs) := by
  unfold Prim.maybeAnycastDom at hd
  split at hd
  · simp only [Prim.encMaybeAnycast, Builder.writeBit] at he
    have hb := Builder.writeBits_ok he
    refine ⟨[false], hb, ?_⟩
    intro s ys rs
    have := Slice.readBit_prepend s false ys rs
    simp only [Prim.decMaybeAnycast, List.singleton_append, this, bind, Outcome.bind, Bool.false_eq_true,
      ↓reduceIte, pure]
  · rename_i a
    simp only [Prim.encMaybeAnycast, Builder.writeBit] at he
    obtain ⟨b1, hb1, he2⟩ := bind_ok_inv he
    have hb1' := Builder.writeBits_ok hb1
    obtain ⟨xs, hb, hdec⟩ := anycast_chunk a b1 b' hd he2
    refine ⟨true :: xs, by rw [hb, hb1', Builder.app_app]; simp, ?_⟩
    intro s ys rs
    have := Slice.readBit_prepend s true (xs ++ ys) rs
    simp only [Prim.decMaybeAnycast, List.cons_append, this, bind, Outcome.bind, ↓reduceIte, hdec, pure, Val.some]
  · cases hd

theorem primOK_anycast : PrimOK .anycast := by
  intro v b b' _ hd he
  simp only [Prim.inDom] at hd
  have hd' : Prim.anycastDom v = true := by
    cases v <;> first | exact hd | (simp [Prim.inDom] at hd)
  simp only [Prim.enc] at he
  have he' : Prim.encAnycast v b = .ok b' := by
    cases v <;> first | exact he | (simp [Prim.anycastDom] at hd')
  obtain ⟨xs, hb, hdec⟩ := anycast_chunk v b b' hd' he'
  refine ⟨xs, [], hb, RTs.toRT ?_ _⟩
  intro s _
  have := hdec s [] []
  simp only [List.append_nil] at this
  simp only [Prim.dec, this, Slice.prepend_nil]


theorem natToBits_small (n v : Nat) (hn : n ≤ 64) (hv : v < 2 ^ 64) : natToBits n (v % 2 ^ 64) = natToBits n v := by
  rw [Nat.mod_eq_of_lt hv]

/-! ### MsgAddress: four constructors -/
theorem primOK_msgAddress : PrimOK .msgAddress := by
  intro v b b' _ hd he
  simp only [Prim.enc] at he
  unfold Prim.inDom at hd
  split at hd <;> try (cases hd; done)
  all_goals try (rename_i hp; cases hp; done)
  · -- addr_none$00
    simp only [Prim.encMsgAddress, Builder.writeUint] at he
    have hb := Builder.writeBits_ok he
    refine ⟨_, [], hb, RTs.toRT ?_ _⟩
    intro s _
    have h1 := Slice.readUint_prepend s 2 0 [] [] (by omega)
    simp only [List.append_nil] at h1
    simp only [Prim.dec, Prim.decMsgAddress, show (0 % 2 ^ 64) = 0 from rfl, h1, bind, Outcome.bind,
      show (0 % 2 ^ 2 = 0) from rfl, ↓reduceIte, pure, Slice.prepend_nil]
    rfl
  · -- addr_extern$01 len:(## 9) external_address:(bits len)
    rename_i bs _
    simp only [decide_eq_true_eq] at hd
    simp only [Prim.encMsgAddress, Builder.writeUint] at he
    obtain ⟨b1, hb1, he2⟩ := bind_ok_inv he
    rw [if_neg (by omega)] at he2
    obtain ⟨b2, hb2, he3⟩ := bind_ok_inv he2
    have e1 := Builder.writeBits_ok hb1
    have e2 := Builder.writeBits_ok hb2
    have e3 := Builder.writeBits_ok he3
    rw [natToBits_mod64 9 _ (by omega)] at e2
    refine ⟨natToBits 2 1 ++ (natToBits 9 bs.length ++ bs), [], by
      rw [e3, e2, e1, Builder.app_app, Builder.app_app]; simp, RTs.toRT ?_ _⟩
    intro s _
    have h1 := Slice.readUint_prepend s 2 1 (natToBits 9 bs.length ++ bs) [] (by omega)
    have h2 := Slice.readUint_prepend s 9 bs.length bs [] (by omega)
    have h3 := Slice.readBits_prepend s bs [] []
    simp only [List.append_nil] at h3
    have hm : bs.length % 2 ^ 9 = bs.length := Nat.mod_eq_of_lt (by omega)
    simp only [Prim.dec, Prim.decMsgAddress, h1, bind, Outcome.bind, show (1 % 2 ^ 2 = 1) from rfl,
      show ((1 : Nat) = 0) = False from by simp, ↓reduceIte, h2, hm, h3, pure, Slice.prepend_nil]
    rfl
  · -- addr_std$10 anycast:(Maybe Anycast) workchain_id:int8 address:bits256
    rename_i a wc addr _
    simp only [Bool.and_eq_true, decide_eq_true_eq, beq_iff_eq] at hd
    obtain ⟨⟨⟨hda, hwlo⟩, hwhi⟩, hlen⟩ := hd
    simp only [Prim.encMsgAddress, Builder.writeUint, Builder.writeInt_wide _ _ 8 (by omega), Builder.writeBytes] at he
    obtain ⟨b1, hb1, he2⟩ := bind_ok_inv he
    obtain ⟨b2, hb2, he3⟩ := bind_ok_inv he2
    obtain ⟨b3, hb3, he4⟩ := bind_ok_inv he3
    have e1 := Builder.writeBits_ok hb1
    obtain ⟨xa, e2, hdeca⟩ := maybeAnycast_chunk a b1 b2 hda hb2
    have e3 := Builder.writeBits_ok hb3
    have e4 := Builder.writeBits_ok he4
    refine ⟨natToBits 2 2 ++ (xa ++ (Builder.intBitsGo wc 8 ++ bytesToBits addr)), [], by
      rw [e4, e3, e2, e1, Builder.app_app, Builder.app_app, Builder.app_app]; simp, RTs.toRT ?_ _⟩
    intro s _
    have h1 := Slice.readUint_prepend s 2 2 (xa ++ (Builder.intBitsGo wc 8 ++ bytesToBits addr)) [] (by omega)
    have h2 := hdeca s (Builder.intBitsGo wc 8 ++ bytesToBits addr) []
    have h3 := Slice.readInt_prepend s 8 wc (bytesToBits addr) [] (by omega) (by omega) (by simpa using hwlo)
      (by simpa using hwhi)
    have h4 := Slice.readBytes_prepend s addr [] []
    simp only [List.append_nil, hlen] at h4
    simp only [Prim.dec, Prim.decMsgAddress, h1, bind, Outcome.bind, show (2 % 2 ^ 2 = 2) from rfl,
      show ((2 : Nat) = 0) = False from by simp, show ((2 : Nat) = 1) = False from by simp, ↓reduceIte, h2, h3, h4,
      pure, Slice.prepend_nil]
    rfl
  · -- addr_var$11 anycast:(Maybe Anycast) addr_len:(## 9) workchain_id:int32 address:(bits addr_len)
    rename_i a len wc bs _
    simp only [Bool.and_eq_true, decide_eq_true_eq, beq_iff_eq] at hd
    obtain ⟨⟨⟨⟨hda, hl⟩, hl511⟩, hwlo⟩, hwhi⟩ := hd
    subst hl
    simp only [Prim.encMsgAddress, Builder.writeUint, Builder.writeInt_wide _ _ 32 (by omega), Int.toNat_natCast] at he
    obtain ⟨b1, hb1, he2⟩ := bind_ok_inv he
    obtain ⟨b2, hb2, he3⟩ := bind_ok_inv he2
    obtain ⟨b3, hb3, he4⟩ := bind_ok_inv he3
    obtain ⟨b4, hb4, he5⟩ := bind_ok_inv he4
    have e1 := Builder.writeBits_ok hb1
    obtain ⟨xa, e2, hdeca⟩ := maybeAnycast_chunk a b1 b2 hda hb2
    have e3 := Builder.writeBits_ok hb3
    have e4 := Builder.writeBits_ok hb4
    have e5 := Builder.writeBits_ok he5
    rw [natToBits_mod64 9 _ (by omega)] at e3
    refine ⟨natToBits 2 3 ++ (xa ++ (natToBits 9 bs.length ++ (Builder.intBitsGo wc 32 ++ bs))), [], by
      rw [e5, e4, e3, e2, e1, Builder.app_app, Builder.app_app, Builder.app_app, Builder.app_app]; simp,
      RTs.toRT ?_ _⟩
    intro s _
    have h1 := Slice.readUint_prepend s 2 3 (xa ++ (natToBits 9 bs.length ++ (Builder.intBitsGo wc 32 ++ bs))) []
      (by omega)
    have h2 := hdeca s (natToBits 9 bs.length ++ (Builder.intBitsGo wc 32 ++ bs)) []
    have h3 := Slice.readUint_prepend s 9 bs.length (Builder.intBitsGo wc 32 ++ bs) [] (by omega)
    have h4 := Slice.readInt_prepend s 32 wc bs [] (by omega) (by omega) (by simpa using hwlo) (by simpa using hwhi)
    have h5 := Slice.readBits_prepend s bs [] []
    simp only [List.append_nil] at h5
    have hm : bs.length % 2 ^ 9 = bs.length := Nat.mod_eq_of_lt (by omega)
    simp only [Prim.dec, Prim.decMsgAddress, h1, bind, Outcome.bind, show (3 % 2 ^ 2 = 3) from rfl,
      show ((3 : Nat) = 0) = False from by simp, show ((3 : Nat) = 1) = False from by simp,
      show ((3 : Nat) = 2) = False from by simp, ↓reduceIte, h2, h3, hm, h4, h5, pure, Slice.prepend_nil]
    rfl


/-- a fixed bit pattern written in one go is read back by any decoder that evaluates to the expected result on it -/
theorem enum_case {dec : Slice → Outcome (Val × Slice)} {b b' : Builder} {xs : List Bool} {v : Val} {p : Prop}
    (he : b.writeBits xs = .ok b')
    (hdec : ∀ s : Slice, dec (s.prepend xs []) = .ok (v, s)) :
    ∃ ys rs, b' = b.app ys rs ∧ RT dec p v ys rs :=
  ⟨xs, [], Builder.writeBits_ok he, RTs.toRT (fun s _ => hdec s) _⟩

theorem primOK_accountStatus : PrimOK .accountStatus := by
  intro v b b' _ hd he
  cases v <;> simp only [Prim.inDom, Bool.false_eq_true] at hd
  rename_i bs
  simp only [Bool.or_eq_true, beq_iff_eq] at hd
  simp only [Prim.enc] at he
  rcases hd with ((rfl | rfl) | rfl) | rfl
  · refine enum_case (xs := natToBits 2 0) (by simpa [Prim.encAccountStatus, Builder.writeUint] using he) ?_
    intro s
    have h := Slice.readUint_prepend s 2 0 [] [] (by omega)
    simp only [List.append_nil] at h
    simp [Prim.dec, Prim.decAccountStatus, h, bind, Outcome.bind, pure]
  · refine enum_case (xs := natToBits 2 1) (by simpa [Prim.encAccountStatus, Builder.writeUint, Prim.s_frozen, Prim.s_uninit] using he) ?_
    intro s
    have h := Slice.readUint_prepend s 2 1 [] [] (by omega)
    simp only [List.append_nil] at h
    simp [Prim.dec, Prim.decAccountStatus, h, bind, Outcome.bind, pure]
  · refine enum_case (xs := natToBits 2 2) (by simpa [Prim.encAccountStatus, Builder.writeUint, Prim.s_frozen, Prim.s_uninit, Prim.s_active] using he) ?_
    intro s
    have h := Slice.readUint_prepend s 2 2 [] [] (by omega)
    simp only [List.append_nil] at h
    simp [Prim.dec, Prim.decAccountStatus, h, bind, Outcome.bind, pure]
  · refine enum_case (xs := natToBits 2 3) (by simpa [Prim.encAccountStatus, Builder.writeUint, Prim.s_frozen, Prim.s_uninit, Prim.s_active, Prim.s_nonexist] using he) ?_
    intro s
    have h := Slice.readUint_prepend s 2 3 [] [] (by omega)
    simp only [List.append_nil] at h
    simp [Prim.dec, Prim.decAccountStatus, h, bind, Outcome.bind, pure]


theorem writeBits_writeBits (b : Builder) (xs ys : List Bool) :
    (b.writeBits xs >>= fun b1 => b1.writeBits ys) = b.writeBits (xs ++ ys) := by
  unfold Builder.writeBits
  by_cases h1 : b.bits.length + xs.length ≤ cellBits
  · rw [if_pos h1]
    simp only [bind, Outcome.bind, List.length_append]
    by_cases h2 : b.bits.length + xs.length + ys.length ≤ cellBits
    · rw [if_pos h2, if_pos (by omega)]; simp
    · rw [if_neg h2, if_neg (by omega)]
  · rw [if_neg h1, if_neg (by simp only [List.length_append]; omega)]
    rfl

theorem primOK_accStatusChange : PrimOK .accStatusChange := by
  intro v b b' _ hd he
  cases v <;> simp only [Prim.inDom, Bool.false_eq_true] at hd
  rename_i bs
  simp only [Bool.or_eq_true, beq_iff_eq] at hd
  simp only [Prim.enc] at he
  rcases hd with (rfl | rfl) | rfl
  · refine enum_case (xs := [false]) (by simpa [Prim.encAccStatusChange, Builder.writeBit] using he) ?_
    intro s
    have h := Slice.readBit_prepend s false [] []
    simp [Prim.dec, Prim.decAccStatusChange, h, bind, Outcome.bind, pure]
  · have he' : b.writeBits [true, false] = .ok b' := by
      have := writeBits_writeBits b [true] [false]
      simp only [List.singleton_append] at this
      rw [← this]
      simpa [Prim.encAccStatusChange, Prim.s_acst_frozen, Prim.s_acst_unchanged, Prim.s_acst_deleted,
        Builder.writeBit] using he
    refine enum_case he' ?_
    intro s
    have h := Slice.readBit_prepend s true [false] []
    have h2 := Slice.readBit_prepend s false [] []
    simp [Prim.dec, Prim.decAccStatusChange, h, h2, bind, Outcome.bind, pure]
  · have he' : b.writeBits [true, true] = .ok b' := by
      have := writeBits_writeBits b [true] [true]
      simp only [List.singleton_append] at this
      rw [← this]
      simpa [Prim.encAccStatusChange, Prim.s_acst_frozen, Prim.s_acst_unchanged, Prim.s_acst_deleted,
        Builder.writeBit] using he
    refine enum_case he' ?_
    intro s
    have h := Slice.readBit_prepend s true [true] []
    have h2 := Slice.readBit_prepend s true [] []
    simp [Prim.dec, Prim.decAccStatusChange, h, h2, bind, Outcome.bind, pure]

theorem primOK_computeSkipReason : PrimOK .computeSkipReason := by
  intro v b b' _ hd he
  cases v <;> simp only [Prim.inDom, Bool.false_eq_true] at hd
  rename_i bs
  simp only [Bool.or_eq_true, beq_iff_eq] at hd
  simp only [Prim.enc] at he
  rcases hd with ((rfl | rfl) | rfl) | rfl
  · refine enum_case (xs := natToBits 2 0) (by simpa [Prim.encComputeSkipReason, Builder.writeUint] using he) ?_
    intro s
    have h := Slice.readUint_prepend s 2 0 [] [] (by omega)
    simp only [List.append_nil] at h
    simp [Prim.dec, Prim.decComputeSkipReason, h, bind, Outcome.bind, pure]
  · refine enum_case (xs := natToBits 2 1) (by simpa [Prim.encComputeSkipReason, Builder.writeUint, Prim.s_cskip_no_state, Prim.s_cskip_bad_state] using he) ?_
    intro s
    have h := Slice.readUint_prepend s 2 1 [] [] (by omega)
    simp only [List.append_nil] at h
    simp [Prim.dec, Prim.decComputeSkipReason, h, bind, Outcome.bind, pure]
  · refine enum_case (xs := natToBits 2 2) (by simpa [Prim.encComputeSkipReason, Builder.writeUint, Prim.s_cskip_no_state, Prim.s_cskip_bad_state, Prim.s_cskip_no_gas] using he) ?_
    intro s
    have h := Slice.readUint_prepend s 2 2 [] [] (by omega)
    simp only [List.append_nil] at h
    simp [Prim.dec, Prim.decComputeSkipReason, h, bind, Outcome.bind, pure]
  · have he' : b.writeBits (natToBits 2 3 ++ natToBits 1 0) = .ok b' := by
      rw [← writeBits_writeBits]
      simpa [Prim.encComputeSkipReason, Builder.writeUint, Prim.s_cskip_no_state, Prim.s_cskip_bad_state,
        Prim.s_cskip_no_gas, Prim.s_cskip_suspended] using he
    refine enum_case he' ?_
    intro s
    have h := Slice.readUint_prepend s 2 3 (natToBits 1 0) [] (by omega)
    have h2 := Slice.readUint_prepend s 1 0 [] [] (by omega)
    simp only [List.append_nil] at h2
    simp [Prim.dec, Prim.decComputeSkipReason, h, h2, bind, Outcome.bind, pure]

/-- the chunk a wallet payload list serialises to: the modes (8 bits each) and the message cells -/
def payloadChunk : Val → List Bool × List Cell
  | .cons (.cons (.cons (.cell c) .nil) (.cons (.int mode) .nil)) rest =>
    (natToBits 8 mode.toNat ++ (payloadChunk rest).1, c :: (payloadChunk rest).2)
  | _ => ([], [])

theorem payload_enc (v : Val) : ∀ (b b' : Builder), Prim.payloadDom v = true →
    Prim.encPayloadItems v b = .ok b' → b' = b.app (payloadChunk v).1 (payloadChunk v).2 := by
  fun_induction Prim.payloadDom v with
  | case1 =>
    intro b b' _ he
    simp only [Prim.encPayloadItems] at he; cases he
    simp [payloadChunk]
  | case2 c mode rest ih =>
    intro b b' hd he
    simp only [Bool.and_eq_true, decide_eq_true_eq] at hd
    obtain ⟨⟨⟨_, hm0⟩, hm1⟩, hrest⟩ := hd
    simp only [Prim.encPayloadItems, Builder.writeUint] at he
    obtain ⟨b1, hb1, he2⟩ := bind_ok_inv he
    obtain ⟨b2, hb2, he3⟩ := bind_ok_inv he2
    have e1 := Builder.writeBits_ok hb1
    rw [natToBits_mod64 8 _ (by omega)] at e1
    have e2 := Builder.addRef_ok hb2
    have e3 := ih b2 b' hrest he3
    rw [e3, e2, e1, Builder.app_app, Builder.app_app]
    simp [payloadChunk]
  | case3 v h1 h2 =>
    intro b b' hd _
    cases hd

theorem payloadChunk_refs_len (v : Val) : (payloadChunk v).2.length ≤ Prim.valLen v := by
  fun_induction payloadChunk v with
  | case1 c mode rest ih => simp [Prim.valLen]; omega
  | case2 v h => simp

theorem payload_dec (v : Val) : ∀ (fuel : Nat) (acc : List Val) (s : Slice), Prim.payloadDom v = true →
    s.refs = [] → (payloadChunk v).2.length < fuel →
    Prim.decPayloadAux fuel (s.prepend (payloadChunk v).1 (payloadChunk v).2) acc =
      .ok (acc.reverse.foldr Val.cons v, s) := by
  fun_induction Prim.payloadDom v with
  | case1 =>
    intro fuel acc s _ hs hf
    cases fuel with
    | zero => simp [payloadChunk] at hf
    | succ fuel =>
      simp only [payloadChunk, Slice.prepend_nil, Prim.decPayloadAux, hs]
      congr 2
      induction acc.reverse with
      | nil => rfl
      | cons a t ih => simp [Val.list, ih]
  | case2 c mode rest ih =>
    intro fuel acc s hd hs hf
    simp only [Bool.and_eq_true, decide_eq_true_eq] at hd
    obtain ⟨⟨⟨_, hm0⟩, hm1⟩, hrest⟩ := hd
    cases fuel with
    | zero => simp at hf
    | succ fuel =>
      simp only [payloadChunk, List.length_cons] at hf
      have hr : (s.prepend (payloadChunk (.cons (.cons (.cons (.cell c) .nil) (.cons (.int mode) .nil)) rest)).1
          (payloadChunk (.cons (.cons (.cons (.cell c) .nil) (.cons (.int mode) .nil)) rest)).2).refs
          = c :: ((payloadChunk rest).2 ++ s.refs) := by simp [payloadChunk, Slice.prepend]
      have h1 := Slice.readUint_prepend s 8 mode.toNat (payloadChunk rest).1 (payloadChunk rest).2 (by omega)
      have hm : mode.toNat % 2 ^ 8 = mode.toNat := Nat.mod_eq_of_lt (by omega)
      have hslice : ({ (s.prepend (payloadChunk (.cons (.cons (.cons (.cell c) .nil) (.cons (.int mode) .nil)) rest)).1
          (payloadChunk (.cons (.cons (.cons (.cell c) .nil) (.cons (.int mode) .nil)) rest)).2) with
            refs := (payloadChunk rest).2 ++ s.refs } : Slice)
          = s.prepend (natToBits 8 mode.toNat ++ (payloadChunk rest).1) (payloadChunk rest).2 := by
        simp [payloadChunk, Slice.prepend]
      rw [Prim.decPayloadAux]
      simp only [hr, hslice, h1, hm, bind, Outcome.bind]
      rw [ih fuel _ s hrest hs (by omega)]
      simp [Val.list, Val.some, Int.toNat_of_nonneg hm0]
  | case3 v h1 h2 =>
    intro fuel acc s hd
    cases hd

theorem primOK_payloadV1toV4 : PrimOK .payloadV1toV4 := by
  intro v b b' _ hd he
  have hd' : Prim.valLen v ≤ 4 ∧ Prim.payloadDom v = true := by
    cases v <;> simpa [Prim.inDom] using hd
  have he' : Prim.encPayloadV1toV4 v b = .ok b' := by
    cases v <;> first | exact he | (simp [Prim.payloadDom] at hd')
  simp only [Prim.encPayloadV1toV4, if_neg (by omega : ¬ Prim.valLen v > 4)] at he'
  refine ⟨_, _, payload_enc v b b' hd'.2 he', ?_⟩
  intro s _ hc
  rcases hc with hng | ⟨h1, h2, _⟩
  · simp [Prim.greedy] at hng
  · refine ⟨s, ?_, fun _ => rfl⟩
    have := payload_dec v ((s.prepend (payloadChunk v).1 (payloadChunk v).2).refs.length + 1) [] s hd'.2 h2
      (by simp [Slice.prepend, h2])
    simpa [Prim.dec, Prim.decPayloadV1toV4] using this


theorem primOK_vmCellSlice : PrimOK .vmCellSlice := by
  intro v b b' _ hd he
  unfold Prim.inDom at hd
  split at hd <;> try (cases hd; done)
  all_goals try (rename_i hp; cases hp; done)
  rename_i c a e x y _
  simp only [Bool.and_eq_true, decide_eq_true_eq] at hd
  obtain ⟨⟨⟨⟨hok, ha0⟩, hab⟩, hx0⟩, hxy⟩ := hd
  simp only [Prim.enc, Prim.encVmCellSlice] at he
  rw [if_neg (by omega), if_neg (by omega)] at he
  split at he
  · cases he
  · split at he
    · cases he
    · rename_i hb1 hr1
      obtain ⟨b1, h1, he2⟩ := bind_ok_inv he
      obtain ⟨b2, h2, he3⟩ := bind_ok_inv he2
      obtain ⟨b3, h3, he4⟩ := bind_ok_inv he3
      obtain ⟨b4, h4, he5⟩ := bind_ok_inv he4
      have hcb : Prim.cellBitSize c ≤ cellBits ∧ Prim.cellRefsSize c ≤ cellRefs := by
        cases c; simp only [cellOk, Bool.and_eq_true, decide_eq_true_eq] at hok
        exact ⟨hok.1.2, hok.2⟩
      have he1023 : e.toNat < 2 ^ 10 := by have := hcb.1; simp only [cellBits] at this; omega
      have ha1023 : a.toNat < 2 ^ 10 := by omega
      have hy4 : y.toNat ≤ 4 := by have := hcb.2; simp only [cellRefs] at this; omega
      have hx4 : x.toNat ≤ 4 := by omega
      have e1 := Builder.addRef_ok h1
      have e2 := Builder.writeBits_ok h2
      have e3 := Builder.writeBits_ok h3
      have hl4 : Builder.limBits 4 = 3 := by decide
      simp only [Builder.writeLimUint, hl4, Builder.writeUint] at h4 he5
      have e4 := Builder.writeBits_ok h4
      have e5 := Builder.writeBits_ok he5
      rw [natToBits_mod64 10 _ (by omega)] at e2 e3
      rw [natToBits_mod64 3 _ (by omega)] at e4 e5
      refine ⟨natToBits 10 a.toNat ++ (natToBits 10 e.toNat ++ (natToBits 3 x.toNat ++ natToBits 3 y.toNat)), [c], by
        rw [e5, e4, e3, e2, e1, Builder.app_app, Builder.app_app, Builder.app_app, Builder.app_app]; simp,
        RTs.toRT ?_ _⟩
      intro s _
      have r0 := Slice.nextRef_prepend s
        (natToBits 10 a.toNat ++ (natToBits 10 e.toNat ++ (natToBits 3 x.toNat ++ natToBits 3 y.toNat))) c []
      have r1 := Slice.readUint_prepend s 10 a.toNat (natToBits 10 e.toNat ++ (natToBits 3 x.toNat ++ natToBits 3 y.toNat)) []
        (by omega)
      have r2 := Slice.readUint_prepend s 10 e.toNat (natToBits 3 x.toNat ++ natToBits 3 y.toNat) [] (by omega)
      have r3 := Slice.readUint_prepend s 3 x.toNat (natToBits 3 y.toNat) [] (by omega)
      have r4 := Slice.readUint_prepend s 3 y.toNat [] [] (by omega)
      simp only [List.append_nil] at r4
      have m1 : a.toNat % 2 ^ 10 = a.toNat := Nat.mod_eq_of_lt ha1023
      have m2 : e.toNat % 2 ^ 10 = e.toNat := Nat.mod_eq_of_lt he1023
      have m3 : x.toNat % 2 ^ 3 = x.toNat := Nat.mod_eq_of_lt (by omega)
      have m4 : y.toNat % 2 ^ 3 = y.toNat := Nat.mod_eq_of_lt (by omega)
      simp only [Prim.dec, Prim.decVmCellSlice, r0, bind, Outcome.bind, r1, m1, r2, m2, Slice.readLimUint, hl4, r3, m3,
        r4, m4, if_neg (by omega : ¬ a.toNat > e.toNat), if_neg (by omega : ¬ x.toNat > y.toNat), pure,
        Slice.prepend_nil]
      simp only [Int.toNat_of_nonneg (by omega : 0 ≤ e), Int.toNat_of_nonneg (by omega : 0 ≤ y),
        Int.toNat_of_nonneg ha0, Int.toNat_of_nonneg hx0, Val.list, Val.some]
      rw [if_neg (by omega), if_neg (by omega)]


theorem cellDepth_mk (ty mask : Nat) (bits : List Bool) (refs : List Cell) :
    cellDepth (.mk ty mask bits refs) = 1 + cellDepthList refs := by
  rw [cellDepth]

theorem cellDepthList_single (c : Cell) : cellDepthList [c] = cellDepth c := by
  rw [cellDepthList, cellDepthList]; simp

/-- what the snake encoder appends: a prefix of the bits and at most one reference holding the rest -/
theorem snake_enc : ∀ (fuel : Nat) (bs : List Bool) (b b' : Builder),
    Prim.encSnakeAux fuel bs b = .ok b' →
    ∃ xs rs, b' = b.app xs rs ∧
      (rs = [] ∧ xs = bs ∨
       ∃ c, rs = [c] ∧ ∀ f, cellDepth c ≤ f → ∃ tail, Prim.decSnakeCell f c = .ok tail ∧ xs ++ tail = bs)
  | 0, _, _, _, h => by simp [Prim.encSnakeAux] at h
  | fuel + 1, bs, b, b', h => by
    simp only [Prim.encSnakeAux] at h
    split at h
    · obtain ⟨b1, hb1, h2⟩ := bind_ok_inv h
      obtain ⟨child, hc, h3⟩ := bind_ok_inv h2
      have e1 := Builder.writeBits_ok hb1
      have e3 := Builder.addRef_ok h3
      obtain ⟨xs', rs', hch, hcase⟩ := snake_enc fuel _ Builder.empty child hc
      refine ⟨bs.take (cellBits - b.bits.length), [child.toCell], by
        rw [e3, e1, Builder.app_app]; simp, Or.inr ⟨_, rfl, ?_⟩⟩
      intro f hf
      have hcell : child.toCell = Cell.mk 0 0 xs' rs' := by
        rw [hch]; simp [Builder.empty, Builder.app, Builder.toCell]
      rw [hcell] at hf ⊢
      rw [cellDepth_mk] at hf
      cases f with
      | zero => omega
      | succ f =>
        rcases hcase with ⟨rfl, rfl⟩ | ⟨c, rfl, hc'⟩
        · refine ⟨_, ?_, List.take_append_drop _ _⟩
          simp [Prim.decSnakeCell, tyLibrary]
        · rw [cellDepthList_single] at hf
          obtain ⟨tail, ht, hcat⟩ := hc' f (by omega)
          refine ⟨xs' ++ tail, ?_, by rw [hcat]; exact List.take_append_drop _ _⟩
          simp [Prim.decSnakeCell, tyLibrary, ht, bind, Outcome.bind, pure]
    · have e := Builder.writeBits_ok h
      exact ⟨bs, [], e, Or.inl ⟨rfl, rfl⟩⟩

/-- the snake decoder on the tail of a cell that ends with the snake chunk -/
theorem snake_dec (bs xs : List Bool) (rs : List Cell) (s : Slice) (h1 : s.bits = []) (h2 : s.refs = [])
    (hcase : rs = [] ∧ xs = bs ∨
       ∃ c, rs = [c] ∧ ∀ f, cellDepth c ≤ f → ∃ tail, Prim.decSnakeCell f c = .ok tail ∧ xs ++ tail = bs) :
    ∃ s', Prim.decSnake (s.prepend xs rs) = .ok (bs, s') := by
  rcases hcase with ⟨rfl, rfl⟩ | ⟨c, rfl, hc⟩
  · exact ⟨{ ty := s.ty, mask := s.mask }, by simp [Prim.decSnake, Slice.prepend, h1, h2]⟩
  · obtain ⟨tail, ht, hcat⟩ := hc (cellDepth c + 1) (by omega)
    exact ⟨{ ty := s.ty, mask := s.mask }, by simp [Prim.decSnake, Slice.prepend, h1, h2, ht, bind, Outcome.bind, pure, hcat]⟩

theorem primOK_snake : PrimOK .snake := by
  intro v b b' _ hd he
  cases v <;> simp only [Prim.inDom, Bool.false_eq_true] at hd
  rename_i bs
  simp only [Prim.enc, Prim.encSnake] at he
  obtain ⟨xs, rs, hb, hcase⟩ := snake_enc _ bs b b' he
  refine ⟨xs, rs, hb, ?_⟩
  intro s _ hc
  rcases hc with hng | ⟨h1, h2, _⟩
  · simp [Prim.greedy] at hng
  · obtain ⟨s', hs'⟩ := snake_dec bs xs rs s h1 h2 hcase
    exact ⟨s', by simp [Prim.dec, hs', bind, Outcome.bind, pure], fun hng => by simp [Prim.greedy] at hng⟩

theorem bytesOfBits_exact (bs : List UInt8) : bytesOfBits ((bytesToBits bs).length / 8) (bytesToBits bs) = bs := by
  rw [bytesToBits_length, Nat.mul_div_cancel _ (by omega)]
  have := bytesOfBits_bytesToBits bs []
  rwa [List.append_nil] at this

/-- the same fact in the form `simp` reaches once `bytesToBits_length` has normalised the length -/
theorem bytesOfBits_exact' (bs : List UInt8) : bytesOfBits bs.length (bytesToBits bs) = bs := by
  have := bytesOfBits_bytesToBits bs []
  rwa [List.append_nil] at this

theorem primOK_bytesSnake : PrimOK .bytesSnake := by
  intro v b b' _ hd he
  cases v <;> simp only [Prim.inDom, Bool.false_eq_true] at hd
  rename_i bs
  simp only [Prim.enc, Prim.encSnake] at he
  obtain ⟨xs, rs, hb, hcase⟩ := snake_enc _ (bytesToBits bs) b b' he
  refine ⟨xs, rs, hb, ?_⟩
  intro s _ hc
  rcases hc with hng | ⟨h1, h2, _⟩
  · simp [Prim.greedy] at hng
  · obtain ⟨s', hs'⟩ := snake_dec (bytesToBits bs) xs rs s h1 h2 hcase
    refine ⟨s', ?_, fun hng => by simp [Prim.greedy] at hng⟩
    have hl : (bytesToBits bs).length % 8 = 0 := by rw [bytesToBits_length]; omega
    simp [Prim.dec, hs', bind, Outcome.bind, pure, hl, bytesOfBits_exact, bytesOfBits_exact']

theorem primOK_text : PrimOK .text := by
  intro v b b' _ hd he
  cases v <;> simp only [Prim.inDom, Bool.false_eq_true] at hd
  rename_i bs
  simp only [Prim.enc, Prim.encSnake] at he
  obtain ⟨xs, rs, hb, hcase⟩ := snake_enc _ (bytesToBits bs) b b' he
  refine ⟨xs, rs, hb, ?_⟩
  intro s _ hc
  rcases hc with hng | ⟨h1, h2, _⟩
  · simp [Prim.greedy] at hng
  · obtain ⟨s', hs'⟩ := snake_dec (bytesToBits bs) xs rs s h1 h2 hcase
    refine ⟨s', ?_, fun hng => by simp [Prim.greedy] at hng⟩
    have hl : (bytesToBits bs).length % 8 = 0 := by rw [bytesToBits_length]; omega
    simp [Prim.dec, hs', bind, Outcome.bind, pure, hl, bytesOfBits_exact, bytesOfBits_exact', hd]


/-- every hand-written codec marked `proved` has its round-trip lemma -/
theorem primOK_addrWc : PrimOK .addrWc := by
  intro v b b' _ hd he
  unfold Prim.inDom at hd
  split at hd <;> try contradiction
  rename_i wc addr _
  simp only [Bool.and_eq_true, decide_eq_true_eq, beq_iff_eq] at hd
  obtain ⟨⟨hlo, hhi⟩, hlen⟩ := hd
  simp only [Prim.enc, Builder.writeInt_wide _ _ 32 (by omega), Builder.writeBytes] at he
  obtain ⟨b1, hb1, he2⟩ := bind_ok_inv he
  have e1 := Builder.writeBits_ok hb1
  have e2 := Builder.writeBits_ok he2
  refine ⟨Builder.intBitsGo wc 32 ++ bytesToBits addr, [], by rw [e2, e1, Builder.app_app]; simp, RTs.toRT ?_ _⟩
  intro s _
  have h1 := Slice.readInt_prepend s 32 wc (bytesToBits addr) [] (by omega) (by omega) (by omega) (by omega)
  have h2 := Slice.readBytes_prepend s addr [] []
  simp only [List.append_nil, hlen] at h2
  have hw : (if (wc % 256 + 256) % 256 ≥ 128 then (wc % 256 + 256) % 256 - 256 else (wc % 256 + 256) % 256) = wc := by
    split <;> omega
  simp only [Prim.dec, h1, h2, bind, Outcome.bind, pure, hw]
  rfl

theorem primOK_of_proved : ∀ p : Prim, p.proved = true → PrimOK p
  | .unary, _ => primOK_unary
  | .any, _ => primOK_any
  | .varUint n, _ => primOK_varUint n
  | .bigUint n, _ => primOK_bigUint n
  | .bigInt n, _ => primOK_bigInt n
  | .grams, _ => primOK_grams
  | .signedCoins, _ => primOK_signedCoins
  | .fixedText, _ => primOK_fixedText
  | .anycast, _ => primOK_anycast
  | .msgAddress, _ => primOK_msgAddress
  | .accountStatus, _ => primOK_accountStatus
  | .accStatusChange, _ => primOK_accStatusChange
  | .computeSkipReason, _ => primOK_computeSkipReason
  | .snake, _ => primOK_snake
  | .bytesSnake, _ => primOK_bytesSnake
  | .text, _ => primOK_text
  | .vmCellSlice, _ => primOK_vmCellSlice
  | .payloadV1toV4, _ => primOK_payloadV1toV4
  | .addrWc, _ => primOK_addrWc
  | .w5Actions, h => by simp [Prim.proved] at h


end Tongo.Tlb
