import TongoModel.Tlb.Basic
import TongoProofs.Lemmas.BitStringOps
/-! BRIDGE LIBRARY between the bit-level models of the verification.

The reference is C06: `TongoModel/BitString.lean` (byte-level model of boc.BitString, executed against the Go code on
every run) and its specification `Op.spec` / `ZOp.spec` on the ideal bit list `Ideal` (`TongoModel/BitOps.lean`);
`C06.op_refines` / `zop_refines` say the Go-level model refines that specification.

Other slices use their own ideal-level interfaces: `Tlb.Builder` / `Tlb.Slice` (TL-B codec, C03/C04),
`Tlb.Rd` (`TongoModel/TlbRead.lean`, C08), `Json.toFift/fromFift` (C20). This file proves that each of their operations
IS the corresponding `Op.spec` (so, through `op_refines`, the Go code), and records as `…_differs` witnesses exactly
where a current definition disagrees. Layering is a theorem: codec-level model ⇒ (this file) ⇒ `Op.spec` ⇒
(`op_refines`) ⇒ byte-level model ⇔ (correspondence on every run) Go.

Part 1 (this file): `Tlb.Builder` and `Tlb.Slice`. Parts 2–4: `BitsBridgeRd.lean`, `BitsBridgeFift.lean`,
`BitsBridgeCell.lean`. -/
namespace Tongo.Bridge
open Tongo Tongo.Bits Tongo.BitString

/-! ## generic facts about the ideal reader / writer -/

/-- the unread bits of an ideal state -/
def unread (t : Ideal) : List Bool := t.bits.drop t.pos

theorem unread_advance (t : Ideal) (n : Nat) : unread { t with pos := t.pos + n } = (unread t).drop n := by
  simp [unread, List.drop_drop]

theorem unread_length (t : Ideal) : (unread t).length = t.bits.length - t.pos := by simp [unread]

/-- `Ideal.read` in terms of the unread bits -/
theorem read_unread (n : Nat) (f : List Bool → Out) (t : Ideal) (hp : t.pos ≤ t.bits.length) :
    Ideal.read n f t =
      if (unread t).length < n then (.err errNotEnough, t)
      else (.ok (f ((unread t).take n)), { t with pos := t.pos + n }) := by
  unfold Ideal.read Ideal.peek
  rw [unread_length]
  by_cases h : t.bits.length < t.pos + n
  · have : t.bits.length - t.pos < n := by omega
    simp [h, this]
  · have : ¬ t.bits.length - t.pos < n := by omega
    simp [h, this, unread]

/-! ## `Tlb.Builder` (a cell under construction: bits, capacity 1023) -/

/-- a builder and an ideal state describe the same cell data -/
def BRel (b : Tlb.Builder) (t : Ideal) : Prop := t.bits = b.bits ∧ t.cap = Tlb.cellBits

/-- a builder result agrees with an ideal write result: success with the same bits (everything else of the builder
unchanged), or the same error. (On an error the ideal state keeps the prefix that fit — Go has written it — while the
builder result carries no state: the codec propagates the error.) -/
def BAgree (b : Tlb.Builder) (r : Outcome Tlb.Builder) (q : Outcome Out × Ideal) : Prop :=
  match r, q with
  | .ok b', (.ok o, t') => o = .unit ∧ BRel b' t' ∧ b' = { b with bits := b'.bits }
  | .err e, (.err e', _) => e = e'
  | _, _ => False

/-- the core: `Builder.writeBits` is `Ideal.write` -/
theorem builder_writeBits (b : Tlb.Builder) (t : Ideal) (h : BRel b t) (l : List Bool) :
    BAgree b (b.writeBits l) (Ideal.write l t) := by
  obtain ⟨hb, hc⟩ := h
  unfold Tlb.Builder.writeBits Ideal.write
  by_cases hf : b.bits.length + l.length ≤ Tlb.cellBits
  · have hf' : t.bits.length + l.length ≤ t.cap := by rw [hb, hc]; exact hf
    rw [if_pos hf, if_pos hf']
    exact ⟨rfl, ⟨by show t.bits ++ l = b.bits ++ l; rw [hb], hc⟩, rfl⟩
  · have hf' : ¬ t.bits.length + l.length ≤ t.cap := by rw [hb, hc]; exact hf
    rw [if_neg hf, if_neg hf']
    exact (rfl : errOverflow = errOverflow)

/-- `Builder.writeBit` = `Op.writeBit` -/
theorem builder_writeBit (b : Tlb.Builder) (t : Ideal) (h : BRel b t) (x : Bool) :
    BAgree b (b.writeBit x) ((Op.writeBit x).spec t) := builder_writeBits b t h [x]

/-- `Builder.writeUint` = `Op.writeUint` (for a uint64 value) -/
theorem builder_writeUint (b : Tlb.Builder) (t : Ideal) (h : BRel b t) (v n : Nat) (hv : v < 2 ^ 64) :
    BAgree b (b.writeUint v n) ((Op.writeUint v n).spec t) := by
  have : b.writeUint v n = b.writeBits (natToBits n v) := by
    simp only [Tlb.Builder.writeUint, Nat.mod_eq_of_lt hv]
  rw [this]
  exact builder_writeBits b t h _

/-- `Builder.writeBytes` = `Op.writeBytes` -/
theorem builder_writeBytes (b : Tlb.Builder) (t : Ideal) (h : BRel b t) (bs : List UInt8) :
    BAgree b (b.writeBytes bs) ((Op.writeBytes bs).spec t) := builder_writeBits b t h _

/-- `Builder.writeUnary` = `Op.writeUnary` -/
theorem builder_writeUnary (b : Tlb.Builder) (t : Ideal) (h : BRel b t) (n : Nat) :
    BAgree b (b.writeUnary n) ((Op.writeUnary n).spec t) := by
  have : b.writeUnary n = b.writeBits (List.replicate n true ++ [false]) := by
    simp [Tlb.Builder.writeUnary, Tlb.Builder.writeBits]
  rw [this]
  simp only [Op.spec, writeUnary_spec_eq]
  exact builder_writeBits b t h _

theorem limBits_eq (n : Nat) : Tlb.Builder.limBits n = Ideal.bitLength n := rfl

/-- `Builder.writeLimUint` = `Op.writeLimUint` -/
theorem builder_writeLimUint (b : Tlb.Builder) (t : Ideal) (h : BRel b t) (v n : Nat) (hv : v < 2 ^ 64) :
    BAgree b (b.writeLimUint v n) ((Op.writeLimUint v n).spec t) := by
  simp only [Tlb.Builder.writeLimUint, Op.spec, limBits_eq]
  exact builder_writeUint b t h v _ hv

theorem bitLen_eq (v : Int) : Tlb.Builder.bitLen v.natAbs = bigBitLen v := rfl

/-- `Builder.writeBigUint` = `Op.writeBigUint` (non-negative value) -/
theorem builder_writeBigUint (b : Tlb.Builder) (t : Ideal) (h : BRel b t) (v : Int) (n : Nat) (hv : 0 ≤ v) :
    BAgree b (b.writeBigUint v n) ((Op.writeBigUint v n).spec t) := by
  simp only [Tlb.Builder.writeBigUint, Op.spec, bitLen_eq]
  by_cases hc : n = 0 ∨ bigBitLen v > n
  · simp only [hc, if_true, BAgree, Ideal.fail]
  · simp only [hc, if_false]
    have e : intToBits n v = natToBits n v.toNat := by
      obtain ⟨m, rfl⟩ := Int.eq_ofNat_of_zero_le hv
      simp only [intToBits, Int.toNat_natCast]
      have : ((m : Int) % (2 : Int) ^ n).toNat = m % 2 ^ n := by
        have : ((m : Int) % (2 : Int) ^ n) = ((m % 2 ^ n : Nat) : Int) := by push_cast; rfl
        rw [this, Int.toNat_natCast]
      rw [this, natToBits_mod]
    rw [e]
    exact builder_writeBits b t h _

/-- two successive builder writes are one write of the concatenation -/
theorem builder_writeBits_append (b : Tlb.Builder) (x y : List Bool) :
    (b.writeBits x >>= fun b' => b'.writeBits y) = b.writeBits (x ++ y) := by
  simp only [Tlb.Builder.writeBits, Bind.bind, Outcome.bind]
  by_cases h1 : b.bits.length + x.length ≤ Tlb.cellBits
  · simp only [h1, if_true, List.length_append]
    by_cases h2 : b.bits.length + (x.length + y.length) ≤ Tlb.cellBits
    · have : b.bits.length + x.length + y.length ≤ Tlb.cellBits := by omega
      simp [h2, this]
    · have : ¬ b.bits.length + x.length + y.length ≤ Tlb.cellBits := by omega
      simp [h2, this]
  · have h2 : ¬ b.bits.length + (x ++ y).length ≤ Tlb.cellBits := by simp; omega
    simp only [h1, if_false, h2]

/-- `Builder.writeInt` = `Op.writeInt` for every width 2..64 and every int64 value (representable or not). -/
theorem builder_writeInt (b : Tlb.Builder) (t : Ideal) (h : BRel b t) (v : Int) (n : Nat) (h2 : 2 ≤ n) (h64 : n ≤ 64) :
    BAgree b (b.writeInt v n) ((Op.writeInt v n).spec t) := by
  have hn0 : ¬ n = 0 := by omega
  have hn1 : ¬ n = 1 := by omega
  -- robust against the repaired shape of `Builder.writeInt` (error branches for n = 0 / unrepresentable n = 1 first)
  have key : b.writeInt v n = b.writeBits (decide (v < 0) :: natToBits (n - 1) (v % (2 : Int) ^ 64).toNat) := by
    simp [Tlb.Builder.writeInt, Tlb.Builder.intBitsGo, hn0, hn1]
  rw [key]
  simp only [Op.spec, hn0, if_false]
  by_cases hrep : v < -(2 : Int) ^ (n - 1) ∨ v ≥ (2 : Int) ^ (n - 1)
  · simp only [hrep, if_true, hn1, if_false]
    exact builder_writeBits b t h _
  · simp only [hrep, if_false]
    rw [← signbit_low_eq_intToBits v n (by omega) (by omega) (by omega) h64]
    exact builder_writeBits b t h _

/-! DISAGREEMENT (`TongoModel/Tlb/Basic.lean` as on main at the start of round 4, stale w.r.t. the repaired Go
`WriteInt`, fix 5b31abf): width 0 and an unrepresentable width-1 value succeed in `Builder.writeInt` (writing a sign bit /
nothing), while `Op.writeInt` — and the Go code — return an error. Checked witness (kept as a comment because the owner,
agent tlb, repairs the definition in this round; it holds for the stale definition and fails after the repair):

    example : (Tlb.Builder.empty.writeInt 5 0).isOk = true ∧ ((Op.writeInt 5 0).spec ⟨[], 1023, 0⟩).1.isErr = true ∧
        (Tlb.Builder.empty.writeInt 5 1).isOk = true ∧ ((Op.writeInt 5 1).spec ⟨[], 1023, 0⟩).1.isErr = true := by
      decide +kernel

After the repair `BuilderWriteIntFull` below (no lower bound on the width) is provable by the proof of
`builder_writeInt` plus the two cases n = 0 (both sides the same error) and n = 1. Agent tlb reports the repair on branch
`tlb` (round4(13a)) together with its own refinement library `TongoProofs/Lemmas/TlbBitsRefine.lean` (namespace Tongo.Tlb:
`writeInt_refines`, `builder_on_bitstring`, `slice_on_bitstring`, all writers and readers against `Tongo.op_refines`), which
overlaps with Part 1 of this file and closes `BuilderWriteIntFull`; the cell-level part (BitsBridgeCell.lean), the C08
reader part and the Fift part exist only here. -/

/-- the statement the owner of `Tlb.Builder` should be able to prove after aligning `writeInt` with the repaired Go code -/
def BuilderWriteIntFull : Prop :=
  ∀ (b : Tlb.Builder) (t : Ideal), BRel b t → ∀ (v : Int) (n : Nat), n ≤ 64 →
    BAgree b (b.writeInt v n) ((Op.writeInt v n).spec t)

/-- `Builder.writeBigInt` = `Op.writeBigInt` (width ≥ 1, representable value) -/
theorem builder_writeBigInt (b : Tlb.Builder) (t : Ideal) (h : BRel b t) (v : Int) (n : Nat) (hn : 1 ≤ n)
    (hlo : -(2 : Int) ^ (n - 1) ≤ v) (hhi : v < (2 : Int) ^ (n - 1)) :
    BAgree b (b.writeBigInt v n) ((Op.writeBigInt v n).spec t) := by
  have key : b.writeBigInt v n = b.writeBits (intToBits n v) := by
    obtain ⟨k, rfl⟩ : ∃ k, n = k + 1 := ⟨n - 1, by omega⟩
    simp only [Nat.add_sub_cancel] at hlo hhi
    have hP : (0 : Int) < (2 : Int) ^ k := Int.pow_pos (by decide)
    rw [intToBits_repr v k hlo hhi]
    by_cases hk : k = 0
    · subst hk
      have hv : v = -1 ∨ v = 0 := by simp at hlo hhi; omega
      rcases hv with rfl | rfl <;> simp [Tlb.Builder.writeBigInt, Tlb.Builder.writeBit, natToBits]
    · have a1 : ¬ k + 1 = 1 := by omega
      simp only [Tlb.Builder.writeBigInt, a1, if_false, Nat.add_sub_cancel, Tlb.Builder.writeBit]
      by_cases hv : v < 0
      · have hb := bigBitLen_le ((2 : Int) ^ k + v) k (by omega) (by omega)
        have a4 : ¬ (k = 0 ∨ Tlb.Builder.bitLen ((2 : Int) ^ k + v).natAbs > k) := by
          rw [bitLen_eq]; omega
        have e : intToBits k ((2 : Int) ^ k + v) = natToBits k (v % (2 : Int) ^ k).toNat := by
          have e1 : v % (2 : Int) ^ k = (2 : Int) ^ k + v := by
            rw [Int.emod_eq_add_self_emod, Int.emod_eq_of_lt (by omega) (by omega), Int.add_comm]
          rw [e1, intToBits, Int.emod_eq_of_lt (by omega) (by omega)]
        simp only [hv, if_true, decide_true, Tlb.Builder.writeBigUint, a4, if_false, e]
        exact builder_writeBits_append b [true] _
      · have hb := bigBitLen_le v k (by omega) hhi
        have a4 : ¬ (k = 0 ∨ Tlb.Builder.bitLen v.natAbs > k) := by rw [bitLen_eq]; omega
        have e : intToBits k v = natToBits k (v % (2 : Int) ^ k).toNat := rfl
        simp only [hv, if_false, decide_false, Tlb.Builder.writeBigUint, a4, e]
        exact builder_writeBits_append b [false] _
  rw [key]
  exact builder_writeBits b t h _

/-! ## `Tlb.Slice` (a cell being read: the unread bits) -/

/-- a slice and an ideal state describe the same unread data -/
def SRel (s : Tlb.Slice) (t : Ideal) : Prop := unread t = s.bits ∧ t.pos ≤ t.bits.length

/-- a slice result agrees with an ideal read result: the same value and related rests, or the same error -/
def SAgree {α : Type} (g : α → Out) (s : Tlb.Slice) (r : Outcome (α × Tlb.Slice)) (q : Outcome Out × Ideal) : Prop :=
  match r, q with
  | .ok (v, s'), (.ok o, t') => o = g v ∧ SRel s' t' ∧ s' = { s with bits := s'.bits }
  | .err e, (.err e', _) => e = e'
  | _, _ => False

/-- the core: `Slice.readBits` followed by a conversion is `Ideal.read` -/
theorem slice_read (s : Tlb.Slice) (t : Ideal) (h : SRel s t) (n : Nat) {α : Type} (conv : List Bool → α) (g : α → Out)
    (f : List Bool → Out) (hf : ∀ l, f l = g (conv l)) :
    SAgree g s (s.readBits n >>= fun p => pure (conv p.1, p.2)) (Ideal.read n f t) := by
  obtain ⟨hu, hp⟩ := h
  rw [read_unread n f t hp, hu]
  simp only [Tlb.Slice.readBits, Bind.bind, Outcome.bind]
  by_cases hl : s.bits.length < n
  · simp only [hl, if_true, SAgree]; rfl
  · have hlen : s.bits.length = t.bits.length - t.pos := by rw [← hu, unread_length]
    simp only [hl, if_false, SAgree, Pure.pure]
    refine ⟨hf _, ⟨?_, by simp only; omega⟩, by first | rfl | trivial⟩
    rw [unread_advance, hu]

/-- `Slice.readBits` = `Op.readBits` -/
theorem slice_readBits (s : Tlb.Slice) (t : Ideal) (h : SRel s t) (n : Nat) :
    SAgree Out.bits s (s.readBits n) ((Op.readBits n).spec t) := by
  have := slice_read s t h n id Out.bits Out.bits (fun _ => rfl)
  simp only [Tlb.Slice.readBits, Bind.bind, Outcome.bind, Pure.pure] at this ⊢
  by_cases hl : s.bits.length < n <;> simpa [hl, Op.spec] using this

/-- `Slice.readUint` = `Op.readUint` -/
theorem slice_readUint (s : Tlb.Slice) (t : Ideal) (h : SRel s t) (n : Nat) :
    SAgree Out.nat s (s.readUint n) ((Op.readUint n).spec t) := by
  simp only [Tlb.Slice.readUint, Op.spec]
  by_cases h64 : n > 64
  · simp only [h64, if_true, SAgree, Ideal.fail]
  · simp only [h64, if_false]
    have := slice_read s t h n bitsToNat Out.nat (fun l => Out.nat (bitsToNat l)) (fun _ => rfl)
    simp only [Tlb.Slice.readBits, Bind.bind, Outcome.bind, Pure.pure] at this ⊢
    by_cases hl : s.bits.length < n <;> simpa [hl] using this

/-- `Slice.readInt` = `Op.readInt` -/
theorem slice_readInt (s : Tlb.Slice) (t : Ideal) (h : SRel s t) (n : Nat) :
    SAgree Out.int s (s.readInt n) ((Op.readInt n).spec t) := by
  simp only [Tlb.Slice.readInt, Op.spec]
  by_cases h64 : n > 64
  · simp only [h64, if_true, SAgree, Ideal.fail]
  · simp only [h64, if_false]
    by_cases h0 : n = 0
    · simp only [h0, if_true, SAgree, Ideal.fail]
    · simp only [h0, if_false]
      have := slice_read s t h n bitsToInt Out.int (fun l => Out.int (bitsToInt l)) (fun _ => rfl)
      simp only [Tlb.Slice.readBits, Bind.bind, Outcome.bind, Pure.pure] at this ⊢
      by_cases hl : s.bits.length < n <;> simpa [hl] using this

/-- `Slice.readBigUint` / `Slice.readBigInt` = `Op.readBigUint` / `Op.readBigInt` (the value as an integer) -/
theorem slice_readBigUint (s : Tlb.Slice) (t : Ideal) (h : SRel s t) (n : Nat) :
    SAgree (fun (v : Int) => Out.nat v.toNat) s (s.readBigUint n) ((Op.readBigUint n).spec t) := by
  simp only [Tlb.Slice.readBigUint, Op.spec]
  have := slice_read s t h n (fun l => (bitsToNat l : Int)) (fun (v : Int) => Out.nat v.toNat)
    (fun l => Out.nat (bitsToNat l)) (fun _ => by simp)
  simp only [Tlb.Slice.readBits, Bind.bind, Outcome.bind, Pure.pure] at this ⊢
  by_cases hl : s.bits.length < n <;> simpa [hl] using this

theorem slice_readBigInt (s : Tlb.Slice) (t : Ideal) (h : SRel s t) (n : Nat) :
    SAgree Out.int s (s.readBigInt n) ((Op.readBigInt n).spec t) := by
  simp only [Tlb.Slice.readBigInt, Op.spec]
  have := slice_read s t h n bitsToInt Out.int (fun l => Out.int (bitsToInt l)) (fun _ => rfl)
  simp only [Tlb.Slice.readBits, Bind.bind, Outcome.bind, Pure.pure] at this ⊢
  by_cases hl : s.bits.length < n <;> simpa [hl] using this

/-- `Slice.readLimUint` = `Op.readLimUint` -/
theorem slice_readLimUint (s : Tlb.Slice) (t : Ideal) (h : SRel s t) (n : Nat) (hn : n < 2 ^ 64) :
    SAgree Out.nat s (s.readLimUint n) ((Op.readLimUint n).spec t) := by
  have hb := bitLength_le_64 n hn
  have := slice_readUint s t h (Ideal.bitLength n)
  have h64 : ¬ Ideal.bitLength n > 64 := by omega
  simpa [Tlb.Slice.readLimUint, limBits_eq, Op.spec, h64] using this

/-- `Slice.readBit` = `Op.readBit` -/
theorem slice_readBit (s : Tlb.Slice) (t : Ideal) (h : SRel s t) :
    SAgree Out.bool s s.readBit ((Op.readBit).spec t) := by
  obtain ⟨hu, hp⟩ := h
  simp only [Op.spec]
  rw [read_unread 1 _ t hp, hu]
  unfold Tlb.Slice.readBit
  cases hb : s.bits with
  | nil => simp [SAgree]; rfl
  | cons x rest =>
    have hlen : s.bits.length = t.bits.length - t.pos := by rw [← hu, unread_length]
    simp only [List.length_cons, show ¬ (rest.length + 1 < 1) by omega, if_false, SAgree, List.take_succ_cons,
      List.take_zero, List.headD_cons]
    refine ⟨trivial, ⟨?_, by rw [hb] at hlen; simp at hlen; simp only; omega⟩, by first | rfl | trivial⟩
    rw [unread_advance, hu, hb]; rfl

theorem bytesOfBits_eq (k : Nat) : ∀ (l : List Bool), l.length = 8 * k → Tlb.bytesOfBits k l = bitsToBytes l := by
  induction k with
  | zero =>
    intro l hl
    have : l = [] := List.length_eq_zero_iff.mp (by omega)
    subst this; simp [Tlb.bytesOfBits, bitsToBytes_nil]
  | succ k ih =>
    intro l hl
    have hsplit : l = l.take 8 ++ l.drop 8 := (List.take_append_drop 8 l).symm
    have ht : (l.take 8).length = 8 := by rw [List.length_take]; omega
    conv => rhs; rw [hsplit, bitsToBytes_append8 _ _ ht]
    rw [Tlb.bytesOfBits, ih _ (by rw [List.length_drop]; omega)]

/-- `Slice.readBytes` = `Op.readBytes` -/
theorem slice_readBytes (s : Tlb.Slice) (t : Ideal) (h : SRel s t) (n : Nat) :
    SAgree Out.bytes s (s.readBytes n) ((Op.readBytes n).spec t) := by
  obtain ⟨hu, hp⟩ := h
  simp only [Tlb.Slice.readBytes, Op.spec]
  rw [read_unread (n * 8) _ t hp, hu]
  simp only [Tlb.Slice.readBits, Bind.bind, Outcome.bind]
  by_cases hl : s.bits.length < n * 8
  · simp only [hl, if_true, SAgree]; rfl
  · have hlen : s.bits.length = t.bits.length - t.pos := by rw [← hu, unread_length]
    simp only [hl, if_false, SAgree, Pure.pure]
    refine ⟨?_, ⟨?_, by simp only; omega⟩, by first | rfl | trivial⟩
    · rw [bytesOfBits_eq n _ (by rw [List.length_take]; omega)]
    · rw [unread_advance, hu]

theorem readUnaryAux_eq : ∀ (l : List Bool) (k : Nat),
    Tlb.Slice.readUnaryAux l k =
      if (l.takeWhile (· == true)).length < l.length
      then some (k + (l.takeWhile (· == true)).length, l.drop ((l.takeWhile (· == true)).length + 1)) else none := by
  intro l
  induction l with
  | nil => intro k; simp [Tlb.Slice.readUnaryAux]
  | cons x rest ih =>
    intro k
    cases x
    · simp [Tlb.Slice.readUnaryAux]
    · simp only [Tlb.Slice.readUnaryAux, ih, List.takeWhile_cons, beq_self_eq_true, if_true, List.length_cons,
        Nat.add_lt_add_iff_right, List.drop_succ_cons]
      by_cases h : (rest.takeWhile (· == true)).length < rest.length
      · simp only [h, if_true]; congr 2; omega
      · simp only [h, if_false]

/-- `Slice.readUnary` = `Op.readUnary` -/
theorem slice_readUnary (s : Tlb.Slice) (t : Ideal) (h : SRel s t) :
    SAgree Out.nat s s.readUnary ((Op.readUnary).spec t) := by
  obtain ⟨hu, hp⟩ := h
  have hlen : s.bits.length = t.bits.length - t.pos := by rw [← hu, unread_length]
  simp only [Tlb.Slice.readUnary, Op.spec, readUnaryAux_eq]
  have hu' : t.bits.drop t.pos = s.bits := hu
  rw [hu']
  by_cases hc : (s.bits.takeWhile (· == true)).length < s.bits.length
  · simp only [hc, if_true, SAgree, Nat.zero_add]
    refine ⟨trivial, ⟨?_, by simp only; omega⟩, by first | rfl | trivial⟩
    show unread { t with pos := t.pos + _ + 1 } = _
    rw [Nat.add_assoc, unread_advance, hu]
  · simp only [hc, if_false, SAgree]; rfl

/-! ## composition with `op_refines`: the codec-level model and the Go-level model agree (layering as a theorem) -/

/-- A `Tlb.Builder` write of the bits `l`, the ideal state and the byte-level model of `boc.BitString` started in related
states: the builder succeeds iff the Go-level model succeeds, and then the Go-level bits are the builder's bits. -/
theorem builder_vs_go_write (b : Tlb.Builder) (t : Ideal) (s : BitString) (hb : BRel b t) (hR : R s t) (l : List Bool) :
    match b.writeBits l, writeBitArray l s with
    | .ok b', (.ok _, s') => BitString.abs s' = b'.bits ∧ BitString.Inv s'
    | .err e, (.err e', _) => e = e'
    | _, _ => False := by
  have h1 := builder_writeBits b t hb l
  have h2 := write_refines l s t hR
  rw [unitOut_run] at h2
  rcases hw : writeBitArray l s with ⟨r, s'⟩
  rcases hi : Ideal.write l t with ⟨r', t'⟩
  rw [hw] at h2
  rw [hi] at h1 h2
  obtain ⟨h2a, h2b⟩ := h2
  cases hbw : b.writeBits l with
  | ok b' =>
    rw [hbw] at h1
    cases r' with
    | ok o =>
      cases r with
      | ok u => exact ⟨by rw [h2b.2.1]; exact h1.2.1.1, h2b.1⟩
      | err e => simp [normO] at h2a
      | panic p => simp [normO] at h2a
    | err e => exact h1.elim
    | panic p => exact h1.elim
  | err e =>
    rw [hbw] at h1
    cases r' with
    | ok o => exact h1.elim
    | err e' =>
      cases r with
      | ok u => simp [normO] at h2a
      | err e'' =>
        simp only [normO, Outcome.err.injEq] at h2a
        subst h2a
        exact h1
      | panic p => simp [normO] at h2a
    | panic p => exact h1.elim
  | panic p =>
    rw [hbw] at h1
    exact h1.elim

/-- A `Tlb.Slice.readUint`, the ideal state and the byte-level model started in related states: same value / same error,
and the Go-level cursor ends where the slice's rest begins. -/
theorem slice_vs_go_readUint (sl : Tlb.Slice) (t : Ideal) (s : BitString) (hs : SRel sl t) (hR : R s t) (n : Nat) :
    match sl.readUint n, BitString.readUint n s with
    | .ok (v, sl'), (.ok v', s') => v = v' ∧ (BitString.abs s').drop s'.rCursor = sl'.bits
    | .err e, (.err e', _) => e = e'
    | _, _ => False := by
  have h1 := slice_readUint sl t hs n
  have h2 := op_refines (Op.readUint n) trivial s t hR
  simp only [Op.run, bind_run] at h2
  rcases hw : BitString.readUint n s with ⟨r, s'⟩
  rcases hi : (Op.readUint n).spec t with ⟨r', t'⟩
  rw [hw] at h2
  rw [hi] at h1 h2
  obtain ⟨h2a, h2b⟩ := h2
  cases hsr : sl.readUint n with
  | ok p =>
    obtain ⟨v, sl'⟩ := p
    rw [hsr] at h1
    cases r' with
    | ok o =>
      obtain ⟨ho, hrel, _⟩ := h1
      cases r with
      | ok v' =>
        simp only [pure_run, normO, Out.norm, Outcome.ok.injEq] at h2a h2b
        subst ho
        simp only [Out.nat.injEq] at h2a
        refine ⟨h2a.symm, ?_⟩
        rw [h2b.2.1, h2b.2.2.2]
        exact hrel.1
      | err e => simp [normO] at h2a
      | panic p => simp [normO] at h2a
    | err e => exact h1.elim
    | panic p => exact h1.elim
  | err e =>
    rw [hsr] at h1
    cases r' with
    | ok o => exact h1.elim
    | err e' =>
      cases r with
      | ok u => simp [normO] at h2a
      | err e'' =>
        simp only [normO, Outcome.err.injEq] at h2a
        subst h2a
        exact h1
      | panic p => simp [normO] at h2a
    | panic p => exact h1.elim
  | panic p =>
    rw [hsr] at h1
    exact h1.elim

end Tongo.Bridge
