import TongoProofs.Lemmas.PoolSMOutcomes
import TongoProofs.Lemmas.PoolSelect
/-! Invariants of `PoolSM`: soundness of the ghost log (every head offered to a waiter was stored by the connection
named with it), nothing offered by the repaired notifySubscribers is lost, no nil dereference when a best connection
exists (helper lemmas for C13). -/
namespace Tongo.PoolSM

attribute [local grind =] List.mem_filter List.mem_append List.mem_map List.mem_cons
attribute [local grind →] List.mem_of_mem_erase

/-! ### Group L: heads only grow; every published / carried / logged head is bounded by the head of its connection -/

theorem getD_set_ge (l : List Nat) (k v c : Nat) (h : l.getD k 0 < v) : l.getD c 0 ≤ (l.set k v).getD c 0 := by
  simp only [List.getD_eq_getElem?_getD, List.getElem?_set] at h ⊢
  split
  · subst_vars
    split
    · simp; omega
    · rename_i hlt
      simp [List.getElem?_eq_none (Nat.le_of_not_lt hlt)]
  · exact Nat.le_refl _

theorem getD_set_self (l : List Nat) (k v : Nat) (h : k < l.length) : (l.set k v).getD k 0 = v := by
  simp [List.getD_eq_getElem?_getD, List.getElem?_set, h]

theorem ofNat_toNat_le (h : Nat) : (BitVec.ofNat 32 h).toNat ≤ h := by
  simp only [BitVec.toNat_ofNat]; exact Nat.mod_le _ _

theorem selectWith_mem {w : Bool} {st : PoolSelect.Strategy} {m : BitVec 32} {cs : List PoolSelect.Conn}
    {c : PoolSelect.Conn} (h : PoolSelect.selectWith w st m cs = some c) : c ∈ cs := by
  unfold PoolSelect.selectWith at h
  cases st with
  | other => cases h
  | bestPing =>
    rw [PoolSelect.findBestPing_eq] at h
    obtain ⟨pre, post, hl, _, _⟩ := PoolSelect.firstMin_isFirstMin h
    have : c ∈ cs.filter (fun c => c.alive && PoolSelect.working w m c) := by rw [hl]; simp
    exact (List.mem_filter.mp this).1
  | firstWorking =>
    rw [PoolSelect.findFirstWorking_eq] at h
    exact (List.mem_filter.mp (List.mem_of_head? h)).1

/-- what the loops of updateBest have read so far: member `k`'s entry is a head member `k` had (heads only grow) -/
def SnapOk (s : State) (seqs : List (BitVec 32)) (acc : List PoolSelect.Conn) : Prop :=
  (∀ (k : Nat) (q : BitVec 32), seqs[k]? = some q → q.toNat ≤ s.heads.getD k 0) ∧
  (∀ (k : Nat) (c : PoolSelect.Conn), acc[k]? = some c → c.id = k ∧ c.seqno.toNat ≤ s.heads.getD k 0)

structure InvL (s : State) : Prop where
  readOk : ∀ i seqs rts, s.run = .ubRead i seqs rts → seqs.length = i ∧ SnapOk s seqs []
  selOk : ∀ i seqs rts acc, s.run = .ubSel i seqs rts acc → acc.length = i ∧ SnapOk s seqs acc
  selLe : ∀ i seqs rts acc, s.run = .ubSel i seqs rts acc → i ≤ s.heads.length
  bestOk : ∀ c, s.best = some c → c < s.heads.length
  connOk : ∀ (j : Nat) (x : Setter), s.setters[j]? = some x → x.conn < s.heads.length
  sendLe : ∀ (j : Nat) (x : Setter), s.setters[j]? = some x → (x.pc = .sendLocked ∨ x.pc = .sendUnlocked) →
    x.head ≤ s.heads.getD x.conn 0
  updLe : ∀ e ∈ s.upd, e.2 ≤ s.heads.getD e.1 0
  wantLe : ∀ c h, (s.run = .nWant c h ∨ s.run = .nCheck c h) → h ≤ s.heads.getD c 0
  loopLe : ∀ sw h todo, s.run = .nLoop sw h todo → ∃ c, s.best = some c ∧ h ≤ s.heads.getD c 0
  putLe : ∀ sw h h' w todo, s.run = .nPut sw h h' w todo → ∃ c, s.best = some c ∧ h ≤ s.heads.getD c 0
  logLe : ∀ e ∈ s.log, e.2.2 ≤ s.heads.getD e.2.1 0

/-- the heads of the successor state dominate the old ones -/
theorem heads_mono {v s a s'} (hs : step v s a = some s') : ∀ c, s.heads.getD c 0 ≤ s'.heads.getD c 0 := by
  intro c
  cases a <;> step_cases hs <;> first | exact Nat.le_refl _ | (simp only [State.setS]; exact getD_set_ge _ _ _ _ (by assumption))

theorem heads_length {v s a s'} (hs : step v s a = some s') : s'.heads.length = s.heads.length := by
  cases a <;> step_cases hs <;> simp [State.setW, State.setS]

theorem snapOk_mono {s s' : State} {seqs acc} (hm : ∀ c, s.heads.getD c 0 ≤ s'.heads.getD c 0)
    (h : SnapOk s seqs acc) : SnapOk s' seqs acc :=
  ⟨fun k q hq => Nat.le_trans (h.1 k q hq) (hm k), fun k c hc => ⟨(h.2 k c hc).1, Nat.le_trans (h.2 k c hc).2 (hm k)⟩⟩

theorem invL_readOk {v s a s'} (h : InvL s) (hs : step v s a = some s') :
    ∀ i seqs rts, s'.run = .ubRead i seqs rts → seqs.length = i ∧ SnapOk s' seqs [] := by
  have hm := heads_mono hs
  have hro := h.readOk
  intro i seqs rts hr
  have key : (∃ j q r, s.run = .ubRead j q r ∧ ((j = i ∧ q = seqs) ∨
      (i = j + 1 ∧ seqs = q ++ [BitVec.ofNat 32 (s.heads.getD j 0)] ∧ s'.heads = s.heads))) ∨
      (i = 0 ∧ seqs = []) := by
    cases a <;> step_cases hs <;> grind [State.setW, State.setS]
  rcases key with ⟨j, q, r, hj, hcase⟩ | ⟨rfl, rfl⟩
  · obtain ⟨hl, hok⟩ := hro j q r hj
    rcases hcase with ⟨rfl, rfl⟩ | ⟨rfl, rfl, hh⟩
    · exact ⟨hl, snapOk_mono hm hok⟩
    · refine ⟨by simp [hl], ?_, by intro k c hc; simp at hc⟩
      intro k x hx
      rw [hh]
      by_cases hk : k < q.length
      · rw [List.getElem?_append_left hk] at hx; exact hok.1 k x hx
      · have : k = q.length := by
          have := (List.getElem?_eq_some_iff.mp hx).1; simp at this; omega
        subst this
        simp at hx; subst hx; rw [hl]; exact ofNat_toNat_le _
  · exact ⟨rfl, by intro k q hq; simp at hq, by intro k c hc; simp at hc⟩

theorem invL_selOk {v s a s'} (h : InvL s) (hs : step v s a = some s') :
    ∀ i seqs rts acc, s'.run = .ubSel i seqs rts acc → acc.length = i ∧ SnapOk s' seqs acc := by
  have hm := heads_mono hs
  have hro := h.readOk
  have hso := h.selOk
  intro i seqs rts acc hr
  have key : (∃ j r, s.run = .ubRead j seqs r ∧ i = 0 ∧ acc = [] ∧ s'.heads = s.heads) ∨
      (∃ j q, s.run = .ubSel j seqs rts q ∧ ((j = i ∧ q = acc) ∨
        (i = j + 1 ∧ s'.heads = s.heads ∧ ∃ al rt sq, acc = q ++ [PoolSelect.Conn.mk j al sq rt] ∧
          (sq = seqs.getD j 0 ∨ sq = BitVec.ofNat 32 (s.heads.getD j 0))))) := by
    cases a <;> step_cases hs <;> grind [State.setW, State.setS]
  rcases key with ⟨j, r, hj, rfl, rfl, hh⟩ | ⟨j, q, hj, hcase⟩
  · obtain ⟨_, hok⟩ := hro j seqs r hj
    exact ⟨rfl, snapOk_mono hm hok⟩
  · obtain ⟨hl, hok⟩ := hso j seqs rts q hj
    rcases hcase with ⟨rfl, rfl⟩ | ⟨rfl, hh, al, rt, sq, rfl, hsq⟩
    · exact ⟨hl, snapOk_mono hm hok⟩
    · refine ⟨by simp [hl], by rw [hh]; exact hok.1, ?_⟩
      intro k c hc
      rw [hh]
      by_cases hk : k < q.length
      · rw [List.getElem?_append_left hk] at hc; exact hok.2 k c hc
      · have : k = q.length := by
          have := (List.getElem?_eq_some_iff.mp hc).1; simp at this; omega
        subst this
        simp at hc; subst hc
        refine ⟨hl.symm, ?_⟩
        rcases hsq with rfl | rfl
        · simp only [List.getD_eq_getElem?_getD]
          cases hq : seqs[j]? with
          | none => simp
          | some x => simpa [hl] using hok.1 j x hq
        · rw [hl]; exact ofNat_toNat_le _

theorem invL_selLe {v s a s'} (h : InvL s) (hs : step v s a = some s') :
    ∀ i seqs rts acc, s'.run = .ubSel i seqs rts acc → i ≤ s'.heads.length := by
  have hlen := heads_length hs
  have selLe := h.selLe
  cases a <;> step_cases hs <;> grind [State.setW, State.setS]

theorem invL_bestOk {v s a s'} (h : InvL s) (hs : step v s a = some s') :
    ∀ c, s'.best = some c → c < s'.heads.length := by
  have hlen := heads_length hs
  have bestOk := h.bestOk
  have hso := h.selOk
  have hsl := h.selLe
  cases a with
  | ubSet =>
    simp only [step] at hs
    split at hs
    · rename_i i seqs rts acc hrun
      have hk : ∀ c, PoolSelect.selectWith false s.strategy (PoolSelect.maxOfSeqs seqs) acc = some c →
          c.id < s.heads.length := by
        intro c hsel
        obtain ⟨k, hk⟩ := List.mem_iff_getElem?.mp (selectWith_mem hsel)
        have hid := ((hso i seqs rts acc hrun).2.2 k c hk).1
        have hkl := (List.getElem?_eq_some_iff.mp hk).1
        have := (hso i seqs rts acc hrun).1
        have := hsl i seqs rts acc hrun
        omega
      split at hs
      · split at hs
        · cases hs; exact bestOk
        · rename_i c hsel
          split at hs <;> (cases hs; intro c' hc'; simp only [Option.some.injEq] at hc'; subst hc'; exact hk c hsel)
      · cases hs
    · cases hs
  | _ => step_cases hs <;> grind [State.setW, State.setS]

theorem invL_connOk {v s a s'} (h : InvL s) (hs : step v s a = some s') :
    ∀ (j : Nat) (x : Setter), s'.setters[j]? = some x → x.conn < s'.heads.length := by
  obtain ⟨readOk, selOk, selLe, bestOk, connOk, sendLe, updLe, wantLe, loopLe, putLe, logLe⟩ := h
  cases a <;> step_cases hs <;> grind [State.setW, State.setS, RunPc.lockW, RunPc.lockR]

theorem invL_sendLe {v s a s'} (h : InvL s) (hs : step v s a = some s') :
    ∀ (j : Nat) (x : Setter), s'.setters[j]? = some x → (x.pc = .sendLocked ∨ x.pc = .sendUnlocked) →
    x.head ≤ s'.heads.getD x.conn 0 := by
  obtain ⟨readOk, selOk, selLe, bestOk, connOk, sendLe, updLe, wantLe, loopLe, putLe, logLe⟩ := h
  have hm := heads_mono hs
  cases a <;> step_cases hs <;> grind [State.setW, State.setS, RunPc.lockW, RunPc.lockR, getD_set_self]

theorem invL_updLe {v s a s'} (h : InvL s) (hs : step v s a = some s') :
    ∀ e ∈ s'.upd, e.2 ≤ s'.heads.getD e.1 0 := by
  obtain ⟨readOk, selOk, selLe, bestOk, connOk, sendLe, updLe, wantLe, loopLe, putLe, logLe⟩ := h
  have hm := heads_mono hs
  cases a <;> step_cases hs <;> grind [State.setW, State.setS, RunPc.lockW, RunPc.lockR]

theorem invL_wantLe {v s a s'} (h : InvL s) (hs : step v s a = some s') :
    ∀ c h, (s'.run = .nWant c h ∨ s'.run = .nCheck c h) → h ≤ s'.heads.getD c 0 := by
  obtain ⟨readOk, selOk, selLe, bestOk, connOk, sendLe, updLe, wantLe, loopLe, putLe, logLe⟩ := h
  have hm := heads_mono hs
  cases a <;> step_cases hs <;> grind [State.setW, State.setS, RunPc.lockW, RunPc.lockR]

theorem invL_loopLe {v s a s'} (h : InvL s) (hs : step v s a = some s') :
    ∀ sw h todo, s'.run = .nLoop sw h todo → ∃ c, s'.best = some c ∧ h ≤ s'.heads.getD c 0 := by
  have hso := h.selOk
  obtain ⟨readOk, selOk, selLe, bestOk, connOk, sendLe, updLe, wantLe, loopLe, putLe, logLe⟩ := h
  have hm := heads_mono hs
  cases a with
  | ubSet =>
    simp only [step] at hs
    split at hs
    · rename_i i seqs rts acc hrun
      split at hs
      · split at hs
        · cases hs; intro sw h todo hr; cases hr
        · rename_i c hsel
          split at hs
          · cases hs
            intro sw h todo hr
            cases hr
            obtain ⟨k, hk⟩ := List.mem_iff_getElem?.mp (selectWith_mem hsel)
            obtain ⟨hid, hle⟩ := (hso i seqs rts acc hrun).2.2 k c hk
            exact ⟨c.id, rfl, by rw [hid]; exact hle⟩
          · cases hs; intro sw h todo hr; cases hr
      · cases hs
    · cases hs
  | _ => step_cases hs <;> grind [State.setW, State.setS, RunPc.lockW, RunPc.lockR]

theorem invL_putLe {v s a s'} (h : InvL s) (hs : step v s a = some s') :
    ∀ sw h h' w todo, s'.run = .nPut sw h h' w todo → ∃ c, s'.best = some c ∧ h ≤ s'.heads.getD c 0 := by
  obtain ⟨readOk, selOk, selLe, bestOk, connOk, sendLe, updLe, wantLe, loopLe, putLe, logLe⟩ := h
  have hm := heads_mono hs
  cases a <;> step_cases hs <;> grind [State.setW, State.setS, RunPc.lockW, RunPc.lockR]

theorem invL_logLe {v s a s'} (h : InvL s) (hs : step v s a = some s') :
    ∀ e ∈ s'.log, e.2.2 ≤ s'.heads.getD e.2.1 0 := by
  obtain ⟨readOk, selOk, selLe, bestOk, connOk, sendLe, updLe, wantLe, loopLe, putLe, logLe⟩ := h
  have hm := heads_mono hs
  cases a <;> step_cases hs <;> grind [State.setW, State.setS, RunPc.lockW, RunPc.lockR]

theorem invL_step {v s a s'} (h : InvL s) (hs : step v s a = some s') : InvL s' :=
  ⟨invL_readOk h hs, invL_selOk h hs, invL_selLe h hs, invL_bestOk h hs, invL_connOk h hs, invL_sendLe h hs, invL_updLe h hs, invL_wantLe h hs, invL_loopLe h hs, invL_putLe h hs,
   invL_logLe h hs⟩

theorem invL_init (heads best targets pubs st rtts) (hp : ∀ p ∈ pubs, p.1 < heads.length)
    (hb : ∀ c, best = some c → c < heads.length) :
    InvL (mkInit heads best targets pubs st rtts) := by
  constructor
  · intro i seqs rts hr; simp [mkInit] at hr
  · intro i seqs rts acc hr; simp [mkInit] at hr
  · intro i seqs rts acc hr; simp [mkInit] at hr
  · intro c hc; simpa [mkInit] using hb c (by simpa [mkInit] using hc)
  · intro j x h
    simp only [mkInit, List.getElem?_map, Option.map_eq_some_iff] at h
    obtain ⟨p, hp', rfl⟩ := h
    exact hp p (List.mem_of_getElem? hp')
  · intro j x h hpc
    simp only [mkInit, List.getElem?_map, Option.map_eq_some_iff] at h
    obtain ⟨p, _, rfl⟩ := h
    simp at hpc
  · intro e he; simp [mkInit] at he
  · intro c h hr; simp [mkInit] at hr
  · intro sw h todo hr; simp [mkInit] at hr
  · intro sw h h' w todo hr; simp [mkInit] at hr
  · intro e he; simp [mkInit] at he

theorem reachable_invL {v s} (h : Reachable v s) : InvL s := by
  induction h with
  | init heads best targets pubs st rtts hp hh hb => exact invL_init heads best targets pubs st rtts (fun p h => (hp p h).1) hb
  | step _ hs ih => exact invL_step ih hs

/-- a log entry is appended only for the connection that is best at that very step -/
theorem log_step {v s a s'} (hL : InvL s) (hs : step v s a = some s') :
    s'.log = s.log ∨ ∃ i c h, s'.log = s.log ++ [(i, c, h)] ∧ s.best = some c := by
  have loopLe := hL.loopLe
  cases a <;> step_cases hs <;> grind [State.setW, State.setS, RunPc.lockW, RunPc.lockR]

/-! ### Group E: the repaired notifySubscribers loses nothing it offers -/

/-- Run is between the draining and the sending select for waiter `i`'s channel, carrying a head `≥ m` -/
def carriedGe (r : RunPc) (i m : Nat) : Bool :=
  match r with
  | .nPut _ _ h' w _ => w == i && decide (m ≤ h')
  | _ => false

structure InvE (s : State) : Prop where
  putEmpty : ∀ sw h h' w todo, s.run = .nPut sw h h' w todo → ∀ x, s.waiters[w]? = some x → x.buf = []
  kept : ∀ (i : Nat) (w : Waiter), s.waiters[i]? = some w → w.pc = .sel → ∀ m, w.offered = some m →
    (∃ h ∈ w.buf, m ≤ h) ∨ carriedGe s.run i m = true ∨ (∃ h ∈ w.received, m ≤ h)

theorem invE_putEmpty {v s a s'} (hA : InvA s) (h : InvE s) (hs : step v s a = some s') :
    ∀ sw h h' w todo, s'.run = .nPut sw h h' w todo → ∀ x, s'.waiters[w]? = some x → x.buf = [] := by
  obtain ⟨putEmpty, kept⟩ := h
  obtain ⟨l1, l2, l3, l4, vWl, vLoop, vPut, fresh, cap1⟩ := hA
  cases a <;> step_cases hs <;> grind [State.setW, State.setS, RunPc.lockW, RunPc.lockR, WPc.registered]

theorem invE_kept {v s a s'} (hA : InvA s) (h : InvE s) (hs : step v s a = some s') :
    ∀ (i : Nat) (w : Waiter), s'.waiters[i]? = some w → w.pc = .sel → ∀ m, w.offered = some m →
    (∃ h ∈ w.buf, m ≤ h) ∨ carriedGe s'.run i m = true ∨ (∃ h ∈ w.received, m ≤ h) := by
  obtain ⟨putEmpty, kept⟩ := h
  have fresh := hA.fresh
  have cap1 := hA.cap1
  cases a <;> step_cases hs <;> grind [State.setW, State.setS, RunPc.lockW, RunPc.lockR, carriedGe]

theorem invE_step {v s a s'} (hA : InvA s) (h : InvE s) (hs : step v s a = some s') : InvE s' :=
  ⟨invE_putEmpty hA h hs, invE_kept hA h hs⟩

theorem invE_init (heads best targets pubs st rtts) : InvE (mkInit heads best targets pubs st rtts) := by
  constructor
  · intro sw h h' w todo hr; simp [mkInit] at hr
  · intro i w h hp; have := mkInit_waiter h; simp [this.1] at hp

theorem reachable_invE {v s} (h : Reachable v s) : InvE s := by
  induction h with
  | init heads best targets pubs st rtts hp hh hb => exact invE_init ..
  | step hr hs ih => exact invE_step (reachable_invA hr) ih hs

/-! ### Group P: with a best connection present nobody dereferences nil -/

theorem noPanic_step {v s a s'} (hO : InvO s)
    (h : s.best ≠ none ∧ ∀ (i : Nat) (w : Waiter), s.waiters[i]? = some w → w.pc ≠ .done .panic)
    (hs : step v s a = some s') :
    s'.best ≠ none ∧ ∀ (i : Nat) (w : Waiter), s'.waiters[i]? = some w → w.pc ≠ .done .panic := by
  obtain ⟨hb, hw⟩ := h
  have nlp := hO.noLeavePanic
  constructor
  · cases a <;> step_cases hs <;> grind [State.setW, State.setS, RunPc.lockW, RunPc.lockR]
  · cases a <;> step_cases hs <;> grind [State.setW, State.setS, RunPc.lockW, RunPc.lockR]

theorem noPanic_trace {v : Variant} (as : List Action) : ∀ {s0 s : State}, Reachable v s0 →
    (s0.best ≠ none ∧ ∀ (i : Nat) (w : Waiter), s0.waiters[i]? = some w → w.pc ≠ .done .panic) →
    runTrace v s0 as = some s →
    (s.best ≠ none ∧ ∀ (i : Nat) (w : Waiter), s.waiters[i]? = some w → w.pc ≠ .done .panic) := by
  induction as with
  | nil => intro s0 s _ h0 h; simp only [runTrace, Option.some.injEq] at h; subst h; exact h0
  | cons a as ih =>
    intro s0 s hr h0 h
    simp only [runTrace] at h
    cases hs : step v s0 a with
    | none => rw [hs] at h; cases h
    | some s1 =>
      rw [hs] at h
      exact ih (Reachable.step hr hs) (noPanic_step (reachable_invO hr) h0 hs) h

end Tongo.PoolSM
