import TongoProofs.Lemmas.PoolSMOutcomes
/-! Invariants of `PoolSM`: soundness of the ghost log (every head offered to a waiter was stored by the connection
named with it), nothing offered by the repaired notifySubscribers is lost, no nil dereference when a best connection
exists (helper lemmas for C13). -/
namespace Tongo.PoolSM

attribute [local grind =] List.mem_filter List.mem_append List.mem_map List.mem_cons
attribute [local grind →] List.mem_of_mem_erase

/-! ### Group L: heads only grow; every published / carried / logged head is bounded by the head of its connection -/

theorem getD_set_ge (l : List Nat) (k v c : Nat) (h : l.getD k 0 < v) : l.getD c 0 ≤ (l.set k v).getD c 0 := by
  simp only [List.getD_eq_getElem?_getD, List.getElem?_set] at h ⊢
  split
  · subst_vars
    split
    · simp; omega
    · rename_i hlt
      simp [List.getElem?_eq_none (Nat.le_of_not_lt hlt)]
  · exact Nat.le_refl _

theorem getD_set_self (l : List Nat) (k v : Nat) (h : k < l.length) : (l.set k v).getD k 0 = v := by
  simp [List.getD_eq_getElem?_getD, List.getElem?_set, h]

structure InvL (s : State) : Prop where
  connOk : ∀ (j : Nat) (x : Setter), s.setters[j]? = some x → x.conn < s.heads.length
  sendLe : ∀ (j : Nat) (x : Setter), s.setters[j]? = some x → (x.pc = .sendLocked ∨ x.pc = .sendUnlocked) →
    x.head ≤ s.heads.getD x.conn 0
  updLe : ∀ e ∈ s.upd, e.2 ≤ s.heads.getD e.1 0
  wantLe : ∀ c h, s.run = .nWant c h → h ≤ s.heads.getD c 0
  loopLe : ∀ h todo, s.run = .nLoop h todo → ∃ c, s.best = some c ∧ h ≤ s.heads.getD c 0
  putLe : ∀ h h' w todo, s.run = .nPut h h' w todo → ∃ c, s.best = some c ∧ h ≤ s.heads.getD c 0
  logLe : ∀ e ∈ s.log, e.2.2 ≤ s.heads.getD e.2.1 0

/-- the heads of the successor state dominate the old ones -/
theorem heads_mono {v s a s'} (hs : step v s a = some s') : ∀ c, s.heads.getD c 0 ≤ s'.heads.getD c 0 := by
  intro c
  cases a <;> step_cases hs <;> first | exact Nat.le_refl _ | (simp only [State.setS]; exact getD_set_ge _ _ _ _ (by assumption))

theorem heads_length {v s a s'} (hs : step v s a = some s') : s'.heads.length = s.heads.length := by
  cases a <;> step_cases hs <;> simp [State.setW, State.setS]

theorem invL_connOk {v s a s'} (h : InvL s) (hs : step v s a = some s') :
    ∀ (j : Nat) (x : Setter), s'.setters[j]? = some x → x.conn < s'.heads.length := by
  obtain ⟨connOk, sendLe, updLe, wantLe, loopLe, putLe, logLe⟩ := h
  cases a <;> step_cases hs <;> grind [State.setW, State.setS]

theorem invL_sendLe {v s a s'} (h : InvL s) (hs : step v s a = some s') :
    ∀ (j : Nat) (x : Setter), s'.setters[j]? = some x → (x.pc = .sendLocked ∨ x.pc = .sendUnlocked) →
    x.head ≤ s'.heads.getD x.conn 0 := by
  obtain ⟨connOk, sendLe, updLe, wantLe, loopLe, putLe, logLe⟩ := h
  have hm := heads_mono hs
  cases a <;> step_cases hs <;> grind [State.setW, State.setS, getD_set_self]

theorem invL_updLe {v s a s'} (h : InvL s) (hs : step v s a = some s') :
    ∀ e ∈ s'.upd, e.2 ≤ s'.heads.getD e.1 0 := by
  obtain ⟨connOk, sendLe, updLe, wantLe, loopLe, putLe, logLe⟩ := h
  have hm := heads_mono hs
  cases a <;> step_cases hs <;> grind [State.setW, State.setS]

theorem invL_wantLe {v s a s'} (h : InvL s) (hs : step v s a = some s') :
    ∀ c h, s'.run = .nWant c h → h ≤ s'.heads.getD c 0 := by
  obtain ⟨connOk, sendLe, updLe, wantLe, loopLe, putLe, logLe⟩ := h
  have hm := heads_mono hs
  cases a <;> step_cases hs <;> grind [State.setW, State.setS]

theorem invL_loopLe {v s a s'} (h : InvL s) (hs : step v s a = some s') :
    ∀ h todo, s'.run = .nLoop h todo → ∃ c, s'.best = some c ∧ h ≤ s'.heads.getD c 0 := by
  obtain ⟨connOk, sendLe, updLe, wantLe, loopLe, putLe, logLe⟩ := h
  have hm := heads_mono hs
  cases a <;> step_cases hs <;> grind [State.setW, State.setS]

theorem invL_putLe {v s a s'} (h : InvL s) (hs : step v s a = some s') :
    ∀ h h' w todo, s'.run = .nPut h h' w todo → ∃ c, s'.best = some c ∧ h ≤ s'.heads.getD c 0 := by
  obtain ⟨connOk, sendLe, updLe, wantLe, loopLe, putLe, logLe⟩ := h
  have hm := heads_mono hs
  cases a <;> step_cases hs <;> grind [State.setW, State.setS]

theorem invL_logLe {v s a s'} (h : InvL s) (hs : step v s a = some s') :
    ∀ e ∈ s'.log, e.2.2 ≤ s'.heads.getD e.2.1 0 := by
  obtain ⟨connOk, sendLe, updLe, wantLe, loopLe, putLe, logLe⟩ := h
  have hm := heads_mono hs
  cases a <;> step_cases hs <;> grind [State.setW, State.setS]

theorem invL_step {v s a s'} (h : InvL s) (hs : step v s a = some s') : InvL s' :=
  ⟨invL_connOk h hs, invL_sendLe h hs, invL_updLe h hs, invL_wantLe h hs, invL_loopLe h hs, invL_putLe h hs,
   invL_logLe h hs⟩

theorem invL_init (heads best targets pubs) (hp : ∀ p ∈ pubs, p.1 < heads.length) :
    InvL (mkInit heads best targets pubs) := by
  constructor
  · intro j x h
    simp only [mkInit, List.getElem?_map, Option.map_eq_some_iff] at h
    obtain ⟨p, hp', rfl⟩ := h
    exact hp p (List.mem_of_getElem? hp')
  · intro j x h hpc
    simp only [mkInit, List.getElem?_map, Option.map_eq_some_iff] at h
    obtain ⟨p, _, rfl⟩ := h
    simp at hpc
  · intro e he; simp [mkInit] at he
  · intro c h hr; simp [mkInit] at hr
  · intro h todo hr; simp [mkInit] at hr
  · intro h h' w todo hr; simp [mkInit] at hr
  · intro e he; simp [mkInit] at he

theorem reachable_invL {v s} (h : Reachable v s) : InvL s := by
  induction h with
  | init heads best targets pubs hp => exact invL_init heads best targets pubs hp
  | step _ hs ih => exact invL_step ih hs

/-- a log entry is appended only for the connection that is best at that very step -/
theorem log_step {v s a s'} (hL : InvL s) (hs : step v s a = some s') :
    s'.log = s.log ∨ ∃ i c h, s'.log = s.log ++ [(i, c, h)] ∧ s.best = some c := by
  have loopLe := hL.loopLe
  cases a <;> step_cases hs <;> grind [State.setW, State.setS]

/-! ### Group E: the repaired notifySubscribers loses nothing it offers -/

/-- Run is between the draining and the sending select for waiter `i`'s channel, carrying a head `≥ m` -/
def carriedGe (r : RunPc) (i m : Nat) : Bool :=
  match r with
  | .nPut _ h' w _ => w == i && decide (m ≤ h')
  | _ => false

structure InvE (s : State) : Prop where
  putEmpty : ∀ h h' w todo, s.run = .nPut h h' w todo → ∀ x, s.waiters[w]? = some x → x.buf = []
  kept : ∀ (i : Nat) (w : Waiter), s.waiters[i]? = some w → w.pc = .sel → ∀ m, w.offered = some m →
    (∃ h ∈ w.buf, m ≤ h) ∨ carriedGe s.run i m = true ∨ (∃ h ∈ w.received, m ≤ h)

theorem invE_putEmpty {v s a s'} (hA : InvA s) (h : InvE s) (hs : step v s a = some s') :
    ∀ h h' w todo, s'.run = .nPut h h' w todo → ∀ x, s'.waiters[w]? = some x → x.buf = [] := by
  obtain ⟨putEmpty, kept⟩ := h
  obtain ⟨l1, l2, l3, l4, vWl, vLoop, vPut, fresh, cap1⟩ := hA
  cases a <;> step_cases hs <;> grind [State.setW, State.setS, WPc.registered]

theorem invE_kept {v s a s'} (hA : InvA s) (h : InvE s) (hs : step v s a = some s') :
    ∀ (i : Nat) (w : Waiter), s'.waiters[i]? = some w → w.pc = .sel → ∀ m, w.offered = some m →
    (∃ h ∈ w.buf, m ≤ h) ∨ carriedGe s'.run i m = true ∨ (∃ h ∈ w.received, m ≤ h) := by
  obtain ⟨putEmpty, kept⟩ := h
  have fresh := hA.fresh
  have cap1 := hA.cap1
  cases a <;> step_cases hs <;> grind [State.setW, State.setS, carriedGe]

theorem invE_step {v s a s'} (hA : InvA s) (h : InvE s) (hs : step v s a = some s') : InvE s' :=
  ⟨invE_putEmpty hA h hs, invE_kept hA h hs⟩

theorem invE_init (heads best targets pubs) : InvE (mkInit heads best targets pubs) := by
  constructor
  · intro h h' w todo hr; simp [mkInit] at hr
  · intro i w h hp; have := mkInit_waiter h; simp [this.1] at hp

theorem reachable_invE {v s} (h : Reachable v s) : InvE s := by
  induction h with
  | init heads best targets pubs hp => exact invE_init ..
  | step hr hs ih => exact invE_step (reachable_invA hr) ih hs

/-! ### Group P: with a best connection present nobody dereferences nil -/

theorem noPanic_step {v s a s'} (hO : InvO s)
    (h : s.best ≠ none ∧ ∀ (i : Nat) (w : Waiter), s.waiters[i]? = some w → w.pc ≠ .done .panic)
    (hs : step v s a = some s') :
    s'.best ≠ none ∧ ∀ (i : Nat) (w : Waiter), s'.waiters[i]? = some w → w.pc ≠ .done .panic := by
  obtain ⟨hb, hw⟩ := h
  have nlp := hO.noLeavePanic
  constructor
  · cases a <;> step_cases hs <;> grind [State.setW, State.setS]
  · cases a <;> step_cases hs <;> grind [State.setW, State.setS]

theorem noPanic_trace {v : Variant} (as : List Action) : ∀ {s0 s : State}, Reachable v s0 →
    (s0.best ≠ none ∧ ∀ (i : Nat) (w : Waiter), s0.waiters[i]? = some w → w.pc ≠ .done .panic) →
    runTrace v s0 as = some s →
    (s.best ≠ none ∧ ∀ (i : Nat) (w : Waiter), s.waiters[i]? = some w → w.pc ≠ .done .panic) := by
  induction as with
  | nil => intro s0 s _ h0 h; simp only [runTrace, Option.some.injEq] at h; subst h; exact h0
  | cons a as ih =>
    intro s0 s hr h0 h
    simp only [runTrace] at h
    cases hs : step v s0 a with
    | none => rw [hs] at h; cases h
    | some s1 =>
      rw [hs] at h
      exact ih (Reachable.step hr hs) (noPanic_step (reachable_invO hr) h0 hs) h

end Tongo.PoolSM
