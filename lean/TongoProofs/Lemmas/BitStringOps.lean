import TongoProofs.Lemmas.BitStringRefine
/-! Every operation of the C06 vocabulary refines its specification on the ideal bit list (`op_refines`), and so does
every sequence of operations (`runAll_refines`). Helper lemmas only. -/
namespace Tongo
open Tongo.Bits Tongo.BitString

theorem R.advance {s t} (hR : R s t) (n : Nat) (h : s.rCursor + n ≤ s.len) :
    R { s with rCursor := s.rCursor + n } { t with pos := t.pos + n } := by
  obtain ⟨⟨h1, h2, h3, h4⟩, hab, hcap, hpos⟩ := hR
  exact ⟨⟨h1, h2, h, h4⟩, hab, hcap, by simp [hpos]⟩

theorem R.nextBits_eq {s t} (hR : R s t) (n : Nat) : BitString.nextBits s n = (t.bits.drop t.pos).take n := by
  rw [BitString.nextBits, hR.2.1, hR.2.2.2]

/-- generic reader: `x` reads `n` bits or fails without moving -/
theorem read_refines {α} (x : M α) (n : Nat) (g : α → Out) (f : List Bool → Out)
    (hok : ∀ s, BitString.Inv s → s.rCursor + n ≤ s.len →
      ∃ v, x s = (.ok v, { s with rCursor := s.rCursor + n }) ∧ (g v).norm = f (nextBits s n))
    (herr : ∀ s, BitString.Inv s → s.len < s.rCursor + n → x s = (.err errNotEnough, s))
    (s : BitString) (t : Ideal) (hR : R s t) :
    Agree ((x >>= fun v => pure (g v)) s) (Ideal.read n f t) := by
  have hlen := hR.len
  unfold Ideal.read Ideal.peek
  rw [hlen, ← hR.2.2.2]
  by_cases hu : s.len < s.rCursor + n
  · simp only [bind_run, herr s hR.1 hu, hu, if_true]
    exact ⟨rfl, hR⟩
  · obtain ⟨v, hx, hv⟩ := hok s hR.1 (by omega)
    simp only [bind_run, hx, pure_run, hu, if_false]
    refine ⟨?_, ?_⟩
    · simp only [normO, hv, hR.nextBits_eq, hR.2.2.2]
    · have := hR.advance n (by omega)
      rw [hR.2.2.2] at this ⊢
      exact this

theorem agree_err (e : String) (s : BitString) (t : Ideal) (hR : R s t) : Agree (.err e, s) (.err e, t) := ⟨rfl, hR⟩

/-! ### the remaining operations -/

theorem grow_refines (n : Nat) (s : BitString) (t : Ideal) (hR : R s t) :
    R (grow n s).2 { t with cap := t.cap + n } := by
  obtain ⟨⟨h1, h2, h3, h4⟩, hab, hcap, hpos⟩ := hR
  simp only [grow, modify_run]
  have hbits : bytesToBits (s.buf ++ List.replicate (n / 8 + 1) 0) =
      bytesToBits s.buf ++ List.replicate (8 * (n / 8 + 1)) false := by
    rw [bytesToBits_append, bytesToBits_replicate_zero]
  refine ⟨⟨by simp; omega, by simp; omega, h3, ?_⟩, ?_, by simp [hcap], hpos⟩
  · simp only [hbits, List.length_append, List.length_replicate]
    rw [List.drop_append_of_le_length (by simp; omega), h4, List.replicate_append_replicate]
    congr 1; omega
  · show List.take s.len (bytesToBits (s.buf ++ List.replicate (n / 8 + 1) 0)) = t.bits
    rw [hbits, List.take_append_of_le_length (by simp; omega)]
    exact hab

theorem append_refines (src : BitString) (hsrc : src.len ≤ 8 * src.buf.length) (s : BitString) (t : Ideal)
    (hR : R s t) :
    Agree (Op.unitOut (BitString.append src) s)
      (.ok .unit, { t with bits := t.bits ++ abs src,
                           cap := if src.len + t.bits.length > t.cap then src.len + t.bits.length else t.cap }) := by
  have hlen := hR.len
  have hsl : (abs src).length = src.len := abs_length hsrc
  rw [unitOut_run]
  simp only [BitString.append, bind_run, get_run, ite_run]
  rw [hlen, ← hR.2.2.1]
  by_cases hg : src.len + s.len > s.cap
  · simp only [hg, if_true]
    have hR1 := grow_refines (src.len + s.len - s.cap) s t hR
    have hgr : grow (src.len + s.len - s.cap) s = (.ok (), (grow (src.len + s.len - s.cap) s).2) := rfl
    rw [hgr]
    simp only
    generalize (grow (src.len + s.len - s.cap) s).2 = s1 at hR1
    obtain ⟨s2, hw, ha, hi2, hc2, hr2⟩ := writeBitArray_spec (abs src) s1 hR1.1
    have hl1 : s1.len = s.len := by
      have := hR1.len; simp only at this; omega
    have hc1 : s1.cap = s.cap + (src.len + s.len - s.cap) := by rw [hR1.2.2.1, hR.2.2.1]
    have hfit : s1.len + (abs src).length ≤ s1.cap := by omega
    rw [writeBitString_eq src hsrc, ignoreErr, hw]
    simp only [hfit, if_true]
    refine ⟨rfl, hi2, ?_, ?_, ?_⟩
    · rw [ha, hR1.2.1, List.take_of_length_le (by omega)]
    · simp only; rw [hc2, hc1]; omega
    · rw [hr2, hR1.2.2.2]
  · simp only [hg, if_false]
    obtain ⟨s2, hw, ha, hi2, hc2, hr2⟩ := writeBitArray_spec (abs src) s hR.1
    have hfit : s.len + (abs src).length ≤ s.cap := by omega
    rw [writeBitString_eq src hsrc, ignoreErr, hw]
    simp only [hfit, if_true]
    refine ⟨rfl, hi2, ?_, ?_, ?_⟩
    · rw [ha, hR.2.1, List.take_of_length_le (by omega)]
    · simp only; rw [hc2]
    · rw [hr2, hR.2.2.2]

theorem readUnary_refines (s : BitString) (t : Ideal) (hR : R s t) :
    Agree ((readUnary >>= fun v => pure (Out.nat v)) s) (Op.spec .readUnary t) := by
  have h8 := hR.1.len_le_buf
  have hc : s.rCursor ≤ s.len := hR.1.2.2.1
  have hlen := hR.len
  simp only [bind_run, readUnary, get_run]
  rw [readUnaryLoop_spec _ 0 s h8 hc (Nat.le_refl _)]
  simp only [Op.spec]
  rw [hR.2.1, hR.2.2.2]
  by_cases h1 : (List.takeWhile (fun x => x == true) (List.drop t.pos t.bits)).length
      < (List.drop t.pos t.bits).length
  · simp only [h1, if_true, pure_run, Nat.zero_add]
    refine ⟨rfl, ?_⟩
    have hle : s.rCursor + ((List.takeWhile (fun x => x == true) (List.drop t.pos t.bits)).length + 1) ≤ s.len := by
      have hd : (List.drop t.pos t.bits).length = s.len - s.rCursor := by rw [List.length_drop, hlen, hR.2.2.2]
      omega
    have := hR.advance _ hle
    rw [hR.2.2.2] at this
    simpa [Nat.add_assoc] using this
  · simp only [h1, if_false]
    refine ⟨rfl, ?_⟩
    obtain ⟨⟨a1, a2, a3, a4⟩, hab, hcap, hpos⟩ := hR
    exact ⟨⟨a1, a2, Nat.le_refl _, a4⟩, hab, hcap, hlen.symm⟩

theorem pickUint_refines (n : Nat) (s : BitString) (t : Ideal) (hR : R s t) :
    Agree ((pickUint n >>= fun v => pure (Out.nat v)) s) (Op.spec (.pickUint n) t) := by
  have h8 := hR.1.len_le_buf
  have hlen := hR.len
  simp only [Op.spec, Ideal.peek]
  rw [hlen, ← hR.2.2.2]
  simp only [pickUint, bind_run]
  by_cases h64 : n > 64
  · rw [readUint_toowide n s h64]
    simp only [h64, if_true]
    exact ⟨rfl, hR⟩
  · simp only [h64, if_false]
    by_cases hu : s.len < s.rCursor + n
    · rw [readUint_underflow n s (by omega) hu]
      simp only [hu, if_true]
      exact ⟨rfl, hR⟩
    · rw [readUint_ok n s h8 (by omega) (by omega)]
      simp only [hu, if_false, modify_run, pure_run, Nat.add_sub_cancel]
      refine ⟨?_, hR⟩
      simp only [normO, Out.norm, hR.nextBits_eq, hR.2.2.2]

/-- every well-formed operation refines its specification -/
theorem op_refines (op : Op) (hwf : op.WF) (s : BitString) (t : Ideal) (hR : R s t) :
    Agree (op.run s) (op.spec t) := by
  have h8 := hR.1.len_le_buf
  cases op with
  | writeBit b =>
    simp only [Op.run, Op.spec, ← writeBitArray_single]
    exact write_refines _ s t hR
  | writeBitArray l => exact write_refines _ s t hR
  | writeUint v n =>
    simp only [Op.run, Op.spec, writeUint_eq]
    exact write_refines _ s t hR
  | writeInt v n =>
    obtain ⟨hlo, hhi, hn64⟩ := hwf
    simp only [Op.run, Op.spec]
    by_cases h0 : n = 0
    · subst h0
      simp only [writeInt, if_true]
      exact fail_refines _ s t hR
    · simp only [h0, if_false]
      by_cases h1 : n = 1
      · subst h1
        simp only [writeInt, if_true, Nat.sub_self, pow_zero]
        by_cases hm : v = -1
        · subst hm
          have : intToBits 1 (-1) = [true] := by decide
          simp only [if_true, this, ← writeBitArray_single]
          simp only [show ¬ ((-1 : Int) < -1 ∨ (-1 : Int) ≥ 1) by omega, if_false]
          exact write_refines _ s t hR
        · by_cases hz : v = 0
          · subst hz
            have : intToBits 1 0 = [false] := by decide
            simp only [show ¬ ((0 : Int) = -1) by omega, if_false, if_true, this, ← writeBitArray_single]
            simp only [show ¬ ((0 : Int) < -1 ∨ (0 : Int) ≥ 1) by omega, if_false]
            exact write_refines _ s t hR
          · have : v < -1 ∨ v ≥ 1 := by omega
            simp only [hm, hz, if_false, this, if_true]
            exact fail_refines _ s t hR
      · have hn2 : 2 ≤ n := by omega
        rw [writeInt_eq v n hn2]
        by_cases hrep : v < -(2 : Int) ^ (n - 1) ∨ v ≥ (2 : Int) ^ (n - 1)
        · simp only [hrep, if_true, h1, if_false]
          exact write_refines _ s t hR
        · simp only [hrep, if_false]
          rw [signbit_low_eq_intToBits v n (by omega) (by omega) (by omega) hn64]
          exact write_refines _ s t hR
  | writeByte b =>
    simp only [Op.run, Op.spec, writeByte_eq]
    exact write_refines _ s t hR
  | writeBytes l =>
    simp only [Op.run, Op.spec, writeBytes_eq]
    exact write_refines _ s t hR
  | writeBitString src =>
    simp only [Op.run, Op.spec, writeBitString_eq src hwf]
    exact write_refines _ s t hR
  | writeBigUint v n =>
    simp only [Op.run, Op.spec, writeBigUint]
    by_cases hc : n = 0 ∨ bigBitLen v > n
    · simp only [hc, if_true]
      exact fail_refines _ s t hR
    · simp only [hc, if_false, writeBigBits_eq v n hwf]
      exact write_refines _ s t hR
  | writeBigInt v n =>
    obtain ⟨hn, hlo, hhi⟩ := hwf
    simp only [Op.run, Op.spec, writeBigInt_eq v n hn hlo hhi]
    exact write_refines _ s t hR
  | writeUnary n =>
    simp only [Op.run, Op.spec, writeUnary_eq, writeUnary_spec_eq]
    exact write_refines _ s t hR
  | writeLimUint v n =>
    simp only [Op.run, Op.spec, writeLimUint, writeUint_eq, minBitsRequired_eq_bitLength n hwf.2]
    exact write_refines _ s t hR
  | readBit =>
    simp only [Op.run, Op.spec]
    refine read_refines readBit 1 Out.bool _ ?_ ?_ s t hR
    · intro s hi h
      have hn : s.rCursor < s.len := by omega
      refine ⟨(BitString.abs s)[s.rCursor]'(by rw [hi.abs_length]; exact hn), ?_, ?_⟩
      · rw [readBit_run s hi.len_le_buf]; simp only [hn, dite_true]
      · rw [nextBits_succ s 0 hi.len_le_buf hn]; rfl
    · intro s hi h
      have hn : ¬ s.rCursor < s.len := by omega
      rw [readBit_run s hi.len_le_buf]; simp only [hn, dite_false]
  | skip n =>
    simp only [Op.run, Op.spec]
    rw [unitOut_run]
    have hlen := hR.len
    unfold Ideal.read Ideal.peek
    rw [hlen, ← hR.2.2.2]
    simp only [skip, bind_run, needBits_run]
    by_cases hu : s.len < s.rCursor + n
    · simp only [hu, if_true]; exact ⟨rfl, hR⟩
    · simp only [hu, if_false, advance_run]
      refine ⟨rfl, ?_⟩
      have := hR.advance n (by omega)
      rw [hR.2.2.2] at this ⊢
      exact this
  | readUint n =>
    simp only [Op.run, Op.spec]
    by_cases h64 : n > 64
    · simp only [h64, if_true, bind_run, readUint_toowide n s h64]
      exact ⟨rfl, hR⟩
    · simp only [h64, if_false]
      refine read_refines (readUint n) n Out.nat _ ?_ ?_ s t hR
      · intro s hi h
        exact ⟨_, readUint_ok n s hi.len_le_buf (by omega) h, rfl⟩
      · intro s _ h
        exact readUint_underflow n s (by omega) h
  | pickUint n => exact pickUint_refines n s t hR
  | readInt n =>
    simp only [Op.run, Op.spec]
    by_cases h64 : n > 64
    · simp only [h64, if_true, bind_run, readInt_toowide n s h64]
      exact ⟨rfl, hR⟩
    · simp only [h64, if_false]
      by_cases h0 : n = 0
      · subst h0
        simp only [if_true, bind_run, readInt_zero]
        exact ⟨rfl, hR⟩
      · simp only [h0, if_false]
        refine read_refines (readInt n) n Out.int _ ?_ ?_ s t hR
        · intro s hi h
          exact ⟨_, readInt_ok n s hi.len_le_buf (by omega) (by omega) h, rfl⟩
        · intro s _ h
          exact readInt_underflow n s (by omega) (by omega) h
  | readByte =>
    simp only [Op.run, Op.spec]
    refine read_refines readByte 8 (fun b => Out.nat b.toNat) _ ?_ ?_ s t hR
    · intro s hi h
      refine ⟨_, readByte_ok s hi.len_le_buf h, ?_⟩
      have hlt := bitsToNat_lt (nextBits s 8)
      rw [nextBits_length s 8 hi.len_le_buf h] at hlt
      have : (UInt8.ofNat (bitsToNat (nextBits s 8))).toNat = bitsToNat (nextBits s 8) := by
        simp; omega
      simp only [Out.norm, this]
    · intro s _ h
      exact readByte_underflow s h
  | readBytes n =>
    simp only [Op.run, Op.spec]
    refine read_refines (readBytes n) (n * 8) Out.bytes _ ?_ ?_ s t hR
    · intro s hi h
      exact ⟨_, readBytes_ok n s hi.len_le_buf h, rfl⟩
    · intro s _ h
      exact readBytes_underflow n s h
  | readBits n =>
    simp only [Op.run, Op.spec]
    refine read_refines (readBits n) n Out.bs _ ?_ ?_ s t hR
    · intro s hi h
      obtain ⟨r, hr, ha, _⟩ := readBits_ok n s hi.len_le_buf h
      exact ⟨r, hr, by simp only [Out.norm, ha]⟩
    · intro s _ h
      exact readBits_underflow n s h
  | readRemainingBits =>
    simp only [Op.run, Op.spec, readRemainingBits]
    have hlen := hR.len
    have hc : s.rCursor ≤ s.len := hR.1.2.2.1
    have e : t.bits.length - t.pos = s.len - s.rCursor := by rw [hlen, hR.2.2.2]
    rw [e]
    have hrun : ((BitString.get >>= fun s => readBits (s.len - s.rCursor)) >>= fun r => pure (Out.bs r)) s
        = (readBits (s.len - s.rCursor) >>= fun r => pure (Out.bs r)) s := by
      simp only [bind_run, get_run]
    rw [hrun]
    refine read_refines (readBits (s.len - s.rCursor)) (s.len - s.rCursor) Out.bs _ ?_ ?_ s t hR
    · intro s' hi h
      obtain ⟨r, hr, ha, _⟩ := readBits_ok _ s' hi.len_le_buf h
      exact ⟨r, hr, by simp only [Out.norm, ha]⟩
    · intro s' _ h
      exact readBits_underflow _ s' h
  | readBigUint n =>
    simp only [Op.run, Op.spec]
    refine read_refines (readBigUint n) n Out.nat _ ?_ ?_ s t hR
    · intro s hi h
      exact ⟨_, readBigUint_ok n s hi.len_le_buf h, rfl⟩
    · intro s _ h
      exact readBigUint_underflow n s h
  | readBigInt n =>
    simp only [Op.run, Op.spec]
    refine read_refines (readBigInt n) n Out.int _ ?_ ?_ s t hR
    · intro s hi h
      exact ⟨_, readBigInt_ok n s hi.len_le_buf h, rfl⟩
    · intro s _ h
      exact readBigInt_underflow n s h
  | readUnary => exact readUnary_refines s t hR
  | readLimUint n =>
    have hb := bitLength_le_64 n hwf
    simp only [Op.run, Op.spec, readLimUint, minBitsRequired_eq_bitLength n hwf]
    refine read_refines (readUint (Ideal.bitLength n)) (Ideal.bitLength n) Out.nat _ ?_ ?_ s t hR
    · intro s hi h
      exact ⟨_, readUint_ok _ s hi.len_le_buf hb h, rfl⟩
    · intro s _ h
      exact readUint_underflow _ s hb h
  | resetCounter =>
    simp only [Op.run, Op.spec]
    rw [unitOut_run]
    simp only [resetCounter, modify_run]
    obtain ⟨⟨a1, a2, a3, a4⟩, hab, hcap, hpos⟩ := hR
    exact ⟨rfl, ⟨a1, a2, Nat.zero_le _, a4⟩, hab, hcap, rfl⟩
  | grow n =>
    simp only [Op.run, Op.spec]
    rw [unitOut_run]
    have hg : grow n s = (.ok (), (grow n s).2) := rfl
    rw [hg]
    exact ⟨rfl, grow_refines n s t hR⟩
  | append src =>
    simp only [Op.run, Op.spec]
    exact append_refines src hwf s t hR
  | copy =>
    simp only [Op.run, Op.spec]
    rw [unitOut_run]
    simp only [modify_run, BitString.copy]
    obtain ⟨⟨a1, a2, a3, a4⟩, hab, hcap, hpos⟩ := hR
    exact ⟨rfl, ⟨a1, a2, Nat.zero_le _, a4⟩, hab, hcap, rfl⟩

/-- every sequence of well-formed operations: same outcomes, related final states -/
theorem runAll_refines (ops : List Op) : ∀ (s : BitString) (t : Ideal), (∀ op ∈ ops, op.WF) → R s t →
    (Op.runAll ops s).1.map normO = (Op.specAll ops t).1 ∧ R (Op.runAll ops s).2 (Op.specAll ops t).2 := by
  induction ops with
  | nil => intro s t _ hR; exact ⟨rfl, hR⟩
  | cons op rest ih =>
    intro s t hwf hR
    have hop := op_refines op (hwf op (List.mem_cons_self)) s t hR
    obtain ⟨ho, hR'⟩ := hop
    simp only [Op.runAll, Op.specAll]
    rcases hrun : op.run s with ⟨r, s'⟩
    rcases hspec : op.spec t with ⟨r', t'⟩
    rw [hrun, hspec] at ho hR'
    simp only at ho hR'
    have hrest := ih s' t' (fun o ho => hwf o (List.mem_cons_of_mem _ ho)) hR'
    cases r with
    | panic p =>
      simp only [normO] at ho
      subst ho
      exact ⟨rfl, hR'⟩
    | ok o =>
      simp only [normO] at ho
      subst ho
      simp only [List.map_cons, normO]
      exact ⟨by rw [hrest.1], hrest.2⟩
    | err e =>
      simp only [normO] at ho
      subst ho
      simp only [List.map_cons, normO]
      exact ⟨by rw [hrest.1], hrest.2⟩

end Tongo
