import TongoProofs.Lemmas.WalletMsg
/-! The dictionary of the highload payload: `encodeMap` on the keys 0..n-1 (16 bits) always succeeds and `mapInner`
reads back exactly the entries in order. Proved for every key set given as a binary-trie decomposition (`Trie`), then
every interval of L-bit numbers is shown to be one. Keys are at most 16 bits long (label lengths fit the cell). -/
namespace Tongo.Wallet
open Tongo Tongo.Bits

/-- prefix a key -/
def pre (q : List Bool) (kv : List Bool × RawMsg) : List Bool × RawMsg := (q ++ kv.1, kv.2)

/-- key sets in trie order: one key, or a common prefix `p` followed by a 0-branch and a 1-branch -/
inductive Trie : Nat → List (List Bool × RawMsg) → Prop where
  | leaf (k : List Bool) (m : RawMsg) : Trie k.length [(k, m)]
  | node (p : List Bool) (l r : List (List Bool × RawMsg)) (m : Nat) : Trie m l → Trie m r →
      Trie (p.length + 1 + m) (l.map (pre (p ++ [false])) ++ r.map (pre (p ++ [true])))

theorem Trie.ne_nil {L : Nat} {kvs : List (List Bool × RawMsg)} (h : Trie L kvs) : kvs ≠ [] := by
  induction h with
  | leaf k m => simp
  | node p l r m hl hr ihl ihr =>
    intro he
    simp only [List.append_eq_nil_iff, List.map_eq_nil_iff] at he
    exact ihl he.1

theorem Trie.key_length {L : Nat} {kvs : List (List Bool × RawMsg)} (h : Trie L kvs) : ∀ kv ∈ kvs, kv.1.length = L := by
  induction h with
  | leaf k m => intro kv hkv; simp at hkv; rw [hkv]
  | node p l r m hl hr ihl ihr =>
    intro kv hkv
    simp only [List.mem_append, List.mem_map] at hkv
    rcases hkv with ⟨x, hx, rfl⟩ | ⟨x, hx, rfl⟩
    · simp [pre, ihl x hx]; omega
    · simp [pre, ihr x hx]; omega

/-! ### labels -/

theorem readUnary_replicate (n : Nat) : ∀ (fuel : Nat) (rest : List Bool) (refs : List Cell), n < fuel →
    CellR.readUnary fuel { bits := List.replicate n true ++ false :: rest, refs := refs } = .ok (n, { bits := rest, refs := refs }) := by
  induction n with
  | zero => intro fuel rest refs hf; cases fuel with
    | zero => omega
    | succ f => simp [CellR.readUnary]
  | succ n ih =>
    intro fuel rest refs hf
    cases fuel with
    | zero => omega
    | succ f =>
      simp only [List.replicate_succ, List.cons_append, CellR.readUnary, bind, Outcome.bind, pure]
      rw [ih f rest refs (by omega)]

theorem minBits_le16 : ∀ L : Fin 17, minBitsRequired L.val ≤ 5 := by decide
theorem lt_pow_minBits : ∀ L : Fin 17, ∀ n : Fin 17, n.val ≤ L.val → n.val < 2 ^ minBitsRequired L.val := by decide

theorem labelBits_length_le (label : List Bool) (L : Nat) (hl : label.length ≤ L) (hL : L ≤ 16) : (labelBits label L).length ≤ 40 := by
  unfold labelBits
  have := minBits_le16 ⟨L, by omega⟩
  simp only at this
  split <;> simp <;> omega

/-- reading back a label written by `encodeLabel` -/
theorem loadLabel_labelBits (K L : Nat) (label rest : List Bool) (refs : List Cell) (pfx : List Bool)
    (hl : label.length ≤ L) (hL : L ≤ 16) (hp : pfx.length + label.length ≤ K) :
    loadLabel K (L : Int) { bits := labelBits label L ++ rest, refs := refs } pfx =
      .ok (label.length, pfx ++ label, { bits := rest, refs := refs }) := by
  unfold loadLabel labelBits
  by_cases hs : label.length < 8
  · simp only [hs, ↓reduceIte, List.append_assoc, List.cons_append, List.nil_append, CellR.readBit_cons, bind, Outcome.bind,
      Bool.not_false, pure]
    rw [readUnary_replicate label.length _ _ _ (by simp; omega)]
    simp only []
    have hm : min label.length ((label ++ rest).length + 1) = label.length := by simp; omega
    rw [hm, CellR.readBits_append label rest refs _ rfl]
    simp [prefixPush, hp]
  · simp only [hs, ↓reduceIte, List.append_assoc, List.cons_append, List.nil_append, CellR.readBit_cons, bind, Outcome.bind,
      Bool.not_true, Bool.false_eq_true, Bool.not_false, pure]
    have hw : limUintWidth (L : Int) = minBitsRequired L := by
      unfold limUintWidth; simp
    rw [hw, CellR.readUint_append _ label.length _ _ (lt_pow_minBits ⟨L, by omega⟩ ⟨label.length, by omega⟩ hl)]
    simp only []
    have hm : min label.length ((label ++ rest).length + 1) = label.length := by simp; omega
    rw [hm, CellR.readBits_append label rest refs _ rfl]
    simp [prefixPush, hp]

theorem commonLabel_split (p a b : List Bool) : commonLabel (p ++ false :: a) (p ++ true :: b) = p := by
  induction p with
  | nil => cases a <;> simp [commonLabel]
  | cons x xs ih =>
    cases hxs : xs ++ false :: a with
    | nil => simp at hxs
    | cons y ys =>
      simp only [List.cons_append, hxs, commonLabel, ↓reduceIte]
      rw [← hxs, ih]

/-! ### round trip -/

/-- what `mapInner` with the identity value reader returns for an entry -/
def leafR (kv : List Bool × RawMsg) : CellR := { bits := natToBits 8 kv.2.mode, refs := [kv.2.msg] }

theorem filterMap_left (p : List Bool) (l r : List (List Bool × RawMsg)) :
    (l.map (pre (p ++ [false])) ++ r.map (pre (p ++ [true]))).filterMap
      (fun (kv : List Bool × RawMsg) => if (kv.1.drop p.length).head? = some false then some (kv.1.drop (p.length + 1), kv.2) else none) = l := by
  rw [List.filterMap_append]
  have h1 : (l.map (pre (p ++ [false]))).filterMap
      (fun (kv : List Bool × RawMsg) => if (kv.1.drop p.length).head? = some false then some (kv.1.drop (p.length + 1), kv.2) else none) = l := by
    induction l with
    | nil => rfl
    | cons x xs ih =>
      simp only [List.map_cons, List.filterMap_cons, pre, List.append_assoc, List.singleton_append, List.drop_left',
        List.head?_cons, ↓reduceIte, ih]
      · have : List.drop (p.length + 1) (p ++ false :: x.1) = x.1 := by
          rw [← List.drop_drop, List.drop_left']; rfl
          rfl
        rw [this]
      all_goals rfl
  have h2 : (r.map (pre (p ++ [true]))).filterMap
      (fun (kv : List Bool × RawMsg) => if (kv.1.drop p.length).head? = some false then some (kv.1.drop (p.length + 1), kv.2) else none) = [] := by
    induction r with
    | nil => rfl
    | cons x xs ih =>
      simp only [List.map_cons, List.filterMap_cons, pre, List.append_assoc, List.singleton_append, List.drop_left',
        List.head?_cons, ih]
      · simp
      all_goals rfl
  rw [h1, h2, List.append_nil]

theorem filterMap_right (p : List Bool) (l r : List (List Bool × RawMsg)) :
    (l.map (pre (p ++ [false])) ++ r.map (pre (p ++ [true]))).filterMap
      (fun (kv : List Bool × RawMsg) => if (kv.1.drop p.length).head? = some true then some (kv.1.drop (p.length + 1), kv.2) else none) = r := by
  rw [List.filterMap_append]
  have h1 : (l.map (pre (p ++ [false]))).filterMap
      (fun (kv : List Bool × RawMsg) => if (kv.1.drop p.length).head? = some true then some (kv.1.drop (p.length + 1), kv.2) else none) = [] := by
    induction l with
    | nil => rfl
    | cons x xs ih =>
      simp only [List.map_cons, List.filterMap_cons, pre, List.append_assoc, List.singleton_append, List.drop_left',
        List.head?_cons, ih]
      · simp
      all_goals rfl
  have h2 : (r.map (pre (p ++ [true]))).filterMap
      (fun (kv : List Bool × RawMsg) => if (kv.1.drop p.length).head? = some true then some (kv.1.drop (p.length + 1), kv.2) else none) = r := by
    induction r with
    | nil => rfl
    | cons x xs ih =>
      simp only [List.map_cons, List.filterMap_cons, pre, List.append_assoc, List.singleton_append, List.drop_left',
        List.head?_cons, ↓reduceIte, ih]
      · have : List.drop (p.length + 1) (p ++ true :: x.1) = x.1 := by
          rw [← List.drop_drop, List.drop_left']; rfl
          rfl
        rw [this]
      all_goals rfl
  rw [h1, h2, List.nil_append]

theorem leafR_pre (q : List Bool) (kv : List Bool × RawMsg) : leafR (pre q kv) = leafR kv := rfl

/-- the interior-node branch of `encodeMap` -/
theorem encodeMap_node (fuel : Nat) (a b : List Bool × RawMsg) (rest : List (List Bool × RawMsg)) (L : Nat) (label : List Bool)
    (hlabel : edgeLabel a.1 (a :: b :: rest) = label) :
    encodeMap payloadStep (fuel + 1) (a :: b :: rest) L =
      (do
        let bb ← CellB.empty.write (labelBits label L)
        let l ← encodeMap payloadStep fuel ((a :: b :: rest).filterMap fun (kv : List Bool × RawMsg) =>
          if (kv.1.drop label.length).head? = some false then some (kv.1.drop (label.length + 1), kv.2) else none) (L - label.length - 1)
        let r ← encodeMap payloadStep fuel ((a :: b :: rest).filterMap fun (kv : List Bool × RawMsg) =>
          if (kv.1.drop label.length).head? = some true then some (kv.1.drop (label.length + 1), kv.2) else none) (L - label.length - 1)
        let bb ← bb.addRef l
        let bb ← bb.addRef r
        pure bb.toCell) := by
  obtain ⟨k0, v0⟩ := a
  rw [encodeMap]
  simp only [] at hlabel ⊢
  rw [hlabel]

theorem trie_roundtrip {L : Nat} {kvs : List (List Bool × RawMsg)} (h : Trie L kvs) :
    L ≤ 16 → ∀ (fuel fuel2 K : Nat) (pfx : List Bool), L < fuel → L < fuel2 → pfx.length + L = K →
      ∃ c, encodeMap payloadStep fuel kvs L = .ok c ∧ c.ty = 0 ∧
        mapInner (fun r => Outcome.ok r) K fuel2 (L : Int) c pfx = .ok (kvs.map fun kv => (pfx ++ kv.1, leafR kv)) := by
  induction h with
  | leaf k m =>
    intro hL fuel fuel2 K pfx hf hf2 hK
    cases fuel with
    | zero => omega
    | succ f =>
    cases fuel2 with
    | zero => omega
    | succ f2 =>
      have hlen := labelBits_length_le k k.length (Nat.le_refl _) hL
      refine ⟨Cell.ordinary (labelBits k k.length ++ natToBits 8 m.mode) [m.msg], ?_, rfl, ?_⟩
      · rw [encodeMap]
        simp only [bind, Outcome.bind, pure]
        rw [CellB.write_ok _ _ (by simp [CellB.empty]; omega)]
        simp only []
        rw [payloadStep_ok _ _ (by simp [CellB.empty]; omega) (by simp [CellB.empty])]
        simp [CellB.toCell, CellB.empty]
      · rw [mapInner, if_neg (by simp [Cell.ordinary, Cell.ty, tyPruned])]
        simp only [Cell.ordinary, CellR.ofCell, Cell.bits, Cell.refs, bind, Outcome.bind, pure]
        rw [loadLabel_labelBits K k.length k _ _ pfx (Nat.le_refl _) hL (by omega)]
        simp only []
        rw [if_neg (by simp; omega)]
        simp [leafR]
  | node p l r m hl hr ihl ihr =>
    intro hL fuel fuel2 K pfx hf hf2 hK
    cases fuel with
    | zero => omega
    | succ f =>
    cases fuel2 with
    | zero => omega
    | succ f2 =>
      have hm : m ≤ 16 := by omega
      obtain ⟨cl, hcl, htl, hdl⟩ := ihl hm f f2 K (pfx ++ p ++ [false]) (by omega) (by omega) (by simp; omega)
      obtain ⟨cr, hcr, htr, hdr⟩ := ihr hm f f2 K (pfx ++ p ++ [true]) (by omega) (by omega) (by simp; omega)
      have hlen := labelBits_length_le p (p.length + 1 + m) (by omega) hL
      -- the list has at least two entries; its first key is `p ++ 0 …`, its last `p ++ 1 …`
      obtain ⟨x, xs, hlx⟩ : ∃ x xs, l = x :: xs := by
        cases l with
        | nil => exact absurd rfl hl.ne_nil
        | cons x xs => exact ⟨x, xs, rfl⟩
      obtain ⟨y, hy⟩ : ∃ y, r.getLast? = some y := by
        cases hrr : r.getLast? with
        | none => exact absurd (List.getLast?_eq_none_iff.mp hrr) hr.ne_nil
        | some y => exact ⟨y, rfl⟩
      have hrne : r ≠ [] := hr.ne_nil
      set kvs := l.map (pre (p ++ [false])) ++ r.map (pre (p ++ [true])) with hkvs
      have hlast : kvs.getLast? = some (pre (p ++ [true]) y) := by
        rw [hkvs, List.getLast?_append, List.getLast?_map, hy]
        rfl
      obtain ⟨a, b, rest, hab⟩ : ∃ a b rest, kvs = a :: b :: rest ∧ a = pre (p ++ [false]) x := by
        rw [hkvs, hlx]
        cases xs with
        | nil =>
          cases r with
          | nil => exact absurd rfl hrne
          | cons y' ys =>
            exact ⟨pre (p ++ [false]) x, pre (p ++ [true]) y', ys.map (pre (p ++ [true])), by simp, rfl⟩
        | cons x' xs' =>
          exact ⟨pre (p ++ [false]) x, pre (p ++ [false]) x', xs'.map (pre (p ++ [false])) ++ r.map (pre (p ++ [true])),
            by simp, rfl⟩
      have hlabel : edgeLabel a.1 (a :: b :: rest) = p := by
        unfold edgeLabel
        rw [← hab.1, hlast, hab.2]
        simp only [pre, List.append_assoc, List.singleton_append]
        exact commonLabel_split p x.1 y.1
      have henc := encodeMap_node f a b rest (p.length + 1 + m) p hlabel
      rw [← hab.1] at henc
      have hsub : p.length + 1 + m - p.length - 1 = m := by omega
      refine ⟨Cell.ordinary (labelBits p (p.length + 1 + m)) [cl, cr], ?_, rfl, ?_⟩
      · rw [henc, hsub, hkvs, filterMap_left, filterMap_right, hcl, hcr]
        simp only [bind, Outcome.bind, pure]
        rw [CellB.write_ok _ _ (by simp [CellB.empty]; omega)]
        simp [CellB.addRef, CellB.toCell, CellB.empty]
      · rw [mapInner, if_neg (by simp [Cell.ordinary, Cell.ty, tyPruned])]
        simp only [Cell.ordinary, CellR.ofCell, Cell.bits, Cell.refs, bind, Outcome.bind, pure]
        have hlb := loadLabel_labelBits K (p.length + 1 + m) p [] [cl, cr] pfx (by omega) hL (by omega)
        rw [List.append_nil] at hlb
        rw [hlb]
        simp only []
        rw [if_pos (by simp; omega)]
        simp only [CellR.nextRef_cons, prefixPush]
        rw [if_pos (by simp; omega)]
        simp only []
        have hcast : ((p.length + 1 + m : Nat) : Int) - (1 + (p.length : Int)) = (m : Int) := by push_cast; ring
        rw [hcast, hdl]
        simp only [CellR.nextRef_cons]
        rw [if_pos (by simp; omega)]
        simp only []
        rw [hdr]
        simp only [hkvs, List.map_append, List.map_map, Outcome.ok.injEq]
        congr 1 <;> (apply List.map_congr_left; intro kv _; simp [pre, leafR])

/-! ### intervals of L-bit numbers are tries -/

theorem Trie.cast {a b : Nat} {kvs : List (List Bool × RawMsg)} (h : a = b) (t : Trie a kvs) : Trie b kvs := h ▸ t

theorem pre_pre (q p : List Bool) (kv : List Bool × RawMsg) : pre q (pre p kv) = pre (q ++ p) kv := by
  simp [pre]

/-- prefixing every key with one bit keeps a trie a trie -/
theorem Trie.prefix_bit {m : Nat} {kvs : List (List Bool × RawMsg)} (t : Trie m kvs) (b : Bool) :
    Trie (m + 1) (kvs.map (pre [b])) := by
  cases t with
  | leaf k v =>
    have := Trie.leaf (b :: k) v
    simpa [pre] using this
  | node p l r m' hl hr =>
    have := Trie.node (b :: p) l r m' hl hr
    refine Trie.cast (a := (b :: p).length + 1 + m') (by simp; omega) ?_
    simpa [List.map_append, List.map_map, Function.comp_def, pre_pre] using this

/-- the entries for the numbers lo .. lo+cnt-1 written on L bits -/
def keysOf (L lo cnt : Nat) (val : Nat → RawMsg) : List (List Bool × RawMsg) :=
  (List.range' lo cnt).map fun x => (natToBits L x, val x)

theorem testBit_lt {x L : Nat} (h : x < 2 ^ L) : x.testBit L = false := Nat.testBit_lt_two_pow h

theorem testBit_ge {x L : Nat} (h1 : 2 ^ L ≤ x) (h2 : x < 2 ^ (L + 1)) : x.testBit L = true := by
  rw [Nat.testBit_eq_decide_div_mod_eq]
  have : x / 2 ^ L = 1 := by
    apply Nat.div_eq_of_lt_le
    · simpa using h1
    · simpa [Nat.pow_succ, Nat.mul_comm] using h2
  simp [this]

theorem keysOf_low (L lo cnt : Nat) (val : Nat → RawMsg) (h : lo + cnt ≤ 2 ^ L) :
    keysOf (L + 1) lo cnt val = (keysOf L lo cnt val).map (pre [false]) := by
  unfold keysOf
  rw [List.map_map]
  apply List.map_congr_left
  intro x hx
  have hx' := List.mem_range'_1.mp hx
  simp [pre, natToBits, testBit_lt (show x < 2 ^ L by omega)]

theorem keysOf_high (L lo cnt : Nat) (val : Nat → RawMsg) (h1 : 2 ^ L ≤ lo) (h2 : lo + cnt ≤ 2 ^ (L + 1)) :
    keysOf (L + 1) lo cnt val = (keysOf L (lo - 2 ^ L) cnt (fun x => val (x + 2 ^ L))).map (pre [true]) := by
  unfold keysOf
  rw [List.map_map]
  have hr : List.range' lo cnt = (List.range' (lo - 2 ^ L) cnt).map (fun x => 2 ^ L + x) := by
    rw [List.map_add_range']
    congr 1
    omega
  rw [hr, List.map_map]
  apply List.map_congr_left
  intro x hx
  have hx' := List.mem_range'_1.mp hx
  have hb : (2 ^ L + x).testBit L = true := testBit_ge (by omega) (by rw [Nat.pow_succ] at h2 ⊢; omega)
  have hn : natToBits L (2 ^ L + x) = natToBits L x := by
    rw [← natToBits_mod L (2 ^ L + x), Nat.add_mod_left, natToBits_mod]
  rw [Nat.add_comm] at hb hn
  simp [pre, natToBits, hb, hn, Nat.add_comm]

theorem interval_trie : ∀ (L lo cnt : Nat) (val : Nat → RawMsg), 1 ≤ cnt → lo + cnt ≤ 2 ^ L → Trie L (keysOf L lo cnt val) := by
  intro L
  induction L with
  | zero =>
    intro lo cnt val h1 h2
    have hlo : lo = 0 := by simp at h2; omega
    have hc : cnt = 1 := by simp at h2; omega
    subst hlo hc
    exact Trie.leaf [] (val 0)
  | succ L ih =>
    intro lo cnt val h1 h2
    by_cases hlow : lo + cnt ≤ 2 ^ L
    · rw [keysOf_low L lo cnt val hlow]
      exact (ih lo cnt val h1 hlow).prefix_bit false
    · by_cases hhigh : 2 ^ L ≤ lo
      · rw [keysOf_high L lo cnt val hhigh h2]
        exact (ih (lo - 2 ^ L) cnt _ h1 (by rw [Nat.pow_succ] at h2; omega)).prefix_bit true
      · -- the interval straddles 2^L: a node with the empty label
        have hsplit : List.range' lo cnt = List.range' lo (2 ^ L - lo) ++ List.range' (2 ^ L) (lo + cnt - 2 ^ L) := by
          have : cnt = (2 ^ L - lo) + (lo + cnt - 2 ^ L) := by omega
          rw [this, ← List.range'_append_1]
          congr 2 <;> omega
        have hl := ih lo (2 ^ L - lo) val (by omega) (by omega)
        have hr := ih 0 (lo + cnt - 2 ^ L) (fun x => val (x + 2 ^ L)) (by omega) (by rw [Nat.pow_succ] at h2; omega)
        have hnode := Trie.node [] _ _ L hl hr
        have e1 : keysOf (L + 1) lo (2 ^ L - lo) val = (keysOf L lo (2 ^ L - lo) val).map (pre [false]) :=
          keysOf_low L lo _ val (by omega)
        have e2 : keysOf (L + 1) (2 ^ L) (lo + cnt - 2 ^ L) val =
            (keysOf L 0 (lo + cnt - 2 ^ L) (fun x => val (x + 2 ^ L))).map (pre [true]) := by
          have := keysOf_high L (2 ^ L) (lo + cnt - 2 ^ L) val (Nat.le_refl _) (by omega)
          simpa using this
        have : keysOf (L + 1) lo cnt val =
            (keysOf L lo (2 ^ L - lo) val).map (pre ([] ++ [false])) ++
              (keysOf L 0 (lo + cnt - 2 ^ L) (fun x => val (x + 2 ^ L))).map (pre ([] ++ [true])) := by
          simp only [List.nil_append, ← e1, ← e2]
          unfold keysOf
          rw [hsplit, List.map_append]
        rw [this]
        exact Trie.cast (a := ([] : List Bool).length + 1 + L) (by simp; omega) hnode

/-! ### the highload payload -/

theorem zip_range'_map (msgs : List RawMsg) : ∀ (off : Nat),
    ((List.range' off msgs.length).zip msgs).map (fun (p : Nat × RawMsg) => (natToBits 16 p.1, p.2)) =
      (List.range' off msgs.length).map (fun x => (natToBits 16 x, msgs.getD (x - off) default)) := by
  induction msgs with
  | nil => intro off; rfl
  | cons m ms ih =>
    intro off
    simp only [List.length_cons, List.range'_succ, List.zip_cons_cons, List.map_cons, Nat.sub_self, List.getD_cons_zero,
      List.cons.injEq, true_and]
    rw [ih (off + 1)]
    apply List.map_congr_left
    intro x hx
    have hx' := List.mem_range'_1.mp hx
    have : x - off = (x - (off + 1)) + 1 := by omega
    rw [this, List.getD_cons_succ]

theorem highload_keys (msgs : List RawMsg) :
    ((List.range msgs.length).zip msgs |>.map fun (p : Nat × RawMsg) => (natToBits 16 p.1, p.2)) =
      keysOf 16 0 msgs.length (fun x => msgs.getD x default) := by
  rw [List.range_eq_range']
  have := zip_range'_map msgs 0
  simpa [keysOf] using this

theorem keysOf_values (msgs : List RawMsg) : (keysOf 16 0 msgs.length (fun x => msgs.getD x default)).map (·.2) = msgs := by
  unfold keysOf
  rw [List.map_map]
  apply List.ext_getElem
  · simp
  · intro i h1 h2
    simp [List.getD_eq_getElem?_getD, List.getElem?_eq_getElem h2]

theorem highloadEntry_leaf (kv : List Bool × RawMsg) (hm : kv.2.mode < 256) (q : List Bool) :
    highloadEntry (q, leafR kv) = .ok kv.2 := by
  unfold highloadEntry leafR
  have := CellR.readUint_append 8 kv.2.mode [] [kv.2.msg] hm
  rw [List.append_nil] at this
  simp only [bind, Outcome.bind, pure, this, CellR.nextRef_cons]

/-- reading the entries back: mode byte and message ref of every leaf -/
theorem entries_mapM (kvs : List (List Bool × RawMsg)) (hm : ∀ kv ∈ kvs, kv.2.mode < 256) :
    (kvs.map fun kv => (([] : List Bool) ++ kv.1, leafR kv)).mapM highloadEntry = .ok (kvs.map (·.2)) := by
  induction kvs with
  | nil => rfl
  | cons kv rest ih =>
    rw [List.map_cons, List.mapM_cons, highloadEntry_leaf kv (hm kv (by simp)), ih (fun x hx => hm x (by simp [hx]))]
    rfl

/-- the dictionary of 1..65536 messages builds, is an ordinary cell, and reads back as the messages in order -/
theorem highloadDict_roundtrip (msgs : List RawMsg) (h1 : 1 ≤ msgs.length) (h2 : msgs.length ≤ 65536)
    (hm : ∀ m ∈ msgs, m.mode < 256) :
    ∃ d, highloadDict msgs = .ok d ∧ d.ty = 0 ∧
      ∀ (bits : List Bool) (rest : List Cell),
        (readHashmapE (fun r => Outcome.ok r) 16 { bits := true :: bits, refs := d :: rest }).bind
          (fun (x : List (List Bool × CellR) × CellR) => x.1.mapM highloadEntry) = .ok msgs := by
  have ht := interval_trie 16 0 msgs.length (fun x => msgs.getD x default) h1 (by norm_num; omega)
  obtain ⟨d, hd, hty, hdec⟩ := trie_roundtrip ht (Nat.le_refl _) 18 (16 + 2) 16 [] (by decide) (by decide) rfl
  refine ⟨d, ?_, hty, ?_⟩
  · unfold highloadDict highloadValue
    rw [highload_keys]
    exact hd
  · intro bits rest
    unfold readHashmapE
    simp only [CellR.readBit_cons, bind, Outcome.bind, pure, Bool.not_true, Bool.false_eq_true, ↓reduceIte,
      CellR.nextRef_cons, hty, tyLibrary]
    rw [if_neg (by decide), hdec]
    simp only []
    have hmodes : ∀ kv ∈ keysOf 16 0 msgs.length (fun x => msgs.getD x default), kv.2.mode < 256 := by
      intro kv hkv
      have : kv.2 ∈ (keysOf 16 0 msgs.length (fun x => msgs.getD x default)).map (·.2) := List.mem_map_of_mem hkv
      rw [keysOf_values] at this
      exact hm _ this
    rw [entries_mapM _ hmodes, keysOf_values]

end Tongo.Wallet
