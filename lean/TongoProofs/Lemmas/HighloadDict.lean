import TongoProofs.Lemmas.WalletMsg
import TongoProofs.C05
/-! The dictionary of the highload payload on top of the shared dictionary model (`TongoModel/Hashmap.lean`) and its
theorems (C05): the entries `i ↦ (mode_i, msg_i)`, i = 0..n-1 on 16-bit keys, are in ascending key-bit order, so the
encoder succeeds and the decoder returns them unchanged and in order. -/
namespace Tongo.Wallet
open Tongo Tongo.Bits Tongo.Hashmap

/-- what the value codec writes for a message -/
def hlPay (m : RawMsg) : List Bool × List Cell := (natToBits 8 m.mode, [m.msg])

theorem hl_fits (m : RawMsg) (hm : m.mode < 256) : Fits highloadCodec hlPay 16 m := by
  refine ⟨rfl, ?_, by simp [hlPay], ?_⟩
  · have : Hashmap.minBitsRequired 16 = 5 := by decide
    simp [hlPay, this]
  · unfold DecodesValue highloadCodec hlPay highloadEntry
    have := CellR.readUint_append 8 m.mode [] [m.msg] hm
    rw [List.append_nil] at this
    simp only [bind, Outcome.bind, pure, this, CellR.nextRef_cons]

theorem zip_range'_map (msgs : List RawMsg) : ∀ (off : Nat),
    ((List.range' off msgs.length).zip msgs).map (fun (p : Nat × RawMsg) => (natToBits 16 p.1, p.2)) =
      (List.range' off msgs.length).map (fun x => (natToBits 16 x, msgs.getD (x - off) default)) := by
  induction msgs with
  | nil => intro off; rfl
  | cons m ms ih =>
    intro off
    simp only [List.length_cons, List.range'_succ, List.zip_cons_cons, List.map_cons, Nat.sub_self, List.getD_cons_zero,
      List.cons.injEq, true_and]
    rw [ih (off + 1)]
    apply List.map_congr_left
    intro x hx
    have hx' := List.mem_range'_1.mp hx
    have : x - off = (x - (off + 1)) + 1 := by omega
    rw [this, List.getD_cons_succ]

theorem highloadKvs_eq (msgs : List RawMsg) :
    highloadKvs msgs = (List.range' 0 msgs.length).map (fun x => (natToBits 16 x, msgs.getD x default)) := by
  unfold highloadKvs
  rw [List.range_eq_range']
  simpa using zip_range'_map msgs 0

theorem highloadKvs_values (msgs : List RawMsg) : (highloadKvs msgs).map (·.2) = msgs := by
  rw [highloadKvs_eq, List.map_map]
  apply List.ext_getElem
  · simp
  · intro i h1 h2
    simp [List.getD_eq_getElem?_getD, List.getElem?_eq_getElem h2]

theorem highloadKvs_width (msgs : List RawMsg) : ∀ kv ∈ highloadKvs msgs, kv.1.length = 16 := by
  rw [highloadKvs_eq]
  intro kv hkv
  obtain ⟨x, _, rfl⟩ := List.mem_map.mp hkv
  simp

theorem highloadKvs_sorted (msgs : List RawMsg) (hn : msgs.length ≤ 65536) : SortedKV (highloadKvs msgs) := by
  rw [highloadKvs_eq]
  unfold SortedKV
  rw [List.pairwise_map]
  have hp : (List.range' 0 msgs.length).Pairwise (· < ·) := List.pairwise_lt_range'
  refine List.Pairwise.imp_of_mem ?_ hp
  intro a b ha hb hab
  have ha' := List.mem_range'_1.mp ha
  have hb' := List.mem_range'_1.mp hb
  rw [lexLt_iff_bitsToNat _ _ (by simp), bitsToNat_natToBits, bitsToNat_natToBits, Nat.mod_eq_of_lt (by omega),
    Nat.mod_eq_of_lt (by omega)]
  exact hab

/-- the dictionary of 1..65536 messages (modes are bytes) builds, is an ordinary cell, and `HashmapE.UnmarshalTLB` on
`1 ^dict` returns the entries unchanged, in order -/
theorem highloadDict_roundtrip (msgs : List RawMsg) (h1 : 1 ≤ msgs.length) (h2 : msgs.length ≤ 65536)
    (hm : ∀ m ∈ msgs, m.mode < 256) :
    ∃ d, highloadDict msgs = .ok d ∧ d.ty = 0 ∧
      ∀ (bits : List Bool) (rest : List Cell),
        unmarshalE highloadCodec 16 (Cell.ordinary (true :: bits) (d :: rest)) = .ok (highloadKvs msgs) := by
  have hne : highloadKvs msgs ≠ [] := by
    intro h
    have := congrArg List.length (highloadKvs_values msgs)
    rw [h] at this
    simp at this
    omega
  have hfit : ∀ kv ∈ highloadKvs msgs, Fits highloadCodec hlPay 16 kv.2 := by
    intro kv hkv
    have : kv.2 ∈ (highloadKvs msgs).map (·.2) := List.mem_map_of_mem hkv
    rw [highloadKvs_values] at this
    exact hl_fits kv.2 (hm _ this)
  have hs := highloadKvs_sorted msgs h2
  obtain ⟨t, hv, hmean, henc⟩ := C05.encode_sorted_tree highloadCodec hlPay 16 (highloadKvs msgs) hne (highloadKvs_width msgs) hs hfit
  have hdec : ∀ kv ∈ t.meaning, DecodesValue highloadCodec hlPay kv.2 := by
    rw [hmean]; exact fun kv hkv => (hfit kv hkv).2.2.2
  have hun := (C05.decode_any_valid highloadCodec hlPay 16 (by norm_num; omega) t hv hdec).1
  have hty : (t.toCell hlPay 16).ty = 0 := by cases t <;> rfl
  have hmax : maxKeyLen (highloadKvs msgs) = 16 := maxKeyLen_eq 16 _ hne (highloadKvs_width msgs)
  refine ⟨t.toCell hlPay 16, ?_, hty, ?_⟩
  · unfold highloadDict marshal
    have : (highloadKvs msgs).isEmpty = false := by cases h : highloadKvs msgs <;> simp_all
    simp only [this, Bool.false_eq_true, ↓reduceIte, hmax, sortKV_of_sorted _ hs]
    exact henc
  · intro bits rest
    have hw : C05.wrapE (t.toCell hlPay 16) = Cell.ordinary [true] [t.toCell hlPay 16] := rfl
    rw [hw, hmean] at hun
    simp only [unmarshalE, Cell.ordinary, Cell.ty, Cell.bits, Cell.refs, tyLibrary] at hun ⊢
    exact hun

end Tongo.Wallet
