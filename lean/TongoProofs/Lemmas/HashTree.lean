import TongoProofs.Lemmas.Wallet
/-! Collision-freedom lifted from representations to whole trees: if `H` is injective on the representations of all the
cells of two trees of ordinary cells, equal root hashes mean equal trees. Used by the negative clauses of C14 (a changed
bit anywhere below the signed cell) and C19 (a substituted state init). -/
namespace Tongo

mutual
/-- every cell of the tree is an ordinary cell of legal size: type 0, level mask 0, at most 1023 bits and 4 refs -/
def Cell.wfOrd : Cell → Bool
  | .mk ty mask bits refs => ty == 0 && mask == 0 && decide (bits.length ≤ 1023) && decide (refs.length ≤ 4) && Cell.wfOrdList refs
def Cell.wfOrdList : List Cell → Bool
  | [] => true
  | c :: cs => Cell.wfOrd c && Cell.wfOrdList cs
end

mutual
/-- the representations of all the cells of the tree (the set on which collision-freedom is assumed) -/
def Cell.reprs (H : List UInt8 → List UInt8) : Cell → List (List UInt8)
  | .mk ty mask bits refs => (reprNoRefs ty bits refs.length mask ++ Cell.depthsO refs ++ Cell.hashesO H refs) :: Cell.reprsList H refs
def Cell.reprsList (H : List UInt8 → List UInt8) : List Cell → List (List UInt8)
  | [] => []
  | c :: cs => Cell.reprs H c ++ Cell.reprsList H cs
end

theorem Cell.reprO_mem_reprs (H : List UInt8 → List UInt8) (c : Cell) : c.reprO H ∈ Cell.reprs H c := by
  cases c; simp [Cell.reprs, Cell.reprO]

theorem Cell.reprs_sub_reprsList (H : List UInt8 → List UInt8) : ∀ (cs : List Cell) (c : Cell), c ∈ cs →
    ∀ x ∈ Cell.reprs H c, x ∈ Cell.reprsList H cs
  | [], _, hc, _, _ => by simp at hc
  | d :: ds, c, hc, x, hx => by
    simp only [Cell.reprsList, List.mem_append]
    rcases List.mem_cons.mp hc with rfl | h
    · exact Or.inl hx
    · exact Or.inr (Cell.reprs_sub_reprsList H ds c h x hx)

/-- the representation of a direct reference belongs to the representations of the tree -/
theorem Cell.reprO_ref_mem (H : List UInt8 → List UInt8) (ty mask : Nat) (bits : List Bool) (refs : List Cell) (r : Cell)
    (hr : r ∈ refs) : r.reprO H ∈ Cell.reprs H (.mk ty mask bits refs) := by
  simp only [Cell.reprs, List.mem_cons]
  exact Or.inr (Cell.reprs_sub_reprsList H refs r hr _ (Cell.reprO_mem_reprs H r))

mutual
theorem Cell.hashO_tree_inj (H : List UInt8 → List UInt8) (hlen : ∀ x, (H x).length = 32) :
    ∀ (c c' : Cell), c.wfOrd = true → c'.wfOrd = true →
      (∀ x ∈ Cell.reprs H c, ∀ y ∈ Cell.reprs H c', H x = H y → x = y) → c.hashO H = c'.hashO H → c = c'
  | .mk ty mask bits refs, .mk ty' mask' bits' refs', hw, hw', cf, h => by
    simp only [Cell.wfOrd, Bool.and_eq_true, beq_iff_eq, decide_eq_true_eq] at hw hw'
    obtain ⟨⟨⟨⟨hty, hmask⟩, hb⟩, hr⟩, hl⟩ := hw
    obtain ⟨⟨⟨⟨hty', hmask'⟩, hb'⟩, hr'⟩, hl'⟩ := hw'
    subst hty hmask hty' hmask'
    have hrep : (Cell.mk 0 0 bits refs).reprO H = (Cell.mk 0 0 bits' refs').reprO H := by
      apply cf _ (Cell.reprO_mem_reprs H _) _ (Cell.reprO_mem_reprs H _)
      rw [Cell.hashO_eq_H_reprO, Cell.hashO_eq_H_reprO] at h; exact h
    obtain ⟨hbits, hn, hh, _⟩ := Cell.reprO_ordinary_inj H hlen bits bits' refs refs' hb hb' hr hr' hrep
    have hrefs := Cell.hashList_tree_inj H hlen refs refs' hl hl'
      (fun x hx y hy => cf x (by simp [Cell.reprs, hx]) y (by simp [Cell.reprs, hy])) hh
    rw [hbits, hrefs]
theorem Cell.hashList_tree_inj (H : List UInt8 → List UInt8) (hlen : ∀ x, (H x).length = 32) :
    ∀ (cs cs' : List Cell), Cell.wfOrdList cs = true → Cell.wfOrdList cs' = true →
      (∀ x ∈ Cell.reprsList H cs, ∀ y ∈ Cell.reprsList H cs', H x = H y → x = y) →
      cs.map (Cell.hashO H) = cs'.map (Cell.hashO H) → cs = cs'
  | [], [], _, _, _, _ => rfl
  | [], _ :: _, _, _, _, h => by simp at h
  | _ :: _, [], _, _, _, h => by simp at h
  | c :: cs, c' :: cs', hw, hw', cf, h => by
    simp only [Cell.wfOrdList, Bool.and_eq_true] at hw hw'
    simp only [List.map_cons, List.cons.injEq] at h
    have h1 := Cell.hashO_tree_inj H hlen c c' hw.1 hw'.1
      (fun x hx y hy => cf x (by simp [Cell.reprsList, hx]) y (by simp [Cell.reprsList, hy])) h.1
    have h2 := Cell.hashList_tree_inj H hlen cs cs' hw.2 hw'.2
      (fun x hx y hy => cf x (by simp [Cell.reprsList, hx]) y (by simp [Cell.reprsList, hy])) h.2
    rw [h1, h2]
end

/-- the form with `CollisionFree` on the union of the two trees' representations -/
theorem Cell.hashO_inj_of_collisionFree (H : List UInt8 → List UInt8) (hlen : ∀ x, (H x).length = 32) (c c' : Cell)
    (hw : c.wfOrd = true) (hw' : c'.wfOrd = true) (cf : CollisionFree H (Cell.reprs H c ++ Cell.reprs H c'))
    (h : c.hashO H = c'.hashO H) : c = c' :=
  Cell.hashO_tree_inj H hlen c c' hw hw'
    (fun x hx y hy => cf x (List.mem_append_left _ hx) y (List.mem_append_right _ hy)) h

end Tongo
