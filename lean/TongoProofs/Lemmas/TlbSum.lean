import TongoProofs.Lemmas.TlbRT
/-! First-match tag dispatch: with pairwise prefix-free constructor tags, `selectCtor` applied to bits that start
with the tag of the constructor chosen by the encoder returns exactly that constructor — whatever follows the tag
and wherever the constructor stands in the field order. -/
namespace Tongo.Tlb
open Tongo Tongo.Bits

theorem bitsToNat_take_natToBits (n k v : Nat) (hk : k ≤ n) :
    bitsToNat ((natToBits n v).take k) = v % 2 ^ n / 2 ^ (n - k) := by
  have hsplit := List.take_append_drop k (natToBits n v)
  have hval : bitsToNat (natToBits n v) = v % 2 ^ n := bitsToNat_natToBits n v
  rw [← hsplit, bitsToNat_append] at hval
  have hdl : ((natToBits n v).drop k).length = n - k := by simp
  rw [hdl] at hval
  have hlt : bitsToNat ((natToBits n v).drop k) < 2 ^ (n - k) := by
    have := bitsToNat_lt ((natToBits n v).drop k); rwa [hdl] at this
  rw [← hval]
  rw [Nat.mul_comm, Nat.mul_add_div (Nat.two_pow_pos _), Nat.div_eq_of_lt hlt, Nat.add_zero]

/-- the next `k` bits of a stream that starts with an `n`-bit tag -/
theorem bitsToNat_take_tag (n v k : Nat) (ys : List Bool) (hv : v < 2 ^ n) (hlen : k ≤ n + ys.length) :
    bitsToNat ((natToBits n v ++ ys).take k) =
      if k ≤ n then v / 2 ^ (n - k) else v * 2 ^ (k - n) + bitsToNat (ys.take (k - n)) := by
  by_cases hk : k ≤ n
  · rw [if_pos hk, List.take_append_of_le_length (by simpa using hk), bitsToNat_take_natToBits n k v hk,
      Nat.mod_eq_of_lt hv]
  · rw [if_neg hk]
    have h1 : (natToBits n v ++ ys).take k = natToBits n v ++ ys.take (k - n) := by
      rw [List.take_append]
      simp only [natToBits_length]
      rw [List.take_of_length_le (by simp; omega)]
    rw [h1, bitsToNat_append, bitsToNat_natToBits, Nat.mod_eq_of_lt hv]
    congr 2
    simp; omega

theorem Tag.isPrefix_of_eq_div (a b : Tag) (h : a.len ≤ b.len) (e : a.val = b.val / 2 ^ (b.len - a.len)) :
    a.isPrefix b = true := by
  simp [Tag.isPrefix, h, e]

/-- a constructor whose tag is prefix-incomparable with `tg` does not match a stream that starts with `tg` -/
theorem tag_no_match (u tg : Tag) (ys : List Bool) (hu : u.ok = true) (htg : tg.ok = true)
    (h1 : u.isPrefix tg = false) (h2 : tg.isPrefix u = false) (hlen : u.len ≤ tg.len + ys.length) :
    u.val ≠ bitsToNat ((natToBits tg.len tg.val ++ ys).take u.len) := by
  simp only [Tag.ok, Bool.and_eq_true, decide_eq_true_eq] at hu htg
  rw [bitsToNat_take_tag tg.len tg.val u.len ys htg.2 hlen]
  intro e
  by_cases hk : u.len ≤ tg.len
  · rw [if_pos hk] at e
    have := Tag.isPrefix_of_eq_div u tg hk e
    rw [h1] at this; cases this
  · rw [if_neg hk] at e
    have hy : bitsToNat (ys.take (u.len - tg.len)) < 2 ^ (u.len - tg.len) := by
      have := bitsToNat_lt (ys.take (u.len - tg.len))
      have hl : (ys.take (u.len - tg.len)).length = u.len - tg.len := by simp; omega
      rwa [hl] at this
    have : u.val / 2 ^ (u.len - tg.len) = tg.val := by
      rw [e, Nat.mul_comm, Nat.mul_add_div (Nat.two_pow_pos _), Nat.div_eq_of_lt hy, Nat.add_zero]
    have hp := Tag.isPrefix_of_eq_div tg u (by omega) this.symm
    rw [h2] at hp; cases hp

theorem tagFreeOf_mem {t : Tag} {l : List Tag} (h : tagFreeOf t l = true) {u : Tag} (hu : u ∈ l) :
    t.isPrefix u = false ∧ u.isPrefix t = false := by
  induction l with
  | nil => cases hu
  | cons x xs ih =>
    simp only [tagFreeOf, Bool.and_eq_true, Bool.not_eq_true'] at h
    rcases List.mem_cons.mp hu with rfl | hm
    · exact ⟨h.1.1, h.1.2⟩
    · exact ih h.2 hm

theorem find_tag_mem : ∀ (cs : Ctors) {name : String} {tg : Tag} {t : Ty},
    cs.find name = some (some tg, t) → tg ∈ cs.tags.filterMap id
  | .nil, _, _, _, h => by simp [Ctors.find] at h
  | .cons n tg0 t0 rest, name, tg, t, h => by
    simp only [Ctors.find] at h
    split at h
    · cases h; simp [Ctors.tags]
    · have := find_tag_mem rest h
      have hm : some tg ∈ rest.tags := by simpa using this
      cases tg0 <;> simp [Ctors.tags, hm]

/-- first-match dispatch picks the encoder's constructor -/
theorem selectCtor_find : ∀ (cs : Ctors) (name : String) (tg : Tag) (t : Ty) (ys : List Bool),
    cs.find name = some (some tg, t) →
    cs.tags.all (·.isSome) = true →
    (cs.tags.filterMap id).all Tag.ok = true →
    prefixFree (cs.tags.filterMap id) = true →
    selectCtor cs (natToBits tg.len tg.val ++ ys) = .ok (name, t, tg.len)
  | .nil, _, _, _, _, hf, _, _, _ => by simp [Ctors.find] at hf
  | .cons n tg0 t0 rest, name, tg, t, ys, hf, hsome, hok, hpf => by
    simp only [Ctors.find] at hf
    cases tg0 with
    | none => simp [Ctors.tags] at hsome
    | some u =>
      simp only [Ctors.tags, List.all_cons, Option.isSome_some, Bool.true_and, List.filterMap_cons, id,
        Bool.and_eq_true, prefixFree] at hsome hok hpf
      by_cases hn : n = name
      · rw [if_pos hn] at hf
        cases hf
        have hokt := hok.1
        simp only [Tag.ok, Bool.and_eq_true, decide_eq_true_eq] at hokt
        unfold selectCtor
        simp only
        rw [if_neg (by simp), if_neg (by omega)]
        rw [List.take_append_of_le_length (by simp), List.take_of_length_le (by simp), bitsToNat_natToBits,
          Nat.mod_eq_of_lt hokt.2]
        simp [hn]
      · rw [if_neg hn] at hf
        have hmem := find_tag_mem rest hf
        have hfree := tagFreeOf_mem hpf.1 hmem
        have hoktg : tg.ok = true := (List.all_eq_true.mp hok.2) tg hmem
        have hrest := selectCtor_find rest name tg t ys hf hsome hok.2 hpf.2
        unfold selectCtor
        simp only
        by_cases hlen : (natToBits tg.len tg.val ++ ys).length < u.len
        · rw [if_pos hlen]; exact hrest
        · rw [if_neg hlen]
          have hok1 := hok.1
          have hu64 : ¬ u.len > 64 := by
            simp only [Tag.ok, Bool.and_eq_true, decide_eq_true_eq] at hok1; omega
          rw [if_neg hu64]
          have hne := tag_no_match u tg ys hok.1 hoktg hfree.1 hfree.2 (by simp at hlen; omega)
          rw [if_neg hne]; exact hrest

theorem find_wf {env : Env} : ∀ (cs : Ctors) {name : String} {tg : Option Tag} {t : Ty},
    cs.find name = some (tg, t) → wfCtors env cs = true → wfb env t = true
  | .nil, _, _, _, h, _ => by simp [Ctors.find] at h
  | .cons n tg0 t0 rest, name, tg, t, h, hw => by
    simp only [Ctors.find] at h
    simp only [wfCtors, Bool.and_eq_true] at hw
    split at h
    · cases h; exact hw.1
    · exact find_wf rest h hw.2

theorem find_tag_some : ∀ (cs : Ctors) {name : String} {tg : Option Tag} {t : Ty},
    cs.find name = some (tg, t) → cs.tags.all (·.isSome) = true → ∃ g, tg = some g
  | .nil, _, _, _, h, _ => by simp [Ctors.find] at h
  | .cons n tg0 t0 rest, name, tg, t, h, hsome => by
    simp only [Ctors.find] at h
    simp only [Ctors.tags, List.all_cons, Bool.and_eq_true] at hsome
    split at h
    · cases h
      cases tg0 with
      | none => simp at hsome
      | some g => exact ⟨g, rfl⟩
    · exact find_tag_some rest h hsome.2

end Tongo.Tlb
