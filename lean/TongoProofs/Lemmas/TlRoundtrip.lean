import TongoProofs.Lemmas.Tl
/-! The round-trip induction for the TL schema semantics: one simultaneous statement about values, vector items and
constructor fields, proved along the recursion of `encode` (functional induction). Used by C09 and C10. -/
namespace Tongo.Tl
open Tongo (Outcome)

theorem Val.depth_pos (v : Val) : 1 ≤ v.depth := by
  cases v <;> simp [Val.depth]

theorem decode_succ_of_depth {v : Val} {fuel : Nat} (h : v.depth ≤ fuel) : ∃ f, fuel = f + 1 := by
  have := Val.depth_pos v
  exact ⟨fuel - 1, by omega⟩

theorem id_lt_of_mem (S : Schema) (h : WFSchema S) (d : Decl) (hd : d ∈ S.types) : d.id < 2 ^ 32 := by
  unfold WFSchema wfSchemaB at h
  simp only [Bool.and_eq_true, List.all_eq_true] at h
  have := h.1.1.2 d hd
  simp only [declOkB, Bool.and_eq_true, decide_eq_true_eq] at this
  exact this.1

theorem id_lt_of_ctorOf (S : Schema) (h : WFSchema S) (t c : String) (d : Decl) (hf : S.ctorOf? t c = some d) :
    d.id < 2 ^ 32 := id_lt_of_mem S h d (List.mem_of_find?_eq_some hf)

theorem map_append_eq_some {o : Option Bytes} {a bs : Bytes} (h : o.map (a ++ ·) = some bs) :
    ∃ b, o = some b ∧ bs = a ++ b := by
  cases o with
  | none => simp at h
  | some b => exact ⟨b, rfl, by simpa using h.symm⟩

theorem roundtrip_all (S : Schema) (hwf : WFSchema S) :
    (∀ t v, ∀ bs rest fuel, encode S t v = some bs → v.depth ≤ fuel → decode S fuel t (bs ++ rest) = .ok (v, rest)) ∧
    (∀ t vs, ∀ bs rest fuel, encodeItems S t vs = some bs → depthList vs ≤ fuel →
        decodeItems S fuel t vs.length (bs ++ rest) = .ok (vs, rest)) ∧
    (∀ fields env vs, ∀ bs rest fuel, encodeFields S fields env vs = some bs → depthList vs ≤ fuel →
        decodeFields S fuel fields env (bs ++ rest) = .ok (vs, rest)) := by
  apply encode.mutual_induct S
  -- 1,2 nat
  · intro n hn bs rest fuel he hd
    obtain ⟨f, rfl⟩ := decode_succ_of_depth hd
    simp only [encode, hn, if_true, Option.some.injEq] at he
    subst he
    simp only [decode, readLE4 n rest hn]
  · intro n hn bs rest fuel he hd
    simp [encode, hn] at he
  -- 3,4 int
  · intro n hn bs rest fuel he hd
    obtain ⟨f, rfl⟩ := decode_succ_of_depth hd
    simp only [encode, hn, if_true, Option.some.injEq] at he
    subst he
    simp only [decode, readLE4 n rest hn]
  · intro n hn bs rest fuel he hd
    simp [encode, hn] at he
  -- 5,6 long
  · intro n hn bs rest fuel he hd
    obtain ⟨f, rfl⟩ := decode_succ_of_depth hd
    simp only [encode, hn, if_true, Option.some.injEq] at he
    subst he
    simp only [decode, readLE8 n rest hn]
  · intro n hn bs rest fuel he hd
    simp [encode, hn] at he
  -- 7,8 int256
  · intro vb hn bs rest fuel he hd
    obtain ⟨f, rfl⟩ := decode_succ_of_depth hd
    simp only [encode, hn, if_true, Option.some.injEq] at he
    subst he
    simp only [decode, readN_append' 32 vb rest hn]
  · intro vb hn bs rest fuel he hd
    simp [encode, hn] at he
  -- 9,10 bytes
  · intro vb hn bs rest fuel he hd
    obtain ⟨f, rfl⟩ := decode_succ_of_depth hd
    simp only [encode, hn, if_true, Option.some.injEq] at he
    subst he
    simp only [decode, readBytes_encBytes vb rest hn]
  · intro vb hn bs rest fuel he hd
    simp [encode, hn] at he
  -- 11,12 string
  · intro vb hn bs rest fuel he hd
    obtain ⟨f, rfl⟩ := decode_succ_of_depth hd
    simp only [encode, hn, if_true, Option.some.injEq] at he
    subst he
    simp only [decode, readBytes_encBytes vb rest hn]
  · intro vb hn bs rest fuel he hd
    simp [encode, hn] at he
  -- 13 bool
  · intro b bs rest fuel he hd
    obtain ⟨f, rfl⟩ := decode_succ_of_depth hd
    simp only [encode, Option.some.injEq] at he
    subst he
    cases b
    · simp only [decode, Bool.false_eq_true, if_false, readLE4 boolFalseId rest (by decide)]
      simp [boolFalseId, boolTrueId]
    · simp only [decode, if_true, readLE4 boolTrueId rest (by decide)]
  -- 14 true
  · intro bs rest fuel he hd
    obtain ⟨f, rfl⟩ := decode_succ_of_depth hd
    simp only [encode, Option.some.injEq] at he
    subst he
    simp only [decode, List.nil_append]
  -- 15,16 bare
  · intro c fs d hc ih bs rest fuel he hd
    obtain ⟨f, rfl⟩ := decode_succ_of_depth hd
    simp only [encode, hc] at he
    simp only [Val.depth] at hd
    simp only [decode, hc, ih bs rest f he (by omega)]
  · intro c fs hc bs rest fuel he hd
    simp [encode, hc] at he
  -- 17,18 boxed
  · intro t c fs d hc ih bs rest fuel he hd
    obtain ⟨f, rfl⟩ := decode_succ_of_depth hd
    simp only [encode, hc] at he
    obtain ⟨b, hb, rfl⟩ := map_append_eq_some he
    simp only [Val.depth] at hd
    simp only [decode, List.append_assoc, readLE4 d.id _ (id_lt_of_ctorOf S hwf t c d hc),
      byId_of_ctorOf S hwf t c d hc, ih b rest f hb (by omega), ctorOf_ctor S t c d hc]
  · intro t c fs hc bs rest fuel he hd
    simp [encode, hc] at he
  -- 19,20 vector
  · intro t items hl ih bs rest fuel he hd
    obtain ⟨f, rfl⟩ := decode_succ_of_depth hd
    simp only [encode, hl, if_true] at he
    obtain ⟨b, hb, rfl⟩ := map_append_eq_some he
    simp only [Val.depth] at hd
    simp only [decode, List.append_assoc, readLE4 items.length _ hl, ih b rest f hb (by omega)]
  · intro t items hl bs rest fuel he hd
    simp [encode, hl] at he
  -- 21 mismatch
  · intro v t h1 h2 h3 h4 h5 h6 h7 h8 h9 h10 h11 bs rest fuel he hd
    exfalso
    cases t <;> cases v <;> first
      | (simp [encode] at he; done)
      | exact h1 _ rfl rfl | exact h2 _ rfl rfl | exact h3 _ rfl rfl | exact h4 _ rfl rfl | exact h5 _ rfl rfl
      | exact h6 _ rfl rfl | exact h7 _ rfl rfl | exact h8 rfl rfl | exact h9 _ _ rfl rfl | exact h10 _ _ _ rfl rfl
      | exact h11 _ _ rfl rfl
  -- 22 items nil
  · intro t bs rest fuel he hd
    simp only [encodeItems, Option.some.injEq] at he
    subst he
    simp only [List.length_nil, decodeItems, List.nil_append]
  -- 23 items cons none
  · intro t v vs hn ih bs rest fuel he hd
    simp [encodeItems, hn] at he
  -- 24 items cons some
  · intro t v vs b hb ih1 ih2 bs rest fuel he hd
    simp only [encodeItems, hb] at he
    obtain ⟨b2, hb2, rfl⟩ := map_append_eq_some he
    simp only [depthList] at hd
    simp only [List.length_cons, decodeItems, List.append_assoc, ih1 b (b2 ++ rest) fuel hb (by omega),
      ih2 b2 rest fuel hb2 (by omega)]
  -- 25 fields nil
  · intro env bs rest fuel he hd
    simp only [encodeFields, Option.some.injEq] at he
    subst he
    simp only [decodeFields, List.nil_append]
  -- 26 present none
  · intro f fs env v vs hp bs rest fuel he hd
    simp [encodeFields, hp] at he
  -- 27 absent
  · intro f fs env vs hp ih bs rest fuel he hd
    simp only [encodeFields, hp] at he
    simp only [depthList] at hd
    simp only [decodeFields, hp, ih bs rest fuel he (by omega)]
  -- 28 not absent but flag clear
  · intro f fs env v vs hp hv bs rest fuel he hd
    exfalso
    cases v <;> first | (simp [encodeFields, hp] at he; done) | exact hv rfl
  -- 29 present, encode none
  · intro f fs env v vs hp hn ih bs rest fuel he hd
    simp [encodeFields, hp, hn] at he
  -- 30 present, encode some
  · intro f fs env v vs hp b hb ih1 ih2 bs rest fuel he hd
    simp only [encodeFields, hp, hb] at he
    obtain ⟨b2, hb2, rfl⟩ := map_append_eq_some he
    simp only [depthList] at hd
    simp only [decodeFields, hp, List.append_assoc, ih1 b (b2 ++ rest) fuel hb (by omega),
      ih2 b2 rest fuel hb2 (by omega)]
  -- 31 arity mismatch
  · intro vs fields env h1 h2 bs rest fuel he hd
    exfalso
    cases fields <;> cases vs <;> first
      | (simp [encodeFields] at he; done)
      | exact h1 rfl rfl | exact h2 _ _ _ _ rfl rfl

end Tongo.Tl

namespace Tongo.Tl

/-- the encoder is defined exactly on the well-typed values (for any schema) -/
theorem encode_isSome_iff_hasType (S : Schema) :
    (∀ t v, (encode S t v).isSome = hasType S t v) ∧
    (∀ t vs, (encodeItems S t vs).isSome = itemsHaveType S t vs) ∧
    (∀ fields env vs, (encodeFields S fields env vs).isSome = fieldsHaveType S fields env vs) := by
  apply encode.mutual_induct S
  all_goals intros
  all_goals first
    | (simp_all [encode, encodeItems, encodeFields, hasType, itemsHaveType, fieldsHaveType]; done)
    | skip
  all_goals (rename_i h; simp only [encode, hasType, h, if_false, Option.isSome_none]; simp)

end Tongo.Tl
