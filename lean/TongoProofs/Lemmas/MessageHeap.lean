import TongoModel.MessageHeap
import TongoProofs.Lemmas.HashMemo
import TongoProofs.Lemmas.Message
/-! Lemmas for the mutable-cell model of C16: hashing and field decoding do not see the cursors, the memoised hash
agrees with the plain one for every valid table, `NextRef` hands over rewound children. -/
namespace Tongo.Message
open Tongo

/-- first component of a stateful result -/
def outFst {α β} : Outcome (α × β) → Outcome α
  | .ok (a, _) => .ok a
  | .err e => .err e
  | .panic e => .panic e

/-- cells read through their rows only (no cursor) -/
def rowStore (r : Memo.Heap) : Store Nat := ⟨fun q => (r q).map fun row => ⟨row.bits, row.refs⟩⟩

namespace MHeap

theorem store_eq (h : MHeap) : h.store = rowStore h.rows := by
  unfold store rowStore rows
  congr 1
  funext q
  cases h q <;> rfl

theorem rows_set (h : MHeap) (p : Nat) (c c' : MsgCell) (hp : h p = some c) (hr : c'.row = c.row) :
    (h.set p c').rows = h.rows := by
  funext q
  unfold rows set
  by_cases hq : q = p
  · subst hq; simp [hp, hr]
  · simp [hq]

theorem rows_reset (h : MHeap) (p : Nat) : (h.reset p).rows = h.rows := by
  unfold reset
  cases hp : h p with
  | none => rfl
  | some c => exact rows_set h p c _ hp rfl

theorem rows_resetAll (h : MHeap) (ps : List Nat) : (resetAll h ps).rows = h.rows := by
  induction ps generalizing h with
  | nil => rfl
  | cons p ps ih => rw [resetAll, ih, rows_reset]

theorem reset_get (h : MHeap) (p : Nat) (c : MsgCell) (hp : h p = some c) :
    (h.reset p) p = some { c with bitCur := 0, refCur := 0 } := by
  simp [reset, hp, set]

theorem reset_other (h : MHeap) (p q : Nat) (hq : q ≠ p) : (h.reset p) q = h q := by
  unfold reset
  cases h p with
  | none => rfl
  | some c => simp [set, hq]

theorem resetAll_other (h : MHeap) (ps : List Nat) (q : Nat) (hq : q ∉ ps) : (resetAll h ps) q = h q := by
  induction ps generalizing h with
  | nil => rfl
  | cons p ps ih =>
    rw [resetAll, ih (h.reset p) (fun hm => hq (by simp [hm])), reset_other h p q (fun e => hq (by simp [e]))]

theorem sliceAt_reset (h : MHeap) (p : Nat) (c : MsgCell) (hp : h p = some c) :
    (h.reset p).sliceAt p = some ⟨c.row.bits, c.row.refs⟩ := by
  simp [sliceAt, reset_get h p c hp]

theorem nextRef_ok (h : MHeap) (p : Nat) (c : MsgCell) (r : Nat) (hp : h p = some c) (hc : c.refCur ≤ 3)
    (hr : c.row.refs[c.refCur]? = some r) :
    h.nextRef p = .ok (r, (h.set p { c with refCur := c.refCur + 1 }).reset r) := by
  unfold nextRef
  have : ¬ c.refCur > 3 := by omega
  simp [hp, this, hr]

theorem rows_nextRef (h : MHeap) (p r : Nat) (h' : MHeap) (e : h.nextRef p = .ok (r, h')) : h'.rows = h.rows := by
  unfold nextRef at e
  cases hp : h p with
  | none => rw [hp] at e; cases e
  | some c =>
    rw [hp] at e
    simp only at e
    split at e
    · cases e
    · split at e
      · cases e
      · injection e with e
        injection e with _ e
        rw [← e, rows_reset]
        exact rows_set h p c { c with refCur := c.refCur + 1 } hp rfl

end MHeap

/-! ### the hash does not depend on the hasher state -/

/-- a decoder state whose hasher table (if any) is valid for the cells as they are now -/
def Dec.Valid (H : List UInt8 → List UInt8) (d : Dec) : Prop :=
  ∀ cache, d.hasher = some cache → Memo.CacheInv H d.heap.rows cache

/-- with ANY valid table (or none) the hash step returns what `Cell.Hash` returns on the tree the pointer denotes;
it leaves the cells alone and the table valid -/
theorem hashCell_spec (H : List UInt8 → List UInt8) (fuel : Nat) (d : Dec) (p : Nat) (c : Cell)
    (hv : d.Valid H) (ht : Memo.tree d.heap.rows fuel p = some c) :
    outFst (hashCell H fuel d p) = c.reprHash H ∧
    ∀ h d', hashCell H fuel d p = .ok (h, d') → d'.heap = d.heap ∧ d'.Valid H := by
  cases hh : d.hasher with
  | none =>
    have a := Memo.hasherHash_agrees H d.heap.rows fuel p [] c (by intro p i h; simp at h) ht
    have hcell : hashCell H fuel d p =
        (Memo.hasherHash H d.heap.rows fuel p []).bind fun (h, _) => .ok (h, d) := by
      unfold hashCell; rw [hh]
    rw [hcell]
    cases hm : Memo.hasherHash H d.heap.rows fuel p [] with
    | ok r =>
      obtain ⟨x, k⟩ := r
      rw [hm] at a
      refine ⟨by simp only [Outcome.bind, outFst]; exact a.1.symm, ?_⟩
      intro h d' e
      simp only [Outcome.bind] at e
      injection e with e; injection e with _ e
      subst e
      exact ⟨rfl, hv⟩
    | err e => rw [hm] at a; simp only [Memo.Agrees] at a; exact ⟨by simp only [Outcome.bind, outFst]; exact a.symm, by intro h d' e; cases e⟩
    | panic e => rw [hm] at a; simp only [Memo.Agrees] at a; exact ⟨by simp only [Outcome.bind, outFst]; exact a.symm, by intro h d' e; cases e⟩
  | some cache =>
    have a := Memo.hasherHash_agrees H d.heap.rows fuel p cache c (hv cache hh) ht
    have hcell : hashCell H fuel d p =
        (Memo.hasherHash H d.heap.rows fuel p cache).bind fun (h, cache') => .ok (h, { d with hasher := some cache' }) := by
      unfold hashCell; rw [hh]
    rw [hcell]
    cases hm : Memo.hasherHash H d.heap.rows fuel p cache with
    | ok r =>
      obtain ⟨x, k⟩ := r
      rw [hm] at a
      refine ⟨by simp only [Outcome.bind, outFst]; exact a.1.symm, ?_⟩
      intro h d' e
      simp only [Outcome.bind] at e
      injection e with e; injection e with _ e
      subst e
      refine ⟨rfl, ?_⟩
      intro cache' hc'
      simp only at hc'
      injection hc' with hc'
      subst hc'
      exact a.2
    | err e => rw [hm] at a; simp only [Memo.Agrees] at a; exact ⟨by simp only [Outcome.bind, outFst]; exact a.symm, by intro h d' e; cases e⟩
    | panic e => rw [hm] at a; simp only [Memo.Agrees] at a; exact ⟨by simp only [Outcome.bind, outFst]; exact a.symm, by intro h d' e; cases e⟩

theorem rows_cursorsAfter (h : MHeap) (p : Nat) (m : Msg Nat) (rest : Slice Nat) :
    (cursorsAfter h p m rest).rows = h.rows := by
  unfold cursorsAfter
  cases hp : h p with
  | none => rfl
  | some c =>
    simp only
    have hk : ∀ l, (MHeap.resetAll h l) p = some c ∨ (MHeap.resetAll h l) p = some { c with bitCur := 0, refCur := 0 } := by
      intro l
      induction l generalizing h c with
      | nil => exact Or.inl hp
      | cons q qs ih =>
        rw [MHeap.resetAll]
        by_cases hq : q = p
        · subst hq
          have := ih (h.reset q) _ (MHeap.reset_get h q c hp)
          rcases this with t | t <;> exact Or.inr t
        · exact ih (h.reset q) c (by rw [MHeap.reset_other h q p (fun e => hq e.symm)]; exact hp)
    rcases hk (if m.bodyIsRef = true then c.row.refs.take (c.row.refs.length - rest.refs.length) else c.row.refs) with t | t
    · exact (MHeap.rows_set _ p _ ⟨c.row, c.row.bits.length - rest.bits.length, c.row.refs.length - rest.refs.length⟩ t rfl).trans (MHeap.rows_resetAll h _)
    · exact (MHeap.rows_set _ p _ ⟨c.row, c.row.bits.length - rest.bits.length, c.row.refs.length - rest.refs.length⟩ t rfl).trans (MHeap.rows_resetAll h _)

/-- **Message.UnmarshalTLB on a mutable cell, closed form.** Whatever the cursors of the cell and of its descendants
are on entry, and whatever VALID memo table the decoder's hasher carries (or none): the reported hash and fields are
`Cell.Hash` of the tree the pointer denotes and the fields decoded from the FIRST bit and FIRST reference of the cell.
The right-hand side mentions neither cursors nor the hasher. -/
theorem unmarshalMessageH_eq (H : List UInt8 → List UInt8) (fuel : Nat) (d : Dec) (p : Nat) (c : Cell) (mc : MsgCell)
    (hv : d.Valid H) (ht : Memo.tree d.heap.rows fuel p = some c) (hp : d.heap p = some mc) :
    outFst (unmarshalMessageH H fuel d p) =
      (c.reprHash H).bind fun h =>
        (decodeMsg (rowStore d.heap.rows) ⟨mc.row.bits, mc.row.refs⟩).bind fun m => .ok ⟨h, m⟩ := by
  obtain ⟨h1, h2⟩ := hashCell_spec H fuel d p c hv ht
  unfold unmarshalMessageH
  cases hc : hashCell H fuel d p with
  | err e => rw [hc] at h1; simp only [outFst] at h1; rw [← h1]; rfl
  | panic e => rw [hc] at h1; simp only [outFst] at h1; rw [← h1]; rfl
  | ok r =>
    obtain ⟨hsh, d1⟩ := r
    rw [hc] at h1
    simp only [outFst] at h1
    obtain ⟨hheap, _⟩ := h2 hsh d1 hc
    rw [← h1]
    simp only [Outcome.bind, hheap, MHeap.sliceAt_reset d.heap p mc hp, MHeap.store_eq, MHeap.rows_reset, decodeMsg]
    cases decodeMsgS (rowStore d.heap.rows) ⟨mc.row.bits, mc.row.refs⟩ with
    | ok r => obtain ⟨m, rest⟩ := r; rfl
    | err e => rfl
    | panic e => rfl

/-- what a successful decode leaves behind: the same cells (only cursors moved), a valid table, and every cell other
than the message cell and its direct references untouched -/
theorem unmarshalMessageH_frame (H : List UInt8 → List UInt8) (fuel : Nat) (d : Dec) (p : Nat) (c : Cell) (mc : MsgCell)
    (hv : d.Valid H) (ht : Memo.tree d.heap.rows fuel p = some c) (hp : d.heap p = some mc)
    (m : MessageH) (d' : Dec) (e : unmarshalMessageH H fuel d p = .ok (m, d')) :
    d'.heap.rows = d.heap.rows ∧ d'.Valid H ∧ ∀ q, q ≠ p → q ∉ mc.row.refs → d'.heap q = d.heap q := by
  obtain ⟨_, h2⟩ := hashCell_spec H fuel d p c hv ht
  unfold unmarshalMessageH at e
  cases hc : hashCell H fuel d p with
  | err x => rw [hc] at e; cases e
  | panic x => rw [hc] at e; cases e
  | ok r =>
    obtain ⟨hsh, d1⟩ := r
    obtain ⟨hheap, hv1⟩ := h2 hsh d1 hc
    rw [hc] at e
    simp only [Outcome.bind, hheap, MHeap.sliceAt_reset d.heap p mc hp] at e
    cases hd : decodeMsgS (d.heap.reset p).store ⟨mc.row.bits, mc.row.refs⟩ with
    | err x => rw [hd] at e; cases e
    | panic x => rw [hd] at e; cases e
    | ok r =>
      obtain ⟨mm, rest⟩ := r
      rw [hd] at e
      simp only at e
      injection e with e
      injection e with _ e
      subst e
      have hrows : (cursorsAfter (d.heap.reset p) p mm rest).rows = d.heap.rows := by
        rw [rows_cursorsAfter, MHeap.rows_reset]
      refine ⟨hrows, ?_, ?_⟩
      · intro cache hcache
        have := hv1 cache hcache
        rw [hheap] at this
        simp only
        rw [hrows]
        exact this
      · intro q hq hnr
        simp only [cursorsAfter, MHeap.reset_get d.heap p mc hp]
        have hnot : q ∉ (if mm.bodyIsRef = true then mc.row.refs.take (mc.row.refs.length - rest.refs.length) else mc.row.refs) := by
          split
          · intro hm; exact hnr (List.mem_of_mem_take hm)
          · exact hnr
        simp only [MHeap.set, hq, if_false]
        rw [MHeap.resetAll_other _ _ q hnot, MHeap.reset_other d.heap p q hq]

end Tongo.Message

namespace Tongo.Message
open Tongo

/-! ### the heap below a pointer that denotes a tree is acyclic -/

theorem treeList_mem (f : Nat → Option Cell) : ∀ (rs : List Nat) (cs : List Cell), Memo.treeList f rs = some cs →
    ∀ r ∈ rs, ∃ c ∈ cs, f r = some c := by
  intro rs
  induction rs with
  | nil => intro cs _ r hr; cases hr
  | cons a rs ih =>
    intro cs h r hr
    simp only [Memo.treeList] at h
    cases ha : f a with
    | none => rw [ha] at h; cases h
    | some ca =>
      cases hl : Memo.treeList f rs with
      | none => rw [ha, hl] at h; cases h
      | some l =>
        rw [ha, hl] at h
        injection h with h
        subst h
        rcases List.mem_cons.mp hr with rfl | hr'
        · exact ⟨ca, by simp, ha⟩
        · obtain ⟨c, hc, hf⟩ := ih l hl r hr'
          exact ⟨c, by simp [hc], hf⟩

/-- the children of a pointer that denotes a tree denote the sub-trees -/
theorem tree_children (R : Memo.Heap) (fuel p : Nat) (c : Cell) (row : CellRow) (ht : Memo.tree R (fuel + 1) p = some c)
    (hr : R p = some row) : ∀ r ∈ row.refs, ∃ c' ∈ c.refs, Memo.tree R fuel r = some c' := by
  simp only [Memo.tree, hr, Option.map_eq_some_iff] at ht
  obtain ⟨cs, hcs, rfl⟩ := ht
  exact treeList_mem _ _ cs hcs

theorem sizeOf_child (c c' : Cell) (h : c' ∈ c.refs) : sizeOf c' < sizeOf c := by
  cases c with
  | mk ty mask bits refs =>
    have := List.sizeOf_lt_of_mem h
    simp only [Cell.refs] at this
    simp only [Cell.mk.sizeOf_spec]
    omega

theorem tree_fuel_pos (R : Memo.Heap) (fuel p : Nat) (c : Cell) (ht : Memo.tree R fuel p = some c) :
    ∃ f, fuel = f + 1 := by
  cases fuel with
  | zero => simp [Memo.tree] at ht
  | succ f => exact ⟨f, rfl⟩

/-- no cell is its own child, nor a child of one of its children -/
theorem tree_acyclic (R : Memo.Heap) (fuel p : Nat) (c : Cell) (row : CellRow) (ht : Memo.tree R (fuel + 1) p = some c)
    (hr : R p = some row) :
    p ∉ row.refs ∧ ∀ r ∈ row.refs, ∀ rr, R r = some rr → p ∉ rr.refs := by
  constructor
  · intro hp
    obtain ⟨c', hc', ht'⟩ := tree_children R fuel p c row ht hr p hp
    have := Memo.tree_unique R (fuel + 1) fuel p c c' ht ht'
    subst this
    exact absurd (sizeOf_child c c hc') (Nat.lt_irrefl _)
  · intro r hrm rr hrr hp
    obtain ⟨c', hc', ht'⟩ := tree_children R fuel p c row ht hr r hrm
    obtain ⟨f, rfl⟩ := tree_fuel_pos R fuel r c' ht'
    obtain ⟨c'', hc'', ht''⟩ := tree_children R f r c' rr ht' hrr p hp
    have := Memo.tree_unique R (f + 1 + 1) f p c c'' ht ht''
    subst this
    have h1 := sizeOf_child c c' hc'
    have h2 := sizeOf_child c' c hc''
    omega

/-! ### an enclosing record -/

/-- what is reported for one referenced message: the hash of the tree ITS pointer denotes and the fields decoded
from the start of ITS cell -/
def ChildOK (H : List UInt8 → List UInt8) (R : Memo.Heap) (fuel : Nat) (r : Nat) (m : MessageH) : Prop :=
  ∃ ci row, Memo.tree R fuel r = some ci ∧ R r = some row ∧ ci.reprHash H = .ok m.hash ∧
    decodeMsg (rowStore R) ⟨row.bits, row.refs⟩ = .ok m.msg

theorem outFst_ok {α β} (x : Outcome (α × β)) (a : α) (b : β) (h : x = .ok (a, b)) : outFst x = .ok a := by
  rw [h]; rfl

theorem decodeRefMessages_spec (H : List UInt8 → List UInt8) (fuel : Nat) (R : Memo.Heap) (parent : Nat) (c : Cell)
    (ht : Memo.tree R (fuel + 1) parent = some c) :
    ∀ (k : Nat) (d : Dec) (mc : MsgCell) (ms : List MessageH) (d' : Dec),
      d.heap.rows = R → d.Valid H → d.heap parent = some mc →
      decodeRefMessages H fuel k d parent = .ok (ms, d') →
      ms.length = k ∧ d'.heap.rows = R ∧ d'.Valid H ∧
      ∀ i, i < k → ∃ r m, mc.row.refs[mc.refCur + i]? = some r ∧ ms[i]? = some m ∧ ChildOK H R fuel r m := by
  intro k
  induction k with
  | zero =>
    intro d mc ms d' hR hv hp e
    simp only [decodeRefMessages] at e
    injection e with e; injection e with e1 e2
    subst e1; subst e2
    exact ⟨rfl, hR, hv, fun i hi => absurd hi (Nat.not_lt_zero i)⟩
  | succ k ih =>
    intro d mc ms d' hR hv hp e
    have hrowp : R parent = some mc.row := by rw [← hR]; simp [MHeap.rows, hp]
    obtain ⟨hns, hng⟩ := tree_acyclic R fuel parent c mc.row ht hrowp
    rw [decodeRefMessages] at e
    -- NextRef on the record's cell
    cases hn : d.heap.nextRef parent with
    | err x => rw [hn] at e; cases e
    | panic x => rw [hn] at e; cases e
    | ok rn =>
      obtain ⟨child, heap1⟩ := rn
      rw [hn] at e
      simp only [Outcome.bind] at e
      have hn' := hn
      unfold MHeap.nextRef at hn'
      rw [hp] at hn'
      simp only at hn'
      split at hn'
      · cases hn'
      · rename_i hc3
        split at hn'
        · cases hn'
        · rename_i r hrr
          injection hn' with hn'
          injection hn' with h1 h2
          subst h1
          have hchild_mem : r ∈ mc.row.refs := List.mem_of_getElem? hrr
          have hne : r ≠ parent := fun e' => hns (e' ▸ hchild_mem)
          obtain ⟨ci, _, hti⟩ := tree_children R fuel parent c mc.row ht hrowp r hchild_mem
          have hrows1 : heap1.rows = R := by rw [MHeap.rows_nextRef d.heap parent r heap1 hn, hR]
          -- the referenced cell exists
          have hRr : ∃ rowr, R r = some rowr := by
            obtain ⟨f, rfl⟩ := tree_fuel_pos R fuel r ci hti
            cases hx : R r with
            | none => simp [Memo.tree, hx] at hti
            | some rowr => exact ⟨rowr, rfl⟩
          obtain ⟨rowr, hRr⟩ := hRr
          have hchildcell : ∃ mr, heap1 r = some mr ∧ mr.row = rowr := by
            have : heap1.rows r = some rowr := by rw [hrows1]; exact hRr
            simp only [MHeap.rows, Option.map_eq_some_iff] at this
            obtain ⟨mr, h1', h2'⟩ := this
            exact ⟨mr, h1', h2'⟩
          obtain ⟨mr, hmr, hmrrow⟩ := hchildcell
          have hv1 : ({ d with heap := heap1 } : Dec).Valid H := by
            intro cache hcache
            have := hv cache hcache
            simp only
            rw [hrows1, ← hR]
            exact this
          -- Message.UnmarshalTLB on the referenced cell
          cases hu : unmarshalMessageH H fuel { d with heap := heap1 } r with
          | err x => rw [hu] at e; cases e
          | panic x => rw [hu] at e; cases e
          | ok ru =>
            obtain ⟨m, d2⟩ := ru
            rw [hu] at e
            simp only at e
            have heq := unmarshalMessageH_eq H fuel { d with heap := heap1 } r ci mr hv1
              (by simp only; rw [hrows1]; exact hti) hmr
            rw [outFst_ok _ m d2 hu] at heq
            simp only at heq
            rw [hrows1, hmrrow] at heq
            obtain ⟨hrows2, hv2, hframe⟩ := unmarshalMessageH_frame H fuel { d with heap := heap1 } r ci mr hv1
              (by simp only; rw [hrows1]; exact hti) hmr m d2 hu
            simp only at hrows2 hframe
            -- the record's cell is untouched by the decode of the child
            have hparent1 : heap1 parent = some { mc with refCur := mc.refCur + 1 } := by
              rw [← h2, MHeap.reset_other _ r parent (fun e' => hne e'.symm)]
              simp [MHeap.set]
            have hparent2 : d2.heap parent = some { mc with refCur := mc.refCur + 1 } := by
              rw [hframe parent (fun e' => hne e'.symm) (by rw [hmrrow]; exact hng r hchild_mem rowr hRr)]
              exact hparent1
            cases hrest : decodeRefMessages H fuel k d2 parent with
            | err x => rw [hrest] at e; cases e
            | panic x => rw [hrest] at e; cases e
            | ok rr =>
              obtain ⟨ms', d3⟩ := rr
              rw [hrest] at e
              simp only at e
              injection e with e
              injection e with e1 e2
              subst e1; subst e2
              obtain ⟨hlen, hR3, hv3, hall⟩ := ih d2 { mc with refCur := mc.refCur + 1 } ms' d3
                (by rw [hrows2, hrows1]) hv2 hparent2 hrest
              refine ⟨by simp [hlen], hR3, hv3, ?_⟩
              intro i hi
              cases i with
              | zero =>
                refine ⟨r, m, by simpa using hrr, rfl, ci, rowr, hti, hRr, ?_, ?_⟩
                · cases hh : ci.reprHash H with
                  | ok x =>
                    rw [hh] at heq
                    simp only [Outcome.bind] at heq
                    cases hd : decodeMsg (rowStore R) ⟨rowr.bits, rowr.refs⟩ with
                    | ok mm => rw [hd] at heq; simp only at heq; injection heq with heq; rw [heq]
                    | err x => rw [hd] at heq; cases heq
                    | panic x => rw [hd] at heq; cases heq
                  | err x => rw [hh] at heq; cases heq
                  | panic x => rw [hh] at heq; cases heq
                · cases hh : ci.reprHash H with
                  | ok x =>
                    rw [hh] at heq
                    simp only [Outcome.bind] at heq
                    cases hd : decodeMsg (rowStore R) ⟨rowr.bits, rowr.refs⟩ with
                    | ok mm => rw [hd] at heq; simp only at heq; injection heq with heq; rw [heq]
                    | err x => rw [hd] at heq; cases heq
                    | panic x => rw [hd] at heq; cases heq
                  | err x => rw [hh] at heq; cases heq
                  | panic x => rw [hh] at heq; cases heq
              | succ j =>
                obtain ⟨r', m', h1', h2', h3'⟩ := hall j (by omega)
                refine ⟨r', m', ?_, by simpa using h2', h3'⟩
                simp only at h1'
                rw [show mc.refCur + (j + 1) = mc.refCur + 1 + j from by omega]
                exact h1'

end Tongo.Message

namespace Tongo.Message
open Tongo

/-! ### transactions -/

theorem captureTxH_eq (H : List UInt8 → List UInt8) (fuel : Nat) (d : Dec) (p : Nat) (c : Cell)
    (hv : d.Valid H) (ht : Memo.tree d.heap.rows fuel p = some c) :
    outFst (captureTxH H fuel d p) = (c.reprHash H).bind fun h => .ok ⟨h, p⟩ := by
  obtain ⟨h1, _⟩ := hashCell_spec H fuel d p c hv ht
  unfold captureTxH
  cases hc : hashCell H fuel d p with
  | err e => rw [hc] at h1; simp only [outFst] at h1; rw [← h1]; rfl
  | panic e => rw [hc] at h1; simp only [outFst] at h1; rw [← h1]; rfl
  | ok r => obtain ⟨hsh, d1⟩ := r; rw [hc] at h1; simp only [outFst] at h1; rw [← h1]; rfl

theorem captureTxH_frame (H : List UInt8 → List UInt8) (fuel : Nat) (d : Dec) (p : Nat) (c : Cell)
    (hv : d.Valid H) (ht : Memo.tree d.heap.rows fuel p = some c)
    (t : TxCaptureH) (d' : Dec) (e : captureTxH H fuel d p = .ok (t, d')) :
    d'.heap.rows = d.heap.rows ∧ d'.Valid H ∧ ∀ q, q ≠ p → d'.heap q = d.heap q := by
  obtain ⟨_, h2⟩ := hashCell_spec H fuel d p c hv ht
  unfold captureTxH at e
  cases hc : hashCell H fuel d p with
  | err x => rw [hc] at e; cases e
  | panic x => rw [hc] at e; cases e
  | ok r =>
    obtain ⟨hsh, d1⟩ := r
    obtain ⟨hheap, hv1⟩ := h2 hsh d1 hc
    rw [hc] at e
    simp only [Outcome.bind] at e
    injection e with e
    injection e with _ e
    subst e
    refine ⟨by simp only; rw [MHeap.rows_reset, hheap], ?_, ?_⟩
    · intro cache hcache
      have := hv1 cache hcache
      simp only
      rw [MHeap.rows_reset]
      exact this
    · intro q hq
      simp only
      rw [MHeap.reset_other _ p q hq, hheap]

/-- what is reported for one referenced transaction -/
def TxChildOK (H : List UInt8 → List UInt8) (R : Memo.Heap) (fuel : Nat) (r : Nat) (t : TxCaptureH) : Prop :=
  ∃ ci, Memo.tree R fuel r = some ci ∧ ci.reprHash H = .ok t.hash ∧ t.source = r

theorem decodeRefTxs_spec (H : List UInt8 → List UInt8) (fuel : Nat) (R : Memo.Heap) (parent : Nat) (c : Cell)
    (ht : Memo.tree R (fuel + 1) parent = some c) :
    ∀ (k : Nat) (d : Dec) (mc : MsgCell) (ts : List TxCaptureH) (d' : Dec),
      d.heap.rows = R → d.Valid H → d.heap parent = some mc →
      decodeRefTxs H fuel k d parent = .ok (ts, d') →
      ts.length = k ∧ d'.heap.rows = R ∧ d'.Valid H ∧
      ∀ i, i < k → ∃ r t, mc.row.refs[mc.refCur + i]? = some r ∧ ts[i]? = some t ∧ TxChildOK H R fuel r t := by
  intro k
  induction k with
  | zero =>
    intro d mc ts d' hR hv hp e
    simp only [decodeRefTxs] at e
    injection e with e; injection e with e1 e2
    subst e1; subst e2
    exact ⟨rfl, hR, hv, fun i hi => absurd hi (Nat.not_lt_zero i)⟩
  | succ k ih =>
    intro d mc ts d' hR hv hp e
    have hrowp : R parent = some mc.row := by rw [← hR]; simp [MHeap.rows, hp]
    obtain ⟨hns, _⟩ := tree_acyclic R fuel parent c mc.row ht hrowp
    rw [decodeRefTxs] at e
    cases hn : d.heap.nextRef parent with
    | err x => rw [hn] at e; cases e
    | panic x => rw [hn] at e; cases e
    | ok rn =>
      obtain ⟨child, heap1⟩ := rn
      rw [hn] at e
      simp only [Outcome.bind] at e
      have hn' := hn
      unfold MHeap.nextRef at hn'
      rw [hp] at hn'
      simp only at hn'
      split at hn'
      · cases hn'
      · split at hn'
        · cases hn'
        · rename_i r hrr
          injection hn' with hn'
          injection hn' with h1 h2
          subst h1
          have hchild_mem : r ∈ mc.row.refs := List.mem_of_getElem? hrr
          have hne : r ≠ parent := fun e' => hns (e' ▸ hchild_mem)
          obtain ⟨ci, _, hti⟩ := tree_children R fuel parent c mc.row ht hrowp r hchild_mem
          have hrows1 : heap1.rows = R := by rw [MHeap.rows_nextRef d.heap parent r heap1 hn, hR]
          have hv1 : ({ d with heap := heap1 } : Dec).Valid H := by
            intro cache hcache
            have := hv cache hcache
            simp only
            rw [hrows1, ← hR]
            exact this
          cases hu : captureTxH H fuel { d with heap := heap1 } r with
          | err x => rw [hu] at e; cases e
          | panic x => rw [hu] at e; cases e
          | ok ru =>
            obtain ⟨t, d2⟩ := ru
            rw [hu] at e
            simp only at e
            have heq := captureTxH_eq H fuel { d with heap := heap1 } r ci hv1 (by simp only; rw [hrows1]; exact hti)
            rw [outFst_ok _ t d2 hu] at heq
            obtain ⟨hrows2, hv2, hframe⟩ := captureTxH_frame H fuel { d with heap := heap1 } r ci hv1
              (by simp only; rw [hrows1]; exact hti) t d2 hu
            simp only at hrows2 hframe
            have hparent2 : d2.heap parent = some { mc with refCur := mc.refCur + 1 } := by
              rw [hframe parent (fun e' => hne e'.symm), ← h2, MHeap.reset_other _ r parent (fun e' => hne e'.symm)]
              simp [MHeap.set]
            cases hrest : decodeRefTxs H fuel k d2 parent with
            | err x => rw [hrest] at e; cases e
            | panic x => rw [hrest] at e; cases e
            | ok rr =>
              obtain ⟨ts', d3⟩ := rr
              rw [hrest] at e
              simp only at e
              injection e with e
              injection e with e1 e2
              subst e1; subst e2
              obtain ⟨hlen, hR3, hv3, hall⟩ := ih d2 { mc with refCur := mc.refCur + 1 } ts' d3
                (by rw [hrows2, hrows1]) hv2 hparent2 hrest
              refine ⟨by simp [hlen], hR3, hv3, ?_⟩
              intro i hi
              cases i with
              | zero =>
                refine ⟨r, t, by simpa using hrr, rfl, ci, hti, ?_, ?_⟩
                · cases hh : ci.reprHash H with
                  | ok x => rw [hh] at heq; simp only [Outcome.bind] at heq; injection heq with heq; rw [heq]
                  | err x => rw [hh] at heq; cases heq
                  | panic x => rw [hh] at heq; cases heq
                · cases hh : ci.reprHash H with
                  | ok x => rw [hh] at heq; simp only [Outcome.bind] at heq; injection heq with heq; rw [heq]
                  | err x => rw [hh] at heq; cases heq
                  | panic x => rw [hh] at heq; cases heq
              | succ j =>
                obtain ⟨r', t', h1', h2', h3'⟩ := hall j (by omega)
                refine ⟨r', t', ?_, by simpa using h2', h3'⟩
                simp only at h1'
                rw [show mc.refCur + (j + 1) = mc.refCur + 1 + j from by omega]
                exact h1'

end Tongo.Message
