import TongoProofs.Lemmas.HashmapEncode
/-! Signed key types: `Put` keeps the slice in two's complement numeric order (keys with the sign bit set first).
`encodeMap` applied to that order builds the same tree as on the bit order: first and last key differ in bit 0, the
label is empty and the partition restores bit order. -/
namespace Tongo.Hashmap
open Tongo Tongo.Bits

variable {V : Type}

def stripHead (l : List (Key × V)) : List (Key × V) := l.map fun kv => (kv.1.tail, kv.2)

theorem commonLabel_diff_head (n : Int) (x : Bool) (a b : Key) : commonLabel n (x :: a) ((!x) :: b) = .ok [] := by
  cases a with
  | nil => simp [commonLabel, labelLoop]
  | cons y a => cases x <;> simp [commonLabel, labelLoop]

theorem splitKeys_zero : ∀ (l : List (Key × V)), (∀ kv ∈ l, kv.1 ≠ []) →
    splitKeys 0 l = .ok (stripHead (l.filter fun kv => kv.1.head? == some false),
                         stripHead (l.filter fun kv => kv.1.head? == some true))
  | [], _ => by simp [splitKeys, stripHead]
  | (k, v) :: l, h => by
    have ih := splitKeys_zero l (fun kv hkv => h kv (List.mem_cons_of_mem _ hkv))
    have hk : k ≠ [] := h (k, v) (by simp)
    match k, hk with
    | b :: k', _ =>
      cases b <;> simp [splitKeys, ih, stripHead]

theorem filter_heads_true (A : List (Key × V)) (hA : ∀ kv ∈ A, ∃ k', kv.1 = true :: k') :
    (A.filter fun kv => kv.1.head? == some true) = A ∧ (A.filter fun kv => kv.1.head? == some false) = [] := by
  constructor
  · apply List.filter_eq_self.mpr
    intro kv hkv; obtain ⟨k', hk'⟩ := hA kv hkv; simp [hk']
  · apply List.filter_eq_nil_iff.mpr
    intro kv hkv; obtain ⟨k', hk'⟩ := hA kv hkv; simp [hk']

theorem filter_heads_false (B : List (Key × V)) (hB : ∀ kv ∈ B, ∃ k', kv.1 = false :: k') :
    (B.filter fun kv => kv.1.head? == some false) = B ∧ (B.filter fun kv => kv.1.head? == some true) = [] := by
  constructor
  · apply List.filter_eq_self.mpr
    intro kv hkv; obtain ⟨k', hk'⟩ := hB kv hkv; simp [hk']
  · apply List.filter_eq_nil_iff.mpr
    intro kv hkv; obtain ⟨k', hk'⟩ := hB kv hkv; simp [hk']

theorem encodeMap_succ_of_two (C : Codec V) (f : Nat) (n : Int) : ∀ (l : List (Key × V)) (h : l ≠ []), 2 ≤ l.length →
    encodeMap C (f + 1) l n = encodeFork (encodeMap C f) l n (l.head h).1 (l.getLast h).1
  | [], h, _ => by simp at h
  | [_], _, h2 => by simp at h2
  | (k0, v0) :: kv1 :: more, _, _ => by simp [encodeMap]

/-- encodeMap on [keys with bit 0 set, then keys with bit 0 clear] = encodeMap on [clear, then set] -/
theorem encodeMap_signed_order (C : Codec V) (fuel : Nat) (n : Int) (A B : List (Key × V)) (hAne : A ≠ []) (hBne : B ≠ [])
    (hA : ∀ kv ∈ A, ∃ k', kv.1 = true :: k') (hB : ∀ kv ∈ B, ∃ k', kv.1 = false :: k') :
    encodeMap C fuel (A ++ B) n = encodeMap C fuel (B ++ A) n := by
  cases fuel with
  | zero => rfl
  | succ f =>
    have hlenA : 1 ≤ A.length := List.length_pos_iff.mpr hAne
    have hlenB : 1 ≤ B.length := List.length_pos_iff.mpr hBne
    have h1 : A ++ B ≠ [] := by simp [hAne]
    have h2 : B ++ A ≠ [] := by simp [hBne]
    rw [encodeMap_succ_of_two C f n (A ++ B) h1 (by simp; omega),
        encodeMap_succ_of_two C f n (B ++ A) h2 (by simp; omega)]
    -- heads and lasts
    obtain ⟨a0, ha0⟩ := hA (A.head hAne) (List.head_mem hAne)
    obtain ⟨a1, ha1⟩ := hA (A.getLast hAne) (List.getLast_mem hAne)
    obtain ⟨b0, hb0⟩ := hB (B.head hBne) (List.head_mem hBne)
    obtain ⟨b1, hb1⟩ := hB (B.getLast hBne) (List.getLast_mem hBne)
    have e1 : ((A ++ B).head h1) = A.head hAne := List.head_append_of_ne_nil hAne
    have e2 : ((A ++ B).getLast h1) = B.getLast hBne := List.getLast_append_right hBne
    have e3 : ((B ++ A).head h2) = B.head hBne := List.head_append_of_ne_nil hBne
    have e4 : ((B ++ A).getLast h2) = A.getLast hAne := List.getLast_append_right hAne
    rw [e1, e2, e3, e4, ha0, hb1, hb0, ha1]
    have c1 : commonLabel n (true :: a0) (false :: b1) = .ok [] := commonLabel_diff_head n true a0 b1
    have c2 : commonLabel n (false :: b0) (true :: a1) = .ok [] := commonLabel_diff_head n false b0 a1
    have hneAB : ∀ kv ∈ A ++ B, kv.1 ≠ [] := by
      intro kv hkv
      rcases List.mem_append.mp hkv with h | h
      · obtain ⟨k', hk'⟩ := hA kv h; simp [hk']
      · obtain ⟨k', hk'⟩ := hB kv h; simp [hk']
    have hneBA : ∀ kv ∈ B ++ A, kv.1 ≠ [] := by
      intro kv hkv; exact hneAB kv (by simp at hkv ⊢; tauto)
    have s1 := splitKeys_zero (A ++ B) hneAB
    have s2 := splitKeys_zero (B ++ A) hneBA
    simp only [List.filter_append, (filter_heads_true A hA).1, (filter_heads_true A hA).2,
      (filter_heads_false B hB).1, (filter_heads_false B hB).2, List.append_nil, List.nil_append] at s1 s2
    simp only [encodeFork, c1, c2, List.length_nil, s1, s2]

theorem sortedKV_append_signed (A B : List (Key × V)) (hsA : SortedKV A) (hsB : SortedKV B)
    (hA : ∀ kv ∈ A, ∃ k', kv.1 = true :: k') (hB : ∀ kv ∈ B, ∃ k', kv.1 = false :: k') : SortedKV (B ++ A) := by
  unfold SortedKV at *
  rw [List.pairwise_append]
  refine ⟨hsB, hsA, ?_⟩
  intro b hb a ha
  obtain ⟨k1, hk1⟩ := hB b hb
  obtain ⟨k2, hk2⟩ := hA a ha
  simp [hk1, hk2]

end Tongo.Hashmap
