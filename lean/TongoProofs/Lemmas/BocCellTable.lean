import TongoProofs.Lemmas.BocOrderCanon
/-! From cell TREES to table presentations: `cellTable c` (pre-order, no sharing) is a valid layout whose root unfolds
to `c`, for every tree within the limits of the format. Gives the `Cell`-level corollaries of C01. -/
namespace Tongo.Boc.Order
open Tongo Tongo.Boc

/-! ### a table presentation of a cell tree (pre-order, no sharing) -/

mutual
def nodes : Cell → Nat
  | .mk _ _ _ kids => 1 + nodesL kids
def nodesL : List Cell → Nat
  | [] => 0
  | c :: cs => nodes c + nodesL cs
end

/-- positions of the children: each child's subtree follows the previous one -/
def kidOffs : List Cell → Nat → List Nat
  | [], _ => []
  | c :: cs, off => off :: kidOffs cs (off + nodes c)

mutual
/-- rows of the subtree of `c`, root first, placed at position `off` -/
def rowsOf : Cell → Nat → List CellRow
  | .mk ty mask bits kids, off => ⟨ty, mask, bits, kidOffs kids (off + 1)⟩ :: rowsOfL kids (off + 1)
def rowsOfL : List Cell → Nat → List CellRow
  | [], _ => []
  | c :: cs, off => rowsOf c off ++ rowsOfL cs (off + nodes c)
end

mutual
/-- depth of the subtree at every position, in the same order -/
def ranksOf : Cell → List Nat
  | .mk ty mask bits kids => cellDepth (.mk ty mask bits kids) :: ranksOfL kids
def ranksOfL : List Cell → List Nat
  | [] => []
  | c :: cs => ranksOf c ++ ranksOfL cs
end

/-- the table of a cell tree: row 0 is the root -/
def cellTable (c : Cell) : Table := (rowsOf c 0).toArray

mutual
theorem rowsOf_length : ∀ (c : Cell) (off : Nat), (rowsOf c off).length = nodes c
  | .mk _ _ _ kids, off => by simp [rowsOf, nodes, rowsOfL_length kids (off + 1)]; omega
theorem rowsOfL_length : ∀ (cs : List Cell) (off : Nat), (rowsOfL cs off).length = nodesL cs
  | [], _ => rfl
  | c :: cs, off => by simp [rowsOfL, nodesL, rowsOf_length c off, rowsOfL_length cs (off + nodes c)]
end

mutual
theorem ranksOf_length : ∀ (c : Cell), (ranksOf c).length = nodes c
  | .mk _ _ _ kids => by simp [ranksOf, nodes, ranksOfL_length kids]; omega
theorem ranksOfL_length : ∀ (cs : List Cell), (ranksOfL cs).length = nodesL cs
  | [] => rfl
  | c :: cs => by simp [ranksOfL, nodesL, ranksOf_length c, ranksOfL_length cs]
end

theorem nodes_pos (c : Cell) : 1 ≤ nodes c := by cases c; simp [nodes]

/-- the children's positions lie in the block of the children, and the depth list has the child's depth there -/
theorem kidOffs_spec : ∀ (cs : List Cell) (off : Nat) (r : Nat), r ∈ kidOffs cs off →
    off ≤ r ∧ r < off + nodesL cs ∧ ∃ c ∈ cs, (ranksOfL cs)[r - off]? = some (cellDepth c)
  | [], _, r, h => by simp [kidOffs] at h
  | c :: cs, off, r, h => by
    simp only [kidOffs, List.mem_cons] at h
    have hp := nodes_pos c
    rcases h with rfl | h
    · refine ⟨Nat.le_refl _, by simp [nodesL]; omega, c, by simp, ?_⟩
      simp only [Nat.sub_self, ranksOfL]
      cases c with
      | mk ty mask bits kids => simp [ranksOf]
    · obtain ⟨a, b, c', hc', hr⟩ := kidOffs_spec cs (off + nodes c) r h
      refine ⟨by omega, by simp [nodesL]; omega, c', by simp [hc'], ?_⟩
      simp only [ranksOfL]
      rw [List.getElem?_append_right (by rw [ranksOf_length]; omega), ranksOf_length]
      have : r - off - nodes c = r - (off + nodes c) := by omega
      rw [this]; exact hr

theorem kidOffs_length (cs : List Cell) (off : Nat) : (kidOffs cs off).length = cs.length := by
  induction cs generalizing off with
  | nil => rfl
  | cons c cs ih => simp [kidOffs, ih]


mutual
/-- a cell tree within the limits of the format (every node: ≤ 1023 bits, ≤ 4 references, 3-bit mask, type byte,
complete pruned branches, exotic cells starting with their type) -/
def CellOK : Cell → Prop
  | .mk ty mask bits kids => bits.length ≤ 1023 ∧ mask < 8 ∧ ty < 256 ∧ kids.length ≤ 4 ∧
      (ty = tyPruned → 2 + LevelMask.hashIndex mask * (hashSize + depthSize) ≤ (bits.length + 7) / 8) ∧
      (ty ≠ 0 → (Bits.toppedUp bits).head? = some (UInt8.ofNat ty)) ∧ CellOKL kids
def CellOKL : List Cell → Prop
  | [] => True
  | c :: cs => CellOK c ∧ CellOKL cs
end

/-- what is needed of the row at index `k` of a block placed at `lo` with `n` rows; `ranks` are the depths of the block -/
def RowGood (lo n k : Nat) (row : CellRow) (ranks : List Nat) (bound : Nat) : Prop :=
  row.bits.length ≤ 1023 ∧ row.mask < 8 ∧ row.ty < 256 ∧ row.refs.length ≤ 4 ∧
  (row.ty = tyPruned → 2 + LevelMask.hashIndex row.mask * (hashSize + depthSize) ≤ (row.bits.length + 7) / 8) ∧
  (row.ty ≠ 0 → (Bits.toppedUp row.bits).head? = some (UInt8.ofNat row.ty)) ∧
  ∃ rk, ranks[k]? = some rk ∧ rk ≤ bound ∧
    ∀ r ∈ row.refs, lo + k < r ∧ r < lo + n ∧ ∃ rr, ranks[r - lo]? = some rr ∧ rr + 1 ≤ rk

theorem RowGood.cons {lo n k : Nat} {row : CellRow} {ranks : List Nat} {b b' : Nat} (x : Nat)
    (h : RowGood (lo + 1) n k row ranks b) (hb : b ≤ b') : RowGood lo (1 + n) (k + 1) row (x :: ranks) b' := by
  obtain ⟨h1, h2, h3, h4, h5, h6, rk, hrk, hle, hrefs⟩ := h
  refine ⟨h1, h2, h3, h4, h5, h6, rk, by simpa using hrk, by omega, ?_⟩
  intro r hr
  obtain ⟨a, b1, rr, hrr, hlt⟩ := hrefs r hr
  refine ⟨by omega, by omega, rr, ?_, hlt⟩
  have : r - lo = (r - (lo + 1)) + 1 := by omega
  rw [this]; simpa using hrr

theorem RowGood.left {lo n k : Nat} {row : CellRow} {A : List Nat} {b b' : Nat} (B : List Nat) (m : Nat)
    (h : RowGood lo n k row A b) (hn : A.length = n) (hk : k < n) (hb : b ≤ b') :
    RowGood lo (n + m) k row (A ++ B) b' := by
  obtain ⟨h1, h2, h3, h4, h5, h6, rk, hrk, hle, hrefs⟩ := h
  refine ⟨h1, h2, h3, h4, h5, h6, rk, by rw [List.getElem?_append_left (by omega)]; exact hrk, by omega, ?_⟩
  intro r hr
  obtain ⟨a, b1, rr, hrr, hlt⟩ := hrefs r hr
  exact ⟨a, by omega, rr, by rw [List.getElem?_append_left (by omega)]; exact hrr, hlt⟩

theorem RowGood.right {lo n k : Nat} {row : CellRow} {B : List Nat} {b b' : Nat} (A : List Nat) (a : Nat)
    (h : RowGood (lo + a) n k row B b) (ha : A.length = a) (hb : b ≤ b') :
    RowGood lo (a + n) (a + k) row (A ++ B) b' := by
  obtain ⟨h1, h2, h3, h4, h5, h6, rk, hrk, hle, hrefs⟩ := h
  refine ⟨h1, h2, h3, h4, h5, h6, rk, ?_, by omega, ?_⟩
  · rw [List.getElem?_append_right (by omega), ha, Nat.add_sub_cancel_left]; exact hrk
  · intro r hr
    obtain ⟨x, y, rr, hrr, hlt⟩ := hrefs r hr
    refine ⟨by omega, by omega, rr, ?_, hlt⟩
    rw [List.getElem?_append_right (by omega), ha]
    have : r - lo - a = r - (lo + a) := by omega
    rw [this]; exact hrr

mutual
theorem rowsOf_good : ∀ (c : Cell), CellOK c → ∀ (off k : Nat) (row : CellRow), (rowsOf c off)[k]? = some row →
    RowGood off (nodes c) k row (ranksOf c) (cellDepth c)
  | .mk ty mask bits kids, hok, off, k, row, hrow => by
    obtain ⟨h1, h2, h3, h4, h5, h6, hkids⟩ := (by simpa [CellOK] using hok :
      bits.length ≤ 1023 ∧ mask < 8 ∧ ty < 256 ∧ kids.length ≤ 4 ∧ _ ∧ _ ∧ CellOKL kids)
    cases k with
    | zero =>
      simp only [rowsOf, List.getElem?_cons_zero, Option.some.injEq] at hrow
      subst hrow
      refine ⟨h1, h2, h3, by simp [kidOffs_length]; exact h4, h5, h6, cellDepth (.mk ty mask bits kids), by simp [ranksOf],
        Nat.le_refl _, ?_⟩
      intro r hr
      obtain ⟨a, b, c', hc', hrr⟩ := kidOffs_spec kids (off + 1) r hr
      refine ⟨by omega, by simp only [nodes]; omega, cellDepth c', ?_, ?_⟩
      · have : r - off = (r - (off + 1)) + 1 := by omega
        rw [this]; simpa [ranksOf] using hrr
      · simp only [cellDepth]; exact cellDepthList_mem hc'
    | succ k =>
      simp only [rowsOf, List.getElem?_cons_succ] at hrow
      have := rowsOfL_good kids hkids (off + 1) k row (cellDepthList kids)
        (fun c hc => by have := cellDepthList_mem hc; omega) hrow
      simp only [nodes, ranksOf]
      exact this.cons _ (by simp [cellDepth])
theorem rowsOfL_good : ∀ (cs : List Cell), CellOKL cs → ∀ (off k : Nat) (row : CellRow) (b : Nat),
    (∀ c ∈ cs, cellDepth c ≤ b) → (rowsOfL cs off)[k]? = some row →
    RowGood off (nodesL cs) k row (ranksOfL cs) b
  | [], _, off, k, row, b, _, hrow => by simp [rowsOfL] at hrow
  | c :: cs, hok, off, k, row, b, hb, hrow => by
    obtain ⟨hc, hcs⟩ := (by simpa [CellOKL] using hok : CellOK c ∧ CellOKL cs)
    simp only [rowsOfL] at hrow
    simp only [nodesL, ranksOfL]
    by_cases hk : k < nodes c
    · rw [List.getElem?_append_left (by rw [rowsOf_length]; exact hk)] at hrow
      exact (rowsOf_good c hc off k row hrow).left _ _ (ranksOf_length c) hk (hb c (by simp))
    · rw [List.getElem?_append_right (by rw [rowsOf_length]; omega), rowsOf_length] at hrow
      have := rowsOfL_good cs hcs (off + nodes c) (k - nodes c) row b (fun x hx => hb x (by simp [hx])) hrow
      have h2 := this.right (ranksOf c) (nodes c) (ranksOf_length c) (Nat.le_refl b)
      have : nodes c + (k - nodes c) = k := by omega
      rwa [this] at h2
end


/-- the block `L` sits in the table at position `off` -/
def Loc (F : Table) (off : Nat) (L : List CellRow) : Prop := ∀ k row, L[k]? = some row → F[off + k]? = some row

theorem Loc.left {F : Table} {off : Nat} {A B : List CellRow} (h : Loc F off (A ++ B)) : Loc F off A := by
  intro k row hk
  have hlt : k < A.length := by
    rcases Nat.lt_or_ge k A.length with h' | h'
    · exact h'
    · rw [List.getElem?_eq_none h'] at hk; cases hk
  exact h k row (by rw [List.getElem?_append_left hlt]; exact hk)

theorem Loc.right {F : Table} {off : Nat} {A B : List CellRow} (h : Loc F off (A ++ B)) :
    Loc F (off + A.length) B := by
  intro k row hk
  have := h (A.length + k) row (by rw [List.getElem?_append_right (by omega), Nat.add_sub_cancel_left]; exact hk)
  rwa [Nat.add_assoc]

mutual
theorem unfold_rowsOf : ∀ (c : Cell) (F : Table) (off fuel : Nat), Loc F off (rowsOf c off) → nodes c ≤ fuel →
    Table.unfold F fuel off = some c
  | .mk ty mask bits kids, F, off, fuel, hloc, hfuel => by
    cases fuel with
    | zero => simp [nodes] at hfuel
    | succ fuel =>
      have h0 := hloc 0 ⟨ty, mask, bits, kidOffs kids (off + 1)⟩ (by simp [rowsOf])
      simp only [Nat.add_zero] at h0
      unfold Table.unfold
      rw [h0]
      simp only
      have hl : Loc F (off + 1) (rowsOfL kids (off + 1)) := by
        intro k row hk
        have := hloc (k + 1) row (by simp [rowsOf]; exact hk)
        rwa [Nat.add_assoc, Nat.add_comm 1 k] at *
      rw [unfold_kids kids F off (off + 1) fuel hl (by simp [nodes] at hfuel; omega) (by omega)]
theorem unfold_kids : ∀ (cs : List Cell) (F : Table) (p off fuel : Nat), Loc F off (rowsOfL cs off) →
    nodesL cs ≤ fuel → p < off →
    (kidOffs cs off).mapM (fun r => if r > p then Table.unfold F fuel r else none) = some cs
  | [], _, _, _, _, _, _, _ => rfl
  | c :: cs, F, p, off, fuel, hloc, hfuel, hp => by
    simp only [rowsOfL] at hloc
    simp only [nodesL] at hfuel
    have h1 := unfold_rowsOf c F off fuel hloc.left (by omega)
    have hr := hloc.right
    rw [rowsOf_length] at hr
    have h2 := unfold_kids cs F p (off + nodes c) fuel hr (by omega) (by omega)
    simp only [kidOffs, List.mapM_cons, gt_iff_lt, hp, if_true, h1, h2]
    rfl
end

theorem loc_cellTable (c : Cell) : Loc (cellTable c) 0 (rowsOf c 0) := by
  intro k row hk
  simp only [cellTable, Nat.zero_add]
  simpa using hk

/-- the root of the table of a tree unfolds to the tree -/
theorem cellTable_unfold (c : Cell) :
    Table.unfold (cellTable c) ((cellTable c).size + 1) 0 = some c := by
  apply unfold_rowsOf c _ 0 _ (loc_cellTable c)
  simp [cellTable, rowsOf_length]

/-- the table of a tree within the limits is a valid layout -/
theorem cellTable_valid (c : Cell) (hok : CellOK c) (hd : cellDepth c ≤ maxDepth) : ValidLayout (cellTable c) [0] := by
  have hsz : (cellTable c).size = nodes c := by simp [cellTable, rowsOf_length]
  have hrow : ∀ i (h : i < (cellTable c).size), (rowsOf c 0)[i]? = some (cellTable c)[i] := by
    intro i h
    simp [cellTable]
  have hgood : ∀ i (h : i < (cellTable c).size),
      RowGood 0 (nodes c) i (cellTable c)[i] (ranksOf c) (cellDepth c) :=
    fun i h => rowsOf_good c hok 0 i _ (hrow i h)
  refine ⟨⟨?_, ?_, ⟨(ranksOf c).toArray, by simp [hsz, ranksOf_length], ?_⟩⟩, ?_⟩
  · intro i hi
    obtain ⟨h1, h2, h3, h4, h5, _, rk, _, _, hrefs⟩ := hgood i hi
    refine ⟨h1, h2, h3, h4, ?_, h5⟩
    intro r hr
    obtain ⟨a, b, _⟩ := hrefs r hr
    rw [hsz]; omega
  · intro r hr
    simp at hr; subst hr
    rw [hsz]; exact nodes_pos c
  · intro i hi
    obtain ⟨_, _, _, _, _, _, rk, hrk, hle, hrefs⟩ := hgood i hi
    have hi' : i < (ranksOf c).length := by rw [ranksOf_length, ← hsz]; exact hi
    have hget : ((ranksOf c).toArray)[i]! = rk := by
      rw [getElem!_pos _ i (by simpa using hi')]
      have := hrk
      rw [List.getElem?_eq_getElem hi'] at this
      simpa using Option.some.inj this
    rw [hget]
    refine ⟨by omega, ?_⟩
    intro r hr
    obtain ⟨a, b, rr, hrr, hlt⟩ := hrefs r hr
    simp only [Nat.sub_zero, Nat.zero_add] at hrr b
    have hr' : r < (ranksOf c).length := by rw [ranksOf_length]; exact b
    have hgr : ((ranksOf c).toArray)[r]! = rr := by
      rw [getElem!_pos _ r (by simpa using hr')]
      rw [List.getElem?_eq_getElem hr'] at hrr
      simpa using Option.some.inj hrr
    rw [hgr]; exact hlt
  · intro i hi
    exact (hgood i hi).2.2.2.2.2.1

end Tongo.Boc.Order
