import TongoProofs.Lemmas.BitStringInt
/-! Byte-level readers: `ReadByte` (aligned / 16-bit window), `ReadBytes`, and the packing `bitsToBytes`.
Helper lemmas only. -/
namespace Tongo.Bits

theorem bitsToBytes_nil : bitsToBytes [] = [] := by rw [bitsToBytes]

/-- packing peels off one full byte -/
theorem bitsToBytes_append8 (a r : List Bool) (ha : a.length = 8) :
    bitsToBytes (a ++ r) = UInt8.ofNat (bitsToNat a) :: bitsToBytes r := by
  match a, ha with
  | h :: t, ha =>
    have ht : t.length = 7 := by simpa using ha
    rw [List.cons_append, bitsToBytes]
    have e1 : List.take 8 (h :: (t ++ r)) = h :: t := by
      rw [← List.cons_append, List.take_append_of_le_length (by simp [ht])]
      exact List.take_of_length_le (by simp [ht])
    have e2 : List.drop 7 (t ++ r) = r := by
      rw [List.drop_append_of_le_length (by omega), List.drop_of_length_le (by omega), List.nil_append]
    simp only [e1, e2, List.length_cons, ht]
    simp

theorem bitsToBytes_bytesToBits (bs : List UInt8) : bitsToBytes (bytesToBits bs) = bs := by
  induction bs with
  | nil => exact bitsToBytes_nil
  | cons b t ih =>
    rw [bytesToBits_cons, bitsToBytes_append8 _ _ (byteToBits_length b), ih, byteToBits, bitsToNat_natToBits]
    congr 1
    rw [Nat.mod_eq_of_lt b.toNat_lt, UInt8.ofNat_toNat]

end Tongo.Bits

namespace Tongo.BitString
open Tongo.Bits

/-- a window of `n` bits at bit offset `off` of a big-endian byte load -/
theorem window_value (b : List UInt8) (off n : Nat) (h : off + n ≤ 8 * b.length) :
    beNat b / 2 ^ (8 * b.length - (off + n)) % 2 ^ n = bitsToNat (((bytesToBits b).drop off).take n) := by
  have hL : (bytesToBits b).length = 8 * b.length := bytesToBits_length b
  rw [beNat_eq_bits, ← hL, ← bitsToNat_take]
  have hlt : ((bytesToBits b).take (off + n)).length = off + n := by rw [List.length_take]; omega
  have hd := bitsToNat_drop ((bytesToBits b).take (off + n)) n (by omega)
  rw [← hd, hlt]
  have e0 : off + n - n = off := by omega
  rw [e0]
  congr 1
  apply List.ext_getElem?
  intro i
  simp only [List.getElem?_take, List.getElem?_drop]
  by_cases hi : i < n
  · have : off + i < off + n := by omega
    simp [hi, this]
  · simp only [hi, if_false]
    have : ¬ off + i < off + n := by omega
    simp [this]

/-- `ReadByte` on both paths: the next eight bits as a byte -/
theorem readByte_ok (s : BitString) (h8 : s.len ≤ 8 * s.buf.length) (h : s.rCursor + 8 ≤ s.len) :
    readByte s = (.ok (UInt8.ofNat (bitsToNat (nextBits s 8))), { s with rCursor := s.rCursor + 8 }) := by
  have a1 : ¬ s.len < s.rCursor + 8 := by omega
  simp only [readByte, bind_run, needBits_run, a1, if_false, get_run, ite_run]
  rw [nextBits_eq s 8 h]
  by_cases hal : s.rCursor % 8 = 0
  · have hidx : s.rCursor / 8 < s.buf.length := by omega
    simp only [hal, if_true, advance_run, List.getElem?_eq_getElem hidx, pure_run]
    congr 2
    have e : ((bytesToBits s.buf).drop s.rCursor).take 8 = byteToBits s.buf[s.rCursor / 8] := by
      apply List.ext_getElem?
      intro i
      simp only [List.getElem?_take, List.getElem?_drop, bytesToBits_getElem?, byteToBits_getElem?]
      by_cases hi : i < 8
      · have e1 : (s.rCursor + i) / 8 = s.rCursor / 8 := by omega
        have e2 : (s.rCursor + i) % 8 = i := by omega
        simp [hi, e1, e2, List.getElem?_eq_getElem hidx]
      · simp [hi]
    rw [e, bitsToNat_byteToBits, UInt8.ofNat_toNat]
  · have hidx : s.rCursor / 8 + 1 < s.buf.length := by omega
    have hidx0 : s.rCursor / 8 < s.buf.length := by omega
    simp only [hal, if_false, List.getElem?_eq_getElem hidx, List.getElem?_eq_getElem hidx0, bind_run,
      advance_run, pure_run]
    congr 2
    generalize hhi : s.buf[s.rCursor / 8] = hi
    generalize hlo : s.buf[s.rCursor / 8 + 1] = lo
    have hw := window_value [hi, lo] (s.rCursor % 8) 8 (by simp; omega)
    have hbe : beNat [hi, lo] = hi.toNat * 256 + lo.toNat := by simp [beNat]
    have hsh : 8 * [hi, lo].length - (s.rCursor % 8 + 8) = 8 - s.rCursor % 8 := by simp
    rw [hbe, hsh] at hw
    rw [Nat.shiftRight_eq_div_pow, ← UInt8.ofNat_mod_size, hw]
    congr 2
    apply List.ext_getElem?
    intro i
    simp only [List.getElem?_take, List.getElem?_drop, bytesToBits_getElem?]
    by_cases hi8 : i < 8
    · have e2 : (s.rCursor + i) % 8 = (s.rCursor % 8 + i) % 8 := by omega
      simp only [hi8, if_true, e2]
      by_cases hlow : s.rCursor % 8 + i < 8
      · have e1 : (s.rCursor + i) / 8 = s.rCursor / 8 := by omega
        have e3 : (s.rCursor % 8 + i) / 8 = 0 := by omega
        simp [e1, e3, List.getElem?_eq_getElem hidx0, hhi]
      · have e1 : (s.rCursor + i) / 8 = s.rCursor / 8 + 1 := by omega
        have e3 : (s.rCursor % 8 + i) / 8 = 1 := by omega
        simp [e1, e3, List.getElem?_eq_getElem hidx, hlo]
    · simp [hi8]

theorem readByte_underflow (s : BitString) (h : s.len < s.rCursor + 8) : readByte s = (.err errNotEnough, s) := by
  simp only [readByte, bind_run, needBits_run, h, if_true]

theorem nextBits_add (s : BitString) (a b : Nat) :
    nextBits s (a + b) = nextBits s a ++ nextBits { s with rCursor := s.rCursor + a } b := by
  simp only [nextBits, abs_cursor]
  rw [List.take_add, List.drop_drop]

/-- the byte loop of `ReadBytes` -/
theorem readBytesLoop_ok (k : Nat) : ∀ (s : BitString), s.len ≤ 8 * s.buf.length → s.rCursor + 8 * k ≤ s.len →
    readBytesLoop k s = (.ok (bitsToBytes (nextBits s (8 * k))), { s with rCursor := s.rCursor + 8 * k }) := by
  induction k with
  | zero => intro s _ _; simp [readBytesLoop, nextBits, bitsToBytes_nil]
  | succ k ih =>
    intro s h8 h
    have e : 8 * (k + 1) = 8 + 8 * k := by omega
    rw [readBytesLoop, bind_run, readByte_ok s h8 (by omega)]
    simp only [bind_run]
    rw [ih { s with rCursor := s.rCursor + 8 } h8 (by simp; omega)]
    simp only [pure_run, e, nextBits_add]
    rw [bitsToBytes_append8 _ _ (nextBits_length s 8 h8 (by omega))]
    simp [Nat.add_assoc]

/-- `ReadBytes(k)` on both paths -/
theorem readBytes_ok (k : Nat) (s : BitString) (h8 : s.len ≤ 8 * s.buf.length) (h : s.rCursor + k * 8 ≤ s.len) :
    readBytes k s = (.ok (bitsToBytes (nextBits s (k * 8))), { s with rCursor := s.rCursor + k * 8 }) := by
  have a1 : ¬ s.len < s.rCursor + k * 8 := by omega
  simp only [readBytes, bind_run, needBits_run, a1, if_false, get_run, ite_run]
  by_cases hal : s.rCursor % 8 = 0
  · have a2 : ¬ s.rCursor / 8 + k > s.buf.length := by omega
    simp only [hal, if_true, advance_run, a2, if_false, pure_run]
    congr 2
    rw [nextBits_eq s (k * 8) h]
    have e1 : s.rCursor = 8 * (s.rCursor / 8) := by omega
    have e2 : k * 8 = 8 * k := by omega
    conv => rhs; rw [e1, e2, ← bytesToBits_drop, ← bytesToBits_take, bitsToBytes_bytesToBits]
  · simp only [hal, if_false]
    have e2 : k * 8 = 8 * k := by omega
    rw [e2, readBytesLoop_ok k s h8 (by omega)]

theorem readBytes_underflow (k : Nat) (s : BitString) (h : s.len < s.rCursor + k * 8) :
    readBytes k s = (.err errNotEnough, s) := by
  simp only [readBytes, bind_run, needBits_run, h, if_true]

end Tongo.BitString
