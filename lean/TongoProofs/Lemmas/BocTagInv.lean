import TongoProofs.Lemmas.BocBitsRt
import TongoProofs.Lemmas.CellOrd
/-! The reader's view of a cell's data is canonical: re-encoding the bits it keeps gives back the bytes it read. -/
namespace Tongo.Boc
open Tongo Tongo.Bits

theorem bytesToBits_len8 (bs : Bytes) : (bytesToBits bs).length = 8 * bs.length := by
  induction bs with
  | nil => rfl
  | cons b t ih =>
    simp only [bytesToBits, List.flatMap_cons, List.length_append, List.length_cons] at *
    have : (byteToBits b).length = 8 := by simp [byteToBits, natToBits]
    rw [this, ih]; omega

theorem stripLoop_shape (n : Nat) (rev bits : List Bool) (h : stripLoop n rev = .ok bits) :
    ∃ k, k < n ∧ rev = List.replicate k false ++ true :: bits.reverse := by
  induction n generalizing rev with
  | zero => simp [stripLoop] at h
  | succ n ih =>
    cases rev with
    | nil => simp [stripLoop] at h
    | cons b rest =>
      cases b with
      | true =>
        simp only [stripLoop, Outcome.ok.injEq] at h
        subst h
        exact ⟨0, by omega, by simp⟩
      | false =>
        simp only [stripLoop] at h
        obtain ⟨k, hk, hr⟩ := ih rest h
        exact ⟨k + 1, by omega, by rw [hr]; simp [List.replicate_succ]⟩

theorem bitsToBytes_bytesToBits (arr : Bytes) : bitsToBytes (bytesToBits arr) = arr := by
  apply Bits.bytesToBits_inj
  rw [Boc.bytesToBits_bitsToBytes_aligned _ (by rw [bytesToBits_len8]; omega)]

/-- what the reader keeps of a cell's data re-encodes to the bytes it read: the topped-up array is canonical -/
theorem setTopUpped_inv (arr : Bytes) (f : Bool) (bits : List Bool) (h : setTopUpped arr f = .ok bits) :
    toppedUp bits = arr := by
  unfold setTopUpped at h
  by_cases hc : (f || arr.isEmpty) = true
  · simp only [hc, if_true, Outcome.ok.injEq] at h
    subst h
    unfold toppedUp addTag
    have : (bytesToBits arr).length % 8 = 0 := by rw [bytesToBits_len8]; omega
    simp only [this, if_true]
    exact bitsToBytes_bytesToBits arr
  · simp only [hc] at h
    obtain ⟨k, hk, hr⟩ := stripLoop_shape 7 _ bits h
    have hrev : bytesToBits arr = bits ++ true :: List.replicate k false := by
      have := congrArg List.reverse hr
      simpa [List.reverse_append] using this
    have hlen := congrArg List.length hrev
    rw [bytesToBits_len8] at hlen
    simp only [List.length_append, List.length_cons, List.length_replicate] at hlen
    unfold toppedUp addTag
    have hm : bits.length % 8 ≠ 0 := by omega
    simp only [hm, if_false]
    have hk' : 7 - bits.length % 8 = k := by omega
    rw [hk', ← hrev]
    exact bitsToBytes_bytesToBits arr

end Tongo.Boc
