import TongoProofs.Lemmas.BocOrderKey
/-! Canonicity of Go's cell order: the import is a walk over the unfolded trees with de-duplication by key, so two
presentations of the same cells are imported in lock step and ordered identically. -/
namespace Tongo.Boc.Order
open Tongo Tongo.Boc

variable {K : Type} [BEq K] [Hashable K] [LawfulBEq K]

/-! ### more fuel does not change a successful import -/

def RecLe (r r' : ImpState K → Nat → Nat → Outcome (ImpState K × Nat)) : Prop :=
  ∀ st i d x, r st i d = .ok x → r' st i d = .ok x

theorem importRefs_mono {r r' : ImpState K → Nat → Nat → Outcome (ImpState K × Nat)} (h : RecLe r r') (depth : Nat) :
    ∀ (rs : List Nat) (st : ImpState K) (sum : Int) x, importRefs r depth rs st sum = .ok x →
      importRefs r' depth rs st sum = .ok x := by
  intro rs
  induction rs with
  | nil => intro st sum x hx; exact hx
  | cons a as ih =>
    intro st sum x hx
    simp only [importRefs] at hx ⊢
    rcases h1 : r st a (depth + 1) with ⟨st1, p⟩ | e | e
    · rw [h1] at hx
      rw [h st a (depth + 1) _ h1]
      simp only at hx ⊢
      rcases h2 : importRefs r depth as st1 (sum + st1.wt[p]!) with ⟨st2, ps, s2⟩ | e | e
      · rw [h2] at hx
        rw [ih _ _ _ h2]
        exact hx
      · rw [h2] at hx; cases hx
      · rw [h2] at hx; cases hx
    · rw [h1] at hx; cases hx
    · rw [h1] at hx; cases hx

theorem importStep_mono (t : Table) (key : Nat → Option K)
    {r r' : ImpState K → Nat → Nat → Outcome (ImpState K × Nat)} (h : RecLe r r') :
    RecLe (importStep t key r) (importStep t key r') := by
  intro st i d x hx
  unfold importStep at hx ⊢
  split at hx
  · cases hx
  · rename_i hd
    simp only [hd, if_false]
    rcases ht : t[i]? with _ | row
    · rw [ht] at hx; cases hx
    · rw [ht] at hx
      simp only at hx ⊢
      rcases hk : key i with _ | hh
      · rw [hk] at hx; cases hx
      · rw [hk] at hx
        simp only at hx ⊢
        rcases hc : st.cells[hh]? with _ | pos
        · rw [hc] at hx
          simp only at hx ⊢
          rcases h2 : importRefs r d row.refs st 1 with ⟨st2, ps, s2⟩ | e | e
          · rw [h2] at hx
            rw [importRefs_mono h d _ _ _ _ h2]
            exact hx
          · rw [h2] at hx; cases hx
          · rw [h2] at hx; cases hx
        · rw [hc] at hx; exact hx

theorem importCell_fuel_mono (t : Table) (key : Nat → Option K) :
    ∀ f g, f ≤ g → RecLe (importCell t key f) (importCell t key g) := by
  intro f
  induction f with
  | zero => intro g _ st i d x hx; simp [importCell] at hx
  | succ f ih =>
    intro g hg
    cases g with
    | zero => omega
    | succ g => exact importStep_mono t key (ih g (by omega))

theorem importRootsLoop_fuel_mono (t : Table) (key : Nat → Option K) (f g : Nat) (hfg : f ≤ g) :
    ∀ (rs : List Nat) (st : ImpState K) x, importRootsLoop t key f rs st = .ok x → importRootsLoop t key g rs st = .ok x := by
  intro rs
  induction rs with
  | nil => intro st x hx; exact hx
  | cons a as ih =>
    intro st x hx
    simp only [importRootsLoop] at hx ⊢
    rcases h1 : importCell t key f st a 0 with ⟨st1, p⟩ | e | e
    · rw [h1] at hx
      rw [importCell_fuel_mono t key f g hfg st a 0 _ h1]
      simp only at hx ⊢
      rcases h2 : importRootsLoop t key f as st1 with ⟨st2, ps⟩ | e | e
      · rw [h2] at hx; rw [ih _ _ h2]; exact hx
      · rw [h2] at hx; cases hx
      · rw [h2] at hx; cases hx
    · rw [h1] at hx; cases hx
    · rw [h1] at hx; cases hx


/-! ### two presentations of the same cells are imported in lock step -/

theorem All2.of_map_eq {α β γ : Type} {f : α → γ} {g : β → γ} : ∀ {l : List α} {l' : List β},
    l.map f = l'.map g → All2 (fun a b => f a = g b) l l'
  | [], [], _ => .nil
  | [], _ :: _, h => by simp at h
  | _ :: _, [], h => by simp at h
  | a :: as, b :: bs, h => by
    simp only [List.map_cons, List.cons.injEq] at h
    exact .cons h.1 (All2.of_map_eq h.2)

theorem All2.with_mem_left {α β : Type} {R : α → β → Prop} {l : List α} {l' : List β} (h : All2 R l l') :
    All2 (fun a b => R a b ∧ a ∈ l) l l' := by
  induction h with
  | nil => exact .nil
  | cons hd _ ih => exact .cons ⟨hd, by simp⟩ (ih.mono (fun a b ⟨x, z⟩ => ⟨x, by simp [z]⟩))

section
variable (t1 t2 : Table) (key1 key2 : Nat → Option K) (U1 U2 : Nat → Cell)

/-- the two import states hold the same cells at the same import indices -/
structure Sim (st1 st2 : ImpState K) : Prop where
  refs : st1.refs = st2.refs
  wt : st1.wt = st2.wt
  cache : st1.cache = st2.cache
  size : st1.rows.size = st2.rows.size
  sem : ∀ k, k < st1.rows.size → U1 (st1.rows[k]!) = U2 (st2.rows[k]!)
  cells : ∀ h : K, st1.cells[h]? = st2.cells[h]?

/-- related outcomes -/
def OutRel {α β : Type} (R : α → β → Prop) : Outcome α → Outcome β → Prop
  | .ok a, .ok b => R a b
  | .err _, .err _ => True
  | .panic _, .panic _ => True
  | _, _ => False

def SimRec (r1 r2 : ImpState K → Nat → Nat → Outcome (ImpState K × Nat)) : Prop :=
  ∀ st1 st2 i1 i2 d, Sim U1 U2 st1 st2 → i1 < t1.size → i2 < t2.size → U1 i1 = U2 i2 →
    OutRel (fun a b => Sim U1 U2 a.1 b.1 ∧ a.2 = b.2) (r1 st1 i1 d) (r2 st2 i2 d)

theorem importRefs_sim {r1 r2 : ImpState K → Nat → Nat → Outcome (ImpState K × Nat)}
    (hrec : SimRec t1 t2 U1 U2 r1 r2) (depth : Nat) :
    ∀ (l1 l2 : List Nat), All2 (fun a b => a < t1.size ∧ b < t2.size ∧ U1 a = U2 b) l1 l2 →
      ∀ (st1 st2 : ImpState K) (sum : Int), Sim U1 U2 st1 st2 →
        OutRel (fun a b => Sim U1 U2 a.1 b.1 ∧ a.2.1 = b.2.1 ∧ a.2.2 = b.2.2)
          (importRefs r1 depth l1 st1 sum) (importRefs r2 depth l2 st2 sum) := by
  intro l1 l2 hall
  induction hall with
  | nil => intro st1 st2 sum hs; exact ⟨hs, rfl, rfl⟩
  | @cons a b as bs hd _ ih =>
    intro st1 st2 sum hs
    simp only [importRefs]
    have h1 := hrec st1 st2 a b (depth + 1) hs hd.1 hd.2.1 hd.2.2
    rcases e1 : r1 st1 a (depth + 1) with ⟨x1, p1⟩ | _ | _ <;>
      rcases e2 : r2 st2 b (depth + 1) with ⟨x2, p2⟩ | _ | _ <;> rw [e1, e2] at h1 <;>
      simp only [OutRel] at h1 ⊢
    obtain ⟨hs', hp⟩ := h1
    subst hp
    have h2 := ih x1 x2 (sum + x1.wt[p1]!) hs'
    rw [hs'.wt] at h2 ⊢
    rcases e3 : importRefs r1 depth as x1 (sum + x2.wt[p1]!) with ⟨y1, ps1, s1⟩ | _ | _ <;>
      rcases e4 : importRefs r2 depth bs x2 (sum + x2.wt[p1]!) with ⟨y2, ps2, s2⟩ | _ | _ <;> rw [e3, e4] at h2 <;>
      simp only [OutRel] at h2 ⊢
    obtain ⟨a1, a2, a3⟩ := h2
    exact ⟨a1, by simp [a2], a3⟩


/-- what relates the two presentations: both have a semantics, and rows standing for the same tree have the same key -/
structure SamePres : Prop where
  s1 : IsSem t1 U1
  s2 : IsSem t2 U2
  f1 : Fwd t1
  f2 : Fwd t2
  keys : ∀ i1 i2, i1 < t1.size → i2 < t2.size → U1 i1 = U2 i2 → key1 i1 = key2 i2

theorem importStep_sim (hp : SamePres t1 t2 key1 key2 U1 U2)
    {r1 r2 : ImpState K → Nat → Nat → Outcome (ImpState K × Nat)} (hrec : SimRec t1 t2 U1 U2 r1 r2) :
    SimRec t1 t2 U1 U2 (importStep t1 key1 r1) (importStep t2 key2 r2) := by
  intro st1 st2 i1 i2 d hs hi1 hi2 hU
  unfold importStep
  by_cases hd : d > maxDepth
  · simp only [hd, if_true, OutRel]
  · simp only [hd, if_false]
    rw [Array.getElem?_eq_getElem hi1, Array.getElem?_eq_getElem hi2, get!_of_getElem t1 i1 hi1,
      get!_of_getElem t2 i2 hi2]
    simp only
    rw [hp.keys i1 i2 hi1 hi2 hU]
    rcases hk : key2 i2 with _ | h
    · simp only [OutRel]
    · simp only
      rw [hs.cells h]
      rcases hc : st2.cells[h]? with _ | pos
      · simp only
        -- the rows have the same data and pairwise the same children
        have hrow := hU
        rw [hp.s1 i1 hi1, hp.s2 i2 hi2] at hrow
        injection hrow with _ _ _ hrefs
        have hall : All2 (fun a b => a < t1.size ∧ b < t2.size ∧ U1 a = U2 b) (t1[i1]!).refs (t2[i2]!).refs := by
          have h0 := All2.of_map_eq hrefs
          have h1 := h0.with_mem
          have h2 := h1.with_mem_left
          exact h2.mono (fun a b ⟨⟨x, y⟩, z⟩ => ⟨(hp.f1 i1 hi1 a z).2, (hp.f2 i2 hi2 b y).2, x⟩)
        have h3 := importRefs_sim t1 t2 U1 U2 hrec d _ _ hall st1 st2 1 hs
        rcases e1 : importRefs r1 d (t1[i1]!).refs st1 1 with ⟨x1, ps1, s1⟩ | _ | _ <;>
          rcases e2 : importRefs r2 d (t2[i2]!).refs st2 1 with ⟨x2, ps2, s2⟩ | _ | _ <;> rw [e1, e2] at h3 <;>
          simp only [OutRel] at h3 ⊢
        obtain ⟨hs', hps, hsum⟩ := h3
        subst hps hsum
        refine ⟨⟨?_, ?_, ?_, ?_, ?_, ?_⟩, hs'.size⟩
        · simp only [hs'.refs]
        · simp only [hs'.wt]
        · simp only [hs'.cache]
        · simp only [Array.size_push, hs'.size]
        · intro k hk'
          simp only [Array.size_push] at hk'
          by_cases hlt : k < x1.rows.size
          · simp only [get!_push_lt _ _ _ hlt, get!_push_lt _ _ _ (hs'.size ▸ hlt)]
            exact hs'.sem k hlt
          · have : k = x1.rows.size := by omega
            subst this
            rw [get!_push_eq]
            have : x1.rows.size = x2.rows.size := hs'.size
            rw [this, get!_push_eq]
            exact hU
        · intro h'
          simp only [Std.HashMap.getElem?_insert, hs'.size, hs'.cells h']
      · simp only [OutRel]
        refine ⟨⟨hs.refs, hs.wt, ?_, hs.size, hs.sem, hs.cells⟩, trivial⟩
        simp only [hs.cache]

theorem importCell_sim (hp : SamePres t1 t2 key1 key2 U1 U2) :
    ∀ f, SimRec t1 t2 U1 U2 (importCell t1 key1 f) (importCell t2 key2 f) := by
  intro f
  induction f with
  | zero => intro st1 st2 i1 i2 d _ _ _ _; simp only [importCell, OutRel]
  | succ f ih => exact importStep_sim t1 t2 key1 key2 U1 U2 hp ih


theorem importRoots_sim (hp : SamePres t1 t2 key1 key2 U1 U2) (f : Nat) :
    ∀ (l1 l2 : List Nat), All2 (fun a b => a < t1.size ∧ b < t2.size ∧ U1 a = U2 b) l1 l2 →
      ∀ (st1 st2 : ImpState K), Sim U1 U2 st1 st2 →
        OutRel (fun a b => Sim U1 U2 a.1 b.1 ∧ a.2 = b.2)
          (importRootsLoop t1 key1 f l1 st1) (importRootsLoop t2 key2 f l2 st2) := by
  intro l1 l2 hall
  induction hall with
  | nil => intro st1 st2 hs; exact ⟨hs, rfl⟩
  | @cons a b as bs hd _ ih =>
    intro st1 st2 hs
    simp only [importRootsLoop]
    have h1 := importCell_sim t1 t2 key1 key2 U1 U2 hp f st1 st2 a b 0 hs hd.1 hd.2.1 hd.2.2
    rcases e1 : importCell t1 key1 f st1 a 0 with ⟨x1, p1⟩ | _ | _ <;>
      rcases e2 : importCell t2 key2 f st2 b 0 with ⟨x2, p2⟩ | _ | _ <;> rw [e1, e2] at h1 <;>
      simp only [OutRel] at h1 ⊢
    obtain ⟨hs', hpq⟩ := h1
    subst hpq
    have h2 := ih x1 x2 hs'
    rcases e3 : importRootsLoop t1 key1 f as x1 with ⟨y1, ps1⟩ | _ | _ <;>
      rcases e4 : importRootsLoop t2 key2 f bs x2 with ⟨y2, ps2⟩ | _ | _ <;> rw [e3, e4] at h2 <;>
      simp only [OutRel] at h2 ⊢
    exact ⟨h2.1, by simp [h2.2]⟩

theorem sim_empty : Sim U1 U2 ({} : ImpState K) ({} : ImpState K) :=
  ⟨rfl, rfl, rfl, rfl, fun k hk => by simp at hk, fun _ => rfl⟩

end

/-- **The order does not depend on the presentation.** Two presentations (different row order, sharing, duplicate rows)
of the same cells — the roots unfold to the same trees, and rows unfolding to the same tree have the same key — are
ordered into the same table, root positions and cache bits, for every `special`. -/
theorem orderWith_canonical (t1 t2 : Table) (roots1 roots2 : List Nat) (key1 key2 : Nat → Option K)
    (special : Array Int → Nat → Bool)
    (hv1 : ValidLayout t1 roots1) (hv2 : ValidLayout t2 roots2) (hk1 : KeyInjOn t1 key1) (hk2 : KeyInjOn t2 key2)
    (hsame : ∀ i1 i2, i1 < t1.size → i2 < t2.size →
      Table.unfold t1 (t1.size + 1) i1 = Table.unfold t2 (t2.size + 1) i2 → key1 i1 = key2 i2)
    (hroots : roots1.map (Table.unfold t1 (t1.size + 1)) = roots2.map (Table.unfold t2 (t2.size + 1))) :
    ∃ o1 o2, orderWith t1 key1 special roots1 = .ok o1 ∧ orderWith t2 key2 special roots2 = .ok o2 ∧
      o1.table = o2.table ∧ o1.roots = o2.roots ∧ o1.cacheBits = o2.cacheBits := by
  have hf1 := fwd_of_rows t1 hv1.1.1
  have hf2 := fwd_of_rows t2 hv2.1.1
  have hs1 := sem_exists t1 hf1
  have hs2 := sem_exists t2 hf2
  have hU1 : ∀ i, i < t1.size → Table.unfold t1 (t1.size + 1) i = some (semF t1 (t1.size + 1) i) :=
    fun i hi => unfold_of_sem t1 _ hs1 hf1 (t1.size + 1) i hi (by omega)
  have hU2 : ∀ i, i < t2.size → Table.unfold t2 (t2.size + 1) i = some (semF t2 (t2.size + 1) i) :=
    fun i hi => unfold_of_sem t2 _ hs2 hf2 (t2.size + 1) i hi (by omega)
  have mkKeyOK : ∀ (t : Table) (key : Nat → Option K) (hk : KeyInjOn t key)
      (hU : ∀ i, i < t.size → Table.unfold t (t.size + 1) i = some (semF t (t.size + 1) i)),
      KeyOK t key (semF t (t.size + 1)) := by
    intro t key hk hU
    refine ⟨hk.1, ?_⟩
    intro i j hi hj
    rw [hk.2 i j hi hj, hU i hi, hU j hj]
    exact ⟨fun h => Option.some.inj h, fun h => by rw [h]⟩
  have hp : SamePres t1 t2 key1 key2 (semF t1 (t1.size + 1)) (semF t2 (t2.size + 1)) :=
    ⟨hs1, hs2, hf1, hf2, fun i1 i2 h1 h2 h => hsame i1 i2 h1 h2 (by rw [hU1 i1 h1, hU2 i2 h2, h])⟩
  obtain ⟨st1, ps1, rst1, e1, c1, im1, ro1⟩ := orderWith_ok t1 roots1 key1 special _ hv1 hs1 (mkKeyOK t1 key1 hk1 hU1)
  obtain ⟨st2, ps2, rst2, e2, c2, im2, ro2⟩ := orderWith_ok t2 roots2 key2 special _ hv2 hs2 (mkKeyOK t2 key2 hk2 hU2)
  refine ⟨_, _, e1, e2, ?_⟩
  -- the two imports at a common fuel
  have g1 := importRootsLoop_fuel_mono t1 key1 (t1.size + 1) (t1.size + t2.size + 1) (by omega) _ _ _ im1
  have g2 := importRootsLoop_fuel_mono t2 key2 (t2.size + 1) (t1.size + t2.size + 1) (by omega) _ _ _ im2
  have hall : All2 (fun a b => a < t1.size ∧ b < t2.size ∧ semF t1 (t1.size + 1) a = semF t2 (t2.size + 1) b)
      roots1 roots2 := by
    have h0 := (All2.of_map_eq hroots).with_mem.with_mem_left
    apply h0.mono
    intro a b ⟨⟨hab, hb⟩, ha⟩
    have ha' := hv1.1.2.1 a ha
    have hb' := hv2.1.2.1 b hb
    rw [hU1 a ha', hU2 b hb'] at hab
    exact ⟨ha', hb', Option.some.inj hab⟩
  have hsim := importRoots_sim t1 t2 key1 key2 _ _ hp (t1.size + t2.size + 1) roots1 roots2 hall _ _
    (sim_empty _ _)
  rw [g1, g2] at hsim
  simp only [OutRel] at hsim
  obtain ⟨hs, hps⟩ := hsim
  subst hps
  rw [hs.refs, hs.wt, ro2] at ro1
  have hrst : rst2 = rst1 := Option.some.inj ro1
  subst hrst
  refine ⟨?_, rfl, ?_⟩
  · simp only [assemble]
    congr 1
    apply List.map_congr_left
    intro ci hci
    have hci' : ci ∈ rst2.out.toList := List.mem_reverse.1 hci
    obtain ⟨k, hk, hke⟩ := List.getElem_of_mem hci'
    have hk' : k < rst2.out.size := by simpa using hk
    have hout : rst2.out[k]! = ci := by
      rw [getElem!_pos rst2.out k hk']
      simpa using hke
    have hlt : ci < st1.rows.size := by
      have := (c1.hinv.out_ok k hk').1
      rwa [hout] at this
    have hsem := hs.sem ci hlt
    have hr1 := (c1.hi.row_ok ci hlt).1
    have hr2 := (c2.hi.row_ok ci (hs.size ▸ hlt)).1
    rw [hs1 _ hr1, hs2 _ hr2] at hsem
    injection hsem with a b c _
    simp only [a, b, c]
  · simp only [assemble, hs.cache]

end Tongo.Boc.Order

namespace Tongo.Boc.Order
open Tongo Tongo.Boc

/-! ### an instance of `serialize_canonical`: the leaf of `exDup` shared instead of duplicated -/

def exShared : Table := #[⟨0, 0, [true], [1, 1]⟩, ⟨0, 0, [false], []⟩]

theorem exShared_valid : ValidLayout exShared [0] := by
  refine ⟨⟨?_, ?_, ⟨#[1, 0], rfl, ?_⟩⟩, ?_⟩
  · intro i hi
    have : i = 0 ∨ i = 1 := by simp [exShared] at hi; omega
    rcases this with rfl | rfl <;>
      exact ⟨by simp [exShared], by simp [exShared], by simp [exShared], by simp [exShared], by simp [exShared],
        by simp [exShared, tyPruned]⟩
  · intro r hr; simp at hr; subst hr; decide
  · intro i hi
    have : i = 0 ∨ i = 1 := by simp [exShared] at hi; omega
    rcases this with rfl | rfl <;> exact ⟨by simp [maxDepth], by simp [exShared]⟩
  · intro i hi h
    have : i = 0 ∨ i = 1 := by simp [exShared] at hi; omega
    rcases this with rfl | rfl <;> exact absurd rfl h

theorem exShared_key : KeyInjOn exShared (fun i => some i) := by
  refine ⟨fun _ _ => rfl, ?_⟩
  intro i j hi hj
  have hi' : i = 0 ∨ i = 1 := by simp [exShared] at hi; omega
  have hj' : j = 0 ∨ j = 1 := by simp [exShared] at hj; omega
  rcases hi' with rfl | rfl <;> rcases hj' with rfl | rfl <;> simp [exShared, Table.unfold]

/-- rows of the two presentations that unfold to the same tree have the same key -/
theorem exDup_exShared_keys : ∀ i1 i2, i1 < exDup.size → i2 < exShared.size →
    Table.unfold exDup (exDup.size + 1) i1 = Table.unfold exShared (exShared.size + 1) i2 →
    (fun i => some (if i = 2 then 1 else i)) i1 = (fun i => some i) i2 := by
  intro i1 i2 h1 h2
  have h1' : i1 = 0 ∨ i1 = 1 ∨ i1 = 2 := by simp [exDup] at h1; omega
  have h2' : i2 = 0 ∨ i2 = 1 := by simp [exShared] at h2; omega
  rcases h1' with rfl | rfl | rfl <;> rcases h2' with rfl | rfl <;> simp [exDup, exShared, Table.unfold]

theorem exDup_exShared_roots :
    [0].map (Table.unfold exDup (exDup.size + 1)) = [0].map (Table.unfold exShared (exShared.size + 1)) := by
  simp [exDup, exShared, Table.unfold]

end Tongo.Boc.Order
