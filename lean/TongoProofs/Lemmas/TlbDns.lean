import TongoModel.Tlb.Dns
import TongoProofs.Lemmas.TlbRT
/-! The DNS text decoder on the cells the schema prescribes (`Dns.specDnsText`). -/
namespace Tongo.Tlb.Dns
open Tongo Tongo.Bits Tongo.Tlb

theorem ofCell_ordinary (bits : List Bool) (refs : List Cell) :
    Slice.ofCell (Cell.mk 0 0 bits refs) = ({} : Slice).prepend bits refs := by
  simp [Slice.ofCell, Slice.prepend]

theorem decChunks_spec : ∀ (chunks : List (List UInt8)), chunks ≠ [] → (∀ c ∈ chunks, c.length < 256) →
    ∀ (s : Slice) (ys : List Bool) (rs : List Cell),
      decChunks chunks.length (s.prepend ((specChunks chunks).1 ++ ys) ((specChunks chunks).2 ++ rs))
        = .ok (chunks.flatten, s.prepend ys rs)
  | [], h, _, _, _, _ => absurd rfl h
  | [c], _, hl, s, ys, rs => by
    have hc : c.length < 256 := hl c (by simp)
    have h1 := Slice.readUint_prepend s 8 c.length (bytesToBits c ++ ys) rs (by omega)
    rw [Nat.mod_eq_of_lt (by omega)] at h1
    have h2 := Slice.readBytes_prepend s c ys rs
    simp only [specChunks, List.length_singleton, decChunks, List.append_assoc, List.nil_append, h1, bind,
      Outcome.bind, h2, Nat.lt_irrefl, ↓reduceIte, pure, List.flatten_cons, List.flatten_nil, List.append_nil]
  | c :: c2 :: rest, _, hl, s, ys, rs => by
    have hc : c.length < 256 := hl c (by simp)
    have ih := decChunks_spec (c2 :: rest) (by simp) (fun x hx => hl x (by simp [hx])) {} [] []
    have h1 := Slice.readUint_prepend s 8 c.length (bytesToBits c ++ ys)
      (Cell.mk 0 0 (specChunks (c2 :: rest)).1 (specChunks (c2 :: rest)).2 :: rs) (by omega)
    rw [Nat.mod_eq_of_lt (by omega)] at h1
    have h2 := Slice.readBytes_prepend s c ys
      (Cell.mk 0 0 (specChunks (c2 :: rest)).1 (specChunks (c2 :: rest)).2 :: rs)
    have h3 := Slice.nextRef_prepend s ys (Cell.mk 0 0 (specChunks (c2 :: rest)).1 (specChunks (c2 :: rest)).2) rs
    simp only [List.append_nil] at ih
    have hgt : (c2 :: rest).length + 1 > 1 := by simp
    have hspec : specChunks (c :: c2 :: rest) = (natToBits 8 c.length ++ bytesToBits c,
        [Cell.mk 0 0 (specChunks (c2 :: rest)).1 (specChunks (c2 :: rest)).2]) := by simp [specChunks]
    rw [hspec]
    show decChunks ((c2 :: rest).length + 1) _ = _
    rw [decChunks]
    simp only [List.append_assoc, List.cons_append, List.nil_append, h1, bind, Outcome.bind, h2, h3, ofCell_ordinary,
      pure, List.flatten_cons, if_pos hgt, ih]

/-- **dnsText_decodes_spec**: for up to 255 chunks of up to 255 bytes each, whatever follows in the cell, the decoder
returns the concatenation of the chunks and leaves what follows the text -/
theorem dnsText_decodes_spec (chunks : List (List UInt8)) (hq : chunks.length < 256)
    (hl : ∀ c ∈ chunks, c.length < 256) (s : Slice) (ys : List Bool) (rs : List Cell) :
    decDnsText (s.prepend ((specDnsText chunks).1 ++ ys) ((specDnsText chunks).2 ++ rs))
      = .ok (chunks.flatten, s.prepend ys rs) := by
  have h1 := Slice.readUint_prepend s 8 chunks.length ((specChunks chunks).1 ++ ys) ((specChunks chunks).2 ++ rs)
    (by omega)
  rw [Nat.mod_eq_of_lt (by omega)] at h1
  simp only [decDnsText, specDnsText, List.append_assoc, h1, bind, Outcome.bind]
  cases chunks with
  | nil => simp [decChunks, specChunks]
  | cons c rest => exact decChunks_spec (c :: rest) (by simp) hl s ys rs
end Tongo.Tlb.Dns
