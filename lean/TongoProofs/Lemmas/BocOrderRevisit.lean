import TongoProofs.Lemmas.BocOrderArr
/-! `revisit` (boc/boc.go) produces a valid allocation for ANY `special` predicate.

Invariant (DESIGN C01): allocated ⇒ visited ⇒ all children allocated earlier and refs rewritten to their new indices.
`refs0` are the references in import indices as importCell left them; children have smaller import indices. -/
namespace Tongo.Boc.Order

section
variable (n : Nat) (refs0 : Array (List Nat))

/-- the import graph: every child has a smaller import index -/
def Acyc : Prop := ∀ i, i < n → ∀ c ∈ refs0[i]!, c < i

/-- visited (-3) or already allocated -/
def Visited (st : RState) (i : Nat) : Prop := st.newIndex[i]! = -3 ∨ 0 ≤ st.newIndex[i]!

structure Inv (st : RState) : Prop where
  size_ni : st.newIndex.size = n
  size_refs : st.refs.size = n
  out_ok : ∀ k, k < st.out.size → st.out[k]! < n ∧ st.newIndex[st.out[k]!]! = (k : Int)
  ni_ok : ∀ i, i < n → st.newIndex[i]! = -1 ∨ st.newIndex[i]! = -2 ∨ st.newIndex[i]! = -3 ∨
    (0 ≤ st.newIndex[i]! ∧ (st.newIndex[i]!).toNat < st.out.size ∧ st.out[(st.newIndex[i]!).toNat]! = i)
  fresh : ∀ i, i < n → (st.newIndex[i]! = -1 ∨ st.newIndex[i]! = -2) → st.refs[i]! = refs0[i]!
  done : ∀ i, i < n → Visited st i →
    (∀ c ∈ refs0[i]!, 0 ≤ st.newIndex[c]!) ∧ st.refs[i]! = (refs0[i]!).map (fun c => (st.newIndex[c]!).toNat)
  before : ∀ i, i < n → 0 ≤ st.newIndex[i]! → ∀ c ∈ refs0[i]!, st.newIndex[c]! < st.newIndex[i]!

/-- `st'` extends `st`: allocations are permanent, visited cells stay visited -/
structure Ext (st st' : RState) : Prop where
  out_size : st.out.size ≤ st'.out.size
  out_pre : ∀ k, k < st.out.size → st'.out[k]! = st.out[k]!
  alloc : ∀ i, i < n → 0 ≤ st.newIndex[i]! → st'.newIndex[i]! = st.newIndex[i]!
  vis : ∀ i, i < n → Visited st i → Visited st' i

/-- entries at or above `b` are untouched -/
def FrameB (st st' : RState) (b : Nat) : Prop :=
  ∀ j, b ≤ j → st'.newIndex[j]! = st.newIndex[j]! ∧ st'.refs[j]! = st.refs[j]!

theorem Ext.refl (st : RState) : Ext n st st :=
  ⟨Nat.le_refl _, fun _ _ => rfl, fun _ _ _ => rfl, fun _ _ h => h⟩

theorem Ext.trans {a b c : RState} (h1 : Ext n a b) (h2 : Ext n b c) : Ext n a c := by
  refine ⟨Nat.le_trans h1.out_size h2.out_size, ?_, ?_, ?_⟩
  · intro k hk
    rw [h2.out_pre k (Nat.lt_of_lt_of_le hk h1.out_size), h1.out_pre k hk]
  · intro i hi h
    have := h1.alloc i hi h
    rw [h2.alloc i hi (by rw [this]; exact h), this]
  · intro i hi h
    exact h2.vis i hi (h1.vis i hi h)

theorem FrameB.refl (st : RState) (b : Nat) : FrameB st st b := fun _ _ => ⟨rfl, rfl⟩

theorem FrameB.trans {a b c : RState} {x : Nat} (h1 : FrameB a b x) (h2 : FrameB b c x) : FrameB a c x := by
  intro j hj
  obtain ⟨p1, p2⟩ := h1 j hj
  obtain ⟨q1, q2⟩ := h2 j hj
  exact ⟨by rw [q1, p1], by rw [q2, p2]⟩

theorem FrameB.mono {a b : RState} {x y : Nat} (h : FrameB a b x) (hxy : x ≤ y) : FrameB a b y :=
  fun j hj => h j (Nat.le_trans hxy hj)

end

section
variable (n : Nat) (refs0 : Array (List Nat))

theorem Inv.out_ne {st : RState} (h : Inv n refs0 st) {ci : Nat} (hneg : st.newIndex[ci]! < 0) :
    ∀ k, k < st.out.size → st.out[k]! ≠ ci := by
  intro k hk heq
  have := (h.out_ok k hk).2
  rw [heq] at this
  omega

theorem Inv.child_ne {st : RState} (h : Inv n refs0 st) {ci i c : Nat} (hi : i < n) (hv : Visited st i)
    (hc : c ∈ refs0[i]!) (hneg : st.newIndex[ci]! < 0) : c ≠ ci := by
  intro heq
  have := (h.done i hi hv).1 c hc
  rw [heq] at this
  omega

/-- previsit marks an untouched cell -/
theorem mark_previsited {st : RState} (h : Inv n refs0 st) {ci : Nat} (hci : ci < n) (h1 : st.newIndex[ci]! = -1) :
    Inv n refs0 { st with newIndex := st.newIndex.set! ci (-2) } ∧
    Ext n st { st with newIndex := st.newIndex.set! ci (-2) } ∧
    FrameB st { st with newIndex := st.newIndex.set! ci (-2) } (ci + 1) := by
  have hsz : ci < st.newIndex.size := by rw [h.size_ni]; exact hci
  have hneg : st.newIndex[ci]! < 0 := by omega
  have geq : (st.newIndex.set! ci (-2))[ci]! = -2 := get!_set!_eq _ _ _ hsz
  have gne : ∀ j, j ≠ ci → (st.newIndex.set! ci (-2))[j]! = st.newIndex[j]! :=
    fun j hj => get!_set!_ne _ _ _ _ (Ne.symm hj)
  have hvis : ∀ i, Visited { st with newIndex := st.newIndex.set! ci (-2) } i ↔ (i ≠ ci ∧ Visited st i) := by
    intro i
    unfold Visited
    by_cases hi : i = ci
    · subst hi; simp only [geq]; constructor
      · intro h'; omega
      · intro h'; exact absurd rfl h'.1
    · simp only [gne i hi]; exact ⟨fun h' => ⟨hi, h'⟩, fun h' => h'.2⟩
  refine ⟨⟨?_, h.size_refs, ?_, ?_, ?_, ?_, ?_⟩, ⟨Nat.le_refl _, fun _ _ => rfl, ?_, ?_⟩, ?_⟩
  · simp [h.size_ni]
  · intro k hk
    have hne := h.out_ne n refs0 hneg k hk
    obtain ⟨a, b⟩ := h.out_ok k hk
    exact ⟨a, by simp only; rw [gne _ hne]; exact b⟩
  · intro i hi
    by_cases hic : i = ci
    · subst hic; simp only [geq]; simp
    · simp only [gne i hic]; exact h.ni_ok i hi
  · intro i hi hf
    by_cases hic : i = ci
    · subst hic; exact h.fresh i hi (.inl h1)
    · simp only [gne i hic] at hf; exact h.fresh i hi hf
  · intro i hi hv
    obtain ⟨hic, hv'⟩ := (hvis i).1 hv
    obtain ⟨d1, d2⟩ := h.done i hi hv'
    have hcne : ∀ c ∈ refs0[i]!, c ≠ ci := fun c hc => h.child_ne n refs0 hi hv' hc hneg
    refine ⟨fun c hc => by simp only; rw [gne c (hcne c hc)]; exact d1 c hc, ?_⟩
    simp only
    rw [d2]
    apply List.map_congr_left
    intro c hc
    rw [gne c (hcne c hc)]
  · intro i hi h0 c hc
    have hic : i ≠ ci := by
      intro heq; subst heq; simp only [geq] at h0; omega
    simp only [gne i hic] at h0 ⊢
    have hcne := h.child_ne n refs0 hi (.inr h0) hc hneg
    rw [gne c hcne]
    exact h.before i hi h0 c hc
  · intro i hi h0
    have hic : i ≠ ci := by intro heq; subst heq; omega
    exact gne i hic
  · intro i hi hv
    exact (hvis i).2 ⟨by intro heq; subst heq; unfold Visited at hv; omega, hv⟩
  · intro j hj
    exact ⟨gne j (by omega), rfl⟩


/-- visit finishes: all children are allocated, the references are rewritten -/
theorem mark_visited {st : RState} (h : Inv n refs0 st) (hac : Acyc n refs0) {ci : Nat} (hci : ci < n)
    (h12 : st.newIndex[ci]! = -1 ∨ st.newIndex[ci]! = -2) (hch : ∀ c ∈ refs0[ci]!, 0 ≤ st.newIndex[c]!)
    (ks : List Nat) (hks : ks = (refs0[ci]!).map (fun c => (st.newIndex[c]!).toNat)) :
    Inv n refs0 { st with refs := st.refs.set! ci ks, newIndex := st.newIndex.set! ci (-3) } ∧
    Ext n st { st with refs := st.refs.set! ci ks, newIndex := st.newIndex.set! ci (-3) } ∧
    FrameB st { st with refs := st.refs.set! ci ks, newIndex := st.newIndex.set! ci (-3) } (ci + 1) ∧
    Visited { st with refs := st.refs.set! ci ks, newIndex := st.newIndex.set! ci (-3) } ci := by
  have hsz : ci < st.newIndex.size := by rw [h.size_ni]; exact hci
  have hszr : ci < st.refs.size := by rw [h.size_refs]; exact hci
  have hneg : st.newIndex[ci]! < 0 := by omega
  have geq : (st.newIndex.set! ci (-3))[ci]! = -3 := get!_set!_eq _ _ _ hsz
  have gne : ∀ j, j ≠ ci → (st.newIndex.set! ci (-3))[j]! = st.newIndex[j]! :=
    fun j hj => get!_set!_ne _ _ _ _ (Ne.symm hj)
  have req : (st.refs.set! ci ks)[ci]! = ks := get!_set!_eq _ _ _ hszr
  have rne : ∀ j, j ≠ ci → (st.refs.set! ci ks)[j]! = st.refs[j]! :=
    fun j hj => get!_set!_ne _ _ _ _ (Ne.symm hj)
  have hself : ∀ c ∈ refs0[ci]!, c ≠ ci := fun c hc => Nat.ne_of_lt (hac ci hci c hc)
  have hvis : ∀ i, i ≠ ci → (Visited { st with refs := st.refs.set! ci ks, newIndex := st.newIndex.set! ci (-3) } i ↔
      Visited st i) := by
    intro i hi; unfold Visited; simp only [gne i hi]
  have hvci : Visited { st with refs := st.refs.set! ci ks, newIndex := st.newIndex.set! ci (-3) } ci := by
    unfold Visited; simp only [geq]; simp
  refine ⟨⟨?_, ?_, ?_, ?_, ?_, ?_, ?_⟩, ⟨Nat.le_refl _, fun _ _ => rfl, ?_, ?_⟩, ?_, hvci⟩
  · simp [h.size_ni]
  · simp [h.size_refs]
  · intro k hk
    have hne := h.out_ne n refs0 hneg k hk
    obtain ⟨a, b⟩ := h.out_ok k hk
    exact ⟨a, by simp only; rw [gne _ hne]; exact b⟩
  · intro i hi
    by_cases hic : i = ci
    · subst hic; simp only [geq]; simp
    · simp only [gne i hic]; exact h.ni_ok i hi
  · intro i hi hf
    by_cases hic : i = ci
    · subst hic; simp only [geq] at hf; omega
    · simp only [gne i hic] at hf; simp only [rne i hic]; exact h.fresh i hi hf
  · intro i hi hv
    by_cases hic : i = ci
    · subst hic
      refine ⟨fun c hc => by simp only; rw [gne c (hself c hc)]; exact hch c hc, ?_⟩
      simp only
      rw [req, hks]
      apply List.map_congr_left
      intro c hc
      rw [gne c (hself c hc)]
    · have hv' := (hvis i hic).1 hv
      obtain ⟨d1, d2⟩ := h.done i hi hv'
      have hcne : ∀ c ∈ refs0[i]!, c ≠ ci := fun c hc => h.child_ne n refs0 hi hv' hc hneg
      refine ⟨fun c hc => by simp only; rw [gne c (hcne c hc)]; exact d1 c hc, ?_⟩
      simp only [rne i hic]
      rw [d2]
      apply List.map_congr_left
      intro c hc
      rw [gne c (hcne c hc)]
  · intro i hi h0 c hc
    have hic : i ≠ ci := by
      intro heq; subst heq; simp only [geq] at h0; omega
    simp only [gne i hic] at h0 ⊢
    have hcne := h.child_ne n refs0 hi (.inr h0) hc hneg
    rw [gne c hcne]
    exact h.before i hi h0 c hc
  · intro i hi h0
    have hic : i ≠ ci := by intro heq; subst heq; omega
    exact gne i hic
  · intro i hi hv
    by_cases hic : i = ci
    · subst hic; exact hvci
    · exact (hvis i hic).2 hv
  · intro j hj
    exact ⟨gne j (by omega), rne j (by omega)⟩

/-- allocate appends a visited cell -/
theorem mark_allocated {st : RState} (h : Inv n refs0 st) (hac : Acyc n refs0) {ci : Nat} (hci : ci < n)
    (h3 : st.newIndex[ci]! = -3) :
    Inv n refs0 { st with newIndex := st.newIndex.set! ci st.out.size, out := st.out.push ci } ∧
    Ext n st { st with newIndex := st.newIndex.set! ci st.out.size, out := st.out.push ci } ∧
    FrameB st { st with newIndex := st.newIndex.set! ci st.out.size, out := st.out.push ci } (ci + 1) ∧
    ({ st with newIndex := st.newIndex.set! ci st.out.size, out := st.out.push ci } : RState).newIndex[ci]! = st.out.size := by
  have hsz : ci < st.newIndex.size := by rw [h.size_ni]; exact hci
  have hneg : st.newIndex[ci]! < 0 := by omega
  have geq : (st.newIndex.set! ci (st.out.size : Int))[ci]! = st.out.size := get!_set!_eq _ _ _ hsz
  have gne : ∀ j, j ≠ ci → (st.newIndex.set! ci (st.out.size : Int))[j]! = st.newIndex[j]! :=
    fun j hj => get!_set!_ne _ _ _ _ (Ne.symm hj)
  have olt : ∀ k, k < st.out.size → (st.out.push ci)[k]! = st.out[k]! := fun k hk => get!_push_lt _ _ _ hk
  have oeq : (st.out.push ci)[st.out.size]! = ci := get!_push_eq _ _
  have hself : ∀ c ∈ refs0[ci]!, c ≠ ci := fun c hc => Nat.ne_of_lt (hac ci hci c hc)
  have hvci : Visited st ci := .inl h3
  have hvis : ∀ i, i ≠ ci →
      (Visited { st with newIndex := st.newIndex.set! ci st.out.size, out := st.out.push ci } i ↔ Visited st i) := by
    intro i hi; unfold Visited; simp only [gne i hi]
  refine ⟨⟨?_, h.size_refs, ?_, ?_, ?_, ?_, ?_⟩, ⟨?_, ?_, ?_, ?_⟩, ?_, geq⟩
  · simp [h.size_ni]
  · intro k hk
    simp only [Array.size_push] at hk
    by_cases hk' : k < st.out.size
    · have hne := h.out_ne n refs0 hneg k hk'
      obtain ⟨a, b⟩ := h.out_ok k hk'
      simp only [olt k hk']
      exact ⟨a, by rw [gne _ hne]; exact b⟩
    · have : k = st.out.size := by omega
      subst this
      simp only [oeq, geq]
      exact ⟨hci, trivial⟩
  · intro i hi
    by_cases hic : i = ci
    · subst hic
      simp only [geq, Array.size_push, Int.toNat_natCast, oeq]
      right; right; right
      exact ⟨by omega, by omega, trivial⟩
    · simp only [gne i hic, Array.size_push]
      rcases h.ni_ok i hi with a | a | a | ⟨a, b, c⟩
      · exact .inl a
      · exact .inr (.inl a)
      · exact .inr (.inr (.inl a))
      · exact .inr (.inr (.inr ⟨a, by omega, by rw [olt _ b]; exact c⟩))
  · intro i hi hf
    have hic : i ≠ ci := by
      intro heq; subst heq; simp only [geq] at hf; omega
    simp only [gne i hic] at hf
    exact h.fresh i hi hf
  · intro i hi hv
    have hv' : Visited st i := by
      by_cases hic : i = ci
      · subst hic; exact hvci
      · exact (hvis i hic).1 hv
    obtain ⟨d1, d2⟩ := h.done i hi hv'
    have hcne : ∀ c ∈ refs0[i]!, c ≠ ci := fun c hc => h.child_ne n refs0 hi hv' hc hneg
    refine ⟨fun c hc => by simp only; rw [gne c (hcne c hc)]; exact d1 c hc, ?_⟩
    simp only
    rw [d2]
    apply List.map_congr_left
    intro c hc
    rw [gne c (hcne c hc)]
  · intro i hi h0 c hc
    by_cases hic : i = ci
    · subst hic
      simp only [geq]
      have hc0 := (h.done i hi hvci).1 c hc
      rw [gne c (hself c hc)]
      have hcn : c < n := Nat.lt_trans (hac i hi c hc) hi
      rcases h.ni_ok c hcn with a | a | a | ⟨_, b, _⟩ <;> omega
    · simp only [gne i hic] at h0 ⊢
      have hcne := h.child_ne n refs0 hi (.inr h0) hc hneg
      rw [gne c hcne]
      exact h.before i hi h0 c hc
  · simp
  · intro k hk; exact olt k hk
  · intro i hi h0
    have hic : i ≠ ci := by intro heq; subst heq; omega
    exact gne i hic
  · intro i hi hv
    by_cases hic : i = ci
    · subst hic; unfold Visited; simp only [geq]; right; omega
    · exact (hvis i hic).2 hv
  · intro j hj
    exact ⟨gne j (by omega), rfl⟩

end

section
variable (n : Nat) (refs0 : Array (List Nat))

def rank : Mode → Nat
  | .previsit => 1
  | .visit => 2
  | .allocate => 1

/-- what a call of revisit with enough fuel guarantees -/
def RecSpec (f : Nat) (rec : RState → Nat → Mode → Option (RState × Int)) : Prop :=
  ∀ st ci force, Inv n refs0 st → ci < n → 2 * ci + rank force ≤ f → (force = .allocate → Visited st ci) →
    ∃ st' r, rec st ci force = some (st', r) ∧ Inv n refs0 st' ∧ Ext n st st' ∧ FrameB st st' (ci + 1) ∧
      (force = .visit → Visited st' ci) ∧
      (force = .allocate → 0 ≤ st'.newIndex[ci]! ∧ r = st'.newIndex[ci]!) ∧
      (force = .previsit → st'.refs[ci]! = st.refs[ci]! ∧
        (st'.newIndex[ci]! = st.newIndex[ci]! ∨ (st.newIndex[ci]! = -1 ∧ st'.newIndex[ci]! = -2)))

theorem each_spec {f : Nat} {rec : RState → Nat → Mode → Option (RState × Int)} (hrec : RecSpec n refs0 f rec)
    (mode : Nat → Mode) (b : Nat) (l : List Nat) (st : RState) (hinv : Inv n refs0 st)
    (hl : ∀ c ∈ l, c < n ∧ c < b ∧ 2 * c + rank (mode c) ≤ f ∧ mode c ≠ .allocate) :
    ∃ st', revisitEach rec mode l st = some st' ∧ Inv n refs0 st' ∧ Ext n st st' ∧ FrameB st st' b ∧
      ∀ c ∈ l, mode c = .visit → Visited st' c := by
  induction l generalizing st with
  | nil => exact ⟨st, rfl, hinv, Ext.refl n st, FrameB.refl st b, by simp⟩
  | cons c cs ih =>
    obtain ⟨hcn, hcb, hcf, hcm⟩ := hl c (by simp)
    obtain ⟨st1, r, h1, hi1, he1, hf1, hv1, _, _⟩ := hrec st c (mode c) hinv hcn hcf (fun h => absurd h hcm)
    obtain ⟨st2, h2, hi2, he2, hf2, hv2⟩ := ih st1 hi1 (fun x hx => hl x (by simp [hx]))
    refine ⟨st2, ?_, hi2, he1.trans n he2, (hf1.mono (by omega)).trans hf2, ?_⟩
    · simp only [revisitEach, h1, h2]
    · intro x hx hm
      rcases List.mem_cons.1 hx with rfl | hx
      · exact he2.vis x hcn (hv1 hm)
      · exact hv2 x hx hm

theorem alloc_spec {f : Nat} {rec : RState → Nat → Mode → Option (RState × Int)} (hrec : RecSpec n refs0 f rec)
    (b : Nat) (l : List Nat) (st : RState) (hinv : Inv n refs0 st)
    (hl : ∀ c ∈ l, c < n ∧ c < b ∧ 2 * c + 1 ≤ f ∧ Visited st c) :
    ∃ st' ks, allocEach rec l st = some (st', ks) ∧ Inv n refs0 st' ∧ Ext n st st' ∧ FrameB st st' b ∧
      (∀ c ∈ l, 0 ≤ st'.newIndex[c]!) ∧ ks = l.map (fun c => (st'.newIndex[c]!).toNat) := by
  induction l generalizing st with
  | nil => exact ⟨st, [], rfl, hinv, Ext.refl n st, FrameB.refl st b, by simp, rfl⟩
  | cons c cs ih =>
    obtain ⟨hcn, hcb, hcf, hcv⟩ := hl c (by simp)
    obtain ⟨st1, r, h1, hi1, he1, hf1, _, ha1, _⟩ := hrec st c .allocate hinv hcn hcf (fun _ => hcv)
    obtain ⟨h0, hr⟩ := ha1 rfl
    obtain ⟨st2, ks, h2, hi2, he2, hf2, hall2, hks2⟩ := ih st1 hi1 (fun x hx => by
      obtain ⟨a, b', c', d⟩ := hl x (by simp [hx])
      exact ⟨a, b', c', he1.vis x a d⟩)
    have hkeep : st2.newIndex[c]! = st1.newIndex[c]! := he2.alloc c hcn h0
    refine ⟨st2, r.toNat :: ks, ?_, hi2, he1.trans n he2, (hf1.mono (by omega)).trans hf2, ?_, ?_⟩
    · simp only [allocEach, h1, h2]
    · intro x hx
      rcases List.mem_cons.1 hx with rfl | hx
      · rw [hkeep]; exact h0
      · exact hall2 x hx
    · simp only [List.map_cons, hks2, hkeep, hr]


theorem step_spec (special : Nat → Bool) (hac : Acyc n refs0) {f : Nat}
    {rec : RState → Nat → Mode → Option (RState × Int)} (hrec : RecSpec n refs0 f rec) :
    RecSpec n refs0 (f + 1) (revisitStep special rec) := by
  intro st ci force hinv hci hfuel halloc
  unfold revisitStep
  simp only
  by_cases hge : 0 ≤ st.newIndex[ci]!
  · -- already allocated
    simp only [ge_iff_le, hge, if_true]
    exact ⟨st, _, rfl, hinv, Ext.refl n st, FrameB.refl st _, fun _ => .inr hge, fun _ => ⟨hge, rfl⟩,
      fun _ => ⟨rfl, .inl rfl⟩⟩
  · simp only [ge_iff_le, hge, if_false]
    have hneg : st.newIndex[ci]! < 0 := by omega
    have hchild : ∀ c ∈ refs0[ci]!, c < n ∧ c < ci := fun c hc =>
      ⟨Nat.lt_trans (hac ci hci c hc) hci, hac ci hci c hc⟩
    cases force with
    | previsit =>
      simp only
      by_cases h1 : st.newIndex[ci]! = -1
      · simp only [h1, ne_eq, not_true_eq_false, if_false]
        have hfr := hinv.fresh ci hci (.inl h1)
        rw [hfr]
        obtain ⟨st', he, hi', hext, hfrm, _⟩ := each_spec n refs0 hrec
          (fun c => if special c then Mode.visit else Mode.previsit) ci (refs0[ci]!).reverse st hinv (by
            intro c hc
            obtain ⟨a, b⟩ := hchild c (List.mem_reverse.1 hc)
            refine ⟨a, b, ?_, ?_⟩
            · simp only [rank] at hfuel
              split <;> simp only [rank] <;> omega
            · split <;> simp)
        rw [he]
        simp only
        obtain ⟨k1, k2⟩ := hfrm ci (Nat.le_refl _)
        have h1' : st'.newIndex[ci]! = -1 := by rw [k1, h1]
        obtain ⟨m1, m2, m3⟩ := mark_previsited n refs0 hi' hci h1'
        refine ⟨_, _, rfl, m1, hext.trans n m2, (hfrm.mono (by omega)).trans m3, fun h => Mode.noConfusion h,
          fun h => Mode.noConfusion h, fun _ => ⟨k2.trans hfr, .inr ⟨trivial, ?_⟩⟩⟩
        exact get!_set!_eq _ _ _ (by rw [hi'.size_ni]; exact hci)
      · simp only [ne_eq, h1, not_false_eq_true, if_true]
        exact ⟨st, _, rfl, hinv, Ext.refl n st, FrameB.refl st _, fun h => Mode.noConfusion h, fun h => Mode.noConfusion h,
          fun _ => ⟨rfl, .inl rfl⟩⟩
    | allocate =>
      simp only
      have hv := halloc rfl
      have h3 : st.newIndex[ci]! = -3 := by
        rcases hv with a | a
        · exact a
        · omega
      obtain ⟨m1, m2, m3, m4⟩ := mark_allocated n refs0 hinv hac hci h3
      refine ⟨_, _, rfl, m1, m2, m3, fun h => Mode.noConfusion h, fun _ => ⟨by rw [m4]; omega, m4.symm⟩, fun h => Mode.noConfusion h⟩
    | visit =>
      simp only
      by_cases h3 : st.newIndex[ci]! = -3
      · simp only [h3, if_true]
        exact ⟨st, _, rfl, hinv, Ext.refl n st, FrameB.refl st _, fun _ => .inl h3, fun h => Mode.noConfusion h,
          fun h => Mode.noConfusion h⟩
      · simp only [h3, if_false]
        have h12 : st.newIndex[ci]! = -1 ∨ st.newIndex[ci]! = -2 := by
          rcases hinv.ni_ok ci hci with a | a | a | ⟨a, _⟩
          · exact .inl a
          · exact .inr a
          · exact absurd a h3
          · omega
        simp only [rank] at hfuel
        -- the previsit of a special cell
        have hpre : ∃ st1, (if special ci = true then (rec st ci Mode.previsit).map (·.1) else some st) = some st1 ∧
            Inv n refs0 st1 ∧ Ext n st st1 ∧ FrameB st st1 (ci + 1) ∧
            (st1.newIndex[ci]! = -1 ∨ st1.newIndex[ci]! = -2) := by
          by_cases hs : special ci = true
          · obtain ⟨st1, r, e1, i1, x1, f1, _, _, p1⟩ := hrec st ci .previsit hinv hci (by simp only [rank]; omega)
              (fun h => Mode.noConfusion h)
            obtain ⟨_, p12⟩ := p1 rfl
            refine ⟨st1, by simp [hs, e1], i1, x1, f1, ?_⟩
            rcases p12 with a | ⟨_, a⟩
            · rw [a]; exact h12
            · exact .inr a
          · exact ⟨st, by simp [hs], hinv, Ext.refl n st, FrameB.refl st _, h12⟩
        obtain ⟨st1, e1, i1, x1, f1, h12'⟩ := hpre
        rw [e1]
        simp only
        have hfr := i1.fresh ci hci h12'
        rw [hfr]
        obtain ⟨st2, e2, i2, x2, f2, v2⟩ := each_spec n refs0 hrec (fun _ => Mode.visit) ci (refs0[ci]!).reverse st1 i1
          (by
            intro c hc
            obtain ⟨a, b⟩ := hchild c (List.mem_reverse.1 hc)
            exact ⟨a, b, by simp only [rank]; omega, by simp⟩)
        rw [e2]
        simp only
        obtain ⟨st3, ks, e3, i3, x3, f3, a3, hks⟩ := alloc_spec n refs0 hrec ci (refs0[ci]!).reverse st2 i2 (by
          intro c hc
          obtain ⟨a, b⟩ := hchild c (List.mem_reverse.1 hc)
          exact ⟨a, b, by omega, v2 c hc rfl⟩)
        rw [e3]
        simp only
        have hci3 : st3.newIndex[ci]! = st1.newIndex[ci]! := by
          rw [(f3 ci (Nat.le_refl _)).1, (f2 ci (Nat.le_refl _)).1]
        have h12'' : st3.newIndex[ci]! = -1 ∨ st3.newIndex[ci]! = -2 := by rw [hci3]; exact h12'
        obtain ⟨m1, m2, m3, m4⟩ := mark_visited n refs0 i3 hac hci h12''
          (fun c hc => a3 c (List.mem_reverse.2 hc)) ks.reverse (by
            rw [hks, ← List.map_reverse, List.reverse_reverse])
        refine ⟨_, _, rfl, m1, ((x1.trans n x2).trans n x3).trans n m2, ?_, fun _ => m4, fun h => Mode.noConfusion h,
          fun h => Mode.noConfusion h⟩
        exact ((f1.trans (f2.mono (by omega))).trans (f3.mono (by omega))).trans m3

theorem revisit_spec (special : Nat → Bool) (hac : Acyc n refs0) :
    ∀ f, RecSpec n refs0 f (revisit special f) := by
  intro f
  induction f with
  | zero =>
    intro st ci force _ _ hf _
    cases force <;> simp [rank] at hf
  | succ f ih => exact step_spec n refs0 special hac ih

end

section
variable (n : Nat) (refs0 : Array (List Nat))

theorem inv_init (hsz : refs0.size = n) :
    Inv n refs0 { newIndex := Array.replicate n (-1), refs := refs0, out := #[] } := by
  have g : ∀ i, i < n → (Array.replicate n (-1 : Int))[i]! = -1 := fun i hi => get!_replicate n _ i hi
  refine ⟨by simp, hsz, ?_, ?_, ?_, ?_, ?_⟩
  · intro k hk; simp at hk
  · intro i hi; exact .inl (g i hi)
  · intro i _ _; rfl
  · intro i hi hv
    unfold Visited at hv
    simp only [g i hi] at hv
    omega
  · intro i hi h0
    simp only [g i hi] at h0
    omega

theorem visitRoots_spec (special : Nat → Bool) (hac : Acyc n refs0) (roots : List Nat) (hr : ∀ r ∈ roots, r < n)
    (st : RState) (hinv : Inv n refs0 st) :
    ∃ st', visitRoots special (2 * n + 3) roots st = some st' ∧ Inv n refs0 st' ∧ Ext n st st' ∧
      ∀ r ∈ roots, Visited st' r := by
  induction roots generalizing st with
  | nil => exact ⟨st, rfl, hinv, Ext.refl n st, by simp⟩
  | cons r rs ih =>
    have hrn := hr r (by simp)
    obtain ⟨st1, _, e1, i1, x1, _⟩ := revisit_spec n refs0 special hac (2 * n + 3) st r .previsit hinv hrn
      (by simp only [rank]; omega) (fun h => Mode.noConfusion h)
    obtain ⟨st2, _, e2, i2, x2, _, v2, _⟩ := revisit_spec n refs0 special hac (2 * n + 3) st1 r .visit i1 hrn
      (by simp only [rank]; omega) (fun h => Mode.noConfusion h)
    obtain ⟨st3, e3, i3, x3, v3⟩ := ih (fun x hx => hr x (by simp [hx])) st2 i2
    refine ⟨st3, by simp only [visitRoots, e1, e2, e3], i3, (x1.trans n x2).trans n x3, ?_⟩
    intro x hx
    rcases List.mem_cons.1 hx with rfl | hx
    · exact x3.vis x hrn (v2 rfl)
    · exact v3 x hx

theorem allocRoots_spec (special : Nat → Bool) (hac : Acyc n refs0) (roots : List Nat)
    (st : RState) (hinv : Inv n refs0 st) (hr : ∀ r ∈ roots, r < n ∧ Visited st r) :
    ∃ st', allocRoots special (2 * n + 3) roots st = some st' ∧ Inv n refs0 st' ∧ Ext n st st' ∧
      ∀ r ∈ roots, 0 ≤ st'.newIndex[r]! := by
  induction roots generalizing st with
  | nil => exact ⟨st, rfl, hinv, Ext.refl n st, by simp⟩
  | cons r rs ih =>
    obtain ⟨hrn, hrv⟩ := hr r (by simp)
    obtain ⟨st1, _, e1, i1, x1, _, _, a1, _⟩ := revisit_spec n refs0 special hac (2 * n + 3) st r .allocate hinv hrn
      (by simp only [rank]; omega) (fun _ => hrv)
    obtain ⟨h0, _⟩ := a1 rfl
    obtain ⟨st2, e2, i2, x2, a2⟩ := ih st1 i1 (fun x hx => by
      obtain ⟨a, b⟩ := hr x (by simp [hx]); exact ⟨a, x1.vis x a b⟩)
    refine ⟨st2, by simp only [allocRoots, e1, e2], i2, x1.trans n x2, ?_⟩
    intro x hx
    rcases List.mem_cons.1 hx with rfl | hx
    · rw [x2.alloc x hrn h0]; exact h0
    · exact a2 x hx

/-- reorderCells (revisit part): for any `special` the result satisfies the invariant and all roots are allocated -/
theorem reorder_spec (special : Nat → Bool) (hsz : refs0.size = n) (hac : Acyc n refs0) (roots : List Nat)
    (hr : ∀ r ∈ roots, r < n) :
    ∃ st, reorder special refs0 roots = some st ∧ Inv n refs0 st ∧ ∀ r ∈ roots, 0 ≤ st.newIndex[r]! := by
  unfold reorder
  simp only [hsz]
  have h0 := inv_init n refs0 hsz
  by_cases hn : n = 0
  · simp only [hn, if_true]
    refine ⟨_, rfl, by rw [hn] at h0; exact h0, ?_⟩
    intro r hr'; have := hr r hr'; omega
  · simp only [hn, if_false]
    obtain ⟨st1, e1, i1, _, v1⟩ := visitRoots_spec n refs0 special hac roots hr _ h0
    obtain ⟨st2, e2, i2, _, a2⟩ := allocRoots_spec n refs0 special hac roots st1 i1 (fun r hr' => ⟨hr r hr', v1 r hr'⟩)
    exact ⟨st2, by rw [e1]; simp only [e2], i2, a2⟩

end

end Tongo.Boc.Order
