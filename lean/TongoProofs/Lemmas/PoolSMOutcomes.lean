import TongoProofs.Lemmas.PoolSM
/-! Invariants of `PoolSM` about what waiters receive (helper lemmas for C13): outcomes, provenance of heads, the
ghost log, no head offered to a waiter is lost (repaired notifySubscribers). -/
namespace Tongo.PoolSM

attribute [local grind =] List.mem_filter List.mem_append List.mem_map List.mem_cons
attribute [local grind →] List.mem_of_mem_erase

theorem mem_cons_self' {α} (a : α) (l : List α) : a ∈ a :: l := List.mem_cons_self
grind_pattern mem_cons_self' => a :: l

/-! ### Group CL: the repaired SetMasterHead never holds a connection mutex across a step -/

def NoConnLock (s : State) : Prop := ∀ (c j : Nat), s.connLock[c]? ≠ some (some j)

theorem connFree_of_noConnLock {s : State} (h : NoConnLock s) (c : Nat) : connFree s c = true := by
  unfold connFree
  rw [List.getD_eq_getElem?_getD]
  cases hc : s.connLock[c]? with
  | none => rfl
  | some o => cases o with
    | none => rfl
    | some j => exact absurd hc (h c j)

theorem noConnLock_step {v s a s'} (hv : v.pubUnlocked = true) (h : NoConnLock s)
    (hs : step v s a = some s') : NoConnLock s' := by
  unfold NoConnLock at *
  cases a <;> step_cases hs <;> grind [State.setW, State.setS, RunPc.lockW, RunPc.lockR]

theorem noConnLock_init (heads best targets pubs st rtts) : NoConnLock (mkInit heads best targets pubs st rtts) := by
  intro c j
  simp only [mkInit, List.getElem?_map]
  cases heads[c]? <;> simp

theorem reachable_connFree {v s} (hv : v.pubUnlocked = true) (h : Reachable v s) : ∀ c, connFree s c = true := by
  have : NoConnLock s := by
    induction h with
    | init heads best targets pubs st rtts hp hh hb => exact noConnLock_init heads best targets pubs st rtts
    | step _ hs ih => exact noConnLock_step hv ih hs
  exact connFree_of_noConnLock this

/-! ### Group O: outcomes and provenance -/

structure InvO (s : State) : Prop where
  okGot : ∀ (i : Nat) (w : Waiter), s.waiters[i]? = some w → (w.pc = .leave .ok ∨ w.pc = .done .ok) →
    ∃ h ∈ w.received, w.target ≤ h
  errFired : ∀ (i : Nat) (w : Waiter), s.waiters[i]? = some w → (w.pc = .leave .err ∨ w.pc = .done .err) →
    w.fired = true
  noLeavePanic : ∀ (i : Nat) (w : Waiter), s.waiters[i]? = some w → w.pc ≠ .leave .panic
  selLow : ∀ (i : Nat) (w : Waiter), s.waiters[i]? = some w → w.pc = .sel → ∀ h ∈ w.received, h < w.target
  prov : ∀ (i : Nat) (w : Waiter), s.waiters[i]? = some w → ∀ h, (h ∈ w.buf ∨ h ∈ w.received) →
    ∃ c, (i, c, h) ∈ s.log
  provPut : ∀ sw h h' w todo, s.run = .nPut sw h h' w todo → ∃ c, (w, c, h') ∈ s.log

theorem invO_okGot {v s a s'} (hA : InvA s) (h : InvO s) (hs : step v s a = some s') :
    ∀ (i : Nat) (w : Waiter), s'.waiters[i]? = some w → (w.pc = .leave .ok ∨ w.pc = .done .ok) →
    ∃ h ∈ w.received, w.target ≤ h := by
  obtain ⟨okGot, errFired, noLeavePanic, selLow, prov, provPut⟩ := h
  have fresh := hA.fresh
  cases a <;> step_cases hs <;> grind [State.setW, State.setS, RunPc.lockW, RunPc.lockR]

theorem invO_errFired {v s a s'} (h : InvO s) (hs : step v s a = some s') :
    ∀ (i : Nat) (w : Waiter), s'.waiters[i]? = some w → (w.pc = .leave .err ∨ w.pc = .done .err) →
    w.fired = true := by
  obtain ⟨okGot, errFired, noLeavePanic, selLow, prov, provPut⟩ := h
  cases a <;> step_cases hs <;> grind [State.setW, State.setS, RunPc.lockW, RunPc.lockR]

theorem invO_noLeavePanic {v s a s'} (h : InvO s) (hs : step v s a = some s') :
    ∀ (i : Nat) (w : Waiter), s'.waiters[i]? = some w → w.pc ≠ .leave .panic := by
  obtain ⟨okGot, errFired, noLeavePanic, selLow, prov, provPut⟩ := h
  cases a <;> step_cases hs <;> grind [State.setW, State.setS, RunPc.lockW, RunPc.lockR]

theorem invO_selLow {v s a s'} (hA : InvA s) (h : InvO s) (hs : step v s a = some s') :
    ∀ (i : Nat) (w : Waiter), s'.waiters[i]? = some w → w.pc = .sel → ∀ h ∈ w.received, h < w.target := by
  obtain ⟨okGot, errFired, noLeavePanic, selLow, prov, provPut⟩ := h
  have fresh := hA.fresh
  cases a <;> step_cases hs <;> grind [State.setW, State.setS, RunPc.lockW, RunPc.lockR]

theorem invO_prov {v s a s'} (hA : InvA s) (h : InvO s) (hs : step v s a = some s') :
    ∀ (i : Nat) (w : Waiter), s'.waiters[i]? = some w → ∀ h, (h ∈ w.buf ∨ h ∈ w.received) →
    ∃ c, (i, c, h) ∈ s'.log := by
  obtain ⟨okGot, errFired, noLeavePanic, selLow, prov, provPut⟩ := h
  have fresh := hA.fresh
  cases a <;> step_cases hs <;> grind [State.setW, State.setS, RunPc.lockW, RunPc.lockR]

theorem invO_provPut {v s a s'} (h : InvO s) (hs : step v s a = some s') :
    ∀ sw h h' w todo, s'.run = .nPut sw h h' w todo → ∃ c, (w, c, h') ∈ s'.log := by
  obtain ⟨okGot, errFired, noLeavePanic, selLow, prov, provPut⟩ := h
  cases a <;> step_cases hs <;> grind [State.setW, State.setS, RunPc.lockW, RunPc.lockR]

theorem invO_step {v s a s'} (hA : InvA s) (h : InvO s) (hs : step v s a = some s') : InvO s' :=
  ⟨invO_okGot hA h hs, invO_errFired h hs, invO_noLeavePanic h hs, invO_selLow hA h hs, invO_prov hA h hs,
   invO_provPut h hs⟩

theorem invO_init (heads best targets pubs st rtts) : InvO (mkInit heads best targets pubs st rtts) := by
  constructor
  · intro i w h hp; have := mkInit_waiter h; simp [this.1] at hp
  · intro i w h hp; have := mkInit_waiter h; simp [this.1] at hp
  · intro i w h; have := mkInit_waiter h; simp [this.1]
  · intro i w h hp; have := mkInit_waiter h; simp [this.1] at hp
  · intro i w h x hx; have := mkInit_waiter h; simp [this] at hx
  · intro sw h h' w todo hr; simp [mkInit] at hr

theorem reachable_invO {v s} (h : Reachable v s) : InvO s := by
  induction h with
  | init heads best targets pubs st rtts hp hh hb => exact invO_init ..
  | step hr hs ih => exact invO_step (reachable_invA hr) ih hs

end Tongo.PoolSM
