import TongoGen.CellDesc
import TongoGen.BocHeader
import TongoGen.MinBits
import TongoModel.Cell
import TongoModel.Boc
import TongoModel.PoolSelect
import TongoProofs.Lemmas.MinBitsGen
/-! Ties ("gen = model") between the definitions REGENERATED on every run by translator X4 (`TongoGen/CellDesc.lean`,
`TongoGen/BocHeader.lean`, `TongoGen/MinBits.lean`, Go integers as `BitVec n`) and the hand
models on `Nat`/`UInt8` used by the property theorems (`TongoModel/Cell.lean`, `Boc.lean`, `PoolSelect.lean`,
`BitString.lean`). A change to the Go source changes the regenerated file and breaks the corresponding equation.
The property files C02, C06, C07, C13 restate these theorems. Core Lean only, kernel-checked. -/
namespace Tongo.GenTies
open Tongo

/-- boc/cell.go `d1` regenerated (`byte(cell.RefsSize() + specBit + 32*int(mask))` on 64-bit `int`, `mask` a 32-bit
`levelMask`) is the model's descriptor byte `Tongo.d1`. The range hypotheses record where the Go values live; the
equation needs none of them because truncation to a byte commutes with 64-bit wrap-around (256 ∣ 2⁶⁴, 256 ∣ 32·2³²). -/
theorem gen_d1 (nrefs mask : Nat) (exotic : Bool) (_hn : nrefs < 2^62) (_hm : mask < 2^32) :
    Gen.CellDesc.d1 (BitVec.ofNat 32 mask) (BitVec.ofNat 64 nrefs) exotic = (Tongo.d1 nrefs exotic mask).toBitVec := by
  apply BitVec.eq_of_toNat_eq
  cases exotic <;>
    simp [Gen.CellDesc.d1, Tongo.d1, UInt8.toBitVec_ofNat', BitVec.toNat_add, BitVec.toNat_mul, BitVec.toNat_setWidth,
      BitVec.toNat_ofNat] <;> omega

/-- Go's signed `x / 8` (`BitVec.sdiv`) is `Nat` division on a non-negative `int` (sign bit clear) -/
theorem sdiv8 (x : BitVec 64) (h : x.toNat < 2^63) : (BitVec.sdiv x 8#64).toNat = x.toNat / 8 := by
  have hm : x.msb = false := by
    rw [BitVec.msb_eq_decide]; simp; omega
  have h8 : (8#64 : BitVec 64).msb = false := by decide
  simp [BitVec.sdiv, hm, h8]

/-- boc/cell.go `d2` regenerated (`byte((BitSize()+7)/8 + BitSize()/8)`, signed 64-bit division) is the model's
descriptor byte `Tongo.d2` for every bit length below 2⁶² (no overflow of `+7`, operands non-negative). -/
theorem gen_d2 (bitLen : Nat) (h : bitLen < 2^62) :
    Gen.CellDesc.d2 (BitVec.ofNat 64 bitLen) = (Tongo.d2 bitLen).toBitVec := by
  apply BitVec.eq_of_toNat_eq
  have h1 : (BitVec.ofNat 64 bitLen).toNat = bitLen := by simp; omega
  have h2 : (BitVec.ofNat 64 bitLen + 7#64).toNat = bitLen + 7 := by simp [BitVec.toNat_add]; omega
  simp only [Gen.CellDesc.d2, Tongo.d2, BitVec.toNat_setWidth, BitVec.toNat_add]
  rw [sdiv8 _ (by omega), sdiv8 _ (by omega), h1, h2]
  simp

/-- one iteration of the loop of boc/boc.go `readNBytesUIntFromArray`, regenerated (`res *= 256; res += uint(arr[i])`
on `uint`), is the step `(res * 256 + b) % 2⁶⁴` of the model `Boc.readN`. -/
theorem gen_readNBytesStep (res : Nat) (b : UInt8) (_h : res < 2^64) :
    (Gen.BocHeader.readNBytesStep (BitVec.ofNat 64 res) b.toBitVec).toNat = (res * 256 + b.toNat) % Boc.two64 := by
  have hb : b.toNat < 256 := b.toNat_lt
  simp [Gen.BocHeader.readNBytesStep, BitVec.toNat_add, BitVec.toNat_mul, BitVec.toNat_setWidth, Boc.two64]

/-- `Boc.readN` from a 64-bit accumulator is the left fold of the regenerated step over the first `n` bytes -/
theorem readN_fold (n : Nat) : ∀ (bs : Boc.Bytes) (r : BitVec 64), n ≤ bs.length →
    Boc.readN n bs r.toNat =
      .ok ((bs.take n).foldl (fun r b => Gen.BocHeader.readNBytesStep r b.toBitVec) r).toNat := by
  induction n with
  | zero => intro bs r _; simp [Boc.readN]
  | succ n ih =>
    intro bs r hl
    cases bs with
    | nil => simp at hl
    | cons b rest =>
      have hs := gen_readNBytesStep r.toNat b r.isLt
      rw [BitVec.ofNat_toNat, BitVec.setWidth_eq] at hs
      simp only [Boc.readN, List.take_succ_cons, List.foldl_cons]
      rw [← hs]
      exact ih rest _ (by simpa using hl)

/-- the model `Boc.readN n bs res` (Go: `readNBytesUIntFromArray(n, arr)`, accumulator `res < 2⁶⁴`), when the `n`
bytes are there, succeeds with the fold of the REGENERATED loop body over `bs[0:n]`: the Go loop is that fold. -/
theorem gen_readN (n : Nat) (bs : Boc.Bytes) (res : Nat) (h : res < 2^64) (hl : n ≤ bs.length) :
    Boc.readN n bs res =
      .ok ((bs.take n).foldl (fun r b => Gen.BocHeader.readNBytesStep r b.toBitVec) (BitVec.ofNat 64 res)).toNat := by
  have := readN_fold n bs (BitVec.ofNat 64 res) hl
  rwa [BitVec.toNat_ofNat, Nat.mod_eq_of_lt h] at this

/-- the 256 flag bytes, by kernel evaluation -/
theorem flagByte_bv : ∀ fb : BitVec 8, Boc.headerKind Boc.magicGeneric ⟨fb⟩ =
    some ⟨(Gen.BocHeader.flagByte fb).1, (Gen.BocHeader.flagByte fb).2.1, (Gen.BocHeader.flagByte fb).2.2.1,
      (Gen.BocHeader.flagByte fb).2.2.2.1.toNat, (Gen.BocHeader.flagByte fb).2.2.2.2.toNat, true⟩ := by
  decide +kernel

/-- the decoding of the flag byte after the generic magic `b5ee9c72` in boc/boc.go `parseBocHeader`, regenerated
(`hasIdx`, `hashCrc32`, `hasCacheBits`, `flags`, `sizeBytes`), is what the model `Boc.headerKind Boc.magicGeneric`
returns, for every byte (256 cases). -/
theorem gen_flagByte (fb : UInt8) : Boc.headerKind Boc.magicGeneric fb =
    some ⟨(Gen.BocHeader.flagByte fb.toBitVec).1, (Gen.BocHeader.flagByte fb.toBitVec).2.1,
      (Gen.BocHeader.flagByte fb.toBitVec).2.2.1, (Gen.BocHeader.flagByte fb.toBitVec).2.2.2.1.toNat,
      (Gen.BocHeader.flagByte fb.toBitVec).2.2.2.2.toNat, true⟩ :=
  flagByte_bv fb.toBitVec

/-- boc/bitString.go, regenerated width computation of `ReadLimUint(n)` (`ln := minBitsRequired(uint64(n))`) is the
model's `minBitsRequired` -/
theorem gen_readLimUintWidth (n : BitVec 64) :
    (Gen.MinBits.readLimUintWidth n).toNat = Tongo.BitString.minBitsRequired n.toNat :=
  Tongo.BitString.gen_minBitsRequired_eq n

/-- boc/bitString.go, regenerated width computation of `WriteLimUint(val, n)` is the model's `minBitsRequired` -/
theorem gen_writeLimUintWidth (n : BitVec 64) :
    (Gen.MinBits.writeLimUintWidth n).toNat = Tongo.BitString.minBitsRequired n.toNat :=
  Tongo.BitString.gen_minBitsRequired_eq n

/-- the model's `ReadLimUint(n)` is `ReadUint` of the REGENERATED width, for every `uint64` n -/
theorem readLimUint_eq (n : Nat) (h : n < 2^64) :
    Tongo.BitString.readLimUint n =
      Tongo.BitString.readUint (Gen.MinBits.readLimUintWidth (BitVec.ofNat 64 n)).toNat := by
  rw [gen_readLimUintWidth, BitVec.toNat_ofNat, Nat.mod_eq_of_lt h]; rfl

/-- the model's `WriteLimUint(val, n)` is `WriteUint(val, ·)` of the REGENERATED width, for every `uint64` n -/
theorem writeLimUint_eq (val n : Nat) (h : n < 2^64) :
    Tongo.BitString.writeLimUint val n =
      Tongo.BitString.writeUint val (Gen.MinBits.writeLimUintWidth (BitVec.ofNat 64 n)).toNat := by
  rw [gen_writeLimUintWidth, BitVec.toNat_ofNat, Nat.mod_eq_of_lt h]; rfl

end Tongo.GenTies
