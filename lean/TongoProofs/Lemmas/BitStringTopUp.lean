import TongoProofs.Lemmas.BitStringCanon
import TongoProofs.Lemmas.BitStringMisc
/-! Topped-up arrays (data bytes with completion tag): `GetTopUppedArray`, `SetTopUppedArray`, and the repaired
`Cell.setTopUppedArray`. Helper lemmas only. -/
namespace Tongo.BitString
open Tongo.Bits

theorem addTag_length_mod (l : List Bool) : (addTag l).length % 8 = 0 := by
  unfold addTag; split
  · assumption
  · simp; omega

theorem bytesToBits_toppedUp (l : List Bool) : bytesToBits (toppedUp l) = addTag l := by
  have h := addTag_length_mod l
  exact bytesToBits_bitsToBytes ((addTag l).length / 8) _ (by omega)

/-- `GetTopUppedArray()` when the completion tag fits into the capacity: the canonical topped-up bytes of the bits -/
theorem getTopUppedArray_eq (s : BitString) (hi : Inv s) (hroom : (s.len + 7) / 8 * 8 ≤ s.cap) :
    getTopUppedArray s = .ok (toppedUp (abs s)) := by
  have hic : Inv (copy s) := by
    obtain ⟨a1, a2, a3, a4⟩ := hi
    exact ⟨a1, a2, Nat.zero_le _, a4⟩
  have hac : abs (copy s) = abs s := rfl
  have hal := hi.abs_length
  unfold getTopUppedArray
  simp only [bind_run, get_run, ite_run]
  by_cases htu : (copy s).len % 8 = 0
  · have h0 : ¬ ((copy s).len + 7) / 8 * 8 - (copy s).len > 0 := by omega
    simp only [h0, if_false, pure_run]
    have hn : ¬ ((copy s).len + 7) / 8 > (copy s).buf.length := by have := hic.len_le_buf; omega
    simp only [hn, if_false]
    rw [buf_take_eq_bitsToBytes (copy s) hic, hac, toppedUp, addTag, hal]
    have : s.len % 8 = 0 := htu
    simp [this]
  · have h0 : ((copy s).len + 7) / 8 * 8 - (copy s).len > 0 := by omega
    have hcl : (copy s).len = s.len := rfl
    have hcc : (copy s).cap = s.cap := rfl
    obtain ⟨s1, hw1, ha1, hi1, hc1, _, hl1, _⟩ := writeBit_ok true (copy s) hic (by omega)
    obtain ⟨s2, hw2, ha2, hi2, hc2, _⟩ := writeBitArray_spec
      (List.replicate (((copy s).len + 7) / 8 * 8 - (copy s).len - 1) false) s1 hi1
    have hfit : s1.len + (List.replicate (((copy s).len + 7) / 8 * 8 - (copy s).len - 1) false).length ≤ s1.cap := by
      rw [List.length_replicate, hc1, hl1, hcl, hcc]; omega
    simp only [hfit, if_true] at hw2
    rw [List.take_of_length_le (by omega)] at ha2
    rw [← writeZeros_eq] at hw2
    simp only [h0, if_true, hw1, hw2]
    have hl' : s2.len = (s.len + 7) / 8 * 8 := by
      have := hi2.abs_length
      rw [ha2, ha1, hac, List.length_append, List.length_append, hal] at this
      simp at this; omega
    have hn : ¬ (s2.len + 7) / 8 > s2.buf.length := by have := hi2.len_le_buf; omega
    simp only [hn, if_false, pure_run]
    rw [buf_take_eq_bitsToBytes s2 hi2, ha2, ha1, hac, toppedUp, addTag, hal]
    have hne : ¬ s.len % 8 = 0 := htu
    simp only [hne, if_false, List.append_assoc, List.singleton_append]
    congr 1
    have e : ((copy s).len + 7) / 8 * 8 - (copy s).len - 1 = 7 - s.len % 8 := by rw [hcl]; omega
    rw [e]

/-! ### SetTopUppedArray -/

theorem getBitOf_bits (s : BitString) (n : Nat) (h : n < 8 * s.buf.length) :
    getBitOf s n = .ok ((bytesToBits s.buf)[n]'(by simpa using h)) := by
  have e : getBitOf s n = getBitOf { s with len := 8 * s.buf.length } n := rfl
  rw [e, getBitOf_eq { s with len := 8 * s.buf.length } n (Nat.le_refl _) h]
  congr 1
  simp [abs]

theorem off_run (n : Nat) (s : BitString) : off n s =
    if n ≥ s.cap then (.err errOverflow, s)
    else match s.buf[n / 8]? with
      | none => (.panic panicIndex, s)
      | some b => (.ok (), { s with buf := s.buf.set (n / 8) (setBitByte b n false) }) := by
  simp only [off, bind_run, checkRange_run, get_run]
  by_cases h : n ≥ s.cap
  · simp [h]
  · simp only [h, if_false]
    cases hb : s.buf[n / 8]? <;> simp [setBitByte]

/-- the tag search of `SetTopUppedArray`: `j` zeros above the tag bit at position `p` -/
theorem stripLoop_spec (j : Nat) : ∀ (fuel : Nat) (s : BitString) (p : Nat) (l : List Bool),
    (bytesToBits s.buf).take (p + 1 + j) = l ++ true :: List.replicate j false →
    l.length = p → s.len = p + 1 + j → p + 1 + j ≤ 8 * s.buf.length → p < s.cap → j < fuel →
    ∃ s', stripLoop fuel s = (.ok true, s') ∧ s'.len = p ∧ s'.cap = s.cap ∧ s'.rCursor = s.rCursor ∧
      s'.buf.length = s.buf.length ∧ bytesToBits s'.buf = (bytesToBits s.buf).set p false := by
  induction j with
  | zero =>
    intro fuel s p l hb hl hlen h8 hcap hf
    obtain ⟨f, rfl⟩ : ∃ f, fuel = f + 1 := ⟨fuel - 1, by omega⟩
    have hp8 : p < 8 * s.buf.length := by omega
    have hbit : (bytesToBits s.buf)[p]'(by simpa using hp8) = true := by
      have h1 : ((bytesToBits s.buf).take (p + 1 + 0))[p]? = some true := by
        rw [hb]; simp [hl]
      rw [List.getElem?_take] at h1
      simp at h1
      exact (List.getElem?_eq_some_iff.mp h1).2
    have hidx : p / 8 < s.buf.length := by omega
    simp only [stripLoop, bind_run, modify_run, get_run, mustGetBit_run]
    have hl1 : s.len - 1 = p := by omega
    simp only [hl1]
    have hg : getBitOf { s with len := p } p = .ok true := by
      have := getBitOf_bits { s with len := p } p hp8
      simp only at this
      rw [this, hbit]
    rw [hg]
    simp only [liftO_ok, if_true, bind_run, off_run, pure_run]
    have hc : ¬ p ≥ s.cap := by omega
    simp only [hc, if_false, List.getElem?_eq_getElem hidx]
    refine ⟨_, rfl, rfl, rfl, rfl, by simp, ?_⟩
    exact bytesToBits_setBit s.buf p _ false (List.getElem?_eq_getElem hidx)
  | succ j ih =>
    intro fuel s p l hb hl hlen h8 hcap hf
    obtain ⟨f, rfl⟩ : ∃ f, fuel = f + 1 := ⟨fuel - 1, by omega⟩
    have hq8 : p + 1 + j < 8 * s.buf.length := by omega
    have hbit : (bytesToBits s.buf)[p + 1 + j]'(by simpa using hq8) = false := by
      have h1 : ((bytesToBits s.buf).take (p + 1 + (j + 1)))[p + 1 + j]? = some false := by
        rw [hb, List.getElem?_append_right (by omega)]
        have : p + 1 + j - l.length = j + 1 := by omega
        rw [this, List.getElem?_cons_succ, List.getElem?_replicate]
        simp
      rw [List.getElem?_take] at h1
      have : p + 1 + j < p + 1 + (j + 1) := by omega
      simp only [this, if_true] at h1
      exact (List.getElem?_eq_some_iff.mp h1).2
    simp only [stripLoop, bind_run, modify_run, get_run, mustGetBit_run]
    have hl1 : s.len - 1 = p + 1 + j := by omega
    simp only [hl1]
    have hg : getBitOf { s with len := p + 1 + j } (p + 1 + j) = .ok false := by
      have := getBitOf_bits { s with len := p + 1 + j } (p + 1 + j) hq8
      simp only at this
      rw [this, hbit]
    rw [hg]
    simp only [liftO_ok, Bool.false_eq_true, if_false]
    have hb' : (bytesToBits s.buf).take (p + 1 + j) = l ++ true :: List.replicate j false := by
      have h2 : (bytesToBits s.buf).take (p + 1 + j) =
          ((bytesToBits s.buf).take (p + 1 + (j + 1))).take (p + 1 + j) := by
        rw [List.take_take]; congr 1; omega
      rw [h2, hb, List.take_append, hl]
      have e1 : p + 1 + j - p = j + 1 := by omega
      rw [List.take_of_length_le (by omega), e1, List.take_succ_cons, List.take_replicate]
      congr 3; omega
    exact ih f { s with len := p + 1 + j } p l hb' hl rfl (by simp; omega) hcap (by omega)

/-- `SetTopUppedArray` on canonical topped-up bytes recovers the bits (tag removed, tail clean) -/
theorem setTopUppedArray_toppedUp (l : List Bool) (s0 : BitString) :
    ∃ s', setTopUppedArray (toppedUp l) (l.length % 8 == 0) s0 = (.ok (), s') ∧ s'.len = l.length ∧
      s'.cap = 8 * (toppedUp l).length ∧ s'.rCursor = s0.rCursor ∧ s'.buf.length = (toppedUp l).length ∧
      bytesToBits s'.buf = l ++ List.replicate (8 * (toppedUp l).length - l.length) false := by
  have hbits := bytesToBits_toppedUp l
  have hlen8 : 8 * (toppedUp l).length = (addTag l).length := by
    rw [← hbits, bytesToBits_length]
  simp only [setTopUppedArray, bind_run, modify_run, ite_run]
  by_cases h0 : l.length % 8 = 0
  · have hat : addTag l = l := by simp [addTag, h0]
    rw [hat] at hbits hlen8
    simp only [h0, beq_self_eq_true, true_or, if_true, pure_run]
    refine ⟨_, rfl, by simp; omega, by simp; omega, rfl, rfl, ?_⟩
    simp only [hbits]
    have : 8 * (toppedUp l).length - l.length = 0 := by omega
    simp [this]
  · have hat : addTag l = l ++ true :: List.replicate (7 - l.length % 8) false := by simp [addTag, h0]
    rw [hat] at hbits hlen8
    have hl8 : 8 * (toppedUp l).length = l.length + 1 + (7 - l.length % 8) := by
      rw [hlen8]; simp; omega
    have hf : ¬ ((l.length % 8 == 0) = true ∨ (toppedUp l).length * 8 = 0) := by
      intro h
      rcases h with h | h
      · simp [h0] at h
      · omega
    simp only [hf, if_false]
    obtain ⟨s', hs, hl', hc', hr', hb', hbits'⟩ := stripLoop_spec (7 - l.length % 8) 7
      { s0 with cap := (toppedUp l).length * 8, buf := toppedUp l, len := (toppedUp l).length * 8 }
      l.length l
      (by simp only [hbits]; rw [List.take_of_length_le (by simp; omega)])
      rfl (by simp only; omega) (by simp only; omega) (by simp only; omega) (by omega)
    rw [hs]
    simp only [if_true, pure_run]
    refine ⟨s', rfl, hl', by rw [hc']; simp; omega, hr', hb', ?_⟩
    rw [hbits']
    simp only [hbits]
    have e : 8 * (toppedUp l).length - l.length = (7 - l.length % 8) + 1 := by omega
    rw [e, List.replicate_succ]
    apply List.ext_getElem?
    intro i
    rw [List.getElem?_set]
    by_cases hi : l.length = i
    · subst hi; simp
    · simp only [hi, if_false]
      by_cases hlt : i < l.length
      · rw [List.getElem?_append_left hlt, List.getElem?_append_left hlt]
      · rw [List.getElem?_append_right (by omega), List.getElem?_append_right (by omega)]
        have : i - l.length = (i - l.length - 1) + 1 := by omega
        rw [this, List.getElem?_cons_succ, List.getElem?_cons_succ]

/-- the tag search over zeros only: after `j` rounds nothing was found and the length went down by `j` -/
theorem stripLoop_zeros (j : Nat) : ∀ (s : BitString), j ≤ s.len → s.len ≤ 8 * s.buf.length →
    (∀ i, i < j → (bytesToBits s.buf)[s.len - 1 - i]? = some false) →
    stripLoop j s = (.ok false, { s with len := s.len - j }) := by
  induction j with
  | zero => intro s _ _ _; simp [stripLoop]
  | succ j ih =>
    intro s hj h8 hz
    have hq8 : s.len - 1 < 8 * s.buf.length := by omega
    have hbit : (bytesToBits s.buf)[s.len - 1]'(by simpa using hq8) = false := by
      have := hz 0 (by omega)
      simp only [Nat.sub_zero] at this
      exact (List.getElem?_eq_some_iff.mp this).2
    simp only [stripLoop, bind_run, modify_run, get_run, mustGetBit_run]
    have hg : getBitOf { s with len := s.len - 1 } (s.len - 1) = .ok false := by
      have := getBitOf_bits { s with len := s.len - 1 } (s.len - 1) hq8
      simp only at this
      rw [this, hbit]
    rw [hg]
    simp only [liftO_ok, Bool.false_eq_true, if_false]
    rw [ih { s with len := s.len - 1 } (by simp; omega) (by simp; omega) (by
      intro i hi
      have := hz (i + 1) (by omega)
      have e : s.len - 1 - (i + 1) = s.len - 1 - 1 - i := by omega
      rw [e] at this
      exact this)]
    simp [Nat.sub_sub, Nat.add_comm]

/-- `SetTopUppedArray(arr, false)` on an array whose last 7 bits contain no completion tag is an error -/
theorem setTopUppedArray_no_tag (arr : List UInt8) (s0 : BitString) (hne : arr ≠ [])
    (hz : ∀ i, i < 7 → (bytesToBits arr)[8 * arr.length - 1 - i]? = some false) :
    ∃ s', BitString.setTopUppedArray arr false s0 = (.err "incorrect topUppedArray", s') := by
  have hpos : 0 < arr.length := List.length_pos_iff.mpr hne
  have hf : ¬ ((false = true) ∨ arr.length * 8 = 0) := by
    intro h; rcases h with h | h
    · cases h
    · omega
  simp only [setTopUppedArray, bind_run, modify_run, ite_run, hf, if_false]
  rw [stripLoop_zeros 7 _ (by simp only; omega) (by simp only; omega) (by
    intro i hi
    have := hz i hi
    simp only
    have e : arr.length * 8 - 1 - i = 8 * arr.length - 1 - i := by omega
    rw [e]; exact this)]
  exact ⟨_, rfl⟩

/-- `SetTopUppedArray(arr, false)` in general: if the bits of `arr` are `l ++ 1 0^j` with `j ≤ 6`, the result is `l` -/
theorem setTopUppedArray_tagged (arr : List UInt8) (l : List Bool) (j : Nat) (hj : j ≤ 6)
    (hb : bytesToBits arr = l ++ true :: List.replicate j false) (s0 : BitString) :
    ∃ s', BitString.setTopUppedArray arr false s0 = (.ok (), s') ∧ s'.len = l.length ∧
      (bytesToBits s'.buf).take s'.len = l := by
  have hl8 : 8 * arr.length = l.length + 1 + j := by
    have := congrArg List.length hb
    simp only [bytesToBits_length, List.length_append, List.length_cons, List.length_replicate] at this
    omega
  have hf : ¬ ((false = true) ∨ arr.length * 8 = 0) := by
    intro h; rcases h with h | h
    · cases h
    · omega
  simp only [setTopUppedArray, bind_run, modify_run, ite_run, hf, if_false]
  obtain ⟨s', hs, hl', _, _, _, hbits'⟩ := stripLoop_spec j 7
    { s0 with cap := arr.length * 8, buf := arr, len := arr.length * 8 } l.length l
    (by simp only [hb]; rw [List.take_of_length_le (by simp; omega)])
    rfl (by simp only; omega) (by simp only; omega) (by simp only; omega) (by omega)
  rw [hs]
  simp only [if_true, pure_run]
  refine ⟨s', rfl, hl', ?_⟩
  rw [hbits', hl']
  simp only [hb]
  rw [List.take_set, List.take_append_of_le_length (Nat.le_refl _), List.take_length,
    List.set_eq_of_length_le (Nat.le_refl _)]

end Tongo.BitString

namespace Tongo.MCell
open Tongo.Bits Tongo.BitString

/-- the repaired `Cell.setTopUppedArray` on the canonical data bytes of at most 1023 bits: success, the bits are
recovered, and the invariant holds with capacity 1023 (so every in-capacity write works) -/
theorem setTopUppedArray_inv (l : List Bool) (hl : l.length ≤ 1023) :
    (MCell.setTopUppedArray (toppedUp l) (l.length % 8 == 0)).1 = .ok () ∧
    BitString.abs (MCell.setTopUppedArray (toppedUp l) (l.length % 8 == 0)).2 = l ∧
    Inv (MCell.setTopUppedArray (toppedUp l) (l.length % 8 == 0)).2 ∧
    (MCell.setTopUppedArray (toppedUp l) (l.length % 8 == 0)).2.cap = 1023 := by
  obtain ⟨s', hs, hl', hc', hr', hb', hbits'⟩ := setTopUppedArray_toppedUp l (BitString.new cellBits)
  simp only [cellBits] at hs
  simp only [MCell.setTopUppedArray, cellBits, hs]
  have hbuf : ∀ (pad : List UInt8), pad = (if s'.buf.length < (1023 + 7) / 8 then
      s'.buf ++ List.replicate ((1023 + 7) / 8 - s'.buf.length) 0 else s'.buf) →
      128 ≤ pad.length ∧ s'.buf.length ≤ pad.length ∧
      bytesToBits pad = l ++ List.replicate (8 * pad.length - l.length) false := by
    intro pad hp
    have hle : l.length ≤ 8 * s'.buf.length := by
      have := congrArg List.length hbits'
      rw [bytesToBits_length, List.length_append, List.length_replicate] at this
      omega
    by_cases hlt : s'.buf.length < (1023 + 7) / 8
    · simp only [hlt, if_true] at hp
      subst hp
      refine ⟨by simp; omega, by simp, ?_⟩
      rw [bytesToBits_append, bytesToBits_replicate_zero, hbits', List.append_assoc,
        List.replicate_append_replicate]
      congr 2
      simp; omega
    · simp only [hlt, if_false] at hp
      subst hp
      exact ⟨by omega, Nat.le_refl _, by rw [hbits', hb']⟩
  generalize hpd : (if s'.buf.length < (1023 + 7) / 8 then
      s'.buf ++ List.replicate ((1023 + 7) / 8 - s'.buf.length) 0 else s'.buf) = pad
  obtain ⟨hp1, hp2, hpb⟩ := hbuf pad hpd.symm
  have hr0 : s'.rCursor = 0 := by rw [hr']; rfl
  refine ⟨trivial, ?_, ?_, trivial⟩
  · show List.take s'.len (bytesToBits pad) = l
    rw [hpb, hl', List.take_append_of_le_length (Nat.le_refl _), List.take_length]
  · refine ⟨?_, ?_, ?_, ?_⟩
    · show s'.len ≤ 1023
      omega
    · show 1023 ≤ 8 * pad.length
      omega
    · show s'.rCursor ≤ s'.len
      omega
    · show List.drop s'.len (bytesToBits pad) = List.replicate (8 * pad.length - s'.len) false
      rw [hpb, hl', List.drop_append_of_le_length (Nat.le_refl _), List.drop_length, List.nil_append]

end Tongo.MCell
