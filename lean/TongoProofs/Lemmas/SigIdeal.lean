/-! The idealised signature scheme (DESIGN §5.3) used by C14 and C19 for the NEGATIVE clauses ("verifies against no
other key", "stops verifying when a bit changes", "signed by another key", "field differs from what was signed").

The scheme `(sign, verify, pub)` is a parameter of every theorem; these predicates are always LOCAL hypotheses, never
axioms. Every one of them speaks about HONESTLY GENERATED public keys only — keys of the form `pub sk`, i.e. derived from
a seed by the scheme's key generation. Nothing is assumed about verification under any other 32-byte string:

* `SigCorrect` — what the key pair signs, its public key verifies;
* `SigSound` — a genuine signature, made with `sk` over the 32-byte digest `m`, verifies under an honestly generated key
  `pub sk'` for a 32-byte digest `m'` ONLY IF `pub sk' = pub sk` and `m' = m`. For Ed25519 with keys of prime order this
  holds up to collisions / fixed points of the internal SHA-512 reduced modulo the group order (same key: `h' ≡ h`;
  another honest key: `A' = (h/h')·A` with `h'` depending on `A'`); it is an IDEALISATION, not a property of the real
  scheme. It does NOT follow by counting that it must fail: it constrains genuine signatures only.
* `SigUnforgeable` — under an honestly generated key only what a holder of a secret key of it produced with `sign`
  verifies. This is the strongest idealisation (strong unforgeability plus determinism of the signer: the real key
  holder could produce other valid signatures for the same message); it is used ONLY by `verified_was_signed`
  (C14) / `accepted_was_signed` (C19) and never by the rejection theorems.

THE LIMIT, witnessed. For keys that are NOT honestly generated the real scheme gives nothing of the kind: Go's
`ed25519.Verify` accepts one fixed signature for EVERY message under the small-order key `01 00 … 00` (oracle
`go.ed.smallorder`, run on every check), and accepted a forged signature under the all-zero key that `ParseStateInit`
used to return for the lockup wallet code (known finding, fixed; oracle `go.tc.lockup`). The hypotheses below are
consistent with that: `toy_ideal` satisfies all of them although its verifier accepts EVERYTHING under the dishonest
key `01 00 … 00` (`toy_dishonest_key_accepts_all`). This is why the theorems of C14 / C19 require the verification key
(the "other key", the key controlling the account) to be honestly generated, why `ParseStateInit` must never return a
key that is not the one stored by the wallet's owner, and why the source of `CheckProof`'s key matters.

`accept_all_violates`: the accept-everything verifier is EXCLUDED by `SigSound`. -/
namespace Tongo.Sig

abbrev Bytes := List UInt8

/-- `pk` was produced by the scheme's key generation -/
def Honest (pub : Bytes → Bytes) (pk : Bytes) : Prop := ∃ sk, pk = pub sk

/-- signature correctness -/
def SigCorrect (sign : Bytes → Bytes → Bytes) (verify : Bytes → Bytes → Bytes → Bool) (pub : Bytes → Bytes) : Prop :=
  ∀ sk m, verify (pub sk) m (sign sk m) = true

/-- a genuine signature verifies, among honestly generated keys and 32-byte digests, only for its signer's key and its
own digest -/
def SigSound (sign : Bytes → Bytes → Bytes) (verify : Bytes → Bytes → Bytes → Bool) (pub : Bytes → Bytes) : Prop :=
  ∀ sk sk' m m', m.length = 32 → m'.length = 32 → verify (pub sk') m' (sign sk m) = true → pub sk' = pub sk ∧ m' = m

/-- under an honestly generated key, whatever verifies was produced by `sign` under a secret key of that key -/
def SigUnforgeable (sign : Bytes → Bytes → Bytes) (verify : Bytes → Bytes → Bytes → Bool) (pub : Bytes → Bytes) : Prop :=
  ∀ sk m s, verify (pub sk) m s = true → ∃ sk', pub sk' = pub sk ∧ s = sign sk' m

/-- what the rejection theorems assume -/
structure Ideal (sign : Bytes → Bytes → Bytes) (verify : Bytes → Bytes → Bytes → Bool) (pub : Bytes → Bytes) : Prop where
  correct : SigCorrect sign verify pub
  sound : SigSound sign verify pub

/-- a signature made with `sk` over the digest `d` verifies for an HONEST key `pk'` and a digest `d'` only if `pk'` is
`sk`'s public key and `d'` is `d` -/
theorem Ideal.verify_sound {sign verify pub} (I : Ideal sign verify pub) (sk pk' d d' : Bytes) (hh : Honest pub pk')
    (hd : d.length = 32) (hd' : d'.length = 32) (h : verify pk' d' (sign sk d) = true) : pk' = pub sk ∧ d' = d := by
  obtain ⟨sk', rfl⟩ := hh
  exact I.sound sk sk' d d' hd hd' h

/-- the complete characterisation among honest keys: it verifies IFF key and digest are the signer's -/
theorem Ideal.verify_iff {sign verify pub} (I : Ideal sign verify pub) (sk pk' d d' : Bytes) (hh : Honest pub pk')
    (hd : d.length = 32) (hd' : d'.length = 32) : verify pk' d' (sign sk d) = true ↔ (pk' = pub sk ∧ d' = d) :=
  ⟨I.verify_sound sk pk' d d' hh hd hd', fun ⟨h1, h2⟩ => by rw [h1, h2]; exact I.correct sk d⟩

/-! ### the hypotheses exclude the accept-all verifier, are satisfiable, and say nothing about dishonest keys -/

/-- The verifier that accepts everything does NOT satisfy `SigSound`: it accepts one genuine signature for two different
digests. -/
theorem accept_all_violates (sign : Bytes → Bytes → Bytes) (pub : Bytes → Bytes) :
    ¬ SigSound sign (fun _ _ _ => true) pub := by
  intro h
  have := (h [] [] (List.replicate 32 0) (List.replicate 32 1) (by simp) (by simp) rfl).2
  exact absurd this (by decide)

/-- … nor `SigUnforgeable` when signatures have 64 bytes: it accepts the empty signature. -/
theorem accept_all_violates_unforgeable (sign : Bytes → Bytes → Bytes) (pub : Bytes → Bytes) (hsl : ∀ sk m, (sign sk m).length = 64) :
    ¬ SigUnforgeable sign (fun _ _ _ => true) pub := by
  intro h
  obtain ⟨sk, _, hs⟩ := h [] [] [] rfl
  have := hsl sk []
  rw [← hs] at this
  simp at this

/-- A toy scheme with 32-byte public keys and 64-byte signatures. Honest public keys start with the byte 2 followed by the
secret key cut / padded to 31 bytes; the signature is the public key followed by the message cut / padded to 32 bytes;
the verifier recomputes it for keys starting with 2 — and ACCEPTS EVERYTHING under the key `01 00 … 00`, which is not
honestly generated (the analogue of Ed25519's small-order keys). -/
def pad (n : Nat) (x : Bytes) : Bytes := (x ++ List.replicate n 0).take n
def pad32 (x : Bytes) : Bytes := pad 32 x
def lowKey : Bytes := 1 :: List.replicate 31 0
def toyPub (sk : Bytes) : Bytes := 2 :: pad 31 sk
def toySign (sk m : Bytes) : Bytes := toyPub sk ++ pad32 m
def toyVerify (pk m s : Bytes) : Bool := pk == lowKey || (pk.length == 32 && pk.head? == some 2 && s == pk ++ pad32 m)

theorem pad_length (n : Nat) (x : Bytes) : (pad n x).length = n := by simp [pad]
theorem pad32_length (x : Bytes) : (pad32 x).length = 32 := pad_length 32 x
theorem pad32_of_length {x : Bytes} (h : x.length = 32) : pad32 x = x := by
  simp [pad32, pad, List.take_append_of_le_length (Nat.le_of_eq h.symm), List.take_of_length_le (Nat.le_of_eq h)]
theorem toyPub_length (sk : Bytes) : (toyPub sk).length = 32 := by simp [toyPub, pad_length]
theorem toyPub_ne_lowKey (sk : Bytes) : (toyPub sk == lowKey) = false := by
  simp [toyPub, lowKey]

/-- non-vacuity: the toy scheme satisfies ALL the hypotheses (correct, sound, unforgeable under honest keys), its
signatures have 64 bytes and its public keys 32 -/
theorem toy_ideal : Ideal toySign toyVerify toyPub ∧ SigUnforgeable toySign toyVerify toyPub ∧
    (∀ sk m, (toySign sk m).length = 64) ∧ (∀ sk, (toyPub sk).length = 32) := by
  have hv : ∀ sk m s, toyVerify (toyPub sk) m s = (s == toyPub sk ++ pad32 m) := by
    intro sk m s
    simp [toyVerify, toyPub_ne_lowKey, toyPub_length]
    simp [toyPub]
  refine ⟨⟨?_, ?_⟩, ?_, ?_, toyPub_length⟩
  · intro sk m
    rw [hv]; simp [toySign]
  · intro sk sk' m m' hm hm' h
    rw [hv] at h
    simp only [toySign, beq_iff_eq] at h
    have := List.append_inj h (by rw [toyPub_length, toyPub_length])
    refine ⟨this.1.symm, ?_⟩
    rw [← pad32_of_length hm, ← pad32_of_length hm']; exact this.2.symm
  · intro sk m s h
    rw [hv] at h
    exact ⟨sk, rfl, by simpa [toySign] using h⟩
  · intro sk m; simp [toySign, toyPub_length, pad32_length]

/-- THE LIMIT inside the model: the hypotheses are compatible with a verifier that accepts every message and every
signature under a key that is not honestly generated — exactly what Go's Ed25519 does under the small-order key
`01 00 … 00` (oracle `go.ed.smallorder`). Hence no theorem that assumes only `Ideal` / `SigUnforgeable` can say anything
about verification under such keys. -/
theorem toy_dishonest_key_accepts_all : (∀ m s, toyVerify lowKey m s = true) ∧ ¬ Honest toyPub lowKey ∧ lowKey.length = 32 := by
  refine ⟨fun m s => by simp [toyVerify], ?_, by simp [lowKey]⟩
  intro ⟨sk, h⟩
  have := toyPub_ne_lowKey sk
  rw [← h] at this
  simp at this

end Tongo.Sig
