/-! The idealised signature scheme (DESIGN §5.3) used by C14 and C19 for the NEGATIVE clauses ("verifies against no
other key", "stops verifying when a bit changes", "signed by another key", "field differs from what was signed").

The scheme `(sign, verify, pub)` is a parameter of every theorem; these predicates are always LOCAL hypotheses, never
axioms. They describe an information-theoretically ideal, deterministic signature scheme (what a game-based EUF-CMA
statement idealises to in a model without probabilities or adversaries):

* `SigCorrect` — what the key pair signs, its public key verifies;
* `SigUnforgeable` — the verifier accepts `(pk, m, s)` ONLY IF `s` is the signature of `m` under a secret key of `pk`:
  there is no accepted triple that the key holder did not produce;
* `SigBinds` — a signature determines the public key of its signer and, on 32-byte messages (digests), the message:
  two signing events with the same signature are the same event. (Restricted to 32-byte messages because signatures
  have a fixed length of 64 bytes: an unrestricted version would contradict the pigeonhole principle and make every
  theorem using it vacuous.)

Real Ed25519 satisfies none of them literally (they hold up to negligible probability against bounded adversaries);
the correspondence runs exercise the same negatives with real Ed25519 (foreign keys, bit flips, substituted fields).

`accept_all_violates` / `accept_all_violates_binds`: the accept-everything verifier is EXCLUDED by `SigUnforgeable`;
`toy_ideal`: the hypotheses are jointly satisfiable (with 64-byte signatures). -/
namespace Tongo.Sig

abbrev Bytes := List UInt8

/-- signature correctness -/
def SigCorrect (sign : Bytes → Bytes → Bytes) (verify : Bytes → Bytes → Bytes → Bool) (pub : Bytes → Bytes) : Prop :=
  ∀ sk m, verify (pub sk) m (sign sk m) = true

/-- ideal unforgeability: whatever verifies was produced by `sign` under a secret key of that public key -/
def SigUnforgeable (sign : Bytes → Bytes → Bytes) (verify : Bytes → Bytes → Bytes → Bool) (pub : Bytes → Bytes) : Prop :=
  ∀ pk m s, verify pk m s = true → ∃ sk, pk = pub sk ∧ s = sign sk m

/-- a signature determines its signer's public key and (on digests) the signed message -/
def SigBinds (sign : Bytes → Bytes → Bytes) (pub : Bytes → Bytes) : Prop :=
  ∀ sk sk' m m', m.length = 32 → m'.length = 32 → sign sk m = sign sk' m' → pub sk = pub sk' ∧ m = m'

/-- the three together -/
structure Ideal (sign : Bytes → Bytes → Bytes) (verify : Bytes → Bytes → Bytes → Bool) (pub : Bytes → Bytes) : Prop where
  correct : SigCorrect sign verify pub
  unforgeable : SigUnforgeable sign verify pub
  binds : SigBinds sign pub

/-- What the ideal scheme gives the verifier's side: a signature made with `sk` on the digest `d` verifies for
`(pk', d')` only if `pk'` is `sk`'s public key and `d'` is `d`. -/
theorem Ideal.verify_sound {sign verify pub} (I : Ideal sign verify pub) (sk pk' d d' : Bytes)
    (hd : d.length = 32) (hd' : d'.length = 32) (h : verify pk' d' (sign sk d) = true) : pk' = pub sk ∧ d' = d := by
  obtain ⟨sk', hpk, hs⟩ := I.unforgeable pk' d' (sign sk d) h
  obtain ⟨hp, hm⟩ := I.binds sk sk' d d' hd hd' hs
  exact ⟨by rw [hpk, hp], hm.symm⟩

/-- and conversely the complete characterisation: it verifies IFF key and digest are the signer's -/
theorem Ideal.verify_iff {sign verify pub} (I : Ideal sign verify pub) (sk pk' d d' : Bytes)
    (hd : d.length = 32) (hd' : d'.length = 32) : verify pk' d' (sign sk d) = true ↔ (pk' = pub sk ∧ d' = d) :=
  ⟨I.verify_sound sk pk' d d' hd hd', fun ⟨h1, h2⟩ => by rw [h1, h2]; exact I.correct sk d⟩

/-! ### the hypotheses exclude the accept-all verifier and are satisfiable -/

/-- The verifier that accepts everything does NOT satisfy `SigUnforgeable` (for any `sign` whose signatures are 64
bytes long): it accepts the empty signature, which nobody produced. -/
theorem accept_all_violates (sign : Bytes → Bytes → Bytes) (pub : Bytes → Bytes) (hsl : ∀ sk m, (sign sk m).length = 64) :
    ¬ SigUnforgeable sign (fun _ _ _ => true) pub := by
  intro h
  obtain ⟨sk, _, hs⟩ := h [] [] [] rfl
  have := hsl sk []
  rw [← hs] at this
  simp at this

/-- … and, independently of signature lengths, it contradicts `SigUnforgeable ∧ SigBinds`: it accepts one signature
for two different digests. -/
theorem accept_all_violates_binds (sign : Bytes → Bytes → Bytes) (pub : Bytes → Bytes) :
    ¬ (SigUnforgeable sign (fun _ _ _ => true) pub ∧ SigBinds sign pub) := by
  intro ⟨hu, hb⟩
  obtain ⟨sk, _, hs⟩ := hu [] (List.replicate 32 0) [] rfl
  obtain ⟨sk', _, hs'⟩ := hu [] (List.replicate 32 1) [] rfl
  have := (hb sk sk' (List.replicate 32 0) (List.replicate 32 1) (by simp) (by simp) (hs.symm.trans hs')).2
  exact absurd this (by decide)

/-- a toy ideal scheme with 32-byte public keys and 64-byte signatures: the public key is the secret key cut / padded
to 32 bytes, the signature is the public key followed by the message cut / padded to 32 bytes, and the verifier
recomputes it (and insists on a 32-byte key) -/
def pad32 (x : Bytes) : Bytes := (x ++ List.replicate 32 0).take 32
def toyPub (sk : Bytes) : Bytes := pad32 sk
def toySign (sk m : Bytes) : Bytes := pad32 sk ++ pad32 m
def toyVerify (pk m s : Bytes) : Bool := pk.length == 32 && s == pk ++ pad32 m

theorem pad32_length (x : Bytes) : (pad32 x).length = 32 := by simp [pad32]
theorem pad32_of_length {x : Bytes} (h : x.length = 32) : pad32 x = x := by
  simp [pad32, List.take_append_of_le_length (Nat.le_of_eq h.symm), List.take_of_length_le (Nat.le_of_eq h)]

/-- non-vacuity: the toy scheme is ideal, its signatures have 64 bytes and its public keys 32 -/
theorem toy_ideal : Ideal toySign toyVerify toyPub ∧ (∀ sk m, (toySign sk m).length = 64) ∧ (∀ sk, (toyPub sk).length = 32) := by
  refine ⟨⟨?_, ?_, ?_⟩, ?_, ?_⟩
  · intro sk m
    simp [toyVerify, toySign, toyPub, pad32_length]
  · intro pk m s h
    simp only [toyVerify, Bool.and_eq_true, beq_iff_eq] at h
    refine ⟨pk, ?_, ?_⟩
    · simp [toyPub, pad32_of_length h.1]
    · simp [toySign, pad32_of_length h.1, h.2]
  · intro sk sk' m m' hm hm' h
    simp only [toySign] at h
    have := List.append_inj h (by rw [pad32_length, pad32_length])
    refine ⟨this.1, ?_⟩
    rw [← pad32_of_length hm, ← pad32_of_length hm']; exact this.2
  · intro sk m; simp [toySign, pad32_length]
  · intro sk; simp [toyPub, pad32_length]

end Tongo.Sig
