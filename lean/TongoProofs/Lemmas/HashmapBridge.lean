import TongoProofs.Lemmas.HashmapEncode
import TongoProofs.Lemmas.BitsBridge
import TongoProofs.Lemmas.BitsBridgeCell
import TongoProofs.Lemmas.MinBitsGen
/-! BRIDGE between the dictionary model (`TongoModel/Hashmap.lean`, which writes and reads labels and leaves with its
own operations on bit lists) and the bit-level reference of the verification.

`encodeLabel` / `encodeMap` / `loadLabel` / `mapInner` are re-stated here as PROGRAMS over the cell primitives the Go
code calls — `WriteBit`, `WriteUint`, `WriteUnary`, `WriteLimUint`, `WriteBitString`, `AddRef`/`NewRef`, `ReadBit`,
`ReadUnary`, `ReadLimUint`, `NextRef`, and `WriteBit` on the key prefix of capacity `keySize` — in the ideal-level
interface `Tlb.Builder` / `Tlb.Slice`, and proved EQUAL (same value, same error) to the model's bit-list forms. Each of
those primitives is `Op.spec` of `TongoModel/BitOps.lean` by `Tongo.Bridge.builder_*` / `slice_*` /
`cell_addRef_bridge` / `cell_nextRef_bridge` (instantiated at the end of this file), and `Op.spec` is refined by the
byte-level model of boc.BitString by `C06.op_refines`. Layering: dictionary theorems ⇒ (this file) ⇒ Builder/Slice ⇒
(BitsBridge) ⇒ `Op.spec` ⇒ (`op_refines`) ⇒ byte-level model ⇔ (correspondence on every run) Go.

Also: the model's `minBitsRequired` is the reference's `BitString.minBitsRequired` (de Bruijn form), the ideal
`bitLength`, and the definition regenerated from boc/bitString.go (`TongoGen.MinBits`). -/
namespace Tongo.Hashmap.Bridge
open Tongo Tongo.Bits Tongo.Hashmap Tongo.Bridge Tongo.BitString

/-! ## minBitsRequired -/

theorem bitLenAux_eq_bitLength : ∀ (f v : Nat), v < 2 ^ f → bitLenAux f v = Ideal.bitLength v
  | 0, v, h => by
    have : v = 0 := by simpa using h
    subst this; simp [bitLenAux, Ideal.bitLength]
  | f + 1, v, h => by
    unfold bitLenAux
    by_cases h0 : v = 0
    · subst h0; simp [Ideal.bitLength]
    · have h2 : v / 2 < 2 ^ f := by rw [Nat.pow_succ] at h; omega
      rw [if_neg h0, bitLenAux_eq_bitLength f (v / 2) h2]
      unfold Ideal.bitLength
      rw [if_neg h0, Nat.log2_def v]
      by_cases h1 : 2 ≤ v
      · have : ¬ (v / 2 = 0) := by omega
        simp [h1, this]
      · have : v / 2 = 0 := by omega
        simp [h1, this]

/-- the dictionary model's width function is the ideal bit length … -/
theorem minBits_eq_bitLength (n : Nat) (h : n < 2 ^ 64) : Hashmap.minBitsRequired n = Ideal.bitLength n :=
  bitLenAux_eq_bitLength 64 n h

/-- … the reference model of `boc.minBitsRequired` (smear, de Bruijn multiplication, table lookup) … -/
theorem minBits_eq_reference (n : Nat) (h : n < 2 ^ 64) : Hashmap.minBitsRequired n = BitString.minBitsRequired n := by
  rw [minBits_eq_bitLength n h, minBitsRequired_eq_bitLength n h]

/-- … and the definition regenerated from boc/bitString.go on every run -/
theorem minBits_eq_regenerated (x : BitVec 64) :
    Hashmap.minBitsRequired x.toNat = (Gen.MinBits.minBitsRequired x).toNat := by
  rw [gen_minBitsRequired_eq, minBits_eq_reference x.toNat x.isLt]

theorem minBits_eq_limBits (n : Nat) (h : n < 2 ^ 64) : Hashmap.minBitsRequired n = Tlb.Builder.limBits n := by
  rw [minBits_eq_bitLength n h]; rfl

/-! ## the writer: encodeLabel as a program over the cell primitives -/

/-- encodeLabel of tlb/hashmap.go, call by call (`m` = keySize, `label` already computed) -/
def writeLabelB (label : Key) (m : Nat) (b : Tlb.Builder) : Outcome Tlb.Builder :=
  let n := label.length
  let k := Tlb.Builder.limBits m
  if n > 1 ∧ k < 2 * n - 1 ∧ allSame label = true then do
    let b ← b.writeUint 3 2                    -- c.WriteUint(0b11, 2)
    let b ← b.writeBit (label.headD false)     -- c.WriteBit(bit)
    b.writeLimUint n m                          -- c.WriteLimUint(n, keySize)
  else if k < n then do
    let b ← b.writeUint 2 2                    -- c.WriteUint(0b10, 2)
    let b ← b.writeLimUint n m
    b.writeBits label                           -- c.WriteBitString(label)
  else do
    let b ← b.writeBit false
    let b ← b.writeUnary n
    b.writeBits label

theorem writeBits_seq3 (b : Tlb.Builder) (x y z : List Bool) :
    (b.writeBits x >>= fun b => b.writeBits y >>= fun b => b.writeBits z) = b.writeBits (x ++ (y ++ z)) := by
  have h1 : ∀ b' : Tlb.Builder, (b'.writeBits y >>= fun b => b.writeBits z) = b'.writeBits (y ++ z) :=
    fun b' => builder_writeBits_append b' y z
  simp only [h1]
  exact builder_writeBits_append b x (y ++ z)

theorem writeUnary_eq (b : Tlb.Builder) (n : Nat) : b.writeUnary n = b.writeBits (List.replicate n true ++ [false]) := by
  simp [Tlb.Builder.writeUnary, Tlb.Builder.writeBits]

theorem writeLimUint_eq (b : Tlb.Builder) (v m : Nat) (hv : v < 2 ^ 64) (hm : m < 2 ^ 64) :
    b.writeLimUint v m = b.writeBits (natToBits (Hashmap.minBitsRequired m) v) := by
  simp only [Tlb.Builder.writeLimUint, Tlb.Builder.writeUint, Nat.mod_eq_of_lt hv, minBits_eq_limBits m hm]

/-- the program writes exactly the bits of the model's `encLabelBits`, and fails exactly when they do not fit -/
theorem writeLabelB_eq (label : Key) (m : Nat) (hm : m < 2 ^ 64) (hl : label.length < 2 ^ 64) (b : Tlb.Builder) :
    writeLabelB label m b = b.writeBits (encLabelBits label (m : Int)) := by
  unfold writeLabelB encLabelBits
  simp only [lenWidth_ofNat, ← minBits_eq_limBits m hm]
  have e3 : natToBits 2 (3 % 2 ^ 64) = [true, true] := by decide
  have e2 : natToBits 2 (2 % 2 ^ 64) = [true, false] := by decide
  split
  · simp only [Tlb.Builder.writeUint, Tlb.Builder.writeBit, writeLimUint_eq _ _ _ hl hm, e3]
    rw [writeBits_seq3]; rfl
  · split
    · simp only [Tlb.Builder.writeUint, writeLimUint_eq _ _ _ hl hm, e2]
      rw [writeBits_seq3]; rfl
    · simp only [Tlb.Builder.writeBit, writeUnary_eq]
      rw [writeBits_seq3]; rfl

/-- finishing a cell: the bits written into a fresh cell, then the references added one by one -/
def finishB (bits : List Bool) (refs : List Cell) : Outcome Cell := do
  let b ← Tlb.Builder.empty.writeBits bits
  let b ← refs.foldlM (fun b r => b.addRef r) b
  pure b.toCell

theorem foldl_addRef (refs : List Cell) : ∀ (b : Tlb.Builder), b.refs.length ≤ 4 →
    refs.foldlM (fun b r => b.addRef r) b =
      if b.refs.length + refs.length ≤ 4 then .ok { b with refs := b.refs ++ refs } else .err "too many refs" := by
  induction refs with
  | nil => intro b hb; simp [List.foldlM, Pure.pure, hb]
  | cons r rs ih =>
    intro b hb
    rw [List.foldlM_cons]
    by_cases h : b.refs.length < 4
    · have ha : b.addRef r = .ok { b with refs := b.refs ++ [r] } := by
        simp [Tlb.Builder.addRef, Tlb.cellRefs, h]
      rw [ha, Outcome.bind_ok, ih { b with refs := b.refs ++ [r] } (by simp; omega)]
      simp only [List.length_append, List.length_cons, List.length_nil, List.append_assoc, List.singleton_append]
      have e : b.refs.length + (0 + 1) + rs.length = b.refs.length + (rs.length + 1) := by omega
      rw [e]
    · have h2 : ¬ b.refs.length + (r :: rs).length ≤ 4 := by simp; omega
      have ha : b.addRef r = .err "too many refs" := by simp [Tlb.Builder.addRef, Tlb.cellRefs, h]
      rw [ha, Outcome.bind_err, if_neg h2]

/-- the model's `mkCell` (capacity errors at 1023 bits / 4 refs) is that program -/
theorem mkCell_eq_finishB (bits : List Bool) (refs : List Cell) : mkCell bits refs = finishB bits refs := by
  unfold mkCell finishB
  simp only [Tlb.Builder.writeBits, Tlb.Builder.empty, List.length_nil, Nat.zero_add, Tlb.cellBits, List.nil_append]
  by_cases h1 : bits.length > 1023
  · have : ¬ bits.length ≤ 1023 := by omega
    simp [h1, this]
  · have : bits.length ≤ 1023 := by omega
    simp only [h1, if_false, this, if_true, Outcome.bind_ok]
    have hf := foldl_addRef refs { bits := bits } (by simp)
    rw [hf]
    by_cases h2 : refs.length > 4
    · have : ¬ (refs.length ≤ 4) := by omega
      simp [h2, this]
    · have : refs.length ≤ 4 := by omega
      simp [h2, this, Tlb.Builder.toCell, Cell.ordinary, Pure.pure]

/-- a leaf of `encodeMap`: label program, then the value's bits (`Marshal(c, value)`), then its references -/
theorem leaf_eq_program (k : Key) (m : Nat) (hm : m < 2 ^ 64) (hk : k.length < 2 ^ 64) (vb : List Bool) (vr : List Cell) :
    mkCell (encLabelBits k (m : Int) ++ vb) vr =
      (do let b ← writeLabelB k m Tlb.Builder.empty
          let b ← b.writeBits vb
          let b ← vr.foldlM (fun b r => b.addRef r) b
          pure b.toCell) := by
  rw [mkCell_eq_finishB]
  unfold finishB
  rw [writeLabelB_eq k m hm hk, ← builder_writeBits_append]
  simp only [Bind.bind, Outcome.bind]
  cases Tlb.Builder.empty.writeBits (encLabelBits k (m : Int)) <;> rfl

/-- a fork of `encodeMap`: label program, then the two `NewRef`s -/
theorem fork_eq_program (p : Key) (m : Nat) (hm : m < 2 ^ 64) (hp : p.length < 2 ^ 64) (l r : Cell) :
    mkCell (encLabelBits p (m : Int)) [l, r] =
      (do let b ← writeLabelB p m Tlb.Builder.empty
          let b ← b.addRef l
          let b ← b.addRef r
          pure b.toCell) := by
  rw [mkCell_eq_finishB]
  unfold finishB
  rw [writeLabelB_eq p m hm hp]
  simp only [List.foldlM, Bind.bind, Outcome.bind]
  cases Tlb.Builder.empty.writeBits (encLabelBits p (m : Int)) with
  | ok b =>
    simp only
    cases b.addRef l with
    | ok b2 => simp only; cases b2.addRef r <;> rfl
    | err e => rfl
    | panic e => rfl
  | err e => rfl
  | panic e => rfl

/-! ## the reader: loadLabel as a program over the cell primitives -/

/-- `key.WriteBit` repeated on the key prefix: an ideal bit string of capacity `cap` (= keySize) -/
def prefixWrite (cap : Nat) (pfx bits : List Bool) : Outcome Key :=
  match Ideal.write bits { bits := pfx, cap := cap, pos := 0 } with
  | (.ok _, t) => .ok t.bits
  | (.err e, _) => .err e
  | (.panic e, _) => .panic e

theorem prefixWrite_eq (cap : Nat) (pfx bits : List Bool) :
    prefixWrite cap pfx bits =
      if pfx.length + bits.length > cap then .err "BitString overflow" else .ok (pfx ++ bits) := by
  unfold prefixWrite Ideal.write
  by_cases h : pfx.length + bits.length ≤ cap
  · have : ¬ (pfx.length + bits.length > cap) := by omega
    simp [h, this]
  · have : pfx.length + bits.length > cap := by omega
    simp [h, this, errOverflow]

/-- loadLabel of tlb/hashmap.go, call by call, on a slice (`m` = remaining key size) -/
def loadLabelS (m cap : Nat) (pfx : Key) (s : Tlb.Slice) : Outcome (Nat × Key × Tlb.Slice) := do
  let (first, s) ← s.readBit
  if !first then do                                   -- hml_short$0
    let (ln, s) ← s.readUnary
    let (bits, s) ← s.readBits ln                     -- ln × ReadBit
    let key ← prefixWrite cap pfx bits                -- ln × key.WriteBit
    pure (ln, key, s)
  else do
    let (second, s) ← s.readBit
    if !second then do                                -- hml_long$10
      let (ln, s) ← s.readLimUint m
      let (bits, s) ← s.readBits ln
      let key ← prefixWrite cap pfx bits
      pure (ln, key, s)
    else do                                           -- hml_same$11
      let (v, s) ← s.readBit
      let (ln, s) ← s.readLimUint m
      let key ← prefixWrite cap pfx (List.replicate ln v)
      pure (ln, key, s)

theorem readUnaryAux_eq_model : ∀ (l : List Bool) (k : Nat),
    Tlb.Slice.readUnaryAux l k = (Hashmap.readUnary l).map fun p => (p.1 + k, p.2)
  | [], k => rfl
  | false :: r, k => by simp [Tlb.Slice.readUnaryAux, Hashmap.readUnary]
  | true :: r, k => by
    simp only [Tlb.Slice.readUnaryAux, Hashmap.readUnary, readUnaryAux_eq_model r (k + 1)]
    cases Hashmap.readUnary r with
    | none => rfl
    | some p => simp only [Option.map]; congr 2; omega

theorem slice_readLimUint_eq (s : Tlb.Slice) (m : Nat) (hm : m < 2 ^ 64) :
    s.readLimUint m = match Hashmap.readUint (Hashmap.minBitsRequired m) s.bits with
      | some (v, r) => .ok (v, { s with bits := r })
      | none => .err "not enough bits" := by
  have h64 : ¬ (Tlb.Builder.limBits m > 64) := by
    have := minBits_le_64 m; rw [minBits_eq_limBits m hm] at this; omega
  simp only [Tlb.Slice.readLimUint, Tlb.Slice.readUint, h64, if_false, Tlb.Slice.readBits, Hashmap.readUint,
    minBits_eq_limBits m hm]
  by_cases hl : s.bits.length < Tlb.Builder.limBits m
  · simp only [hl, if_true]; rfl
  · simp only [hl, if_false]; rfl

/-- the program computes the model's `loadLabel` (same result, same errors) -/
theorem loadLabelS_eq (m cap : Nat) (hm : m < 2 ^ 64) (pfx : Key) (s : Tlb.Slice) :
    loadLabelS m cap pfx s =
      match loadLabel (m : Int) cap pfx s.bits with
      | .ok (ln, key, rest) => .ok (ln, key, { s with bits := rest })
      | .err e => .err e
      | .panic e => .panic e := by
  unfold loadLabelS loadLabel
  simp only [lenWidth_ofNat]
  cases hb : s.bits with
  | nil => simp [Tlb.Slice.readBit, hb, Bind.bind, Outcome.bind]
  | cons x r =>
    cases x with
    | false =>
      simp only [Tlb.Slice.readBit, hb, Bind.bind, Outcome.bind, Bool.not_false, if_true, Tlb.Slice.readUnary,
        readUnaryAux_eq_model, Nat.add_zero]
      cases hu : Hashmap.readUnary r with
      | none => rfl
      | some p =>
        obtain ⟨ln, r'⟩ := p
        simp only [Option.map, Tlb.Slice.readBits, prefixWrite_eq]
        by_cases h1 : r'.length < ln
        · simp [h1]
        · simp only [h1, if_false, List.length_take]
          have : min ln r'.length = ln := by omega
          rw [this]
          by_cases h2 : pfx.length + ln > cap
          · simp [h2]
          · simp [h2, Pure.pure]
    | true =>
      cases r with
      | nil => simp [Tlb.Slice.readBit, hb, Bind.bind, Outcome.bind]
      | cons y r2 =>
        cases y with
        | false =>
          simp only [Tlb.Slice.readBit, hb, Bind.bind, Outcome.bind, Bool.not_true, Bool.false_eq_true, if_false,
            Bool.not_false, if_true]
          rw [slice_readLimUint_eq _ m hm]
          simp only
          cases hr : Hashmap.readUint (Hashmap.minBitsRequired m) r2 with
          | none => rfl
          | some p =>
            obtain ⟨ln, r'⟩ := p
            simp only [Tlb.Slice.readBits, prefixWrite_eq]
            by_cases h1 : r'.length < ln
            · simp [h1]
            · simp only [h1, if_false, List.length_take]
              have : min ln r'.length = ln := by omega
              rw [this]
              by_cases h2 : pfx.length + ln > cap
              · simp [h2]
              · simp [h2, Pure.pure]
        | true =>
          cases r2 with
          | nil => simp [Tlb.Slice.readBit, hb, Bind.bind, Outcome.bind]
          | cons v r3 =>
            simp only [Tlb.Slice.readBit, hb, Bind.bind, Outcome.bind, Bool.not_true, Bool.false_eq_true, if_false]
            rw [slice_readLimUint_eq _ m hm]
            simp only
            cases hr : Hashmap.readUint (Hashmap.minBitsRequired m) r3 with
            | none => rfl
            | some p =>
              obtain ⟨ln, r'⟩ := p
              simp only [prefixWrite_eq, List.length_replicate]
              by_cases h2 : pfx.length + ln > cap
              · simp [h2]
              · simp [h2, Pure.pure]

/-- the two `NextRef` calls of a fork in `mapInner` -/
theorem fork_refs_eq_program (s : Tlb.Slice) :
    (do let (l, s) ← s.nextRef
        let (r, s) ← s.nextRef
        pure (l, r, s)) =
      match s.refs with
      | l :: r :: rest => .ok (l, r, { s with refs := rest })
      | _ => .err "not enough refs" := by
  simp only [Tlb.Slice.nextRef, Bind.bind, Outcome.bind]
  cases s.refs with
  | nil => rfl
  | cons l rs => cases rs <;> rfl

/-! ## each primitive of these programs is `Op.spec` (hence, by `op_refines`, the byte-level model of the Go code) -/

/-- the write primitives of `writeLabelB` / `finishB` on an ideal state related to the builder -/
theorem write_primitives_are_spec (b : Tlb.Builder) (t : Ideal) (h : BRel b t) :
    (∀ x, BAgree b (b.writeBit x) ((Op.writeBit x).spec t)) ∧
    (∀ v n, v < 2 ^ 64 → BAgree b (b.writeUint v n) ((Op.writeUint v n).spec t)) ∧
    (∀ n, BAgree b (b.writeUnary n) ((Op.writeUnary n).spec t)) ∧
    (∀ v n, v < 2 ^ 64 → BAgree b (b.writeLimUint v n) ((Op.writeLimUint v n).spec t)) ∧
    (∀ l, BAgree b (b.writeBits l) ((Op.writeBitArray l).spec t)) :=
  ⟨builder_writeBit b t h, fun v n hv => builder_writeUint b t h v n hv, builder_writeUnary b t h,
   fun v n hv => builder_writeLimUint b t h v n hv, fun l => builder_writeBits b t h l⟩

/-- the read primitives of `loadLabelS` on an ideal state related to the slice -/
theorem read_primitives_are_spec (s : Tlb.Slice) (t : Ideal) (h : SRel s t) :
    SAgree Out.bool s s.readBit ((Op.readBit).spec t) ∧
    SAgree Out.nat s s.readUnary ((Op.readUnary).spec t) ∧
    (∀ n, n < 2 ^ 64 → SAgree Out.nat s (s.readLimUint n) ((Op.readLimUint n).spec t)) ∧
    (∀ n, SAgree Out.bits s (s.readBits n) ((Op.readBits n).spec t)) :=
  ⟨slice_readBit s t h, slice_readUnary s t h, fun n hn => slice_readLimUint s t h n hn, slice_readBits s t h⟩

/-- `AddRef` / `NextRef` on the mutable cell of the Go-level model are `Builder.addRef` / `Slice.nextRef` -/
theorem ref_primitives_are_spec (c r : MCell) :
    (match (c.addRef r).1, (builderOf c).addRef (Bridge.toCell r) with
     | .ok c', .ok b' => builderOf c' = b' ∧ (c.addRef r).2 = c'
     | .err e, .err e' => e = e' ∧ (c.addRef r).2 = c
     | _, _ => False) ∧
    (c.refs.length ≤ 4 →
      match (c.nextRef).1, (sliceOf c).nextRef with
      | .ok r, .ok (cell, s') => Bridge.toCell r = cell ∧ sliceOf (c.nextRef).2 = s'
      | .err e, .err e' => e = e'
      | _, _ => False) :=
  ⟨cell_addRef_bridge c r, cell_nextRef_bridge c⟩

end Tongo.Hashmap.Bridge
