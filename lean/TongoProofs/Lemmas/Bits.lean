import TongoModel.Bits
import Mathlib.Tactic.Ring
/-! Basic lemmas about ideal bit lists (helper lemmas, shared by the property files).  -/
namespace Tongo.Bits

@[simp] theorem natToBits_length (n v : Nat) : (natToBits n v).length = n := by
  induction n with
  | zero => rfl
  | succ n ih => simp [natToBits, ih]

theorem bitsToNat_foldl (l : List Bool) (a : Nat) :
    l.foldl (fun acc b => 2 * acc + b.toNat) a = a * 2 ^ l.length + bitsToNat l := by
  induction l generalizing a with
  | nil => simp [bitsToNat]
  | cons b t ih =>
    simp only [List.foldl_cons, List.length_cons, bitsToNat]
    rw [ih, ih (2 * 0 + b.toNat)]
    simp only [Nat.mul_zero, Nat.zero_add, Nat.pow_succ]
    ring

@[simp] theorem bitsToNat_nil : bitsToNat [] = 0 := rfl

theorem bitsToNat_cons (b : Bool) (t : List Bool) : bitsToNat (b :: t) = b.toNat * 2 ^ t.length + bitsToNat t := by
  have := bitsToNat_foldl t (2 * 0 + b.toNat)
  simp only [bitsToNat, List.foldl_cons] at *
  simpa using this

theorem bitsToNat_append (a b : List Bool) : bitsToNat (a ++ b) = bitsToNat a * 2 ^ b.length + bitsToNat b := by
  unfold bitsToNat
  rw [List.foldl_append, bitsToNat_foldl]
  rfl

theorem bitsToNat_lt (l : List Bool) : bitsToNat l < 2 ^ l.length := by
  induction l with
  | nil => simp
  | cons b t ih =>
    rw [bitsToNat_cons, List.length_cons, Nat.pow_succ]
    cases b <;> simp <;> omega

theorem bitsToNat_natToBits (n v : Nat) : bitsToNat (natToBits n v) = v % 2 ^ n := by
  induction n with
  | zero => simp [natToBits, Nat.mod_one]
  | succ n ih =>
    rw [natToBits, bitsToNat_cons, ih, natToBits_length]
    have h := Nat.testBit_eq_decide_div_mod_eq (x := v) (i := n)
    have hv : v % 2 ^ (n + 1) = (v / 2 ^ n % 2) * 2 ^ n + v % 2 ^ n := by
      rw [Nat.pow_succ, Nat.mod_mul, Nat.add_comm, Nat.mul_comm]
    rw [hv, h]
    rcases Nat.mod_two_eq_zero_or_one (v / 2 ^ n) with h0 | h1
    · simp [h0]
    · simp [h1]

theorem natToBits_bitsToNat (l : List Bool) : natToBits l.length (bitsToNat l) = l := by
  induction l with
  | nil => rfl
  | cons b t ih =>
    rw [List.length_cons, natToBits]
    have hlt := bitsToNat_lt t
    have htb : (bitsToNat (b :: t)).testBit t.length = b := by
      rw [bitsToNat_cons, Nat.testBit_eq_decide_div_mod_eq]
      cases b
      · simp [Nat.div_eq_of_lt hlt]
      · simp only [Bool.toNat_true, Nat.one_mul]
        rw [Nat.add_div_left _ (Nat.two_pow_pos _), Nat.div_eq_of_lt hlt]
        simp
    rw [htb]
    congr 1
    -- the low bits do not see the leading bit
    have : ∀ (n : Nat) (x y : Nat), natToBits n (x * 2 ^ n + y) = natToBits n y := by
      intro n
      induction n with
      | zero => intros; rfl
      | succ n ihn =>
        intro x y
        rw [natToBits, natToBits]
        have e : x * 2 ^ (n + 1) + y = (x * 2) * 2 ^ n + y := by rw [Nat.pow_succ, Nat.mul_assoc, Nat.mul_comm (2 ^ n) 2]
        congr 1
        · rw [Nat.testBit_eq_decide_div_mod_eq, Nat.testBit_eq_decide_div_mod_eq, e,
            Nat.add_comm, Nat.add_mul_div_right _ _ (Nat.two_pow_pos _), Nat.add_mul_mod_self_right]
        · rw [e]; exact ihn (x * 2) y
    rw [bitsToNat_cons, this, ih]

theorem natToBits_mod (n v : Nat) : natToBits n (v % 2 ^ n) = natToBits n v := by
  have h := natToBits_bitsToNat (natToBits n v)
  rw [natToBits_length, bitsToNat_natToBits] at h
  exact h

end Tongo.Bits
