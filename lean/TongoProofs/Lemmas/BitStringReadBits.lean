import TongoProofs.Lemmas.BitStringBytes
/-! `ReadBits`: the bit loop and the byte-aligned copy with masked last byte both return a canonical bit string
holding the next `n` bits. Helper lemmas only. -/
namespace Tongo.BitString
open Tongo.Bits

@[simp] theorem onOther_run {α} (o : BitString) (x : M α) (s : BitString) :
    onOther o x s = match x o with
      | (.ok a, o') => (.ok (a, o'), s)
      | (.err e, _) => (.err e, s)
      | (.panic p, _) => (.panic p, s) := rfl

/-- the bit loop of `ReadBits` -/
theorem readBitsLoop_ok (n : Nat) : ∀ (dst s : BitString), Inv dst → dst.len + n ≤ dst.cap →
    s.len ≤ 8 * s.buf.length → s.rCursor + n ≤ s.len →
    ∃ dst', readBitsLoop n dst s = (.ok dst', { s with rCursor := s.rCursor + n }) ∧
      abs dst' = abs dst ++ nextBits s n ∧ Inv dst' ∧ dst'.cap = dst.cap ∧ dst'.rCursor = dst.rCursor := by
  induction n with
  | zero =>
    intro dst s hi _ _ _
    exact ⟨dst, by simp [readBitsLoop], by simp [nextBits], hi, rfl, rfl⟩
  | succ n ih =>
    intro dst s hi hfit h8 h
    have hn : s.rCursor < s.len := by omega
    obtain ⟨d1, hw, ha, hi1, hc, hr, hl, _⟩ := writeBit_ok ((abs s)[s.rCursor]'(by rw [abs_length h8]; exact hn)) dst hi (by omega)
    obtain ⟨d2, hloop, ha2, hi2, hc2, hr2⟩ := ih d1 { s with rCursor := s.rCursor + 1 } hi1 (by omega) h8 (by simp; omega)
    refine ⟨d2, ?_, ?_, hi2, by rw [hc2, hc], by rw [hr2, hr]⟩
    · rw [readBitsLoop, bind_run, readBit_run s h8]
      simp only [hn, dite_true, bind_run, onOther_run, hw, hloop]
      simp [Nat.add_assoc, Nat.add_comm 1 n]
    · rw [ha2, ha, nextBits_succ s n h8 hn, List.append_assoc]; rfl

theorem mask_testBit : ∀ r, r < 8 → 0 < r → ∀ j, j < 8 →
    ((0xFF : UInt8) <<< UInt8.ofNat (8 - r)).toNat.testBit j = decide (8 - r ≤ j) := by decide

theorem maskTail_length (X : List UInt8) (n : Nat) : (maskTail X n).length = X.length := by
  unfold maskTail
  split
  · rfl
  · cases h : X.getLast? with
    | none => rfl
    | some b =>
      have hne : X ≠ [] := by intro e; simp [e] at h
      have := List.length_pos_iff.mpr hne
      simp; omega

/-- the repaired aligned path: the last byte keeps its first `n % 8` bits, the rest is cleared -/
theorem maskTail_bits (X : List UInt8) (n : Nat) (hm : X.length = (n + 7) / 8) :
    bytesToBits (maskTail X n) = (bytesToBits X).take n ++ List.replicate (8 * X.length - n) false := by
  by_cases h0 : n % 8 = 0
  · have : 8 * X.length = n := by omega
    simp only [maskTail, h0, if_true]
    rw [List.take_of_length_le (by simp; omega)]
    simp [this]
  · have hpos : 0 < X.length := by omega
    have hne : X ≠ [] := by intro e; simp [e] at hpos
    have hmt : maskTail X n = X.dropLast ++ [X.getLast hne &&& ((0xFF : UInt8) <<< UInt8.ofNat (8 - n % 8))] := by
      simp only [maskTail, h0, if_false, List.getLast?_eq_some_getLast hne]
    apply List.ext_getElem?
    intro i
    have hR : ((bytesToBits X).take n ++ List.replicate (8 * X.length - n) false)[i]? =
        if i < n then (bytesToBits X)[i]? else if i - n < 8 * X.length - n then some false else none := by
      rw [List.getElem?_append, List.length_take, bytesToBits_length]
      have hmin : min n (8 * X.length) = n := by omega
      rw [hmin, List.getElem?_take, List.getElem?_replicate]
      by_cases hin : i < n <;> simp [hin]
    rw [hR, bytesToBits_getElem?, bytesToBits_getElem?, hmt]
    have hdl : X.dropLast.length = X.length - 1 := by simp
    by_cases hlast : i / 8 < X.length - 1
    · -- a byte before the last one: unchanged, and below n
      have hin : i < n := by omega
      rw [List.getElem?_append_left (by omega), List.getElem?_dropLast]
      simp [hin, hlast]
    · by_cases hlen : i / 8 = X.length - 1
      · -- the last byte
        rw [List.getElem?_append_right (by omega)]
        have e0 : i / 8 - X.dropLast.length = 0 := by omega
        rw [e0]
        simp only [List.getElem?_cons_zero, Option.map_some, UInt8.toNat_and, Nat.testBit_and]
        have hX : X[i / 8]? = some (X.getLast hne) := by
          rw [List.getLast_eq_getElem, List.getElem?_eq_getElem (by omega)]
          simp [hlen]
        rw [mask_testBit (n % 8) (Nat.mod_lt _ (by decide)) (by omega) (7 - i % 8) (by omega)]
        by_cases hin : i < n
        · have : 8 - n % 8 ≤ 7 - i % 8 := by omega
          simp [hin, hX, this]
        · have : ¬ 8 - n % 8 ≤ 7 - i % 8 := by omega
          have h2 : i - n < 8 * X.length - n := by omega
          simp [hin, this, h2]
      · -- beyond the buffer
        have hin : ¬ i < n := by omega
        have h2 : ¬ i - n < 8 * X.length - n := by omega
        rw [List.getElem?_eq_none (by simp; omega)]
        simp [hin, h2]

/-- `ReadBits(n)`: a bit string of capacity and length `n` holding the next `n` bits, with a clean tail -/
theorem readBits_ok (n : Nat) (s : BitString) (h8 : s.len ≤ 8 * s.buf.length) (h : s.rCursor + n ≤ s.len) :
    ∃ r, readBits n s = (.ok r, { s with rCursor := s.rCursor + n }) ∧ abs r = nextBits s n ∧ Inv r ∧
      r.cap = n ∧ r.len = n ∧ r.rCursor = 0 := by
  have a1 : ¬ s.len < s.rCursor + n := by omega
  simp only [readBits, bind_run, needBits_run, a1, if_false, get_run, ite_run]
  by_cases hal : s.rCursor % 8 = 0
  · have hnl : (new n).buf.length = (n + 7) / 8 := by simp [new]
    have a2 : ¬ s.rCursor / 8 + (new n).buf.length > s.buf.length := by rw [hnl]; omega
    simp only [hal, if_true, a2, if_false, advance_run, pure_run]
    rw [hnl]
    generalize hXd : (s.buf.drop (s.rCursor / 8)).take ((n + 7) / 8) = X
    have hX : X.length = (n + 7) / 8 := by
      rw [← hXd, List.length_take, List.length_drop]; omega
    have hbits := maskTail_bits X n hX
    have hXbits : (bytesToBits X).take n = nextBits s n := by
      rw [← hXd, bytesToBits_take, bytesToBits_drop, nextBits_eq s n h, List.take_take]
      have e1 : 8 * (s.rCursor / 8) = s.rCursor := by omega
      have e2 : min n (8 * ((n + 7) / 8)) = n := by omega
      rw [e1, e2]
    have hl : ((bytesToBits X).take n).length = n := by simp [hX]; omega
    refine ⟨_, rfl, ?_, ?_, rfl, rfl, rfl⟩
    · show List.take n (bytesToBits (maskTail X n)) = nextBits s n
      rw [hbits, List.take_append_of_le_length (by omega), List.take_take, Nat.min_self, hXbits]
    · refine ⟨Nat.le_refl _, ?_, Nat.zero_le _, ?_⟩
      · show n ≤ 8 * (maskTail X n).length
        rw [maskTail_length, hX]; omega
      · show List.drop n (bytesToBits (maskTail X n)) = List.replicate (8 * (maskTail X n).length - n) false
        rw [hbits, List.drop_append_of_le_length (by omega), List.drop_of_length_le (by omega), List.nil_append,
          maskTail_length]
  · simp only [hal, if_false]
    have hnew : (new n).len + n ≤ (new n).cap := by simp [new]
    obtain ⟨d, hl, ha, hi, hc, hrc⟩ := readBitsLoop_ok n (new n) s (inv_new n) hnew h8 h
    refine ⟨d, hl, by rw [ha, abs_new]; rfl, hi, by rw [hc]; rfl, ?_, by rw [hrc]; rfl⟩
    have := hi.abs_length
    rw [ha, abs_new, List.nil_append, nextBits_length s n h8 h] at this
    exact this.symm

theorem readBits_underflow (n : Nat) (s : BitString) (h : s.len < s.rCursor + n) :
    readBits n s = (.err errNotEnough, s) := by
  simp only [readBits, bind_run, needBits_run, h, if_true]

end Tongo.BitString
