import TongoModel.WalletSendMsg
import TongoProofs.Lemmas.WalletMsg
import TongoProofs.Lemmas.NoPanic
/-! Lemmas for the message-level send model and the option lists of the three address APIs. -/
namespace Tongo.Wallet
open Tongo Tongo.Bits

/-- the last `WithWorkchain` / `WithSubWalletID` / `WithNetworkGlobalID` of an option list (none if there is none) -/
def lastWorkchain (l : List OptSetter) : Option Int := l.reverse.findSome? fun | .workchain w => some w | _ => none
def lastSubWallet (l : List OptSetter) : Option Nat := l.reverse.findSome? fun | .subWallet s => some s | _ => none
def lastNet (l : List OptSetter) : Option Int := l.reverse.findSome? fun | .net n => some n | _ => none

theorem lastWorkchain_cons (x : OptSetter) (l : List OptSetter) :
    lastWorkchain (x :: l) = (lastWorkchain l <|> (match x with | .workchain w => some w | _ => none)) := by
  simp [lastWorkchain, List.reverse_cons, List.findSome?_append]
theorem lastSubWallet_cons (x : OptSetter) (l : List OptSetter) :
    lastSubWallet (x :: l) = (lastSubWallet l <|> (match x with | .subWallet w => some w | _ => none)) := by
  simp [lastSubWallet, List.reverse_cons, List.findSome?_append]
theorem lastNet_cons (x : OptSetter) (l : List OptSetter) :
    lastNet (x :: l) = (lastNet l <|> (match x with | .net w => some w | _ => none)) := by
  simp [lastNet, List.reverse_cons, List.findSome?_append]

theorem foldl_apply_eq (l : List OptSetter) : ∀ (o : Opts), l.foldl OptSetter.apply o =
    { workchain := (lastWorkchain l <|> o.workchain), subWallet := (lastSubWallet l <|> o.subWallet), net := (lastNet l <|> o.net) } := by
  induction l with
  | nil => intro o; simp [lastWorkchain, lastSubWallet, lastNet]
  | cons x l ih =>
    intro o
    rw [List.foldl_cons, ih, lastWorkchain_cons, lastSubWallet_cons, lastNet_cons]
    cases x <;> cases lastWorkchain l <;> cases lastSubWallet l <;> cases lastNet l <;> simp [OptSetter.apply]

/-- `applyOptions`: later options override earlier ones, options of different kinds do not interfere — whatever the
order and the repetitions in the caller's list -/
theorem applyOptions_eq (l : List OptSetter) :
    applyOptions l = { workchain := lastWorkchain l, subWallet := lastSubWallet l, net := lastNet l } := by
  unfold applyOptions
  rw [foldl_apply_eq]
  simp

theorem applyOptions_generated (net : Option Int) (wc : Int) (sub : Option Nat) :
    applyOptions (generatedOptions net wc sub) = { workchain := some wc, subWallet := sub, net := net } := by
  cases net <;> cases sub <;> rfl

/-- the address and the state init depend on the workchain option only through its defaulted value -/
theorem walletStateInit_wc (code : Cell) (v : Version) (pk : List UInt8) (o : Opts) :
    walletStateInit code v pk o = walletStateInit code v pk { o with workchain := some o.wc } := by
  simp only [walletStateInit, dataCell, dataBits, dataBitsSeq, Opts.subDefault, Opts.wc, Opts.netOr,
    walletIdV5R1, Option.getD]

theorem address_wc (H : List UInt8 → List UInt8) (code : Cell) (v : Version) (pk : List UInt8) (o : Opts) :
    address H code v pk o = address H code v pk { o with workchain := some o.wc } := by
  unfold address
  rw [← walletStateInit_wc]
  rfl

/-- `createSignedMsgBodyCell` for v3, v4, v5r1, v5 beta: the signed layout with the signature of its hash attached -/
theorem createSignedBody_ok (H : List UInt8 → List UInt8) (sign : List UInt8 → List UInt8 → List UInt8)
    (hsl : ∀ sk m, (sign sk m).length = 64) (sk : List UInt8)
    (v : Version) (hf : v.family = .v3 ∨ v.family = .v4 ∨ v.family = .v5r1 ∨ v.family = .v5beta)
    (ids : BodyIds) (op seqno vu rnd : Nat) (msgs : List RawMsg) (hn : (v.family = .v3 ∨ v.family = .v4) → msgs.length ≤ 4)
    (hdep : (signedLayout v ids op seqno vu msgs).depthO ≤ maxDepth) :
    createSignedBody H sign sk v ids op seqno vu rnd msgs =
      .ok (attached v (sign sk ((signedLayout v ids op seqno vu msgs).hashO H)) (signedLayout v ids op seqno vu msgs)) := by
  obtain ⟨hb, hr, _, _⟩ := signedLayout_size v ids op seqno vu msgs hn
  unfold createSignedBody
  rw [signedCell_ok v ids op seqno vu rnd msgs hf hn]
  simp only [bind, Outcome.bind, Cell.hashO?, hdep, ↓reduceIte]
  rw [attachSignature_ok v _ (hsl _ _) _ hb hr]
  rfl

/-- what a successful build is: address, body, envelope -/
theorem buildExternal_ok {c : SendCfg} {seqno vu rnd : Nat} {msgs : List RawMsg} {init : Bool} {m : Cell}
    (h : buildExternal c seqno vu rnd msgs init = .ok m) :
    ∃ self body, address c.H c.code c.v c.pk c.o = .ok self ∧
      createSignedBody c.H c.sign c.sk c.v (bodyIds c.v c.o) opSignedExternal seqno vu rnd msgs = .ok body ∧
      extMessage self body (if init then some (walletStateInit c.code c.v c.pk c.o) else none) = .ok m := by
  unfold buildExternal at h
  simp only [bind] at h
  obtain ⟨self, hs, h⟩ := Outcome.bind_eq_ok.mp h
  obtain ⟨body, hb, h⟩ := Outcome.bind_eq_ok.mp h
  exact ⟨self, body, hs, hb, h⟩

/-- whatever `rawSendV2Msg` hands to `SendMessage` is the built message, and the batch was within the limit -/
theorem rawSendV2Msg_sent {c : SendCfg} {loop : Nat → Nat → List Poll → Bool} {seqno vu rnd : Nat} {msgs : List RawMsg}
    {init : Bool} {sc : Script} {wait : Nat} {m : Cell}
    (h : (rawSendV2Msg c loop seqno vu rnd msgs init sc wait).sent = some m) :
    msgs.length ≤ maxMessages c.v ∧ buildExternal c seqno vu rnd msgs init = .ok m := by
  unfold rawSendV2Msg at h
  split at h
  · simp at h
  · rename_i hle
    refine ⟨by omega, ?_⟩
    cases hb : buildExternal c seqno vu rnd msgs init with
    | err e => simp [hb] at h
    | panic p => simp [hb] at h
    | ok m' =>
      simp only [hb] at h
      have : m' = m := by
        repeat' split at h
        all_goals simp_all
      rw [this]

end Tongo.Wallet
