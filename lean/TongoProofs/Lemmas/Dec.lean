import TongoModel.Prim.Dec
/-! Lemmas about decimal / hexadecimal number text: the printers produce digit strings that the transcribed
strconv loops read back, with the exact range behaviour. -/
namespace Tongo.Dec

theorem digitOf_digitChar : ∀ d, d < 36 → digitOf (digitChar d) = some d := by decide

theorem digitChar_toNat : ∀ d, d < 36 → (digitChar d).toNat = if d < 10 then 48 + d else 87 + d := by decide

theorem printNatB_ne_nil (b n : Nat) : printNatB b n ≠ [] := by
  rw [printNatB]; split <;> simp

/-- every character of the output is a digit of the base -/
theorem printNatB_digits (b : Nat) (hb : 2 ≤ b) (n : Nat) : ∀ c ∈ printNatB b n, ∃ d, d < b ∧ c = digitChar d := by
  induction n using Nat.strongRecOn with
  | _ n ih =>
    rw [printNatB]
    split
    · rename_i h
      intro c hc
      simp only [List.mem_singleton] at hc
      exact ⟨n, by omega, hc⟩
    · rename_i h
      intro c hc
      simp only [List.mem_append, List.mem_singleton] at hc
      rcases hc with hc | hc
      · exact ih (n / b) (Nat.div_lt_self (by omega) (by omega)) c hc
      · exact ⟨n % b, Nat.mod_lt _ (by omega), hc⟩

theorem parseUintLoop_append (b M : Nat) (s t : Str) (acc : Nat) :
    parseUintLoop b M acc (s ++ t) =
      match parseUintLoop b M acc s with
      | .ok a => parseUintLoop b M a t
      | e => e := by
  induction s generalizing acc with
  | nil => simp [parseUintLoop]
  | cons c cs ih =>
    simp only [List.cons_append, parseUintLoop]
    split
    · rfl
    · split
      · rfl
      · split
        · rfl
        · split
          · rfl
          · exact ih _

/-- one step of the loop on a digit of the base -/
theorem parseUintLoop_single (b M acc d : Nat) (hb : 2 ≤ b) (hb' : b ≤ 36) (hd : d < b) :
    parseUintLoop b M acc [digitChar d] =
      if acc ≥ (2 ^ 64 - 1) / b + 1 then .range
      else if (acc * b + d) % 2 ^ 64 < acc * b ∨ (acc * b + d) % 2 ^ 64 > M then .range
      else .ok ((acc * b + d) % 2 ^ 64) := by
  simp only [parseUintLoop, digitOf_digitChar d (by omega)]
  have : ¬ d ≥ b := by omega
  simp only [this, if_false]

/-- reading back what the printer wrote: the value when it fits, a range error otherwise -/
theorem parseUintLoop_print (b M : Nat) (hb : 2 ≤ b) (hb' : b ≤ 36) (hM : M < 2 ^ 64) (n : Nat) :
    parseUintLoop b M 0 (printNatB b n) = if n ≤ M then .ok n else .range := by
  induction n using Nat.strongRecOn with
  | _ n ih =>
    rw [printNatB]
    split
    · rename_i h
      have hn : n < b := by omega
      rw [parseUintLoop_single b M 0 n hb hb' hn]
      have hc : ¬ (0 ≥ (2 ^ 64 - 1) / b + 1) := Nat.not_succ_le_zero _
      simp only [hc, if_false, Nat.zero_mul, Nat.zero_add]
      have : n % 2 ^ 64 = n := Nat.mod_eq_of_lt (by omega)
      rw [this]
      by_cases hle : n ≤ M
      · simp [hle]
      · simp [hle]
    · rename_i h
      have hnb : b ≤ n := by omega
      have hlt : n / b < n := Nat.div_lt_self (by omega) (by omega)
      rw [parseUintLoop_append, ih (n / b) hlt]
      have hdm : n / b * b + n % b = n := by rw [Nat.mul_comm]; exact Nat.div_add_mod n b
      by_cases hq : n / b ≤ M
      · simp only [hq, if_true]
        rw [parseUintLoop_single b M (n / b) (n % b) hb hb' (Nat.mod_lt _ (by omega)), hdm]
        by_cases hcut : n / b ≥ (2 ^ 64 - 1) / b + 1
        · -- n / b > maxUint64 / b  ⇒  n > maxUint64 ≥ M
          simp only [hcut, if_true]
          have : ¬ n ≤ M := by
            intro hle
            have h1 : n / b ≤ (2 ^ 64 - 1) / b := Nat.div_le_div_right (by omega)
            omega
          simp [this]
        · simp only [hcut, if_false]
          have hq64 : n / b * b < 2 ^ 64 := by
            have h1 : n / b ≤ (2 ^ 64 - 1) / b := by omega
            have h2 : (2 ^ 64 - 1) / b * b ≤ 2 ^ 64 - 1 := Nat.div_mul_le_self _ _
            have h3 : n / b * b ≤ (2 ^ 64 - 1) / b * b := Nat.mul_le_mul_right _ h1
            omega
          by_cases h64 : n < 2 ^ 64
          · rw [Nat.mod_eq_of_lt h64]
            by_cases hle : n ≤ M
            · have : ¬ (n < n / b * b ∨ n > M) := by omega
              simp [this, hle]
            · have : (n < n / b * b ∨ n > M) := by omega
              simp [this, hle]
          · -- the uint64 addition wraps: n1 = n - 2^64 < n'
            have hmod : n % 2 ^ 64 = n - 2 ^ 64 := by
              have hd : n % b < b := Nat.mod_lt _ (by omega)
              rw [Nat.mod_eq_sub_mod (by omega)]
              exact Nat.mod_eq_of_lt (by omega)
            have hd : n % b < b := Nat.mod_lt _ (by omega)
            have : (n % 2 ^ 64 < n / b * b ∨ n % 2 ^ 64 > M) := by left; omega
            have hle : ¬ n ≤ M := by omega
            simp [this, hle]
      · simp only [hq, if_false]
        have : ¬ n ≤ M := by
          intro hle
          have : n / b ≤ n := Nat.div_le_self _ _
          omega
        simp [this]

theorem parseUint_printNatB (b bits : Nat) (hb : 2 ≤ b) (hb' : b ≤ 36) (h1 : 1 ≤ bits) (h64 : bits ≤ 64) (n : Nat) :
    parseUint (printNatB b n) b bits = if n < 2 ^ bits then .ok n else .range := by
  unfold parseUint
  simp only [printNatB_ne_nil, if_false]
  have : ¬ bits > 64 := by omega
  have hb0 : ¬ bits = 0 := by omega
  simp only [this, if_false, hb0]
  have hpow : 2 ^ bits ≤ 2 ^ 64 := Nat.pow_le_pow_right (by omega) h64
  have hpos : 0 < 2 ^ bits := Nat.two_pow_pos bits
  rw [parseUintLoop_print b (2 ^ bits - 1) hb hb' (by omega) n]
  by_cases h : n < 2 ^ bits
  · have : n ≤ 2 ^ bits - 1 := by omega
    simp [h, this]
  · have : ¬ n ≤ 2 ^ bits - 1 := by omega
    simp [h, this]

theorem parseUint_printNat (bits : Nat) (h1 : 1 ≤ bits) (h64 : bits ≤ 64) (n : Nat) :
    parseUint (printNat n) 10 bits = if n < 2 ^ bits then .ok n else .range :=
  parseUint_printNatB 10 bits (by omega) (by omega) h1 h64 n

/-- the first character of a printed number is not a sign -/
theorem printNatB_head (b : Nat) (hb : 2 ≤ b) (hb' : b ≤ 36) (n : Nat) :
    ∃ c r, printNatB b n = c :: r ∧ c ≠ '-' ∧ c ≠ '+' ∧ c ≠ '"' := by
  have hne := printNatB_ne_nil b n
  match hp : printNatB b n with
  | [] => exact absurd hp hne
  | c :: r =>
    refine ⟨c, r, rfl, ?_⟩
    obtain ⟨d, hd, hc⟩ := printNatB_digits b hb n c (by rw [hp]; simp)
    subst hc
    have : ∀ d, d < 36 → digitChar d ≠ '-' ∧ digitChar d ≠ '+' ∧ digitChar d ≠ '"' := by decide
    exact this d (by omega)

theorem printNat_all_digits (n : Nat) : ∀ c ∈ printNat n, isDigit c = true := by
  intro c hc
  obtain ⟨d, hd, rfl⟩ := printNatB_digits 10 (by omega) n c hc
  have : ∀ d, d < 10 → isDigit (digitChar d) = true := by decide
  exact this d hd

theorem digitsVal_append_single (s : Str) (c : Char) : digitsVal (s ++ [c]) = digitsVal s * 10 + (c.toNat - 48) := by
  simp [digitsVal, List.foldl_append]

theorem digitsVal_printNat (n : Nat) : digitsVal (printNat n) = n := by
  induction n using Nat.strongRecOn with
  | _ n ih =>
    unfold printNat
    rw [printNatB]
    split
    · rename_i h
      have hn : n < 10 := by omega
      have : ∀ d, d < 10 → digitsVal [digitChar d] = d := by decide
      exact this n hn
    · rename_i h
      have hlt : n / 10 < n := Nat.div_lt_self (by omega) (by omega)
      rw [digitsVal_append_single]
      have := ih (n / 10) hlt
      unfold printNat at this
      rw [this]
      have hd : ∀ d, d < 10 → (digitChar d).toNat - 48 = d := by decide
      rw [hd (n % 10) (Nat.mod_lt _ (by omega))]
      omega

/-- no leading zero: a printed number starting with `0` is `0` -/
theorem printNat_leading_zero (n : Nat) (r : Str) (h : printNat n = '0' :: r) : r = [] := by
  induction n using Nat.strongRecOn generalizing r with
  | _ n ih =>
    unfold printNat at h
    rw [printNatB] at h
    split at h
    · simp at h; exact h.2
    · rename_i hn
      have hlt : n / 10 < n := Nat.div_lt_self (by omega) (by omega)
      have hpos : 0 < n / 10 := Nat.div_pos (by omega) (by omega)
      -- the head comes from printNat (n / 10), which then is "0", i.e. n / 10 = 0: contradiction
      obtain ⟨c, r', hp, _⟩ := printNatB_head 10 (by omega) (by omega) (n / 10)
      rw [hp] at h
      simp only [List.cons_append, List.cons.injEq] at h
      have hc : c = '0' := h.1
      subst hc
      have hr' := ih (n / 10) hlt r' hp
      subst hr'
      have hv := digitsVal_printNat (n / 10)
      unfold printNat at hv
      rw [hp] at hv
      have : digitsVal ['0'] = 0 := by decide
      omega

/-- unfolding of strconv.ParseInt on a printed integer: the sign is picked off, the digits go through ParseUint -/
theorem parseInt_printInt_unfold (bits : Nat) (h1 : 1 ≤ bits) (h64 : bits ≤ 64) (v : Int) :
    parseInt (printInt v) 10 bits =
      let n := v.natAbs
      let un := if n < 2 ^ bits then n else 2 ^ bits - 1
      let cutoff := 2 ^ (bits - 1)
      if v < 0 then (if un > cutoff then .err "range" else .ok (-(un : Int)))
      else (if un ≥ cutoff then .err "range" else .ok (un : Int)) := by
  have hb0 : ¬ bits = 0 := by omega
  unfold printInt
  split
  · rename_i hv
    simp only [parseInt, beq_self_eq_true, or_true, if_true,
      parseUint_printNat bits h1 h64 v.natAbs, hb0, if_false]
    by_cases hlt : v.natAbs < 2 ^ bits
    · simp only [hlt, if_true]
      by_cases hc : v.natAbs > 2 ^ (bits - 1)
      · simp [hc]
      · simp [hc]
    · simp only [hlt, if_false]
      by_cases hc : 2 ^ bits - 1 > 2 ^ (bits - 1)
      · simp [hc]
      · simp [hc]
  · rename_i hv
    obtain ⟨c, r, hp, hm, hpl, _⟩ := printNatB_head 10 (by omega) (by omega) v.natAbs
    unfold printNat
    rw [hp]
    have hm' : (c == '-') = false := by simpa using hm
    have hpl' : (c == '+') = false := by simpa using hpl
    simp only [parseInt, hm', hpl', Bool.false_eq_true, or_self, if_false, ← hp,
      parseUint_printNatB 10 bits (by omega) (by omega) h1 h64 v.natAbs, hb0]
    by_cases hlt : v.natAbs < 2 ^ bits
    · simp only [hlt, if_true]
      by_cases hc : v.natAbs ≥ 2 ^ (bits - 1)
      · simp [hc]
      · simp [hc]
    · simp only [hlt, if_false]
      by_cases hc : 2 ^ bits - 1 ≥ 2 ^ (bits - 1)
      · simp [hc]
      · simp [hc]

theorem two_pow_pred_lt (bits : Nat) (h1 : 1 ≤ bits) : 2 ^ (bits - 1) < 2 ^ bits ∧ 2 ^ (bits - 1) + 2 ^ (bits - 1) = 2 ^ bits := by
  have : bits = (bits - 1) + 1 := by omega
  constructor
  · exact Nat.pow_lt_pow_right (by omega) (by omega)
  · conv => rhs; rw [this, Nat.pow_succ]
    omega

/-- every value of the `bits`-bit two's-complement range is read back -/
theorem parseInt_printInt_in_range (bits : Nat) (h1 : 1 ≤ bits) (h64 : bits ≤ 64) (v : Int)
    (hlo : -(2 ^ (bits - 1) : Int) ≤ v) (hhi : v < (2 ^ (bits - 1) : Int)) :
    parseInt (printInt v) 10 bits = .ok v := by
  rw [parseInt_printInt_unfold bits h1 h64 v]
  obtain ⟨hp1, hp2⟩ := two_pow_pred_lt bits h1
  have hcast : ((2 ^ (bits - 1) : Nat) : Int) = (2 ^ (bits - 1) : Int) := by norm_cast
  simp only []
  by_cases hv : v < 0
  · have hn : v.natAbs ≤ 2 ^ (bits - 1) := by omega
    have hlt : v.natAbs < 2 ^ bits := by omega
    have : ¬ v.natAbs > 2 ^ (bits - 1) := by omega
    simp only [hv, hlt, if_true, this, if_false]
    congr 1; omega
  · have hn : v.natAbs < 2 ^ (bits - 1) := by omega
    have hlt : v.natAbs < 2 ^ bits := by omega
    have : ¬ v.natAbs ≥ 2 ^ (bits - 1) := by omega
    simp only [hv, hlt, if_true, this, if_false]
    congr 1; omega

/-- every literal outside the range is an error — for bit sizes of at least 2 (strconv's bit size 1 maps every
literal below −1 to −1 without an error, see `parseInt_bits1_quirk`) -/
theorem parseInt_printInt_out_of_range (bits : Nat) (h2 : 2 ≤ bits) (h64 : bits ≤ 64) (v : Int)
    (h : ¬ (-(2 ^ (bits - 1) : Int) ≤ v ∧ v < (2 ^ (bits - 1) : Int))) :
    parseInt (printInt v) 10 bits = .err "range" := by
  rw [parseInt_printInt_unfold bits (by omega) h64 v]
  obtain ⟨hp1, hp2⟩ := two_pow_pred_lt bits (by omega)
  have hcast : ((2 ^ (bits - 1) : Nat) : Int) = (2 ^ (bits - 1) : Int) := by norm_cast
  have hbig : 2 ≤ 2 ^ (bits - 1) := by
    have : 2 ^ 1 ≤ 2 ^ (bits - 1) := Nat.pow_le_pow_right (by omega) (by omega)
    simpa using this
  simp only []
  by_cases hv : v < 0
  · have hn : v.natAbs > 2 ^ (bits - 1) := by omega
    simp only [hv, if_true]
    by_cases hlt : v.natAbs < 2 ^ bits
    · simp [hlt, hn]
    · have : 2 ^ bits - 1 > 2 ^ (bits - 1) := by omega
      simp [hlt, this]
  · have hn : v.natAbs ≥ 2 ^ (bits - 1) := by omega
    simp only [hv, if_false]
    by_cases hlt : v.natAbs < 2 ^ bits
    · simp [hlt, hn]
    · have : 2 ^ bits - 1 ≥ 2 ^ (bits - 1) := by omega
      simp [hlt, this]

/-- strconv quirk, reproduced by the model: with bit size 1 (tlb.Int1) the literals below −1 are accepted as −1 -/
theorem parseInt_bits1_quirk (v : Int) (hv : v < -1) : parseInt (printInt v) 10 1 = .ok (-1) := by
  rw [parseInt_printInt_unfold 1 (by omega) (by omega) v]
  have : ¬ v.natAbs < 2 ^ 1 := by omega
  simp [this]; omega

theorem splitSign_of_head (c : Char) (r : Str) (hm : c ≠ '-') (hp : c ≠ '+') : splitSign (c :: r) = (false, c :: r) := by
  unfold splitSign
  split
  · rename_i h; simp only [List.cons.injEq] at h; exact absurd h.1 hm
  · rename_i h; simp only [List.cons.injEq] at h; exact absurd h.1 hp
  · rfl

theorem parseBig_printInt (v : Int) : parseBig (printInt v) = .ok v := by
  have hall : (printNat v.natAbs).all isDigit = true := by
    rw [List.all_eq_true]; exact printNat_all_digits _
  have hne : printNat v.natAbs ≠ [] := printNatB_ne_nil 10 _
  have hval := digitsVal_printNat v.natAbs
  unfold printInt
  split
  · rename_i hv
    have e : splitSign ('-' :: printNat v.natAbs) = (true, printNat v.natAbs) := rfl
    simp only [parseBig, e, hne, if_false, hall, if_true, hval]
    congr 1; omega
  · rename_i hv
    obtain ⟨c, r, hp, hm, hpl, _⟩ := printNatB_head 10 (by omega) (by omega) v.natAbs
    have hp' : printNat v.natAbs = c :: r := hp
    have e : splitSign (printNat v.natAbs) = (false, printNat v.natAbs) := by
      rw [hp']; exact splitSign_of_head c r hm hpl
    simp only [parseBig, e, hne, if_false, hall, if_true, hval, Bool.false_eq_true]
    congr 1; omega

end Tongo.Dec
