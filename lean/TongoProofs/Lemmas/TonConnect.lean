import TongoModel.TonConnect
import TongoProofs.Lemmas.NoPanic
import TongoProofs.Lemmas.CellRead
import TongoProofs.Lemmas.Wallet
/-! Helper lemmas for C19: totality and key lengths of the key-obtaining paths, parse∘print for the textual fields,
injectivity of the fixed-width byte encodings. -/
namespace Tongo.TonConnect
open Tongo Tongo.Bits Tongo.Wallet

/-! ### totality -/

theorem hashO?_np (H : List UInt8 → List UInt8) (c : Cell) : NoPanic (c.hashO? H) := by
  unfold Cell.hashO?; nopanic

theorem getWalletPubKey_np (g : Getter) : NoPanic (getWalletPubKey g) := by
  unfold getWalletPubKey; nopanic

theorem getWalletPubKey_len {g : Getter} {k : List UInt8} (h : getWalletPubKey g = .ok k) : k.length = 32 := by
  unfold getWalletPubKey at h
  split at h
  · cases h
  · split at h
    · cases h
    · rename_i hb
      simp only [Outcome.ok.injEq] at h
      rw [← h]
      simp only [List.length_append, List.length_replicate]
      omega

theorem convertTonProofMessage_np (p : ProofIn) : NoPanic (convertTonProofMessage p) := by
  unfold convertTonProofMessage; nopanic

theorem parseAccountID_np (a : List UInt8) : NoPanic (parseAccountID a) := by
  unfold parseAccountID; nopanic

theorem compare_np (H : List UInt8 → List UInt8) (a : List UInt8) (b : BocResult) : NoPanic (compareStateInitWithAddress H a b) := by
  unfold compareStateInitWithAddress
  split
  · nopanic
  · exact NoPanic.bind (hashO?_np H _) (by intro x; nopanic)
  · nopanic

theorem optSkip_np (r : CellR) (f : Bool) (n : Nat) : NoPanic (optSkip r f n) := by
  unfold optSkip
  split
  · exact NoPanic.bind' (CellR.readBits_np _ _) (by intro x; nopanic)
  · nopanic

theorem optRef_np (r : CellR) (f : Bool) : NoPanic (optRef r f) := by
  unfold optRef
  split
  · exact NoPanic.bind' (CellR.nextRef_np _) (by intro x; nopanic)
  · nopanic

theorem decodeStateInit_np (c : Cell) : NoPanic (decodeStateInit c) := by
  unfold decodeStateInit
  split
  · nopanic
  · apply NoPanic.bind (CellR.readBit_np _); intro a; split
    apply NoPanic.bind (optSkip_np _ _ _); intro r
    apply NoPanic.bind (CellR.readBit_np _); intro b; split
    apply NoPanic.bind (optSkip_np _ _ _); intro r
    apply NoPanic.bind (CellR.readBit_np _); intro c; split
    apply NoPanic.bind (optRef_np _ _); intro d; split
    apply NoPanic.bind (CellR.readBit_np _); intro e; split
    apply NoPanic.bind (optRef_np _ _); intro f; split
    apply NoPanic.bind (CellR.readBit_np _); intro g; split
    split
    · exact NoPanic.bind' (CellR.nextRef_np _) (by intro x; nopanic)
    · nopanic

theorem keyFromData_np (ver : Nat) (d : Cell) : NoPanic (keyFromData ver d) := by
  have hv8 : ∀ r : CellR, NoPanic ((r.readUint 8).bind fun x => Outcome.ok x.1) := by
    intro r; exact NoPanic.bind' (CellR.readUint_np _ _) (by intro x; nopanic)
  have hv1 : ∀ r : CellR, NoPanic ((r.readUint 1).bind fun x => Outcome.ok x.1) := by
    intro r; exact NoPanic.bind' (CellR.readUint_np _ _) (by intro x; nopanic)
  unfold keyFromData
  split
  · nopanic
  · simp only []
    split
    · apply NoPanic.bind (CellR.readBits_np _ _); intro a
      apply NoPanic.bind (CellR.readBits_np _ _); intro b
      nopanic
    · split
      · apply NoPanic.bind (CellR.readBits_np _ _); intro a
        apply NoPanic.bind (CellR.readBits_np _ _); intro b
        nopanic
      · split
        · apply NoPanic.bind (CellR.readBits_np _ _); intro a
          apply NoPanic.bind (CellR.readBits_np _ _); intro b
          apply NoPanic.bind (readHashmapE_np _ hv8 _ _); intro c
          nopanic
        · split
          · apply NoPanic.bind (CellR.readBits_np _ _); intro a
            apply NoPanic.bind (CellR.readBits_np _ _); intro b
            apply NoPanic.bind (readHashmapE_np _ hv1 _ _); intro c
            nopanic
          · nopanic

/-- the key `keyFromData` returns is 32 bytes long -/
theorem keyFromData_len {ver : Nat} {d : Cell} {k : List UInt8} (h : keyFromData ver d = .ok k) : k.length = 32 := by
  have key : ∀ (r : CellR) (b : List Bool × CellR), r.readBits 256 = .ok b → (bitsToBytes b.1).length = 32 := by
    intro r b hb
    rw [bitsToBytes_length, CellR.readBits_length (r := r) (r' := b.2) (by simpa using hb)]
  unfold keyFromData at h
  split at h
  · cases h
  · simp only [] at h
    split at h
    · obtain ⟨a, _, h⟩ := Outcome.bind_eq_ok.mp h
      obtain ⟨b, hb, h⟩ := Outcome.bind_eq_ok.mp h
      simp only [pure, Outcome.ok.injEq] at h
      rw [← h]; exact key _ _ hb
    · split at h
      · obtain ⟨a, _, h⟩ := Outcome.bind_eq_ok.mp h
        obtain ⟨b, hb, h⟩ := Outcome.bind_eq_ok.mp h
        simp only [pure, Outcome.ok.injEq] at h
        rw [← h]; exact key _ _ hb
      · split at h
        · obtain ⟨a, _, h⟩ := Outcome.bind_eq_ok.mp h
          obtain ⟨b, hb, h⟩ := Outcome.bind_eq_ok.mp h
          obtain ⟨c, _, h⟩ := Outcome.bind_eq_ok.mp h
          simp only [pure, Outcome.ok.injEq] at h
          rw [← h]; exact key _ _ hb
        · split at h
          · obtain ⟨a, _, h⟩ := Outcome.bind_eq_ok.mp h
            obtain ⟨b, hb, h⟩ := Outcome.bind_eq_ok.mp h
            obtain ⟨c, _, h⟩ := Outcome.bind_eq_ok.mp h
            simp only [pure, Outcome.ok.injEq] at h
            rw [← h]; exact key _ _ hb
          · cases h

theorem parseStateInit_np (H : List UInt8 → List UInt8) (known : List (List UInt8 × Nat)) (b : BocResult) :
    NoPanic (parseStateInit H known b) := by
  unfold parseStateInit
  split
  · nopanic
  · apply NoPanic.bind (decodeStateInit_np _); intro a
    split
    split
    · apply NoPanic.bind (hashO?_np H _); intro h
      split
      · nopanic
      · exact keyFromData_np _ _
    · nopanic
  · nopanic

theorem parseStateInit_len {H : List UInt8 → List UInt8} {known : List (List UInt8 × Nat)} {b : BocResult} {k : List UInt8}
    (h : parseStateInit H known b = .ok k) : k.length = 32 := by
  unfold parseStateInit at h
  split at h
  · cases h
  · obtain ⟨cd, _, h⟩ := Outcome.bind_eq_ok.mp h
    split at h
    split at h
    · obtain ⟨hs, _, h⟩ := Outcome.bind_eq_ok.mp h
      split at h
      · cases h
      · exact keyFromData_len h
    · cases h
  · cases h

end Tongo.TonConnect

namespace Tongo.TonConnect
open Tongo Tongo.Bits Tongo.Wallet

/-! ### fixed-width byte encodings -/

@[simp] theorem beBytes_length (n v : Nat) : (beBytes n v).length = n := by simp [beBytes]
@[simp] theorem leBytes_length (n v : Nat) : (leBytes n v).length = n := by simp [leBytes]

theorem leBytes_succ (n v : Nat) : leBytes (n + 1) v = leBytes n v ++ [UInt8.ofNat (v / 256 ^ n % 256)] := by
  simp [leBytes, List.range_succ]

theorem beBytes_succ (n v : Nat) : beBytes (n + 1) v = UInt8.ofNat (v / 256 ^ n % 256) :: beBytes n v := by
  simp only [beBytes, List.range_succ_eq_map, List.map_cons, List.map_map]
  congr 1
  apply List.map_congr_left
  intro i _
  simp only [Function.comp]
  have : n + 1 - 1 - i.succ = n - 1 - i := by omega
  rw [this]

/-- little-endian value of a byte list -/
def leNat : List UInt8 → Nat
  | [] => 0
  | b :: bs => b.toNat + 256 * leNat bs

theorem leNat_append_single (a : List UInt8) (b : UInt8) : leNat (a ++ [b]) = leNat a + b.toNat * 256 ^ a.length := by
  induction a with
  | nil => simp [leNat]
  | cons x xs ih => simp only [List.cons_append, leNat, ih, List.length_cons, Nat.pow_succ]; ring

theorem leNat_leBytes (n v : Nat) : leNat (leBytes n v) = v % 256 ^ n := by
  induction n with
  | zero => simp [leBytes, leNat, Nat.mod_one]
  | succ n ih =>
    rw [leBytes_succ, leNat_append_single, ih, leBytes_length]
    have : (UInt8.ofNat (v / 256 ^ n % 256)).toNat = v / 256 ^ n % 256 := by
      simp [UInt8.toNat_ofNat']
    rw [this, Nat.pow_succ, Nat.mod_mul, Nat.mul_comm (256 ^ n)]

theorem leBytes_inj {n v w : Nat} (hv : v < 256 ^ n) (hw : w < 256 ^ n) (h : leBytes n v = leBytes n w) : v = w := by
  have := congrArg leNat h
  rwa [leNat_leBytes, leNat_leBytes, Nat.mod_eq_of_lt hv, Nat.mod_eq_of_lt hw] at this

theorem beNat_foldl (bs : List UInt8) (a : Nat) :
    bs.foldl (fun acc b => acc * 256 + b.toNat) a = a * 256 ^ bs.length + beNat bs := by
  induction bs generalizing a with
  | nil => simp [beNat]
  | cons b t ih =>
    simp only [List.foldl_cons, List.length_cons, beNat]
    rw [ih, ih (0 * 256 + b.toNat)]
    simp only [Nat.zero_mul, Nat.zero_add, Nat.pow_succ]
    ring

theorem beNat_cons (b : UInt8) (t : List UInt8) : beNat (b :: t) = b.toNat * 256 ^ t.length + beNat t := by
  simp only [beNat, List.foldl_cons]
  rw [beNat_foldl]
  simp [beNat]

theorem beNat_beBytes (n v : Nat) : beNat (beBytes n v) = v % 256 ^ n := by
  induction n with
  | zero => simp [beBytes, beNat, Nat.mod_one]
  | succ n ih =>
    rw [beBytes_succ, beNat_cons, ih, beBytes_length]
    have : (UInt8.ofNat (v / 256 ^ n % 256)).toNat = v / 256 ^ n % 256 := by
      simp [UInt8.toNat_ofNat']
    rw [this, Nat.pow_succ, Nat.mod_mul, Nat.mul_comm (256 ^ n), Nat.add_comm]

theorem beBytes_inj {n v w : Nat} (hv : v < 256 ^ n) (hw : w < 256 ^ n) (h : beBytes n v = beBytes n w) : v = w := by
  have := congrArg beNat h
  rwa [beNat_beBytes, beNat_beBytes, Nat.mod_eq_of_lt hv, Nat.mod_eq_of_lt hw] at this

end Tongo.TonConnect

namespace Tongo.TonConnect
open Tongo Tongo.Bits Tongo.Wallet

/-! ### parse ∘ print for the textual fields -/

theorem hexVal_hexDigit_fin : ∀ n : Fin 16, hexVal (hexDigit n.val) = some n.val := by decide
theorem hexDigit_ne_colon_fin : ∀ n : Fin 16, hexDigit n.val ≠ 58 := by decide

theorem hexVal_hexDigit {n : Nat} (h : n < 16) : hexVal (hexDigit n) = some n := hexVal_hexDigit_fin ⟨n, h⟩
theorem hexDigit_ne_colon {n : Nat} (h : n < 16) : hexDigit n ≠ 58 := hexDigit_ne_colon_fin ⟨n, h⟩

theorem hexEncode_cons (b : UInt8) (bs : List UInt8) :
    hexEncode (b :: bs) = hexDigit (b.toNat / 16) :: hexDigit (b.toNat % 16) :: hexEncode bs := by
  simp [hexEncode]

theorem hexDecode_hexEncode (bs : List UInt8) : hexDecode (hexEncode bs) = some bs := by
  induction bs with
  | nil => simp [hexEncode, hexDecode]
  | cons b bs ih =>
    rw [hexEncode_cons, hexDecode, hexVal_hexDigit (by have := UInt8.toNat_lt b; omega), hexVal_hexDigit (by omega), ih]
    simp only [Option.some.injEq, List.cons.injEq, and_true]
    apply UInt8.toNat_inj.mp
    simp only [UInt8.toNat_ofNat']
    have := UInt8.toNat_lt b
    omega

@[simp] theorem hexEncode_length (bs : List UInt8) : (hexEncode bs).length = 2 * bs.length := by
  induction bs with
  | nil => rfl
  | cons b bs ih => rw [hexEncode_cons]; simp [ih]; omega

theorem hexEncode_no_colon (bs : List UInt8) : ∀ c ∈ hexEncode bs, c ≠ 58 := by
  induction bs with
  | nil => simp [hexEncode]
  | cons b bs ih =>
    rw [hexEncode_cons]
    intro c hc
    simp only [List.mem_cons] at hc
    rcases hc with h | h | h
    · rw [h]; exact hexDigit_ne_colon (by have := UInt8.toNat_lt b; omega)
    · rw [h]; exact hexDigit_ne_colon (by omega)
    · exact ih c h

theorem splitColon_no_colon (b : List UInt8) (h : ∀ c ∈ b, c ≠ 58) : splitColon b = [b] := by
  induction b with
  | nil => rfl
  | cons x xs ih =>
    have hx : x ≠ 58 := h x (by simp)
    have ih' := ih (fun c hc => h c (by simp [hc]))
    unfold splitColon at ih' ⊢
    simp only [List.foldr_cons, ih', hx, ↓reduceIte]

theorem splitColon_append (a b : List UInt8) (h : ∀ c ∈ a, c ≠ 58) : splitColon (a ++ 58 :: b) = a :: splitColon b := by
  induction a with
  | nil => simp [splitColon]
  | cons x xs ih =>
    have hx : x ≠ 58 := h x (by simp)
    have ih' := ih (fun c hc => h c (by simp [hc]))
    unfold splitColon at ih' ⊢
    simp only [List.cons_append, List.foldr_cons, ih', hx, ↓reduceIte]

/-- decimal digits: value, shape -/
theorem decimalBytes_spec (n : Nat) :
    decValue (decimalBytes n) = n ∧ (decimalBytes n).all isDigit = true ∧
      decimalBytes n ≠ [] ∧ (∀ c ∈ decimalBytes n, c ≠ 58 ∧ c ≠ 43 ∧ c ≠ 45) := by
  induction n using Nat.strongRecOn with
  | _ n ih =>
    rw [decimalBytes]
    split
    · rename_i h
      have hd : (UInt8.ofNat (48 + n)).toNat = 48 + n := by simp [UInt8.toNat_ofNat']; omega
      refine ⟨by simp [decValue]; omega, by simp [isDigit]; omega, by simp, ?_⟩
      intro c hc
      simp only [List.mem_singleton] at hc
      subst hc
      refine ⟨?_, ?_, ?_⟩ <;> (intro hh; have := congrArg UInt8.toNat hh; rw [hd] at this; simp at this; omega)
    · rename_i h
      obtain ⟨h1, h2, h3, h4⟩ := ih (n / 10) (by omega)
      have hd : (UInt8.ofNat (48 + n % 10)).toNat = 48 + n % 10 := by simp [UInt8.toNat_ofNat']; omega
      refine ⟨?_, ?_, by simp, ?_⟩
      · unfold decValue at h1 ⊢; rw [List.foldl_append, h1]; simp; omega
      · simp only [List.all_append, h2, Bool.true_and]; simp [isDigit]; omega
      · intro c hc
        simp only [List.mem_append, List.mem_singleton] at hc
        rcases hc with hc | hc
        · exact h4 c hc
        · subst hc
          refine ⟨?_, ?_, ?_⟩ <;> (intro hh; have := congrArg UInt8.toNat hh; rw [hd] at this; simp at this; omega)

theorem signSplit_digit (x : UInt8) (xs : List UInt8) (h43 : x ≠ 43) (h45 : x ≠ 45) : signSplit (x :: xs) = (false, x :: xs) := by
  unfold signSplit
  split
  · rename_i heq; simp only [List.cons.injEq] at heq; exact absurd heq.1 h43
  · rename_i heq; simp only [List.cons.injEq] at heq; exact absurd heq.1 h45
  · rfl

/-- the workchain part of a raw address parses back (int32 workchains) -/
theorem parseInt32_signed (wc : Int) (hw : -2147483648 ≤ wc ∧ wc < 2147483648) :
    parseInt32 (if wc < 0 then [45] ++ decimalBytes wc.natAbs else decimalBytes wc.natAbs) = some wc := by
  obtain ⟨h1, h2, h3, h4⟩ := decimalBytes_spec wc.natAbs
  have hne : (decimalBytes wc.natAbs).isEmpty = false := by
    cases hd : decimalBytes wc.natAbs with
    | nil => exact absurd hd h3
    | cons _ _ => rfl
  by_cases hn : wc < 0
  · simp only [hn, ↓reduceIte, List.singleton_append]
    have hs : signSplit (45 :: decimalBytes wc.natAbs) = (true, decimalBytes wc.natAbs) := rfl
    unfold parseInt32
    rw [hs]
    simp only [h2, hne, Bool.not_true, Bool.or_false, Bool.false_eq_true, ↓reduceIte, h1]
    have : wc.natAbs ≤ 2147483648 := by omega
    simp only [this, ↓reduceIte, Option.some.injEq]
    omega
  · simp only [hn, ↓reduceIte]
    have hs : signSplit (decimalBytes wc.natAbs) = (false, decimalBytes wc.natAbs) := by
      cases hd : decimalBytes wc.natAbs with
      | nil => exact absurd hd h3
      | cons x xs =>
        have hx := h4 x (by rw [hd]; simp)
        exact signSplit_digit x xs hx.2.1 hx.2.2
    unfold parseInt32
    rw [hs]
    simp only [h2, hne, Bool.not_true, Bool.or_false, Bool.false_eq_true, ↓reduceIte, h1]
    have : wc.natAbs ≤ 2147483647 := by omega
    simp only [this, ↓reduceIte, Option.some.injEq]
    omega

end Tongo.TonConnect

namespace Tongo.TonConnect
open Tongo Tongo.Bits Tongo.Wallet

/-! ### the honest path -/

theorem signedDecimal_no_colon (wc : Int) :
    ∀ c ∈ (if wc < 0 then [45] ++ decimalBytes wc.natAbs else decimalBytes wc.natAbs), c ≠ 58 := by
  obtain ⟨_, _, _, h4⟩ := decimalBytes_spec wc.natAbs
  intro c hc
  split at hc
  · simp only [List.singleton_append, List.mem_cons] at hc
    rcases hc with hc | hc
    · subst hc; decide
    · exact (h4 c hc).1
  · exact (h4 c hc).1

theorem splitColon_rawAddress (wc : Int) (addr : List UInt8) :
    splitColon (rawAddress wc addr) =
      [if wc < 0 then [45] ++ decimalBytes wc.natAbs else decimalBytes wc.natAbs, hexEncode addr] := by
  unfold rawAddress
  rw [List.append_assoc, List.singleton_append]
  have h := splitColon_append _ (hexEncode addr) (signedDecimal_no_colon wc)
  simp only [List.singleton_append] at h ⊢
  rw [h, splitColon_no_colon _ (hexEncode_no_colon addr)]

theorem parseAccountID_rawAddress (wc : Int) (hw : -2147483648 ≤ wc ∧ wc < 2147483648) (addr : List UInt8)
    (ha : addr.length = 32) : parseAccountID (rawAddress wc addr) = .ok (wc, addr) := by
  unfold parseAccountID
  rw [splitColon_rawAddress]
  simp only [parseInt32_signed wc hw, hexEncode_length, ha]
  simp [hexDecode_hexEncode, ha]

theorem keyFromData_v1v2 (ver : Nat) (hver : ver ≤ 4) (a p rest : List Bool) (refs : List Cell)
    (ha : a.length = 32) (hp : p.length = 256) :
    keyFromData ver (Cell.ordinary (a ++ (p ++ rest)) refs) = .ok (bitsToBytes p) := by
  unfold keyFromData
  simp only [Cell.ordinary, Cell.ty, tyLibrary, CellR.ofCell, Cell.bits, Cell.refs, hver, ↓reduceIte, bind, Outcome.bind, pure,
    show ¬((0 : Nat) = 2) from by decide]
  rw [CellR.readBits_append a _ _ 32 ha]
  simp only []
  rw [CellR.readBits_append p _ _ 256 hp]

theorem keyFromData_v3 (ver : Nat) (hver : ver = 5 ∨ ver = 6 ∨ ver = 8 ∨ ver = 9) (a p rest : List Bool) (refs : List Cell)
    (ha : a.length = 64) (hp : p.length = 256) :
    keyFromData ver (Cell.ordinary (a ++ (p ++ rest)) refs) = .ok (bitsToBytes p) := by
  have h4 : ¬ ver ≤ 4 := by omega
  unfold keyFromData
  simp only [Cell.ordinary, Cell.ty, tyLibrary, CellR.ofCell, Cell.bits, Cell.refs, h4, hver, ↓reduceIte, bind, Outcome.bind, pure,
    show ¬((0 : Nat) = 2) from by decide]
  rw [CellR.readBits_append a _ _ 64 ha]
  simp only []
  rw [CellR.readBits_append p _ _ 256 hp]

theorem keyFromData_v5beta (a p rest : List Bool) (refs : List Cell) (ha : a.length = 113) (hp : p.length = 256) :
    keyFromData 10 (Cell.ordinary (a ++ (p ++ false :: rest)) refs) = .ok (bitsToBytes p) := by
  unfold keyFromData
  simp only [Cell.ordinary, Cell.ty, tyLibrary, CellR.ofCell, Cell.bits, Cell.refs, bind, Outcome.bind, pure,
    show ¬((0 : Nat) = 2) from by decide, show ¬((10 : Nat) ≤ 4) from by decide,
    show ¬((10 : Nat) = 5 ∨ (10 : Nat) = 6 ∨ (10 : Nat) = 8 ∨ (10 : Nat) = 9) from by decide, ↓reduceIte]
  rw [CellR.readBits_append a _ _ 113 ha]
  simp only []
  rw [CellR.readBits_append p _ _ 256 hp]
  simp [readHashmapE, CellR.readBit, bind, Outcome.bind, pure]

theorem keyFromData_v5r1 (a p rest : List Bool) (refs : List Cell) (ha : a.length = 65) (hp : p.length = 256) :
    keyFromData 11 (Cell.ordinary (a ++ (p ++ false :: rest)) refs) = .ok (bitsToBytes p) := by
  unfold keyFromData
  simp only [Cell.ordinary, Cell.ty, tyLibrary, CellR.ofCell, Cell.bits, Cell.refs, bind, Outcome.bind, pure,
    show ¬((0 : Nat) = 2) from by decide, show ¬((11 : Nat) ≤ 4) from by decide,
    show ¬((11 : Nat) = 5 ∨ (11 : Nat) = 6 ∨ (11 : Nat) = 8 ∨ (11 : Nat) = 9) from by decide,
    show ¬((11 : Nat) = 10) from by decide, ↓reduceIte]
  rw [CellR.readBits_append a _ _ 65 ha]
  simp only []
  rw [CellR.readBits_append p _ _ 256 hp]
  simp [readHashmapE, CellR.readBit, bind, Outcome.bind, pure]

theorem keyFromData_dataCell (v : Version) (hv : v ≠ .highloadV2R2) (pk : List UInt8) (hpk : pk.length = 32) (o : Opts) :
    keyFromData v.goIndex (dataCell v pk o) = .ok pk := by
  have hk : bitsToBytes (pkBits pk) = pk := by
    unfold pkBits
    rw [bitsToBytes_bytesToBits_co, pkBytes_of_length hpk]
  have v12 : ∀ ver, ver ≤ 4 → keyFromData ver (Cell.ordinary (natToBits 32 0 ++ pkBits pk) []) = .ok pk := by
    intro ver h
    have := keyFromData_v1v2 ver h (natToBits 32 0) (pkBits pk) [] [] (by simp) (by simp)
    rw [List.append_nil, hk] at this; exact this
  have v3 : ∀ ver, (ver = 5 ∨ ver = 6 ∨ ver = 8 ∨ ver = 9) →
      keyFromData ver (Cell.ordinary (natToBits 32 0 ++ natToBits 32 o.subDefault ++ pkBits pk) []) = .ok pk := by
    intro ver h
    have := keyFromData_v3 ver h (natToBits 32 0 ++ natToBits 32 o.subDefault) (pkBits pk) [] [] (by simp) (by simp)
    rw [List.append_nil, hk] at this; exact this
  have v4 : ∀ ver, (ver = 5 ∨ ver = 6 ∨ ver = 8 ∨ ver = 9) →
      keyFromData ver (Cell.ordinary (natToBits 32 0 ++ natToBits 32 o.subDefault ++ pkBits pk ++ [false]) []) = .ok pk := by
    intro ver h
    have := keyFromData_v3 ver h (natToBits 32 0 ++ natToBits 32 o.subDefault) (pkBits pk) [false] [] (by simp) (by simp)
    rw [hk, ← List.append_assoc] at this; exact this
  unfold dataCell dataBits dataBitsSeq
  cases v <;> simp only [Version.goIndex, Version.family]
  · exact v12 0 (by decide)
  · exact v12 1 (by decide)
  · exact v12 2 (by decide)
  · exact v12 3 (by decide)
  · exact v12 4 (by decide)
  · exact v3 5 (by decide)
  · exact v3 6 (by decide)
  · exact v4 8 (by decide)
  · exact v4 9 (by decide)
  · have := keyFromData_v5beta (natToBits 33 0 ++ (natToBits 32 (toU32 o.netOr) ++ natToBits 8 (toU8 o.wc) ++ natToBits 8 0 ++
        natToBits 32 (o.subWallet.getD 0))) (pkBits pk) [] [] (by simp) (by simp)
    rw [hk] at this
    simpa [List.append_assoc] using this
  · have := keyFromData_v5r1 ([true] ++ natToBits 32 0 ++ natToBits 32 (walletIdV5R1 o)) (pkBits pk) [] [] (by simp) (by simp)
    rw [hk] at this
    simpa [List.append_assoc] using this
  · exact absurd rfl hv

theorem decodeStateInit_stateInitCell (code data : Cell) (hc : code.ty ≠ tyPruned) (hd : data.ty ≠ tyPruned) :
    decodeStateInit (stateInitCell code data) = .ok (some code, some data) := by
  simp only [decodeStateInit, stateInitCell, Cell.ordinary, tyLibrary, CellR.ofCell, Cell.bits, Cell.refs, optSkip, optRef,
    CellR.readBit, CellR.nextRef, bind, Outcome.bind, pure, hc, hd, ↓reduceIte, Bool.false_eq_true]
  simp [Cell.ty]

end Tongo.TonConnect

namespace Tongo.TonConnect
open Tongo Tongo.Bits Tongo.Wallet

theorem convert_created (H : List UInt8 → List UInt8) (sign : List UInt8 → List UInt8 → List UInt8) (sk payload : List UInt8)
    (wc : Int) (hw : -2147483648 ≤ wc ∧ wc < 2147483648) (addr : List UInt8) (si : Cell) (ts : Int) (domain : List UInt8) :
    convertTonProofMessage (createSignedProof H sign sk payload wc addr si ts domain) =
      .ok { workchain := wc, address := addr, domain := domain, ts := ts, payload := payload } := by
  unfold convertTonProofMessage createSignedProof
  simp only [splitColon_rawAddress, parseInt32_signed wc hw, hexDecode_hexEncode]

theorem depthO_stateInit (c d : Cell) : (stateInitCell c d).depthO = max c.depthO (max d.depthO 0) + 1 := by
  simp [stateInitCell, Cell.ordinary, Cell.depthO, Cell.maxDepthO]

theorem toI32_range (x : Int) : -2147483648 ≤ toI32 x ∧ toI32 x < 2147483648 := by
  unfold toI32; omega

/-- the state-init path on the wallet's own state-init yields the wallet's key -/
theorem keyFromStateInit_own (H : List UInt8 → List UInt8) (known : List (List UInt8 × Nat)) (v : Version)
    (hv : v ≠ .highloadV2R2) (code : Cell) (hcode : code.ty ≠ tyPruned) (pk : List UInt8) (hpk : pk.length = 32) (o : Opts)
    (hs : List UInt8) (hh : (walletStateInit code v pk o).hashO? H = .ok hs)
    (hknown : ∃ kh, known.find? (fun p => p.1 == code.hashO H) = some (kh, v.goIndex))
    (p : ProofIn) (hne : p.stateInitEmpty = false) (hsi : p.stateInit = .roots [walletStateInit code v pk o]) :
    keyFromStateInit (parseStateInit H known) H hs p = .ok pk := by
  obtain ⟨kh, hk⟩ := hknown
  have hdep : (walletStateInit code v pk o).depthO ≤ maxDepth := by
    unfold Cell.hashO? at hh
    split at hh
    · assumption
    · cases hh
  have hcd : code.depthO ≤ maxDepth := by
    unfold walletStateInit at hdep
    rw [depthO_stateInit] at hdep
    omega
  unfold keyFromStateInit
  simp only [hne, Bool.false_eq_true, ↓reduceIte, hsi]
  have hcmp : compareStateInitWithAddress H hs (.roots [walletStateInit code v pk o]) = .ok true := by
    unfold compareStateInitWithAddress
    simp [hh, bind, Outcome.bind, pure]
  rw [hcmp]
  simp only []
  have hparse : parseStateInit H known (.roots [walletStateInit code v pk o]) = .ok pk := by
    unfold parseStateInit walletStateInit
    simp only []
    rw [decodeStateInit_stateInitCell code (dataCell v pk o) hcode (by simp [dataCell, Cell.ordinary, Cell.ty, tyPruned])]
    simp only [bind, Outcome.bind, Cell.hashO?, hcd, ↓reduceIte, hk]
    exact keyFromData_dataCell v hv pk hpk o
  rw [hparse]

end Tongo.TonConnect

namespace Tongo.TonConnect

/-- within the ranges where Go's time arithmetic does not wrap (timestamp below 2⁶³ − 62135596800, lifetime below
2⁶³ ns ≈ 292 years) the expiry test is the plain strict comparison -/
theorem olderThan_inrange (nowNs t life : Int) (ht : -9223372036854775808 ≤ t ∧ t < 9223372036854775808 - 62135596800)
    (hl : -9223372036854775808 ≤ life * 1000000000 ∧ life * 1000000000 < 9223372036854775808) :
    olderThan nowNs t life = decide (nowNs - t * 1000000000 > life * 1000000000) := by
  have h1 : unixEff t = t := by unfold unixEff wrap64; omega
  have h2 : wrap64 (life * 1000000000) = life * 1000000000 := by unfold wrap64; omega
  unfold olderThan
  rw [h1, h2]

end Tongo.TonConnect

namespace Tongo.TonConnect

/-! ### big integer ↔ 32-byte key -/

theorem beNat_lt (bs : List UInt8) : beNat bs < 256 ^ bs.length := by
  induction bs with
  | nil => simp [beNat]
  | cons b t ih =>
    rw [beNat_cons, List.length_cons, Nat.pow_succ]
    have hb := UInt8.toNat_lt b
    have h1 : b.toNat * 256 ^ t.length + beNat t < (b.toNat + 1) * 256 ^ t.length := by
      rw [Nat.add_mul, Nat.one_mul]; omega
    have h2 : (b.toNat + 1) * 256 ^ t.length ≤ 256 * 256 ^ t.length := Nat.mul_le_mul_right _ (by omega)
    rw [Nat.mul_comm (256 ^ t.length) 256]
    omega

theorem beBytes_add_mul (n : Nat) : ∀ (x r : Nat), beBytes n (x * 256 ^ n + r) = beBytes n r := by
  induction n with
  | zero => intro x r; simp [beBytes]
  | succ n ih =>
    intro x r
    rw [beBytes_succ, beBytes_succ]
    have e : x * 256 ^ (n + 1) + r = (x * 256) * 256 ^ n + r := by rw [Nat.pow_succ, Nat.mul_assoc, Nat.mul_comm (256 ^ n) 256]
    rw [e, ih (x * 256) r]
    congr 2
    rw [Nat.add_comm, Nat.add_mul_div_right _ _ (Nat.pow_pos (by decide)), Nat.add_mul_mod_self_right]

theorem beBytes_beNat (bs : List UInt8) : beBytes bs.length (beNat bs) = bs := by
  induction bs with
  | nil => simp [beBytes]
  | cons b t ih =>
    have hlt := beNat_lt t
    have hb := UInt8.toNat_lt b
    rw [List.length_cons, beBytes_succ, beNat_cons]
    have h1 : (b.toNat * 256 ^ t.length + beNat t) / 256 ^ t.length = b.toNat := by
      rw [Nat.add_comm, Nat.add_mul_div_right _ _ (Nat.pow_pos (by decide)), Nat.div_eq_of_lt hlt, Nat.zero_add]
    rw [h1, beBytes_add_mul, ih]
    congr 1
    apply UInt8.toNat_inj.mp
    simp [UInt8.toNat_ofNat', Nat.mod_eq_of_lt hb]

/-- the significant bytes of a number whose top byte is non-zero -/
theorem natBytes_beNat_cons (b : UInt8) (t : List UInt8) (hb : b ≠ 0) : natBytes (beNat (b :: t)) = b :: t := by
  have hbn : 1 ≤ b.toNat := by
    have : b.toNat ≠ 0 := fun h => hb (UInt8.toNat_inj.mp (by simpa using h))
    omega
  have hlt := beNat_lt (b :: t)
  have hlt' := beNat_lt t
  have hge : 256 ^ t.length ≤ beNat (b :: t) := by
    rw [beNat_cons]
    calc 256 ^ t.length = 1 * 256 ^ t.length := by rw [Nat.one_mul]
      _ ≤ b.toNat * 256 ^ t.length := Nat.mul_le_mul_right _ hbn
      _ ≤ _ := Nat.le_add_right _ _
  have hne : beNat (b :: t) ≠ 0 := by
    have : 0 < 256 ^ t.length := Nat.pow_pos (by decide)
    omega
  have hlog : (beNat (b :: t)).log2 / 8 = t.length := by
    have h1 : 8 * t.length ≤ (beNat (b :: t)).log2 := by
      rw [Nat.le_log2 hne, Nat.pow_mul]; simpa using hge
    have h2 : (beNat (b :: t)).log2 < 8 * (t.length + 1) := by
      rw [Nat.log2_lt hne, Nat.pow_mul]; simpa using hlt
    omega
  unfold natBytes
  rw [if_neg hne, hlog]
  exact beBytes_beNat (b :: t)

theorem beNat_zero_cons (t : List UInt8) : beNat (0 :: t) = beNat t := by
  rw [beNat_cons]; simp

end Tongo.TonConnect
