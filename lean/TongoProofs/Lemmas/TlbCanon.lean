import TongoModel.Tlb.Canon
import TongoProofs.Lemmas.TlbGeneric
import TongoProofs.Lemmas.HashmapPut
/-! C03, `ReencodeHash` for canonical types: the converse induction — whatever a canonical decoder consumes is what the
encoder writes for the value it returned. -/
namespace Tongo.Tlb
open Tongo Tongo.Bits

/-! ### reading is the inverse of writing, bit level -/

theorem readBits_inv {s s' : Slice} {n : Nat} {bs : List Bool} (h : s.readBits n = .ok (bs, s')) :
    s = s'.prepend bs [] ∧ bs.length = n := by
  unfold Slice.readBits at h
  split at h
  · cases h
  · rename_i hlt
    simp only [Outcome.ok.injEq, Prod.mk.injEq] at h
    obtain ⟨rfl, rfl⟩ := h
    refine ⟨?_, by simp; omega⟩
    cases s
    simp [Slice.prepend]

theorem readBit_inv {s s' : Slice} {x : Bool} (h : s.readBit = .ok (x, s')) : s = s'.prepend [x] [] := by
  unfold Slice.readBit at h
  split at h
  · cases h
  · rename_i y rest hb
    simp only [Outcome.ok.injEq, Prod.mk.injEq] at h
    obtain ⟨rfl, rfl⟩ := h
    cases s
    simp only [Slice.prepend, List.nil_append, List.cons_append] at hb ⊢
    simp_all

theorem prepend_prepend_nil (s : Slice) (xs ys : List Bool) :
    (s.prepend ys []).prepend xs [] = s.prepend (xs ++ ys) [] := by
  cases s; simp [Slice.prepend]

theorem bitsToInt_range : ∀ (bs : List Bool), 1 ≤ bs.length →
    -(2 ^ (bs.length - 1) : Int) ≤ bitsToInt bs ∧ bitsToInt bs < (2 ^ (bs.length - 1) : Int)
  | [], h => by simp at h
  | s :: rest, _ => by
    have hlt := bitsToNat_lt rest
    have hlt' : (bitsToNat rest : Int) < (2 ^ rest.length : Int) := by exact_mod_cast hlt
    have h0 : (0 : Int) ≤ bitsToNat rest := by exact_mod_cast Nat.zero_le _
    simp only [List.length_cons, Nat.add_sub_cancel, bitsToInt]
    cases s <;> simp <;> omega

theorem intToBits_bitsToInt (bs : List Bool) (h : 1 ≤ bs.length) : intToBits bs.length (bitsToInt bs) = bs := by
  obtain ⟨lo, hi⟩ := bitsToInt_range bs h
  apply Hashmap.bitsToInt_inj
  · rw [intToBits_length]
  · exact bitsToInt_intToBits bs.length (bitsToInt bs) h lo hi

theorem bytesToBits_bytesOfBits : ∀ (n : Nat) (bs : List Bool), bs.length = n * 8 →
    bytesToBits (bytesOfBits n bs) = bs
  | 0, bs, h => by
    have : bs = [] := by simpa using h
    subst this; rfl
  | n + 1, bs, h => by
    have h8 : (bs.take 8).length = 8 := by simp; omega
    have hb : byteToBits (UInt8.ofNat (bitsToNat (bs.take 8))) = bs.take 8 := by
      have hlt := bitsToNat_lt (bs.take 8)
      rw [h8] at hlt
      have : (UInt8.ofNat (bitsToNat (bs.take 8))).toNat = bitsToNat (bs.take 8) := by
        simp [UInt8.toNat_ofNat']
        omega
      simp only [byteToBits, this]
      have := natToBits_bitsToNat (bs.take 8)
      rwa [h8] at this
    have ih := bytesToBits_bytesOfBits n (bs.drop 8) (by simp; omega)
    simp only [bytesOfBits, bytesToBits, List.flatMap_cons] at ih ⊢
    rw [hb, ih, List.take_append_drop]

/-- what a canonical decoder consumed (`xs`, no references) is what the encoder writes for the value it returned -/
def ED (dec : Slice → Outcome (Val × Slice)) (enc : Val → Builder → Outcome Builder) : Prop :=
  ∀ s v s', dec s = .ok (v, s') → ∃ xs, s = s'.prepend xs [] ∧ ∀ b b', enc v b = .ok b' → b' = b.app xs []

theorem readUint_inv {s s' : Slice} {n v : Nat} (h : s.readUint n = .ok (v, s')) :
    n ≤ 64 ∧ ∃ bs, s = s'.prepend bs [] ∧ bs.length = n ∧ v = bitsToNat bs := by
  unfold Slice.readUint at h
  split at h
  · cases h
  · rename_i hn
    obtain ⟨r, hr, h2⟩ := bind_ok_inv h
    obtain ⟨bs, s1⟩ := r
    simp only [pure, Outcome.ok.injEq, Prod.mk.injEq] at h2
    obtain ⟨rfl, rfl⟩ := h2
    obtain ⟨e, hl⟩ := readBits_inv hr
    exact ⟨by omega, bs, e, hl, rfl⟩

theorem writeUint_bits (b b' : Builder) (bs : List Bool) (hl : bs.length ≤ 64)
    (h : b.writeUint (bitsToNat bs) bs.length = .ok b') : b' = b.app bs [] := by
  have := Builder.writeBits_ok h
  have hlt : bitsToNat bs < 2 ^ 64 :=
    Nat.lt_of_lt_of_le (bitsToNat_lt bs) (Nat.pow_le_pow_right (by omega) hl)
  rwa [Nat.mod_eq_of_lt hlt, natToBits_bitsToNat] at this

theorem ed_uint (env : Env) (f n : Nat) : ED (decode env (f + 1) (.uint n)) (encode env (f + 1) (.uint n)) := by
  intro s v s' h
  by_cases hl : s.isLibrary = true
  · simp [decode, hl, libraryEntry] at h
  · simp only [decode, hl, Bool.false_eq_true, ↓reduceIte] at h
    obtain ⟨r, hr, h2⟩ := bind_ok_inv h
    obtain ⟨x, s1⟩ := r
    simp only [pure, Outcome.ok.injEq, Prod.mk.injEq] at h2
    obtain ⟨rfl, rfl⟩ := h2
    obtain ⟨hn, bs, e, hlen, rfl⟩ := readUint_inv hr
    refine ⟨bs, e, ?_⟩
    intro b b' he
    simp only [encode, Int.toNat_natCast] at he
    subst hlen
    exact writeUint_bits b b' bs hn he

theorem ed_int (env : Env) (f n : Nat) : ED (decode env (f + 1) (.int n)) (encode env (f + 1) (.int n)) := by
  intro s v s' h
  by_cases hl : s.isLibrary = true
  · simp [decode, hl, libraryEntry] at h
  · simp only [decode, hl, Bool.false_eq_true, ↓reduceIte] at h
    obtain ⟨r, hr, h2⟩ := bind_ok_inv h
    obtain ⟨x, s1⟩ := r
    simp only [pure, Outcome.ok.injEq, Prod.mk.injEq] at h2
    obtain ⟨rfl, rfl⟩ := h2
    unfold Slice.readInt at hr
    split at hr
    · cases hr
    · rename_i h64
      split at hr
      · cases hr
      · rename_i h0
        obtain ⟨r2, hr2, h3⟩ := bind_ok_inv hr
        obtain ⟨bs, s2⟩ := r2
        simp only [pure, Outcome.ok.injEq, Prod.mk.injEq] at h3
        obtain ⟨rfl, rfl⟩ := h3
        obtain ⟨e, hlen⟩ := readBits_inv hr2
        refine ⟨bs, e, ?_⟩
        intro b b' he
        simp only [encode] at he
        have h1 : 1 ≤ bs.length := by omega
        obtain ⟨lo, hi⟩ := bitsToInt_range bs h1
        subst hlen
        rw [Builder.writeInt_repr _ _ _ h1 lo hi] at he
        rw [intBitsGo_eq bs.length (bitsToInt bs) h1 (by omega) lo hi, intToBits_bitsToInt bs h1] at he
        exact Builder.writeBits_ok he

theorem ed_bool (env : Env) (f : Nat) : ED (decode env (f + 1) .bool) (encode env (f + 1) .bool) := by
  intro s v s' h
  by_cases hl : s.isLibrary = true
  · simp [decode, hl, libraryEntry] at h
  · simp only [decode, hl, Bool.false_eq_true, ↓reduceIte] at h
    obtain ⟨r, hr, h2⟩ := bind_ok_inv h
    obtain ⟨x, s1⟩ := r
    simp only [pure, Outcome.ok.injEq, Prod.mk.injEq] at h2
    obtain ⟨rfl, rfl⟩ := h2
    refine ⟨[x], readBit_inv hr, ?_⟩
    intro b b' he
    simp only [encode, Builder.writeBit] at he
    exact Builder.writeBits_ok he

theorem ed_bytes (env : Env) (f n : Nat) : ED (decode env (f + 1) (.bytes n)) (encode env (f + 1) (.bytes n)) := by
  intro s v s' h
  by_cases hl : s.isLibrary = true
  · simp [decode, hl, libraryEntry] at h
  · simp only [decode, hl, Bool.false_eq_true, ↓reduceIte] at h
    obtain ⟨r, hr, h2⟩ := bind_ok_inv h
    obtain ⟨x, s1⟩ := r
    simp only [pure, Outcome.ok.injEq, Prod.mk.injEq] at h2
    obtain ⟨rfl, rfl⟩ := h2
    unfold Slice.readBytes at hr
    obtain ⟨r2, hr2, h3⟩ := bind_ok_inv hr
    obtain ⟨bs, s2⟩ := r2
    simp only [pure, Outcome.ok.injEq, Prod.mk.injEq] at h3
    obtain ⟨rfl, rfl⟩ := h3
    obtain ⟨e, hlen⟩ := readBits_inv hr2
    refine ⟨bs, e, ?_⟩
    intro b b' he
    simp only [encode] at he
    split at he
    · simp only [Builder.writeBytes, bytesToBits_bytesOfBits n bs hlen] at he
      exact Builder.writeBits_ok he
    · cases he

/-- a Magic field of a canonical struct -/
theorem ed_magic (tg : Tag) (hc : tg.canon = true) : ED (decodeMagic (some tg)) (fun _ b => encodeTag (some tg) b) := by
  intro s v s' h
  simp only [Tag.canon, Tag.ok, Bool.and_eq_true, decide_eq_true_eq] at hc
  obtain ⟨h64, _⟩ := hc
  simp only [decodeMagic] at h
  obtain ⟨r, hr, h2⟩ := bind_ok_inv h
  obtain ⟨y, s1⟩ := r
  simp only at h2
  split at h2
  · cases h2
  · rename_i hy
    simp only [Outcome.ok.injEq, Prod.mk.injEq] at h2
    obtain ⟨rfl, rfl⟩ := h2
    obtain ⟨_, bs, e, hlen, hy2⟩ := readUint_inv hr
    refine ⟨bs, e, ?_⟩
    intro b b' he
    simp only [encodeTag] at he
    have hv : tg.val = bitsToNat bs := by rw [← hy2]; exact Decidable.of_not_not hy
    rw [hv, ← hlen] at he
    exact writeUint_bits b b' bs (by omega) he

/-- first-match dispatch returns a constructor the encoder finds again by its name -/
theorem selectCtor_sound : ∀ (cs : Ctors) (bits : List Bool) (name : String) (t : Ty) (len : Nat),
    cs.namesDistinct = true → selectCtor cs bits = .ok (name, t, len) →
    ∃ tg : Tag, cs.find name = some (some tg, t) ∧ tg.len = len ∧ len ≤ 64 ∧ len ≤ bits.length ∧
      tg.val = bitsToNat (bits.take len)
  | .nil, _, _, _, _, _, h => by simp [selectCtor] at h
  | .cons n tg0 t0 rest, bits, name, t, len, hd, h => by
    simp only [Ctors.namesDistinct, Bool.and_eq_true, Option.isNone_iff_eq_none] at hd
    have recur : selectCtor rest bits = .ok (name, t, len) →
        ∃ tg : Tag, (Ctors.cons n tg0 t0 rest).find name = some (some tg, t) ∧ tg.len = len ∧ len ≤ 64 ∧
          len ≤ bits.length ∧ tg.val = bitsToNat (bits.take len) := by
      intro h'
      obtain ⟨tg, hf, r⟩ := selectCtor_sound rest bits name t len hd.2 h'
      refine ⟨tg, ?_, r⟩
      have hne : n ≠ name := by
        intro e; subst e; rw [hd.1] at hf; cases hf
      simp only [Ctors.find, hne, ↓reduceIte, hf]
    cases tg0 with
    | none => simp [selectCtor] at h
    | some tag =>
      simp only [selectCtor] at h
      split at h
      · exact recur h
      · rename_i hlen
        split at h
        · cases h
        · rename_i h64
          split at h
          · rename_i hv
            simp only [Outcome.ok.injEq, Prod.mk.injEq] at h
            obtain ⟨rfl, rfl, rfl⟩ := h
            exact ⟨tag, by simp [Ctors.find], rfl, by omega, by omega, hv⟩
          · exact recur h

section
variable {env : Env}

/-- the three mutually dependent statements at one fuel level -/
structure CInv (env : Env) (f : Nat) : Prop where
  dec : ∀ k T, canonb env k T = true → ED (decode env f T) (encode env f T)
  field : ∀ k ft T, canonField env k ft T = true → ED (decodeField env f ft T) (encodeField env f ft T)
  fields : ∀ k fs, canonFields env k fs = true → ED (decodeFields env f fs) (encodeFields env f fs)

theorem CInv.zero : CInv env 0 :=
  ⟨fun _ _ _ s v s' h => by simp [decode] at h, fun _ _ _ _ s v s' h => by simp [decodeField] at h,
   fun _ _ _ s v s' h => by simp [decodeFields] at h⟩

theorem app_app_nil (b : Builder) (xs ys : List Bool) : (b.app xs []).app ys [] = b.app (xs ++ ys) [] := by
  rw [Builder.app_app]; simp

/-- a flag bit followed by a canonical payload -/
theorem ed_bit_then {f : Nat} {T : Ty} {s s1 s' : Slice} {x : Bool} {v : Val}
    (hbit : s.readBit = .ok (x, s1)) (hed : ED (decode env f T) (encode env f T))
    (hdec : decode env f T s1 = .ok (v, s')) :
    ∃ xs, s = s'.prepend xs [] ∧
      ∀ (b b' : Builder), (b.writeBit x >>= fun b1 => encode env f T v b1) = .ok b' → b' = b.app xs [] := by
  obtain ⟨ys, e1, henc⟩ := hed s1 v s' hdec
  refine ⟨x :: ys, ?_, ?_⟩
  · rw [readBit_inv hbit, e1, prepend_prepend_nil]; rfl
  · intro b b' he
    obtain ⟨b1, hb1, he2⟩ := bind_ok_inv he
    have e2 := Builder.writeBits_ok hb1
    rw [henc b1 b' he2, e2, app_app_nil]; rfl

theorem canonCtors_find : ∀ (k : Nat) (cs : Ctors) {name : String} {tg : Option Tag} {t : Ty},
    canonCtors env k cs = true → cs.find name = some (tg, t) → ∃ k', canonb env k' t = true
  | 0, _, _, _, _, hc, _ => by simp [canonCtors] at hc
  | k + 1, .nil, _, _, _, _, hf => by simp [Ctors.find] at hf
  | k + 1, .cons n tg0 t0 rest, name, tg, t, hc, hf => by
    simp only [canonCtors, Bool.and_eq_true] at hc
    simp only [Ctors.find] at hf
    split at hf
    · cases hf; exact ⟨k, hc.1⟩
    · exact canonCtors_find k rest hc.2 hf

theorem canonb_ptr_cell (k : Nat) (m : Bool) : canonb env k (.ptr m .cell) = false := by
  cases k with
  | zero => rfl
  | succ k => cases k <;> simp [canonb]

theorem canonb_ptr_any (k : Nat) (m : Bool) : canonb env k (.ptr m (.prim .any)) = false := by
  cases k with
  | zero => rfl
  | succ k => cases k <;> simp [canonb]

/-- on a library cell the field decoder answers only for `*boc.Cell` / `*tlb.Any` -/
theorem decodeField_lib {f : Nat} {ft : FieldTag} {T : Ty} {s s' : Slice} {v : Val} (hl : s.isLibrary = true)
    (hd : decodeField env (f + 1) ft T s = .ok (v, s')) : ∃ m, T = .ptr m .cell ∨ T = .ptr m (.prim .any) := by
  simp only [decodeField, hl, ↓reduceIte] at hd
  split at hd
  · exact ⟨_, Or.inl rfl⟩
  · exact ⟨_, Or.inr rfl⟩
  · cases hd

theorem slice_split (s : Slice) (n : Nat) :
    s = ({ s with bits := s.bits.drop n } : Slice).prepend (s.bits.take n) [] := by
  cases s; simp [Slice.prepend]

theorem CInv.succ {f : Nat} (h : CInv env f) : CInv env (f + 1) := by
  refine ⟨?_, ?_, ?_⟩
  · -- decode / encode
    intro k T hc
    cases k with
    | zero => simp [canonb] at hc
    | succ k =>
    cases T <;> try (simp [canonb] at hc; done)
    case uint n => exact ed_uint env f n
    case int n => exact ed_int env f n
    case bool => exact ed_bool env f
    case bytes n => exact ed_bytes env f n
    case ptr m t =>
      simp only [canonb] at hc
      intro s v s' hd
      by_cases hl : s.isLibrary = true
      · simp [decode, hl, libraryEntry] at hd
      · simp only [decode, hl, Bool.false_eq_true, ↓reduceIte] at hd
        obtain ⟨r, hr, h2⟩ := bind_ok_inv hd
        obtain ⟨x, s1⟩ := r
        simp only [pure, Outcome.ok.injEq, Prod.mk.injEq] at h2
        obtain ⟨rfl, rfl⟩ := h2
        obtain ⟨xs, e, henc⟩ := h.dec k t hc s x s1 hr
        refine ⟨xs, e, ?_⟩
        intro b b' he
        simp only [encode, Val.some] at he
        exact henc b b' he
    case struct fs =>
      simp only [canonb] at hc
      intro s v s' hd
      by_cases hl : s.isLibrary = true
      · simp [decode, hl, libraryEntry] at hd
      · simp only [decode, hl, Bool.false_eq_true, ↓reduceIte] at hd
        obtain ⟨xs, e, henc⟩ := h.fields k fs hc s v s' hd
        exact ⟨xs, e, fun b b' he => henc b b' (by simpa only [encode] using he)⟩
    case named id =>
      simp only [canonb] at hc
      intro s v s' hd
      by_cases hl : s.isLibrary = true
      · simp [decode, hl, libraryEntry] at hd
      · simp only [decode, hl, Bool.false_eq_true, ↓reduceIte] at hd
        cases ht : env id with
        | none => simp [ht] at hc
        | some t =>
          simp only [ht] at hc hd
          obtain ⟨xs, e, henc⟩ := h.dec k t hc s v s' hd
          exact ⟨xs, e, fun b b' he => henc b b' (by simpa only [encode, ht] using he)⟩
    case maybe t =>
      simp only [canonb] at hc
      intro s v s' hd
      by_cases hl : s.isLibrary = true
      · simp [decode, hl, libraryEntry] at hd
      · simp only [decode, hl, Bool.false_eq_true, ↓reduceIte] at hd
        obtain ⟨r, hr, h2⟩ := bind_ok_inv hd
        obtain ⟨ex, s1⟩ := r
        cases ex with
        | true =>
          simp only [↓reduceIte] at h2
          obtain ⟨r2, hr2, h3⟩ := bind_ok_inv h2
          obtain ⟨x, s2⟩ := r2
          simp only [pure, Outcome.ok.injEq, Prod.mk.injEq] at h3
          obtain ⟨rfl, rfl⟩ := h3
          obtain ⟨xs, e, henc⟩ := ed_bit_then hr (h.dec k t hc) hr2
          refine ⟨xs, e, fun b b' he => henc b b' ?_⟩
          simpa only [encode, Val.some] using he
        | false =>
          simp only [Bool.false_eq_true, ↓reduceIte, pure, Outcome.ok.injEq, Prod.mk.injEq] at h2
          obtain ⟨rfl, rfl⟩ := h2
          refine ⟨[false], readBit_inv hr, ?_⟩
          intro b b' he
          simp only [encode, Builder.writeBit] at he
          exact Builder.writeBits_ok he
    case either l r =>
      simp only [canonb] at hc
      simp only [Bool.and_eq_true] at hc
      intro s v s' hd
      by_cases hl : s.isLibrary = true
      · simp [decode, hl, libraryEntry] at hd
      · simp only [decode, hl, Bool.false_eq_true, ↓reduceIte] at hd
        obtain ⟨r0, hr, h2⟩ := bind_ok_inv hd
        obtain ⟨right, s1⟩ := r0
        cases right with
        | true =>
          simp only [↓reduceIte] at h2
          obtain ⟨r2, hr2, h3⟩ := bind_ok_inv h2
          obtain ⟨x, s2⟩ := r2
          simp only [pure, Outcome.ok.injEq, Prod.mk.injEq] at h3
          obtain ⟨rfl, rfl⟩ := h3
          obtain ⟨xs, e, henc⟩ := ed_bit_then hr (h.dec k r hc.2) hr2
          refine ⟨xs, e, fun b b' he => henc b b' ?_⟩
          simpa only [encode, Val.ctor, ↓reduceIte] using he
        | false =>
          simp only [Bool.false_eq_true, ↓reduceIte] at h2
          obtain ⟨r2, hr2, h3⟩ := bind_ok_inv h2
          obtain ⟨x, s2⟩ := r2
          simp only [pure, Outcome.ok.injEq, Prod.mk.injEq] at h3
          obtain ⟨rfl, rfl⟩ := h3
          obtain ⟨xs, e, henc⟩ := ed_bit_then hr (h.dec k l hc.1) hr2
          refine ⟨xs, e, fun b b' he => henc b b' ?_⟩
          have : ("L" = "R") = False := by decide
          simpa only [encode, Val.ctor, this, ↓reduceIte] using he
    case sum cs =>
      simp only [canonb, Bool.and_eq_true] at hc
      obtain ⟨⟨hnd, _⟩, hcc⟩ := hc
      intro s v s' hd
      by_cases hl : s.isLibrary = true
      · simp [decode, hl, libraryEntry] at hd
      · simp only [decode, hl, Bool.false_eq_true, ↓reduceIte] at hd
        cases hsel : selectCtor cs s.bits with
        | err e => simp [hsel] at hd
        | panic e => simp [hsel] at hd
        | ok r =>
          obtain ⟨name, t, len⟩ := r
          simp only [hsel] at hd
          obtain ⟨r2, hr2, h3⟩ := bind_ok_inv hd
          obtain ⟨x, s2⟩ := r2
          simp only [pure, Outcome.ok.injEq, Prod.mk.injEq] at h3
          obtain ⟨rfl, rfl⟩ := h3
          obtain ⟨tg, hf, hlen, h64, hle, hval⟩ := selectCtor_sound cs s.bits name t len hnd hsel
          obtain ⟨k', hk'⟩ := canonCtors_find k cs hcc hf
          obtain ⟨ys, e, henc⟩ := h.dec k' t hk' _ x s2 hr2
          refine ⟨s.bits.take len ++ ys, ?_, ?_⟩
          · rw [← prepend_prepend_nil, ← e]; exact slice_split s len
          · intro b b' he
            simp only [encode, Val.ctor] at he
            split at he
            · cases he
            · simp only [hf] at he
              obtain ⟨b1, hb1, he2⟩ := bind_ok_inv he
              simp only [encodeTag] at hb1
              have hl2 : (s.bits.take len).length = len := by simp; omega
              rw [hval, hlen, ← hl2] at hb1
              have e1 := writeUint_bits b b1 (s.bits.take len) (by omega) (by rw [hl2] at hb1 ⊢; exact hb1)
              rw [henc b1 b' he2, e1, app_app_nil]
  · -- struct fields
    intro k ft T hc
    cases k with
    | zero => simp [canonField] at hc
    | succ k =>
    intro s v s' hd
    cases ft <;> try (simp [canonField] at hc; done)
    case plain =>
      cases T <;> first
        | (rename_i tg
           cases tg with
           | none => simp [canonField] at hc
           | some tg =>
             simp only [canonField] at hc
             by_cases hl : s.isLibrary = true
             · simp [decodeField, hl] at hd
             · simp only [decodeField, hl, Bool.false_eq_true, ↓reduceIte] at hd
               obtain ⟨xs, e, henc⟩ := ed_magic tg hc s v s' hd
               exact ⟨xs, e, fun b b' he => henc b b' (by simpa only [encodeField] using he)⟩)
        | (simp only [canonField] at hc
           by_cases hl : s.isLibrary = true
           · obtain ⟨m', hT | hT⟩ := decodeField_lib hl hd
             · cases hT <;> (rw [canonb_ptr_cell] at hc; cases hc)
             · cases hT <;> (rw [canonb_ptr_any] at hc; cases hc)
           · simp only [decodeField, hl, Bool.false_eq_true, ↓reduceIte] at hd
             obtain ⟨xs, e, henc⟩ := h.dec k _ hc s v s' hd
             exact ⟨xs, e, fun b b' he => henc b b' (by simpa only [encodeField] using he)⟩)
    case maybe =>
      cases T <;> try (simp [canonField] at hc; done)
      rename_i m t
      simp only [canonField] at hc
      have hcp : canonb env (k + 1) (.ptr m t) = true := by simpa only [canonb] using hc
      by_cases hl : s.isLibrary = true
      · obtain ⟨m', hT | hT⟩ := decodeField_lib hl hd
        · rw [hT, canonb_ptr_cell] at hcp; cases hcp
        · rw [hT, canonb_ptr_any] at hcp; cases hcp
      · simp only [decodeField, hl, Bool.false_eq_true, ↓reduceIte] at hd
        obtain ⟨r, hr, h2⟩ := bind_ok_inv hd
        obtain ⟨ex, s1⟩ := r
        cases ex with
        | false =>
          simp only [Bool.not_false, ↓reduceIte, pure, absentVal, Outcome.ok.injEq, Prod.mk.injEq] at h2
          obtain ⟨rfl, rfl⟩ := h2
          refine ⟨[false], readBit_inv hr, ?_⟩
          intro b b' he
          simp only [encodeField, Builder.writeBit] at he
          exact Builder.writeBits_ok he
        | true =>
          simp only [Bool.not_true, Bool.false_eq_true, ↓reduceIte] at h2
          obtain ⟨xs, e, henc⟩ := ed_bit_then hr (h.dec (k + 1) (.ptr m t) hcp) h2
          refine ⟨xs, e, fun b b' he => henc b b' ?_⟩
          -- the decoded value is `(x)`: not the absent marker
          by_cases hl2 : s1.isLibrary = true
          · cases f <;> simp [decode, hl2, libraryEntry] at h2
          · cases f with
            | zero => simp [decode] at h2
            | succ f =>
              simp only [decode, hl2, Bool.false_eq_true, ↓reduceIte] at h2
              obtain ⟨r3, _, h4⟩ := bind_ok_inv h2
              simp only [pure, Outcome.ok.injEq, Prod.mk.injEq] at h4
              obtain ⟨rfl, _⟩ := h4
              simpa only [encodeField, Val.some] using he
  · -- the field list
    intro k fs hc
    cases k with
    | zero => simp [canonFields] at hc
    | succ k =>
    intro s v s' hd
    cases fs with
    | nil =>
      simp only [decodeFields, Outcome.ok.injEq, Prod.mk.injEq] at hd
      obtain ⟨rfl, rfl⟩ := hd
      refine ⟨[], by simp, ?_⟩
      intro b b' he
      simp only [encodeFields, Outcome.ok.injEq] at he
      subst he; simp
    | cons n ft t rest =>
      simp only [canonFields, Bool.and_eq_true] at hc
      simp only [decodeFields] at hd
      obtain ⟨r1, hr1, h2⟩ := bind_ok_inv hd
      obtain ⟨x, s1⟩ := r1
      obtain ⟨r2, hr2, h3⟩ := bind_ok_inv h2
      obtain ⟨vs, s2⟩ := r2
      simp only [pure, Outcome.ok.injEq, Prod.mk.injEq] at h3
      obtain ⟨rfl, rfl⟩ := h3
      obtain ⟨xs, e1, henc1⟩ := h.field k ft t hc.1 s x s1 hr1
      obtain ⟨ys, e2, henc2⟩ := h.fields k rest hc.2 s1 vs s2 hr2
      refine ⟨xs ++ ys, by rw [e1, e2, prepend_prepend_nil], ?_⟩
      intro b b' he
      simp only [encodeFields] at he
      obtain ⟨b1, hb1, he2⟩ := bind_ok_inv he
      rw [henc2 b1 b' he2, henc1 b b1 hb1, app_app_nil]

theorem CInv.all (env : Env) : ∀ f, CInv env f
  | 0 => CInv.zero
  | f + 1 => CInv.succ (CInv.all env f)

end
end Tongo.Tlb
