import TongoProofs.Lemmas.CellHash
/-! Helper lemmas for C02 `table_refines_tree`: hashing a table row by row (`Table.infos`, what the compiled driver
runs) agrees with the tree recursion `Cell.info` on the unfolded tree. -/
open Tongo
namespace Tongo.CellHashLemmas

theorem unfold_lt (t : Table) : ∀ (fuel i : Nat) (c : Cell), Table.unfold t fuel i = some c → i < t.size := by
  intro fuel i c h
  cases fuel with
  | zero => simp [Table.unfold] at h
  | succ f =>
    simp only [Table.unfold] at h
    cases hi : t[i]? with
    | none => rw [hi] at h; cases h
    | some row =>
      have := Array.getElem?_eq_some_iff.mp hi
      exact this.1

/-- the children: looking the results up in `done` is `Cell.infoList` on the unfolded children -/
theorem kids_agree (H : List UInt8 → List UInt8) (t : Table) (fuel i : Nat) (done : Array (Outcome HashInfo))
    (hdone : ∀ r, i < r → ∀ c, Table.unfold t fuel r = some c → done[t.size - 1 - r]? = some (Cell.info H c)) :
    ∀ (refs : List Nat) (cs : List Cell),
      refs.mapM (fun r => if r > i then Table.unfold t fuel r else none) = some cs →
      refs.mapM (fun r => if r > i ∧ r < t.size then done[t.size - 1 - r]! else Outcome.err "bad ref index") =
        Cell.infoList H cs := by
  intro refs
  induction refs with
  | nil =>
    intro cs h
    simp only [List.mapM_nil, Option.pure_def, Option.some.injEq] at h
    subst h
    rfl
  | cons r rs ih =>
    intro cs h
    rw [List.mapM_cons] at h
    by_cases hr : r > i
    · simp only [hr, if_true] at h
      cases hu : Table.unfold t fuel r with
      | none => rw [hu] at h; cases h
      | some c =>
        rw [hu] at h
        cases hm : rs.mapM (fun r => if r > i then Table.unfold t fuel r else none) with
        | none => rw [hm] at h; cases h
        | some cs' =>
          rw [hm] at h
          simp only [Option.bind_eq_bind, Option.bind_some, Option.pure_def, Option.some.injEq] at h
          subst h
          have hlt := unfold_lt t fuel r c hu
          have hd := hdone r hr c hu
          rw [List.mapM_cons, ih cs' hm]
          simp only [hr, hlt, and_self, if_true, getElem!_def, hd, Cell.infoList]
    · simp only [hr, if_false] at h
      cases h

/-- processing the rows `l` (a suffix of the table) from the last one backwards -/
theorem infosRev_suffix (H : List UInt8 → List UInt8) (t : Table) :
    ∀ (l pre : List CellRow), t.toList = pre ++ l →
      let done := l.foldr (fun row done => done.push (Table.infoRow H t.size (t.size - 1 - done.size) row done)) #[]
      done.size = l.length ∧
      ∀ j, j < l.length → ∀ fuel c, Table.unfold t fuel (t.size - 1 - j) = some c →
        done[j]? = some (Cell.info H c) := by
  intro l
  induction l with
  | nil => intro pre _; exact ⟨rfl, fun j hj => absurd hj (Nat.not_lt_zero _)⟩
  | cons row rest ih =>
    intro pre hpre
    have hpre' : t.toList = (pre ++ [row]) ++ rest := by simp [hpre]
    obtain ⟨hsz, hdone⟩ := ih (pre ++ [row]) hpre'
    simp only [List.foldr_cons]
    generalize hd : rest.foldr (fun row done => done.push (Table.infoRow H t.size (t.size - 1 - done.size) row done)) #[] = done
      at hsz hdone
    have hn : t.size = pre.length + 1 + rest.length := by
      have := congrArg List.length hpre
      simp only [Array.length_toList, List.length_append, List.length_cons] at this
      omega
    refine ⟨by simp [hsz], ?_⟩
    intro j hj fuel c hu
    rw [Array.getElem?_push]
    by_cases hjr : j = done.size
    · simp only [hjr, if_true, Option.some.injEq]
      -- the row being processed
      have hi : t.size - 1 - done.size = pre.length := by omega
      rw [hjr, hi] at hu
      rw [hi]
      cases fuel with
      | zero => simp [Table.unfold] at hu
      | succ f =>
        simp only [Table.unfold] at hu
        have hrow : t[pre.length]? = some row := by
          rw [← Array.getElem?_toList, hpre]
          simp
        simp only [hrow] at hu
        cases hm : row.refs.mapM (fun r => if r > pre.length then Table.unfold t f r else none) with
        | none => rw [hm] at hu; cases hu
        | some cs =>
          rw [hm] at hu
          simp only [Option.some.injEq] at hu
          subst hu
          have := kids_agree H t f pre.length done (by
            intro r hr c hc
            have hlt := unfold_lt t f r c hc
            exact hdone (t.size - 1 - r) (by omega) f c (by
              have : t.size - 1 - (t.size - 1 - r) = r := by omega
              rw [this]; exact hc)) row.refs cs hm
          simp only [Table.infoRow, this, Cell.info]
          rfl
    · simp only [hjr, if_false]
      exact hdone j (by simp only [List.length_cons] at hj; omega) fuel c hu

/-- **Table refines tree**: row `i` of `Table.infos` is `Cell.info` of the tree that row unfolds to -/
theorem infos_refines (H : List UInt8 → List UInt8) (t : Table) (fuel i : Nat) (c : Cell)
    (h : Table.unfold t fuel i = some c) : (Table.infos H t)[i]? = some (Cell.info H c) := by
  have hlt := unfold_lt t fuel i c h
  obtain ⟨hsz, hdone⟩ := infosRev_suffix H t t.toList [] (by simp)
  simp only [Table.infos, Table.infosRev, ← Array.foldr_toList]
  have hsz' : (t.toList.foldr (fun row done => done.push (Table.infoRow H t.size (t.size - 1 - done.size) row done)) #[]).size
      = t.size := by simpa using hsz
  rw [Array.getElem?_reverse (by rw [hsz']; exact hlt), hsz']
  exact hdone (t.size - 1 - i) (by simp; omega) fuel c (by
    have : t.size - 1 - (t.size - 1 - i) = i := by omega
    rw [this]; exact h)

end Tongo.CellHashLemmas
