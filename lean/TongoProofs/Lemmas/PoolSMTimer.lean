import TongoProofs.Lemmas.PoolSMLive
/-! The timeout of a waiter as state (helper lemmas for C13.timeout_bounded). -/
namespace Tongo.PoolSM

/-- the waiter's timeout has elapsed and it is still in its select — or it has left the select -/
def DueOrLeft (s : State) (i : Nat) : Prop :=
  ∀ w, s.waiters[i]? = some w → (w.pc = .sel ∧ w.timer = .due) ∨ (∃ r, w.pc = .leave r) ∨ (∃ r, w.pc = .done r)

/-- repaired code: an elapsed timeout stays elapsed (nothing re-arms the timer) until the waiter leaves its select -/
theorem due_step {v s a s'} (hv : v.timerOnce = true) (i : Nat) (h : DueOrLeft s i) (hs : step v s a = some s') :
    DueOrLeft s' i := by
  unfold DueOrLeft at *
  cases a <;> step_cases hs <;> grind [State.setW, State.setS]

/-- with an elapsed timeout the select can take the timer case -/
theorem fire_enabled {v s} {i : Nat} {w : Waiter} (hw : s.waiters[i]? = some w) (hp : w.pc = .sel)
    (ht : w.timer = .due) : (step v s (.wFire i)).isSome = true := by
  simp [step, hw, hp, ht]

/-- the select of waiter `i` taking its timer case -/
def FireAct (i : Nat) : Action → Bool
  | .wFire j => j == i
  | _ => false

theorem fire_leaves {v s s'} (i : Nat) (hs : step v s (.wFire i) = some s') :
    ∀ w, s'.waiters[i]? = some w → w.pc = .leave .err := by
  step_cases hs <;> grind [State.setW, State.setS]

/-- weak fairness of the waiter's select: once the timeout has elapsed the waiter leaves its select -/
theorem timeout_leaves {v} (hv : v.timerOnce = true) (e : Exec v) (i n0 : Nat) (hf : WeakFair e (FireAct i))
    (hw : ∃ w, (e.st n0).waiters[i]? = some w ∧ w.pc = .sel ∧ w.timer = .due) :
    ∃ m, n0 ≤ m ∧ ∃ w, (e.st m).waiters[i]? = some w ∧ ((∃ r, w.pc = .leave r) ∨ ∃ r, w.pc = .done r) := by
  obtain ⟨w0, hw0, hp0, ht0⟩ := hw
  have hd : ∀ m, n0 ≤ m → DueOrLeft (e.st m) i := by
    intro m hm
    obtain ⟨d, rfl⟩ := Nat.exists_eq_add_of_le hm
    induction d with
    | zero => intro w hw; rw [Nat.add_zero, hw0] at hw; cases hw; exact Or.inl ⟨hp0, ht0⟩
    | succ d ih => exact due_step hv i (ih (Nat.le_add_right _ _)) (e.ok (n0 + d))
  apply Classical.byContradiction
  intro hnot
  have hstay : ∀ m, n0 ≤ m → ∃ w, (e.st m).waiters[i]? = some w ∧ w.pc = .sel ∧ w.timer = .due := by
    intro m hm
    obtain ⟨w, hw⟩ := exec_waiter_some e i n0 ⟨w0, hw0⟩ m hm
    rcases hd m hm w hw with h | h
    · exact ⟨w, hw, h⟩
    · exact absurd ⟨m, hm, w, hw, h⟩ hnot
  obtain ⟨m, hm, hact⟩ := hf n0 (fun m hm => by
    obtain ⟨w, hw, hp, ht⟩ := hstay m hm
    exact ⟨.wFire i, by simp [FireAct], fire_enabled hw hp ht⟩)
  have heq : e.act m = .wFire i := by
    revert hact
    cases e.act m <;> simp [FireAct]
  have hs := e.ok m
  rw [heq] at hs
  obtain ⟨w, hw⟩ := exec_waiter_some e i n0 ⟨w0, hw0⟩ (m + 1) (by omega)
  exact hnot ⟨m + 1, by omega, w, hw, Or.inl ⟨.err, fire_leaves i hs w hw⟩⟩

end Tongo.PoolSM
