import TongoModel.Helpers08
import TongoProofs.Lemmas.TlDecode
/-! Lemmas for the network-facing helpers of C08. -/
namespace Tongo.TlD

theorem slice_ok {b : List UInt8} {lo hi : Nat} (h1 : lo ≤ hi) (h2 : hi ≤ b.length) :
    slice b lo hi = .ok ((b.take hi).drop lo) := by
  unfold slice; rw [if_pos ⟨h1, h2⟩]

theorem decodeLength_np (b : List UInt8) : (decodeLength b).isPanic = false := by
  unfold decodeLength
  cases b with
  | nil => rfl
  | cons b0 rest =>
    have hb : b0.toNat < 256 := UInt8.toNat_lt b0
    simp only
    split
    · rfl
    · split
      · rfl
      · split
        · omega
        · split <;> rfl

theorem decodeLength_ok {b : List UInt8} {l off : Nat} (h : decodeLength b = .ok (l, off)) :
    1 ≤ off ∧ off ≤ b.length := by
  unfold decodeLength at h
  cases b with
  | nil => simp at h
  | cons b0 rest =>
    simp only at h
    split at h
    · simp at h
    · split at h
      · simp only [Outcome.ok.injEq, Prod.mk.injEq] at h
        obtain ⟨_, rfl⟩ := h
        simp
      · split at h
        · simp at h
        · split at h
          · simp at h
          · rename_i h4
            simp only [Outcome.ok.injEq, Prod.mk.injEq] at h
            obtain ⟨_, rfl⟩ := h
            omega

theorem respTag_np (b : List UInt8) : (respTag b).isPanic = false := by
  unfold respTag
  split
  · rfl
  · rename_i h
    rw [slice_ok (by omega) (by omega), slice_ok (by omega) (Nat.le_refl _)]
    rfl

theorem processQueryAnswer_cases (p : List UInt8) (known : Bool) :
    (processQueryAnswer p known).isPanic = false ∧
    ∀ d, processQueryAnswer p known = .ok d → d.length + 37 ≤ p.length := by
  unfold processQueryAnswer
  split
  · exact ⟨rfl, by intro d h; simp at h⟩
  · rename_i h37
    rw [slice_ok (by omega) (by omega)]
    simp only [Outcome.bind_ok]
    cases known with
    | false => exact ⟨rfl, by intro d h; simp at h⟩
    | true =>
      simp only [Bool.not_true, Bool.false_eq_true, if_false]
      rw [slice_ok (by omega) (Nat.le_refl _)]
      simp only [Outcome.bind_ok]
      have hnp := decodeLength_np (List.drop 36 (List.take p.length p))
      rcases hd : decodeLength (List.drop 36 (List.take p.length p)) with ⟨l, off⟩ | e | q
      · obtain ⟨h1, h2⟩ := decodeLength_ok hd
        simp only [Outcome.bind_ok]
        rw [slice_ok h2 (Nat.le_refl _)]
        simp only [Outcome.bind_ok]
        split
        · exact ⟨rfl, by intro d h; simp at h⟩
        · rename_i hlen
          rw [slice_ok (Nat.zero_le _) (by omega)]
          refine ⟨rfl, ?_⟩
          intro d h
          simp only [Outcome.ok.injEq] at h
          subst h
          simp only [List.length_drop, List.length_take, Nat.min_self] at hlen h2 ⊢
          omega
      · exact ⟨rfl, by intro d h; simp at h⟩
      · rw [hd] at hnp; simp [Outcome.isPanic] at hnp

theorem processQueryAnswer_np (p : List UInt8) (known : Bool) : (processQueryAnswer p known).isPanic = false :=
  (processQueryAnswer_cases p known).1

theorem processQueryAnswer_len (p d : List UInt8) (h : processQueryAnswer p true = .ok d) : d.length + 37 ≤ p.length :=
  (processQueryAnswer_cases p true).2 d h

theorem liteapiRequestDecoder_np (lookup : Nat → Option Ty) (b : List UInt8) :
    (liteapiRequestDecoder Cfg.fixed lookup b).isPanic = false := by
  unfold liteapiRequestDecoder
  split
  · rfl
  · rename_i h
    rw [slice_ok (by omega) (by omega)]
    simp only [Outcome.bind_ok]
    split
    · rfl
    · rename_i ty _
      rw [slice_ok (by omega) (Nat.le_refl _)]
      simp only [Outcome.bind_ok]
      have hnp : (run Cfg.fixed ty (List.drop 4 (List.take b.length b))).1.isPanic = false := decode_np ty _
      split
      · rfl
      · rfl
      · rename_i p hp
        rw [hp] at hnp; simp [Outcome.isPanic] at hnp

end Tongo.TlD

namespace Tongo.Helpers

theorem index_ok {n i : Nat} (h : i < n) : index n i = .ok () := by unfold index; rw [if_pos h]

theorem foldIndex_np (len : Nat) (l : List Nat) (h : ∀ i ∈ l, i < len) :
    (l.foldlM (fun _ i => index len i) ()) = .ok () := by
  induction l with
  | nil => rfl
  | cons a t ih =>
    simp only [List.foldlM_cons]
    rw [index_ok (h a (by simp))]
    simp only [Outcome.bind_ok]
    exact ih (fun i hi => h i (by simp [hi]))

theorem vmStackUnmarshal_np (numField len : Nat) : (vmStackUnmarshal numField len).isPanic = false := by
  unfold vmStackUnmarshal
  split
  · rfl
  · rename_i h
    rw [foldIndex_np len _ (by intro i hi; simp at hi; omega)]
    rfl

theorem accountFromProof_np (nRoots nKeys nValues hit : Nat) (hkv : nKeys ≤ nValues) :
    (accountFromProof nRoots nKeys nValues hit).isPanic = false := by
  unfold accountFromProof
  split
  · rfl
  · rename_i h
    rw [index_ok (by omega)]
    simp only
    split
    · rename_i hh; rw [index_ok (by omega)]; rfl
    · rfl

theorem getTransactions_loop_np (nIds : Nat) (cellOk : Nat → Bool) :
    ∀ k i, i + k ≤ nIds → (getTransactions.loop nIds cellOk k i).isPanic = false := by
  intro k
  induction k with
  | zero => intro i _; rfl
  | succ k ih =>
    intro i h
    unfold getTransactions.loop
    split
    · rfl
    · rw [index_ok (by omega)]
      exact ih (i + 1) (by omega)

theorem getTransactions_np (nIds nCells : Nat) (cellOk : Nat → Bool) :
    (getTransactions true nIds nCells cellOk).isPanic = false := by
  unfold getTransactions
  split
  · rfl
  · rename_i h
    have : nIds = nCells := by
      by_cases hh : nIds = nCells
      · exact hh
      · exact absurd ⟨rfl, hh⟩ h
    exact getTransactions_loop_np nIds cellOk nCells 0 (by omega)

theorem vmCellSlice_np (s : VmCellSlice) (h : s.decoded = true) (h4 : ∀ b r, s.cell = some (b, r) → r ≤ 4) :
    s.toCell.isPanic = false := by
  unfold VmCellSlice.decoded at h
  unfold VmCellSlice.toCell
  rcases hc : s.cell with _ | ⟨bits, refs⟩
  · rw [hc] at h; simp at h
  · rw [hc] at h
    have hr := h4 bits refs hc
    simp only [Bool.and_eq_true, decide_eq_true_eq] at h
    obtain ⟨⟨⟨a, b⟩, c⟩, d⟩ := h
    simp only
    rw [if_neg (by omega), if_neg (by omega), if_neg (by omega), if_pos ⟨c, by omega⟩]
    rfl

mutual
theorem Tuple.toSlice_len : (t : Tuple) → (depth : Int) → (vs : List Entry) → t.toSlice depth = some vs →
    (vs.length : Int) = depth ∧ 2 ≤ depth
  | .nil, _, _, h => by simp [Tuple.toSlice] at h
  | .node head tail, depth, vs, h => by
    unfold Tuple.toSlice at h
    split at h
    · rename_i h2
      cases head with
      | entry e => simp at h; subst h; simp [h2]
      | empty => simp at h
      | ref t => simp at h
    · rename_i h2
      cases head with
      | entry e => simp at h
      | empty => simp at h
      | ref t =>
        simp only [Option.map_eq_some_iff] at h
        obtain ⟨ws, hw, rfl⟩ := h
        have := Tuple.toSlice_len t (depth - 1) ws hw
        simp only [List.length_append, List.length_cons, List.length_nil]
        omega
end

theorem tupleUnmarshalStruct_np (len : Nat) (data : Tuple) (numField : Nat) :
    (tupleUnmarshalStruct true len data numField).isPanic = false := by
  unfold tupleUnmarshalStruct
  split
  · rfl
  · rename_i h
    have hl : len = numField := by omega
    cases data with
    | nil => simp only [if_true]; split <;> rfl
    | node head tail =>
      simp only
      split
      · rfl
      · rename_i vs hvs
        have := (Tuple.toSlice_len _ _ _ hvs).1
        rw [foldIndex_np vs.length _ (by intro i hi; simp at hi; omega)]
        rfl

end Tongo.Helpers
