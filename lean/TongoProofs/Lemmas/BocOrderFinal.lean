import TongoProofs.Lemmas.BocOrderSem
import TongoProofs.Lemmas.BocWriter
/-! Gluing import, revisit and assembly: the table serializeBoc writes is a valid layout whose cells are exactly the
distinct sub-cells of the input, and whose roots stand for the input roots. -/
namespace Tongo.Boc.Order
open Tongo Tongo.Boc

variable {K : Type} [BEq K] [Hashable K] [LawfulBEq K]

/-- the de-duplication key identifies the tree of a row: every row has a key, and two rows have the same key exactly
when they stand for the same tree (for Go: no SHA-256 collision among the cells of the input) -/
structure KeyOK (t : Table) (key : Nat → Option K) (U : Nat → Cell) : Prop where
  keyed : ∀ i, i < t.size → (key i).isSome
  inj : ∀ i j, i < t.size → j < t.size → (key i = key j ↔ U i = U j)

theorem tdesc_lt (t : Table) (hf : Fwd t) {a k : Nat} (ha : a < t.size) (h : TDesc t a k) : k < t.size := by
  induction h with
  | refl => exact ha
  | @step a c k hc _ ih => exact ih (hf a ha c hc).2

theorem inputOK_of (t : Table) (roots : List Nat) (key : Nat → Option K) (U : Nat → Cell)
    (hv : ValidLayout t roots) (hs : IsSem t U) (hk : KeyOK t key U) : ∃ ds, InputOK t key ds := by
  obtain ⟨⟨hrows, _, ds, _, hrank⟩, _⟩ := hv
  have hf := fwd_of_rows t hrows
  refine ⟨ds, hf, hk.keyed, ?_, ?_⟩
  · intro i hi
    obtain ⟨a, b⟩ := hrank i hi
    refine ⟨a, ?_⟩
    intro r hr
    rw [getElem!_pos t i hi] at hr
    exact b r hr
  · intro i hi c hc j hj heq
    have hcl := (hf i hi c hc).2
    have hjl := tdesc_lt t hf hcl hj
    have hU := (hk.inj i j hi hjl).1 heq
    have h1 := depth_child t U hs hi hc
    have h2 := depth_tdesc t U hs hf hcl hj
    rw [hU] at h1
    omega

theorem All2.with_mem {α β : Type} {R : α → β → Prop} {l : List α} {l' : List β} (h : All2 R l l') :
    All2 (fun a b => R a b ∧ b ∈ l') l l' := by
  induction h with
  | nil => exact .nil
  | cons hd _ ih => exact .cons ⟨hd, by simp⟩ (ih.mono (fun a b ⟨x, z⟩ => ⟨x, by simp [z]⟩))

theorem All2.map_eq {α β γ : Type} {f : α → γ} {g : β → γ} {l : List α} {l' : List β}
    (h : All2 (fun a b => f a = g b) l l') : l.map f = l'.map g := by
  induction h with
  | nil => rfl
  | cons hd _ ih => simp [hd, ih]

theorem All2.length_eq {α β : Type} {R : α → β → Prop} {l : List α} {l' : List β} (h : All2 R l l') :
    l.length = l'.length := by
  induction h with
  | nil => rfl
  | cons _ _ ih => simp [ih]

theorem All2.right_mem {α β : Type} {R : α → β → Prop} {l : List α} {l' : List β} (h : All2 R l l') :
    ∀ b ∈ l', ∃ a ∈ l, R a b := by
  induction h with
  | nil => intro b hb; simp at hb
  | cons hd _ ih =>
    intro b hb
    rcases List.mem_cons.1 hb with rfl | hb
    · exact ⟨_, by simp, hd⟩
    · obtain ⟨a, ha, hr⟩ := ih b hb
      exact ⟨a, by simp [ha], hr⟩

section
variable (t : Table) (key : Nat → Option K) (U : Nat → Cell) (st : ImpState K)

/-- the tree an imported cell stands for -/
def impSem (k : Nat) : Cell := U (st.rows[k]!)

theorem impSem_eq (hf : Fwd t) (hs : IsSem t U) (hk : KeyOK t key U) (hi : ImpInv t key st) :
    ∀ k, k < st.rows.size → impSem U st k =
      .mk (t[st.rows[k]!]!).ty (t[st.rows[k]!]!).mask (t[st.rows[k]!]!).bits ((st.refs[k]!).map (impSem U st)) := by
  intro k hk'
  obtain ⟨hrow, hall⟩ := hi.row_ok k hk'
  unfold impSem
  rw [hs _ hrow]
  congr 1
  symm
  -- pointwise: the child cell stands for the child row
  have hall' := hall.with_mem
  apply All2.map_eq
  apply hall'.mono
  intro c r ⟨⟨h1, h2⟩, h3⟩
  have hc : st.rows[c]! < t.size := (hi.row_ok c (by omega)).1
  exact (hk.inj _ _ hc (hf _ hrow r h3).2).1 h2

theorem impSem_inj (hk : KeyOK t key U) (hi : ImpInv t key st) :
    ∀ a b, a < st.rows.size → b < st.rows.size → impSem U st a = impSem U st b → a = b := by
  intro a b ha hb heq
  have hra := (hi.row_ok a ha).1
  have hrb := (hi.row_ok b hb).1
  have hkey := (hk.inj _ _ hra hrb).2 heq
  obtain ⟨h, hh⟩ := Option.isSome_iff_exists.1 (hk.keyed _ hra)
  have h1 := (hi.map_ok h a).2 ⟨ha, hh⟩
  have h2 := (hi.map_ok h b).2 ⟨hb, by rw [← hkey]; exact hh⟩
  rw [h1] at h2
  exact Option.some.inj h2


/-- every descendant row of an imported cell's row is imported too -/
theorem imp_complete (hf : Fwd t) (hs : IsSem t U) (hk : KeyOK t key U) (hi : ImpInv t key st)
    {a j : Nat} (ha : a < t.size) (hd : TDesc t a j) :
    ∀ k, k < st.rows.size → impSem U st k = U a → ∃ k', k' < st.rows.size ∧ impSem U st k' = U j := by
  induction hd with
  | refl => intro k hk' h; exact ⟨k, hk', h⟩
  | @step a c j hc _ ih =>
    intro k hk' h
    have hcl := (hf a ha c hc).2
    rw [impSem_eq t key U st hf hs hk hi k hk', hs a ha] at h
    have hl : (st.refs[k]!).map (impSem U st) = (t[a]!).refs.map U := by
      injection h
    have : U c ∈ (st.refs[k]!).map (impSem U st) := by rw [hl]; exact List.mem_map.2 ⟨c, hc, rfl⟩
    obtain ⟨c', hc', hce⟩ := List.mem_map.1 this
    have hlt := hi.child_lt t key hk' hc'
    exact ih hcl c' (by omega) hce

end

section
variable (n : Nat) (refs0 : Array (List Nat))

theorem alloc_desc {rst : RState} (hinv : Inv n refs0 rst) (hac : Acyc n refs0) {a k : Nat} (ha : a < n)
    (h0 : 0 ≤ rst.newIndex[a]!) (hd : Desc refs0 a k) : 0 ≤ rst.newIndex[k]! := by
  induction hd with
  | refl => exact h0
  | @step a c k hc _ ih =>
    have hcl := hac a ha c hc
    exact ih (by omega) ((hinv.done a ha (.inr h0)).1 c hc)

end
theorem rev_map_get {β : Type} [Inhabited β] (a : Array Nat) (g : Nat → β) (p : Nat) (hp : p < a.size) :
    ((a.toList.reverse.map g).toArray)[p]! = g (a[a.size - 1 - p]!) := by
  have h1 : p < ((a.toList.reverse.map g).toArray).size := by simp [hp]
  rw [getElem!_pos _ p h1]
  have h2 : a.size - 1 - p < a.size := by omega
  rw [getElem!_pos a _ h2]
  simp [List.getElem_reverse]

theorem rev_map_size {β : Type} (a : Array Nat) (g : Nat → β) :
    ((a.toList.reverse.map g).toArray).size = a.size := by simp

/-- everything known once import and revisit have succeeded -/
structure AsmCtx (t : Table) (roots : List Nat) (key : Nat → Option K) (U : Nat → Cell) (st : ImpState K)
    (rootIdx : List Nat) (rst : RState) : Prop where
  hv : ValidLayout t roots
  hs : IsSem t U
  hk : KeyOK t key U
  hi : ImpInv t key st
  hroots : All2 (fun c r => c < st.rows.size ∧ key (st.rows[c]!) = key r) rootIdx roots
  hinv : Inv st.rows.size st.refs rst
  hall : ∀ k, k < st.rows.size → 0 ≤ rst.newIndex[k]!
  hsub : ∀ k, k < st.rows.size → ∃ r ∈ roots, ∃ j, TDesc t r j ∧ key (st.rows[k]!) = key j

section
variable {t : Table} {roots : List Nat} {key : Nat → Option K} {U : Nat → Cell} {st : ImpState K}
  {rootIdx : List Nat} {rst : RState}

/-- the tree stored at file position `p` -/
def fileSem (U : Nat → Cell) (st : ImpState K) (rst : RState) (p : Nat) : Cell :=
  impSem U st (rst.out[rst.out.size - 1 - p]!)

theorem AsmCtx.fwd (c : AsmCtx t roots key U st rootIdx rst) : Fwd t := fwd_of_rows t c.hv.1.1

/-- facts about an allocated import cell -/
theorem AsmCtx.alloc (c : AsmCtx t roots key U st rootIdx rst) {k : Nat} (hk : k < st.rows.size) :
    0 ≤ rst.newIndex[k]! ∧ (rst.newIndex[k]!).toNat < rst.out.size ∧ rst.out[(rst.newIndex[k]!).toNat]! = k := by
  have h0 := c.hall k hk
  rcases c.hinv.ni_ok k hk with a | a | a | a
  · omega
  · omega
  · omega
  · exact a

/-- facts about a file position -/
theorem AsmCtx.atPos (c : AsmCtx t roots key U st rootIdx rst) {p : Nat} (hp : p < rst.out.size) :
    rst.out[rst.out.size - 1 - p]! < st.rows.size ∧
    rst.newIndex[rst.out[rst.out.size - 1 - p]!]! = ((rst.out.size - 1 - p : Nat) : Int) :=
  c.hinv.out_ok _ (by omega)

theorem asm_size (t : Table) (rows : Array Nat) (cache : Array Bool) (rst : RState) (rootIdx : List Nat) :
    (assemble t rows cache rst rootIdx).table.size = rst.out.size := by
  simp [assemble]

theorem asm_get (t : Table) (rows : Array Nat) (cache : Array Bool) (rst : RState) (rootIdx : List Nat)
    (p : Nat) (hp : p < rst.out.size) :
    (assemble t rows cache rst rootIdx).table[p]! =
      { t[rows[rst.out[rst.out.size - 1 - p]!]!]! with
        refs := (rst.refs[rst.out[rst.out.size - 1 - p]!]!).map (fun k => rst.out.size - 1 - k) } := by
  simp only [assemble]
  exact rev_map_get rst.out _ p hp

/-- the rewritten references of the cell at a file position, in terms of the import graph -/
theorem AsmCtx.refs_at (c : AsmCtx t roots key U st rootIdx rst) {k : Nat} (hk : k < st.rows.size) :
    rst.refs[k]! = (st.refs[k]!).map (fun x => (rst.newIndex[x]!).toNat) :=
  (c.hinv.done k hk (.inr (c.hall k hk))).2

theorem AsmCtx.isSem (c : AsmCtx t roots key U st rootIdx rst) :
    IsSem (assemble t st.rows st.cache rst rootIdx).table (fileSem U st rst) := by
  intro p hp
  rw [asm_size] at hp
  rw [asm_get _ _ _ _ _ p hp]
  obtain ⟨hci, _⟩ := c.atPos hp
  simp only [fileSem]
  rw [impSem_eq t key U st c.fwd c.hs c.hk c.hi _ hci]
  congr 1
  rw [c.refs_at hci, List.map_map, List.map_map]
  apply List.map_congr_left
  intro x hx
  have hxl : x < st.rows.size := Nat.lt_trans (c.hi.child_lt t key hci hx) hci
  obtain ⟨_, h2, h3⟩ := c.alloc hxl
  simp only [Function.comp, fileSem]
  have : rst.out.size - 1 - (rst.out.size - 1 - (rst.newIndex[x]!).toNat) = (rst.newIndex[x]!).toNat := by omega
  rw [this, h3]


theorem get!_of_getElem (a : Table) (i : Nat) (h : i < a.size) : a[i] = a[i]! := (getElem!_pos a i h).symm

theorem AsmCtx.rowOK (c : AsmCtx t roots key U st rootIdx rst) (p : Nat) (hp : p < rst.out.size) :
    RowOK rst.out.size p ((assemble t st.rows st.cache rst rootIdx).table[p]!) ∧
    ExoticOK ((assemble t st.rows st.cache rst rootIdx).table[p]!) := by
  rw [asm_get _ _ _ _ _ p hp]
  obtain ⟨hci, hni⟩ := c.atPos hp
  obtain ⟨hrow, hall2⟩ := c.hi.row_ok _ hci
  have hR := c.hv.1.1 _ hrow
  have hE := c.hv.2 _ hrow
  rw [get!_of_getElem t _ hrow] at hR hE
  refine ⟨⟨hR.bits_le, hR.mask_lt, hR.ty_lt, ?_, ?_, hR.pruned⟩, hE⟩
  · simp only [List.length_map]
    rw [c.refs_at hci, List.length_map, hall2.length_eq]
    exact hR.refs_le
  · intro r hr
    simp only [List.mem_map] at hr
    obtain ⟨k, hk, rfl⟩ := hr
    rw [c.refs_at hci] at hk
    obtain ⟨x, hx, rfl⟩ := List.mem_map.1 hk
    have hb := c.hinv.before _ hci (by rw [hni]; omega) x hx
    have hxl : x < st.rows.size := Nat.lt_trans (c.hi.child_lt t key hci hx) hci
    obtain ⟨h0, h2, _⟩ := c.alloc hxl
    rw [hni] at hb
    omega

theorem AsmCtx.roots_ok (c : AsmCtx t roots key U st rootIdx rst) :
    (∀ r ∈ (assemble t st.rows st.cache rst rootIdx).roots, r < rst.out.size) ∧
    (assemble t st.rows st.cache rst rootIdx).roots.map (fileSem U st rst) = roots.map U := by
  have hf := c.fwd
  have hrl : ∀ r ∈ roots, r < t.size := c.hv.1.2.1
  simp only [assemble]
  constructor
  · intro r hr
    obtain ⟨ri, hri, rfl⟩ := List.mem_map.1 hr
    have hl : ri < st.rows.size := (c.hroots.left (P := fun x => x < st.rows.size) (fun _ _ h => h.1)) ri hri
    obtain ⟨_, h2, _⟩ := c.alloc hl
    omega
  · rw [List.map_map]
    apply All2.map_eq
    apply c.hroots.with_mem.mono
    intro ri r ⟨⟨hl, hkey⟩, hr⟩
    obtain ⟨_, h2, h3⟩ := c.alloc hl
    simp only [Function.comp, fileSem]
    have : rst.out.size - 1 - (rst.out.size - 1 - (rst.newIndex[ri]!).toNat) = (rst.newIndex[ri]!).toNat := by omega
    rw [this, h3]
    exact (c.hk.inj _ _ (c.hi.row_ok ri hl).1 (hrl r hr)).1 hkey

theorem AsmCtx.inj (c : AsmCtx t roots key U st rootIdx rst) (p q : Nat) (hp : p < rst.out.size)
    (hq : q < rst.out.size) (h : fileSem U st rst p = fileSem U st rst q) : p = q := by
  obtain ⟨hcp, hnp⟩ := c.atPos hp
  obtain ⟨hcq, hnq⟩ := c.atPos hq
  have := impSem_inj t key U st c.hk c.hi _ _ hcp hcq h
  rw [this, hnq] at hnp
  omega

theorem AsmCtx.complete (c : AsmCtx t roots key U st rootIdx rst) :
    ∀ r ∈ roots, ∀ j, TDesc t r j → ∃ p, p < rst.out.size ∧ fileSem U st rst p = U j := by
  intro r hr j hj
  have hrl : r < t.size := c.hv.1.2.1 r hr
  obtain ⟨ri, _, hl, hkey⟩ := c.hroots.right_mem r hr
  have hri : impSem U st ri = U r := (c.hk.inj _ _ (c.hi.row_ok ri hl).1 hrl).1 hkey
  obtain ⟨k, hk, hkj⟩ := imp_complete t key U st c.fwd c.hs c.hk c.hi hrl hj ri hl hri
  obtain ⟨_, h2, h3⟩ := c.alloc hk
  refine ⟨rst.out.size - 1 - (rst.newIndex[k]!).toNat, by omega, ?_⟩
  simp only [fileSem]
  have : rst.out.size - 1 - (rst.out.size - 1 - (rst.newIndex[k]!).toNat) = (rst.newIndex[k]!).toNat := by omega
  rw [this, h3]
  exact hkj


/-- nothing else is stored: every file position holds a sub-cell of a root -/
theorem AsmCtx.sub (c : AsmCtx t roots key U st rootIdx rst) (p : Nat) (hp : p < rst.out.size) :
    ∃ r ∈ roots, ∃ j, TDesc t r j ∧ fileSem U st rst p = U j := by
  obtain ⟨hci, _⟩ := c.atPos hp
  obtain ⟨r, hr, j, hj, hkey⟩ := c.hsub _ hci
  have hjl := tdesc_lt t c.fwd (c.hv.1.2.1 r hr) hj
  exact ⟨r, hr, j, hj, (c.hk.inj _ _ (c.hi.row_ok _ hci).1 hjl).1 hkey⟩

theorem range_map_get (n : Nat) (f : Nat → Nat) (p : Nat) (hp : p < n) :
    (((List.range n).map f).toArray)[p]! = f p := by
  have h1 : p < (((List.range n).map f).toArray).size := by simp [hp]
  rw [getElem!_pos _ p h1]
  simp

theorem AsmCtx.depthOK (c : AsmCtx t roots key U st rootIdx rst) :
    DepthOK (assemble t st.rows st.cache rst rootIdx).table := by
  have hsz := asm_size t st.rows st.cache rst rootIdx
  have hsem := c.isSem
  obtain ⟨ds, _, hrank⟩ := c.hv.1.2.2
  have hf := c.fwd
  have hrank' : ∀ i, i < t.size → ∀ r ∈ (t[i]!).refs, ds[r]! + 1 ≤ ds[i]! := by
    intro i hi r hr
    rw [← get!_of_getElem t i hi] at hr
    exact (hrank i hi).2 r hr
  refine ⟨((List.range rst.out.size).map (fun p => cellDepth (fileSem U st rst p))).toArray, by simp [hsz], ?_⟩
  intro p hp
  have hp' : p < rst.out.size := by rw [hsz] at hp; exact hp
  rw [range_map_get _ _ p hp']
  constructor
  · obtain ⟨hci, _⟩ := c.atPos hp'
    have hrow := (c.hi.row_ok _ hci).1
    have := depth_le_rank t U c.hs hf ds hrank' t.size _ hrow (by omega)
    have := (hrank _ hrow).1
    simp only [fileSem, impSem]
    omega
  · intro r hr
    rw [get!_of_getElem _ p hp] at hr
    have hrl : r < rst.out.size := ((c.rowOK p hp').1.refs_fwd r hr).2
    rw [range_map_get _ _ r hrl]
    exact depth_child _ _ hsem hp hr

end

/-- pigeonhole: an injective map from `[0, m)` into `[0, n)` has `m ≤ n` -/
theorem pigeonhole : ∀ (n m : Nat) (f : Nat → Nat), (∀ i, i < m → f i < n) →
    (∀ i j, i < m → j < m → f i = f j → i = j) → m ≤ n := by
  intro n
  induction n with
  | zero =>
    intro m f hr _
    rcases Nat.eq_zero_or_pos m with h | h
    · omega
    · have := hr 0 h; omega
  | succ n ih =>
    intro m f hr hinj
    rcases Nat.eq_zero_or_pos m with h | hpos
    · omega
    · -- remove the last element of the domain and, if hit, swap the value `n` away
      let v := f (m - 1)
      let g : Nat → Nat := fun i => if f i = n then v else f i
      have hg : ∀ i, i < m - 1 → g i < n := by
        intro i hi
        simp only [g]
        split
        · rename_i hfi
          have hv : v < n + 1 := hr (m - 1) (by omega)
          have hne : v ≠ n := by
            intro hvn
            have := hinj i (m - 1) (by omega) (by omega) (by rw [hfi]; exact hvn.symm)
            omega
          omega
        · have := hr i (by omega); omega
      have hginj : ∀ i j, i < m - 1 → j < m - 1 → g i = g j → i = j := by
        intro i j hi hj hij
        simp only [g] at hij
        by_cases h1 : f i = n <;> by_cases h2 : f j = n
        · exact hinj i j (by omega) (by omega) (by rw [h1, h2])
        · simp only [h1, h2, if_true, if_false] at hij
          have := hinj (m - 1) j (by omega) (by omega) hij
          omega
        · simp only [h1, h2, if_true, if_false] at hij
          have := hinj i (m - 1) (by omega) (by omega) hij
          omega
        · simp only [h1, h2, if_false] at hij
          exact hinj i j (by omega) (by omega) hij
      have := ih (m - 1) g hg hginj
      omega


/-- no more cells are stored than the presentation has rows -/
theorem AsmCtx.size_le {t : Table} {roots : List Nat} {key : Nat → Option K} {U : Nat → Cell} {st : ImpState K}
    {rootIdx : List Nat} {rst : RState} (c : AsmCtx t roots key U st rootIdx rst) : rst.out.size ≤ t.size := by
  apply pigeonhole t.size rst.out.size (fun k => st.rows[rst.out[k]!]!)
  · intro k hk
    have := (c.hinv.out_ok k hk).1
    exact (c.hi.row_ok _ this).1
  · intro a b ha hb hab
    obtain ⟨ha1, ha2⟩ := c.hinv.out_ok a ha
    obtain ⟨hb1, hb2⟩ := c.hinv.out_ok b hb
    have : rst.out[a]! = rst.out[b]! := by
      apply impSem_inj t key U st c.hk c.hi _ _ ha1 hb1
      simp only [impSem]
      rw [hab]
    rw [this, hb2] at ha2
    omega


/-- import and revisit succeed on every valid input, for every `special` -/
theorem orderWith_ok (t : Table) (roots : List Nat) (key : Nat → Option K) (special : Array Int → Nat → Bool)
    (U : Nat → Cell) (hv : ValidLayout t roots) (hs : IsSem t U) (hk : KeyOK t key U) :
    ∃ (st : ImpState K) (rootIdx : List Nat) (rst : RState),
      orderWith t key special roots = .ok (assemble t st.rows st.cache rst rootIdx) ∧
      AsmCtx t roots key U st rootIdx rst ∧
      importRootsLoop t key (t.size + 1) roots ({} : ImpState K) = .ok (st, rootIdx) ∧
      reorder (special (reweigh st.refs st.wt)) st.refs rootIdx = some rst := by
  obtain ⟨ds, hin⟩ := inputOK_of t roots key U hv hs hk
  obtain ⟨st, ps, e1, i1, _, hall, hnew⟩ := importRoots_spec t key ds hin roots hv.1.2.1 ({} : ImpState K)
    (impInv_empty t key)
  have hac : Acyc st.rows.size st.refs := fun i hi c hc => i1.child_lt t key hi hc
  have hps : ∀ r ∈ ps, r < st.rows.size := hall.left (P := fun x => x < st.rows.size) (fun _ _ h => h.1)
  obtain ⟨rst, e2, hinv, hroots0⟩ := reorder_spec st.rows.size st.refs
    (special (reweigh st.refs st.wt)) i1.s_refs hac ps hps
  refine ⟨st, ps, rst, ?_, ⟨hv, hs, hk, i1, hall, hinv, ?_, fun k hk' => (hnew k (by simp) hk').2⟩, e1, e2⟩
  · unfold orderWith
    rw [e1]
    simp only
    rw [e2]
  · intro k hk'
    obtain ⟨⟨p, hp, hd⟩, _⟩ := hnew k (by simp) hk'
    exact alloc_desc st.rows.size st.refs hinv hac (hps p hp) (hroots0 p hp) hd

/-- the de-duplication key identifies the cell a row unfolds to: every row has a key, and two rows have the same key
exactly when they unfold to the same tree (for Go's key, the hex representation hash: no SHA-256 collision among the
cells of the input, and `Hash()` succeeds) -/
def KeyInjOn (t : Table) (key : Nat → Option K) : Prop :=
  (∀ i, i < t.size → (key i).isSome) ∧
  ∀ i j, i < t.size → j < t.size →
    (key i = key j ↔ Table.unfold t (t.size + 1) i = Table.unfold t (t.size + 1) j)

/-- everything `order_valid` says about the result `o` of ordering the cells below `roots` of `t` -/
structure OrderValid (t : Table) (roots : List Nat) (o : Ordered) : Prop where
  /-- a valid layout in the sense of `parse_emit`: references strictly forward and in range, ≤ 4 of them, … -/
  valid : ValidLayout o.table o.roots
  /-- the root positions unfold to the input trees -/
  roots_eq : o.roots.map (Table.unfold o.table (o.table.size + 1)) = roots.map (Table.unfold t (t.size + 1))
  /-- no cell is stored twice: different positions hold structurally different cells -/
  once : ∀ p q, p < o.table.size → q < o.table.size →
    Table.unfold o.table (o.table.size + 1) p = Table.unfold o.table (o.table.size + 1) q → p = q
  /-- every sub-cell of the input is stored -/
  all : ∀ r ∈ roots, ∀ j, TDesc t r j →
    ∃ p, p < o.table.size ∧ Table.unfold o.table (o.table.size + 1) p = Table.unfold t (t.size + 1) j
  /-- nothing else is stored (no unreachable rows): every position holds a sub-cell of a root. With `once` and `all`:
  the positions are in bijection with the structurally distinct sub-cells of the roots -/
  sub : ∀ p, p < o.table.size → ∃ r ∈ roots, ∃ j, TDesc t r j ∧
    Table.unfold o.table (o.table.size + 1) p = Table.unfold t (t.size + 1) j
  /-- not more cells than the presentation has rows -/
  size_le : o.table.size ≤ t.size

theorem orderWith_valid (t : Table) (roots : List Nat) (key : Nat → Option K) (special : Array Int → Nat → Bool)
    (hv : ValidLayout t roots) (hk : KeyInjOn t key) :
    ∃ o, orderWith t key special roots = .ok o ∧ OrderValid t roots o := by
  have hft := fwd_of_rows t hv.1.1
  have hs := sem_exists t hft
  have hU : ∀ i, i < t.size → Table.unfold t (t.size + 1) i = some (semF t (t.size + 1) i) :=
    fun i hi => unfold_of_sem t _ hs hft (t.size + 1) i hi (by omega)
  have hkok : KeyOK t key (semF t (t.size + 1)) := by
    refine ⟨hk.1, ?_⟩
    intro i j hi hj
    rw [hk.2 i j hi hj, hU i hi, hU j hj]
    exact ⟨fun h => Option.some.inj h, fun h => by rw [h]⟩
  obtain ⟨st, rootIdx, rst, e, c, _, _⟩ := orderWith_ok t roots key special _ hv hs hkok
  refine ⟨_, e, ?_⟩
  have hsz := asm_size t st.rows st.cache rst rootIdx
  have hsem := c.isSem
  have hfF : Fwd (assemble t st.rows st.cache rst rootIdx).table := by
    intro p hp r hr
    have hp' : p < rst.out.size := by rw [hsz] at hp; exact hp
    have := (c.rowOK p hp').1.refs_fwd r hr
    rw [hsz]; exact this
  have hUF : ∀ p, p < rst.out.size →
      Table.unfold (assemble t st.rows st.cache rst rootIdx).table
        ((assemble t st.rows st.cache rst rootIdx).table.size + 1) p = some (fileSem (semF t (t.size + 1)) st rst p) :=
    fun p hp => unfold_of_sem _ _ hsem hfF _ p (by rw [hsz]; exact hp) (by omega)
  obtain ⟨hr1, hr2⟩ := c.roots_ok
  refine ⟨⟨⟨?_, ?_, c.depthOK⟩, ?_⟩, ?_, ?_, ?_, ?_, by rw [hsz]; exact c.size_le⟩
  · intro p hp
    have hp' : p < rst.out.size := by rw [hsz] at hp; exact hp
    rw [get!_of_getElem _ p hp, hsz]
    exact (c.rowOK p hp').1
  · intro r hr; rw [hsz]; exact hr1 r hr
  · intro p hp
    have hp' : p < rst.out.size := by rw [hsz] at hp; exact hp
    rw [get!_of_getElem _ p hp]
    exact (c.rowOK p hp').2
  · have h1 : (assemble t st.rows st.cache rst rootIdx).roots.map
        (Table.unfold (assemble t st.rows st.cache rst rootIdx).table
          ((assemble t st.rows st.cache rst rootIdx).table.size + 1))
        = ((assemble t st.rows st.cache rst rootIdx).roots.map (fileSem (semF t (t.size + 1)) st rst)).map some := by
      rw [List.map_map]
      apply List.map_congr_left
      intro r hr
      exact hUF r (hr1 r hr)
    have h2 : roots.map (Table.unfold t (t.size + 1)) = (roots.map (semF t (t.size + 1))).map some := by
      rw [List.map_map]
      apply List.map_congr_left
      intro r hr
      exact hU r (hv.1.2.1 r hr)
    rw [h1, h2, hr2]
  · intro p q hp hq h
    rw [hsz] at hp hq
    rw [hUF p hp, hUF q hq] at h
    exact c.inj p q hp hq (Option.some.inj h)
  · intro r hr j hj
    obtain ⟨p, hp, hpj⟩ := c.complete r hr j hj
    have hjl := tdesc_lt t hft (hv.1.2.1 r hr) hj
    exact ⟨p, by rw [hsz]; exact hp, by rw [hUF p hp, hU j hjl, hpj]⟩
  · intro p hp
    rw [hsz] at hp
    obtain ⟨r, hr, j, hj, hpj⟩ := c.sub p hp
    have hjl := tdesc_lt t hft (hv.1.2.1 r hr) hj
    exact ⟨r, hr, j, hj, by rw [hUF p hp, hU j hjl, hpj]⟩

/-! ### a small instance of the hypotheses of `order_valid` (non-vacuity) -/

def exT : Table := #[⟨0, 0, [true], [1, 1]⟩, ⟨0, 0, [], []⟩]

theorem exT_valid : ValidLayout exT [0] := by
  refine ⟨⟨?_, ?_, ⟨#[1, 0], rfl, ?_⟩⟩, ?_⟩
  · intro i hi
    have : i = 0 ∨ i = 1 := by simp [exT] at hi; omega
    rcases this with rfl | rfl
    · exact ⟨by simp [exT], by simp [exT], by simp [exT], by simp [exT], by simp [exT], by simp [exT, tyPruned]⟩
    · exact ⟨by simp [exT], by simp [exT], by simp [exT], by simp [exT], by simp [exT], by simp [exT, tyPruned]⟩
  · intro r hr; simp at hr; subst hr; decide
  · intro i hi
    have : i = 0 ∨ i = 1 := by simp [exT] at hi; omega
    rcases this with rfl | rfl
    · exact ⟨by simp [maxDepth], by simp [exT]⟩
    · exact ⟨by simp [maxDepth], by simp [exT]⟩
  · intro i hi h
    have : i = 0 ∨ i = 1 := by simp [exT] at hi; omega
    rcases this with rfl | rfl <;> exact absurd rfl h

theorem exT_key : Order.KeyInjOn exT (fun i => some i) := by
  refine ⟨fun _ _ => rfl, ?_⟩
  intro i j hi hj
  have hi' : i = 0 ∨ i = 1 := by simp [exT] at hi; omega
  have hj' : j = 0 ∨ j = 1 := by simp [exT] at hj; omega
  rcases hi' with rfl | rfl <;> rcases hj' with rfl | rfl <;> simp [exT, Table.unfold]

end Tongo.Boc.Order
