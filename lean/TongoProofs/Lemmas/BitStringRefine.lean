import TongoProofs.Lemmas.BitStringMisc
/-! The refinement relation between the byte-level bit string and the ideal bit list, and the write half of
"every operation refines its specification". Helper lemmas only. -/
namespace Tongo
open Tongo.Bits Tongo.BitString

/-- refinement relation: invariant, same bits, same capacity, same read position -/
def R (s : BitString) (t : Ideal) : Prop := Inv s ∧ abs s = t.bits ∧ s.cap = t.cap ∧ s.rCursor = t.pos

/-- outcomes are compared after abstracting returned bit strings -/
def normO : Outcome Out → Outcome Out
  | .ok o => .ok o.norm
  | .err e => .err e
  | .panic p => .panic p

def Agree (a : Outcome Out × BitString) (b : Outcome Out × Ideal) : Prop := normO a.1 = b.1 ∧ R a.2 b.2

theorem R.len {s t} (h : R s t) : t.bits.length = s.len := by rw [← h.2.1, h.1.abs_length]

namespace BitString

theorem unitOut_run (x : M Unit) (s : BitString) : Op.unitOut x s =
    match x s with
    | (.ok _, s') => (.ok .unit, s')
    | (.err e, s') => (.err e, s')
    | (.panic p, s') => (.panic p, s') := by
  simp only [Op.unitOut, bind_run]
  rcases x s with ⟨r, s'⟩
  cases r <;> rfl

theorem liftO_ok_bind {α β} (a : α) (f : α → M β) : (liftO (.ok a) >>= f) = f a := by
  funext s; rfl

/-- the loop of `WriteBitString` writes the source bits -/
theorem writeBitStringLoop_eq (src : BitString) (h8 : src.len ≤ 8 * src.buf.length) (n : Nat) :
    ∀ i, i + n ≤ src.len → writeBitStringLoop src i n = writeBitArray (((abs src).drop i).take n) := by
  induction n with
  | zero => intro i _; simp [writeBitStringLoop, writeBitArray]
  | succ n ih =>
    intro i hi
    have hlt : i < src.len := by omega
    have hl : i < (abs src).length := by rw [abs_length h8]; exact hlt
    rw [writeBitStringLoop, getBitOf_eq src i h8 hlt, liftO_ok_bind, ih (i + 1) (by omega),
      List.drop_eq_getElem_cons hl, List.take_succ_cons, writeBitArray_cons]

theorem writeBitString_eq (src : BitString) (h8 : src.len ≤ 8 * src.buf.length) :
    writeBitString src = writeBitArray (abs src) := by
  rw [writeBitString, writeBitStringLoop_eq src h8 src.len 0 (by omega), List.drop_zero,
    List.take_of_length_le (by rw [abs_length h8])]

end BitString

/-- every bit-list write refines `Ideal.write` -/
theorem write_refines (l : List Bool) (s : BitString) (t : Ideal) (hR : R s t) :
    Agree (Op.unitOut (writeBitArray l) s) (Ideal.write l t) := by
  obtain ⟨s', hw, ha, hi', hc, hr⟩ := writeBitArray_spec l s hR.1
  have hlen := hR.len
  obtain ⟨hi, hab, hcap, hpos⟩ := hR
  rw [unitOut_run, hw]
  unfold Ideal.write
  rw [hlen, ← hcap]
  by_cases hfit : s.len + l.length ≤ s.cap
  · simp only [hfit, if_true]
    refine ⟨rfl, hi', ?_, by rw [hc, hcap], by rw [hr, hpos]⟩
    rw [ha, hab, List.take_of_length_le (by omega)]
  · simp only [hfit, if_false]
    refine ⟨rfl, hi', ?_, by rw [hc, hcap], by rw [hr, hpos]⟩
    rw [ha, hab]

/-- an operation that fails without touching the state -/
theorem fail_refines (e : String) (s : BitString) (t : Ideal) (hR : R s t) :
    Agree (Op.unitOut (throwErr e) s) (Ideal.fail e t) := by
  rw [unitOut_run]
  exact ⟨rfl, hR⟩

end Tongo
