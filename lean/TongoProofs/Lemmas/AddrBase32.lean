import TongoProofs.Lemmas.AddrBase64
/-! `Base32.decode (Base32.encode bs) = some bs` for `bs.length % 5 = 0` (full groups, no padding); character facts.
Core Lean only. -/
namespace Tongo.Base32
open Tongo.Address (bv_forall_lt)

theorem list_ind5 {α : Type} {P : List α → Prop} (h0 : P [])
    (h5 : ∀ b0 b1 b2 b3 b4 rest, rest.length % 5 = 0 → P rest → P (b0 :: b1 :: b2 :: b3 :: b4 :: rest)) :
    ∀ l : List α, l.length % 5 = 0 → P l
  | [], _ => h0
  | [_], h => by simp at h
  | [_, _], h => by simp at h
  | [_, _, _], h => by simp at h
  | [_, _, _, _], h => by simp at h
  | b0 :: b1 :: b2 :: b3 :: b4 :: rest, h =>
    have hr : rest.length % 5 = 0 := by
      simp only [List.length_cons] at h; omega
    h5 b0 b1 b2 b3 b4 rest hr (list_ind5 h0 h5 rest hr)

/-! ### characters -/

theorem decChar_encChar (v : BitVec 5) : decChar (encChar v) = some v := by
  revert v; apply bv_forall_lt; decide

theorem encChar_ne_pad (v : BitVec 5) : encChar v ≠ pad := by
  revert v; apply bv_forall_lt; decide

theorem encChar_not_newline (v : BitVec 5) : isNewline (encChar v) = false := by
  revert v; apply bv_forall_lt; decide

/-- every character is an alphabet character (no padding) -/
def AllAlpha (s : List Byte) : Prop := ∀ c ∈ s, ∃ v, c = encChar v

theorem encode_allAlpha : ∀ bs : List Byte, bs.length % 5 = 0 → AllAlpha (encode bs) := by
  apply list_ind5
  · intro c hc; cases hc
  · intro b0 b1 b2 b3 b4 rest _ ih c hc
    simp only [encode, split5, List.map_cons, List.map_nil, List.cons_append, List.nil_append, List.mem_cons] at hc
    rcases hc with rfl | rfl | rfl | rfl | rfl | rfl | rfl | rfl | hc
    all_goals first | exact ⟨_, rfl⟩ | exact ih c hc

theorem encode_length : ∀ bs : List Byte, bs.length % 5 = 0 → (encode bs).length * 5 = 8 * bs.length := by
  apply list_ind5
  · rfl
  · intro b0 b1 b2 b3 b4 rest _ ih
    simp only [encode, split5, List.map_cons, List.map_nil, List.cons_append, List.nil_append, List.length_cons]
    omega

/-! ### one group -/

theorem group_digits (vs : List (BitVec 5)) (ds : List (BitVec 5)) (rest : List Byte) :
    group vs.length ds (vs.map encChar ++ rest) = some (groupBytes (ds ++ vs) 8, rest, false) := by
  induction vs generalizing ds with
  | nil => simp [group]
  | cons v t ih =>
    simp only [List.length_cons, List.map_cons, List.cons_append, group]
    rw [if_neg (fun h => encChar_ne_pad v h.1)]
    simp only [decChar_encChar]
    rw [ih]; simp

theorem digits_join (w : BitVec 40) :
    w.extractLsb' 35 5 ++ w.extractLsb' 30 5 ++ w.extractLsb' 25 5 ++ w.extractLsb' 20 5 ++
      w.extractLsb' 15 5 ++ w.extractLsb' 10 5 ++ w.extractLsb' 5 5 ++ w.extractLsb' 0 5 = w := by
  bv_bits

theorem bytes_split (b0 b1 b2 b3 b4 : Byte) :
    (b0 ++ b1 ++ b2 ++ b3 ++ b4).extractLsb' 32 8 = b0 ∧ (b0 ++ b1 ++ b2 ++ b3 ++ b4).extractLsb' 24 8 = b1 ∧
    (b0 ++ b1 ++ b2 ++ b3 ++ b4).extractLsb' 16 8 = b2 ∧ (b0 ++ b1 ++ b2 ++ b3 ++ b4).extractLsb' 8 8 = b3 ∧
    (b0 ++ b1 ++ b2 ++ b3 ++ b4).extractLsb' 0 8 = b4 := by
  refine ⟨?_, ?_, ?_, ?_, ?_⟩ <;> bv_bits

theorem join8_split5 (b0 b1 b2 b3 b4 : Byte) :
    groupBytes (split5 b0 b1 b2 b3 b4) 8 = [b0, b1, b2, b3, b4] := by
  obtain ⟨h0, h1, h2, h3, h4⟩ := bytes_split b0 b1 b2 b3 b4
  simp only [groupBytes, split5, join8, List.getD_cons_zero, List.getD_cons_succ, List.take_succ_cons,
    List.take_zero, digits_join, h0, h1, h2, h3, h4]

theorem group_split5 (b0 b1 b2 b3 b4 : Byte) (rest : List Byte) :
    group 8 [] ((split5 b0 b1 b2 b3 b4).map encChar ++ rest) = some ([b0, b1, b2, b3, b4], rest, false) := by
  have := group_digits (split5 b0 b1 b2 b3 b4) [] rest
  rw [List.nil_append, join8_split5] at this
  exact this

/-! ### round trip -/

theorem decodeLoop_encode : ∀ bs : List Byte, bs.length % 5 = 0 → ∀ n, bs.length ≤ n →
    decodeLoop n (encode bs) = some bs := by
  apply list_ind5
  · intro n _; cases n <;> rfl
  · intro b0 b1 b2 b3 b4 rest _ ih n hn
    cases n with
    | zero => simp at hn
    | succ n =>
      simp only [List.length_cons] at hn
      rw [encode, decodeLoop, group_split5]
      have hne : ((split5 b0 b1 b2 b3 b4).map encChar ++ encode rest).isEmpty = false := by
        simp [split5]
      simp only [hne, ih n (by omega)]
      simp

theorem decode_encode (bs : List Byte) (h : bs.length % 5 = 0) : decode (encode bs) = some bs := by
  unfold decode
  have hf : (encode bs).filter (fun c => !isNewline c) = encode bs := by
    rw [List.filter_eq_self]
    intro c hc
    obtain ⟨v, rfl⟩ := encode_allAlpha bs h c hc
    rw [encChar_not_newline]; rfl
  simp only [hf]
  apply decodeLoop_encode bs h
  have := encode_length bs h
  omega

end Tongo.Base32
