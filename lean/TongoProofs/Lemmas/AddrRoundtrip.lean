import TongoProofs.Lemmas.AddrDec
import TongoProofs.Lemmas.AddrBase64
import TongoProofs.Lemmas.AddrTlTlb
import TongoProofs.Lemmas.AddrBase32
/-! Round-trip theorems for the account-address forms (raw, user-friendly, JSON, TL, TL-B, ADNL base32), for all inputs.
`raw_roundtrip`, `raw_short_hex` are in AddrDec.lean; `tl_roundtrip`, `tlb_*` in AddrTlTlb.lean. Core Lean only. -/
namespace Tongo.Address
open Tongo

/-! ### user-friendly form -/

theorem mapStd_encChar (url : Bool) (v : BitVec 6) : mapStd (Base64.encChar url v) = Base64.encChar true v := by
  revert v; apply bv_forall_lt; cases url <;> decide

theorem mapStd_pad : mapStd Base64.pad = Base64.pad := by decide

theorem map_mapStd_encode (url : Bool) : ∀ bs, (Base64.encode url bs).map mapStd = Base64.encode true bs := by
  apply Base64.list_ind3
  · rfl
  · intro x; simp only [Base64.encode, Base64.split3, List.map, mapStd_encChar, mapStd_pad]
  · intro x y; simp only [Base64.encode, Base64.split3, List.map, mapStd_encChar, mapStd_pad]
  · intro x y z rest ih
    simp only [Base64.encode, Base64.split3, List.map_cons, mapStd_encChar, ih]

theorem humanPayload_length (a : AccountID) (b t : Bool) (h : a.WF) : (humanPayload a b t).length = 36 := by
  have h' : a.addr.length = 32 := h
  simp [humanPayload, be16, h']

/-- the int32 workchain is truncated to int8 by the friendly form -/
theorem human_alpha_workchain_truncated (url : Bool) (a : AccountID) (b t : Bool) (h : a.WF) :
    fromBase64Url (toHumanAlpha url a b t) = .ok ⟨(a.wc.setWidth 8).signExtend 32, a.addr⟩ := by
  have h' : a.addr.length = 32 := h
  unfold fromBase64Url toHumanAlpha
  rw [map_mapStd_encode, Base64.decode_encode]
  simp only [humanPayload_length a b t h]
  have hb : (tagByte b t :: a.wc.setWidth 8 :: a.addr).length = 34 := by simp [h']
  have htake : (humanPayload a b t).take 34 = tagByte b t :: a.wc.setWidth 8 :: a.addr := by
    unfold humanPayload; exact List.take_left' hb
  have hdrop : (humanPayload a b t).drop 34 = be16 (Crc16.crc16 (tagByte b t :: a.wc.setWidth 8 :: a.addr)) := by
    unfold humanPayload; exact List.drop_left' hb
  rw [htake, hdrop]
  simp only [ne_eq, not_true_eq_false, if_false]
  have haddr : ((humanPayload a b t).drop 2).take 32 = a.addr := by
    unfold humanPayload
    simp only [List.cons_append, List.drop_succ_cons, List.drop_zero]
    exact List.take_left' h'
  rw [haddr]
  simp [humanPayload]

theorem human_workchain_truncated (a : AccountID) (b t : Bool) (h : a.WF) :
    fromBase64Url (toHuman a b t) = .ok ⟨(a.wc.setWidth 8).signExtend 32, a.addr⟩ :=
  human_alpha_workchain_truncated true a b t h

theorem human_roundtrip (url : Bool) (a : AccountID) (bounce testnet : Bool) (h : a.WF)
    (hw : a.wc = (a.wc.setWidth 8).signExtend 32) :
    fromBase64Url (toHumanAlpha url a bounce testnet) = .ok a := by
  rw [human_alpha_workchain_truncated url a bounce testnet h, ← hw]

/-! ### ParseAccountID dispatch -/

theorem parse_dispatch_raw (a : AccountID) (h : a.WF) : parseAccountID (toRaw a) = .ok a := by
  unfold parseAccountID; rw [raw_roundtrip a h]

theorem splitColon_none (s : Str) (h : ∀ c ∈ s, c ≠ 58#8) : splitColon s = none := by
  induction s with
  | nil => rfl
  | cons c t ih =>
    have hc : c ≠ 58#8 := h c (by simp)
    simp only [splitColon, hc, if_false]
    rw [ih (fun x hx => h x (by simp [hx]))]; rfl

/-- the friendly form (either alphabet) is never accepted by the raw parser: no `:` among base64 characters -/
theorem fromRaw_human_err (url : Bool) (a : AccountID) (b t : Bool) :
    fromRaw (toHumanAlpha url a b t) = .err "invalid account id format" := by
  unfold fromRaw toHumanAlpha
  rw [splitColon_none _ (fun c hc => (Base64.encode_chars url _ c hc).ne_colon)]

theorem fromRaw_human_ne_ok (url : Bool) (a : AccountID) (b t : Bool) (x : AccountID) :
    fromRaw (toHumanAlpha url a b t) ≠ .ok x := by
  rw [fromRaw_human_err]; intro e; cases e

theorem parse_dispatch_human (url : Bool) (a : AccountID) (b t : Bool) (h : a.WF)
    (hw : a.wc = (a.wc.setWidth 8).signExtend 32) : parseAccountID (toHumanAlpha url a b t) = .ok a := by
  unfold parseAccountID
  rw [fromRaw_human_err]
  exact human_roundtrip url a b t h hw

/-- ParseAccountID accepts both printed forms: the raw form through the raw parser; the friendly form (either alphabet,
any flags, int8 workchain) is REJECTED by the raw parser (no `:`) and then accepted by the friendly parser -/
theorem parse_dispatch :
    (∀ a : AccountID, a.WF → parseAccountID (toRaw a) = .ok a) ∧
    (∀ (url : Bool) (a : AccountID) (b t : Bool), a.WF → a.wc = (a.wc.setWidth 8).signExtend 32 →
      (∃ e, fromRaw (toHumanAlpha url a b t) = .err e) ∧ (∀ x, fromRaw (toHumanAlpha url a b t) ≠ .ok x) ∧
      parseAccountID (toHumanAlpha url a b t) = .ok a) :=
  ⟨parse_dispatch_raw, fun url a b t h hw =>
    ⟨⟨_, fromRaw_human_err url a b t⟩, fromRaw_human_ne_ok url a b t, parse_dispatch_human url a b t h hw⟩⟩

/-! ### JSON -/

def IsRawChar (c : Byte) : Prop := c = 45#8 ∨ c = 58#8 ∨ isDigit c ∨ isHexLower c
instance (c : Byte) : Decidable (IsRawChar c) := by unfold IsRawChar; infer_instance

theorem jsonPlain_of_toNat (c : Byte)
    (h : 35 ≤ c.toNat ∧ c.toNat < 92 ∨ 93 ≤ c.toNat ∧ c.toNat < 127) : jsonPlain c = true := by
  have h1 : c ≠ 34#8 := by intro e; subst e; simp at h
  have h2 : c ≠ 92#8 := by intro e; subst e; simp at h
  simp [jsonPlain, h1, h2]; omega

theorem jsonPlain_of_rawChar (c : Byte) (h : IsRawChar c) : jsonPlain c = true := by
  apply jsonPlain_of_toNat
  rcases h with rfl | rfl | h | h
  · decide
  · decide
  · unfold isDigit at h; omega
  · unfold isHexLower at h; omega

theorem toRaw_chars (a : AccountID) : ∀ c ∈ toRaw a, IsRawChar c := by
  intro c hc
  simp only [toRaw, List.mem_append, List.mem_cons] at hc
  rcases hc with hc | rfl | hc
  · unfold int32ToDec at hc
    split at hc
    · simp only [List.mem_cons] at hc
      rcases hc with rfl | hc
      · exact .inl rfl
      · exact .inr (.inr (.inl (natToDec_digits _ c hc)))
    · exact .inr (.inr (.inl (natToDec_digits _ c hc)))
  · exact .inr (.inl rfl)
  · exact .inr (.inr (.inr (hexEncode_chars _ c hc)))

theorem json_roundtrip (a : AccountID) (h : a.WF) : fromJSON (toJSON a) = .ok a := by
  have hall : (toRaw a).all jsonPlain = true := by
    rw [List.all_eq_true]; intro c hc; exact jsonPlain_of_rawChar c (toRaw_chars a c hc)
  simp [fromJSON, toJSON, hall, parse_dispatch_raw a h]

/-! ### ADNL base32 form -/

theorem lower_upper (v : BitVec 5) : toUpper (toLower (Base32.encChar v)) = Base32.encChar v := by
  revert v; apply bv_forall_lt; decide

theorem lower_ascii (v : BitVec 5) : ¬ (toLower (Base32.encChar v)).toNat ≥ 128 := by
  revert v; apply bv_forall_lt; decide

theorem lower_ne_dot (v : BitVec 5) : toLower (Base32.encChar v) ≠ 46#8 := by
  revert v; apply bv_forall_lt; decide

theorem top5 (x b1 b2 b3 b4 : Byte) : (x ++ b1 ++ b2 ++ b3 ++ b4).extractLsb' 35 5 = x.extractLsb' 3 5 := by
  bv_bits

/-- the payload `0x2d ++ addr ++ crc16` -/
def adnlPayload (addr : List Byte) : List Byte := (0x2d#8 :: addr) ++ be16 (Crc16.crc16 (0x2d#8 :: addr))

theorem adnlPayload_length (addr : List Byte) (h : addr.length = 32) : (adnlPayload addr).length = 35 := by
  simp [adnlPayload, be16, h]

/-- the dropped first character is always `F` -/
theorem adnl_encode_head (addr : List Byte) (h : addr.length = 32) :
    Base32.encode (adnlPayload addr) = 70#8 :: (Base32.encode (adnlPayload addr)).drop 1 := by
  match addr, h with
  | b1 :: b2 :: b3 :: b4 :: rest, _ =>
    simp only [adnlPayload, List.cons_append, Base32.encode, Base32.split5, List.map_cons, top5, List.drop_succ_cons,
      List.drop_zero, List.cons.injEq, and_true]
    decide

theorem adnl_chars (addr : List Byte) (h : addr.length = 32) :
    ∀ c ∈ adnlToBase32 addr, ∃ v, c = toLower (Base32.encChar v) := by
  intro c hc
  have hp : (adnlPayload addr).length % 5 = 0 := by rw [adnlPayload_length addr h]
  simp only [adnlToBase32, List.mem_map] at hc
  obtain ⟨c', hc', rfl⟩ := hc
  obtain ⟨v, rfl⟩ := Base32.encode_allAlpha _ hp c' (List.mem_of_mem_drop hc')
  exact ⟨v, rfl⟩

theorem adnl_length (addr : List Byte) (h : addr.length = 32) : (adnlToBase32 addr).length = 55 := by
  have hp : (adnlPayload addr).length % 5 = 0 := by rw [adnlPayload_length addr h]
  have := Base32.encode_length _ hp
  rw [adnlPayload_length addr h] at this
  simp only [adnlToBase32, List.length_map, List.length_drop]
  change (Base32.encode (adnlPayload addr)).length - 1 = 55
  omega

theorem adnl_upper (addr : List Byte) (h : addr.length = 32) :
    70#8 :: (adnlToBase32 addr).map toUpper = Base32.encode (adnlPayload addr) := by
  have hp : (adnlPayload addr).length % 5 = 0 := by rw [adnlPayload_length addr h]
  have hmap : (adnlToBase32 addr).map toUpper = (Base32.encode (adnlPayload addr)).drop 1 := by
    simp only [adnlToBase32, List.map_map]
    change List.map (toUpper ∘ toLower) ((Base32.encode (adnlPayload addr)).drop 1) = _
    conv => rhs; rw [← List.map_id ((Base32.encode (adnlPayload addr)).drop 1)]
    apply List.map_congr_left
    intro c hc
    obtain ⟨v, rfl⟩ := Base32.encode_allAlpha _ hp c (List.mem_of_mem_drop hc)
    exact lower_upper v
  rw [hmap, ← adnl_encode_head addr h]

/-- the core of the parser on an untrimmed 55-character address -/
theorem parseADNL_core (addr : List Byte) (h : addr.length = 32) :
    (let s := adnlToBase32 addr
     if s.length ≠ 55 then Outcome.err "wrong adnl address length"
     else if s.any (fun c => c.toNat ≥ 128) then .err "non-ascii"
     else match Base32.decode (70#8 :: s.map toUpper) with
      | Option.none => .err "failed to decode address"
      | some buf =>
        if buf.length ≠ 35 then .err "wrong adnl address length"
        else if buf.getD 0 0 ≠ 0x2d#8 then .err "invalid first byte"
        else if be16 (Crc16.crc16 (buf.take 33)) ≠ buf.drop 33 then .err "invalid address"
        else .ok ((buf.drop 1).take 32)) = .ok addr := by
  have hp : (adnlPayload addr).length % 5 = 0 := by rw [adnlPayload_length addr h]
  have hany : (adnlToBase32 addr).any (fun c => decide (c.toNat ≥ 128)) = false := by
    rw [List.any_eq_false]
    intro c hc
    obtain ⟨v, rfl⟩ := adnl_chars addr h c hc
    simpa using lower_ascii v
  simp only [adnl_length addr h, hany, adnl_upper addr h, Base32.decode_encode _ hp, adnlPayload_length addr h]
  have hb : (0x2d#8 :: addr).length = 33 := by simp [h]
  have htake : (adnlPayload addr).take 33 = 0x2d#8 :: addr := List.take_left' hb
  have hdrop : (adnlPayload addr).drop 33 = be16 (Crc16.crc16 (0x2d#8 :: addr)) := List.drop_left' hb
  have haddr : ((adnlPayload addr).drop 1).take 32 = addr := by
    simp only [adnlPayload, List.cons_append, List.drop_succ_cons, List.drop_zero]
    exact List.take_left' h
  rw [htake, hdrop, haddr]
  simp [adnlPayload]

theorem trimSuffix_adnl (addr : List Byte) (h : addr.length = 32) :
    trimSuffix (adnlToBase32 addr) adnlSuffix = adnlToBase32 addr := by
  unfold trimSuffix
  rw [if_neg]
  intro hh
  have hmem : 46#8 ∈ (adnlToBase32 addr).drop ((adnlToBase32 addr).length - adnlSuffix.length) := by
    rw [hh.2]; simp [adnlSuffix]
  obtain ⟨v, hv⟩ := adnl_chars addr h _ (List.mem_of_mem_drop hmem)
  exact lower_ne_dot v hv.symm

theorem trimSuffix_adnl_suffix (addr : List Byte) :
    trimSuffix (adnlToBase32 addr ++ adnlSuffix) adnlSuffix = adnlToBase32 addr := by
  unfold trimSuffix
  have hl : (adnlToBase32 addr ++ adnlSuffix).length - adnlSuffix.length = (adnlToBase32 addr).length := by
    simp
  rw [hl, List.drop_left, List.take_left]
  simp

theorem adnl_base32_roundtrip (addr : List Byte) (h : addr.length = 32) :
    parseADNL (adnlToBase32 addr) = .ok addr := by
  unfold parseADNL
  rw [trimSuffix_adnl addr h]
  exact parseADNL_core addr h

theorem adnl_base32_suffix_roundtrip (addr : List Byte) (h : addr.length = 32) :
    parseADNL (adnlToBase32 addr ++ adnlSuffix) = .ok addr := by
  unfold parseADNL
  rw [trimSuffix_adnl_suffix addr]
  exact parseADNL_core addr h

end Tongo.Address
