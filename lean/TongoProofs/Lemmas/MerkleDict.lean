import TongoProofs.Lemmas.Merkle
/-! Helper lemmas for C18: the loop of `ProveKeyInHashmap` against the TON dictionary lookup, on the original tree and
on its pruning; positions in a pruned tree. -/
open Tongo Tongo.Merkle
namespace Tongo.MerkleLemmas

theorem specPruneList_getElem? (H : List UInt8 → List UInt8) (P : List Nat → Bool) :
    ∀ (cs : List Cell) (path : List Nat) (i j : Nat),
      (specPruneList H P path i cs)[j]? = cs[j]?.map (specPrune H P (path ++ [i + j]))
  | [], _, _, _ => by simp [specPruneList]
  | c :: cs, path, i, 0 => by simp [specPruneList]
  | c :: cs, path, i, j + 1 => by
    simp only [specPruneList, List.getElem?_cons_succ]
    rw [specPruneList_getElem? H P cs path (i + 1) j]
    have : i + 1 + j = i + (j + 1) := by omega
    rw [this]

/-- a position that is not pruned keeps its type, data bits, and has the pruned children -/
theorem specPrune_notPruned (H : List UInt8 → List UInt8) (P : List Nat → Bool) (path : List Nat) (c : Cell)
    (h : P path = false) :
    (specPrune H P path c).bits = c.bits ∧ (specPrune H P path c).refs = specPruneList H P path 0 c.refs := by
  cases c with
  | mk ty mask bits refs => simp [specPrune, h, Cell.bits, Cell.refs]

/-- Everything the theorems need about the loop of `ProveKeyInHashmap`, by one induction: the reconstructed prefix
extends the given one and stays within the key size; the pruned positions added are strict extensions of the cursor
position; and, if the reconstructed key equals the key, the TON dictionary lookup finds the same leaf — both in the
original tree and in any pruning of it that prunes nothing but the collected positions. -/
theorem walk_spec (H : List UInt8 → List UInt8) (ks : Nat) : ∀ (fuel n : Nat) (cell : Cell) (path : List Nat)
    (key pfx : List Bool) (pruned : List (List Nat)) (w : Walk),
    walk ks fuel n cell path key pfx pruned = .ok w → n = key.length → pfx.length ≤ ks →
    ∃ sfx, w.pfx = pfx ++ sfx ∧ w.pfx.length ≤ ks ∧
      (∀ q ∈ w.pruned, q ∈ pruned ∨ (path <+: q ∧ path.length < q.length)) ∧
      (sfx = key →
        dictLookup fuel n cell key = some (w.rest, w.leaf.refs) ∧
        ∀ P : List Nat → Bool, (∀ q, P q = true → q ∈ w.pruned) → (∀ q ∈ pruned, ¬ path <+: q) →
          ∃ refs', dictLookup fuel n (specPrune H P path cell) key = some (w.rest, refs')) := by
  intro fuel
  induction fuel with
  | zero => intro n cell path key pfx pruned w h; simp [walk] at h
  | succ fuel ih =>
    intro n cell path key pfx pruned w h hn hpfx
    -- the cursor position itself is never among the collected positions
    have notP : ∀ (P : List Nat → Bool) (wp : List (List Nat)),
        (∀ q ∈ wp, q ∈ pruned ∨ (path <+: q ∧ path.length < q.length)) →
        (∀ q, P q = true → q ∈ wp) → (∀ q ∈ pruned, ¬ path <+: q) → P path = false := by
      intro P wp hwp hP hdiv
      cases hpp : P path with
      | false => rfl
      | true =>
        rcases hwp path (hP path hpp) with h1 | ⟨_, h2⟩
        · exact absurd (List.prefix_refl path) (hdiv path h1)
        · omega
    rw [walk] at h
    split at h
    · cases h
    · rename_i label rest hl
      split at h
      · cases h
      · rename_i hov
        simp only [] at h
        split at h
        · -- leaf
          rename_i hleaf
          cases h
          refine ⟨label, rfl, by simp only [List.length_append]; omega, fun q hq => Or.inl hq, ?_⟩
          intro hk
          subst hk
          subst hn
          refine ⟨by simp [dictLookup, hl], ?_⟩
          intro P hP hdiv
          have hnp := notP P pruned (fun q hq => Or.inl hq) hP hdiv
          obtain ⟨b1, b2⟩ := specPrune_notPruned H P path cell hnp
          refine ⟨(specPrune H P path cell).refs, ?_⟩
          simp [dictLookup, b1, hl]
        · rename_i hnl
          split at h
          · cases h
          · rename_i hkl
            split at h
            · cases h
            · rename_i isRight key' hdrop
              split at h
              · cases h
              · rename_i hov2
                split at h
                · cases h
                · rename_i r0 hr0
                  have hlen : key.length - label.length = key'.length + 1 := by
                    have := congrArg List.length hdrop
                    simpa using this
                  have hn' : n - label.length - 1 = key'.length := by omega
                  have hpfx' : (pfx ++ label ++ [isRight]).length ≤ ks := by
                    simp only [List.length_append, List.length_cons, List.length_nil] at hov2 ⊢; omega
                  -- common conclusion from the recursive call into child `b`, pruning sibling `s`
                  have fin : ∀ (r : Cell) (b s : Nat), b ≠ s →
                      cell.refs[if isRight then 1 else 0]? = some r → b = (if isRight then 1 else 0) →
                      walk ks fuel (n - label.length - 1) r (path ++ [b]) key' (pfx ++ label ++ [isRight])
                        (pruned ++ [path ++ [s]]) = .ok w →
                      ∃ sfx, w.pfx = pfx ++ sfx ∧ w.pfx.length ≤ ks ∧
                        (∀ q ∈ w.pruned, q ∈ pruned ∨ (path <+: q ∧ path.length < q.length)) ∧
                        (sfx = key →
                          dictLookup (fuel + 1) n cell key = some (w.rest, w.leaf.refs) ∧
                          ∀ P : List Nat → Bool, (∀ q, P q = true → q ∈ w.pruned) → (∀ q ∈ pruned, ¬ path <+: q) →
                            ∃ refs', dictLookup (fuel + 1) n (specPrune H P path cell) key = some (w.rest, refs')) := by
                    intro r b s hbs hr hb hw
                    obtain ⟨sfx', e1, e2, e3, e4⟩ := ih _ r (path ++ [b]) key' _ _ w hw hn' hpfx'
                    have hwp : ∀ q ∈ w.pruned, q ∈ pruned ∨ (path <+: q ∧ path.length < q.length) := by
                      intro q hq
                      rcases e3 q hq with h1 | ⟨h2, h3⟩
                      · rcases List.mem_append.mp h1 with h1 | h1
                        · exact Or.inl h1
                        · simp only [List.mem_singleton] at h1
                          subst h1
                          exact Or.inr ⟨List.prefix_append _ _, by simp⟩
                      · refine Or.inr ⟨(List.prefix_append path [b]).trans h2, ?_⟩
                        simp only [List.length_append, List.length_cons, List.length_nil] at h3; omega
                    refine ⟨label ++ [isRight] ++ sfx', by rw [e1]; simp, e2, hwp, ?_⟩
                    intro hk
                    have hkey : key = key.take label.length ++ isRight :: key' := by
                      rw [← hdrop]; exact (List.take_append_drop _ _).symm
                    have htl : (key.take label.length).length = label.length := by
                      rw [List.length_take]; omega
                    have hsplit : label ++ [isRight] ++ sfx' = key.take label.length ++ isRight :: key' := by
                      rw [hk]; exact hkey
                    have h1 : label = key.take label.length ∧ isRight :: sfx' = isRight :: key' := by
                      have := List.append_inj (s₁ := label) (t₁ := [isRight] ++ sfx')
                        (s₂ := key.take label.length) (t₂ := isRight :: key') (by simpa using hsplit) htl.symm
                      exact ⟨this.1, by simpa using this.2⟩
                    have hs' : sfx' = key' := by simpa using h1.2
                    obtain ⟨f1, f2⟩ := e4 hs'
                    have c1 : ¬ label.length > n := by omega
                    have c2 : ¬ (key.take label.length ≠ label) := by simp [← h1.1]
                    have c3 : ¬ label.length = n := by omega
                    constructor
                    · simp only [dictLookup, hl, c1, c2, c3, if_false, hdrop, hr]
                      exact f1
                    · intro P hP hdiv
                      have hnp := notP P w.pruned hwp hP hdiv
                      obtain ⟨b1, b2⟩ := specPrune_notPruned H P path cell hnp
                      have hdiv' : ∀ q ∈ pruned ++ [path ++ [s]], ¬ (path ++ [b]) <+: q := by
                        intro q hq hpre
                        rcases List.mem_append.mp hq with h1 | h1
                        · exact hdiv q h1 ((List.prefix_append path [b]).trans hpre)
                        · simp only [List.mem_singleton] at h1
                          subst h1
                          have := List.IsPrefix.eq_of_length hpre (by simp)
                          have := List.append_cancel_left this
                          simp at this
                          exact hbs this
                      obtain ⟨refs', f3⟩ := f2 P hP hdiv'
                      refine ⟨refs', ?_⟩
                      have hkid : (specPrune H P path cell).refs[if isRight then 1 else 0]? =
                          some (specPrune H P (path ++ [b]) r) := by
                        rw [b2, specPruneList_getElem?, hr, hb]; simp
                      simp only [dictLookup, b1, hl, c1, c2, c3, if_false, hdrop, hkid]
                      exact f3
                  cases isRight with
                  | true =>
                    simp only [if_true] at h
                    split at h
                    · cases h
                    · rename_i r1 hr1
                      exact fin r1 1 0 (by decide) (by simpa using hr1) rfl h
                  | false =>
                    simp only [Bool.false_eq_true, if_false] at h
                    split at h
                    · cases h
                    · exact fin r0 0 1 (by decide) (by simpa using hr0) rfl h


/-- below positions that are not pruned, the pruned tree has at position `q` the pruning of what the original has there -/
theorem specPrune_cellAt (H : List UInt8 → List UInt8) (P : List Nat → Bool) :
    ∀ (q : List Nat) (c : Cell) (path : List Nat) (o : Cell), cellAt c q = some o →
      (∀ q', q' <+: q → q' ≠ q → P (path ++ q') = false) →
      cellAt (specPrune H P path c) q = some (specPrune H P (path ++ q) o)
  | [], c, path, o, h, _ => by
    simp only [cellAt, Option.some.injEq] at h
    subst h
    simp [cellAt]
  | i :: rest, .mk ty mask bits refs, path, o, h, hnp => by
    have h0 : P path = false := by
      have := hnp [] (List.nil_prefix) (by simp)
      simpa using this
    simp only [cellAt] at h
    split at h
    · rename_i k hk
      have hkid : (specPruneList H P path 0 refs)[i]? = some (specPrune H P (path ++ [i]) k) := by
        rw [specPruneList_getElem?, hk]; simp
      simp only [specPrune, h0, Bool.false_eq_true, if_false, cellAt, hkid]
      have := specPrune_cellAt H P rest k (path ++ [i]) o h (by
        intro q' hq' hne
        have := hnp (i :: q') (by simpa using hq') (by simpa using hne)
        simpa using this)
      simpa using this
    · cases h

end Tongo.MerkleLemmas

namespace Tongo.MerkleLemmas
open Tongo.Merkle

theorem noSingleRefL_get : ∀ (cs : List Cell) (i : Nat) (c : Cell), noSingleRefL cs = true → cs[i]? = some c →
    noSingleRef c = true
  | [], _, _, _, h => by simp at h
  | x :: xs, 0, c, hn, h => by
    simp only [noSingleRefL, Bool.and_eq_true] at hn
    simp only [List.getElem?_cons_zero, Option.some.injEq] at h
    subst h; exact hn.1
  | x :: xs, i + 1, c, hn, h => by
    simp only [noSingleRefL, Bool.and_eq_true] at hn
    simp only [List.getElem?_cons_succ] at h
    exact noSingleRefL_get xs i c hn.2 h

/-- the loop of `ProveKeyInHashmap` panics only at `cursor.Ref(1)` of a cell with exactly one ref -/
theorem walk_no_panic (ks : Nat) : ∀ (fuel n : Nat) (cell : Cell) (path : List Nat) (key pfx : List Bool)
    (pruned : List (List Nat)), noSingleRef cell = true →
    (walk ks fuel n cell path key pfx pruned).isPanic = false := by
  intro fuel
  induction fuel with
  | zero => intros; rfl
  | succ fuel ih =>
    intro n cell path key pfx pruned hns
    cases cell with
    | mk ty mask bits refs =>
    simp only [noSingleRef, Bool.and_eq_true, bne_iff_ne, ne_eq] at hns
    obtain ⟨hlen, hkids⟩ := hns
    rw [walk]
    split
    · rfl
    · split
      · rfl
      · simp only []
        split
        · rfl
        · split
          · rfl
          · split
            · rfl
            · split
              · rfl
              · split
                · rfl
                · rename_i r0 hr0
                  simp only [Cell.refs] at hr0 ⊢
                  split
                  · split
                    · rfl
                    · rename_i r1 hr1
                      exact ih _ r1 _ _ _ _ (noSingleRefL_get refs 1 r1 hkids hr1)
                  · split
                    · rename_i hr1
                      -- refs[0] exists, refs[1] does not: exactly one ref
                      exfalso
                      have h0 : 0 < refs.length := by
                        have := (List.getElem?_eq_some_iff.mp hr0).1; exact this
                      have h1 : refs.length ≤ 1 := by
                        have := List.getElem?_eq_none_iff.mp hr1; exact this
                      omega
                    · exact ih _ r0 _ _ _ _ (noSingleRefL_get refs 0 r0 hkids hr0)

end Tongo.MerkleLemmas

namespace Tongo.MerkleLemmas
open Tongo.Merkle

/-- the fuel `proveKey` gives the loop of `ProveKeyInHashmap` is never exhausted: with more fuel than remaining key
bits the loop does not end in the artificial `err "fuel"` (every iteration consumes at least one key bit) -/
theorem walk_fuel (ks : Nat) : ∀ (fuel n : Nat) (cell : Cell) (path : List Nat) (key pfx : List Bool)
    (pruned : List (List Nat)), n < fuel → walk ks fuel n cell path key pfx pruned ≠ .err "fuel" := by
  intro fuel
  induction fuel with
  | zero => intro n _ _ _ _ _ h; omega
  | succ fuel ih =>
    intro n cell path key pfx pruned hn
    rw [walk]
    split
    · simp
    · split
      · simp
      · simp only []
        split
        · simp
        · rename_i hnl
          split
          · simp
          · split
            · simp
            · split
              · simp
              · split
                · simp
                · split
                  · split
                    · simp
                    · exact ih _ _ _ _ _ _ (by omega)
                  · split
                    · simp
                    · exact ih _ _ _ _ _ _ (by omega)

end Tongo.MerkleLemmas
