import TongoProofs.Lemmas.TlbSum
/-! The generic round-trip induction over type descriptors (property C03, theorem `decode_encode`). -/
namespace Tongo.Tlb
open Tongo Tongo.Bits

/-- provably not greedy: some amount of fuel shows that no value of the type swallows the rest of the cell -/
def NG (env : Env) (T : Ty) : Prop := ∃ k, greedyb env k T = false
def NGF (env : Env) (fs : Fields) : Prop := ∃ k, greedyFields env k fs = false
def NGC (env : Env) (cs : Ctors) : Prop := ∃ k, greedyCtors env k cs = false

/-- greediness of a struct field as seen by its struct -/
def NGfield (env : Env) (ft : FieldTag) (T : Ty) : Prop :=
  match ft with
  | .plain | .maybe => NG env T
  | _ => True

section NGinv
variable {env : Env}

theorem NG.ptr {m t} (h : NG env (.ptr m t)) : NG env t := by
  obtain ⟨k, hk⟩ := h
  cases k with
  | zero => simp [greedyb] at hk
  | succ k => exact ⟨k, by simpa [greedyb] using hk⟩

theorem NG.maybe {t} (h : NG env (.maybe t)) : NG env t := by
  obtain ⟨k, hk⟩ := h
  cases k with
  | zero => simp [greedyb] at hk
  | succ k => exact ⟨k, by simpa [greedyb] using hk⟩

theorem NG.eitherRef {t} (h : NG env (.eitherRef t)) : NG env t := by
  obtain ⟨k, hk⟩ := h
  cases k with
  | zero => simp [greedyb] at hk
  | succ k => exact ⟨k, by simpa [greedyb] using hk⟩

theorem NG.either {l r} (h : NG env (.either l r)) : NG env l ∧ NG env r := by
  obtain ⟨k, hk⟩ := h
  cases k with
  | zero => simp [greedyb] at hk
  | succ k =>
    simp only [greedyb, Bool.or_eq_false_iff] at hk
    exact ⟨⟨k, hk.1⟩, ⟨k, hk.2⟩⟩

theorem NG.named {id t} (h : NG env (.named id)) (he : env id = some t) : NG env t := by
  obtain ⟨k, hk⟩ := h
  cases k with
  | zero => simp [greedyb] at hk
  | succ k => exact ⟨k, by simpa [greedyb, he] using hk⟩

theorem NG.struct {fs} (h : NG env (.struct fs)) : NGF env fs := by
  obtain ⟨k, hk⟩ := h
  cases k with
  | zero => simp [greedyb] at hk
  | succ k => exact ⟨k, by simpa [greedyb] using hk⟩

theorem NG.sum {cs} (h : NG env (.sum cs)) : NGC env cs := by
  obtain ⟨k, hk⟩ := h
  cases k with
  | zero => simp [greedyb] at hk
  | succ k => exact ⟨k, by simpa [greedyb] using hk⟩

theorem NG.prim {p} (h : NG env (.prim p)) : p.greedy = false := by
  obtain ⟨k, hk⟩ := h
  cases k with
  | zero => simp [greedyb] at hk
  | succ k => simpa [greedyb] using hk

theorem NG.not_cell (h : NG env .cell) : False := by
  obtain ⟨k, hk⟩ := h
  cases k <;> simp [greedyb] at hk

theorem NGF.cons {n ft t rest} (h : NGF env (.cons n ft t rest)) : NGfield env ft t ∧ NGF env rest := by
  obtain ⟨k, hk⟩ := h
  cases k with
  | zero => simp [greedyFields] at hk
  | succ k =>
    simp only [greedyFields, Bool.or_eq_false_iff] at hk
    refine ⟨?_, ⟨k, hk.2⟩⟩
    cases ft <;> simp only [NGfield] <;> first | trivial | exact ⟨k, hk.1⟩

theorem NGC.find_aux : ∀ (cs : Ctors) {name : String} {tg : Option Tag} {t : Ty} (k : Nat),
    greedyCtors env k cs = false → cs.find name = some (tg, t) → NG env t
  | .nil, _, _, _, _, _, hf => by simp [Ctors.find] at hf
  | .cons n tg0 t0 rest, name, tg, t, k, hk, hf => by
    cases k with
    | zero => simp [greedyCtors] at hk
    | succ k =>
      simp only [greedyCtors, Bool.or_eq_false_iff] at hk
      simp only [Ctors.find] at hf
      split at hf
      · cases hf; exact ⟨k, hk.1⟩
      · exact NGC.find_aux rest k hk.2 hf

theorem NGC.find {cs : Ctors} {name tg t} (h : NGC env cs) (hf : cs.find name = some (tg, t)) : NG env t := by
  obtain ⟨k, hk⟩ := h
  exact NGC.find_aux cs k hk hf

end NGinv

/-- every entry of the type environment is well formed -/
def EnvWF (env : Env) : Prop := ∀ id T, env id = some T → wfTop env T = true

/-- round-trip lemma of a hand-written codec (`CodecOK_<custom>`) -/
def PrimOK (p : Prim) : Prop :=
  ∀ v b b', p.wf = true → p.inDom v = true → Prim.enc p v b = .ok b' →
    ∃ xs rs, b' = b.app xs rs ∧ RT (Prim.dec p) (p.greedy = false) v xs rs

/-- the three mutually dependent statements at one fuel level -/
structure Inv (env : Env) (fuel : Nat) : Prop where
  enc : ∀ T v b b', wfb env T = true → inDom env fuel T v = true → encode env fuel T v b = .ok b' →
    ∃ xs rs, b' = b.app xs rs ∧ RT (decode env fuel T) (NG env T) v xs rs
  field : ∀ n ft T rest v b b', wfFields env (.cons n ft T rest) = true → inDomField env fuel ft T v = true →
    encodeField env fuel ft T v b = .ok b' →
    ∃ xs rs, b' = b.app xs rs ∧ RT (decodeField env fuel ft T) (NGfield env ft T) v xs rs
  fields : ∀ fs v b b', wfFields env fs = true → inDomFields env fuel fs v = true →
    encodeFields env fuel fs v b = .ok b' →
    ∃ xs rs, b' = b.app xs rs ∧ RT (decodeFields env fuel fs) (NGF env fs) v xs rs

theorem Inv.zero (env : Env) : Inv env 0 := by
  refine ⟨?_, ?_, ?_⟩
  · intro T v b b' _ hd; simp [inDom] at hd
  · intro n ft T rest v b b' _ hd; simp [inDomField] at hd
  · intro fs v b b' _ hd; simp [inDomFields] at hd

theorem toCell_ofCell (c : Cell) : (Builder.ofCell c).toCell = c := by
  cases c; rfl

theorem Slice.toCell_ofCell (c : Cell) : (Slice.ofCell c).toCell = c := by
  cases c; rfl

theorem ofCell_app_empty (xs : List Bool) (rs : List Cell) :
    Slice.ofCell (Builder.empty.app xs rs).toCell = (({} : Slice)).prepend xs rs := by
  simp [Builder.empty, Builder.app, Builder.toCell, Slice.ofCell, Slice.prepend]

theorem natToBits_mod64 (n x : Nat) (hn : n ≤ 64) : natToBits n (x % 2 ^ 64) = natToBits n x := by
  apply natToBits_congr
  exact Nat.mod_mod_of_dvd x (Nat.pow_dvd_pow 2 hn)

section
variable {env : Env} {f : Nat}

theorem enc_int (n : Nat) (v : Val) (b b' : Builder) (hw : wfb env (.int n) = true)
    (hd : inDom env (f + 1) (.int n) v = true) (he : encode env (f + 1) (.int n) v b = .ok b') :
    ∃ xs rs, b' = b.app xs rs ∧ RT (decode env (f + 1) (.int n)) (NG env (.int n)) v xs rs := by
  simp only [wfb, Bool.and_eq_true, decide_eq_true_eq] at hw
  cases v <;> simp only [inDom, Bool.false_eq_true] at hd
  rename_i i
  simp only [Bool.and_eq_true, decide_eq_true_eq] at hd
  simp only [encode, Builder.writeInt] at he
  have hb := Builder.writeBits_ok he
  refine ⟨_, [], hb, RTs.toRT ?_ _⟩
  intro s hs
  have := Slice.readInt_prepend s n i [] [] hw.1 hw.2 hd.1 hd.2
  simp only [List.append_nil] at this
  simp only [decode, Slice.prepend_isLibrary, hs, Bool.false_eq_true, ↓reduceIte, this,
    bind, Outcome.bind, pure, Slice.prepend_nil]

theorem enc_bool (v : Val) (b b' : Builder)
    (hd : inDom env (f + 1) .bool v = true) (he : encode env (f + 1) .bool v b = .ok b') :
    ∃ xs rs, b' = b.app xs rs ∧ RT (decode env (f + 1) .bool) (NG env .bool) v xs rs := by
  cases v <;> simp only [inDom, Bool.false_eq_true] at hd
  rename_i x
  simp only [encode, Builder.writeBit] at he
  have hb := Builder.writeBits_ok he
  refine ⟨_, [], hb, RTs.toRT ?_ _⟩
  intro s hs
  have := Slice.readBit_prepend s x [] []
  simp only [decode, Slice.prepend_isLibrary, hs, Bool.false_eq_true, ↓reduceIte, this,
    bind, Outcome.bind, pure, Slice.prepend_nil]

theorem enc_bytes (n : Nat) (v : Val) (b b' : Builder)
    (hd : inDom env (f + 1) (.bytes n) v = true) (he : encode env (f + 1) (.bytes n) v b = .ok b') :
    ∃ xs rs, b' = b.app xs rs ∧ RT (decode env (f + 1) (.bytes n)) (NG env (.bytes n)) v xs rs := by
  cases v <;> simp only [inDom, Bool.false_eq_true] at hd
  rename_i bs
  simp only [beq_iff_eq] at hd
  simp only [encode, hd, ↓reduceIte, Builder.writeBytes] at he
  have hb := Builder.writeBits_ok he
  refine ⟨_, [], hb, RTs.toRT ?_ _⟩
  intro s hs
  have := Slice.readBytes_prepend s bs [] []
  simp only [List.append_nil, hd] at this
  simp only [decode, Slice.prepend_isLibrary, hs, Bool.false_eq_true, ↓reduceIte, this,
    bind, Outcome.bind, pure, Slice.prepend_nil]

theorem enc_dictE (id : String) (v : Val) (b b' : Builder)
    (hd : inDom env (f + 1) (.dictE id) v = true) (he : encode env (f + 1) (.dictE id) v b = .ok b') :
    ∃ xs rs, b' = b.app xs rs ∧ RT (decode env (f + 1) (.dictE id)) (NG env (.dictE id)) v xs rs := by
  cases v <;> simp only [inDom, Bool.false_eq_true] at hd
  simp only [encode, Builder.writeBit] at he
  have hb := Builder.writeBits_ok he
  refine ⟨_, [], hb, RTs.toRT ?_ _⟩
  intro s hs
  have := Slice.readBit_prepend s false [] []
  simp only [decode, Slice.prepend_isLibrary, hs, Bool.false_eq_true, ↓reduceIte, this,
    bind, Outcome.bind, pure, Slice.prepend_nil]

end

theorem enc_uint {env : Env} {f : Nat} (n : Nat) (v : Val) (b b' : Builder) (hw : wfb env (.uint n) = true)
    (hd : inDom env (f + 1) (.uint n) v = true) (he : encode env (f + 1) (.uint n) v b = .ok b') :
    ∃ xs rs, b' = b.app xs rs ∧ RT (decode env (f + 1) (.uint n)) (NG env (.uint n)) v xs rs := by
  simp only [wfb, decide_eq_true_eq] at hw
  cases v <;> simp only [inDom, Bool.false_eq_true] at hd
  rename_i i
  simp only [Bool.and_eq_true, decide_eq_true_eq] at hd
  simp only [encode, Builder.writeUint] at he
  have hb := Builder.writeBits_ok he
  refine ⟨_, [], hb, RTs.toRT ?_ _⟩
  intro s hs
  have := Slice.readUint_prepend s n i.toNat [] [] hw
  simp only [List.append_nil] at this
  simp only [decode, Slice.prepend_isLibrary, hs, Bool.false_eq_true, ↓reduceIte, natToBits_mod64 n _ hw, this,
    bind, Outcome.bind, pure, Slice.prepend_nil]
  have hlt : i.toNat < 2 ^ n := by
    have : ((i.toNat : Nat) : Int) < ((2 ^ n : Nat) : Int) := by rw [Int.toNat_of_nonneg hd.1]; push_cast; exact hd.2
    exact_mod_cast this
  rw [Nat.mod_eq_of_lt hlt, Int.toNat_of_nonneg hd.1]

section
variable {env : Env} {f : Nat}

theorem RT.mono {dec : Slice → Outcome (Val × Slice)} {p q : Prop} {v xs rs} (h : RT dec p v xs rs) (hpq : q → p) :
    RT dec q v xs rs := by
  intro s hs hc
  obtain ⟨s', h1, h2⟩ := h s hs (hc.elim (fun hq => Or.inl (hpq hq)) Or.inr)
  exact ⟨s', h1, fun hq => h2 (hpq hq)⟩

/-- transport along a decoder that post-processes the value and keeps the slice -/
theorem RT.map {dec dec' : Slice → Outcome (Val × Slice)} {p : Prop} {v xs rs} (g : Val → Val)
    (h : RT dec p v xs rs)
    (hd : ∀ s v' s', s.isLibrary = false → dec s = .ok (v', s') → dec' s = .ok (g v', s')) :
    RT dec' p (g v) xs rs := by
  intro s hs hc
  obtain ⟨s', h1, h2⟩ := h s hs hc
  exact ⟨s', hd _ _ _ (by simpa using hs) h1, h2⟩

theorem enc_ptr (h : Inv env f) (m : Bool) (t : Ty) (v : Val) (b b' : Builder) (hw : wfb env (.ptr m t) = true)
    (hd : inDom env (f + 1) (.ptr m t) v = true) (he : encode env (f + 1) (.ptr m t) v b = .ok b') :
    ∃ xs rs, b' = b.app xs rs ∧ RT (decode env (f + 1) (.ptr m t)) (NG env (.ptr m t)) v xs rs := by
  simp only [wfb] at hw
  have hshape : ∃ x, v = .cons x .nil ∧ inDom env f t x = true := by
    simp only [inDom] at hd
    split at hd
    · simp only [Bool.and_eq_true] at hd; exact ⟨_, rfl, hd.1⟩
    · cases hd
  obtain ⟨x, rfl, hdx⟩ := hshape
  simp only [encode] at he
  obtain ⟨xs, rs, hb, hrt⟩ := h.enc t x b b' hw hdx he
  refine ⟨xs, rs, hb, ?_⟩
  refine RT.map Val.some (hrt.mono NG.ptr) ?_
  intro s v' s' hs hdec
  simp only [decode, hs, Bool.false_eq_true, ↓reduceIte, hdec, bind, Outcome.bind, pure]
end

section
variable {env : Env} {f : Nat}

/-- a bit written in front of a chunk is read first -/
theorem RT.consBit {dec dec' : Slice → Outcome (Val × Slice)} {p : Prop} {v xs rs} (x : Bool) (g : Val → Val)
    (h : RT dec p v xs rs)
    (hd : ∀ s v' s', s.isLibrary = false → dec (s) = .ok (v', s') →
      ∀ s0 : Slice, s0.readBit = .ok (x, s) → s0.isLibrary = false → dec' s0 = .ok (g v', s')) :
    RT dec' p (g v) (x :: xs) rs := by
  intro s hs hc
  obtain ⟨s', h1, h2⟩ := h s hs hc
  refine ⟨s', ?_, h2⟩
  exact hd _ _ _ (by simpa using hs) h1 _ (Slice.readBit_prepend s x xs rs) (by simpa using hs)

theorem enc_named (hEnv : EnvWF env) (h : Inv env f) (nid : Nat) (v : Val) (b b' : Builder)
    (hw : wfb env (.named nid) = true)
    (hd : inDom env (f + 1) (.named nid) v = true) (he : encode env (f + 1) (.named nid) v b = .ok b') :
    ∃ xs rs, b' = b.app xs rs ∧ RT (decode env (f + 1) (.named nid)) (NG env (.named nid)) v xs rs := by
  simp only [wfb] at hw
  cases hid : env nid with
  | none => simp [hid] at hw
  | some t =>
    have hwt : wfb env t = true := by
      have := hEnv nid t hid
      rw [hid] at hw
      cases t <;> simp at hw <;> simpa [wfTop, wfRefOf] using this
    simp only [inDom, hid] at hd
    simp only [encode, hid] at he
    obtain ⟨xs, rs, hb, hrt⟩ := h.enc t v b b' hwt hd he
    refine ⟨xs, rs, hb, ?_⟩
    have := RT.map (dec' := decode env (f + 1) (.named nid)) (fun x => x) (hrt.mono (fun hn => NG.named hn hid)) ?_
    · simpa using this
    · intro s v' s' hs hdec
      simp only [decode, hs, Bool.false_eq_true, ↓reduceIte, hid, hdec]

theorem enc_maybe (h : Inv env f) (t : Ty) (v : Val) (b b' : Builder) (hw : wfb env (.maybe t) = true)
    (hd : inDom env (f + 1) (.maybe t) v = true) (he : encode env (f + 1) (.maybe t) v b = .ok b') :
    ∃ xs rs, b' = b.app xs rs ∧ RT (decode env (f + 1) (.maybe t)) (NG env (.maybe t)) v xs rs := by
  simp only [wfb] at hw
  simp only [inDom] at hd
  simp only [encode] at he
  split at hd
  · -- absent
    simp only [Builder.writeBit] at he
    have hb := Builder.writeBits_ok he
    refine ⟨_, [], hb, RTs.toRT ?_ _⟩
    intro s hs
    have := Slice.readBit_prepend s false [] []
    simp only [decode, Slice.prepend_isLibrary, hs, Bool.false_eq_true, ↓reduceIte, this,
      bind, Outcome.bind, pure, Slice.prepend_nil]
  · rename_i x
    simp only [Builder.writeBit, bind, Outcome.bind] at he
    cases hb1 : b.writeBits [true] with
    | ok b1 =>
      rw [hb1] at he
      simp only at he
      have hb1' := Builder.writeBits_ok hb1
      obtain ⟨xs, rs, hb, hrt⟩ := h.enc t x b1 b' hw hd he
      refine ⟨true :: xs, rs, ?_, ?_⟩
      · rw [hb, hb1', Builder.app_app]; simp
      · refine RT.consBit true Val.some (hrt.mono NG.maybe) ?_
        intro s v' s' hs hdec s0 hrb hs0
        simp only [decode, hs0, Bool.false_eq_true, ↓reduceIte, hrb, bind, Outcome.bind, hdec, pure]
    | err e => rw [hb1] at he; cases he
    | panic e => rw [hb1] at he; cases he
  · cases hd

theorem bind_ok_inv {α β} {x : Outcome α} {k : α → Outcome β} {r : β} (h : (x >>= k) = .ok r) :
    ∃ a, x = .ok a ∧ k a = .ok r := by
  cases x with
  | ok a => exact ⟨a, rfl, h⟩
  | err e => cases h
  | panic e => cases h

theorem enc_either (h : Inv env f) (l r : Ty) (v : Val) (b b' : Builder) (hw : wfb env (.either l r) = true)
    (hd : inDom env (f + 1) (.either l r) v = true) (he : encode env (f + 1) (.either l r) v b = .ok b') :
    ∃ xs rs, b' = b.app xs rs ∧ RT (decode env (f + 1) (.either l r)) (NG env (.either l r)) v xs rs := by
  simp only [wfb, Bool.and_eq_true] at hw
  simp only [inDom] at hd
  simp only [encode] at he
  split at hd
  · rename_i side x
    by_cases hside : side = "R"
    · subst hside
      simp only [beq_self_eq_true, ↓reduceIte] at hd he
      obtain ⟨b1, hb1, he2⟩ := bind_ok_inv he
      have hb1' := Builder.writeBits_ok hb1
      obtain ⟨xs, rs, hb, hrt⟩ := h.enc r x b1 b' hw.2 hd he2
      refine ⟨true :: xs, rs, ?_, ?_⟩
      · rw [hb, hb1', Builder.app_app]; simp
      · refine RT.consBit true (Val.ctor "R") (hrt.mono (fun hn => (NG.either hn).2)) ?_
        intro s v' s' hs hdec s0 hrb hs0
        simp only [decode, hs0, Bool.false_eq_true, ↓reduceIte, hrb, bind, Outcome.bind, hdec, pure]
    · have hne : (side == "R") = false := by simpa using hside
      simp only [hne, Bool.false_eq_true, ↓reduceIte, Bool.and_eq_true, beq_iff_eq] at hd
      obtain ⟨rfl, hdx⟩ := hd
      simp only [hside, ↓reduceIte] at he
      obtain ⟨b1, hb1, he2⟩ := bind_ok_inv he
      have hb1' := Builder.writeBits_ok hb1
      obtain ⟨xs, rs, hb, hrt⟩ := h.enc l x b1 b' hw.1 hdx he2
      refine ⟨false :: xs, rs, ?_, ?_⟩
      · rw [hb, hb1', Builder.app_app]; simp
      · refine RT.consBit false (Val.ctor "L") (hrt.mono (fun hn => (NG.either hn).1)) ?_
        intro s v' s' hs hdec s0 hrb hs0
        simp only [decode, hs0, Bool.false_eq_true, ↓reduceIte, hrb, bind, Outcome.bind, hdec, pure]
  · cases hd

theorem enc_prim (hp : ∀ p, p.proved = true → PrimOK p) (p : Prim) (v : Val) (b b' : Builder)
    (hw : wfb env (.prim p) = true)
    (hd : inDom env (f + 1) (.prim p) v = true) (he : encode env (f + 1) (.prim p) v b = .ok b') :
    ∃ xs rs, b' = b.app xs rs ∧ RT (decode env (f + 1) (.prim p)) (NG env (.prim p)) v xs rs := by
  simp only [wfb, Bool.and_eq_true] at hw
  simp only [inDom] at hd
  simp only [encode] at he
  obtain ⟨xs, rs, hb, hrt⟩ := hp p hw.2 v b b' hw.1 hd he
  refine ⟨xs, rs, hb, ?_⟩
  have := RT.map (dec' := decode env (f + 1) (.prim p)) (fun x => x) (hrt.mono (NG.prim (env := env))) ?_
  · simpa using this
  · intro s v' s' hs hdec
    simp only [decode, hs, Bool.false_eq_true, ↓reduceIte, hdec]

def cellTy : Cell → Nat | .mk t _ _ _ => t

theorem ofCell_isLibrary (c : Cell) : (Slice.ofCell c).isLibrary = (cellTy c == tyLibrary) := by cases c; rfl
theorem ofCell_isPruned (c : Cell) : (Slice.ofCell c).isPruned = (cellTy c == tyPruned) := by cases c; rfl

/-- what a reference position needs from the content written into the fresh child cell -/
def RefOK (env : Env) (f : Nat) (T : Ty) (v : Val) (c : Cell) : Prop :=
  (Slice.ofCell c).isPruned = false ∧ (∃ s', decode env f T (Slice.ofCell c) = .ok (v, s')) ∧
    ((Slice.ofCell c).isLibrary = true → T = .cell ∧ v = .cell c)

theorem ref_content (h : Inv env f) (T : Ty) (v : Val) (b' : Builder)
    (hw : wfRefOf T (wfb env T) = true) (hd : inDom env f T v = true)
    (he : encode env f T v Builder.empty = .ok b') : RefOK env f T v b'.toCell := by
  have generic : wfb env T = true → RefOK env f T v b'.toCell := by
    intro hwb
    obtain ⟨xs, rs, hb, hrt⟩ := h.enc T v _ b' hwb hd he
    subst hb
    rw [RefOK, ofCell_app_empty]
    obtain ⟨s', hs', _⟩ := hrt {} rfl (Or.inr ⟨rfl, rfl⟩)
    exact ⟨rfl, ⟨s', hs'⟩, fun hl => by cases hl⟩
  cases f with
  | zero => simp [inDom] at hd
  | succ f =>
  cases T with
  | cell =>
    simp only [inDom] at hd
    split at hd
    · rename_i c
      simp only [encode] at he
      cases he
      rw [RefOK, toCell_ofCell]
      refine ⟨?_, ?_, fun _ => ⟨rfl, rfl⟩⟩
      · cases c; simp only [cellOk, Bool.and_eq_true, bne_iff_ne, ne_eq] at hd
        simp [Slice.ofCell, Slice.isPruned, hd.1.1]
      · by_cases hl : (Slice.ofCell c).isLibrary = true
        · exact ⟨Slice.ofCell c, by simp only [decode, hl, ↓reduceIte, libraryEntry, Slice.toCell_ofCell]⟩
        · exact ⟨Slice.ofCell c, by simp only [decode, hl, Bool.false_eq_true, ↓reduceIte, Slice.toCell_ofCell]⟩
    · cases hd
  | ptr m t =>
    cases t with
    | cell =>
      simp only [inDom] at hd
      split at hd
      · rename_i x
        simp only [Bool.and_eq_true] at hd
        obtain ⟨hd1, hd2⟩ := hd
        cases f with
        | zero => simp [inDom] at hd1
        | succ f =>
          simp only [inDom] at hd1
          split at hd1
          · rename_i c
            simp only [encode] at he
            cases he
            simp only [ptrCellOk, bne_iff_ne, ne_eq] at hd2
            rw [RefOK, toCell_ofCell]
            have hnl : (Slice.ofCell c).isLibrary = false := by
              cases c; simpa [Slice.ofCell, Slice.isLibrary, Cell.ty] using hd2
            refine ⟨?_, ?_, fun hl => by rw [hnl] at hl; cases hl⟩
            · cases c; simp only [cellOk, Bool.and_eq_true, bne_iff_ne, ne_eq] at hd1
              simp [Slice.ofCell, Slice.isPruned, hd1.1.1]
            · exact ⟨Slice.ofCell c, by simp only [decode, hnl, Bool.false_eq_true, ↓reduceIte, bind, Outcome.bind, pure,
                Slice.toCell_ofCell, Val.some]⟩
          · cases hd1
      · cases hd
    | _ => exact generic (by simpa [wfRefOf] using hw)
  | _ => exact generic (by simpa [wfRefOf] using hw)

end

end Tongo.Tlb
