import TongoProofs.Lemmas.TlbSum
import TongoProofs.Lemmas.TlbW5
import TongoProofs.Lemmas.TlbDictCore
/-! The generic round-trip induction over type descriptors (property C03, theorem `decode_encode`). -/
namespace Tongo.Tlb
open Tongo Tongo.Bits

/-- provably not greedy: some amount of fuel shows that no value of the type swallows the rest of the cell -/
def NG (env : Env) (T : Ty) : Prop := ∃ k, greedyb env k T = false
def NGF (env : Env) (fs : Fields) : Prop := ∃ k, greedyFields env k fs = false
def NGC (env : Env) (cs : Ctors) : Prop := ∃ k, greedyCtors env k cs = false

/-- greediness of a struct field as seen by its struct -/
def NGfield (env : Env) (ft : FieldTag) (T : Ty) : Prop :=
  match ft with
  | .plain | .maybe => NG env T
  | _ => True

section NGinv
variable {env : Env}

theorem NG.ptr {m t} (h : NG env (.ptr m t)) : NG env t := by
  obtain ⟨k, hk⟩ := h
  cases k with
  | zero => simp [greedyb] at hk
  | succ k => exact ⟨k, by simpa [greedyb] using hk⟩

theorem NG.maybe {t} (h : NG env (.maybe t)) : NG env t := by
  obtain ⟨k, hk⟩ := h
  cases k with
  | zero => simp [greedyb] at hk
  | succ k => exact ⟨k, by simpa [greedyb] using hk⟩

theorem NG.eitherRef {t} (h : NG env (.eitherRef t)) : NG env t := by
  obtain ⟨k, hk⟩ := h
  cases k with
  | zero => simp [greedyb] at hk
  | succ k => exact ⟨k, by simpa [greedyb] using hk⟩

theorem NG.either {l r} (h : NG env (.either l r)) : NG env l ∧ NG env r := by
  obtain ⟨k, hk⟩ := h
  cases k with
  | zero => simp [greedyb] at hk
  | succ k =>
    simp only [greedyb, Bool.or_eq_false_iff] at hk
    exact ⟨⟨k, hk.1⟩, ⟨k, hk.2⟩⟩

theorem NG.named {id t} (h : NG env (.named id)) (he : env id = some t) : NG env t := by
  obtain ⟨k, hk⟩ := h
  cases k with
  | zero => simp [greedyb] at hk
  | succ k => exact ⟨k, by simpa [greedyb, he] using hk⟩

theorem NG.struct {fs} (h : NG env (.struct fs)) : NGF env fs := by
  obtain ⟨k, hk⟩ := h
  cases k with
  | zero => simp [greedyb] at hk
  | succ k => exact ⟨k, by simpa [greedyb] using hk⟩

theorem NG.sum {cs} (h : NG env (.sum cs)) : NGC env cs := by
  obtain ⟨k, hk⟩ := h
  cases k with
  | zero => simp [greedyb] at hk
  | succ k => exact ⟨k, by simpa [greedyb] using hk⟩

theorem NG.prim {p} (h : NG env (.prim p)) : p.greedy = false := by
  obtain ⟨k, hk⟩ := h
  cases k with
  | zero => simp [greedyb] at hk
  | succ k => simpa [greedyb] using hk

theorem NG.not_cell (h : NG env .cell) : False := by
  obtain ⟨k, hk⟩ := h
  cases k <;> simp [greedyb] at hk

theorem NGF.cons {n ft t rest} (h : NGF env (.cons n ft t rest)) : NGfield env ft t ∧ NGF env rest := by
  obtain ⟨k, hk⟩ := h
  cases k with
  | zero => simp [greedyFields] at hk
  | succ k =>
    simp only [greedyFields, Bool.or_eq_false_iff] at hk
    refine ⟨?_, ⟨k, hk.2⟩⟩
    cases ft <;> simp only [NGfield] <;> first | trivial | exact ⟨k, hk.1⟩

theorem NGC.find_aux : ∀ (cs : Ctors) {name : String} {tg : Option Tag} {t : Ty} (k : Nat),
    greedyCtors env k cs = false → cs.find name = some (tg, t) → NG env t
  | .nil, _, _, _, _, _, hf => by simp [Ctors.find] at hf
  | .cons n tg0 t0 rest, name, tg, t, k, hk, hf => by
    cases k with
    | zero => simp [greedyCtors] at hk
    | succ k =>
      simp only [greedyCtors, Bool.or_eq_false_iff] at hk
      simp only [Ctors.find] at hf
      split at hf
      · cases hf; exact ⟨k, hk.1⟩
      · exact NGC.find_aux rest k hk.2 hf

theorem NGC.find {cs : Ctors} {name tg t} (h : NGC env cs) (hf : cs.find name = some (tg, t)) : NG env t := by
  obtain ⟨k, hk⟩ := h
  exact NGC.find_aux cs k hk hf

end NGinv

/-- every entry of the type environment is well formed -/
def EnvWF (env : Env) : Prop := ∀ id T, env id = some T → wfTop env T = true

/-- round-trip lemma of a hand-written codec (`CodecOK_<custom>`) -/
def PrimOK (p : Prim) : Prop :=
  ∀ v b b', p.wf = true → p.inDom v = true → Prim.enc p v b = .ok b' →
    ∃ xs rs, b' = b.app xs rs ∧ RT (Prim.dec p) (p.greedy = false) v xs rs

/-- the three mutually dependent statements at one fuel level -/
structure Inv (env : Env) (fuel : Nat) : Prop where
  enc : ∀ T v b b', wfb env T = true → inDom env fuel T v = true → encode env fuel T v b = .ok b' →
    ∃ xs rs, b' = b.app xs rs ∧ RT (decode env fuel T) (NG env T) v xs rs
  field : ∀ n ft T rest v b b', wfFields env (.cons n ft T rest) = true → inDomField env fuel ft T v = true →
    encodeField env fuel ft T v b = .ok b' →
    ∃ xs rs, b' = b.app xs rs ∧ RT (decodeField env fuel ft T) (NGfield env ft T) v xs rs
  fields : ∀ fs v b b', wfFields env fs = true → inDomFields env fuel fs v = true →
    encodeFields env fuel fs v b = .ok b' →
    ∃ xs rs, b' = b.app xs rs ∧ RT (decodeFields env fuel fs) (NGF env fs) v xs rs

theorem Inv.zero (env : Env) : Inv env 0 := by
  refine ⟨?_, ?_, ?_⟩
  · intro T v b b' _ hd; simp [inDom] at hd
  · intro n ft T rest v b b' _ hd; simp [inDomField] at hd
  · intro fs v b b' _ hd; simp [inDomFields] at hd

theorem toCell_ofCell (c : Cell) : (Builder.ofCell c).toCell = c := by
  cases c; rfl

theorem Slice.toCell_ofCell (c : Cell) : (Slice.ofCell c).toCell = c := by
  cases c; rfl

theorem ofCell_app_empty (xs : List Bool) (rs : List Cell) :
    Slice.ofCell (Builder.empty.app xs rs).toCell = (({} : Slice)).prepend xs rs := by
  simp [Builder.empty, Builder.app, Builder.toCell, Slice.ofCell, Slice.prepend]

theorem natToBits_mod64 (n x : Nat) (hn : n ≤ 64) : natToBits n (x % 2 ^ 64) = natToBits n x := by
  apply natToBits_congr
  exact Nat.mod_mod_of_dvd x (Nat.pow_dvd_pow 2 hn)

section
variable {env : Env} {f : Nat}

theorem enc_int (n : Nat) (v : Val) (b b' : Builder) (hw : wfb env (.int n) = true)
    (hd : inDom env (f + 1) (.int n) v = true) (he : encode env (f + 1) (.int n) v b = .ok b') :
    ∃ xs rs, b' = b.app xs rs ∧ RT (decode env (f + 1) (.int n)) (NG env (.int n)) v xs rs := by
  simp only [wfb, Bool.and_eq_true, decide_eq_true_eq] at hw
  cases v <;> simp only [inDom, Bool.false_eq_true] at hd
  rename_i i
  simp only [Bool.and_eq_true, decide_eq_true_eq] at hd
  simp only [encode] at he
  rw [Builder.writeInt_repr _ _ _ hw.1 hd.1 hd.2] at he
  have hb := Builder.writeBits_ok he
  refine ⟨_, [], hb, RTs.toRT ?_ _⟩
  intro s hs
  have := Slice.readInt_prepend s n i [] [] hw.1 hw.2 hd.1 hd.2
  simp only [List.append_nil] at this
  simp only [decode, Slice.prepend_isLibrary, hs, Bool.false_eq_true, ↓reduceIte, this,
    bind, Outcome.bind, pure, Slice.prepend_nil]

theorem enc_bool (v : Val) (b b' : Builder)
    (hd : inDom env (f + 1) .bool v = true) (he : encode env (f + 1) .bool v b = .ok b') :
    ∃ xs rs, b' = b.app xs rs ∧ RT (decode env (f + 1) .bool) (NG env .bool) v xs rs := by
  cases v <;> simp only [inDom, Bool.false_eq_true] at hd
  rename_i x
  simp only [encode, Builder.writeBit] at he
  have hb := Builder.writeBits_ok he
  refine ⟨_, [], hb, RTs.toRT ?_ _⟩
  intro s hs
  have := Slice.readBit_prepend s x [] []
  simp only [decode, Slice.prepend_isLibrary, hs, Bool.false_eq_true, ↓reduceIte, this,
    bind, Outcome.bind, pure, Slice.prepend_nil]

theorem enc_bytes (n : Nat) (v : Val) (b b' : Builder)
    (hd : inDom env (f + 1) (.bytes n) v = true) (he : encode env (f + 1) (.bytes n) v b = .ok b') :
    ∃ xs rs, b' = b.app xs rs ∧ RT (decode env (f + 1) (.bytes n)) (NG env (.bytes n)) v xs rs := by
  cases v <;> simp only [inDom, Bool.false_eq_true] at hd
  rename_i bs
  simp only [beq_iff_eq] at hd
  simp only [encode, hd, ↓reduceIte, Builder.writeBytes] at he
  have hb := Builder.writeBits_ok he
  refine ⟨_, [], hb, RTs.toRT ?_ _⟩
  intro s hs
  have := Slice.readBytes_prepend s bs [] []
  simp only [List.append_nil, hd] at this
  simp only [decode, Slice.prepend_isLibrary, hs, Bool.false_eq_true, ↓reduceIte, this,
    bind, Outcome.bind, pure, Slice.prepend_nil]

end

theorem enc_uint {env : Env} {f : Nat} (n : Nat) (v : Val) (b b' : Builder) (hw : wfb env (.uint n) = true)
    (hd : inDom env (f + 1) (.uint n) v = true) (he : encode env (f + 1) (.uint n) v b = .ok b') :
    ∃ xs rs, b' = b.app xs rs ∧ RT (decode env (f + 1) (.uint n)) (NG env (.uint n)) v xs rs := by
  simp only [wfb, decide_eq_true_eq] at hw
  cases v <;> simp only [inDom, Bool.false_eq_true] at hd
  rename_i i
  simp only [Bool.and_eq_true, decide_eq_true_eq] at hd
  simp only [encode, Builder.writeUint] at he
  have hb := Builder.writeBits_ok he
  refine ⟨_, [], hb, RTs.toRT ?_ _⟩
  intro s hs
  have := Slice.readUint_prepend s n i.toNat [] [] hw
  simp only [List.append_nil] at this
  simp only [decode, Slice.prepend_isLibrary, hs, Bool.false_eq_true, ↓reduceIte, natToBits_mod64 n _ hw, this,
    bind, Outcome.bind, pure, Slice.prepend_nil]
  have hlt : i.toNat < 2 ^ n := by
    have : ((i.toNat : Nat) : Int) < ((2 ^ n : Nat) : Int) := by rw [Int.toNat_of_nonneg hd.1]; push_cast; exact hd.2
    exact_mod_cast this
  rw [Nat.mod_eq_of_lt hlt, Int.toNat_of_nonneg hd.1]

section
variable {env : Env} {f : Nat}

theorem RT.mono {dec : Slice → Outcome (Val × Slice)} {p q : Prop} {v xs rs} (h : RT dec p v xs rs) (hpq : q → p) :
    RT dec q v xs rs := by
  intro s hs hc
  obtain ⟨s', h1, h2⟩ := h s hs (hc.elim (fun hq => Or.inl (hpq hq)) Or.inr)
  exact ⟨s', h1, fun hq => h2 (hpq hq)⟩

/-- transport along a decoder that post-processes the value and keeps the slice -/
theorem RT.map {dec dec' : Slice → Outcome (Val × Slice)} {p : Prop} {v xs rs} (g : Val → Val)
    (h : RT dec p v xs rs)
    (hd : ∀ s v' s', s.isLibrary = false → dec s = .ok (v', s') → dec' s = .ok (g v', s')) :
    RT dec' p (g v) xs rs := by
  intro s hs hc
  obtain ⟨s', h1, h2⟩ := h s hs hc
  exact ⟨s', hd _ _ _ (by simpa using hs) h1, h2⟩

theorem enc_ptr (h : Inv env f) (m : Bool) (t : Ty) (v : Val) (b b' : Builder) (hw : wfb env (.ptr m t) = true)
    (hd : inDom env (f + 1) (.ptr m t) v = true) (he : encode env (f + 1) (.ptr m t) v b = .ok b') :
    ∃ xs rs, b' = b.app xs rs ∧ RT (decode env (f + 1) (.ptr m t)) (NG env (.ptr m t)) v xs rs := by
  simp only [wfb] at hw
  have hshape : ∃ x, v = .cons x .nil ∧ inDom env f t x = true := by
    simp only [inDom] at hd
    split at hd
    · simp only [Bool.and_eq_true] at hd; exact ⟨_, rfl, hd.1⟩
    · cases hd
  obtain ⟨x, rfl, hdx⟩ := hshape
  simp only [encode] at he
  obtain ⟨xs, rs, hb, hrt⟩ := h.enc t x b b' hw hdx he
  refine ⟨xs, rs, hb, ?_⟩
  refine RT.map Val.some (hrt.mono NG.ptr) ?_
  intro s v' s' hs hdec
  simp only [decode, hs, Bool.false_eq_true, ↓reduceIte, hdec, bind, Outcome.bind, pure]
end

section
variable {env : Env} {f : Nat}

/-- a bit written in front of a chunk is read first -/
theorem RT.consBit {dec dec' : Slice → Outcome (Val × Slice)} {p : Prop} {v xs rs} (x : Bool) (g : Val → Val)
    (h : RT dec p v xs rs)
    (hd : ∀ s v' s', s.isLibrary = false → dec (s) = .ok (v', s') →
      ∀ s0 : Slice, s0.readBit = .ok (x, s) → s0.isLibrary = false → dec' s0 = .ok (g v', s')) :
    RT dec' p (g v) (x :: xs) rs := by
  intro s hs hc
  obtain ⟨s', h1, h2⟩ := h s hs hc
  refine ⟨s', ?_, h2⟩
  exact hd _ _ _ (by simpa using hs) h1 _ (Slice.readBit_prepend s x xs rs) (by simpa using hs)

theorem enc_named (hEnv : EnvWF env) (h : Inv env f) (nid : Nat) (v : Val) (b b' : Builder)
    (hw : wfb env (.named nid) = true)
    (hd : inDom env (f + 1) (.named nid) v = true) (he : encode env (f + 1) (.named nid) v b = .ok b') :
    ∃ xs rs, b' = b.app xs rs ∧ RT (decode env (f + 1) (.named nid)) (NG env (.named nid)) v xs rs := by
  simp only [wfb] at hw
  cases hid : env nid with
  | none => simp [hid] at hw
  | some t =>
    have hwt : wfb env t = true := by
      have := hEnv nid t hid
      rw [hid] at hw
      cases t <;> simp at hw <;> simpa [wfTop, wfRefOf] using this
    simp only [inDom, hid] at hd
    simp only [encode, hid] at he
    obtain ⟨xs, rs, hb, hrt⟩ := h.enc t v b b' hwt hd he
    refine ⟨xs, rs, hb, ?_⟩
    have := RT.map (dec' := decode env (f + 1) (.named nid)) (fun x => x) (hrt.mono (fun hn => NG.named hn hid)) ?_
    · simpa using this
    · intro s v' s' hs hdec
      simp only [decode, hs, Bool.false_eq_true, ↓reduceIte, hid, hdec]

theorem enc_maybe (h : Inv env f) (t : Ty) (v : Val) (b b' : Builder) (hw : wfb env (.maybe t) = true)
    (hd : inDom env (f + 1) (.maybe t) v = true) (he : encode env (f + 1) (.maybe t) v b = .ok b') :
    ∃ xs rs, b' = b.app xs rs ∧ RT (decode env (f + 1) (.maybe t)) (NG env (.maybe t)) v xs rs := by
  simp only [wfb] at hw
  simp only [inDom] at hd
  simp only [encode] at he
  split at hd
  · -- absent
    simp only [Builder.writeBit] at he
    have hb := Builder.writeBits_ok he
    refine ⟨_, [], hb, RTs.toRT ?_ _⟩
    intro s hs
    have := Slice.readBit_prepend s false [] []
    simp only [decode, Slice.prepend_isLibrary, hs, Bool.false_eq_true, ↓reduceIte, this,
      bind, Outcome.bind, pure, Slice.prepend_nil]
  · rename_i x
    simp only [Builder.writeBit, bind, Outcome.bind] at he
    cases hb1 : b.writeBits [true] with
    | ok b1 =>
      rw [hb1] at he
      simp only at he
      have hb1' := Builder.writeBits_ok hb1
      obtain ⟨xs, rs, hb, hrt⟩ := h.enc t x b1 b' hw hd he
      refine ⟨true :: xs, rs, ?_, ?_⟩
      · rw [hb, hb1', Builder.app_app]; simp
      · refine RT.consBit true Val.some (hrt.mono NG.maybe) ?_
        intro s v' s' hs hdec s0 hrb hs0
        simp only [decode, hs0, Bool.false_eq_true, ↓reduceIte, hrb, bind, Outcome.bind, hdec, pure]
    | err e => rw [hb1] at he; cases he
    | panic e => rw [hb1] at he; cases he
  · cases hd

theorem bind_ok_inv {α β} {x : Outcome α} {k : α → Outcome β} {r : β} (h : (x >>= k) = .ok r) :
    ∃ a, x = .ok a ∧ k a = .ok r := by
  cases x with
  | ok a => exact ⟨a, rfl, h⟩
  | err e => cases h
  | panic e => cases h

theorem enc_either (h : Inv env f) (l r : Ty) (v : Val) (b b' : Builder) (hw : wfb env (.either l r) = true)
    (hd : inDom env (f + 1) (.either l r) v = true) (he : encode env (f + 1) (.either l r) v b = .ok b') :
    ∃ xs rs, b' = b.app xs rs ∧ RT (decode env (f + 1) (.either l r)) (NG env (.either l r)) v xs rs := by
  simp only [wfb, Bool.and_eq_true] at hw
  simp only [inDom] at hd
  simp only [encode] at he
  split at hd
  · rename_i side x
    by_cases hside : side = "R"
    · subst hside
      simp only [beq_self_eq_true, ↓reduceIte] at hd he
      obtain ⟨b1, hb1, he2⟩ := bind_ok_inv he
      have hb1' := Builder.writeBits_ok hb1
      obtain ⟨xs, rs, hb, hrt⟩ := h.enc r x b1 b' hw.2 hd he2
      refine ⟨true :: xs, rs, ?_, ?_⟩
      · rw [hb, hb1', Builder.app_app]; simp
      · refine RT.consBit true (Val.ctor "R") (hrt.mono (fun hn => (NG.either hn).2)) ?_
        intro s v' s' hs hdec s0 hrb hs0
        simp only [decode, hs0, Bool.false_eq_true, ↓reduceIte, hrb, bind, Outcome.bind, hdec, pure]
    · have hne : (side == "R") = false := by simpa using hside
      simp only [hne, Bool.false_eq_true, ↓reduceIte, Bool.and_eq_true, beq_iff_eq] at hd
      obtain ⟨rfl, hdx⟩ := hd
      simp only [hside, ↓reduceIte] at he
      obtain ⟨b1, hb1, he2⟩ := bind_ok_inv he
      have hb1' := Builder.writeBits_ok hb1
      obtain ⟨xs, rs, hb, hrt⟩ := h.enc l x b1 b' hw.1 hdx he2
      refine ⟨false :: xs, rs, ?_, ?_⟩
      · rw [hb, hb1', Builder.app_app]; simp
      · refine RT.consBit false (Val.ctor "L") (hrt.mono (fun hn => (NG.either hn).1)) ?_
        intro s v' s' hs hdec s0 hrb hs0
        simp only [decode, hs0, Bool.false_eq_true, ↓reduceIte, hrb, bind, Outcome.bind, hdec, pure]
  · cases hd

theorem enc_prim (hp : ∀ p, p.proved = true → PrimOK p) (p : Prim) (v : Val) (b b' : Builder)
    (hw : wfb env (.prim p) = true)
    (hd : inDom env (f + 1) (.prim p) v = true) (he : encode env (f + 1) (.prim p) v b = .ok b') :
    ∃ xs rs, b' = b.app xs rs ∧ RT (decode env (f + 1) (.prim p)) (NG env (.prim p)) v xs rs := by
  simp only [wfb, Bool.and_eq_true] at hw
  simp only [inDom] at hd
  simp only [encode] at he
  obtain ⟨xs, rs, hb, hrt⟩ := hp p hw.2 v b b' hw.1 hd he
  refine ⟨xs, rs, hb, ?_⟩
  have := RT.map (dec' := decode env (f + 1) (.prim p)) (fun x => x) (hrt.mono (NG.prim (env := env))) ?_
  · simpa using this
  · intro s v' s' hs hdec
    simp only [decode, hs, Bool.false_eq_true, ↓reduceIte, hdec]

def cellTy : Cell → Nat | .mk t _ _ _ => t

theorem ofCell_isLibrary (c : Cell) : (Slice.ofCell c).isLibrary = (cellTy c == tyLibrary) := by cases c; rfl
theorem ofCell_isPruned (c : Cell) : (Slice.ofCell c).isPruned = (cellTy c == tyPruned) := by cases c; rfl

/-- what a reference position needs from the content written into the fresh child cell -/
def RefOK (env : Env) (f : Nat) (T : Ty) (v : Val) (c : Cell) : Prop :=
  (Slice.ofCell c).isPruned = false ∧ (∃ s', decode env f T (Slice.ofCell c) = .ok (v, s')) ∧
    ((Slice.ofCell c).isLibrary = true → T = .cell ∧ v = .cell c)

theorem wfRefOf_of_wfb {t : Ty} (hw : wfb env t = true) : wfRefOf t (wfb env t) = true := by
  unfold wfRefOf
  split <;> first | rfl | exact hw

/-- the out-list of a v5 wallet as the whole content of a referenced cell -/
theorem w5_refOK (f : Nat) (v : Val) (b' : Builder) (hd : Prim.w5Dom v = true)
    (he : Prim.encW5Actions v Builder.empty = .ok b') :
    RefOK env (f + 1) (.prim .w5Actions) v b'.toCell := by
  have hcell := w5_enc v b' hd he
  rw [hcell]
  have hty : ∀ v, (Slice.ofCell (w5Cell v)).ty = 0 := by
    intro v; unfold w5Cell; split <;> rfl
  have hnl : (Slice.ofCell (w5Cell v)).isLibrary = false := by simp [Slice.isLibrary, hty, tyLibrary]
  have hnp : (Slice.ofCell (w5Cell v)).isPruned = false := by simp [Slice.isPruned, hty, tyPruned]
  refine ⟨hnp, ?_, fun hl => by rw [hnl] at hl; cases hl⟩
  have hdep := w5Cell_depth v hd
  obtain ⟨s', hs'⟩ := w5_dec v (cellDepth (Slice.ofCell (w5Cell v)).toCell + 2) [] hd (by
    rw [Slice.toCell_ofCell]; omega)
  exact ⟨s', by simpa [decode, hnl, Prim.dec, Prim.decW5Actions] using hs'⟩

theorem ref_content (h : Inv env f) (T : Ty) (v : Val) (b' : Builder)
    (hw : wfRefOf T (wfb env T) = true) (hd : inDom env f T v = true)
    (he : encode env f T v Builder.empty = .ok b') : RefOK env f T v b'.toCell := by
  have generic : wfb env T = true → RefOK env f T v b'.toCell := by
    intro hwb
    obtain ⟨xs, rs, hb, hrt⟩ := h.enc T v _ b' hwb hd he
    subst hb
    rw [RefOK, ofCell_app_empty]
    obtain ⟨s', hs', _⟩ := hrt {} rfl (Or.inr ⟨rfl, rfl, rfl⟩)
    exact ⟨rfl, ⟨s', hs'⟩, fun hl => by cases hl⟩
  cases f with
  | zero => simp [inDom] at hd
  | succ f =>
  cases T with
  | cell =>
    simp only [inDom] at hd
    split at hd
    · rename_i c
      simp only [encode] at he
      cases he
      rw [RefOK, toCell_ofCell]
      refine ⟨?_, ?_, fun _ => ⟨rfl, rfl⟩⟩
      · cases c; simp only [cellOk, Bool.and_eq_true, bne_iff_ne, ne_eq] at hd
        simp [Slice.ofCell, Slice.isPruned, hd.1.1]
      · by_cases hl : (Slice.ofCell c).isLibrary = true
        · exact ⟨Slice.ofCell c, by simp only [decode, hl, ↓reduceIte, libraryEntry, Slice.toCell_ofCell]⟩
        · exact ⟨Slice.ofCell c, by simp only [decode, hl, Bool.false_eq_true, ↓reduceIte, Slice.toCell_ofCell]⟩
    · cases hd
  | ptr m t =>
    cases t with
    | cell =>
      simp only [inDom] at hd
      split at hd
      · rename_i x
        simp only [Bool.and_eq_true] at hd
        obtain ⟨hd1, hd2⟩ := hd
        cases f with
        | zero => simp [inDom] at hd1
        | succ f =>
          simp only [inDom] at hd1
          split at hd1
          · rename_i c
            simp only [encode] at he
            cases he
            simp only [ptrCellOk, bne_iff_ne, ne_eq] at hd2
            rw [RefOK, toCell_ofCell]
            have hnl : (Slice.ofCell c).isLibrary = false := by
              cases c; simpa [Slice.ofCell, Slice.isLibrary, Cell.ty] using hd2
            refine ⟨?_, ?_, fun hl => by rw [hnl] at hl; cases hl⟩
            · cases c; simp only [cellOk, Bool.and_eq_true, bne_iff_ne, ne_eq] at hd1
              simp [Slice.ofCell, Slice.isPruned, hd1.1.1]
            · exact ⟨Slice.ofCell c, by simp only [decode, hnl, Bool.false_eq_true, ↓reduceIte, bind, Outcome.bind, pure,
                Slice.toCell_ofCell, Val.some]⟩
          · cases hd1
      · cases hd
    | prim p =>
      by_cases hp : p = .w5Actions
      · subst hp
        -- *W5Actions under `maybe^`: one pointer level, then the whole-cell codec
        simp only [inDom] at hd
        split at hd
        · rename_i x
          simp only [Bool.and_eq_true] at hd
          cases f with
          | zero => simp [inDom] at hd
          | succ f =>
            have hd1 := hd.1
            simp only [inDom, Prim.inDom] at hd1
            simp only [encode, Prim.enc] at he
            have hr := w5_refOK (env := env) f x b' hd1 he
            obtain ⟨hpr, ⟨s', hdec⟩, hlib⟩ := hr
            have hnl : (Slice.ofCell b'.toCell).isLibrary = false := by
              by_contra hl
              have := (hlib (by simpa using hl)).1
              cases this
            refine ⟨hpr, ⟨s', ?_⟩, fun hl => by rw [hnl] at hl; cases hl⟩
            simp only [decode, hnl, Bool.false_eq_true, ↓reduceIte] at hdec
            simp only [decode, hnl, Bool.false_eq_true, ↓reduceIte, bind, Outcome.bind, hdec, pure, Val.some]
        · cases hd
      · exact generic (by
          have : wfRefOf (.ptr m (.prim p)) (wfb env (.ptr m (.prim p))) = wfb env (.ptr m (.prim p)) := by
            cases p <;> first | rfl | exact absurd rfl hp
          rwa [this] at hw)
    | _ => exact generic (by simpa [wfRefOf] using hw)
  | prim p =>
    by_cases hp : p = .w5Actions
    · subst hp
      simp only [inDom, Prim.inDom] at hd
      simp only [encode, Prim.enc] at he
      exact w5_refOK f v b' hd he
    · exact generic (by
        have : wfRefOf (.prim p) (wfb env (.prim p)) = wfb env (.prim p) := by
          cases p <;> first | rfl | exact absurd rfl hp
        rwa [this] at hw)
  | _ => exact generic (by simpa [wfRefOf] using hw)

end

section
variable {env : Env} {f : Nat}

/-- decoding through one reference: the chunk is no bits and the child cell -/
theorem RT_ref {dec : Slice → Outcome (Val × Slice)} {p : Prop} (v : Val) (c : Cell)
    (hd : ∀ s : Slice, s.isLibrary = false → dec (s.prepend [] [c]) = .ok (v, s)) : RT dec p v [] [c] :=
  fun s hs _ => ⟨s, hd s hs, fun _ => rfl⟩

theorem enc_refT (h : Inv env f) (t : Ty) (v : Val) (b b' : Builder) (hw : wfb env (.refT t) = true)
    (hd : inDom env (f + 1) (.refT t) v = true) (he : encode env (f + 1) (.refT t) v b = .ok b') :
    ∃ xs rs, b' = b.app xs rs ∧ RT (decode env (f + 1) (.refT t)) (NG env (.refT t)) v xs rs := by
  simp only [wfb] at hw
  simp only [inDom] at hd
  simp only [encode] at he
  obtain ⟨child, hc, he2⟩ := bind_ok_inv he
  have hb := Builder.addRef_ok he2
  obtain ⟨hpr, ⟨s', hdec⟩, _⟩ := ref_content h t v child hw hd hc
  refine ⟨[], [child.toCell], hb, RT_ref v _ ?_⟩
  intro s hs
  simp only [decode, Slice.prepend_isLibrary, hs, Bool.false_eq_true, ↓reduceIte, Slice.nextRef_prepend,
    bind, Outcome.bind, hpr, hdec, pure, Slice.prepend_nil]

theorem enc_eitherRef (h : Inv env f) (t : Ty) (v : Val) (b b' : Builder) (hw : wfb env (.eitherRef t) = true)
    (hd : inDom env (f + 1) (.eitherRef t) v = true) (he : encode env (f + 1) (.eitherRef t) v b = .ok b') :
    ∃ xs rs, b' = b.app xs rs ∧ RT (decode env (f + 1) (.eitherRef t)) (NG env (.eitherRef t)) v xs rs := by
  simp only [wfb] at hw
  simp only [inDom] at hd
  simp only [encode] at he
  split at hd
  · rename_i side x
    simp only [Bool.and_eq_true, Bool.or_eq_true, beq_iff_eq] at hd
    obtain ⟨hside, hdx⟩ := hd
    by_cases hR : side = "R"
    · subst hR
      simp only [↓reduceIte] at he
      obtain ⟨b1, hb1, he2⟩ := bind_ok_inv he
      have hb1' := Builder.writeBits_ok hb1
      split at he2
      · obtain ⟨child, hc, he3⟩ := bind_ok_inv he2
        cases he3
        have hwr : wfRefOf t (wfb env t) = true := wfRefOf_of_wfb hw
        obtain ⟨_, ⟨s', hdec⟩, _⟩ := ref_content h t x child hwr hdx hc
        refine ⟨[true], [child.toCell], ?_, ?_⟩
        · rw [hb1']; simp [Builder.app]
        · intro s hs _
          refine ⟨s, ?_, fun _ => rfl⟩
          have hrb := Slice.readBit_prepend s true [] [child.toCell]
          simp only [decode, Slice.prepend_isLibrary, hs, Bool.false_eq_true, ↓reduceIte, hrb, bind, Outcome.bind,
            Slice.nextRef_prepend, hdec, pure, Slice.prepend_nil, Val.ctor]
      · cases he2
    · have hL : side = "L" := by rcases hside with h1 | h1 <;> [exact absurd h1 hR; exact h1]
      subst hL
      simp only [hR, ↓reduceIte] at he
      obtain ⟨b1, hb1, he2⟩ := bind_ok_inv he
      have hb1' := Builder.writeBits_ok hb1
      obtain ⟨xs, rs, hb, hrt⟩ := h.enc t x b1 b' hw hdx he2
      refine ⟨false :: xs, rs, ?_, ?_⟩
      · rw [hb, hb1', Builder.app_app]; simp
      · refine RT.consBit false (Val.ctor "L") (hrt.mono NG.eitherRef) ?_
        intro s v' s' hs hdec s0 hrb hs0
        simp only [decode, hs0, Bool.false_eq_true, ↓reduceIte, hrb, bind, Outcome.bind, hdec, pure]
  · cases hd


theorem enc_sum (h : Inv env f) (cs : Ctors) (v : Val) (b b' : Builder) (hw : wfb env (.sum cs) = true)
    (hd : inDom env (f + 1) (.sum cs) v = true) (he : encode env (f + 1) (.sum cs) v b = .ok b') :
    ∃ xs rs, b' = b.app xs rs ∧ RT (decode env (f + 1) (.sum cs)) (NG env (.sum cs)) v xs rs := by
  simp only [wfb, Bool.and_eq_true] at hw
  obtain ⟨⟨⟨hsome, hok⟩, hpf⟩, hwc⟩ := hw
  simp only [inDom] at hd
  simp only [encode] at he
  split at hd
  · rename_i name x
    simp only [Bool.and_eq_true, bne_iff_ne, ne_eq] at hd
    obtain ⟨hne, hd2⟩ := hd
    simp only [hne, ↓reduceIte] at he
    cases hfind : cs.find name with
    | none => simp [hfind] at hd2
    | some p =>
      obtain ⟨tg, t⟩ := p
      simp only [hfind] at hd2 he
      obtain ⟨g, rfl⟩ := find_tag_some cs hfind hsome
      obtain ⟨b1, hb1, he2⟩ := bind_ok_inv he
      simp only [encodeTag, Builder.writeUint] at hb1
      have hb1' := Builder.writeBits_ok hb1
      have hwt := find_wf cs hfind hwc
      obtain ⟨xs, rs, hb, hrt⟩ := h.enc t x b1 b' hwt hd2 he2
      have hgok : g.ok = true := (List.all_eq_true.mp hok) g (find_tag_mem cs hfind)
      have hg := hgok
      simp only [Tag.ok, Bool.and_eq_true, decide_eq_true_eq] at hg
      rw [natToBits_mod64 g.len g.val hg.1] at hb1'
      refine ⟨natToBits g.len g.val ++ xs, rs, ?_, ?_⟩
      · rw [hb, hb1', Builder.app_app]; simp
      · intro s hs hc
        obtain ⟨s', hdec, hs'⟩ := hrt s hs (hc.imp (fun hn => NGC.find (NG.sum hn) hfind) id)
        refine ⟨s', ?_, fun hn => hs' (NGC.find (NG.sum hn) hfind)⟩
        have hsel := selectCtor_find cs name g t (xs ++ s.bits) hfind hsome hok hpf
        have hbits : (s.prepend (natToBits g.len g.val ++ xs) rs).bits = natToBits g.len g.val ++ (xs ++ s.bits) := by
          simp [Slice.prepend]
        have hdrop : ({ (s.prepend (natToBits g.len g.val ++ xs) rs) with
            bits := (s.prepend (natToBits g.len g.val ++ xs) rs).bits.drop g.len } : Slice) = s.prepend xs rs := by
          rw [hbits, List.drop_left' (natToBits_length _ _)]
          simp [Slice.prepend]
        simp only [decode, Slice.prepend_isLibrary, hs, Bool.false_eq_true, ↓reduceIte, hbits, hsel]
        rw [hbits] at hdrop
        simp only [hdrop, hdec, bind, Outcome.bind, pure, Val.ctor]
  · cases hd

theorem enc_struct (h : Inv env f) (fs : Fields) (v : Val) (b b' : Builder) (hw : wfb env (.struct fs) = true)
    (hd : inDom env (f + 1) (.struct fs) v = true) (he : encode env (f + 1) (.struct fs) v b = .ok b') :
    ∃ xs rs, b' = b.app xs rs ∧ RT (decode env (f + 1) (.struct fs)) (NG env (.struct fs)) v xs rs := by
  simp only [wfb] at hw
  simp only [inDom] at hd
  simp only [encode] at he
  obtain ⟨xs, rs, hb, hrt⟩ := h.fields fs v b b' hw hd he
  refine ⟨xs, rs, hb, ?_⟩
  have := RT.map (dec' := decode env (f + 1) (.struct fs)) (fun x => x) (hrt.mono (NG.struct (env := env))) ?_
  · simpa using this
  · intro s v' s' hs hdec
    simp only [decode, hs, Bool.false_eq_true, ↓reduceIte, hdec]

end

section
variable {env : Env} {f : Nat}

theorem encodeField_notMagic (ft : FieldTag) (T : Ty) (v : Val) (b : Builder) (hT : T.isMagic = false) :
    encodeField env (f + 1) ft T v b =
      (match ft with
      | .bad => .err "tag format is deprecated"
      | .plain => encode env f T v b
      | .ref =>
        if b.refs.length < cellRefs then do
          let child ← encode env f T v Builder.empty
          pure { b with refs := b.refs ++ [child.toCell] }
        else .err "too many refs"
      | .maybe =>
        match v with
        | .none => b.writeBit false
        | _ => do
          let b ← b.writeBit true
          encode env f T v b
      | .maybeRef =>
        match v with
        | .none => b.writeBit false
        | _ => do
          let b ← b.writeBit true
          if b.refs.length < cellRefs then do
            let child ← encode env f T v Builder.empty
            pure { b with refs := b.refs ++ [child.toCell] }
          else .err "too many refs") := by
  cases T <;> first | rfl | (simp [Ty.isMagic] at hT)

theorem inDomField_notMagic (ft : FieldTag) (T : Ty) (v : Val) (hT : T.isMagic = false) :
    inDomField env (f + 1) ft T v =
      (match ft, v with
      | .maybe, .none => true
      | .maybeRef, .none => true
      | _, v => inDom env f T v) := by
  cases T <;> first | (simp [Ty.isMagic] at hT; done) | (cases ft <;> cases v <;> rfl)


theorem decodeField_plain_notMagic (T : Ty) (s : Slice) (hs : s.isLibrary = false) (hT : T.isMagic = false) :
    decodeField env (f + 1) .plain T s = decode env f T s := by
  cases T <;> first | (simp [Ty.isMagic] at hT; done) | simp only [decodeField, hs, Bool.false_eq_true, ↓reduceIte]

theorem isMagic_false_of {T : Ty} (h : ∀ t, ¬ T = .magic t) : T.isMagic = false := by
  cases T <;> first | rfl | exact absurd rfl (h _)

/-- the per-field part of `wfFields`, by field tag -/
theorem wfFields_head {n ft T rest} (hw : wfFields env (.cons n ft T rest) = true) :
    (∃ tg, ft = .plain ∧ T = .magic (some tg) ∧ tg.ok = true) ∨
    (T.isMagic = false ∧
      ((ft = .plain ∧ wfb env T = true) ∨ (ft = .ref ∧ wfRefOf T (wfb env T) = true) ∨
       (∃ m t, ft = .maybe ∧ T = .ptr m t ∧ wfb env t = true) ∨
       (∃ m t, ft = .maybeRef ∧ T = .ptr m t ∧ wfRefOf (.ptr m t) (wfb env t) = true))) := by
  unfold wfFields at hw
  cases ft <;> cases T <;> simp only [Bool.and_eq_true, Bool.false_eq_true, false_and] at hw <;>
    simp [Ty.isMagic, hw.1]
  rename_i tg
  cases tg with
  | none => simp at hw
  | some g => exact ⟨g, rfl, by simpa using hw.1⟩



theorem Val.matchNone_ne {α} {v : Val} (hv : v ≠ .none) (a k : α) :
    (match v with | .none => a | _ => k) = k := by
  cases v <;> first | rfl | exact absurd rfl hv

theorem field_succ (h : Inv env f) (n : String) (ft : FieldTag) (T : Ty) (rest : Fields) (v : Val) (b b' : Builder)
    (hw : wfFields env (.cons n ft T rest) = true) (hd : inDomField env (f + 1) ft T v = true)
    (he : encodeField env (f + 1) ft T v b = .ok b') :
    ∃ xs rs, b' = b.app xs rs ∧ RT (decodeField env (f + 1) ft T) (NGfield env ft T) v xs rs := by
  rcases wfFields_head hw with ⟨tg, rfl, rfl, htg⟩ | ⟨hT, hcase⟩
  · -- Magic field: the tag is written by EncodeTag and checked by ValidateTag
    have hv : v = .magic := by
      cases v <;> first | rfl | (cases f <;> simp [inDomField, inDom] at hd)
    subst hv
    simp only [encodeField, encodeTag, Builder.writeUint] at he
    have hb := Builder.writeBits_ok he
    have hg := htg
    simp only [Tag.ok, Bool.and_eq_true, decide_eq_true_eq] at hg
    rw [natToBits_mod64 tg.len tg.val hg.1] at hb
    refine ⟨_, [], hb, RTs.toRT ?_ _⟩
    intro s hs
    have hr := Slice.readUint_prepend s tg.len tg.val [] [] hg.1
    simp only [List.append_nil, Nat.mod_eq_of_lt hg.2] at hr
    simp only [decodeField, Slice.prepend_isLibrary, hs, Bool.false_eq_true, ↓reduceIte, decodeMagic, hr,
      ne_eq, not_true_eq_false, Slice.prepend_nil, bind, Outcome.bind]
  · rw [encodeField_notMagic ft T v b hT] at he
    rw [inDomField_notMagic ft T v hT] at hd
    rcases hcase with ⟨rfl, hwb⟩ | ⟨rfl, hwr⟩ | ⟨m, t, rfl, rfl, hwb⟩ | ⟨m, t, rfl, rfl, hwr⟩
    · -- plain
      simp only at he hd
      obtain ⟨xs, rs, hb, hrt⟩ := h.enc T v b b' hwb hd he
      refine ⟨xs, rs, hb, ?_⟩
      have := RT.map (dec' := decodeField env (f + 1) .plain T) (fun x => x) hrt ?_
      · simpa [NGfield] using this
      · intro s v' s' hs hdec
        rw [decodeField_plain_notMagic T s hs hT, hdec]
    · -- ^
      simp only at he hd
      split at he
      · obtain ⟨child, hc, he2⟩ := bind_ok_inv he
        cases he2
        obtain ⟨hpr, ⟨s', hdec⟩, hlib⟩ := ref_content h T v child hwr hd hc
        refine ⟨[], [child.toCell], by simp [Builder.app], RT_ref v _ ?_⟩
        intro s hs
        by_cases hl : (Slice.ofCell child.toCell).isLibrary = true
        · obtain ⟨rfl, rfl⟩ := hlib hl
          simp only [decodeField, Slice.prepend_isLibrary, hs, Bool.false_eq_true, ↓reduceIte,
            Slice.nextRef_prepend, bind, Outcome.bind, hl, pure, Slice.prepend_nil]
        · have hl' : (Slice.ofCell child.toCell).isLibrary = false := by simpa using hl
          have hnm : ∀ tg, T ≠ .magic tg := by intro tg e; subst e; simp [Ty.isMagic] at hT
          cases T <;> first
            | (exact absurd rfl (hnm _))
            | simp only [decodeField, Slice.prepend_isLibrary, hs, Bool.false_eq_true, ↓reduceIte,
                Slice.nextRef_prepend, bind, Outcome.bind, hl', hpr, hdec, pure, Slice.prepend_nil]
      · cases he
    · -- maybe on a pointer
      simp only at he hd
      by_cases hv : v = .none
      · subst hv
        simp only [Builder.writeBit] at he
        have hb := Builder.writeBits_ok he
        refine ⟨_, [], hb, RTs.toRT ?_ _⟩
        intro s hs
        have := Slice.readBit_prepend s false [] []
        simp only [decodeField, Slice.prepend_isLibrary, hs, Bool.false_eq_true, ↓reduceIte, this,
          bind, Outcome.bind, pure, Slice.prepend_nil, absentVal, Bool.not_false]
      · have he' : (do let b ← b.writeBit true; encode env f (.ptr m t) v b) = .ok b' := by
          cases v <;> first | exact he | exact absurd rfl hv
        have hd' : inDom env f (.ptr m t) v = true := by
          cases v <;> first | exact hd | exact absurd rfl hv
        obtain ⟨b1, hb1, he2⟩ := bind_ok_inv he'
        have hb1' := Builder.writeBits_ok hb1
        obtain ⟨xs, rs, hb, hrt⟩ := h.enc (.ptr m t) v b1 b' (by simpa [wfb] using hwb) hd' he2
        refine ⟨true :: xs, rs, ?_, ?_⟩
        · rw [hb, hb1', Builder.app_app]; simp
        · have hrt' : RT (decode env f (.ptr m t)) (NGfield env .maybe (.ptr m t)) v xs rs := by
            simpa [NGfield] using hrt
          refine (RT.consBit true (fun x => x) hrt' ?_)
          intro s v' s' hs hdec s0 hrb hs0
          simp only [decodeField, hs0, Bool.false_eq_true, ↓reduceIte, hrb, bind, Outcome.bind, Bool.not_true,
            hdec]
    · -- maybe^ on a pointer
      simp only at he hd
      by_cases hv : v = .none
      · subst hv
        simp only [Builder.writeBit] at he
        have hb := Builder.writeBits_ok he
        refine ⟨_, [], hb, RTs.toRT ?_ _⟩
        intro s hs
        have := Slice.readBit_prepend s false [] []
        simp only [decodeField, Slice.prepend_isLibrary, hs, Bool.false_eq_true, ↓reduceIte, this,
          bind, Outcome.bind, pure, Slice.prepend_nil, absentVal, Bool.not_false]
      · have he' : (do
            let b ← b.writeBit true
            if b.refs.length < cellRefs then do
              let child ← encode env f (.ptr m t) v Builder.empty
              pure { b with refs := b.refs ++ [child.toCell] }
            else Outcome.err "too many refs") = .ok b' := by
          cases v <;> first | exact he | exact absurd rfl hv
        have hd' : inDom env f (.ptr m t) v = true := by
          cases v <;> first | exact hd | exact absurd rfl hv
        obtain ⟨b1, hb1, he2⟩ := bind_ok_inv he'
        have hb1' := Builder.writeBits_ok hb1
        split at he2
        · obtain ⟨child, hc, he3⟩ := bind_ok_inv he2
          cases he3
          have hwr' : wfRefOf (.ptr m t) (wfb env (.ptr m t)) = true := by simpa [wfb] using hwr
          obtain ⟨hpr, ⟨s', hdec⟩, hlib⟩ := ref_content h (.ptr m t) v child hwr' hd' hc
          have hl' : (Slice.ofCell child.toCell).isLibrary = false := by
            by_contra hl
            have := (hlib (by simpa using hl)).1
            cases this
          refine ⟨[true], [child.toCell], ?_, ?_⟩
          · rw [hb1']; simp [Builder.app]
          · intro s hs _
            refine ⟨s, ?_, fun _ => rfl⟩
            have hrb := Slice.readBit_prepend s true [] [child.toCell]
            simp only [decodeField, Slice.prepend_isLibrary, hs, Bool.false_eq_true, ↓reduceIte, hrb, bind,
              Outcome.bind, Bool.not_true, Slice.nextRef_prepend, hl', hpr, hdec, pure, Slice.prepend_nil]
        · cases he2
end

section
variable {env : Env} {f : Nat}

theorem rest_nil_of {rest : Fields} (h : rest.isNil = true) : rest = .nil := by
  cases rest <;> simp_all [Fields.isNil]

theorem wfFields_tail {n ft T rest} (hw : wfFields env (.cons n ft T rest) = true) :
    wfFields env rest = true ∧ (NGfield env ft T ∨ rest = .nil) := by
  unfold wfFields at hw
  simp only [Bool.and_eq_true] at hw
  refine ⟨hw.2, ?_⟩
  have h1 := hw.1
  cases ft with
  | ref => exact Or.inl trivial
  | maybeRef => exact Or.inl trivial
  | bad => exact Or.inl trivial
  | plain =>
    by_cases hm : T.isMagic = true
    · cases T <;> simp [Ty.isMagic] at hm
      exact Or.inl ⟨1, by simp [greedyb]⟩
    · have h2 : (wfb env T && (!greedyb env greedyFuel T || rest.isNil)) = true := by
        cases T <;> first | exact h1 | simp [Ty.isMagic] at hm
      simp only [Bool.and_eq_true, Bool.or_eq_true, Bool.not_eq_true'] at h2
      rcases h2.2 with hg | hn
      · exact Or.inl ⟨_, hg⟩
      · exact Or.inr (rest_nil_of hn)
  | maybe =>
    cases T with
    | ptr m t =>
      have h2 : (wfb env t && (!greedyb env greedyFuel t || rest.isNil)) = true := h1
      simp only [Bool.and_eq_true, Bool.or_eq_true, Bool.not_eq_true'] at h2
      rcases h2.2 with hg | hn
      · exact Or.inl ⟨greedyFuel + 1, by simpa [greedyb] using hg⟩
      · exact Or.inr (rest_nil_of hn)
    | _ => cases h1

theorem fields_succ (h : Inv env f) (fs : Fields) (v : Val) (b b' : Builder)
    (hw : wfFields env fs = true) (hd : inDomFields env (f + 1) fs v = true)
    (he : encodeFields env (f + 1) fs v b = .ok b') :
    ∃ xs rs, b' = b.app xs rs ∧ RT (decodeFields env (f + 1) fs) (NGF env fs) v xs rs := by
  cases fs with
  | nil =>
    cases v <;> simp only [inDomFields, Bool.false_eq_true] at hd
    simp only [encodeFields] at he
    cases he
    refine ⟨[], [], by simp, RTs.toRT ?_ _⟩
    intro s _
    simp only [decodeFields, Slice.prepend_nil]
  | cons n ft T rest =>
    cases v <;> simp only [inDomFields, Bool.false_eq_true] at hd
    rename_i x vs
    simp only [Bool.and_eq_true] at hd
    obtain ⟨hd1, hd2⟩ := hd
    simp only [encodeFields] at he
    obtain ⟨b1, he1, he2⟩ := bind_ok_inv he
    obtain ⟨hwrest, hng⟩ := wfFields_tail hw
    obtain ⟨xs1, rs1, hb1, hrt1⟩ := h.field n ft T rest x b b1 hw hd1 he1
    rcases hng with hng | hnil
    · obtain ⟨xs2, rs2, hb2, hrt2⟩ := h.fields rest vs b1 b' hwrest hd2 he2
      refine ⟨xs1 ++ xs2, rs1 ++ rs2, by rw [hb2, hb1, Builder.app_app], ?_⟩
      intro s hs hc
      obtain ⟨s1, hdec1, hs1⟩ := hrt1 (s.prepend xs2 rs2) (by simpa using hs) (Or.inl hng)
      have hs1' := hs1 hng
      subst hs1'
      obtain ⟨s2, hdec2, hs2⟩ := hrt2 s hs (hc.imp (fun hn => (NGF.cons hn).2) id)
      refine ⟨s2, ?_, fun hn => hs2 (NGF.cons hn).2⟩
      rw [Slice.prepend_prepend] at hdec1
      simp only [decodeFields, hdec1, hdec2, bind, Outcome.bind, pure]
    · subst hnil
      cases f with
      | zero => simp [inDomFields] at hd2
      | succ f =>
        cases vs <;> simp only [inDomFields, Bool.false_eq_true] at hd2
        simp only [encodeFields] at he2
        cases he2
        refine ⟨xs1, rs1, hb1, ?_⟩
        intro s hs hc
        obtain ⟨s1, hdec1, hs1⟩ := hrt1 s hs (hc.imp (fun hn => (NGF.cons hn).1) id)
        refine ⟨s1, ?_, fun hn => hs1 (NGF.cons hn).1⟩
        simp only [decodeFields, hdec1, bind, Outcome.bind, pure]


theorem mapM_forall2 {α β} (f : α → Outcome β) : ∀ (l : List α) (r : List β),
    mapMOutcome f l = .ok r → List.Forall₂ (fun a b => f a = .ok b) l r
  | [], r, h => by simp only [mapMOutcome] at h; cases h; exact .nil
  | a :: as, r, h => by
    simp only [mapMOutcome] at h
    obtain ⟨b, hb, h2⟩ := bind_ok_inv h
    obtain ⟨bs, hbs, h3⟩ := bind_ok_inv h2
    cases h3
    exact .cons hb (mapM_forall2 f as bs hbs)

theorem forall2_mapM {α β} (g : β → Outcome α) : ∀ (l : List α) (r : List β),
    List.Forall₂ (fun a b => g b = .ok a) l r → mapMOutcome g r = .ok l
  | _, _, .nil => rfl
  | _, _, .cons h t => by
    simp only [mapMOutcome, h, bind, Outcome.bind, forall2_mapM g _ _ t, pure]

theorem zipKV_spec : ∀ (kbits : List Hashmap.Key) (vs : List Val) (kvs : List (Hashmap.Key × Val)),
    kbits.length = vs.length → zipKV kbits vs = some kvs → kvs.map (·.1) = kbits ∧ kvs.map (·.2) = vs
  | [], [], kvs, _, h => by simp only [zipKV] at h; cases h; exact ⟨rfl, rfl⟩
  | [], _ :: _, _, hl, _ => by simp at hl
  | _ :: _, [], _, hl, _ => by simp at hl
  | k :: ks, v :: vs, kvs, hl, h => by
    simp only [zipKV] at h
    cases hr : zipKV ks vs with
    | none => simp [hr] at h
    | some r =>
      simp only [hr, Option.map_some, Option.some.injEq] at h
      obtain ⟨h1, h2⟩ := zipKV_spec ks vs r (by simpa using hl) hr
      subst h
      simp [h1, h2]

theorem zipKV_some : ∀ (kbits : List Hashmap.Key) (vs : List Val), kbits.length = vs.length →
    ∃ kvs, zipKV kbits vs = some kvs
  | [], _, _ => ⟨[], by simp [zipKV]⟩
  | _ :: _, [], hl => by simp at hl
  | k :: ks, v :: vs, hl => by
    obtain ⟨r, hr⟩ := zipKV_some ks vs (by simpa using hl)
    exact ⟨(k, v) :: r, by simp [zipKV, hr]⟩

theorem sorted_of_ascending : ∀ (kvs : List (Hashmap.Key × Val)),
    strictlyAscending (kvs.map (·.1)) = true → Hashmap.SortedKV kvs
  | [], _ => List.Pairwise.nil
  | kv :: rest, h => by
    simp only [List.map_cons, strictlyAscending, Bool.and_eq_true, List.all_eq_true] at h
    refine List.Pairwise.cons ?_ (sorted_of_ascending rest h.2)
    intro x hx
    exact h.1 x.1 (List.mem_map_of_mem hx)

theorem list_toList_id : ∀ (v : Val), Val.isList v = true → Val.list v.toList = v
  | .nil, _ => rfl
  | .cons h t, hl => by
    simp only [Val.isList] at hl
    simp [Val.toList, Val.list, list_toList_id t hl]
  | .int _, hl => by simp [Val.isList] at hl
  | .bool _, hl => by simp [Val.isList] at hl
  | .bytes _, hl => by simp [Val.isList] at hl
  | .bits _, hl => by simp [Val.isList] at hl
  | .cell _, hl => by simp [Val.isList] at hl
  | .sym _, hl => by simp [Val.isList] at hl
  | .none, hl => by simp [Val.isList] at hl
  | .magic, hl => by simp [Val.isList] at hl



theorem mapM_inverse {α β} (f : α → Outcome β) (g : β → Outcome α) : ∀ (l : List α) (r : List β),
    (∀ a ∈ l, ∀ b, f a = .ok b → g b = .ok a) → mapMOutcome f l = .ok r → mapMOutcome g r = .ok l
  | [], r, _, h => by simp only [mapMOutcome] at h; cases h; rfl
  | a :: as, r, hall, h => by
    simp only [mapMOutcome] at h
    obtain ⟨b, hb, h2⟩ := bind_ok_inv h
    obtain ⟨bs, hbs, h3⟩ := bind_ok_inv h2
    cases h3
    have h1 := hall a (List.mem_cons_self ..) b hb
    have h2 := mapM_inverse f g as bs (fun a' ha' => hall a' (List.mem_cons_of_mem _ ha')) hbs
    simp only [mapMOutcome, h1, h2, bind, Outcome.bind, pure]

theorem mapM_map {α β γ} (g : β → Outcome γ) (p : α → β) : ∀ (l : List α),
    mapMOutcome (fun a => g (p a)) l = mapMOutcome g (l.map p)
  | [] => rfl
  | a :: as => by simp only [mapMOutcome, List.map_cons, mapM_map g p as]

theorem mapM_length {α β} (f : α → Outcome β) (l : List α) (r : List β) (h : mapMOutcome f l = .ok r) :
    r.length = l.length := (mapM_forall2 f l r h).length_eq.symm

theorem cellTy_eq (c : Cell) : cellTy c = c.ty := by cases c; rfl

theorem empty_prepend (xs : List Bool) (rs : List Cell) : ({} : Slice).prepend xs rs = { bits := xs, refs := rs } := by
  simp [Slice.prepend]

/-- the payload of a dictionary value as the encoder writes it into a leaf -/
def dictPay (env : Env) (f : Nat) (t : Ty) (x : Val) : List Bool × List Cell :=
  match encode env f t x Builder.empty with
  | .ok vb => (vb.bits, vb.refs)
  | _ => ([], [])

theorem foldl_addRef_ok : ∀ (refs : List Cell) (b b' : Builder),
    refs.foldlM (fun b r => b.addRef r) b = .ok b' → b' = b.app [] refs
  | [], b, b', h => by simp only [List.foldlM, pure] at h; cases h; simp
  | r :: rs, b, b', h => by
    simp only [List.foldlM] at h
    obtain ⟨b1, hb1, h2⟩ := bind_ok_inv h
    have h1 := Builder.addRef_ok hb1
    have h3 := foldl_addRef_ok rs b1 b' h2
    rw [h3, h1, Builder.app_app]; simp

/-- what the domain of a non-empty dictionary value and C05's round trip give: the tree the encoder builds decodes
back to the same entries, and the entries to the same value -/
theorem dict_core (h : Inv env f) (k t : Ty) (n : Nat) (hwk : wfb env k = true) (hwt : wfb env t = true)
    (v : Val) (ks vs : List Val) (hp : dictParts v = some (ks, vs))
    (hd : dictDom (some n) (fun x => inDom env f k x) (fun x => inDom env f t x)
      (fun x => encode env f k x Builder.empty) (fun x => encode env f t x Builder.empty) v = true)
    (hemp : ¬ ks.isEmpty = true) (kbits : List Hashmap.Key)
    (hkb' : mapMOutcome (fun kv => (encode env f k kv Builder.empty).bind fun kb => .ok kb.bits) ks = .ok kbits)
    (kvs : List (Hashmap.Key × Val)) (hz : zipKV kbits vs = some kvs) :
    ∃ root, Hashmap.marshal (valueCodecEnc (fun x => encode env f t x Builder.empty)) n kvs = .ok root ∧
      root.ty = 0 ∧ Hashmap.unmarshal (valueCodecDec (fun vs => decode env f t vs)) n root = .ok kvs ∧
      mapMOutcome (fun (kv : Hashmap.Key × Val) =>
        (decode env f k { bits := kv.1 }).bind fun r => .ok r.1) kvs = .ok ks ∧
      dictVal ks (kvs.map (·.2)) = v := by
  simp only [dictDom, hp] at hd
  simp only [Bool.and_eq_true, beq_iff_eq, List.all_eq_true] at hd
  obtain ⟨⟨⟨⟨⟨⟨hlen, hshape⟩, hkd⟩, hvd⟩, hkr⟩, hkb⟩, hvfit⟩ := hd
  rw [hkb'] at hkb
  simp only [Bool.and_eq_true, List.all_eq_true, beq_iff_eq] at hkb
  have hklen : kbits.length = vs.length := by rw [mapM_length _ _ _ hkb']; exact hlen
  obtain ⟨hk1, hk2⟩ := zipKV_spec kbits vs kvs hklen hz
  -- every value round-trips through a fresh cell
  have hval : ∀ x ∈ vs, ∃ vb, encode env f t x Builder.empty = .ok vb ∧
      vb.bits.length + n + 2 + Hashmap.minBitsRequired n ≤ 1023 ∧ vb.refs.length ≤ 4 ∧
      ∃ s', decode env f t { bits := vb.bits, refs := vb.refs } = .ok (x, s') := by
    intro x hx
    have hf := hvfit x hx
    split at hf
    · rename_i vb hvb
      simp only [Bool.and_eq_true, decide_eq_true_eq] at hf
      obtain ⟨xs, rs, hb, hrt⟩ := h.enc t x _ vb hwt (hvd x hx) hvb
      obtain ⟨s', hs', _⟩ := hrt {} rfl (Or.inr ⟨rfl, rfl, rfl⟩)
      refine ⟨vb, hvb, hf.1, hf.2, s', ?_⟩
      rw [empty_prepend] at hs'
      rw [hb]; simpa [Builder.app, Builder.empty] using hs'
    · cases hf
  obtain ⟨root, hm, hty, hu⟩ := Hashmap.dict_roundtrip
    (valueCodecEnc (fun x => encode env f t x Builder.empty))
    (valueCodecDec (fun vs => decode env f t vs)) (dictPay env f t) n kvs
    (by
      intro hnil; subst hnil
      simp only [List.map_nil] at hk1
      rw [← hk1] at hkb'
      have := mapM_length _ _ _ hkb'
      cases ks with
      | nil => simp at hemp
      | cons _ _ => simp at this)
    (fun kv hkv => hkb.1 kv.1 (by rw [← hk1]; exact List.mem_map_of_mem hkv))
    (sorted_of_ascending kvs (by rw [hk1]; exact hkb.2))
    (by
      intro kv hkv
      obtain ⟨vb, hvb, h1, h2, s', hs'⟩ := hval kv.2 (by rw [← hk2]; exact List.mem_map_of_mem hkv)
      have hp : dictPay env f t kv.2 = (vb.bits, vb.refs) := by simp only [dictPay, hvb]
      rw [hp]
      refine ⟨?_, h1, h2, ?_⟩
      · simp only [valueCodecEnc, hvb, Outcome.bind]
      · simp only [valueCodecDec, hs', Outcome.bind])
  refine ⟨root, hm, hty, hu, ?_, ?_⟩
  · rw [mapM_map (fun (kb : Hashmap.Key) => (decode env f k { bits := kb }).bind fun r => .ok r.1) (·.1) kvs, hk1]
    refine mapM_inverse _ _ ks kbits ?_ hkb'
    intro kv hkv kb hkb2
    obtain ⟨kbld, hkbld, hkb3⟩ := bind_ok_inv hkb2
    cases hkb3
    have hr := hkr kv hkv
    rw [hkbld] at hr
    simp only [List.isEmpty_iff] at hr
    obtain ⟨xs, rs, hb, hrt⟩ := h.enc k kv _ kbld hwk (hkd kv hkv) hkbld
    obtain ⟨s', hs', _⟩ := hrt {} rfl (Or.inr ⟨rfl, rfl, rfl⟩)
    rw [empty_prepend] at hs'
    have hxs : kbld.bits = xs := by rw [hb]; simp [Builder.app, Builder.empty]
    have hrs : rs = [] := by rw [hb] at hr; simpa [Builder.app, Builder.empty] using hr
    subst hrs
    rw [hxs, hs']; rfl
  · rw [hk2]
    unfold dictParts at hp
    unfold dictShapeOk at hshape
    split at hp
    · cases hp; simp at hemp
    · cases hp
      simp only [Bool.and_eq_true, Bool.not_eq_true'] at hshape
      simp only [dictVal, hshape.2, Bool.false_eq_true, ↓reduceIte, Val.list,
        list_toList_id _ hshape.1.1, list_toList_id _ hshape.1.2]
    · cases hp

theorem enc_dictE (h : Inv env f) (k t : Ty) (v : Val) (b b' : Builder) (hw : wfb env (.dictE k t) = true)
    (hd : inDom env (f + 1) (.dictE k t) v = true) (he : encode env (f + 1) (.dictE k t) v b = .ok b') :
    ∃ xs rs, b' = b.app xs rs ∧ RT (decode env (f + 1) (.dictE k t)) (NG env (.dictE k t)) v xs rs := by
  simp only [wfb, Bool.and_eq_true, Option.isSome_iff_exists] at hw
  obtain ⟨⟨⟨n, hn⟩, hwk⟩, hwt⟩ := hw
  simp only [inDom, hn] at hd
  simp only [encode, hn] at he
  cases hp : dictParts v with
  | none => simp [dictDom, hp] at hd
  | some p =>
    obtain ⟨ks, vs⟩ := p
    simp only [hp] at he
    by_cases hemp : ks.isEmpty = true
    · -- the empty dictionary: hme_empty$0
      rw [if_pos hemp] at he
      simp only [Builder.writeBit] at he
      have hb := Builder.writeBits_ok he
      have hv : v = .nil := by
        simp only [dictDom, hp, Bool.and_eq_true] at hd
        have hshape := hd.1.1.1.1.1.2
        unfold dictParts at hp
        unfold dictShapeOk at hshape
        split at hp
        · rfl
        · cases hp
          simp only [Bool.and_eq_true, Bool.not_eq_true'] at hshape
          rw [hshape.2] at hemp; cases hemp
        · cases hp
      subst hv
      refine ⟨_, [], hb, RTs.toRT ?_ _⟩
      intro s hs
      have := Slice.readBit_prepend s false [] []
      simp only [decode, decodeDictE, Slice.prepend_isLibrary, hs, Bool.false_eq_true, ↓reduceIte, this,
        bind, Outcome.bind, pure, Slice.prepend_nil, Bool.not_false]
    · rw [if_neg hemp] at he
      obtain ⟨b1, hb1, he⟩ := bind_ok_inv he
      simp only [Builder.writeBit] at hb1
      have hb1 := Builder.writeBits_ok hb1
      obtain ⟨kbits, hkb', he⟩ := bind_ok_inv he
      cases hz : zipKV kbits vs with
      | none => rw [hz] at he; cases he
      | some kvs =>
        rw [hz] at he
        obtain ⟨root, hm, hty, hu, hkeys, hv⟩ := dict_core h k t n hwk hwt v ks vs hp hd hemp kbits hkb' kvs hz
        simp only [hm] at he
        have hb' := Builder.addRef_ok he
        subst hb1
        refine ⟨[true], [root], ?_, RTs.toRT ?_ _⟩
        · rw [hb']; simp [Builder.app]
        · intro s hs
          have h1 := Slice.readBit_prepend s true [] [root]
          have h2 := Slice.nextRef_prepend s [] root []
          have h3 : (Slice.ofCell root).isPruned = false := by
            rw [ofCell_isPruned, cellTy_eq, hty]; rfl
          simp only [Outcome.bind] at hkeys
          simp only [decode, decodeDictE, Slice.prepend_isLibrary, hs, Bool.false_eq_true, ↓reduceIte, h1, h2, h3, hn, hu,
            bind, Outcome.bind, pure, Slice.prepend_nil, Bool.not_true, hkeys, hv]

theorem toList_list : ∀ (l : List Val), (Val.list l).toList = l
  | [] => rfl
  | a :: t => by simp [Val.list, Val.toList, toList_list t]

theorem dictParts_dictVal (ks vs : List Val) (h : ks.isEmpty = true → vs = []) :
    dictParts (dictVal ks vs) = some (ks, vs) := by
  unfold dictVal
  by_cases he : ks.isEmpty = true
  · rw [if_pos he]
    have := h he
    subst this
    cases ks with
    | nil => rfl
    | cons _ _ => simp at he
  · rw [if_neg he]
    simp only [Val.list, dictParts, toList_list]

theorem hlItems_values : ∀ (v : Val) (i : Nat) (r : List Val × List Val), hlItems i v = some r →
    hlFromValues r.2 = some v ∧ (r.1.isEmpty = true → r.2 = [])
  | .nil, i, r, h => by
    simp only [hlItems] at h; cases h
    exact ⟨rfl, fun _ => rfl⟩
  | .cons (.cons (.cons (.cell c) .nil) (.cons (.int mode) .nil)) rest, i, r, h => by
    simp only [hlItems] at h
    split at h
    · rename_i hm
      cases hr : hlItems (i + 1) rest with
      | none => simp [hr] at h
      | some r0 =>
        simp only [hr, Option.map_some, Option.some.injEq] at h
        subst h
        obtain ⟨ih, _⟩ := hlItems_values rest (i + 1) r0 hr
        refine ⟨?_, fun he => by simp at he⟩
        have hmod : mode.toNat % 2 ^ 8 = mode.toNat := Nat.mod_eq_of_lt (by omega)
        have hlen : ¬ (natToBits 8 mode.toNat).length < 8 := by simp
        simp only [hlFromValues, hlen, ↓reduceIte, ih, Option.map_some]
        have : List.take 8 (natToBits 8 mode.toNat) = natToBits 8 mode.toNat := by
          apply List.take_of_length_le; simp
        rw [this, bitsToNat_natToBits, hmod, Int.toNat_of_nonneg hm.1]
    · cases h


/-- wallet.PayloadHighload: the dictionary round trip under the conversion of the message list -/
theorem enc_highload (h : Inv env f) (v : Val) (b b' : Builder)
    (hd : inDom env (f + 1) .highload v = true) (he : encode env (f + 1) .highload v b = .ok b') :
    ∃ xs rs, b' = b.app xs rs ∧ RT (decode env (f + 1) .highload) (NG env .highload) v xs rs := by
  simp only [inDom, Bool.and_eq_true, decide_eq_true_eq] at hd
  obtain ⟨⟨hlen, _⟩, hd⟩ := hd
  simp only [encode, if_neg (by omega : ¬ Prim.valLen v > 254)] at he
  cases hdv : hlToDict v with
  | none => simp [hdv] at hd
  | some d =>
    simp only [hdv] at hd he
    have hwd : wfb env (.dictE (.uint 16) (.prim .any)) = true := by simp [wfb, keyWidth, Prim.wf, Prim.proved]
    obtain ⟨xs, rs, hb, hrt⟩ := h.enc _ d b b' hwd hd he
    refine ⟨xs, rs, hb, ?_⟩
    intro s hs hc
    obtain ⟨s', hs', hsame⟩ := hrt s hs (Or.inl ⟨1, rfl⟩)
    have hsame := hsame ⟨1, rfl⟩
    subst hsame
    refine ⟨s', ?_, fun _ => rfl⟩
    simp only [hlToDict] at hdv
    obtain ⟨r, hr, hdr⟩ := Option.map_eq_some_iff.1 hdv
    obtain ⟨hvals, hemp⟩ := hlItems_values v 0 r hr
    subst hdr
    simp only [decode, Slice.prepend_isLibrary, hs, Bool.false_eq_true, ↓reduceIte, hs', bind, Outcome.bind,
      dictParts_dictVal r.1 r.2 hemp, hvals, pure]

/-- `Hashmap` written into the current cell: the chunk is the content of the root of C05's tree -/
theorem enc_dict (h : Inv env f) (k t : Ty) (v : Val) (b b' : Builder) (hw : wfb env (.dict k t) = true)
    (hd : inDom env (f + 1) (.dict k t) v = true) (he : encode env (f + 1) (.dict k t) v b = .ok b') :
    ∃ xs rs, b' = b.app xs rs ∧ RT (decode env (f + 1) (.dict k t)) (NG env (.dict k t)) v xs rs := by
  simp only [wfb, Bool.and_eq_true, Option.isSome_iff_exists] at hw
  obtain ⟨⟨⟨n, hn⟩, hwk⟩, hwt⟩ := hw
  simp only [inDom, hn, Bool.and_eq_true, Bool.not_eq_true'] at hd
  obtain ⟨hd, hnil⟩ := hd
  simp only [encode, hn] at he
  cases hp : dictParts v with
  | none => simp [dictDom, hp] at hd
  | some p =>
    obtain ⟨ks, vs⟩ := p
    simp only [hp] at he
    have hshape : dictShapeOk v = true ∧ ks.length = vs.length := by
      simp only [dictDom, hp, Bool.and_eq_true, beq_iff_eq] at hd
      exact ⟨hd.1.1.1.1.1.2, hd.1.1.1.1.1.1⟩
    have hemp : ¬ ks.isEmpty = true := by
      have hs := hshape.1
      unfold dictParts at hp
      unfold dictShapeOk at hs
      split at hp
      · simp [Val.isNil] at hnil
      · cases hp
        simp only [Bool.and_eq_true, Bool.not_eq_true'] at hs
        simp [hs.2]
      · cases hp
    have hvemp : vs.isEmpty = false := by
      cases vs with
      | nil =>
        cases ks with
        | nil => simp at hemp
        | cons _ _ => simp at hshape
      | cons _ _ => rfl
    rw [hvemp] at he
    simp only [Bool.false_eq_true, ↓reduceIte] at he
    obtain ⟨kbits, hkb', he⟩ := bind_ok_inv he
    cases hz : zipKV kbits vs with
    | none => rw [hz] at he; cases he
    | some kvs =>
      rw [hz] at he
      obtain ⟨root, hm, hty, hu, hkeys, hv⟩ := dict_core h k t n hwk hwt v ks vs hp hd hemp kbits hkb' kvs hz
      simp only [hm] at he
      obtain ⟨root', hroot, he⟩ := bind_ok_inv he
      cases hroot
      obtain ⟨b1, hb1, he⟩ := bind_ok_inv he
      have e1 := Builder.writeBits_ok hb1
      have e2 := foldl_addRef_ok _ _ _ he
      refine ⟨root.bits, root.refs, by rw [e2, e1, Builder.app_app]; simp, ?_⟩
      intro s hs hc
      rcases hc with hng | ⟨hb0, hr0, hpr⟩
      · obtain ⟨g, hg⟩ := hng
        cases g <;> simp [greedyb] at hg
      · refine ⟨dictRest n (fun vs => decode env f t vs) (s.prepend root.bits root.refs), ?_, fun hng => ?_⟩
        · have hpr' : (s.prepend root.bits root.refs).isPruned = false := by
            simpa [Slice.prepend, Slice.isPruned] using hpr
          have hcell : Hashmap.unmarshal (valueCodecDec (fun vs => decode env f t vs)) n
              (s.prepend root.bits root.refs).toCell = .ok kvs := by
            rw [← hu]
            obtain ⟨ty, mask, bits, refs⟩ := root
            simp only [Slice.prepend, Slice.toCell, hb0, hr0, List.append_nil, Cell.bits, Cell.refs]
            have hty' : ty = 0 := hty
            subst hty'
            exact Hashmap.unmarshal_root_irrel _ n _ _ _ _ bits refs
              (by simpa [Slice.isPruned] using hpr) (by simpa [Slice.isLibrary] using hs) (by decide) (by decide)
          simp only [Outcome.bind] at hkeys
          simp only [decode, decodeDict, Slice.prepend_isLibrary, hs, Bool.false_eq_true, ↓reduceIte, hpr', hn, hcell,
            bind, Outcome.bind, pure, hkeys, hv]
        · obtain ⟨g, hg⟩ := hng
          cases g <;> simp [greedyb] at hg


theorem Inv.succ (hEnv : EnvWF env) (hp : ∀ p, p.proved = true → PrimOK p) (h : Inv env f) : Inv env (f + 1) := by
  refine ⟨?_, ?_, ?_⟩
  · intro T v b b' hw hd he
    cases T with
    | uint n => exact enc_uint n v b b' hw hd he
    | int n => exact enc_int n v b b' hw hd he
    | bool => exact enc_bool v b b' hd he
    | bytes n => exact enc_bytes n v b b' hd he
    | cell => simp [wfb] at hw
    | ptr m t => exact enc_ptr h m t v b b' hw hd he
    | struct fs => exact enc_struct h fs v b b' hw hd he
    | sum cs => exact enc_sum h cs v b b' hw hd he
    | named id => exact enc_named hEnv h id v b b' hw hd he
    | magic t => simp [wfb] at hw
    | maybe t => exact enc_maybe h t v b b' hw hd he
    | either l r => exact enc_either h l r v b b' hw hd he
    | eitherRef t => exact enc_eitherRef h t v b b' hw hd he
    | refT t => exact enc_refT h t v b b' hw hd he
    | prim p => exact enc_prim hp p v b b' hw hd he
    | vmStack e => simp [wfb] at hw
    | chain e => simp [wfb] at hw
    | dictAugE k t x => simp [wfb] at hw
    | dictAug k t x => simp [wfb] at hw
    | binTree t => simp [wfb] at hw
    | custom id body aux => simp [wfb] at hw
    | highload => exact enc_highload h v b b' hd he
    | dictE k t => exact enc_dictE h k t v b b' hw hd he
    | dict k t => exact enc_dict h k t v b b' hw hd he
    | encErr id => simp [encode] at he
    | «opaque» id => simp [wfb] at hw
  · intro n ft T rest v b b' hw hd he
    exact field_succ h n ft T rest v b b' hw hd he
  · intro fs v b b' hw hd he
    exact fields_succ h fs v b b' hw hd he

end

/-- the round-trip invariant holds at every fuel level -/
theorem Inv.all (env : Env) (hEnv : EnvWF env) (hp : ∀ p, p.proved = true → PrimOK p) : ∀ f, Inv env f
  | 0 => Inv.zero env
  | f + 1 => Inv.succ hEnv hp (Inv.all env hEnv hp f)

end Tongo.Tlb
