import TongoProofs.Lemmas.BitsBridge
import TongoProofs.Lemmas.BitStringCell
/-! BRIDGE part 4 (cell level): the (bits, refs) builder / slice of the TL-B codec versus the mutable cell `MCell` of C06
(`boc/cell.go`: four reference slots, reference cursor). `MCell.toCell` forgets the cursors and the byte buffer;
`AddRef` is `Builder.addRef` (limit 4), `NextRef` is `Slice.nextRef` on the unread references (the counters of the
returned child are reset — invisible in the immutable `Cell`). -/
namespace Tongo.Bridge
open Tongo Tongo.Bits Tongo.BitString

mutual
/-- the immutable cell a mutable cell denotes (ordinary cell, all bits and all references, cursors forgotten) -/
def toCell : MCell → Cell
  | .mk b rs _ => .mk 0 0 (BitString.abs b) (toCells rs)
def toCells : List MCell → List Cell
  | [] => []
  | c :: cs => toCell c :: toCells cs
end

theorem toCells_eq_map (rs : List MCell) : toCells rs = rs.map toCell := by
  induction rs with
  | nil => rfl
  | cons c cs ih => simp [toCells, ih]

theorem toCell_resetCounters (c : MCell) : toCell (MCell.resetCounters c) = toCell c := by
  cases c with
  | mk b rs k => simp [MCell.resetCounters, MCell.bits, MCell.refs, toCell, BitString.abs]

/-- the builder view of a mutable cell: all written bits, all references -/
def builderOf (c : MCell) : Tlb.Builder := { bits := BitString.abs c.bits, refs := toCells c.refs }

/-- the slice view of a mutable cell: the unread bits, the unread references -/
def sliceOf (c : MCell) : Tlb.Slice :=
  { bits := (BitString.abs c.bits).drop c.bits.rCursor, refs := toCells (c.refs.drop c.refCursor) }

/-- `Cell.AddRef` = `Builder.addRef`: succeeds for the first four references, fails on the fifth (same error) -/
theorem cell_addRef_bridge (c r : MCell) :
    match (c.addRef r).1, (builderOf c).addRef (toCell r) with
    | .ok c', .ok b' => builderOf c' = b' ∧ (c.addRef r).2 = c'
    | .err e, .err e' => e = e' ∧ (c.addRef r).2 = c
    | _, _ => False := by
  cases c with
  | mk b rs k =>
    have hl : (toCells rs).length = rs.length := by rw [toCells_eq_map]; simp
    simp only [MCell.addRef, MCell.refs, MCell.bits, MCell.refCursor, Tlb.Builder.addRef, builderOf, hl, Tlb.cellRefs]
    by_cases h4 : rs.length < 4
    · simp only [h4, if_true]
      refine ⟨?_, by first | rfl | trivial⟩
      simp [builderOf, MCell.bits, MCell.refs, toCells_eq_map]
    · simp only [h4, if_false]
      exact ⟨by first | rfl | trivial, by first | rfl | trivial⟩

/-- `Cell.NextRef` = `Slice.nextRef`: the next unread reference (as an immutable cell) and the slice of the rest; beyond
the last reference both fail with the same error -/
theorem cell_nextRef_bridge (c : MCell) (h4 : c.refs.length ≤ 4) :
    match (c.nextRef).1, (sliceOf c).nextRef with
    | .ok r, .ok (cell, s') => toCell r = cell ∧ sliceOf (c.nextRef).2 = s'
    | .err e, .err e' => e = e'
    | _, _ => False := by
  cases c with
  | mk b rs k =>
    simp only [MCell.refs] at h4
    simp only [MCell.nextRef, MCell.refs, MCell.refCursor, MCell.bits, sliceOf, Tlb.Slice.nextRef]
    by_cases h3 : k > 3
    · have : rs.drop k = [] := List.drop_of_length_le (by omega)
      simp only [h3, if_true, this, toCells]
    · simp only [h3, if_false]
      cases hk : rs[k]? with
      | none =>
        have : rs.drop k = [] := List.drop_of_length_le (by
          rw [List.getElem?_eq_none_iff] at hk; exact hk)
        simp only [this, toCells]
      | some r =>
        have hlt : k < rs.length := (List.getElem?_eq_some_iff.mp hk).1
        have hd : rs.drop k = r :: rs.drop (k + 1) := by
          rw [List.drop_eq_getElem_cons hlt]
          congr 1
          exact (List.getElem?_eq_some_iff.mp hk).2
        simp only [hd, toCells]
        refine ⟨toCell_resetCounters r, ?_⟩
        congr 2
        rw [List.drop_set_of_lt (by omega)]

end Tongo.Bridge
