import TongoModel.BitString
import TongoProofs.Lemmas.Bits
/-! Bit-level facts used by the refinement proof of `BitString`: bits of byte lists by index, setting/clearing one
bit of a byte, slicing. Helper lemmas only. -/
namespace Tongo.Bits

theorem natToBits_getElem? (k v i : Nat) :
    (natToBits k v)[i]? = if i < k then some (v.testBit (k - 1 - i)) else none := by
  induction k generalizing i with
  | zero => simp [natToBits]
  | succ k ih =>
    cases i with
    | zero => simp [natToBits]
    | succ i =>
      simp only [natToBits, List.getElem?_cons_succ, ih]
      by_cases h : i < k
      · have : i + 1 < k + 1 := by omega
        simp only [h, this, if_true]
        congr 2; omega
      · have : ¬ (i + 1 < k + 1) := by omega
        simp [h, this]

@[simp] theorem byteToBits_length (b : UInt8) : (byteToBits b).length = 8 := by
  simp [byteToBits]

@[simp] theorem bytesToBits_nil : bytesToBits [] = [] := rfl

theorem bytesToBits_cons (b : UInt8) (t : List UInt8) : bytesToBits (b :: t) = byteToBits b ++ bytesToBits t := by
  simp [bytesToBits]

theorem bytesToBits_append (a b : List UInt8) : bytesToBits (a ++ b) = bytesToBits a ++ bytesToBits b := by
  simp [bytesToBits]

@[simp] theorem bytesToBits_length (l : List UInt8) : (bytesToBits l).length = 8 * l.length := by
  induction l with
  | nil => rfl
  | cons b t ih => rw [bytesToBits_cons, List.length_append, ih, byteToBits_length, List.length_cons]; omega

theorem byteToBits_getElem? (b : UInt8) (i : Nat) :
    (byteToBits b)[i]? = if i < 8 then some (b.toNat.testBit (7 - i)) else none := by
  simp only [byteToBits, natToBits_getElem?]

/-- bit `n` of a byte list: bit `7 - n%8` of byte `n/8` -/
theorem bytesToBits_getElem? (l : List UInt8) (n : Nat) :
    (bytesToBits l)[n]? = l[n / 8]?.map (fun b => b.toNat.testBit (7 - n % 8)) := by
  induction l generalizing n with
  | nil => simp
  | cons b t ih =>
    rw [bytesToBits_cons, List.getElem?_append, byteToBits_length]
    by_cases h : n < 8
    · have h0 : n / 8 = 0 := by omega
      have h1 : n % 8 = n := by omega
      rw [byteToBits_getElem?]
      simp [h, h0, h1]
    · have h0 : n / 8 = (n - 8) / 8 + 1 := by omega
      have h1 : (n - 8) % 8 = n % 8 := by omega
      simp only [h, if_false, ih, h0, List.getElem?_cons_succ, h1]

theorem bytesToBits_replicate_zero (k : Nat) : bytesToBits (List.replicate k 0) = List.replicate (8 * k) false := by
  induction k with
  | zero => rfl
  | succ k ih =>
    rw [List.replicate_succ, bytesToBits_cons, ih]
    have : byteToBits 0 = List.replicate 8 false := by decide
    rw [this, List.replicate_append_replicate]
    congr 1; omega

theorem bytesToBits_take (l : List UInt8) (k : Nat) : bytesToBits (l.take k) = (bytesToBits l).take (8 * k) := by
  apply List.ext_getElem?
  intro n
  rw [bytesToBits_getElem?, List.getElem?_take, List.getElem?_take, bytesToBits_getElem?]
  by_cases h : n / 8 < k
  · have : n < 8 * k := by omega
    simp [h, this]
  · have : ¬ n < 8 * k := by omega
    simp [h, this]

theorem bytesToBits_drop (l : List UInt8) (k : Nat) : bytesToBits (l.drop k) = (bytesToBits l).drop (8 * k) := by
  apply List.ext_getElem?
  intro n
  rw [bytesToBits_getElem?, List.getElem?_drop, List.getElem?_drop, bytesToBits_getElem?]
  have h1 : (8 * k + n) / 8 = k + n / 8 := by omega
  have h2 : (8 * k + n) % 8 = n % 8 := by omega
  rw [h1, h2]

end Tongo.Bits

namespace Tongo.BitString
open Tongo.Bits

theorem bitMask_toNat (n : Nat) : (bitMask n).toNat = 2 ^ (7 - n % 8) := by
  have h : ∀ m, m < 8 → ((1 : UInt8) <<< UInt8.ofNat (7 - m)).toNat = 2 ^ (7 - m) := by decide
  exact h (n % 8) (Nat.mod_lt _ (by decide))

theorem byte_testBit_ge (b : UInt8) (j : Nat) (h : 8 ≤ j) : b.toNat.testBit j = false := by
  apply Nat.testBit_lt_two_pow
  calc b.toNat < 2 ^ 8 := b.toNat_lt
    _ ≤ 2 ^ j := Nat.pow_le_pow_right (by decide) h

/-- the byte with bit `7 - n%8` set to `v` (what `On`/`Off` store) -/
def setBitByte (b : UInt8) (n : Nat) (v : Bool) : UInt8 := if v then b ||| bitMask n else b &&& ~~~ bitMask n

theorem setBitByte_testBit (b : UInt8) (n : Nat) (v : Bool) (j : Nat) :
    (setBitByte b n v).toNat.testBit j = if j = 7 - n % 8 then v else b.toNat.testBit j := by
  have hk : 7 - n % 8 < 8 := by omega
  generalize hkk : 7 - n % 8 = k at hk
  cases v
  · simp only [setBitByte, Bool.false_eq_true, if_false, UInt8.toNat_and, UInt8.toNat_not, bitMask_toNat, hkk,
      Nat.testBit_and]
    have hm : ∀ k, k < 8 → ∀ j, j < 8 → (UInt8.size - 1 - 2 ^ k).testBit j = decide (j ≠ k) := by decide
    by_cases hj : j < 8
    · rw [hm k hk j hj]
      by_cases e : j = k <;> simp [e]
    · have h8 : 8 ≤ j := by omega
      have : j ≠ k := by omega
      simp [byte_testBit_ge b j h8, this]
  · simp only [setBitByte, if_true, UInt8.toNat_or, bitMask_toNat, hkk, Nat.testBit_or, Nat.testBit_two_pow]
    by_cases e : j = k
    · simp [e]
    · have : ¬ k = j := fun h => e h.symm
      simp [e, this]

theorem and_two_pow (x k : Nat) : x &&& 2 ^ k = if x.testBit k then 2 ^ k else 0 := by
  apply Nat.eq_of_testBit_eq
  intro i
  rw [Nat.testBit_and, Nat.testBit_two_pow]
  by_cases e : k = i
  · subst e; cases h : x.testBit k <;> simp
  · cases h : x.testBit k <;> simp [e]

theorem getBit_byte (b : UInt8) (n : Nat) : decide (b &&& bitMask n > 0) = b.toNat.testBit (7 - n % 8) := by
  have h : (b &&& bitMask n > 0) ↔ (b &&& bitMask n).toNat > 0 := by
    simp [GT.gt, UInt8.lt_iff_toNat_lt]
  have e : (b &&& bitMask n).toNat = if b.toNat.testBit (7 - n % 8) then 2 ^ (7 - n % 8) else 0 := by
    rw [UInt8.toNat_and, bitMask_toNat, and_two_pow]
  rw [Bool.eq_iff_iff, decide_eq_true_eq, h, e]
  cases hb : b.toNat.testBit (7 - n % 8)
  · simp
  · simp

/-- storing the modified byte sets exactly bit `n` of the buffer -/
theorem bytesToBits_setBit (buf : List UInt8) (n : Nat) (b : UInt8) (v : Bool) (hb : buf[n / 8]? = some b) :
    bytesToBits (buf.set (n / 8) (setBitByte b n v)) = (bytesToBits buf).set n v := by
  have hlt : n / 8 < buf.length := by
    rcases List.getElem?_eq_some_iff.mp hb with ⟨h, _⟩; exact h
  apply List.ext_getElem?
  intro i
  rw [bytesToBits_getElem?, List.getElem?_set, List.getElem?_set, bytesToBits_getElem?, bytesToBits_length]
  by_cases e : n = i
  · subst e
    have : n < 8 * buf.length := by omega
    simp [hlt, this, setBitByte_testBit]
  · by_cases e8 : n / 8 = i / 8
    · have hne : 7 - i % 8 ≠ 7 - n % 8 := by omega
      simp only [e8, if_true, e, if_false]
      rw [← e8, hb]
      simp [hlt, setBitByte_testBit, hne]
    · simp [e, e8]

end Tongo.BitString
