import TongoModel.BocOrder
/-! Array bookkeeping for the proofs about the cell order: `a[i]!` against `set!` and `push`. -/
namespace Tongo.Boc.Order

theorem size_set! {α} (a : Array α) (i : Nat) (v : α) : (a.set! i v).size = a.size := by
  simp [Array.set!]

theorem get!_set!_eq {α} [Inhabited α] (a : Array α) (i : Nat) (v : α) (h : i < a.size) : (a.set! i v)[i]! = v := by
  have h' : i < (a.set! i v).size := by rw [size_set!]; exact h
  rw [getElem!_pos _ i h']
  simp only [Array.set!]
  exact Array.getElem_setIfInBounds_self _

theorem get!_set!_ne {α} [Inhabited α] (a : Array α) (i j : Nat) (v : α) (h : i ≠ j) : (a.set! i v)[j]! = a[j]! := by
  by_cases hj : j < a.size
  · have hj' : j < (a.set! i v).size := by rw [size_set!]; exact hj
    rw [getElem!_pos _ j hj', getElem!_pos _ j hj]
    simp only [Array.set!]
    exact Array.getElem_setIfInBounds_ne hj h
  · have hj' : ¬ j < (a.set! i v).size := by rw [size_set!]; exact hj
    rw [getElem!_neg _ j hj', getElem!_neg _ j hj]

theorem get!_push_lt {α} [Inhabited α] (a : Array α) (x : α) (i : Nat) (h : i < a.size) : (a.push x)[i]! = a[i]! := by
  have h' : i < (a.push x).size := by simp; omega
  rw [getElem!_pos _ i h', getElem!_pos _ i h]
  exact Array.getElem_push_lt h

theorem get!_push_eq {α} [Inhabited α] (a : Array α) (x : α) : (a.push x)[a.size]! = x := by
  have h' : a.size < (a.push x).size := by simp
  rw [getElem!_pos (a.push x) a.size h']
  exact Array.getElem_push_eq

theorem get!_replicate {α} [Inhabited α] (n : Nat) (v : α) (i : Nat) (h : i < n) : (Array.replicate n v)[i]! = v := by
  have h' : i < (Array.replicate n v).size := by simp [h]
  rw [getElem!_pos _ i h']
  simp

end Tongo.Boc.Order
