import TongoModel.Tlb.DecTotal
import TongoModel.Tlb.Wf
/-! Termination, totality and the stack-depth bound of the reflection-driven TL-B decoder model (`Tongo.Tlb.decode`).
`Good w o`: the outcome `o` is not a panic, is not the fuel-exhaustion answer, and what is left to read afterwards
weighs at most `w`. -/
namespace Tongo.Tlb.Total
open Tongo Tongo.Tlb

def Good {β : Type} (w : Nat) (o : Outcome (β × Slice)) : Prop :=
  o.isPanic = false ∧ fuelOut o = false ∧ ∀ v s', o = .ok (v, s') → weight s' ≤ w

theorem Good.err {β} {w : Nat} {e : String} (h : (e == "fuel") = false) : Good (β := β) w (.err e) :=
  ⟨rfl, by simpa [fuelOut] using h, by intro v s' h; cases h⟩

theorem Good.ok {β} {w : Nat} {v : β} {s : Slice} (h : weight s ≤ w) : Good w (.ok (v, s)) :=
  ⟨rfl, rfl, by intro v' s' h'; cases h'; exact h⟩

theorem Good.mono {β} {w w' : Nat} {o : Outcome (β × Slice)} (h : Good w o) (hw : w ≤ w') : Good w' o :=
  ⟨h.1, h.2.1, fun v s' e => Nat.le_trans (h.2.2 v s' e) hw⟩

theorem Good.bind {α β} {w : Nat} {x : Outcome (α × Slice)} {k : α × Slice → Outcome (β × Slice)}
    (hx : Good w x) (hk : ∀ a s, weight s ≤ w → Good w (k (a, s))) : Good w (x >>= k) := by
  cases x with
  | ok p => obtain ⟨a, s⟩ := p; exact hk a s (hx.2.2 a s rfl)
  | err e => exact ⟨rfl, hx.2.1, by intro v s' h; cases h⟩
  | panic p => have := hx.1; simp [Outcome.isPanic] at this

/-- a bind whose continuation does not return a slice-carrying pair of the same shape -/
theorem Good.bind' {α β} {w : Nat} {x : Outcome α} {k : α → Outcome (β × Slice)}
    (hx1 : x.isPanic = false) (hx2 : fuelOut x = false) (hk : ∀ a, x = .ok a → Good w (k a)) : Good w (x >>= k) := by
  cases x with
  | ok a => exact hk a rfl
  | err e => exact ⟨rfl, hx2, by intro v s' h; cases h⟩
  | panic p => simp [Outcome.isPanic] at hx1

/-! ### weights -/

theorem weight_drop (s : Slice) (n : Nat) : weight { s with bits := s.bits.drop n } ≤ weight s := by
  simp only [weight, List.length_drop]; omega

theorem cellWeight_lt_refs (c : Cell) (rest : List Cell) : cellWeight c < refsWeight (c :: rest) := by
  simp only [refsWeight]; omega

theorem weight_ofCell (c : Cell) : weight (Slice.ofCell c) = cellWeight c := by
  cases c; simp [Slice.ofCell, weight, cellWeight]

/-! ### the reading primitives -/

theorem good_readBits {w : Nat} (s : Slice) (n : Nat) (h : weight s ≤ w) : Good w (s.readBits n) := by
  unfold Slice.readBits
  split
  · exact Good.err (by decide)
  · exact Good.ok (Nat.le_trans (weight_drop s n) h)

theorem good_readBit {w : Nat} (s : Slice) (h : weight s ≤ w) : Good w s.readBit := by
  unfold Slice.readBit
  split
  · exact Good.err (by decide)
  · rename_i x rest hb
    refine Good.ok (Nat.le_trans ?_ h)
    simp only [weight, hb, List.length_cons]; omega

theorem good_nextRef {w : Nat} (s : Slice) (h : weight s ≤ w) : Good w s.nextRef := by
  unfold Slice.nextRef
  split
  · exact Good.err (by decide)
  · rename_i c rest hr
    refine Good.ok (Nat.le_trans ?_ h)
    simp only [weight, hr, refsWeight]; omega

/-- the referenced cell weighs strictly less than the slice it was taken from -/
theorem nextRef_child {s s' : Slice} {c : Cell} (h : s.nextRef = .ok (c, s')) :
    cellWeight c + 1 + weight s' ≤ weight s := by
  unfold Slice.nextRef at h
  split at h
  · cases h
  · rename_i c' rest hr
    simp only [Outcome.ok.injEq, Prod.mk.injEq] at h
    obtain ⟨rfl, rfl⟩ := h
    simp only [weight, hr, refsWeight]; omega

theorem readBit_lt {s s' : Slice} {b : Bool} (h : s.readBit = .ok (b, s')) : weight s' + 1 ≤ weight s := by
  unfold Slice.readBit at h
  split at h
  · cases h
  · rename_i x rest hb
    simp only [Outcome.ok.injEq, Prod.mk.injEq] at h
    obtain ⟨_, rfl⟩ := h
    simp only [weight, hb, List.length_cons]; omega

theorem good_readUint {w : Nat} (s : Slice) (n : Nat) (h : weight s ≤ w) : Good w (s.readUint n) := by
  unfold Slice.readUint
  split
  · exact Good.err (by decide)
  · exact Good.bind (good_readBits s n h) (fun a s1 hs => Good.ok hs)

theorem readUint_lt {s s' : Slice} {n v : Nat} (hn : 0 < n) (h : s.readUint n = .ok (v, s')) : weight s' + 1 ≤ weight s := by
  unfold Slice.readUint at h
  split at h
  · cases h
  · unfold Slice.readBits at h
    split at h
    · cases h
    · rename_i hl
      simp only [bind, Outcome.bind, pure, Outcome.ok.injEq, Prod.mk.injEq] at h
      obtain ⟨_, rfl⟩ := h
      simp only [weight, List.length_drop]; omega

theorem good_readInt {w : Nat} (s : Slice) (n : Nat) (h : weight s ≤ w) : Good w (s.readInt n) := by
  unfold Slice.readInt
  split
  · exact Good.err (by decide)
  · split
    · exact Good.err (by decide)
    · exact Good.bind (good_readBits s n h) (fun a s1 hs => Good.ok hs)

theorem good_readBytes {w : Nat} (s : Slice) (n : Nat) (h : weight s ≤ w) : Good w (s.readBytes n) := by
  unfold Slice.readBytes
  exact Good.bind (good_readBits s _ h) (fun a s1 hs => Good.ok hs)

theorem good_readBigUint {w : Nat} (s : Slice) (n : Nat) (h : weight s ≤ w) : Good w (s.readBigUint n) := by
  unfold Slice.readBigUint
  exact Good.bind (good_readBits s _ h) (fun a s1 hs => Good.ok hs)

theorem good_readBigInt {w : Nat} (s : Slice) (n : Nat) (h : weight s ≤ w) : Good w (s.readBigInt n) := by
  unfold Slice.readBigInt
  exact Good.bind (good_readBits s _ h) (fun a s1 hs => Good.ok hs)

theorem good_readLimUint {w : Nat} (s : Slice) (n : Nat) (h : weight s ≤ w) : Good w (s.readLimUint n) :=
  good_readUint s _ h

theorem readUnaryAux_len : ∀ (bs : List Bool) (k k' : Nat) (rest : List Bool),
    Slice.readUnaryAux bs k = some (k', rest) → rest.length ≤ bs.length
  | [], _, _, _, h => by simp [Slice.readUnaryAux] at h
  | false :: t, k, k', rest, h => by
    simp only [Slice.readUnaryAux, Option.some.injEq, Prod.mk.injEq] at h
    obtain ⟨_, rfl⟩ := h; simp
  | true :: t, k, k', rest, h => by
    simp only [Slice.readUnaryAux] at h
    have := readUnaryAux_len t (k + 1) k' rest h
    simp only [List.length_cons]; omega

theorem good_readUnary {w : Nat} (s : Slice) (h : weight s ≤ w) : Good w s.readUnary := by
  unfold Slice.readUnary
  split
  · rename_i k rest hu
    refine Good.ok (Nat.le_trans ?_ h)
    have := readUnaryAux_len _ _ _ _ hu
    simp only [weight]; omega
  · exact Good.err (by decide)

/-! ### the hand-written decoders without type parameters (`Prim.dec`) -/

open Prim in
theorem good_decVarUint {w : Nat} (n : Nat) (s : Slice) (h : weight s ≤ w) : Good w (decVarUint n s) := by
  unfold decVarUint
  exact Good.bind (good_readLimUint s _ h) (fun a s1 hs => good_readBigUint s1 _ hs)

open Prim in
theorem good_readBytesBE {w : Nat} : ∀ (k acc : Nat) (s : Slice), weight s ≤ w → Good w (readBytesBE k acc s)
  | 0, acc, s, h => Good.ok h
  | k + 1, acc, s, h => by
    unfold readBytesBE
    exact Good.bind (good_readUint s 8 h) (fun a s1 hs => good_readBytesBE k _ s1 hs)

open Prim in
theorem good_decGrams {w : Nat} (s : Slice) (h : weight s ≤ w) : Good w (decGrams s) := by
  unfold decGrams
  refine Good.bind (good_readLimUint s _ h) (fun ln s1 hs => ?_)
  dsimp only
  split
  · exact Good.err (by decide)
  · exact Good.bind (good_readBytesBE ln 0 s1 hs) (fun a s2 hs2 => Good.ok hs2)

open Prim in
theorem good_decSignedCoins {w : Nat} (s : Slice) (h : weight s ≤ w) : Good w (decSignedCoins s) := by
  unfold decSignedCoins
  refine Good.bind (good_readBit s h) (fun neg s1 hs => ?_)
  dsimp only
  refine Good.bind (good_readLimUint s1 _ hs) (fun ln s2 hs2 => ?_)
  dsimp only
  split
  · exact Good.err (by decide)
  · refine Good.bind (good_readBytesBE ln 0 s2 hs2) (fun a s3 hs3 => ?_)
    dsimp only
    split
    · exact Good.err (by decide)
    · exact Good.ok hs3

theorem cellDepthList_head (c : Cell) (cs : List Cell) : cellDepth c ≤ cellDepthList (c :: cs) := by
  simp only [cellDepthList]; exact Nat.le_max_left _ _

open Prim in
/-- the snake walk has enough fuel: no panic, no fuel-out -/
theorem decSnakeCell_ok : ∀ (fuel : Nat) (c : Cell), cellDepth c ≤ fuel →
    (decSnakeCell fuel c).isPanic = false ∧ fuelOut (decSnakeCell fuel c) = false
  | 0, c, h => by cases c; simp [cellDepth] at h
  | fuel + 1, .mk ty m bits refs, h => by
    unfold decSnakeCell
    split
    · exact ⟨rfl, rfl⟩
    · split
      · exact ⟨rfl, rfl⟩
      · rename_i r rest
        have hr : cellDepth r ≤ fuel := by
          have := cellDepthList_head r rest
          simp only [cellDepth] at h; omega
        obtain ⟨h1, h2⟩ := decSnakeCell_ok fuel r hr
        cases hd : decSnakeCell fuel r with
        | ok v => exact ⟨rfl, rfl⟩
        | err e => rw [hd] at h2; exact ⟨rfl, h2⟩
        | panic p => rw [hd] at h1; simp [Outcome.isPanic] at h1

open Prim in
theorem good_decSnake {w : Nat} (s : Slice) (h : weight s ≤ w) : Good w (decSnake s) := by
  unfold decSnake
  split
  · refine Good.ok (Nat.le_trans ?_ h)
    simp only [weight, List.length_nil]; omega
  · rename_i r rest hr
    obtain ⟨h1, h2⟩ := decSnakeCell_ok (cellDepth r + 1) r (Nat.le_succ _)
    refine Good.bind' h1 h2 (fun tail _ => ?_)
    refine Good.ok (Nat.le_trans ?_ h)
    simp only [weight, hr, List.length_nil, refsWeight]; omega

open Prim in
theorem good_decAnycast {w : Nat} (s : Slice) (h : weight s ≤ w) : Good w (decAnycast s) := by
  unfold decAnycast
  refine Good.bind (good_readLimUint s _ h) (fun d s1 hs => ?_)
  dsimp only
  split
  · exact Good.err (by decide)
  · exact Good.bind (good_readUint s1 _ hs) (fun a s2 hs2 => Good.ok hs2)

open Prim in
theorem good_decMaybeAnycast {w : Nat} (s : Slice) (h : weight s ≤ w) : Good w (decMaybeAnycast s) := by
  unfold decMaybeAnycast
  refine Good.bind (good_readBit s h) (fun ex s1 hs => ?_)
  dsimp only
  split
  · exact Good.bind (good_decAnycast s1 hs) (fun a s2 hs2 => Good.ok hs2)
  · exact Good.ok hs

open Prim in
theorem good_decMsgAddress {w : Nat} (s : Slice) (h : weight s ≤ w) : Good w (decMsgAddress s) := by
  unfold decMsgAddress
  refine Good.bind (good_readUint s 2 h) (fun t s1 hs => ?_)
  dsimp only
  split
  · exact Good.ok hs
  · split
    · refine Good.bind (good_readUint s1 9 hs) (fun ln s2 hs2 => ?_)
      exact Good.bind (good_readBits s2 _ hs2) (fun a s3 hs3 => Good.ok hs3)
    · split
      · refine Good.bind (good_decMaybeAnycast s1 hs) (fun ac s2 hs2 => ?_)
        refine Good.bind (good_readInt s2 8 hs2) (fun wc s3 hs3 => ?_)
        exact Good.bind (good_readBytes s3 32 hs3) (fun a s4 hs4 => Good.ok hs4)
      · refine Good.bind (good_decMaybeAnycast s1 hs) (fun ac s2 hs2 => ?_)
        refine Good.bind (good_readUint s2 9 hs2) (fun ln s3 hs3 => ?_)
        refine Good.bind (good_readInt s3 32 hs3) (fun wc s4 hs4 => ?_)
        exact Good.bind (good_readBits s4 _ hs4) (fun a s5 hs5 => Good.ok hs5)

open Prim in
theorem good_decAccountStatus {w : Nat} (s : Slice) (h : weight s ≤ w) : Good w (decAccountStatus s) := by
  unfold decAccountStatus
  exact Good.bind (good_readUint s 2 h) (fun t s1 hs => Good.ok hs)

open Prim in
theorem good_decAccStatusChange {w : Nat} (s : Slice) (h : weight s ≤ w) : Good w (decAccStatusChange s) := by
  unfold decAccStatusChange
  refine Good.bind (good_readBit s h) (fun f s1 hs => ?_)
  dsimp only
  split
  · exact Good.bind (good_readBit s1 hs) (fun d s2 hs2 => Good.ok hs2)
  · exact Good.ok hs

open Prim in
theorem good_decComputeSkipReason {w : Nat} (s : Slice) (h : weight s ≤ w) : Good w (decComputeSkipReason s) := by
  unfold decComputeSkipReason
  refine Good.bind (good_readUint s 2 h) (fun t s1 hs => ?_)
  dsimp only
  split
  · exact Good.ok hs
  · split
    · exact Good.ok hs
    · split
      · exact Good.ok hs
      · refine Good.bind (good_readUint s1 1 hs) (fun nb s2 hs2 => ?_)
        dsimp only
        split
        · exact Good.ok hs2
        · exact Good.err (by decide)

open Prim in
theorem good_decVmCellSlice {w : Nat} (s : Slice) (h : weight s ≤ w) : Good w (decVmCellSlice s) := by
  unfold decVmCellSlice
  refine Good.bind (good_nextRef s h) (fun c s1 hs => ?_)
  refine Good.bind (good_readUint s1 10 hs) (fun stB s2 hs2 => ?_)
  refine Good.bind (good_readUint s2 10 hs2) (fun endB s3 hs3 => ?_)
  dsimp only
  split
  · exact Good.err (by decide)
  · refine Good.bind (good_readLimUint s3 4 hs3) (fun stR s4 hs4 => ?_)
    refine Good.bind (good_readLimUint s4 4 hs4) (fun endR s5 hs5 => ?_)
    dsimp only
    split
    · exact Good.err (by decide)
    · split
      · exact Good.err (by decide)
      · split
        · exact Good.err (by decide)
        · exact Good.ok hs5

open Prim in
theorem good_decPayloadAux {w : Nat} : ∀ (fuel : Nat) (s : Slice) (acc : List Val), s.refs.length < fuel →
    weight s ≤ w → Good w (decPayloadAux fuel s acc)
  | 0, s, acc, hf, h => by omega
  | fuel + 1, s, acc, hf, h => by
    unfold decPayloadAux
    split
    · exact Good.ok h
    · rename_i c rest hr
      have hw : weight ({ s with refs := rest } : Slice) ≤ w := by
        refine Nat.le_trans ?_ h
        simp only [weight, hr, refsWeight]; omega
      -- readUint leaves the references alone
      unfold Slice.readUint
      split
      · exact Good.err (by decide)
      · unfold Slice.readBits
        split
        · exact Good.err (by decide)
        · simp only [bind, Outcome.bind, pure]
          refine good_decPayloadAux fuel _ _ ?_ ?_
          · simp only [hr, List.length_cons] at hf ⊢; omega
          · refine Nat.le_trans ?_ hw
            simp only [weight, List.length_drop]; omega

open Prim in
theorem good_decW5Action {w : Nat} (s : Slice) (h : weight s ≤ w) : Good w (decW5Action s) := by
  unfold decW5Action
  have body : ∀ (y : Nat) (s1 : Slice), weight s1 ≤ w → Good w
      (if y ≠ w5Magic then Outcome.err "magic prefix not found"
        else do
          let (mode, s2) ← s1.readUint 8
          let (c, s3) ← s2.nextRef
          match c with
          | .mk ty _ _ _ =>
            if ty == tyLibrary then Outcome.err "library cell as a ref is not implemented"
            else if ty == tyPruned then pure (Val.list [.magic, .int mode, .none], s3)
            else pure (Val.list [.magic, .int mode, Val.some (.cell c)], s3)) := by
    intro y s1 hs
    split
    · exact Good.err (by decide)
    · refine Good.bind (good_readUint s1 8 hs) (fun mode s2 hs2 => ?_)
      refine Good.bind (good_nextRef s2 hs2) (fun c s3 hs3 => ?_)
      dsimp only
      cases c with
      | mk ty m bs rs =>
        dsimp only
        split
        · exact Good.err (by decide)
        · split
          · exact Good.ok hs3
          · exact Good.ok hs3
  dsimp only
  split
  · rename_i r hr
    obtain ⟨y, s1⟩ := r
    have hs1 : weight s1 ≤ w := (good_readUint s 32 h).2.2 y s1 hr
    simp only [Outcome.bind_ok]
    exact body y s1 hs1
  · simp only [Outcome.bind_ok]
    exact body 0 s h

theorem toCell_ofCell (c : Cell) : (Slice.ofCell c).toCell = c := by cases c; rfl

open Prim in
theorem good_decW5Aux {w : Nat} : ∀ (fuel : Nat) (s : Slice) (acc : List Val), cellDepth s.toCell < fuel →
    weight s ≤ w → Good w (decW5Aux fuel s acc)
  | 0, s, acc, hf, h => by omega
  | fuel + 1, s, acc, hf, h => by
    unfold decW5Aux
    split
    · exact Good.ok h
    · split
      · cases hn : s.nextRef with
        | err e =>
          have := good_nextRef s h; rw [hn] at this
          exact ⟨rfl, this.2.1, by intro v s' h'; cases h'⟩
        | panic p => have := (good_nextRef s h).1; rw [hn] at this; simp [Outcome.isPanic] at this
        | ok r =>
          obtain ⟨next, s1⟩ := r
          have hchild := nextRef_child hn
          have hs1 : weight s1 ≤ w := by omega
          simp only [Outcome.bind_ok]
          split
          · exact Good.err (by decide)
          · have h1 := good_decW5Action s1 hs1
            cases hd : decW5Action s1 with
            | ok p =>
              obtain ⟨a, s2⟩ := p
              simp only [Outcome.bind_ok]
              refine good_decW5Aux fuel _ _ ?_ ?_
              · rw [toCell_ofCell]
                unfold Slice.nextRef at hn
                split at hn
                · cases hn
                · rename_i c' rest hr
                  simp only [Outcome.ok.injEq, Prod.mk.injEq] at hn
                  obtain ⟨rfl, _⟩ := hn
                  have := cellDepthList_head c' rest
                  simp only [Slice.toCell, cellDepth, hr] at hf
                  omega
              · rw [weight_ofCell]; omega
            | err e => rw [hd] at h1; exact ⟨rfl, h1.2.1, by intro v s' h'; cases h'⟩
            | panic p => rw [hd] at h1; have := h1.1; simp [Outcome.isPanic] at this
      · exact Good.err (by decide)

open Prim in
/-- every hand-written decoder modelled as a `Prim`: value or genuine error, what is left weighs no more -/
theorem good_primDec {w : Nat} (p : Prim) (s : Slice) (h : weight s ≤ w) : Good w (Prim.dec p s) := by
  unfold Prim.dec
  cases p with
  | unary => exact Good.bind (good_readUnary s h) (fun a s1 hs => Good.ok hs)
  | any => exact Good.ok h
  | varUint n => exact Good.bind (good_decVarUint n s h) (fun a s1 hs => Good.ok hs)
  | bigUint n => exact Good.bind (good_readBigUint s n h) (fun a s1 hs => Good.ok hs)
  | bigInt n => exact Good.bind (good_readBigInt s n h) (fun a s1 hs => Good.ok hs)
  | grams => exact Good.bind (good_decGrams s h) (fun a s1 hs => Good.ok hs)
  | signedCoins => exact Good.bind (good_decSignedCoins s h) (fun a s1 hs => Good.ok hs)
  | snake => exact Good.bind (good_decSnake s h) (fun a s1 hs => Good.ok hs)
  | bytesSnake =>
    refine Good.bind (good_decSnake s h) (fun a s1 hs => ?_)
    dsimp only
    split
    · exact Good.err (by decide)
    · exact Good.ok hs
  | text =>
    refine Good.bind (good_decSnake s h) (fun a s1 hs => ?_)
    dsimp only
    split
    · exact Good.err (by decide)
    · split
      · exact Good.ok hs
      · exact Good.err (by decide)
  | fixedText =>
    refine Good.bind (good_readUint s 8 h) (fun l s1 hs => ?_)
    exact Good.bind (good_readBytes s1 l hs) (fun a s2 hs2 => Good.ok hs2)
  | anycast => exact good_decAnycast s h
  | msgAddress => exact good_decMsgAddress s h
  | accountStatus => exact good_decAccountStatus s h
  | accStatusChange => exact good_decAccStatusChange s h
  | computeSkipReason => exact good_decComputeSkipReason s h
  | vmCellSlice => exact good_decVmCellSlice s h
  | payloadV1toV4 => exact good_decPayloadAux _ s [] (Nat.lt_succ_self _) h
  | w5Actions => exact good_decW5Aux _ s [] (by omega) h
  | addrWc =>
    refine Good.bind (good_readInt s 32 h) (fun wc s1 hs => ?_)
    exact Good.bind (good_readBytes s1 32 hs) (fun a s2 hs2 => Good.ok hs2)

/-! ### arithmetic of the fuel bound -/

theorem Good.bind_eq {α β} {w : Nat} {x : Outcome (α × Slice)} {k : α × Slice → Outcome (β × Slice)}
    (hx : Good w x) (hk : ∀ a s, x = .ok (a, s) → weight s ≤ w → Good w (k (a, s))) : Good w (x >>= k) := by
  cases x with
  | ok p => obtain ⟨a, s⟩ := p; exact hk a s rfl (hx.2.2 a s rfl)
  | err e => exact ⟨rfl, hx.2.1, by intro v s' h; cases h⟩
  | panic p => have := hx.1; simp [Outcome.isPanic] at this

/-- a sub-decode whose remaining slice is dropped (the content of a referenced cell) -/
theorem Good.sub {β γ} {w w' : Nat} {x : Outcome (β × Slice)} (hx : Good w' x) {s2 : Slice} (hs2 : weight s2 ≤ w)
    (f : β → γ) : Good w (x >>= fun (p : β × Slice) => match p with | (v, _) => pure (f v, s2)) := by
  cases x with
  | ok p => obtain ⟨a, s⟩ := p; exact Good.ok hs2
  | err e => exact ⟨rfl, hx.2.1, by intro v s' h; cases h⟩
  | panic p => have := hx.1; simp [Outcome.isPanic] at this

theorem tdepth_pos : (T : Ty) → 1 ≤ tdepth T
  | .uint _ | .int _ | .bool | .bytes _ | .cell | .named _ | .magic _ | .prim _ | .encErr _ | .opaque _ => by
    simp [tdepth]
  | .ptr _ t | .maybe t | .eitherRef t | .refT t => by simp [tdepth]
  | .vmStack t | .chain t | .binTree t => by simp only [tdepth]; omega
  | .dictE _ _ | .dict _ _ | .dictAugE _ _ _ | .dictAug _ _ _ | .custom _ _ _ => by simp only [tdepth]; omega
  | .highload => by simp [tdepth]
  | .either l r => by simp [tdepth]
  | .struct fs => by simp [tdepth]
  | .sum cs => by simp [tdepth]

theorem fdepth_pos (fs : Fields) : 1 ≤ fdepth fs := by cases fs <;> simp [fdepth] <;> omega

mutual
theorem rk0_le (rk : Nat → Nat) (B : Nat) (h : ∀ id, rk id ≤ B) : (T : Ty) → rk0 rk T ≤ B
  | .named id => by simp only [rk0]; exact h id
  | .ptr _ t => by simp only [rk0]; exact rk0_le rk B h t
  | .struct fs => by simp only [rk0]; exact rk0F_le rk B h fs
  | .sum cs => by simp only [rk0]; exact rk0C_le rk B h cs
  | .chain e => by simp only [rk0]; exact rk0_le rk B h e
  | .custom _ _ aux => by simp only [rk0]; exact rk0_le rk B h aux
  | .uint _ | .int _ | .bool | .bytes _ | .cell | .magic _ | .prim _ | .dictE _ _ | .encErr _ | .opaque _
  | .maybe _ | .eitherRef _ | .refT _ | .vmStack _ | .either _ _ | .dict _ _ | .dictAugE _ _ _ | .dictAug _ _ _
  | .binTree _ | .highload => by simp [rk0]
theorem rk0F_le (rk : Nat → Nat) (B : Nat) (h : ∀ id, rk id ≤ B) : (fs : Fields) → rk0F rk fs ≤ B
  | .nil => by simp [rk0F]
  | .cons _ ft t rest => by
    have h1 := rk0_le rk B h t
    have h2 := rk0F_le rk B h rest
    simp only [rk0F]
    cases ft <;> simp only [] <;> (apply Nat.max_le.mpr; constructor <;> omega)
theorem rk0C_le (rk : Nat → Nat) (B : Nat) (h : ∀ id, rk id ≤ B) : (cs : Ctors) → rk0C rk cs ≤ B
  | .nil => by simp [rk0C]
  | .cons _ tg t rest => by
    have h1 := rk0_le rk B h t
    have h2 := rk0C_le rk B h rest
    simp only [rk0C]
    apply Nat.max_le.mpr
    constructor
    · cases tg with
      | none => simp
      | some tag => simp only []; split <;> omega
    · exact h2
end

theorem mul_step {a b c : Nat} (h : a + 1 ≤ b) : a * c + c ≤ b * c := by
  have := Nat.mul_le_mul_right c h
  rw [Nat.add_mul, Nat.one_mul] at this
  exact this

/-- hypotheses on the environment, the ranks and the constants -/
structure EnvOK (env : Env) (rk : Nat → Nat) (k : Consts) : Prop where
  depth : ∀ id body, env id = some body → tdepth body ≤ k.D
  rank : ∀ id, rk id + 1 ≤ k.R
  prod : ∀ id body, env id = some body → rk0 rk body + 1 ≤ rk id

theorem C_eq (k : Consts) : k.C = k.R * k.D + 2 * k.D + 2 := by
  simp only [Consts.C, Nat.add_mul]

/-- a call on a structural part of the type, nothing consumed -/
theorem call_same {k : Consts} {rk : Nat → Nat} {T T' : Ty} {s : Slice} {fuel : Nat}
    (hf : need k rk T s ≤ fuel + 1) (hd : tdepth T' + 1 ≤ tdepth T) (hr : rk0 rk T' ≤ rk0 rk T) :
    need k rk T' s ≤ fuel := by
  have := Nat.mul_le_mul_right k.D hr
  simp only [need] at hf ⊢
  omega

/-- a call after something was consumed (a bit, a reference, or a descent into a referenced cell) -/
theorem call_guard {env : Env} {k : Consts} {rk : Nat → Nat} (h : EnvOK env rk k) {T' : Ty} {s s' : Slice} {fuel base : Nat}
    (hf : weight s * k.C + base ≤ fuel + 1) (hw : weight s' + 1 ≤ weight s) (hd : tdepth T' ≤ base) :
    need k rk T' s' ≤ fuel := by
  have h1 := mul_step (c := k.C) hw
  have h2 : rk0 rk T' + 1 ≤ k.R := Nat.le_trans (Nat.succ_le_succ (rk0_le rk (k.R - 1) (fun id => by have := h.rank id; omega) T')) (by have := h.rank 0; omega)
  have h3 := mul_step (c := k.D) h2
  have hC := C_eq k
  simp only [need]
  omega

/-! ### the generic decoder -/

theorem selectCtor_good : ∀ (cs : Ctors) (bits : List Bool),
    (selectCtor cs bits).isPanic = false ∧ fuelOut (selectCtor cs bits) = false
  | .nil, _ => ⟨rfl, rfl⟩
  | .cons name tg t rest, bits => by
    unfold selectCtor
    cases tg with
    | none => exact ⟨rfl, rfl⟩
    | some tag =>
      dsimp only
      split
      · exact selectCtor_good rest bits
      · split
        · exact ⟨rfl, rfl⟩
        · split
          · exact ⟨rfl, rfl⟩
          · exact selectCtor_good rest bits

theorem selectCtor_spec (rk : Nat → Nat) : ∀ (cs : Ctors) (bits : List Bool) (name : String) (t : Ty) (len : Nat),
    selectCtor cs bits = .ok (name, t, len) →
    len ≤ bits.length ∧ tdepth t ≤ cdepth cs ∧ (len = 0 → rk0 rk t ≤ rk0C rk cs)
  | .nil, _, _, _, _, h => by simp [selectCtor] at h
  | .cons nm tg t0 rest, bits, name, t, len, h => by
    unfold selectCtor at h
    cases tg with
    | none => simp at h
    | some tag =>
      dsimp only at h
      have hrec := fun hh => selectCtor_spec rk rest bits name t len hh
      have hmax1 : cdepth rest ≤ cdepth (.cons nm (some tag) t0 rest) := by simp only [cdepth]; exact Nat.le_max_right _ _
      have hmax2 : rk0C rk rest ≤ rk0C rk (.cons nm (some tag) t0 rest) := by simp only [rk0C]; exact Nat.le_max_right _ _
      split at h
      · obtain ⟨a, b, c⟩ := hrec h; exact ⟨a, by omega, fun z => by have := c z; omega⟩
      · split at h
        · simp at h
        · split at h
          · simp only [Outcome.ok.injEq, Prod.mk.injEq] at h
            obtain ⟨_, rfl, rfl⟩ := h
            refine ⟨by omega, by simp only [cdepth]; exact Nat.le_max_left _ _, fun z => ?_⟩
            simp only [rk0C, z, if_true]
            exact Nat.le_max_left _ _
          · obtain ⟨a, b, c⟩ := hrec h; exact ⟨a, by omega, fun z => by have := c z; omega⟩

theorem good_decodeMagic {w : Nat} (tg : Option Tag) (s : Slice) (h : weight s ≤ w) : Good w (decodeMagic tg s) := by
  unfold decodeMagic
  cases tg with
  | none => exact Good.err (by decide)
  | some t =>
    refine Good.bind (good_readUint s t.len h) (fun y s' hs => ?_)
    dsimp only
    split
    · exact Good.err (by decide)
    · exact Good.ok hs

theorem good_libraryEntry {w : Nat} (T : Ty) (s : Slice) (h : weight s ≤ w) : Good w (libraryEntry T s) := by
  unfold libraryEntry
  split
  · exact Good.ok h
  · exact Good.ok h
  · exact Good.err (by decide)

/-! ### the second-round constructors (agent tlb): dictionaries on C05's decoders, BinTree, the hand decoders -/

/-- neither a panic nor the fuel-exhaustion answer -/
def NF {α : Type} (o : Outcome α) : Prop := o.isPanic = false ∧ fuelOut o = false

theorem NF.ok {α} (a : α) : NF (Outcome.ok a) := ⟨rfl, rfl⟩
theorem NF.err {α} {e : String} (h : (e == "fuel") = false) : NF (α := α) (.err e) := ⟨rfl, by simpa [fuelOut] using h⟩

theorem Good.nf {β} {w : Nat} {o : Outcome (β × Slice)} (h : Good w o) : NF o := ⟨h.1, h.2.1⟩

theorem NF.bind {α β} {x : Outcome α} {k : α → Outcome β} (hx : NF x) (hk : ∀ a, x = .ok a → NF (k a)) :
    NF (x >>= k) := by
  cases x with
  | ok a => exact hk a rfl
  | err e => exact ⟨rfl, hx.2⟩
  | panic p => have := hx.1; simp [Outcome.isPanic] at this

/-- weight of what a (bits, refs) pair can still read -/
def bw (bits : List Bool) (refs : List Cell) : Nat := bits.length + refsWeight refs

theorem refsWeight_drop (refs : List Cell) (n : Nat) : refsWeight (refs.drop n) ≤ refsWeight refs := by
  induction n generalizing refs with
  | zero => simp
  | succ n ih =>
    cases refs with
    | nil => simp
    | cons c cs =>
      simp only [List.drop_succ_cons]
      have := ih cs
      simp only [refsWeight]; omega

theorem readUnary_len : ∀ (bits : List Bool) (n : Nat) (r : List Bool), Hashmap.readUnary bits = some (n, r) →
    r.length + 1 ≤ bits.length
  | [], _, _, h => by simp [Hashmap.readUnary] at h
  | false :: t, n, r, h => by
    simp only [Hashmap.readUnary, Option.some.injEq, Prod.mk.injEq] at h
    obtain ⟨_, rfl⟩ := h; simp
  | true :: t, n, r, h => by
    simp only [Hashmap.readUnary] at h
    cases hr : Hashmap.readUnary t with
    | none => simp [hr] at h
    | some p =>
      obtain ⟨m, r'⟩ := p
      simp only [hr, Option.some.injEq, Prod.mk.injEq] at h
      obtain ⟨_, rfl⟩ := h
      have := readUnary_len t m r' hr
      simp only [List.length_cons]; omega

theorem readUint_len (w : Nat) (bits : List Bool) (v : Nat) (r : List Bool) (h : Hashmap.readUint w bits = some (v, r)) :
    r.length ≤ bits.length := by
  unfold Hashmap.readUint at h
  split at h
  · cases h
  · simp only [Option.some.injEq, Prod.mk.injEq] at h
    obtain ⟨_, rfl⟩ := h; simp

/-- loadLabel: a genuine error or a longer prefix within the capacity and a shorter rest (at least one bit read) -/
theorem loadLabel_spec (m : Int) (cap : Nat) (pfx : Hashmap.Key) (bits : List Bool) :
    NF (Hashmap.loadLabel m cap pfx bits) ∧
    ∀ size pfx' rest, Hashmap.loadLabel m cap pfx bits = .ok (size, pfx', rest) →
      pfx.length ≤ pfx'.length ∧ pfx'.length ≤ cap ∧ rest.length + 1 ≤ bits.length := by
  unfold Hashmap.loadLabel
  split
  · exact ⟨NF.err (by decide), by intro _ _ _ h; cases h⟩
  · rename_i r
    cases hr : Hashmap.readUnary r with
    | none => exact ⟨NF.err (by decide), by intro _ _ _ h; cases h⟩
    | some p =>
      obtain ⟨ln, r'⟩ := p
      have hl := readUnary_len r ln r' hr
      dsimp only
      split
      · exact ⟨NF.err (by decide), by intro _ _ _ h; cases h⟩
      · split
        · exact ⟨NF.err (by decide), by intro _ _ _ h; cases h⟩
        · refine ⟨NF.ok _, ?_⟩
          intro size pfx' rest h
          simp only [Outcome.ok.injEq, Prod.mk.injEq] at h
          obtain ⟨_, rfl, rfl⟩ := h
          simp only [List.length_append, List.length_take, List.length_drop, List.length_cons]
          omega
  · exact ⟨NF.err (by decide), by intro _ _ _ h; cases h⟩
  · rename_i r
    cases hr : Hashmap.readUint (Hashmap.lenWidth m) r with
    | none => exact ⟨NF.err (by decide), by intro _ _ _ h; cases h⟩
    | some p =>
      obtain ⟨ln, r'⟩ := p
      have hl := readUint_len _ r ln r' hr
      dsimp only
      split
      · exact ⟨NF.err (by decide), by intro _ _ _ h; cases h⟩
      · split
        · exact ⟨NF.err (by decide), by intro _ _ _ h; cases h⟩
        · refine ⟨NF.ok _, ?_⟩
          intro size pfx' rest h
          simp only [Outcome.ok.injEq, Prod.mk.injEq] at h
          obtain ⟨_, rfl, rfl⟩ := h
          simp only [List.length_append, List.length_take, List.length_drop, List.length_cons]
          omega
  · exact ⟨NF.err (by decide), by intro _ _ _ h; cases h⟩
  · rename_i b r
    cases hr : Hashmap.readUint (Hashmap.lenWidth m) r with
    | none => exact ⟨NF.err (by decide), by intro _ _ _ h; cases h⟩
    | some p =>
      obtain ⟨ln, r'⟩ := p
      have hl := readUint_len _ r ln r' hr
      dsimp only
      split
      · exact ⟨NF.err (by decide), by intro _ _ _ h; cases h⟩
      · refine ⟨NF.ok _, ?_⟩
        intro size pfx' rest h
        simp only [Outcome.ok.injEq, Prod.mk.injEq] at h
        obtain ⟨_, rfl, rfl⟩ := h
        simp only [List.length_append, List.length_replicate, List.length_cons]
        omega

theorem cellWeight_mk (ty mask : Nat) (bits : List Bool) (refs : List Cell) :
    cellWeight (.mk ty mask bits refs) = bits.length + refsWeight refs := by simp [cellWeight]

/-- Hashmap.mapInner never runs out of its own fuel (every level adds a bit to the key prefix, which is capped by the
key size) and passes on what the value decoder answers; the value decoder is only ever called on what is left of a
cell of the tree -/
theorem mapInner_nf {V : Type} (C : Hashmap.Codec V) (n W : Nat)
    (hC : ∀ bits refs, bw bits refs + 1 ≤ W → NF (C.dec bits refs)) :
    ∀ (fuel : Nat) (left : Int) (c : Cell) (pfx : Hashmap.Key), cellWeight c ≤ W → n + 1 ≤ pfx.length + fuel →
      pfx.length ≤ n → NF (Hashmap.mapInner C n fuel left c pfx)
  | 0, _, _, pfx, _, h1, h2 => by omega
  | fuel + 1, left, .mk ty mask bits refs, pfx, hw, h1, h2 => by
    rw [cellWeight_mk] at hw
    simp only [Hashmap.mapInner]
    split
    · exact NF.ok _
    · obtain ⟨hnf, hsp⟩ := loadLabel_spec left n pfx bits
      cases hl : Hashmap.loadLabel left n pfx bits with
      | err e => rw [hl] at hnf; exact hnf
      | panic e => rw [hl] at hnf; exact hnf
      | ok r =>
        obtain ⟨size, pfx', rest⟩ := r
        obtain ⟨hp1, hp2, hp3⟩ := hsp size pfx' rest hl
        dsimp only
        split
        · rename_i hlt
          cases refs with
          | nil => exact NF.err (by decide)
          | cons l refs' =>
            simp only [refsWeight] at hw
            have hl1 := mapInner_nf C n W hC fuel (left - (1 + (size : Int))) l (pfx' ++ [false])
              (by omega) (by simp only [List.length_append, List.length_cons, List.length_nil]; omega)
              (by simp only [List.length_append, List.length_cons, List.length_nil]; omega)
            dsimp only
            cases ha : Hashmap.mapInner C n fuel (left - (1 + (size : Int))) l (pfx' ++ [false]) with
            | err e => rw [ha] at hl1; exact hl1
            | panic e => rw [ha] at hl1; exact hl1
            | ok a =>
              dsimp only
              cases refs' with
              | nil => exact NF.err (by decide)
              | cons r refs'' =>
                simp only [refsWeight] at hw
                have hr1 := mapInner_nf C n W hC fuel (left - (1 + (size : Int))) r (pfx' ++ [true])
                  (by omega) (by simp only [List.length_append, List.length_cons, List.length_nil]; omega)
                  (by simp only [List.length_append, List.length_cons, List.length_nil]; omega)
                dsimp only
                cases hb : Hashmap.mapInner C n fuel (left - (1 + (size : Int))) r (pfx' ++ [true]) with
                | err e => rw [hb] at hr1; exact hr1
                | panic e => rw [hb] at hr1; exact hr1
                | ok b => exact NF.ok _
        · split
          · exact NF.err (by decide)
          · have hd := hC rest refs (by simp only [bw]; omega)
            cases hv : C.dec rest refs with
            | ok v => exact NF.ok _
            | err e => rw [hv] at hd; exact hd
            | panic e => rw [hv] at hd; exact hd

/-- what the dictionary model needs from a decoder of extras: a genuine answer, and it only consumes -/
def XGood {Y : Type} (W : Nat) (xdec : Hashmap.XDec Y) : Prop :=
  ∀ bits refs, bw bits refs + 1 ≤ W → NF (xdec bits refs) ∧
    ∀ y b' r', xdec bits refs = .ok (y, b', r') → bw b' r' ≤ bw bits refs

theorem mapInnerAug_nf {V Y : Type} (xdec : Hashmap.XDec Y) (zero : Y) (C : Hashmap.Codec V) (n W : Nat)
    (hX : XGood W xdec) (hC : ∀ bits refs, bw bits refs + 1 ≤ W → NF (C.dec bits refs)) :
    ∀ (fuel : Nat) (left : Int) (c : Cell) (pfx : Hashmap.Key), cellWeight c ≤ W → n + 1 ≤ pfx.length + fuel →
      pfx.length ≤ n → NF (Hashmap.mapInnerAug xdec zero C n fuel left c pfx)
  | 0, _, _, pfx, _, h1, h2 => by omega
  | fuel + 1, left, .mk ty mask bits refs, pfx, hw, h1, h2 => by
    rw [cellWeight_mk] at hw
    simp only [Hashmap.mapInnerAug]
    split
    · exact NF.ok _
    · obtain ⟨hnf, hsp⟩ := loadLabel_spec left n pfx bits
      cases hl : Hashmap.loadLabel left n pfx bits with
      | err e => rw [hl] at hnf; exact hnf
      | panic e => rw [hl] at hnf; exact hnf
      | ok r =>
        obtain ⟨size, pfx', rest⟩ := r
        obtain ⟨hp1, hp2, hp3⟩ := hsp size pfx' rest hl
        dsimp only
        split
        · rename_i hlt
          cases refs with
          | nil => exact NF.err (by decide)
          | cons l refs' =>
            simp only [refsWeight] at hw
            have hl1 := mapInnerAug_nf xdec zero C n W hX hC fuel (left - (1 + (size : Int))) l (pfx' ++ [false])
              (by omega) (by simp only [List.length_append, List.length_cons, List.length_nil]; omega)
              (by simp only [List.length_append, List.length_cons, List.length_nil]; omega)
            dsimp only
            cases ha : Hashmap.mapInnerAug xdec zero C n fuel (left - (1 + (size : Int))) l (pfx' ++ [false]) with
            | err e => rw [ha] at hl1; exact hl1
            | panic e => rw [ha] at hl1; exact hl1
            | ok a =>
              obtain ⟨a, xa⟩ := a
              dsimp only
              cases refs' with
              | nil => exact NF.err (by decide)
              | cons r refs'' =>
                simp only [refsWeight] at hw
                have hr1 := mapInnerAug_nf xdec zero C n W hX hC fuel (left - (1 + (size : Int))) r (pfx' ++ [true])
                  (by omega) (by simp only [List.length_append, List.length_cons, List.length_nil]; omega)
                  (by simp only [List.length_append, List.length_cons, List.length_nil]; omega)
                dsimp only
                cases hb : Hashmap.mapInnerAug xdec zero C n fuel (left - (1 + (size : Int))) r (pfx' ++ [true]) with
                | err e => rw [hb] at hr1; exact hr1
                | panic e => rw [hb] at hr1; exact hr1
                | ok b =>
                  obtain ⟨b, xb⟩ := b
                  dsimp only
                  split
                  · exact NF.err (by decide)
                  · have hx := (hX rest refs'' (by simp only [bw]; omega)).1
                    cases hxv : xdec rest refs'' with
                    | ok y => obtain ⟨y, _, _⟩ := y; exact NF.ok _
                    | err e => rw [hxv] at hx; exact hx
                    | panic e => rw [hxv] at hx; exact hx
        · split
          · exact NF.err (by decide)
          · obtain ⟨hx, hxw⟩ := hX rest refs (by simp only [bw]; omega)
            cases hxv : xdec rest refs with
            | err e => rw [hxv] at hx; exact hx
            | panic e => rw [hxv] at hx; exact hx
            | ok y =>
              obtain ⟨y, rest', refs'⟩ := y
              have hw2 := hxw y rest' refs' hxv
              dsimp only
              have hd := hC rest' refs' (by simp only [bw] at hw2 ⊢; omega)
              cases hv : C.dec rest' refs' with
              | ok v => exact NF.ok _
              | err e => rw [hv] at hd; exact hd
              | panic e => rw [hv] at hd; exact hd

/-! ### the second-round decoders of the TL-B model -/

theorem weight_mk (bits : List Bool) (refs : List Cell) : weight ({ bits := bits, refs := refs } : Slice) = bw bits refs := rfl

theorem cellWeight_toCell (s : Slice) : cellWeight s.toCell = weight s := by
  cases s; simp [Slice.toCell, cellWeight, weight]

theorem mapM_nf {α β} (f : α → Outcome β) : ∀ (l : List α), (∀ a ∈ l, NF (f a)) → NF (mapMOutcome f l)
  | [], _ => NF.ok _
  | a :: as, h => by
    simp only [mapMOutcome]
    refine NF.bind (h a (List.mem_cons_self ..)) (fun b _ => ?_)
    refine NF.bind (mapM_nf f as (fun a' ha' => h a' (List.mem_cons_of_mem _ ha'))) (fun bs _ => ?_)
    exact NF.ok _

/-- a dictionary key type decodes without recursion: one level of fuel is all it takes -/
theorem key_nf (env : Env) (kt : Ty) (n : Nat) (hk : keyWidth kt = some n) (fuel : Nat) (s : Slice) :
    NF ((decode env (fuel + 1) kt s).bind fun r => Outcome.ok r.1) := by
  have hg : Good (weight s) (decode env (fuel + 1) kt s) := by
    unfold decode
    split
    · exact good_libraryEntry kt s (Nat.le_refl _)
    · cases kt <;> try (simp [keyWidth] at hk; done)
      case uint m => exact Good.bind (good_readUint s m (Nat.le_refl _)) (fun a s1 hs => Good.ok hs)
      case int m => exact Good.bind (good_readInt s m (Nat.le_refl _)) (fun a s1 hs => Good.ok hs)
      case bytes m => exact Good.bind (good_readBytes s m (Nat.le_refl _)) (fun a s1 hs => Good.ok hs)
      case prim p => exact good_primDec p s (Nat.le_refl _)
  cases hd : decode env (fuel + 1) kt s with
  | ok r => exact NF.ok _
  | err e => rw [hd] at hg; exact ⟨rfl, hg.2.1⟩
  | panic e => rw [hd] at hg; have := hg.1; simp [Outcome.isPanic] at this

/-- the value decoder of a dictionary, as C05's codec: a genuine answer on everything lighter than `W` -/
theorem valueCodec_nf (vdec : Slice → Outcome (Val × Slice)) (W : Nat)
    (hv : ∀ s', weight s' + 1 ≤ W → Good (weight s') (vdec s')) :
    ∀ bits refs, bw bits refs + 1 ≤ W → NF ((valueCodecDec vdec).dec bits refs) := by
  intro bits refs hw
  simp only [valueCodecDec]
  have hg := hv { bits := bits, refs := refs } (by rw [weight_mk]; exact hw)
  cases hd : vdec { bits := bits, refs := refs } with
  | ok r => exact NF.ok _
  | err e => rw [hd] at hg; exact ⟨rfl, hg.2.1⟩
  | panic e => rw [hd] at hg; have := hg.1; simp [Outcome.isPanic] at this

theorem skipExtra_xgood (xdec : Slice → Outcome (Val × Slice)) (W : Nat)
    (hx : ∀ s', weight s' + 1 ≤ W → Good (weight s') (xdec s')) : XGood W (skipExtra xdec) := by
  intro bits refs hw
  have hg := hx { bits := bits, refs := refs } (by rw [weight_mk]; exact hw)
  simp only [skipExtra]
  cases hd : xdec { bits := bits, refs := refs } with
  | ok r =>
    refine ⟨NF.ok _, ?_⟩
    intro y b' r' h
    simp only [Outcome.bind, Outcome.ok.injEq, Prod.mk.injEq] at h
    obtain ⟨_, rfl, rfl⟩ := h
    rw [hd] at hg
    have := hg.2.2 r.1 r.2 rfl
    rw [weight_mk] at this
    exact this
  | err e => rw [hd] at hg; exact ⟨⟨rfl, hg.2.1⟩, by intro _ _ _ h; cases h⟩
  | panic e => rw [hd] at hg; have := hg.1; simp [Outcome.isPanic] at this

theorem unmarshal_nf (C : Hashmap.Codec Val) (n : Nat) (c : Cell)
    (hC : ∀ bits refs, bw bits refs + 1 ≤ cellWeight c → NF (C.dec bits refs)) : NF (Hashmap.unmarshal C n c) := by
  unfold Hashmap.unmarshal
  split
  · exact NF.err (by decide)
  · exact mapInner_nf C n (cellWeight c) hC (n + 1) n c [] (Nat.le_refl _) (by simp) (by simp)

theorem NF.toGood {β} {w : Nat} {o : Outcome β} (h : NF o) {k : β → Outcome (Val × Slice)}
    (hk : ∀ a, o = .ok a → Good w (k a)) : Good w (o >>= k) :=
  Good.bind' h.1 h.2 hk

/-- HashmapE -/
theorem good_decodeDictE (kw : Option Nat) (kdec : Hashmap.Key → Outcome Val) (C : Hashmap.Codec Val) (s : Slice)
    (hk : ∀ n, kw = some n → ∀ key, NF (kdec key)) (hC : ∀ bits refs, bw bits refs + 1 ≤ weight s → NF (C.dec bits refs)) :
    Good (weight s) (decodeDictE kw kdec C s) := by
  unfold decodeDictE
  refine Good.bind_eq (good_readBit s (Nat.le_refl _)) (fun ne s1 he hs => ?_)
  dsimp only
  split
  · exact Good.ok hs
  · refine Good.bind_eq (good_nextRef s1 hs) (fun r s2 hn hs2 => ?_)
    have hc := nextRef_child hn
    have hb := readBit_lt he
    dsimp only
    split
    · exact Good.ok hs2
    · cases kw with
      | none => exact Good.err (by decide)
      | some n =>
        dsimp only
        refine NF.toGood (unmarshal_nf C n r (fun bits refs hw => hC bits refs (by omega))) (fun kvs _ => ?_)
        refine NF.toGood (mapM_nf _ kvs (fun kv _ => hk n rfl kv.1)) (fun ks _ => ?_)
        exact Good.ok hs2

theorem emptied_weight (s : Slice) : weight (emptied s) = 0 := by simp [emptied, weight, refsWeight]

theorem dictRest_weight (n : Nat) (vdec : Slice → Outcome (Val × Slice)) (s : Slice)
    (hv : ∀ s', weight s' + 1 ≤ weight s → Good (weight s') (vdec s')) : weight (dictRest n vdec s) ≤ weight s := by
  unfold dictRest
  obtain ⟨_, hsp⟩ := loadLabel_spec n n [] s.bits
  cases hl : Hashmap.loadLabel n n [] s.bits with
  | err e => simp [weight, refsWeight]
  | panic e => simp [weight, refsWeight]
  | ok r =>
    obtain ⟨size, pfx, rest⟩ := r
    obtain ⟨_, _, hp3⟩ := hsp size pfx rest hl
    dsimp only
    split
    · have := refsWeight_drop s.refs 2
      simp only [weight]; omega
    · have hw : weight ({ s with bits := rest } : Slice) + 1 ≤ weight s := by simp only [weight]; omega
      have hg := hv { s with bits := rest } hw
      cases hd : vdec { s with bits := rest } with
      | ok r2 =>
        obtain ⟨v, s'⟩ := r2
        rw [hd] at hg
        have := hg.2.2 v s' rfl
        dsimp only; omega
      | err e => dsimp only; simp [weight, refsWeight]
      | panic e => dsimp only; simp [weight, refsWeight]

/-- Hashmap read from the current cell -/
theorem good_decodeDict (kw : Option Nat) (kdec : Hashmap.Key → Outcome Val) (C : Hashmap.Codec Val)
    (vdec : Slice → Outcome (Val × Slice)) (s : Slice)
    (hk : ∀ n, kw = some n → ∀ key, NF (kdec key)) (hC : ∀ bits refs, bw bits refs + 1 ≤ weight s → NF (C.dec bits refs))
    (hv : ∀ s', weight s' + 1 ≤ weight s → Good (weight s') (vdec s')) :
    Good (weight s) (decodeDict kw kdec C vdec s) := by
  unfold decodeDict
  split
  · exact Good.ok (Nat.le_refl _)
  · cases kw with
    | none => exact Good.err (by decide)
    | some n =>
      dsimp only
      refine NF.toGood (unmarshal_nf C n s.toCell (fun bits refs hw => hC bits refs (by rw [cellWeight_toCell] at hw; exact hw)))
        (fun kvs _ => ?_)
      refine NF.toGood (mapM_nf _ kvs (fun kv _ => hk n rfl kv.1)) (fun ks _ => ?_)
      exact Good.ok (dictRest_weight n vdec s hv)

theorem unmarshalAugE_nf (xdec : Hashmap.XDec Val) (zero : Val) (C : Hashmap.Codec Val) (n : Nat) (c : Cell)
    (hX : XGood (cellWeight c) xdec) (hC : ∀ bits refs, bw bits refs + 1 ≤ cellWeight c → NF (C.dec bits refs)) :
    NF (Hashmap.unmarshalAugE xdec zero C n c) := by
  obtain ⟨ty, mask, bits, refs⟩ := c
  rw [cellWeight_mk] at hX hC
  unfold Hashmap.unmarshalAugE
  split
  · exact NF.err (by decide)
  · simp only [Cell.bits, Cell.refs]
    cases bits with
    | nil => exact NF.err (by decide)
    | cons b rest =>
      cases b with
      | false =>
        dsimp only
        have hx := (hX rest refs (by simp only [bw, List.length_cons]; omega)).1
        cases hxv : xdec rest refs with
        | ok y => obtain ⟨y, _, _⟩ := y; exact NF.ok _
        | err e => rw [hxv] at hx; exact hx
        | panic e => rw [hxv] at hx; exact hx
      | true =>
        dsimp only
        cases refs with
        | nil => exact NF.err (by decide)
        | cons r refs' =>
          dsimp only
          have hm : NF (if r.ty = tyPruned then Outcome.ok ([], Hashmap.AugExtras.leaf zero)
              else Hashmap.unmarshalAug xdec zero C n r) := by
            split
            · exact NF.ok _
            · unfold Hashmap.unmarshalAug
              split
              · exact NF.err (by decide)
              · refine mapInnerAug_nf xdec zero C n (cellWeight r) ?_ ?_ (n + 1) n r [] (Nat.le_refl _) (by simp) (by simp)
                · intro b' r' hw
                  exact hX b' r' (by simp only [refsWeight, List.length_cons] at hw ⊢; omega)
                · intro b' r' hw
                  exact hC b' r' (by simp only [refsWeight, List.length_cons] at hw ⊢; omega)
          cases hmv : (if r.ty = tyPruned then Outcome.ok ([], Hashmap.AugExtras.leaf zero)
              else Hashmap.unmarshalAug xdec zero C n r) with
          | err e => rw [hmv] at hm; exact hm
          | panic e => rw [hmv] at hm; exact hm
          | ok kx =>
            obtain ⟨kvs, xs⟩ := kx
            dsimp only
            have hx := (hX rest refs' (by simp only [bw, refsWeight, List.length_cons]; omega)).1
            cases hxv : xdec rest refs' with
            | ok y => obtain ⟨y, _, _⟩ := y; exact NF.ok _
            | err e => rw [hxv] at hx; exact hx
            | panic e => rw [hxv] at hx; exact hx

/-- HashmapAugE -/
theorem good_decodeDictAugE (n : Nat) (kdec : Hashmap.Key → Outcome Val) (C : Hashmap.Codec Val)
    (xdec : Slice → Outcome (Val × Slice)) (s : Slice)
    (hk : ∀ key, NF (kdec key)) (hC : ∀ bits refs, bw bits refs + 1 ≤ weight s → NF (C.dec bits refs))
    (hx : ∀ s', weight s' + 1 ≤ weight s → Good (weight s') (xdec s')) :
    Good (weight s) (decodeDictAugE n kdec C xdec s) := by
  unfold decodeDictAugE
  refine NF.toGood (unmarshalAugE_nf (skipExtra xdec) Val.nil C n s.toCell
    (by rw [cellWeight_toCell]; exact skipExtra_xgood xdec (weight s) hx)
    (by rw [cellWeight_toCell]; exact hC)) (fun r _ => ?_)
  obtain ⟨kvs, _, _⟩ := r
  dsimp only
  refine NF.toGood (mapM_nf _ kvs (fun kv _ => hk kv.1)) (fun ks _ => ?_)
  refine Good.bind_eq (good_readBit s (Nat.le_refl _)) (fun ne s1 he hs => ?_)
  have hb := readBit_lt he
  dsimp only
  cases ne with
  | false =>
    simp only [Bool.false_eq_true, ↓reduceIte, bind, Outcome.bind]
    refine Good.bind ((hx s1 (by omega)).mono (by omega)) (fun xv s3 hs3 => Good.ok hs3)
  | true =>
    simp only [↓reduceIte]
    cases hn : s1.nextRef with
    | err e =>
      have := good_nextRef s1 hs
      rw [hn] at this
      exact ⟨rfl, by simpa [bind, Outcome.bind, fuelOut] using this.2.1, by intro v s' h; cases h⟩
    | panic e =>
      have := (good_nextRef s1 hs).1
      rw [hn] at this; simp [Outcome.isPanic] at this
    | ok r =>
      obtain ⟨c, s2⟩ := r
      have hc := nextRef_child hn
      simp only [bind, Outcome.bind]
      refine Good.bind ((hx s2 (by omega)).mono (by omega)) (fun xv s3 hs3 => Good.ok hs3)

theorem dictAugRest_weight (n : Nat) (xdec vdec : Slice → Outcome (Val × Slice)) (s : Slice)
    (hx : ∀ s', weight s' + 1 ≤ weight s → Good (weight s') (xdec s'))
    (hv : ∀ s', weight s' + 1 ≤ weight s → Good (weight s') (vdec s')) :
    weight (dictAugRest n xdec vdec s) ≤ weight s := by
  unfold dictAugRest
  obtain ⟨_, hsp⟩ := loadLabel_spec n n [] s.bits
  cases hl : Hashmap.loadLabel n n [] s.bits with
  | err e => simp [emptied_weight]
  | panic e => simp [emptied_weight]
  | ok r =>
    obtain ⟨size, pfx, rest⟩ := r
    obtain ⟨_, _, hp3⟩ := hsp size pfx rest hl
    dsimp only
    split
    · have hd2 := refsWeight_drop s.refs 2
      have hw : weight ({ s with bits := rest, refs := s.refs.drop 2 } : Slice) + 1 ≤ weight s := by
        simp only [weight]; omega
      have hg := hx _ hw
      cases hd : xdec { s with bits := rest, refs := s.refs.drop 2 } with
      | ok r2 =>
        obtain ⟨v, s'⟩ := r2
        rw [hd] at hg
        have := hg.2.2 v s' rfl
        dsimp only; omega
      | err e => dsimp only; simp [emptied_weight]
      | panic e => dsimp only; simp [emptied_weight]
    · have hw : weight ({ s with bits := rest } : Slice) + 1 ≤ weight s := by simp only [weight]; omega
      have hg := hx _ hw
      cases hd : xdec { s with bits := rest } with
      | ok r2 =>
        obtain ⟨v, s1⟩ := r2
        rw [hd] at hg
        have h1 := hg.2.2 v s1 rfl
        dsimp only
        have hg2 := hv s1 (by omega)
        cases hd2 : vdec s1 with
        | ok r3 =>
          obtain ⟨v2, s2⟩ := r3
          rw [hd2] at hg2
          have := hg2.2.2 v2 s2 rfl
          dsimp only; omega
        | err e => dsimp only; simp [emptied_weight]
        | panic e => dsimp only; simp [emptied_weight]
      | err e => dsimp only; simp [emptied_weight]
      | panic e => dsimp only; simp [emptied_weight]

/-- HashmapAug read from the current cell -/
theorem good_decodeDictAug (n : Nat) (kdec : Hashmap.Key → Outcome Val) (C : Hashmap.Codec Val)
    (xdec vdec : Slice → Outcome (Val × Slice)) (s : Slice)
    (hk : ∀ key, NF (kdec key)) (hC : ∀ bits refs, bw bits refs + 1 ≤ weight s → NF (C.dec bits refs))
    (hx : ∀ s', weight s' + 1 ≤ weight s → Good (weight s') (xdec s'))
    (hv : ∀ s', weight s' + 1 ≤ weight s → Good (weight s') (vdec s')) :
    Good (weight s) (decodeDictAug n kdec C xdec vdec s) := by
  unfold decodeDictAug
  split
  · exact Good.ok (Nat.le_refl _)
  · have hm := mapInnerAug_nf (skipExtra xdec) Val.nil C n (weight s) (skipExtra_xgood xdec (weight s) hx) hC (n + 1) n
      s.toCell [] (by rw [cellWeight_toCell]; exact Nat.le_refl _) (by simp) (by simp)
    refine NF.toGood hm (fun r _ => ?_)
    obtain ⟨kvs, _⟩ := r
    dsimp only
    refine NF.toGood (mapM_nf _ kvs (fun kv _ => hk kv.1)) (fun ks _ => ?_)
    exact Good.ok (dictAugRest_weight n xdec vdec s hx hv)

/-- decodeRecursiveBinTree: with more fuel than the slice weighs it never runs out, and every leaf is lighter than
the slice -/
theorem binLeaves_nf : ∀ (fuel : Nat) (s : Slice), weight s < fuel →
    NF (binLeaves fuel s) ∧ ∀ ls, binLeaves fuel s = .ok ls → ∀ l ∈ ls, weight l + 1 ≤ weight s
  | 0, s, h => by omega
  | fuel + 1, s, h => by
    simp only [binLeaves]
    cases hb : s.readBit with
    | err e =>
      have := good_readBit s (Nat.le_refl _)
      rw [hb] at this
      exact ⟨⟨rfl, by simpa [bind, Outcome.bind, fuelOut] using this.2.1⟩, by intro ls h; cases h⟩
    | panic e =>
      have := (good_readBit s (Nat.le_refl (weight s))).1
      rw [hb] at this; simp [Outcome.isPanic] at this
    | ok r =>
      obtain ⟨br, s1⟩ := r
      have h1 := readBit_lt hb
      simp only [bind, Outcome.bind]
      cases br with
      | false =>
        simp only [Bool.not_false, ↓reduceIte, pure]
        refine ⟨NF.ok _, ?_⟩
        intro ls h l hl
        simp only [Outcome.ok.injEq] at h
        subst h
        simp only [List.mem_singleton] at hl
        subst hl; exact h1
      | true =>
        simp only [Bool.not_true, Bool.false_eq_true, ↓reduceIte]
        cases hn : s1.nextRef with
        | err e =>
          have := good_nextRef s1 (Nat.le_refl _)
          rw [hn] at this
          exact ⟨⟨rfl, by simpa [fuelOut] using this.2.1⟩, by intro ls h; cases h⟩
        | panic e =>
          have := (good_nextRef s1 (Nat.le_refl (weight s1))).1
          rw [hn] at this; simp [Outcome.isPanic] at this
        | ok r1 =>
          obtain ⟨l, s2⟩ := r1
          have hc := nextRef_child hn
          dsimp only
          obtain ⟨hl1, hl2⟩ := binLeaves_nf fuel (Slice.ofCell l) (by rw [weight_ofCell]; omega)
          cases hls : binLeaves fuel (Slice.ofCell l) with
          | err e => rw [hls] at hl1; exact ⟨hl1, by intro ls h; cases h⟩
          | panic e => rw [hls] at hl1; exact ⟨hl1, by intro ls h; cases h⟩
          | ok ls1 =>
            dsimp only
            cases hn2 : s2.nextRef with
            | err e =>
              have := good_nextRef s2 (Nat.le_refl _)
              rw [hn2] at this
              exact ⟨⟨rfl, by simpa [fuelOut] using this.2.1⟩, by intro ls h; cases h⟩
            | panic e =>
              have := (good_nextRef s2 (Nat.le_refl (weight s2))).1
              rw [hn2] at this; simp [Outcome.isPanic] at this
            | ok r2 =>
              obtain ⟨r, s3⟩ := r2
              have hc2 := nextRef_child hn2
              dsimp only
              obtain ⟨hr1, hr2⟩ := binLeaves_nf fuel (Slice.ofCell r) (by rw [weight_ofCell]; omega)
              cases hrs : binLeaves fuel (Slice.ofCell r) with
              | err e => rw [hrs] at hr1; exact ⟨hr1, by intro ls h; cases h⟩
              | panic e => rw [hrs] at hr1; exact ⟨hr1, by intro ls h; cases h⟩
              | ok ls2 =>
                dsimp only
                refine ⟨NF.ok _, ?_⟩
                intro ls h x hx
                simp only [pure, Outcome.ok.injEq] at h
                subst h
                rcases List.mem_append.1 hx with hx | hx
                · have := hl2 ls1 hls x hx
                  rw [weight_ofCell] at this; omega
                · have := hr2 ls2 hrs x hx
                  rw [weight_ofCell] at this; omega

theorem mapM_nf_mem {α β} (f : α → Outcome β) (l : List α) (h : ∀ a ∈ l, NF (f a)) : NF (mapMOutcome f l) :=
  mapM_nf f l h

theorem good_to_nf_fst (x : Outcome (Val × Slice)) {w : Nat} (h : Good w x) : NF (x.bind fun r => Outcome.ok r.1) := by
  cases x with
  | ok r => exact NF.ok _
  | err e => exact ⟨rfl, h.2.1⟩
  | panic e => have := h.1; simp [Outcome.isPanic] at this

/-- BinTree -/
theorem good_decodeBinTree (fuel : Nat) (tdec : Slice → Outcome (Val × Slice)) (s : Slice) (hf : weight s < fuel)
    (ht : ∀ s', weight s' + 1 ≤ weight s → Good (weight s') (tdec s')) :
    Good (weight s) (decodeBinTree fuel tdec s) := by
  unfold decodeBinTree
  obtain ⟨hnf, hl⟩ := binLeaves_nf fuel s hf
  refine NF.toGood hnf (fun leaves hle => ?_)
  refine NF.toGood (mapM_nf _ leaves (fun l hm => good_to_nf_fst _ (ht l (hl leaves hle l hm)))) (fun vs _ => ?_)
  refine Good.ok ?_
  cases hb : s.readBit with
  | err e => simp [emptied_weight]
  | panic e => simp [emptied_weight]
  | ok r =>
    obtain ⟨b, s1⟩ := r
    have h1 := readBit_lt hb
    cases b with
    | false =>
      dsimp only
      have hg := ht s1 h1
      cases hd : tdec s1 with
      | ok r2 =>
        obtain ⟨v, s2⟩ := r2
        rw [hd] at hg
        have := hg.2.2 v s2 rfl
        dsimp only; omega
      | err e => dsimp only; simp [emptied_weight]
      | panic e => dsimp only; simp [emptied_weight]
    | true =>
      dsimp only
      have := refsWeight_drop s1.refs 2
      simp only [weight] at h1 ⊢; omega

/-! ### the hand decoders with flag-dependent layout -/

theorem auxAt_nf (aux : Ty) (i : Nat) : NF (aux.auxAt i) := by
  unfold Ty.auxAt
  split
  · split
    · exact NF.ok _
    · exact NF.err (by decide)
  · exact NF.err (by decide)

theorem valBool_nf (v : Option Val) : NF (valBool v) := by
  unfold valBool; split
  · exact NF.ok _
  · exact NF.err (by decide)

theorem valNat_nf (v : Option Val) : NF (valNat v) := by
  unfold valNat; split
  · exact NF.ok _
  · exact NF.err (by decide)

/-- the component decoders of a hand decoder: genuine answers that only consume, on everything not heavier than `w` -/
def DecOK (w : Nat) (dec : DecFn) (aux : Ty) : Prop :=
  ∀ i T' s', aux.auxAt i = .ok T' → weight s' ≤ w → Good (weight s') (dec T' s')

theorem DecOK.at {w : Nat} {dec : DecFn} {aux : Ty} (h : DecOK w dec aux) {i : Nat} {T' : Ty} (hi : aux.auxAt i = .ok T')
    {s' : Slice} (hs : weight s' ≤ w) : Good w (dec T' s') := (h i T' s' hi hs).mono hs

/-- a decoded value wrapped, the rest kept -/
theorem good_wrap {w : Nat} {x : Outcome (Val × Slice)} (hx : Good w x) (f : Val → Val) :
    Good w (x.bind fun r => Outcome.ok (f r.1, r.2)) := by
  cases x with
  | ok r => exact Good.ok (hx.2.2 r.1 r.2 rfl)
  | err e => exact ⟨rfl, hx.2.1, by intro v s' h; cases h⟩
  | panic e => have := hx.1; simp [Outcome.isPanic] at this

theorem nf_decBlkPrev {w : Nat} {dec : DecFn} {aux : Ty} (hd : DecOK w dec aux) {i : Nat} {ext : Ty}
    (hi : aux.auxAt i = .ok ext) (isBlks : Bool) (c : Slice) (hc : weight c ≤ w) : NF (decBlkPrev dec ext isBlks c) := by
  unfold decBlkPrev
  cases isBlks with
  | true =>
    simp only [↓reduceIte]
    refine NF.bind (good_nextRef c (Nat.le_refl _)).nf (fun r1 h1 => ?_)
    obtain ⟨r1, c1⟩ := r1
    have hc1 := nextRef_child h1
    dsimp only
    refine NF.bind (hd.at hi (s' := Slice.ofCell r1) (by rw [weight_ofCell]; omega)).nf (fun p1 _ => ?_)
    obtain ⟨p1, _⟩ := p1
    dsimp only
    refine NF.bind (good_nextRef c1 (Nat.le_refl _)).nf (fun r2 h2 => ?_)
    obtain ⟨r2, c2⟩ := r2
    have hc2 := nextRef_child h2
    dsimp only
    refine NF.bind (hd.at hi (s' := Slice.ofCell r2) (by rw [weight_ofCell]; omega)).nf (fun p2 _ => ?_)
    exact NF.ok _
  | false =>
    simp only [Bool.false_eq_true, ↓reduceIte]
    refine NF.bind (hd.at hi hc).nf (fun p _ => ?_)
    exact NF.ok _

theorem nthOr_nf (v : Val) (i : Nat) : NF (nthOr v i) := by
  unfold nthOr; split
  · exact NF.ok _
  · exact NF.err (by decide)

theorem good_optHere {w : Nat} {dec : DecFn} {aux : Ty} (hd : DecOK w dec aux) {i : Nat} {T : Ty}
    (hi : aux.auxAt i = .ok T) (c : Bool) (s : Slice) (hs : weight s ≤ w) : Good w (optHere c dec T s) := by
  unfold optHere
  split
  · exact good_wrap (hd.at hi hs) _
  · exact Good.ok hs

theorem good_optRef {w : Nat} (c : Bool) (f : Slice → Outcome Val) (s : Slice) (hs : weight s ≤ w)
    (hf : ∀ s', weight s' ≤ w → NF (f s')) : Good w (optRef c f s) := by
  unfold optRef
  split
  · cases hn : s.nextRef with
    | err e =>
      have := good_nextRef s hs
      rw [hn] at this
      exact ⟨rfl, by simpa [Outcome.bind, fuelOut] using this.2.1, by intro v s' h; cases h⟩
    | panic e =>
      have := (good_nextRef s hs).1
      rw [hn] at this; simp [Outcome.isPanic] at this
    | ok r =>
      obtain ⟨c1, s1⟩ := r
      have hc := nextRef_child hn
      have hnf := hf (Slice.ofCell c1) (by rw [weight_ofCell]; omega)
      simp only [Outcome.bind]
      cases hv : f (Slice.ofCell c1) with
      | ok v => exact Good.ok (by omega)
      | err e => rw [hv] at hnf; exact ⟨rfl, hnf.2, by intro v s' h; cases h⟩
      | panic e => rw [hv] at hnf; have := hnf.1; simp [Outcome.isPanic] at this
  · exact Good.ok hs

theorem good_orZero {w : Nat} {dec : DecFn} {aux : Ty} (hd : DecOK w dec aux) {i : Nat} {T : Ty}
    (hi : aux.auxAt i = .ok T) (c : Bool) (zero : Ty → Val) (s : Slice) (hs : weight s ≤ w) :
    Good w (orZero c dec zero T s) := by
  unfold orZero
  split
  · exact hd.at hi hs
  · exact Good.ok hs

theorem good_optRefZero {w : Nat} {dec : DecFn} {aux : Ty} (hd : DecOK w dec aux) {i : Nat} {T : Ty}
    (hi : aux.auxAt i = .ok T) (zero : Ty → Val) (s : Slice) (hs : weight s ≤ w) :
    Good w (optRefZero dec zero T s) := by
  unfold optRefZero
  cases hn : s.nextRef with
  | err e => exact Good.ok hs
  | panic e =>
    have := (good_nextRef s hs).1
    rw [hn] at this; simp [Outcome.isPanic] at this
  | ok r =>
    obtain ⟨c1, s1⟩ := r
    have hc := nextRef_child hn
    dsimp only
    have hg := hd.at hi (s' := Slice.ofCell c1) (by rw [weight_ofCell]; omega)
    cases hv : dec T (Slice.ofCell c1) with
    | ok v => exact Good.ok (by omega)
    | err e => rw [hv] at hg; exact ⟨rfl, hg.2.1, by intro v s' h; cases h⟩
    | panic e => rw [hv] at hg; have := hg.1; simp [Outcome.isPanic] at this

theorem good_decBlockInfo {dec : DecFn} {aux : Ty} (s : Slice) (hd : DecOK (weight s) dec aux) :
    Good (weight s) (decBlockInfo dec aux s) := by
  unfold decBlockInfo
  refine NF.toGood (auxAt_nf aux 0) (fun hdr h0 => ?_)
  refine NF.toGood (auxAt_nf aux 1) (fun gv h1 => ?_)
  refine NF.toGood (auxAt_nf aux 2) (fun bmi h2 => ?_)
  refine NF.toGood (auxAt_nf aux 3) (fun ext h3 => ?_)
  refine Good.bind (hd.at h0 (Nat.le_refl _)) (fun d s1 hs1 => ?_)
  dsimp only
  refine NF.toGood (nthOr_nf d 1) (fun part _ => ?_)
  refine NF.toGood (valBool_nf _) (fun notMaster _ => ?_)
  refine NF.toGood (valBool_nf _) (fun afterMerge _ => ?_)
  refine NF.toGood (valBool_nf _) (fun vert _ => ?_)
  refine NF.toGood (valNat_nf _) (fun flags _ => ?_)
  refine Good.bind (good_optHere hd h1 _ s1 hs1) (fun gs s2 hs2 => ?_)
  dsimp only
  refine Good.bind (good_optRef notMaster _ s2 hs2 (fun s' hs' => good_to_nf_fst _ (hd.at h2 hs'))) (fun mr s3 hs3 => ?_)
  dsimp only
  refine Good.bind_eq ((good_nextRef s3 (Nat.le_refl _)).mono hs3) (fun r s4 hn hs4 => ?_)
  have hc := nextRef_child hn
  dsimp only
  refine NF.toGood (nf_decBlkPrev hd h3 afterMerge (Slice.ofCell r) (by rw [weight_ofCell]; omega)) (fun prev _ => ?_)
  refine Good.bind (good_optRef vert _ s4 hs4 (fun s' hs' => nf_decBlkPrev hd h3 false s' hs')) (fun pv s5 hs5 => ?_)
  exact Good.ok hs5

theorem nf_decFour {w : Nat} {dec : DecFn} {aux : Ty} (hd : DecOK w dec aux) {i : Nat} {cc : Ty}
    (hi : aux.auxAt i = .ok cc) (g : Slice) (hg : weight g ≤ w) : NF (decFour dec cc g) := by
  unfold decFour
  have h1 := hd i cc g hi hg
  refine NF.bind h1.nf (fun r1 e1 => ?_)
  obtain ⟨a, g1⟩ := r1
  have w1 := h1.2.2 a g1 e1
  dsimp only
  have h2 := hd i cc g1 hi (by omega)
  refine NF.bind h2.nf (fun r2 e2 => ?_)
  obtain ⟨b, g2⟩ := r2
  have w2 := h2.2.2 b g2 e2
  dsimp only
  have h3 := hd i cc g2 hi (by omega)
  refine NF.bind h3.nf (fun r3 e3 => ?_)
  obtain ⟨c, g3⟩ := r3
  have w3 := h3.2.2 c g3 e3
  dsimp only
  have h4 := hd i cc g3 hi (by omega)
  refine NF.bind h4.nf (fun r4 _ => ?_)
  exact NF.ok _

theorem good_decValueFlow {dec : DecFn} {aux : Ty} (s : Slice) (hd : DecOK (weight s) dec aux) :
    Good (weight s) (decValueFlow dec aux s) := by
  unfold decValueFlow
  refine NF.toGood (auxAt_nf aux 0) (fun cc h0 => ?_)
  refine Good.bind (good_readUint s 32 (Nat.le_refl _)) (fun tag s1 hs1 => ?_)
  dsimp only
  split
  · exact Good.err (by decide)
  · refine Good.bind_eq ((good_nextRef s1 (Nat.le_refl _)).mono hs1) (fun g1 s2 hn hs2 => ?_)
    have hc := nextRef_child hn
    dsimp only
    refine Good.bind (hd.at h0 hs2) (fun fees s3 hs3 => ?_)
    dsimp only
    refine NF.toGood (nf_decFour hd h0 (Slice.ofCell g1) (by rw [weight_ofCell]; omega)) (fun q _ => ?_)
    obtain ⟨a, b, c, d⟩ := q
    dsimp only
    refine Good.bind (good_optHere hd h0 _ s3 hs3) (fun burned s4 hs4 => ?_)
    dsimp only
    refine Good.bind_eq ((good_nextRef s4 (Nat.le_refl _)).mono hs4) (fun g2 s5 hn2 hs5 => ?_)
    have hc2 := nextRef_child hn2
    dsimp only
    refine NF.toGood (nf_decFour hd h0 (Slice.ofCell g2) (by rw [weight_ofCell]; omega)) (fun q2 _ => ?_)
    obtain ⟨e, f, g, h⟩ := q2
    exact Good.ok hs5

theorem nf_decSide {w : Nat} {dec : DecFn} {aux : Ty} (hd : DecOK w dec aux) {i : Nat} {T : Ty}
    (hi : aux.auxAt i = .ok T) (zero : Ty → Val) (c : Cell) (hc : cellWeight c ≤ w) : NF (decSide dec zero T c) := by
  unfold decSide
  split
  · exact NF.ok _
  · exact good_to_nf_fst _ (hd.at hi (s' := Slice.ofCell c) (by rw [weight_ofCell]; exact hc))

theorem good_decShardState {dec : DecFn} {aux : Ty} (zero : Ty → Val) (s : Slice) (hd : DecOK (weight s) dec aux) :
    Good (weight s) (decShardState dec zero aux s) := by
  unfold decShardState
  refine NF.toGood (auxAt_nf aux 0) (fun unsplit h0 => ?_)
  refine NF.toGood (auxAt_nf aux 1) (fun data h1 => ?_)
  refine Good.bind (good_readUint s 32 (Nat.le_refl _)) (fun tag s1 hs1 => ?_)
  dsimp only
  split
  · refine Good.bind_eq ((good_nextRef s1 (Nat.le_refl _)).mono hs1) (fun c1 s2 hn hs2 => ?_)
    have hc := nextRef_child hn
    dsimp only
    refine NF.toGood (nf_decSide hd h0 zero c1 (by omega)) (fun l _ => ?_)
    refine Good.bind_eq ((good_nextRef s2 (Nat.le_refl _)).mono hs2) (fun c2 s3 hn2 hs3 => ?_)
    have hc2 := nextRef_child hn2
    dsimp only
    refine NF.toGood (nf_decSide hd h0 zero c2 (by omega)) (fun r _ => ?_)
    exact Good.ok hs3
  · split
    · refine Good.bind (hd.at h1 hs1) (fun d s2 hs2 => ?_)
      exact Good.ok hs2
    · exact Good.err (by decide)

theorem good_decMcStateExtraOther {dec : DecFn} {aux : Ty} (zero : Ty → Val) (s : Slice)
    (hd : DecOK (weight s) dec aux) : Good (weight s) (decMcStateExtraOther dec zero aux s) := by
  unfold decMcStateExtraOther
  refine NF.toGood (auxAt_nf aux 1) (fun vi h1 => ?_)
  refine NF.toGood (auxAt_nf aux 2) (fun pb h2 => ?_)
  refine NF.toGood (auxAt_nf aux 3) (fun akb h3 => ?_)
  refine NF.toGood (auxAt_nf aux 4) (fun lkb h4 => ?_)
  refine NF.toGood (auxAt_nf aux 5) (fun bcs h5 => ?_)
  refine Good.bind (good_readUint s 16 (Nat.le_refl _)) (fun flags s1 hs1 => ?_)
  dsimp only
  refine Good.bind (hd.at h1 hs1) (fun a s2 hs2 => ?_)
  dsimp only
  refine Good.bind (hd.at h2 hs2) (fun b s3 hs3 => ?_)
  dsimp only
  refine Good.bind (hd.at h3 hs3) (fun c s4 hs4 => ?_)
  dsimp only
  refine Good.bind (hd.at h4 hs4) (fun d s5 hs5 => ?_)
  dsimp only
  refine Good.bind (good_orZero hd h5 _ zero s5 hs5) (fun e s6 hs6 => ?_)
  exact Good.ok hs6

theorem good_decMcBlockExtra {dec : DecFn} {aux : Ty} (zero : Ty → Val) (s : Slice)
    (hd : DecOK (weight s) dec aux) : Good (weight s) (decMcBlockExtra dec zero aux s) := by
  unfold decMcBlockExtra
  refine NF.toGood (auxAt_nf aux 1) (fun kb h1 => ?_)
  refine NF.toGood (auxAt_nf aux 2) (fun sh h2 => ?_)
  refine NF.toGood (auxAt_nf aux 3) (fun sf h3 => ?_)
  refine NF.toGood (auxAt_nf aux 4) (fun oth h4 => ?_)
  refine NF.toGood (auxAt_nf aux 5) (fun cfg h5 => ?_)
  refine Good.bind (good_readUint s 16 (Nat.le_refl _)) (fun tag s1 hs1 => ?_)
  dsimp only
  split
  · exact Good.err (by decide)
  · refine Good.bind (hd.at h1 hs1) (fun k s2 hs2 => ?_)
    dsimp only
    refine Good.bind (hd.at h2 hs2) (fun a s3 hs3 => ?_)
    dsimp only
    refine Good.bind (hd.at h3 hs3) (fun b s4 hs4 => ?_)
    dsimp only
    refine Good.bind (good_optRefZero hd h4 zero s4 hs4) (fun o s5 hs5 => ?_)
    dsimp only
    refine NF.toGood (valBool_nf _) (fun isKey _ => ?_)
    refine Good.bind (good_orZero hd h5 isKey zero s5 hs5) (fun c s6 hs6 => ?_)
    exact Good.ok hs6

theorem good_decCryptoSignature {dec : DecFn} {aux : Ty} (s : Slice) (hd : DecOK (weight s) dec aux) :
    Good (weight s) (decCryptoSignature dec aux s) := by
  unfold decCryptoSignature
  refine NF.toGood (auxAt_nf aux 0) (fun data h0 => ?_)
  refine NF.toGood (auxAt_nf aux 1) (fun cert h1 => ?_)
  refine NF.toGood (auxAt_nf aux 2) (fun simple h2 => ?_)
  refine Good.bind (good_readUint s 4 (Nat.le_refl _)) (fun tag s1 hs1 => ?_)
  dsimp only
  split
  · refine Good.bind (hd.at h0 hs1) (fun d s2 hs2 => ?_)
    exact Good.ok hs2
  · split
    · refine Good.bind_eq ((good_nextRef s1 (Nat.le_refl _)).mono hs1) (fun c1 s2 hn hs2 => ?_)
      have hc := nextRef_child hn
      dsimp only
      refine NF.toGood (hd.at h1 (s' := Slice.ofCell c1) (by rw [weight_ofCell]; omega)).nf (fun sc _ => ?_)
      obtain ⟨sc, _⟩ := sc
      dsimp only
      refine Good.bind (hd.at h2 hs2) (fun tk s3 hs3 => ?_)
      exact Good.ok hs3
    · exact Good.err (by decide)

theorem good_decodeCustom {dec : DecFn} {aux : Ty} (zero : Ty → Val) (id : String) (s : Slice)
    (hd : DecOK (weight s) dec aux) : Good (weight s) (decodeCustom dec zero id aux s) := by
  unfold decodeCustom
  split
  · exact good_decBlockInfo s hd
  · split
    · exact good_decValueFlow s hd
    · split
      · exact good_decShardState zero s hd
      · split
        · exact good_decMcStateExtraOther zero s hd
        · split
          · exact good_decMcBlockExtra zero s hd
          · split
            · exact good_decCryptoSignature s hd
            · exact Good.err (by decide)

theorem nthTy_bounds (rk : Nat → Nat) : ∀ (fs : Fields) (i : Nat) (T' : Ty), fs.nthTy i = some T' →
    tdepth T' + 2 ≤ fdepth fs ∧ rk0 rk T' ≤ rk0F rk fs
  | .nil, _, _, h => by simp [Fields.nthTy] at h
  | .cons _ ft t rest, 0, T', h => by
    cases ft <;> simp only [Fields.nthTy, Option.some.injEq, reduceCtorEq] at h
    subst h
    simp only [fdepth, rk0F]
    have hm : 1 + tdepth t ≤ Nat.max (1 + tdepth t) (fdepth rest) := Nat.le_max_left _ _
    exact ⟨by omega, Nat.le_max_left _ _⟩
  | .cons _ ft t rest, i + 1, T', h => by
    simp only [Fields.nthTy] at h
    obtain ⟨h1, h2⟩ := nthTy_bounds rk rest i T' h
    simp only [fdepth, rk0F]
    have hm : fdepth rest ≤ Nat.max (1 + tdepth t) (fdepth rest) := Nat.le_max_right _ _
    exact ⟨by omega, Nat.le_trans h2 (Nat.le_max_right _ _)⟩

theorem auxAt_bounds (rk : Nat → Nat) (aux : Ty) (i : Nat) (T' : Ty) (h : aux.auxAt i = .ok T') :
    tdepth T' + 3 ≤ tdepth aux ∧ rk0 rk T' ≤ rk0 rk aux := by
  unfold Ty.auxAt at h
  split at h
  · rename_i fs
    split at h
    · rename_i t hn
      simp only [Outcome.ok.injEq] at h
      subst h
      obtain ⟨h1, h2⟩ := nthTy_bounds rk fs i _ hn
      simp only [tdepth, rk0]
      exact ⟨by omega, h2⟩
    · cases h
  · cases h


def fldRk (rk : Nat → Nat) (ft : FieldTag) (T : Ty) : Nat :=
  match ft with
  | .plain => rk0 rk T
  | _ => 0

theorem rk0F_cons (rk : Nat → Nat) (n : String) (ft : FieldTag) (t : Ty) (rest : Fields) :
    rk0F rk (.cons n ft t rest) = Nat.max (fldRk rk ft t) (rk0F rk rest) := by
  cases ft <;> rfl

def needFld (k : Consts) (rk : Nat → Nat) (ft : FieldTag) (T : Ty) (s : Slice) : Nat :=
  weight s * k.C + fldRk rk ft T * k.D + tdepth T + 1

def AllGood (env : Env) (rk : Nat → Nat) (k : Consts) (fuel : Nat) : Prop :=
  (∀ T s, need k rk T s ≤ fuel → Good (weight s) (decode env fuel T s)) ∧
  (∀ ft T s, needFld k rk ft T s ≤ fuel → Good (weight s) (decodeField env fuel ft T s)) ∧
  (∀ fs s, needF k rk fs s ≤ fuel → Good (weight s) (decodeFields env fuel fs s)) ∧
  (∀ e depth s, needS k e s ≤ fuel → Good (weight s) (decodeStack env fuel e depth s))

theorem wrap_good {w : Nat} {x : Outcome (Val × Slice)} (hx : Good w x) (f : Val → Val) :
    Good w (x >>= fun (p : Val × Slice) => match p with | (v, s) => pure (f v, s)) :=
  Good.bind hx (fun a s hs => Good.ok hs)

theorem decode_step (env : Env) (rk : Nat → Nat) (k : Consts) (h : EnvOK env rk k) (fuel : Nat)
    (ih : AllGood env rk k fuel) : ∀ T s, need k rk T s ≤ fuel + 1 → Good (weight s) (decode env (fuel + 1) T s) := by
  obtain ⟨ihD, ihFld, ihFs, ihS⟩ := ih
  intro T s hf
  unfold decode
  split
  · exact good_libraryEntry T s (Nat.le_refl _)
  have guard : ∀ (T' : Ty) (s' : Slice), weight s' + 1 ≤ weight s → tdepth T' + 1 ≤ tdepth T →
      Good (weight s) (decode env fuel T' s') := by
    intro T' s' hw hd
    refine (ihD T' s' (call_guard h (base := tdepth T) ?_ hw (by omega))).mono (by omega)
    simp only [need] at hf; omega
  have guard' : ∀ (T' : Ty) (s' : Slice), weight s' + 1 ≤ weight s → tdepth T' + 1 ≤ tdepth T →
      Good (weight s') (decode env fuel T' s') := by
    intro T' s' hw hd
    refine ihD T' s' (call_guard h (base := tdepth T) ?_ hw (by omega))
    simp only [need] at hf; omega
  cases T with
  | uint n => exact Good.bind (good_readUint s n (Nat.le_refl _)) (fun a s1 hs => Good.ok hs)
  | int n => exact Good.bind (good_readInt s n (Nat.le_refl _)) (fun a s1 hs => Good.ok hs)
  | bool => exact Good.bind (good_readBit s (Nat.le_refl _)) (fun a s1 hs => Good.ok hs)
  | bytes n => exact Good.bind (good_readBytes s n (Nat.le_refl _)) (fun a s1 hs => Good.ok hs)
  | cell => exact Good.ok (Nat.le_refl _)
  | ptr m t =>
    exact wrap_good (ihD t s (call_same hf (by simp only [tdepth]; omega) (by simp [rk0]))) _
  | struct fs =>
    refine ihFs fs s ?_
    simp only [need, needF, tdepth, rk0] at hf ⊢; omega
  | sum cs =>
    dsimp only
    have hsel := selectCtor_good cs s.bits
    cases hc : selectCtor cs s.bits with
    | err e => rw [hc] at hsel; exact ⟨rfl, hsel.2, by intro v s' h'; cases h'⟩
    | panic p => rw [hc] at hsel; have := hsel.1; simp [Outcome.isPanic] at this
    | ok r =>
      obtain ⟨name, t, len⟩ := r
      obtain ⟨h1, h2, h3⟩ := selectCtor_spec rk cs s.bits name t len hc
      dsimp only
      refine wrap_good ?_ _
      by_cases hl : len = 0
      · subst hl
        have hr := h3 rfl
        have := Nat.mul_le_mul_right k.D hr
        refine (ihD t _ ?_).mono (weight_drop s 0)
        have hw : weight { s with bits := s.bits.drop 0 } = weight s := by simp [weight]
        simp only [need, tdepth, rk0, hw] at hf ⊢; omega
      · refine guard t _ ?_ (by simp only [tdepth]; omega)
        simp only [weight, List.length_drop]; omega
  | named id =>
    dsimp only
    cases he : env id with
    | none => exact Good.err (by decide)
    | some body =>
      dsimp only
      refine ihD body s ?_
      have h1 := h.depth id body he
      have h2 := mul_step (c := k.D) (h.prod id body he)
      simp only [need, tdepth, rk0] at hf ⊢; omega
  | magic tg => exact good_decodeMagic tg s (Nat.le_refl _)
  | maybe t =>
    refine Good.bind_eq (good_readBit s (Nat.le_refl _)) (fun ex s1 he hs => ?_)
    dsimp only
    split
    · exact wrap_good (guard t s1 (readBit_lt he) (by simp only [tdepth]; omega)) _
    · exact Good.ok hs
  | either l r =>
    refine Good.bind_eq (good_readBit s (Nat.le_refl _)) (fun ex s1 he hs => ?_)
    dsimp only
    split
    · exact wrap_good (guard r s1 (readBit_lt he) (by have : tdepth r ≤ Nat.max (tdepth l) (tdepth r) := Nat.le_max_right _ _; simp only [tdepth]; omega)) _
    · exact wrap_good (guard l s1 (readBit_lt he) (by have : tdepth l ≤ Nat.max (tdepth l) (tdepth r) := Nat.le_max_left _ _; simp only [tdepth]; omega)) _
  | eitherRef t =>
    refine Good.bind_eq (good_readBit s (Nat.le_refl _)) (fun ex s1 he hs => ?_)
    dsimp only
    split
    · refine Good.bind_eq (good_nextRef s1 hs) (fun c s2 hn hs2 => ?_)
      have hc := nextRef_child hn
      have hb := readBit_lt he
      exact Good.sub (guard t (Slice.ofCell c) (by rw [weight_ofCell]; omega) (by simp only [tdepth]; omega)) hs2 _
    · exact wrap_good (guard t s1 (readBit_lt he) (by simp only [tdepth]; omega)) _
  | refT t =>
    refine Good.bind_eq (good_nextRef s (Nat.le_refl _)) (fun c s2 hn hs2 => ?_)
    have hc := nextRef_child hn
    dsimp only
    split
    · exact Good.ok hs2
    · exact Good.sub (guard t (Slice.ofCell c) (by rw [weight_ofCell]; omega) (by simp only [tdepth]; omega)) hs2 id
  | prim p => exact good_primDec p s (Nat.le_refl _)
  | vmStack e =>
    refine Good.bind (good_readUint s 24 (Nat.le_refl _)) (fun depth s1 hs => ?_)
    dsimp only
    split
    · exact Good.ok hs
    · refine Good.bind ((ihS e depth s1 ?_).mono hs) (fun vs s2 hs2 => Good.ok hs2)
      have := Nat.mul_le_mul_right k.C hs
      simp only [need, needS, tdepth, rk0] at hf ⊢; omega
  | dictE kt t =>
    obtain ⟨f', rfl⟩ : ∃ f', fuel = f' + 1 := ⟨fuel - 1, by simp only [need, tdepth] at hf; omega⟩
    have hmx : tdepth t ≤ Nat.max (tdepth kt) (tdepth t) := Nat.le_max_right _ _
    refine good_decodeDictE _ _ _ s (fun n hn key => key_nf env kt n hn f' _) ?_
    exact valueCodec_nf _ (weight s) (fun s' hw => guard' t s' hw (by simp only [tdepth]; omega))
  | dict kt t =>
    obtain ⟨f', rfl⟩ : ∃ f', fuel = f' + 1 := ⟨fuel - 1, by simp only [need, tdepth] at hf; omega⟩
    have hmx : tdepth t ≤ Nat.max (tdepth kt) (tdepth t) := Nat.le_max_right _ _
    have hv : ∀ s', weight s' + 1 ≤ weight s → Good (weight s') (decode env (f' + 1) t s') :=
      fun s' hw => guard' t s' hw (by simp only [tdepth]; omega)
    exact good_decodeDict _ _ _ _ s (fun n hn key => key_nf env kt n hn f' _) (valueCodec_nf _ (weight s) hv) hv
  | chain e =>
    have h1 : Good (weight s) (decode env fuel e s) :=
      ihD e s (call_same hf (by simp only [tdepth]; omega) (by simp [rk0]))
    refine Good.bind_eq h1 (fun x s1 _ hs1 => ?_)
    dsimp only
    cases hn : s1.nextRef with
    | err er => exact Good.ok hs1
    | panic er =>
      have := (good_nextRef s1 (Nat.le_refl (weight s1))).1
      rw [hn] at this; simp [Outcome.isPanic] at this
    | ok r =>
      obtain ⟨next, s2⟩ := r
      have hc := nextRef_child hn
      dsimp only
      have h2 : Good (weight s) (decode env fuel (.chain e) (Slice.ofCell next)) := by
        refine (ihD (.chain e) (Slice.ofCell next) (call_guard h (s := s) (base := tdepth (.chain e)) ?_
          (by rw [weight_ofCell]; omega) (Nat.le_refl _))).mono (by rw [weight_ofCell]; omega)
        simp only [need] at hf; omega
      exact Good.sub h2 (by omega) _
  | highload =>
    have h1 : Good (weight s) (decode env fuel (.dictE (.uint 16) (.prim .any)) s) :=
      ihD _ s (call_same hf (by simp [tdepth]) (by simp [rk0]))
    refine Good.bind h1 (fun d s1 hs1 => ?_)
    dsimp only
    split
    · split
      · exact Good.ok hs1
      · exact Good.err (by decide)
    · exact Good.err (by decide)
  | dictAugE kt t x =>
    obtain ⟨f', rfl⟩ : ∃ f', fuel = f' + 1 := ⟨fuel - 1, by simp only [need, tdepth] at hf; omega⟩
    have hm1 : tdepth t ≤ Nat.max (tdepth kt) (Nat.max (tdepth t) (tdepth x)) :=
      Nat.le_trans (Nat.le_max_left _ _) (Nat.le_max_right _ _)
    have hm2 : tdepth x ≤ Nat.max (tdepth kt) (Nat.max (tdepth t) (tdepth x)) :=
      Nat.le_trans (Nat.le_max_right _ _) (Nat.le_max_right _ _)
    dsimp only
    split
    · exact Good.err (by decide)
    · rename_i n hkw
      exact good_decodeDictAugE n _ _ _ s (fun key => key_nf env kt n hkw f' _)
        (valueCodec_nf _ (weight s) (fun s' hw => guard' t s' hw (by simp only [tdepth]; omega)))
        (fun s' hw => guard' x s' hw (by simp only [tdepth]; omega))
  | dictAug kt t x =>
    obtain ⟨f', rfl⟩ : ∃ f', fuel = f' + 1 := ⟨fuel - 1, by simp only [need, tdepth] at hf; omega⟩
    have hm1 : tdepth t ≤ Nat.max (tdepth kt) (Nat.max (tdepth t) (tdepth x)) :=
      Nat.le_trans (Nat.le_max_left _ _) (Nat.le_max_right _ _)
    have hm2 : tdepth x ≤ Nat.max (tdepth kt) (Nat.max (tdepth t) (tdepth x)) :=
      Nat.le_trans (Nat.le_max_right _ _) (Nat.le_max_right _ _)
    dsimp only
    split
    · exact Good.err (by decide)
    · rename_i n hkw
      have hv : ∀ s', weight s' + 1 ≤ weight s → Good (weight s') (decode env (f' + 1) t s') :=
        fun s' hw => guard' t s' hw (by simp only [tdepth]; omega)
      exact good_decodeDictAug n _ _ _ _ s (fun key => key_nf env kt n hkw f' _) (valueCodec_nf _ (weight s) hv)
        (fun s' hw => guard' x s' hw (by simp only [tdepth]; omega)) hv
  | binTree t =>
    refine good_decodeBinTree fuel _ s ?_ (fun s' hw => guard' t s' hw (by simp only [tdepth]; omega))
    have hC := C_eq k
    have hw : weight s * 2 ≤ weight s * k.C := Nat.mul_le_mul_left _ (by omega)
    simp only [need, tdepth] at hf
    omega
  | custom id body aux =>
    refine good_decodeCustom _ id s ?_
    intro i T' s' hi hs'
    obtain ⟨hd1, hr1⟩ := auxAt_bounds rk aux i T' hi
    refine ihD T' s' ?_
    have hw := Nat.mul_le_mul_right k.C hs'
    have hr := Nat.mul_le_mul_right k.D hr1
    simp only [need, tdepth, rk0] at hf ⊢
    omega
  | encErr id => exact Good.err (by decide)
  | «opaque» id => exact Good.err (by decide)

theorem decodeField_step (env : Env) (rk : Nat → Nat) (k : Consts) (h : EnvOK env rk k) (fuel : Nat)
    (ih : AllGood env rk k fuel) :
    ∀ ft T s, needFld k rk ft T s ≤ fuel + 1 → Good (weight s) (decodeField env (fuel + 1) ft T s) := by
  obtain ⟨ihD, ihFld, ihFs, ihS⟩ := ih
  intro ft T s hf
  unfold decodeField
  split
  · split
    · exact Good.ok (Nat.le_refl _)
    · exact Good.ok (Nat.le_refl _)
    · exact Good.err (by decide)
  have guard : ∀ (s' : Slice), weight s' + 1 ≤ weight s → Good (weight s) (decode env fuel T s') := by
    intro s' hw
    refine (ihD T s' (call_guard h (base := tdepth T + 1) ?_ hw (by omega))).mono (by omega)
    simp only [needFld] at hf; omega
  cases ft with
  | bad => exact Good.err (by decide)
  | plain =>
    dsimp only
    split
    · exact good_decodeMagic _ s (Nat.le_refl _)
    · refine ihD T s ?_
      simp only [needFld, need, fldRk] at hf ⊢; omega
  | maybe =>
    refine Good.bind_eq (good_readBit s (Nat.le_refl _)) (fun ex s1 he hs => ?_)
    dsimp only
    split
    · exact Good.ok hs
    · split
      · exact Good.err (by decide)
      · exact guard s1 (readBit_lt he)
  | maybeRef =>
    refine Good.bind_eq (good_readBit s (Nat.le_refl _)) (fun ex s1 he hs => ?_)
    dsimp only
    split
    · exact Good.ok hs
    · refine Good.bind_eq (good_nextRef s1 hs) (fun c s2 hn hs2 => ?_)
      have hc := nextRef_child hn
      have hb := readBit_lt he
      dsimp only
      split
      · exact Good.err (by decide)
      · split
        · exact Good.ok hs2
        · split
          · exact Good.err (by decide)
          · exact Good.sub (guard (Slice.ofCell c) (by rw [weight_ofCell]; omega)) hs2 id
  | ref =>
    refine Good.bind_eq (good_nextRef s (Nat.le_refl _)) (fun c s2 hn hs2 => ?_)
    have hc := nextRef_child hn
    dsimp only
    split
    · split
      · exact Good.ok hs2
      · exact Good.err (by decide)
    · split
      · exact Good.ok hs2
      · split
        · exact Good.err (by decide)
        · exact Good.sub (guard (Slice.ofCell c) (by rw [weight_ofCell]; omega)) hs2 id

theorem decodeFields_step (env : Env) (rk : Nat → Nat) (k : Consts) (fuel : Nat)
    (ih : AllGood env rk k fuel) :
    ∀ fs s, needF k rk fs s ≤ fuel + 1 → Good (weight s) (decodeFields env (fuel + 1) fs s) := by
  obtain ⟨ihD, ihFld, ihFs, ihS⟩ := ih
  intro fs s hf
  cases fs with
  | nil => unfold decodeFields; exact Good.ok (Nat.le_refl _)
  | cons name ft t rest =>
    unfold decodeFields
    have hm1 : 1 + tdepth t ≤ Nat.max (1 + tdepth t) (fdepth rest) := Nat.le_max_left _ _
    have hm2 : fdepth rest ≤ Nat.max (1 + tdepth t) (fdepth rest) := Nat.le_max_right _ _
    have hr2 : rk0F rk rest ≤ rk0F rk (.cons name ft t rest) := by rw [rk0F_cons]; exact Nat.le_max_right _ _
    have hr1 : fldRk rk ft t ≤ rk0F rk (.cons name ft t rest) := by rw [rk0F_cons]; exact Nat.le_max_left _ _
    have hq1 := Nat.mul_le_mul_right k.D hr1
    have hq2 := Nat.mul_le_mul_right k.D hr2
    refine Good.bind (ihFld ft t s ?_) (fun v s1 hs1 => ?_)
    · simp only [needFld, needF, fdepth] at hf ⊢; omega
    · dsimp only
      refine Good.bind ((ihFs rest s1 ?_).mono hs1) (fun vs s2 hs2 => Good.ok hs2)
      have := Nat.mul_le_mul_right k.C hs1
      simp only [needF, fdepth] at hf ⊢; omega

theorem decodeStack_step (env : Env) (rk : Nat → Nat) (k : Consts) (h : EnvOK env rk k) (fuel : Nat)
    (ih : AllGood env rk k fuel) :
    ∀ e depth s, needS k e s ≤ fuel + 1 → Good (weight s) (decodeStack env (fuel + 1) e depth s) := by
  obtain ⟨ihD, ihFld, ihFs, ihS⟩ := ih
  intro e depth s hf
  unfold decodeStack
  split
  · exact Good.ok (Nat.le_refl _)
  · refine Good.bind_eq (good_nextRef s (Nat.le_refl _)) (fun c s1 hn hs1 => ?_)
    have hc := nextRef_child hn
    dsimp only
    have hC := C_eq k
    have h1 : Good (weight s) (decodeStack env fuel e (depth - 1) (Slice.ofCell c)) := by
      refine (ihS e (depth - 1) (Slice.ofCell c) ?_).mono (by rw [weight_ofCell]; omega)
      have := mul_step (c := k.C) (a := weight (Slice.ofCell c)) (b := weight s) (by rw [weight_ofCell]; omega)
      simp only [needS] at hf ⊢; omega
    refine Good.bind h1 (fun rest sx _ => ?_)
    dsimp only
    have h2 : Good (weight s) (decode env fuel e s1) := by
      refine (ihD e s1 (call_guard h (s := s) (base := tdepth e + 1) ?_ (by omega) (by omega))).mono hs1
      simp only [needS] at hf; omega
    exact Good.bind h2 (fun tos s2 hs2 => Good.ok hs2)

/-- with fuel `need` the decoder never runs out of fuel, never panics, and only consumes -/
theorem allGood (env : Env) (rk : Nat → Nat) (k : Consts) (h : EnvOK env rk k) : ∀ fuel, AllGood env rk k fuel
  | 0 => by
    refine ⟨fun T s hf => ?_, fun ft T s hf => ?_, fun fs s hf => ?_, fun e d s hf => ?_⟩
    · have := tdepth_pos T; simp only [need] at hf; omega
    · simp only [needFld] at hf; omega
    · have := fdepth_pos fs; simp only [needF] at hf; omega
    · simp only [needS] at hf; omega
  | fuel + 1 =>
    have ih := allGood env rk k h fuel
    ⟨decode_step env rk k h fuel ih, decodeField_step env rk k h fuel ih, decodeFields_step env rk k fuel ih,
      decodeStack_step env rk k h fuel ih⟩

/-! ### environments given as lists (the regenerated `envList`) -/

theorem listMax_mem {l : List Nat} {x : Nat} (h : x ∈ l) : x ≤ listMax l := by
  induction l with
  | nil => cases h
  | cons a t ih =>
    simp only [listMax]
    rcases List.mem_cons.mp h with rfl | h2
    · exact Nat.le_max_left _ _
    · exact Nat.le_trans (ih h2) (Nat.le_max_right _ _)

theorem rkOf_le (rks : List Nat) (id : Nat) : rkOf rks id ≤ listMax rks := by
  unfold rkOf
  rw [List.getD_eq_getElem?_getD]
  cases h : rks[id]? with
  | none => simp
  | some v => simp only [Option.getD_some]; exact listMax_mem (List.mem_of_getElem? h)

theorem prodFrom_spec (rks : List Nat) : ∀ (l : List Ty) (off : Nat), prodFrom rks off l = true →
    ∀ i body, l[i]? = some body → rk0 (rkOf rks) body + 1 ≤ rkOf rks (off + i)
  | [], _, _, i, body, h => by simp at h
  | b :: rest, off, hp, i, body, h => by
    simp only [prodFrom, Bool.and_eq_true, decide_eq_true_eq] at hp
    cases i with
    | zero => simp only [List.getElem?_cons_zero, Option.some.injEq] at h; subst h; have := hp.1; simp only [Nat.add_zero]; omega
    | succ j =>
      simp only [List.getElem?_cons_succ] at h
      have := prodFrom_spec rks rest (off + 1) hp.2 j body h
      rw [show off + (j + 1) = off + 1 + j by omega]; exact this

/-- the three hypotheses of the induction follow from the decidable productivity check on the list -/
theorem envOK_of_list (l : List Ty) (rks : List Nat) (hp : prodb l rks = true) :
    EnvOK (envOfList l) (rkOf rks) (constsOf l rks) where
  depth := by
    intro id body h
    simp only [envOfList] at h
    have hm : body ∈ l := List.mem_of_getElem? h
    exact listMax_mem (List.mem_map.mpr ⟨body, hm, rfl⟩)
  rank := by intro id; have := rkOf_le rks id; simp only [constsOf]; omega
  prod := by
    intro id body h
    simp only [envOfList] at h
    have := prodFrom_spec rks l 0 hp id body h
    simpa using this

/-- the decoder of a productive environment, given `need` fuel or more: never a panic, never out of fuel, it only
consumes -/
theorem decode_total_of_prod (l : List Ty) (rks : List Nat) (hp : prodb l rks = true) (T : Ty) (s : Slice) (fuel : Nat)
    (hf : need (constsOf l rks) (rkOf rks) T s ≤ fuel) : Good (weight s) (decode (envOfList l) fuel T s) :=
  (allGood _ _ _ (envOK_of_list l rks hp) fuel).1 T s hf

/-! ### an unproductive environment: the model is out of fuel for EVERY fuel (in Go: unbounded recursion) -/

/-- `type T struct { X *T }` — the shape of tlb.HashMapAugExtraList[T] (Left/Right are plain pointers to the type) -/
def selfPtr : Ty := .struct (.cons "X" .plain (.ptr false (.named 0)) .nil)

theorem selfPtr_diverges (s : Slice) (hl : s.isLibrary = false) : ∀ fuel,
    fuelOut (decode (envOfList [selfPtr]) fuel (.named 0) s) = true ∧
    fuelOut (decode (envOfList [selfPtr]) fuel selfPtr s) = true ∧
    fuelOut (decodeFields (envOfList [selfPtr]) fuel (.cons "X" .plain (.ptr false (.named 0)) .nil) s) = true ∧
    fuelOut (decodeField (envOfList [selfPtr]) fuel .plain (.ptr false (.named 0)) s) = true ∧
    fuelOut (decode (envOfList [selfPtr]) fuel (.ptr false (.named 0)) s) = true
  | 0 => ⟨rfl, rfl, rfl, rfl, rfl⟩
  | fuel + 1 => by
    obtain ⟨h1, h2, h3, h4, h5⟩ := selfPtr_diverges s hl fuel
    have lift : ∀ {α β : Type} (x : Outcome α) (k : α → Outcome β), fuelOut x = true → fuelOut (x >>= k) = true := by
      intro α β x k hx
      cases x with
      | err e => exact hx
      | ok a => simp [fuelOut] at hx
      | panic p => simp [fuelOut] at hx
    refine ⟨?_, ?_, ?_, ?_, ?_⟩
    · unfold decode; simp only [hl, Bool.false_eq_true, if_false, envOfList, List.getElem?_cons_zero]; exact h2
    · unfold decode selfPtr; simp only [hl, Bool.false_eq_true, if_false]; exact h3
    · unfold decodeFields; exact lift _ _ h4
    · unfold decodeField; simp only [hl, Bool.false_eq_true, if_false]; exact h5
    · unfold decode; simp only [hl, Bool.false_eq_true, if_false]; exact lift _ _ h1

/-- … and the productivity check rejects it, whatever ranks are proposed -/
theorem selfPtr_unproductive (rks : List Nat) : prodb [selfPtr] rks = false := by
  simp [prodb, prodFrom, selfPtr, rk0, rk0F]

/-! ### the bound in cells -/

/-- every cell of the tree holds at most 1023 bits (what a bag of cells can carry) -/
def boundedBits : Cell → Bool
  | .mk _ _ bits refs => decide (bits.length ≤ 1023) && boundedList refs
where boundedList : List Cell → Bool
  | [] => true
  | c :: cs => boundedBits c && boundedList cs

mutual
def cells : Cell → Nat
  | .mk _ _ _ refs => 1 + cellsList refs
def cellsList : List Cell → Nat
  | [] => 0
  | c :: cs => cells c + cellsList cs
end

mutual
theorem cellWeight_le_cells : (c : Cell) → boundedBits c = true → cellWeight c + 1 ≤ 1024 * cells c
  | .mk _ _ bits refs, h => by
    simp only [boundedBits, Bool.and_eq_true, decide_eq_true_eq] at h
    have := refsWeight_le_cells refs h.2
    simp only [cellWeight, cells]; omega
theorem refsWeight_le_cells : (l : List Cell) → boundedBits.boundedList l = true → refsWeight l ≤ 1024 * cellsList l
  | [], _ => by simp [refsWeight, cellsList]
  | c :: cs, h => by
    simp only [boundedBits.boundedList, Bool.and_eq_true] at h
    have h1 := cellWeight_le_cells c h.1
    have h2 := refsWeight_le_cells cs h.2
    simp only [refsWeight, cellsList]; omega
end

end Tongo.Tlb.Total
