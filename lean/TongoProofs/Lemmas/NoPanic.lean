import TongoModel.CellRead
/-! "Never panics" as a predicate on outcomes, with the closure rules used to push it through monadic code. -/
namespace Tongo

instance : LawfulMonad Outcome := LawfulMonad.mk' (m := Outcome)
  (id_map := fun x => by cases x <;> rfl)
  (pure_bind := fun _ _ => rfl)
  (bind_assoc := fun x _ _ => by cases x <;> rfl)

/-- the outcome is a value or an error, never a panic -/
def NoPanic {α} (x : Outcome α) : Prop := ∀ p, x ≠ .panic p

namespace NoPanic
variable {α β : Type}

theorem ok (a : α) : NoPanic (Outcome.ok a) := by intro p h; cases h
theorem err (e : String) : NoPanic (Outcome.err e : Outcome α) := by intro p h; cases h
theorem pure' (a : α) : NoPanic (pure a : Outcome α) := ok a

theorem bind {x : Outcome α} {f : α → Outcome β} (hx : NoPanic x) (hf : ∀ a, NoPanic (f a)) : NoPanic (x >>= f) := by
  cases x with
  | ok a => exact hf a
  | err e => exact err e
  | panic p => exact absurd rfl (hx p)

theorem bind' {x : Outcome α} {f : α → Outcome β} (hx : NoPanic x) (hf : ∀ a, NoPanic (f a)) : NoPanic (x.bind f) :=
  bind hx hf

theorem ite {c : Prop} [Decidable c] {a b : Outcome α} (ha : NoPanic a) (hb : NoPanic b) : NoPanic (if c then a else b) := by
  split <;> assumption

theorem not_panic {x : Outcome α} (h : NoPanic x) (p : String) : x ≠ .panic p := h p

end NoPanic

theorem Outcome.bind_eq_ok {α β : Type} {x : Outcome α} {f : α → Outcome β} {b : β} :
    (x >>= f) = .ok b ↔ ∃ a, x = .ok a ∧ f a = .ok b := by
  cases x with
  | ok a => simp
  | err e => simp
  | panic p => simp

theorem Outcome.bind_eq_ok' {α β : Type} {x : Outcome α} {f : α → Outcome β} {b : β} :
    x.bind f = .ok b ↔ ∃ a, x = .ok a ∧ f a = .ok b := Outcome.bind_eq_ok

/-- repeatedly apply the closure rules -/
macro "nopanic" : tactic =>
  `(tactic| repeat (first
      | exact NoPanic.ok _
      | exact NoPanic.err _
      | exact NoPanic.pure' _
      | assumption
      | split))

namespace CellR
theorem readBits_np (r : CellR) (n : Nat) : NoPanic (r.readBits n) := by unfold CellR.readBits; nopanic
theorem readUint_np (r : CellR) (n : Nat) : NoPanic (r.readUint n) := by
  unfold CellR.readUint
  exact NoPanic.bind (readBits_np r n) (by intro a; nopanic)
theorem readBit_np (r : CellR) : NoPanic r.readBit := by unfold CellR.readBit; nopanic
theorem nextRef_np (r : CellR) : NoPanic r.nextRef := by unfold CellR.nextRef; nopanic
theorem readUnary_np : ∀ (fuel : Nat) (r : CellR), NoPanic (CellR.readUnary fuel r)
  | 0, _ => by unfold CellR.readUnary; nopanic
  | fuel + 1, r => by
    unfold CellR.readUnary
    split
    · nopanic
    · nopanic
    · exact NoPanic.bind (readUnary_np fuel _) (by intro a; nopanic)
end CellR

theorem prefixPush_np (cap : Nat) (a b : List Bool) : NoPanic (prefixPush cap a b) := by unfold prefixPush; nopanic

theorem loadLabel_np (cap : Nat) (size : Int) (r : CellR) (pfx : List Bool) : NoPanic (loadLabel cap size r pfx) := by
  unfold loadLabel
  apply NoPanic.bind (CellR.readBit_np _)
  intro a
  split
  · split
    · apply NoPanic.bind (CellR.readUnary_np _ _); intro b
      apply NoPanic.bind (CellR.readBits_np _ _); intro c
      apply NoPanic.bind (prefixPush_np _ _ _); intro d
      nopanic
    · apply NoPanic.bind (CellR.readBit_np _); intro b
      split
      · split
        · apply NoPanic.bind (CellR.readUint_np _ _); intro c
          apply NoPanic.bind (CellR.readBits_np _ _); intro d
          apply NoPanic.bind (prefixPush_np _ _ _); intro e
          nopanic
        · apply NoPanic.bind (CellR.readBit_np _); intro c
          apply NoPanic.bind (CellR.readUint_np _ _); intro d
          apply NoPanic.bind (prefixPush_np _ _ _); intro e
          nopanic

theorem mapInner_np {α} (readVal : CellR → Outcome α) (hv : ∀ r, NoPanic (readVal r)) (keySize : Nat) :
    ∀ (fuel : Nat) (left : Int) (c : Cell) (pfx : List Bool), NoPanic (mapInner readVal keySize fuel left c pfx)
  | 0, _, _, _ => by unfold mapInner; nopanic
  | fuel + 1, left, c, pfx => by
    unfold mapInner
    split
    · nopanic
    · apply NoPanic.bind (loadLabel_np _ _ _ _); intro a
      split
      split
      · apply NoPanic.bind (CellR.nextRef_np _); intro b
        split
        apply NoPanic.bind (prefixPush_np _ _ _); intro lp
        apply NoPanic.bind (mapInner_np readVal hv keySize fuel _ _ _); intro ls
        apply NoPanic.bind (CellR.nextRef_np _); intro d
        split
        apply NoPanic.bind (prefixPush_np _ _ _); intro rp
        apply NoPanic.bind (mapInner_np readVal hv keySize fuel _ _ _); intro rs
        nopanic
      · apply NoPanic.bind (hv _); intro v
        nopanic

theorem readHashmapE_np {α} (readVal : CellR → Outcome α) (hv : ∀ r, NoPanic (readVal r)) (keySize : Nat) (r : CellR) :
    NoPanic (readHashmapE readVal keySize r) := by
  unfold readHashmapE
  apply NoPanic.bind (CellR.readBit_np _); intro a
  split
  split
  · nopanic
  · apply NoPanic.bind (CellR.nextRef_np _); intro b
    split
    split
    · nopanic
    · apply NoPanic.bind (mapInner_np readVal hv keySize _ _ _ _); intro kvs
      nopanic

end Tongo
