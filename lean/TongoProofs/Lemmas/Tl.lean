import TongoModel.Tl.LiteClient
/-! Helper lemmas for the TL schema semantics (properties C09 / C10): byte-level readers undo the byte-level writers. -/
namespace Tongo.Tl
open Tongo (Outcome)

@[simp] theorem le_length (w n : Nat) : (le w n).length = w := by
  induction w generalizing n with
  | zero => rfl
  | succ w ih => simp [le, ih]

theorem unLe_le (w n : Nat) (h : n < 256 ^ w) : unLe (le w n) = n := by
  induction w generalizing n with
  | zero => simp at h; simp [le, unLe, h]
  | succ w ih =>
    have h2 : n / 256 < 256 ^ w := by
      rw [Nat.pow_succ] at h
      exact Nat.div_lt_of_lt_mul (by rw [Nat.mul_comm]; exact h)
    simp only [le, unLe, ih _ h2, UInt8.toNat_ofNat']
    omega

theorem bytes_take_app (a b : Bytes) (n : Nat) (h : a.length = n) : (a ++ b).take n = a := by
  subst h; simp

theorem bytes_drop_app (a b : Bytes) (n : Nat) (h : a.length = n) : (a ++ b).drop n = b := by
  subst h; simp

theorem readN_append (a rest : Bytes) : readN a.length (a ++ rest) = .ok (a, rest) := by
  simp [readN]

theorem readN_append' (n : Nat) (a rest : Bytes) (h : a.length = n) : readN n (a ++ rest) = .ok (a, rest) := by
  subst h; exact readN_append a rest

theorem readLE_le (w n : Nat) (rest : Bytes) (h : n < 256 ^ w) : readLE w (le w n ++ rest) = .ok (n, rest) := by
  simp [readLE, readN_append' w (le w n) rest (le_length w n), unLe_le w n h]

theorem readLE4 (n : Nat) (rest : Bytes) (h : n < 2 ^ 32) : readLE 4 (le 4 n ++ rest) = .ok (n, rest) :=
  readLE_le 4 n rest (by simpa using h)

theorem readLE8 (n : Nat) (rest : Bytes) (h : n < 2 ^ 64) : readLE 8 (le 8 n ++ rest) = .ok (n, rest) :=
  readLE_le 8 n rest (by simpa using h)

theorem encLen_short (n : Nat) (h : n < 254) : encLen n = [UInt8.ofNat n] := by simp [encLen, h]
theorem encLen_long (n : Nat) (h : ¬ n < 254) : encLen n = 254 :: le 3 n := by simp [encLen, h]

theorem readBytes_encBytes (bs rest : Bytes) (h : bs.length < 2 ^ 24) :
    readBytes (encBytes bs ++ rest) = .ok (bs, rest) := by
  by_cases hs : bs.length < 254
  · have hb : (UInt8.ofNat bs.length).toNat = bs.length := by
      simp only [UInt8.toNat_ofNat']; omega
    simp only [encBytes, encLen_short _ hs, List.length_singleton, List.cons_append, List.nil_append,
      List.append_assoc, readBytes, hb, hs, if_true]
    rw [readN_append bs]
    dsimp only
    rw [readN_append' (padLen (1 + bs.length)) _ rest (List.length_replicate ..)]
  · have h254 : (254 : UInt8).toNat = 254 := rfl
    have hl : bs.length < 256 ^ 3 := by simpa using h
    simp only [encBytes, encLen_long _ hs, List.length_cons, le_length, List.cons_append,
      List.append_assoc, readBytes, h254]
    simp only [show ¬ (254 < 254) by omega, if_false, if_true]
    rw [readLE_le 3 bs.length _ hl]
    simp only []
    rw [readN_append bs]
    simp only [show 3 + 1 + bs.length = 4 + bs.length by omega]
    rw [readN_append' (padLen (4 + bs.length)) _ rest (List.length_replicate ..)]

/-! ### dispatch on constructor ids -/

theorem noClash_find (l : List Decl) (h : noClashB l = true) (t c : String) (d : Decl)
    (hf : l.find? (fun e => e.result == t && e.ctor == c) = some d) :
    l.find? (fun e => e.result == t && e.id == d.id) = some d := by
  induction l with
  | nil => simp at hf
  | cons a l ih =>
    simp only [noClashB, Bool.and_eq_true, List.all_eq_true] at h
    simp only [List.find?_cons] at hf ⊢
    by_cases ha : (a.result == t && a.ctor == c) = true
    · simp only [ha] at hf
      have had : a = d := by simpa using hf
      subst had
      have h1 : (a.result == t) = true := by
        simp only [Bool.and_eq_true] at ha; exact ha.1
      simp [h1]
    · have ha' : (a.result == t && a.ctor == c) = false := by simpa using ha
      simp only [ha'] at hf
      have hd := List.mem_of_find?_eq_some hf
      have hp := List.find?_some hf
      have hnc := h.1 d hd
      by_cases hb : (a.result == t && a.id == d.id) = true
      · -- a clashes with d: impossible
        exfalso
        simp only [Bool.and_eq_true, beq_iff_eq] at hb hp
        simp [idClash, hb.1, hb.2, hp.1] at hnc
      · have hb' : (a.result == t && a.id == d.id) = false := by simpa using hb
        simp only [hb']
        exact ih h.2 hf

theorem byId_of_ctorOf (S : Schema) (h : WFSchema S) (t c : String) (d : Decl) (hf : S.ctorOf? t c = some d) :
    S.byId? t d.id = some d := by
  unfold WFSchema wfSchemaB at h
  simp only [Bool.and_eq_true] at h
  exact noClash_find S.types h.1.1.1.1 t c d hf

theorem ctorOf_ctor (S : Schema) (t c : String) (d : Decl) (hf : S.ctorOf? t c = some d) : d.ctor = c := by
  have := List.find?_some hf
  simp only [Bool.and_eq_true, beq_iff_eq] at this
  exact this.2

theorem funcIds_find (l : List Decl) (h : funcIdsDistinctB l = true) (f : String) (d : Decl)
    (hf : l.find? (fun e => e.ctor == f) = some d) : l.find? (fun e => e.id == d.id) = some d := by
  induction l with
  | nil => simp at hf
  | cons a l ih =>
    simp only [funcIdsDistinctB, Bool.and_eq_true, List.all_eq_true] at h
    simp only [List.find?_cons] at hf ⊢
    by_cases ha : (a.ctor == f) = true
    · simp only [ha] at hf
      have had : a = d := by simpa using hf
      subst had
      simp
    · have ha' : (a.ctor == f) = false := by simpa using ha
      simp only [ha'] at hf
      have hd := List.mem_of_find?_eq_some hf
      have hnc := h.1 d hd
      by_cases hb : (a.id == d.id) = true
      · simp [hb] at hnc
      · have hb' : (a.id == d.id) = false := by simpa using hb
        simp only [hb']
        exact ih h.2 hf

theorem funcById_of_func (S : Schema) (h : WFSchema S) (f : String) (d : Decl) (hf : S.func? f = some d) :
    S.funcById? d.id = some d := by
  unfold WFSchema wfSchemaB at h
  simp only [Bool.and_eq_true] at h
  exact funcIds_find S.funcs h.1.1.1.2 f d hf

end Tongo.Tl
