import TongoProofs.Lemmas.AddrRoundtrip
import TongoProofs.Lemmas.ShardAlg
/-! C17 audit additions: shard matching and the anycast rewrite stated on the address BYTES (`AccountID.addr`), and the
Parse∘Encode direction of the shard-id round trip. For all inputs; core Lean only.

* `be64_getMsbD`, `match_account_is_prefix`: `ShardID.MatchAccountID` on the 32 address bytes is a test of the first
  `shardLen m` address bits (byte 0, most significant bit first) against the shard prefix.
* `shard_roundtrip_parse_encode`, `parseShardID_wf`: every well-formed `ShardID` (mask `1…10…0` with `k+1 ≤ 64` low
  zeros, prefix inside the mask) encodes without panic to a non-zero id that parses back to it, and the well-formed
  `ShardID`s are exactly the parser's image (`shard_roundtrip` in ShardAlg.lean is the Encode∘Parse direction).
* `rewriteAddr_bits`: the anycast rewrite of `ton.AccountIDFromTlb` replaces the first `depth` address bits by
  `rewrite_pfx` (most significant first) and leaves the other `256 - depth` bits and the length alone. -/
namespace Tongo.Address
open Tongo.Shard

/-! ### MatchAccountID on the address bytes -/

/-- bit `i` (MSB first) of `binary.BigEndian.Uint64(addr[:8])` is address bit `i`: bit `i % 8` (MSB first) of byte `i / 8` -/
theorem be64_getMsbD (bs : List Byte) (i : Nat) (hi : i < 64) : (be64 bs).getMsbD i = addrBit bs i := by
  unfold be64 addrBit
  simp only [BitVec.getMsbD_append]
  repeat' split
  all_goals (congr 2 <;> omega)

/-- **MatchAccountID on the AccountID bytes is a prefix test**: a parsed shard `m` matches the account iff the first
`shardLen m` (0 … 63) bits of the 32-byte address, byte 0 MSB first, are the first bits of `m`. -/
theorem match_account_is_prefix (m : BitVec 64) (a : AccountID) (hm : m ≠ 0) :
    ∃ s, parseShardID m = some s ∧
      (matchAccountID s a = true ↔ ∀ i, i < shardLen m → addrBit a.addr i = m.getMsbD i) := by
  obtain ⟨s, hs, hiff⟩ := match_is_prefix m (be64 a.addr) hm
  refine ⟨s, hs, ?_⟩
  unfold matchAccountID
  rw [hiff]
  have hlen : shardLen m ≤ 63 := by unfold shardLen; omega
  constructor
  · intro h i hi; rw [← be64_getMsbD _ i (by omega)]; exact h i hi
  · intro h i hi; rw [be64_getMsbD _ i (by omega)]; exact h i hi

/-! ### ParseShardID ∘ Encode -/

/-- a prefix confined to the mask `1…10…0` (k+1 low zeros) has its low k+1 bits clear -/
theorem pfx_low_zero {p : BitVec 64} {k : Nat} (hp : p &&& ~~~(BitVec.allOnes 64 <<< (k + 1)) = 0#64)
    (j : Nat) (hj : j ≤ k) (hj64 : j < 64) : p.getLsbD j = false := by
  have := congrArg (fun v => BitVec.getLsbD v j) hp
  simp only [BitVec.getLsbD_and, BitVec.getLsbD_not, getLsbD_mask, BitVec.getLsbD_zero] at this
  have h1 : ¬ k + 1 ≤ j := by omega
  simpa [-BitVec.getLsbD_eq_getElem, hj64, h1] using this

/-- **ParseShardID ∘ Encode = id** on well-formed shards: mask `^0 << (k+1)` with `k ≤ 63`, prefix confined to the mask.
`Encode` does not panic (shift count `tz(mask) - 1 = k ≥ 0`), its result is non-zero (so `ParseShardID` does not fail)
and parses back to the same `(prefix, mask)`. -/
theorem shard_roundtrip_parse_encode (s : ShardID) (k : Nat) (hk : k ≤ 63)
    (hmask : s.mask = BitVec.allOnes 64 <<< (k + 1)) (hp : s.pfx &&& ~~~s.mask = 0#64) :
    ∃ m, encode s = some m ∧ m ≠ 0 ∧ parseShardID m = some s := by
  obtain ⟨pfx, mask⟩ := s
  simp only at hmask hp
  subst hmask
  have hk64 : k < 64 := by omega
  have hlow := fun j hj hj64 => pfx_low_zero (p := pfx) (k := k) hp j hj hj64
  have hbit : (pfx ||| (1#64 <<< k)).getLsbD k = true := by
    rw [BitVec.getLsbD_or, getLsbD_one_shl]; simp [hk64]
  have hne : pfx ||| (1#64 <<< k) ≠ 0 := ne_zero_of_getLsbD hbit
  have hctz : ctz64 (pfx ||| (1#64 <<< k)) = k := by
    apply Tongo.GoInt.ctz_eq_of hbit
    intro j hj
    have h1 : ¬ k = j := by omega
    rw [BitVec.getLsbD_or, getLsbD_one_shl, hlow j (by omega) (by omega)]; simp [h1]
  refine ⟨pfx ||| (1#64 <<< k), ?_, hne, ?_⟩
  · unfold encode
    simp only [ctz64_mask (k + 1) (by omega)]
    rw [if_neg (by omega)]; rfl
  · rw [parseShardID_of_ne hne, hctz]
    congr 2
    apply BitVec.eq_of_getLsbD_eq
    intro i hi
    rw [BitVec.getLsbD_xor, BitVec.getLsbD_or, getLsbD_one_shl]
    by_cases h2 : k = i
    · subst h2; rw [hlow k (by omega) hk64]; simp
    · simp [h2]

/-- the hypotheses of `shard_roundtrip_parse_encode` describe exactly the image of `ParseShardID` -/
theorem parseShardID_wf (m : BitVec 64) (h : m ≠ 0) :
    ∃ s k, parseShardID m = some s ∧ k ≤ 63 ∧ s.mask = BitVec.allOnes 64 <<< (k + 1) ∧
      s.pfx &&& ~~~s.mask = 0 := by
  have hk := ctz64_lt h
  have hb := getLsbD_ctz64 h
  refine ⟨_, ctz64 m, parseShardID_of_ne h, by omega, rfl, ?_⟩
  apply BitVec.eq_of_getLsbD_eq
  intro j hj
  simp only [BitVec.getLsbD_and, BitVec.getLsbD_not, BitVec.getLsbD_xor, getLsbD_mask, getLsbD_one_shl]
  rcases Nat.lt_trichotomy j (ctz64 m) with h1 | h1 | h1
  · have h2 : ¬ ctz64 m = j := by omega
    simp [h2, getLsbD_of_lt_ctz64 h1]
  · subst h1; simp [-BitVec.getLsbD_eq_getElem, hb, hk]
  · have h2 : ctz64 m + 1 ≤ j := h1
    simp [hj, h2]

/-! ### anycast rewrite on the address bytes -/

/-- big-endian read of 4 bytes: bit `i` MSB-first is address bit `i` -/
theorem be32_getMsbD (bs : List Byte) (i : Nat) (hi : i < 32) :
    (bs.getD 0 0 ++ bs.getD 1 0 ++ bs.getD 2 0 ++ bs.getD 3 0 : BitVec 32).getMsbD i = addrBit bs i := by
  unfold addrBit
  simp only [BitVec.getMsbD_append]
  repeat' split
  all_goals (congr 2 <;> omega)

/-- big-endian write of a 32-bit value as 4 bytes (followed by anything): address bit `i < 32` is bit `i` MSB-first -/
theorem addrBit_be32_bytes (q : BitVec 32) (rest : List Byte) (i : Nat) (hi : i < 32) :
    addrBit ([q.extractLsb' 24 8, q.extractLsb' 16 8, q.extractLsb' 8 8, q.extractLsb' 0 8] ++ rest) i
      = q.getLsbD (31 - i) := by
  unfold addrBit
  have h8 : i % 8 < 8 := Nat.mod_lt _ (by omega)
  have hc : i / 8 = 0 ∨ i / 8 = 1 ∨ i / 8 = 2 ∨ i / 8 = 3 := by omega
  rcases hc with hc | hc | hc | hc <;> rw [hc] <;>
    simp only [List.cons_append, List.getD_cons_zero, List.getD_cons_succ, BitVec.getMsbD, BitVec.getLsbD_extractLsb'] <;>
    (have h7 : 8 - 1 - i % 8 < 8 := by omega
     simp only [h8, h7, decide_true, Bool.true_and]; congr 1; omega)

/-- address bits from position 32 on live in the bytes after the first four -/
theorem addrBit_drop4 (x0 x1 x2 x3 : Byte) (addr : List Byte) (i : Nat) (hi : 32 ≤ i) :
    addrBit ([x0, x1, x2, x3] ++ addr.drop 4) i = addrBit addr i := by
  unfold addrBit
  obtain ⟨n, hn⟩ : ∃ n, i / 8 = n + 4 := ⟨i / 8 - 4, by omega⟩
  rw [hn]
  simp only [List.cons_append, List.nil_append, List.getD_cons_succ]
  congr 1
  simp only [List.getD_eq_getElem?_getD, List.getElem?_drop]
  rw [Nat.add_comm 4 n]

/-- **the anycast rewrite on the 32 address bytes**: for a TL-B `Anycast` depth `1 ≤ d ≤ 30` the rewritten address still
has 32 bytes, its first `d` bits (byte 0 MSB first) are the `d` bits of `rewrite_pfx` (most significant first) and
every other bit is the bit of the original address. (`hp` is the TL-B range of `rewrite_pfx:(bits depth)`.) -/
theorem rewriteAddr_bits (addr : List Byte) (h : addr.length = 32) (d : Nat) (p : BitVec 32) (h1 : 1 ≤ d)
    (h30 : d ≤ 30) (hp : p.toNat < 2 ^ d) :
    (rewriteAddr addr (BitVec.ofNat 32 d) p).length = 32 ∧
      ∀ i, i < 256 → addrBit (rewriteAddr addr (BitVec.ofNat 32 d) p) i =
        if i < d then p.getLsbD (d - 1 - i) else addrBit addr i := by
  constructor
  · simp only [rewriteAddr, List.length_append, List.length_cons, List.length_nil, List.length_drop, h]
  · intro i _
    obtain ⟨htop, hlow⟩ := anycast_rewrite (addr.getD 0 0 ++ addr.getD 1 0 ++ addr.getD 2 0 ++ addr.getD 3 0) p d h1 h30 hp
    simp only [rewriteAddr, anycastRewriteExec_eq]
    rcases Nat.lt_or_ge i 32 with hi | hi
    · rw [addrBit_be32_bytes _ _ i hi]
      split
      · rename_i hid
        have := congrArg (fun v => BitVec.getLsbD v (d - 1 - i)) htop
        simp only [BitVec.getLsbD_ushiftRight] at this
        rw [← this]; congr 1; omega
      · rename_i hid
        have := congrArg (fun v => BitVec.getLsbD v (31 - i)) hlow
        simp only [BitVec.getLsbD_and, getLsbD_lowmask32] at this
        have e : d + (31 - i) < 32 := by omega
        simp only [e, decide_true, Bool.and_true] at this
        rw [this, ← be32_getMsbD addr i hi]
        simp [BitVec.getMsbD, hi]
    · rw [if_neg (by omega)]
      exact addrBit_drop4 _ _ _ _ addr i hi

/-! ### concrete instances -/

example : (be64 [0x4a#8, 0x12#8, 0x34#8, 0x56#8, 0x78#8, 0xab#8, 0xcd#8, 0xef#8, 0x01#8]).getMsbD 13 =
    addrBit [0x4a#8, 0x12#8, 0x34#8, 0x56#8, 0x78#8, 0xab#8, 0xcd#8, 0xef#8, 0x01#8] 13 :=
  be64_getMsbD _ 13 (by omega)

example : ∃ s, parseShardID 0x4800000000000000#64 = some s ∧
    (matchAccountID s ⟨0#32, 0x4a#8 :: 0x12#8 :: List.replicate 30 0xff#8⟩ = true ↔
      ∀ i, i < shardLen 0x4800000000000000#64 →
        addrBit (0x4a#8 :: 0x12#8 :: List.replicate 30 0xff#8) i = (0x4800000000000000#64).getMsbD i) :=
  match_account_is_prefix _ ⟨0#32, 0x4a#8 :: 0x12#8 :: List.replicate 30 0xff#8⟩ (by decide)

example : ∃ m, encode ⟨0x4000000000000000#64, 0xf000000000000000#64⟩ = some m ∧ m ≠ 0 ∧
    parseShardID m = some ⟨0x4000000000000000#64, 0xf000000000000000#64⟩ :=
  shard_roundtrip_parse_encode _ 59 (by omega) (by decide) (by decide)

example : ∃ s k, parseShardID 0x4800000000000000#64 = some s ∧ k ≤ 63 ∧ s.mask = BitVec.allOnes 64 <<< (k + 1) ∧
    s.pfx &&& ~~~s.mask = 0 :=
  parseShardID_wf _ (by decide)

example : (rewriteAddr (0x12#8 :: 0x34#8 :: 0x56#8 :: 0x78#8 :: List.replicate 28 0xa5#8) (BitVec.ofNat 32 3) 0b101#32).length = 32 ∧
    ∀ i, i < 256 →
      addrBit (rewriteAddr (0x12#8 :: 0x34#8 :: 0x56#8 :: 0x78#8 :: List.replicate 28 0xa5#8) (BitVec.ofNat 32 3) 0b101#32) i =
        if i < 3 then (0b101#32).getLsbD (3 - 1 - i)
        else addrBit (0x12#8 :: 0x34#8 :: 0x56#8 :: 0x78#8 :: List.replicate 28 0xa5#8) i :=
  rewriteAddr_bits _ (by decide) 3 _ (by omega) (by omega) (by decide)

/-- the same instance evaluated: 0x12 = 000 10010 becomes 101 10010 = 0xb2, nothing else moves -/
example : rewriteAddr (0x12#8 :: 0x34#8 :: 0x56#8 :: 0x78#8 :: List.replicate 28 0xa5#8) (BitVec.ofNat 32 3) 0b101#32 =
    0xb2#8 :: 0x34#8 :: 0x56#8 :: 0x78#8 :: List.replicate 28 0xa5#8 := by decide

end Tongo.Address
