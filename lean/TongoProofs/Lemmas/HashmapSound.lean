import TongoProofs.Lemmas.HashmapEncode
import TongoProofs.Lemmas.HashmapPut
/-! Soundness of Marshal on ARBITRARY input of one key width (duplicates allowed, e.g. typed keys outside their domain
that encode to the same bits): if `encodeMap` succeeds on the bit-sorted list then the keys were pairwise distinct —
so a successful Marshal is always a faithful one; colliding keys make Marshal fail, never corrupt other entries. -/
namespace Tongo.Hashmap
open Tongo Tongo.Bits

variable {V : Type}

/-- ascending, duplicates allowed -/
def WeakSortedKV (kvs : List (Key × V)) : Prop := kvs.Pairwise (fun a b => lexLt b.1 a.1 = false)

theorem lexLe_of_not_gt (a b : Key) (hl : a.length = b.length) (h : lexLt b a = false) : lexLe a b := by
  by_cases e : a = b
  · right; exact e
  · left
    rcases lexLt_total a b hl e with h1 | h1
    · exact h1
    · rw [h] at h1; cases h1

theorem splitKeys_weak (p : Key) : ∀ (K : List (Key × V)), WeakSortedKV K → (∀ kv ∈ K, kv.1 ≠ []) →
    ∃ L R, splitKeys p.length (K.map fun kv => (p ++ kv.1, kv.2)) = .ok (L, R) ∧
      K = L.map (fun kv => (false :: kv.1, kv.2)) ++ R.map (fun kv => (true :: kv.1, kv.2))
  | [], _, _ => ⟨[], [], by simp [splitKeys], by simp⟩
  | (k, v) :: K', hs, hne => by
    have hs' : WeakSortedKV K' := (List.pairwise_cons.mp hs).2
    have hhead := (List.pairwise_cons.mp hs).1
    obtain ⟨L', R', hsp, hK'⟩ := splitKeys_weak p K' hs' (fun kv h => hne kv (List.mem_cons_of_mem _ h))
    have hk : k ≠ [] := hne (k, v) (by simp)
    match k, hk with
    | b :: k', _ =>
      have h1 : ¬ ((p ++ b :: k').length < p.length) := by simp
      have h2 : (p ++ b :: k').drop p.length = b :: k' := by simp
      cases b with
      | false =>
        refine ⟨(k', v) :: L', R', ?_, ?_⟩
        · simp only [List.map_cons, splitKeys, h1, if_false, h2, hsp]; simp
        · simp [hK']
      | true =>
        have hL : L' = [] := by
          cases L' with
          | nil => rfl
          | cons x xs =>
            exfalso
            have hx : (false :: x.1, x.2) ∈ K' := by rw [hK']; simp
            have := hhead _ hx
            simp at this
        subst hL
        refine ⟨[], (k', v) :: R', ?_, ?_⟩
        · simp only [List.map_cons, splitKeys, h1, if_false, h2, hsp]; simp
        · simp [hK']

/-! ### all keys equal: the encoder fails -/

theorem labelLoop_self : ∀ (rest : Key) (b : Bool) (room : Int), (rest.length : Int) ≤ room →
    labelLoop room b rest (b :: rest) = .ok ((b :: rest).dropLast)
  | [], b, room, _ => by simp [labelLoop]
  | b' :: rest', b, room, hroom => by
    have hroom' : ¬ (room ≤ 0) := by simp at hroom; omega
    have ih := labelLoop_self rest' b' (room - 1) (by simp at hroom ⊢; omega)
    simp only [labelLoop, bne_self_eq_false, Bool.false_eq_true, if_false, hroom', ih]
    simp [List.dropLast]

theorem splitKeys_all_equal (pre : Key) (b : Bool) : ∀ (kvs : List (Key × V)), (∀ kv ∈ kvs, kv.1 = pre ++ [b]) →
    splitKeys pre.length kvs =
      .ok (if b then ([], kvs.map fun kv => ([], kv.2)) else (kvs.map (fun kv => ([], kv.2)), []))
  | [], _ => by cases b <;> simp [splitKeys]
  | (k, v) :: rest, h => by
    have hk : k = pre ++ [b] := h (k, v) (by simp)
    have ih := splitKeys_all_equal pre b rest (fun kv hkv => h kv (List.mem_cons_of_mem _ hkv))
    subst hk
    have h1 : ¬ ((pre ++ [b]).length < pre.length) := by simp
    have h2 : (pre ++ [b]).drop pre.length = [b] := by simp
    cases b <;> simp [splitKeys, h2, ih]

theorem encodeMap_nil (C : Codec V) (fuel : Nat) (n : Int) : ∀ c, encodeMap C fuel [] n ≠ .ok c := by
  intro c
  cases fuel <;> simp [encodeMap]

theorem encodeFork_all_equal (C : Codec V) (f : Nat) (m : Nat) (k : Key) (hk : k.length = m)
    (kvs : List (Key × V)) (hall : ∀ kv ∈ kvs, kv.1 = k) (c : Cell) :
    encodeFork (encodeMap C f) kvs (m : Int) k k ≠ .ok c := by
  intro h
  match k, hk with
  | [], _ => simp [encodeFork, commonLabel] at h
  | b :: rest, hk =>
    have hcl : commonLabel (m : Int) (b :: rest) (b :: rest) = .ok ((b :: rest).dropLast) := by
      simp only [commonLabel]
      exact labelLoop_self rest b m (by simp at hk; omega)
    obtain ⟨pre, lastb, hpl⟩ : ∃ pre lastb, b :: rest = pre ++ [lastb] :=
      ⟨(b :: rest).dropLast, (b :: rest).getLast (by simp), (List.dropLast_concat_getLast (by simp)).symm⟩
    have hdl : (b :: rest).dropLast = pre := by rw [hpl]; simp
    rw [hdl] at hcl
    have hsp := splitKeys_all_equal pre lastb kvs (fun kv hkv => by rw [hall kv hkv, hpl])
    simp only [encodeFork, hcl, hsp] at h
    cases lastb with
    | true =>
      simp only [if_true] at h
      split at h
      · exact absurd ‹_› (encodeMap_nil C f _ _)
      · rename_i e he; exact encodeMap_nil C f _ c (by rw [← h])
    | false =>
      simp only [Bool.false_eq_true, if_false] at h
      split at h
      · split at h
        · exact absurd ‹_› (encodeMap_nil C f _ _)
        · rename_i e he; exact encodeMap_nil C f _ c (by rw [← h])
      · rename_i e he
        cases hL : encodeMap C f (kvs.map fun kv => ([], kv.2)) ((m : Int) - (pre.length : Int) - 1) with
        | ok l => exact he l hL
        | err e' => rw [hL] at h; cases h
        | panic p' => rw [hL] at h; cases h

/-- from a successful fork both recursive calls succeeded -/
theorem encodeFork_ok (recur : List (Key × V) → Int → Outcome Cell) (kvs : List (Key × V)) (n : Int) (a b : Key)
    (label : Key) (L R : List (Key × V)) (hcl : commonLabel n a b = .ok label)
    (hsp : splitKeys label.length kvs = .ok (L, R)) (c : Cell) (h : encodeFork recur kvs n a b = .ok c) :
    (∃ l, recur L (n - label.length - 1) = .ok l) ∧ (∃ r, recur R (n - label.length - 1) = .ok r) := by
  simp only [encodeFork, hcl, hsp] at h
  cases hL : recur L (n - label.length - 1) with
  | ok l =>
    rw [hL] at h
    cases hR : recur R (n - label.length - 1) with
    | ok r => exact ⟨⟨l, rfl⟩, ⟨r, rfl⟩⟩
    | err e => rw [hR] at h; cases h
    | panic p => rw [hR] at h; cases h
  | err e => rw [hL] at h; cases h
  | panic p => rw [hL] at h; cases h

/-- a successful `encodeMap` on an ascending list of `m`-bit keys proves the keys pairwise distinct -/
theorem encodeMap_ok_strict (C : Codec V) :
    ∀ (fuel m : Nat) (kvs : List (Key × V)) (c : Cell), (∀ kv ∈ kvs, kv.1.length = m) → WeakSortedKV kvs →
      encodeMap C fuel kvs (m : Int) = .ok c → SortedKV kvs
  | 0, _, _, _, _, _, h => by simp [encodeMap] at h
  | f + 1, m, [], _, _, _, _ => by simp [SortedKV]
  | f + 1, m, [(k, v)], _, _, _, _ => by simp [SortedKV]
  | f + 1, m, (k0, v0) :: kv1 :: more, c, hlen, hs, hok => by
    have hne1 : (kv1 :: more) ≠ [] := by simp
    let last := (kv1 :: more).getLast hne1
    have hlast_mem1 : last ∈ kv1 :: more := List.getLast_mem hne1
    have hlast_mem : last ∈ (k0, v0) :: kv1 :: more := List.mem_cons_of_mem _ hlast_mem1
    have hk0 : k0.length = m := hlen (k0, v0) (by simp)
    have hkl : last.1.length = m := hlen last hlast_mem
    have hhead := (List.pairwise_cons.mp hs).1
    have hgl : ((k0, v0) :: kv1 :: more).getLast (by simp) = last := by simp [last]
    have hok' : encodeFork (encodeMap C f) ((k0, v0) :: kv1 :: more) (m : Int) k0 last.1 = .ok c := by
      simpa [encodeMap] using hok
    -- every key lies between the first and the last
    have hbetween : ∀ kv ∈ (k0, v0) :: kv1 :: more, lexLe k0 kv.1 ∧ lexLe kv.1 last.1 := by
      intro kv hkv
      constructor
      · rcases List.mem_cons.mp hkv with h | h
        · right; rw [h]
        · exact lexLe_of_not_gt _ _ (by rw [hk0, hlen kv hkv]) (hhead kv h)
      · have := pairwise_le_getLast _ (by simp) hs kv hkv
        rw [hgl] at this
        rcases this with h | h
        · exact lexLe_of_not_gt _ _ (by rw [hkl, hlen kv hkv]) h
        · right; rw [h]
    by_cases heq : k0 = last.1
    · -- all keys equal: the encoder cannot have succeeded
      exfalso
      have hall : ∀ kv ∈ (k0, v0) :: kv1 :: more, kv.1 = k0 := by
        intro kv hkv
        obtain ⟨h1, h2⟩ := hbetween kv hkv
        rw [← heq] at h2
        rcases h1 with h1 | h1
        · rcases h2 with h2 | h2
          · have := lexLt_asymm _ _ h1; rw [h2] at this; cases this
          · exact h2
        · exact h1.symm
      rw [← heq] at hok'
      exact encodeFork_all_equal C f m k0 hk0 _ hall c hok'
    · have hlt : lexLt k0 last.1 = true := by
        rcases (hbetween last hlast_mem).1 with h | h
        · exact h
        · exact absurd h heq
      obtain ⟨a', b', hk0p, hklp, hab⟩ := lcp_split_lt k0 last.1 (by omega) hlt
      have hcl : commonLabel (m : Int) k0 last.1 = .ok (lcp k0 last.1) :=
        commonLabel_eq_lcp m k0 last.1 hk0 hkl heq
      generalize hp : lcp k0 last.1 = p at hk0p hklp hcl
      have hpm : p.length + 1 + a'.length = m := by rw [hk0p] at hk0; simp at hk0; omega
      have hpre : ∀ kv ∈ (k0, v0) :: kv1 :: more, ∃ k', kv.1 = p ++ k' := by
        intro kv hkv
        obtain ⟨hle1, hle2⟩ := hbetween kv hkv
        rw [hk0p] at hle1
        rw [hklp] at hle2
        exact prefix_of_between p (false :: a') (true :: b') kv.1 (by rw [← hk0p, hk0, hlen kv hkv]) hle1 hle2
      let K := ((k0, v0) :: kv1 :: more).map fun kv => (kv.1.drop p.length, kv.2)
      have hK : (k0, v0) :: kv1 :: more = K.map fun kv => (p ++ kv.1, kv.2) := map_drop_prefix p _ hpre
      have hKlen : ∀ kv ∈ K, kv.1.length = m - p.length := by
        intro kv hkv
        obtain ⟨x, hx, rfl⟩ := List.mem_map.mp hkv
        simp [hlen x hx]
      have hKs : WeakSortedKV K := by
        unfold WeakSortedKV at hs ⊢
        rw [hK, List.pairwise_map] at hs
        simpa using hs
      obtain ⟨L, R, hsplit, hLR⟩ := splitKeys_weak p K hKs (by
        intro kv hkv h
        have := hKlen kv hkv
        rw [h] at this; simp at this; omega)
      rw [← hK] at hsplit
      obtain ⟨⟨l, hl⟩, ⟨r, hr⟩⟩ := encodeFork_ok (encodeMap C f) _ (m : Int) k0 last.1 p L R hcl hsplit c hok'
      have hsub : (m : Int) - (p.length : Int) - 1 = ((m - p.length - 1 : Nat) : Int) := by omega
      rw [hsub] at hl hr
      have hLmem : ∀ kv ∈ L, (false :: kv.1, kv.2) ∈ K := by
        intro kv hkv; rw [hLR]; apply List.mem_append_left; exact List.mem_map.mpr ⟨kv, hkv, rfl⟩
      have hRmem : ∀ kv ∈ R, (true :: kv.1, kv.2) ∈ K := by
        intro kv hkv; rw [hLR]; apply List.mem_append_right; exact List.mem_map.mpr ⟨kv, hkv, rfl⟩
      have hLw : WeakSortedKV L := by
        unfold WeakSortedKV at hKs ⊢
        rw [hLR, List.pairwise_append] at hKs
        have := hKs.1
        rw [List.pairwise_map] at this
        simpa using this
      have hRw : WeakSortedKV R := by
        unfold WeakSortedKV at hKs ⊢
        rw [hLR, List.pairwise_append] at hKs
        have := hKs.2.1
        rw [List.pairwise_map] at this
        simpa using this
      have hLs := encodeMap_ok_strict C f (m - p.length - 1) L l
        (by intro kv hkv; have := hKlen _ (hLmem kv hkv); simp at this; omega) hLw hl
      have hRs := encodeMap_ok_strict C f (m - p.length - 1) R r
        (by intro kv hkv; have := hKlen _ (hRmem kv hkv); simp at this; omega) hRw hr
      -- reassemble strict order
      have hKstrict : SortedKV K := by
        unfold SortedKV at hLs hRs ⊢
        rw [hLR, List.pairwise_append]
        refine ⟨?_, ?_, ?_⟩
        · rw [List.pairwise_map]; simpa using hLs
        · rw [List.pairwise_map]; simpa using hRs
        · intro a ha b hb
          obtain ⟨x, _, rfl⟩ := List.mem_map.mp ha
          obtain ⟨y, _, rfl⟩ := List.mem_map.mp hb
          simp
      unfold SortedKV at hKstrict ⊢
      rw [hK, List.pairwise_map]
      simpa using hKstrict

/-! ### sortKV always produces an ascending list -/

theorem insertKV_weak (n : Nat) (x : Key × V) (hx : x.1.length = n) : ∀ (l : List (Key × V)), WeakSortedKV l →
    (∀ kv ∈ l, kv.1.length = n) → WeakSortedKV (insertKV x l)
  | [], _, _ => by simp [insertKV, WeakSortedKV]
  | y :: l, hs, hw => by
    have hs' := List.pairwise_cons.mp hs
    simp only [insertKV]
    split
    · rename_i h
      apply List.pairwise_cons.mpr
      refine ⟨?_, insertKV_weak n x hx l hs'.2 (fun kv hkv => hw kv (List.mem_cons_of_mem _ hkv))⟩
      intro z hz
      rcases List.mem_cons.mp ((insertKV_perm x l).mem_iff.mp hz) with e | e
      · rw [e]; exact lexLt_asymm _ _ h
      · exact hs'.1 z e
    · rename_i h
      apply List.pairwise_cons.mpr
      refine ⟨?_, hs⟩
      have hy : y.1.length = n := hw y (by simp)
      have hxy : lexLt y.1 x.1 = false := by simpa using h
      intro z hz
      rcases List.mem_cons.mp hz with e | e
      · rw [e]; exact hxy
      · -- x ≤ y ≤ z
        have hyz := hs'.1 z e
        have hz' : z.1.length = n := hw z (List.mem_cons_of_mem _ e)
        cases hzx : lexLt z.1 x.1 with
        | false => rfl
        | true =>
          exfalso
          rcases lexLe_of_not_gt x.1 y.1 (by omega) hxy with h1 | h1
          · have := lexLt_trans _ _ _ hzx h1; rw [hyz] at this; cases this
          · rw [h1] at hzx; rw [hyz] at hzx; cases hzx

theorem sortKV_weak (n : Nat) : ∀ (l : List (Key × V)), (∀ kv ∈ l, kv.1.length = n) → WeakSortedKV (sortKV l)
  | [], _ => by simp [sortKV, WeakSortedKV]
  | x :: l, hw => by
    have : sortKV (x :: l) = insertKV x (sortKV l) := by simp [sortKV]
    rw [this]
    have hwl : ∀ kv ∈ l, kv.1.length = n := fun kv hkv => hw kv (List.mem_cons_of_mem _ hkv)
    exact insertKV_weak n x (hw x (by simp)) _ (sortKV_weak n l hwl)
      (fun kv hkv => hwl kv ((sortKV_perm l).mem_iff.mp hkv))

/-! ### the typed layer -/

theorem encIntKey_inRange (n : Nat) (v : Int) (hn : 2 ≤ n) (hlo : -(2 ^ (n - 1) : Int) ≤ v)
    (hhi : v < (2 ^ (n - 1) : Int)) :
    ∃ k, encIntKey n v = .ok k ∧ k.length = n ∧ Bits.bitsToInt k = v := by
  have h0 : ¬ (n = 0) := by omega
  have h1 : ¬ (n = 1) := by omega
  refine ⟨decide (v < 0) :: natToBits (n - 1) (v % (2 ^ (n - 1) : Int)).toNat,
    by simp only [encIntKey, h0, h1, if_false], by simp only [List.length_cons, natToBits_length]; omega, ?_⟩
  have hpos : (0 : Int) < 2 ^ (n - 1) := Int.pow_pos (by decide)
  have hcast : ((2 ^ (n - 1) : Nat) : Int) = (2 ^ (n - 1) : Int) := by norm_cast
  simp only [Bits.bitsToInt, natToBits_length, bitsToNat_natToBits]
  by_cases hv : v < 0
  · simp only [hv, decide_true, if_true]
    have hm : v % (2 ^ (n - 1) : Int) = v + 2 ^ (n - 1) := by
      have : v = (v + 2 ^ (n - 1)) + (2 ^ (n - 1) : Int) * (-1) := by ring
      conv => lhs; rw [this]
      rw [Int.add_mul_emod_self_left]
      exact Int.emod_eq_of_lt (by omega) (by omega)
    rw [hm]
    have hnn : (0 : Int) ≤ v + 2 ^ (n - 1) := by omega
    have hlt : (v + 2 ^ (n - 1)).toNat < 2 ^ (n - 1) := by
      have : ((v + 2 ^ (n - 1)).toNat : Int) < ((2 ^ (n - 1) : Nat) : Int) := by
        rw [Int.toNat_of_nonneg hnn, hcast]; omega
      exact_mod_cast this
    rw [Nat.mod_eq_of_lt hlt, Int.toNat_of_nonneg hnn]
    ring
  · simp only [hv, decide_false, Bool.false_eq_true, if_false]
    have hnn : (0 : Int) ≤ v := by omega
    have hm : v % (2 ^ (n - 1) : Int) = v := Int.emod_eq_of_lt hnn hhi
    rw [hm]
    have hlt : v.toNat < 2 ^ (n - 1) := by
      have : (v.toNat : Int) < ((2 ^ (n - 1) : Nat) : Int) := by
        rw [Int.toNat_of_nonneg hnn, hcast]; exact hhi
      exact_mod_cast this
    rw [Nat.mod_eq_of_lt hlt, Int.toNat_of_nonneg hnn]

theorem slices_eq (C : Codec V) (n : Nat) (keys : List Key) (values : List V) (hl : values.length = keys.length) :
    marshalSlicesE C n keys values = marshalE C n (keys.zip values) ∧
      itemsSlices keys values = .ok (keys.zip values) := by
  have h1 : ¬ (values.length < keys.length) := by omega
  refine ⟨?_, by simp only [itemsSlices, h1, if_false]⟩
  cases keys with
  | nil => simp [marshalSlicesE, marshalE]
  | cons k ks =>
    cases values with
    | nil => simp at hl
    | cons v vs =>
      simp only [marshalSlicesE, marshalSlices, marshalE, marshal, h1, if_false, List.isEmpty_cons,
        Bool.false_eq_true, List.zip_cons_cons]

theorem slices_short (C : Codec V) (n : Nat) (keys : List Key) (values : List V) (hl : values.length < keys.length) :
    (marshalSlicesE C n keys values).isErr = true ∧ (itemsSlices keys values).isPanic = true := by
  refine ⟨?_, by simp only [itemsSlices, hl, if_true, Outcome.isPanic]⟩
  cases keys with
  | nil => simp at hl
  | cons k ks => simp only [marshalSlicesE, marshalSlices, hl, if_true, List.isEmpty_cons, Bool.false_eq_true,
      if_false, Outcome.isErr]

/-! ### bytes.Compare on the byte arrays of BitsN keys is the bit order of their encoding -/

theorem lexLt_append_eqlen : ∀ (x y a b : Key), x.length = y.length →
    lexLt (x ++ a) (y ++ b) = (lexLt x y || (x == y && lexLt a b))
  | [], [], a, b, _ => by simp [lexLt]
  | [], _ :: _, _, _, h => by simp at h
  | _ :: _, [], _, _, h => by simp at h
  | p :: x, q :: y, a, b, h => by
    have ih := lexLt_append_eqlen x y a b (by simpa using h)
    cases p <;> cases q <;> simp [lexLt, ih]

theorem byteToBits_lt (a b : UInt8) : lexLt (byteToBits a) (byteToBits b) = decide (a < b) := by
  have h := lexLt_iff_bitsToNat (byteToBits a) (byteToBits b) (by simp [byteToBits])
  simp only [byteToBits, bitsToNat_natToBits] at h
  have ha : a.toNat < 2 ^ 8 := a.toNat_lt
  have hb : b.toNat < 2 ^ 8 := b.toNat_lt
  rw [Nat.mod_eq_of_lt ha, Nat.mod_eq_of_lt hb] at h
  cases hl : lexLt (byteToBits a) (byteToBits b)
  · simp only [byteToBits] at hl
    have : ¬ (a.toNat < b.toNat) := by intro h2; rw [h.mpr h2] at hl; cases hl
    simp [UInt8.lt_iff_toNat_lt, this]
  · simp only [byteToBits] at hl
    have := h.mp hl
    simp [UInt8.lt_iff_toNat_lt, this]

theorem byteToBits_inj (a b : UInt8) (h : byteToBits a = byteToBits b) : a = b := by
  have h2 := congrArg bitsToNat h
  simp only [byteToBits, bitsToNat_natToBits] at h2
  have ha : a.toNat < 2 ^ 8 := a.toNat_lt
  have hb : b.toNat < 2 ^ 8 := b.toNat_lt
  rw [Nat.mod_eq_of_lt ha, Nat.mod_eq_of_lt hb] at h2
  exact UInt8.toNat_inj.mp h2

theorem ltBytes_eq_lexLt : ∀ (a b : List UInt8), a.length = b.length →
    ltBytes a b = lexLt (bytesToBits a) (bytesToBits b)
  | [], [], _ => by simp [ltBytes, bytesToBits, lexLt]
  | [], _ :: _, h => by simp at h
  | _ :: _, [], h => by simp at h
  | x :: a, y :: b, h => by
    have ih := ltBytes_eq_lexLt a b (by simpa using h)
    simp only [ltBytes, bytesToBits, List.flatMap_cons] at ih ⊢
    rw [lexLt_append_eqlen _ _ _ _ (by simp [byteToBits]), byteToBits_lt, ← ih]
    by_cases e : x = y
    · subst e; simp
    · have : (byteToBits x == byteToBits y) = false := by
        simp only [beq_eq_false_iff_ne, ne_eq]
        exact fun h2 => e (byteToBits_inj x y h2)
      have e' : (x == y) = false := by simpa using e
      simp [this, e']

/-! ### success implies faithfulness, with no size hypothesis at all -/

theorem mkCell_eq_of_ok (b : List Bool) (r : List Cell) (c : Cell) (h : mkCell b r = .ok c) : c = Cell.ordinary b r := by
  unfold mkCell at h
  split at h
  · cases h
  · split at h
    · cases h
    · cases h; rfl

/-- whenever `encodeMap` succeeds on a bit-sorted list of `m`-bit keys, what it wrote is the cell tree of a valid
`Hashmap m X` whose meaning is exactly the list — whatever the sizes of the values (a value that does not fit makes
the encoder fail, it never yields a wrong tree). `pay v` is what the value encoder produces. -/
theorem encodeMap_ok_tree (C : Codec V) (pay : V → List Bool × List Cell) :
    ∀ (fuel m : Nat) (kvs : List (Key × V)) (c : Cell), (∀ kv ∈ kvs, kv.1.length = m) → SortedKV kvs →
      (∀ kv ∈ kvs, C.enc kv.2 = .ok (pay kv.2)) → encodeMap C fuel kvs (m : Int) = .ok c →
      ∃ t : HTree V, t.Valid m ∧ t.meaning = kvs ∧ c = t.toCell pay m
  | 0, _, _, _, _, _, _, h => by simp [encodeMap] at h
  | f + 1, m, [], c, _, _, _, h => by simp [encodeMap] at h
  | f + 1, m, [(k, v)], c, hlen, _, henc, h => by
    have hk : k.length = m := hlen (k, v) (by simp)
    have he := henc (k, v) (by simp)
    simp only [encodeMap, he, encLabelBits_eq] at h
    exact ⟨.leaf (canonLbl k m) v, by simp [HTree.Valid, hk], by simp [HTree.meaning],
      by simpa [HTree.toCell] using mkCell_eq_of_ok _ _ _ h⟩
  | f + 1, m, (k0, v0) :: kv1 :: more, c, hlen, hs, henc, hok => by
    have hne1 : (kv1 :: more) ≠ [] := by simp
    let last := (kv1 :: more).getLast hne1
    have hlast_mem1 : last ∈ kv1 :: more := List.getLast_mem hne1
    have hlast_mem : last ∈ (k0, v0) :: kv1 :: more := List.mem_cons_of_mem _ hlast_mem1
    have hk0 : k0.length = m := hlen (k0, v0) (by simp)
    have hkl : last.1.length = m := hlen last hlast_mem
    have hhead := (List.pairwise_cons.mp hs).1
    have hlt : lexLt k0 last.1 = true := hhead last hlast_mem1
    obtain ⟨a', b', hk0p, hklp, hab⟩ := lcp_split_lt k0 last.1 (by omega) hlt
    have hne : k0 ≠ last.1 := by intro h; rw [h, lexLt_irrefl] at hlt; cases hlt
    have hcl : commonLabel (m : Int) k0 last.1 = .ok (lcp k0 last.1) := commonLabel_eq_lcp m k0 last.1 hk0 hkl hne
    generalize hp : lcp k0 last.1 = p at hk0p hklp hcl
    have hpm : p.length + 1 + a'.length = m := by rw [hk0p] at hk0; simp at hk0; omega
    have hgl : ((k0, v0) :: kv1 :: more).getLast (by simp) = last := by simp [last]
    have hok' : encodeFork (encodeMap C f) ((k0, v0) :: kv1 :: more) (m : Int) k0 last.1 = .ok c := by
      simpa [encodeMap] using hok
    have hpre : ∀ kv ∈ (k0, v0) :: kv1 :: more, ∃ k', kv.1 = p ++ k' := by
      intro kv hkv
      have hle1 : lexLe k0 kv.1 := by
        rcases List.mem_cons.mp hkv with h | h
        · right; rw [h]
        · left; exact hhead kv h
      have hle2 : lexLe kv.1 last.1 := by
        have := pairwise_le_getLast _ (by simp) hs kv hkv
        rw [hgl] at this
        rcases this with h | h
        · left; exact h
        · right; rw [h]
      rw [hk0p] at hle1
      rw [hklp] at hle2
      exact prefix_of_between p (false :: a') (true :: b') kv.1 (by rw [← hk0p, hk0, hlen kv hkv]) hle1 hle2
    let K := ((k0, v0) :: kv1 :: more).map fun kv => (kv.1.drop p.length, kv.2)
    have hK : (k0, v0) :: kv1 :: more = K.map fun kv => (p ++ kv.1, kv.2) := map_drop_prefix p _ hpre
    have hKlen : ∀ kv ∈ K, kv.1.length = m - p.length := by
      intro kv hkv
      obtain ⟨x, hx, rfl⟩ := List.mem_map.mp hkv
      simp [hlen x hx]
    have hKs : SortedKV K := by
      unfold SortedKV at hs ⊢
      rw [hK, List.pairwise_map] at hs
      simpa using hs
    obtain ⟨L, R, hsplit, hLR⟩ := splitKeys_sorted p K hKs (by
      intro kv hkv h
      have := hKlen kv hkv
      rw [h] at this; simp at this; omega)
    rw [← hK] at hsplit
    obtain ⟨⟨l, hl⟩, ⟨r, hr⟩⟩ := encodeFork_ok (encodeMap C f) _ (m : Int) k0 last.1 p L R hcl hsplit c hok'
    have hsub : (m : Int) - (p.length : Int) - 1 = ((m - p.length - 1 : Nat) : Int) := by omega
    have hLmem : ∀ kv ∈ L, (false :: kv.1, kv.2) ∈ K := by
      intro kv hkv; rw [hLR]; apply List.mem_append_left; exact List.mem_map.mpr ⟨kv, hkv, rfl⟩
    have hRmem : ∀ kv ∈ R, (true :: kv.1, kv.2) ∈ K := by
      intro kv hkv; rw [hLR]; apply List.mem_append_right; exact List.mem_map.mpr ⟨kv, hkv, rfl⟩
    have hKenc : ∀ kv ∈ K, C.enc kv.2 = .ok (pay kv.2) := by
      intro kv hkv
      obtain ⟨x, hx, rfl⟩ := List.mem_map.mp hkv
      exact henc x hx
    have hLs : SortedKV L := by
      unfold SortedKV at hKs ⊢
      rw [hLR, List.pairwise_append] at hKs
      have := hKs.1
      rw [List.pairwise_map] at this
      simpa using this
    have hRs : SortedKV R := by
      unfold SortedKV at hKs ⊢
      rw [hLR, List.pairwise_append] at hKs
      have := hKs.2.1
      rw [List.pairwise_map] at this
      simpa using this
    have hl' := hl
    have hr' := hr
    rw [hsub] at hl' hr'
    obtain ⟨tL, hvL, hmL, heL⟩ := encodeMap_ok_tree C pay f (m - p.length - 1) L l
      (by intro kv hkv; have := hKlen _ (hLmem kv hkv); simp at this; omega) hLs
      (fun kv hkv => hKenc (false :: kv.1, kv.2) (hLmem kv hkv)) hl'
    obtain ⟨tR, hvR, hmR, heR⟩ := encodeMap_ok_tree C pay f (m - p.length - 1) R r
      (by intro kv hkv; have := hKlen _ (hRmem kv hkv); simp at this; omega) hRs
      (fun kv hkv => hKenc (true :: kv.1, kv.2) (hRmem kv hkv)) hr'
    refine ⟨.fork (canonLbl p m) tL tR, ?_, ?_, ?_⟩
    · simp only [HTree.Valid, canonLbl_bits]
      exact ⟨by omega, hvL, hvR⟩
    · simp only [HTree.meaning, canonLbl_bits, hmL, hmR]
      rw [hK, hLR]
      simp [List.map_append, List.map_map, Function.comp_def]
    · simp only [encodeFork, hcl, hsplit, hl, hr, encLabelBits_eq] at hok'
      have := mkCell_eq_of_ok _ _ _ hok'
      rw [this, heL, heR]
      simp [HTree.toCell]

/-! ### `Compare` of the typed keys is the model's comparison of their encodings -/

theorem bytesToBits_length (a : List UInt8) : (bytesToBits a).length = 8 * a.length := by
  induction a with
  | nil => rfl
  | cons x a ih =>
    simp only [bytesToBits, List.flatMap_cons, List.length_append, List.length_cons] at ih ⊢
    rw [ih]; simp [byteToBits]; omega

theorem uint_compare_eq (n a b : Nat) (ha : a < 2 ^ n) (hb : b < 2 ^ n) :
    ltUnsigned (natToBits n a) (natToBits n b) = decide (a < b) := by
  simp [ltUnsigned, bitsToNat_natToBits, Nat.mod_eq_of_lt ha, Nat.mod_eq_of_lt hb]

/-- `uint32(int8 workchain)` as Go computes it -/
def u32OfInt (wc : Int) : Nat := (wc % (2 ^ 32 : Int)).toNat

/-- AddressWithWorkchain.Compare on the typed key: uint32 of the workchain, then bytes.Compare of the address -/
def ltAddr (wc1 : Int) (a1 : List UInt8) (wc2 : Int) (a2 : List UInt8) : Bool :=
  decide (u32OfInt wc1 < u32OfInt wc2) || (u32OfInt wc1 == u32OfInt wc2 && ltBytes a1 a2)

theorem u32OfInt_lt (wc : Int) : u32OfInt wc < 2 ^ 32 := by
  unfold u32OfInt
  have h1 : (0 : Int) ≤ wc % 2 ^ 32 := Int.emod_nonneg _ (by decide)
  have h2 : wc % (2 ^ 32 : Int) < 2 ^ 32 := Int.emod_lt_of_pos _ (by decide)
  have : ((wc % (2 ^ 32 : Int)).toNat : Int) < ((2 ^ 32 : Nat) : Int) := by
    rw [Int.toNat_of_nonneg h1]; exact_mod_cast h2
  exact_mod_cast this

theorem addr_compare_eq (wc1 wc2 : Int) (a1 a2 : List UInt8) (h : a1.length = a2.length) :
    ltAddr wc1 a1 wc2 a2 = lexLt (intToBits 32 wc1 ++ bytesToBits a1) (intToBits 32 wc2 ++ bytesToBits a2) := by
  have e1 : intToBits 32 wc1 = natToBits 32 (u32OfInt wc1) := rfl
  have e2 : intToBits 32 wc2 = natToBits 32 (u32OfInt wc2) := rfl
  rw [lexLt_append_eqlen _ _ _ _ (by simp [intToBits]), ← ltBytes_eq_lexLt a1 a2 h, e1, e2]
  have hl := lexLt_iff_bitsToNat (natToBits 32 (u32OfInt wc1)) (natToBits 32 (u32OfInt wc2)) (by simp)
  simp only [bitsToNat_natToBits, Nat.mod_eq_of_lt (u32OfInt_lt wc1), Nat.mod_eq_of_lt (u32OfInt_lt wc2)] at hl
  unfold ltAddr
  by_cases heq : u32OfInt wc1 = u32OfInt wc2
  · rw [heq]
    simp [lexLt_irrefl]
  · have hne : (natToBits 32 (u32OfInt wc1) == natToBits 32 (u32OfInt wc2)) = false := by
      simp only [beq_eq_false_iff_ne, ne_eq]
      intro hb
      have := congrArg bitsToNat hb
      simp only [bitsToNat_natToBits, Nat.mod_eq_of_lt (u32OfInt_lt wc1), Nat.mod_eq_of_lt (u32OfInt_lt wc2)] at this
      exact heq this
    have hne2 : (u32OfInt wc1 == u32OfInt wc2) = false := by simpa using heq
    simp only [hne, hne2, Bool.false_and, Bool.or_false]
    cases hlx : lexLt (natToBits 32 (u32OfInt wc1)) (natToBits 32 (u32OfInt wc2))
    · simp only [decide_eq_false_iff_not]; intro h2; rw [hl.mpr h2] at hlx; cases hlx
    · simp only [decide_eq_true_eq]; exact hl.mp hlx

end Tongo.Hashmap
