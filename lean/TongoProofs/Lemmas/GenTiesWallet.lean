import TongoGen.WalletInts
import TongoGen.TonConnectMsg
import TongoModel.Wallet
import TongoModel.WalletMsg
import TongoModel.TonConnect
/-! Ties ("gen_eq_model") between the integer expressions REGENERATED from the Go source by translator X4 on `BitVec`
(`TongoGen/WalletInts.lean` from wallet/wallet_v3.go, wallet_v4.go, wallet_highload_v2.go, models.go;
`TongoGen/TonConnectMsg.lean` from tonconnect/server.go) and the hand models on `Nat`/`Int`
(`Tongo.Wallet.Opts.subDefault` in TongoModel/Wallet.lean, the highload bounded query id written by
`Tongo.Wallet.bodyCell` in TongoModel/WalletMsg.lean, `Tongo.TonConnect.messageBytes` in TongoModel/TonConnect.lean).
Helper lemmas; the property files C14, C15 and C19 restate the results. Core Lean only (no Mathlib import, directly or
through other lemma files). -/
namespace Tongo.GenTies
open Tongo

/-! ### default sub-wallet id (wallet_v3.go, wallet_v4.go, wallet_highload_v2.go): `uint32(DefaultSubWallet+workchain)` -/

/-- the regenerated `uint32(DefaultSubWallet+workchain)` of `newWalletV3` (Go `int` workchain = `BitVec 64`, wrapping
add, truncation to 32 bits) is the model's `toU32 (defaultSubWallet + wc)`; holds for every integer, the `int64` range
premise only records which `wc` a Go `int` can hold -/
theorem gen_subWalletDefault (wc : Int) (_h : -(2 : Int) ^ 63 ≤ wc ∧ wc < 2 ^ 63) :
    (Gen.WalletInts.subWalletDefaultV3 (BitVec.ofInt 64 wc)).toNat = Wallet.toU32 (Wallet.defaultSubWallet + wc) := by
  unfold Gen.WalletInts.subWalletDefaultV3 Wallet.toU32 Wallet.defaultSubWallet
  simp only [BitVec.toNat_setWidth, BitVec.toNat_add, BitVec.toNat_ofInt, BitVec.toNat_ofNat]
  omega

/-- the v4 constructor has the same Go expression as the v3 one -/
theorem gen_subWalletDefaultV4_eq_V3 : Gen.WalletInts.subWalletDefaultV4 = Gen.WalletInts.subWalletDefaultV3 := rfl

/-- the highload v2 constructor has the same Go expression as the v3 one -/
theorem gen_subWalletDefaultHighload_eq_V3 :
    Gen.WalletInts.subWalletDefaultHighload = Gen.WalletInts.subWalletDefaultV3 := rfl

theorem gen_subWalletDefaultV4 (wc : Int) (h : -(2 : Int) ^ 63 ≤ wc ∧ wc < 2 ^ 63) :
    (Gen.WalletInts.subWalletDefaultV4 (BitVec.ofInt 64 wc)).toNat = Wallet.toU32 (Wallet.defaultSubWallet + wc) :=
  gen_subWalletDefault wc h

theorem gen_subWalletDefaultHighload (wc : Int) (h : -(2 : Int) ^ 63 ≤ wc ∧ wc < 2 ^ 63) :
    (Gen.WalletInts.subWalletDefaultHighload (BitVec.ofInt 64 wc)).toNat
      = Wallet.toU32 (Wallet.defaultSubWallet + wc) :=
  gen_subWalletDefault wc h

/-- without an explicit sub-wallet option the model's `Opts.subDefault` (stored in the v3/v4/highload data cell) is
the regenerated Go expression on the options' workchain -/
theorem gen_subDefault (o : Wallet.Opts) (h : o.subWallet = none) (hw : -(2 : Int) ^ 63 ≤ o.wc ∧ o.wc < 2 ^ 63) :
    Wallet.Opts.subDefault o = (Gen.WalletInts.subWalletDefaultV3 (BitVec.ofInt 64 o.wc)).toNat := by
  rw [gen_subWalletDefault o.wc hw]
  unfold Wallet.Opts.subDefault
  rw [h]; rfl

/-! ### highload bounded query id (wallet_highload_v2.go): `uint64(unix<<32) + uint64(rand.Uint32())` -/

/-- the regenerated `uint64(validUntil<<32) + uint64(rnd)` (64-bit shift and wrapping add) is the value the model's
highload body writes on 64 bits -/
theorem gen_highloadQueryID (validUntil rnd : Nat) (_hv : validUntil < 2 ^ 63) (hr : rnd < 2 ^ 32) :
    (Gen.WalletInts.highloadQueryID (BitVec.ofNat 64 validUntil) (BitVec.ofNat 32 rnd)).toNat
      = (validUntil * 4294967296 + rnd) % 18446744073709551616 := by
  unfold Gen.WalletInts.highloadQueryID
  simp only [BitVec.toNat_add, BitVec.toNat_shiftLeft, BitVec.toNat_setWidth, BitVec.toNat_ofNat,
    Nat.shiftLeft_eq]
  omega

/-- no wrap for `validUntil < 2^32` (every date until 2106): the high half of the regenerated query id is
`validUntil` (what the parse side `q / 4294967296` reads back) -/
theorem gen_highloadQueryID_div (validUntil rnd : Nat) (hv : validUntil < 2 ^ 32) (hr : rnd < 2 ^ 32) :
    (Gen.WalletInts.highloadQueryID (BitVec.ofNat 64 validUntil) (BitVec.ofNat 32 rnd)).toNat / 4294967296
      = validUntil := by
  rw [gen_highloadQueryID validUntil rnd (by omega) hr]
  omega

/-- no wrap for `validUntil < 2^32`: the low half of the regenerated query id is the random word -/
theorem gen_highloadQueryID_mod (validUntil rnd : Nat) (hv : validUntil < 2 ^ 32) (hr : rnd < 2 ^ 32) :
    (Gen.WalletInts.highloadQueryID (BitVec.ofNat 64 validUntil) (BitVec.ofNat 32 rnd)).toNat % 4294967296
      = rnd := by
  rw [gen_highloadQueryID validUntil rnd (by omega) hr]
  omega

/-! ### default send mode (models.go `SimpleTransfer.ToInternal`) -/

/-- the regenerated send mode of `SimpleTransfer.ToInternal` is `3 = 1 + 2`: pay transfer fees separately (1) +
ignore errors of the action phase (2) -/
theorem gen_defaultMessageMode : Gen.WalletInts.defaultMessageMode = 3#8 := rfl

/-! ### the integer fields of the ton-proof message (tonconnect/server.go `createMessage`) -/

/-- the byte `byte(w >> k)` of `binary.*Endian.PutUintN` as a `UInt8` -/
theorem gen_putByte {n : Nat} (w : BitVec n) (k : Nat) :
    UInt8.ofBitVec (BitVec.setWidth 8 (w >>> k)) = UInt8.ofNat (w.toNat / 2 ^ k % 256) := by
  apply UInt8.toBitVec_inj.mp
  apply BitVec.eq_of_toNat_eq
  show (BitVec.setWidth 8 (w >>> k)).toNat = (BitVec.ofNat 8 (w.toNat / 2 ^ k % 256)).toNat
  simp only [BitVec.toNat_setWidth, BitVec.toNat_ushiftRight, BitVec.toNat_ofNat, Nat.shiftRight_eq_div_pow]
  omega

theorem gen_beBytes4 (v : Nat) : TonConnect.beBytes 4 v =
    [UInt8.ofNat (v / 2 ^ 24 % 256), UInt8.ofNat (v / 2 ^ 16 % 256), UInt8.ofNat (v / 2 ^ 8 % 256),
      UInt8.ofNat (v / 2 ^ 0 % 256)] := rfl

theorem gen_leBytes4 (v : Nat) : TonConnect.leBytes 4 v =
    [UInt8.ofNat (v / 2 ^ 0 % 256), UInt8.ofNat (v / 2 ^ 8 % 256), UInt8.ofNat (v / 2 ^ 16 % 256),
      UInt8.ofNat (v / 2 ^ 24 % 256)] := rfl

theorem gen_leBytes8 (v : Nat) : TonConnect.leBytes 8 v =
    [UInt8.ofNat (v / 2 ^ 0 % 256), UInt8.ofNat (v / 2 ^ 8 % 256), UInt8.ofNat (v / 2 ^ 16 % 256),
      UInt8.ofNat (v / 2 ^ 24 % 256), UInt8.ofNat (v / 2 ^ 32 % 256), UInt8.ofNat (v / 2 ^ 40 % 256),
      UInt8.ofNat (v / 2 ^ 48 % 256), UInt8.ofNat (v / 2 ^ 56 % 256)] := rfl

/-- big-endian `uint32(int32 workchain)`: the regenerated four bytes are the model's `beBytes 4 (u32OfInt wc)` -/
theorem gen_createMessage_wc (wc : Int) (dl ts : BitVec 64) :
    (Gen.TonConnectMsg.createMessageInts (BitVec.ofInt 32 wc) dl ts).1.map UInt8.ofBitVec
      = TonConnect.beBytes 4 (TonConnect.u32OfInt wc) := by
  rw [gen_beBytes4]
  unfold Gen.TonConnectMsg.createMessageInts TonConnect.u32OfInt
  simp only [List.map_cons, List.map_nil, gen_putByte, BitVec.toNat_ofInt]
  rfl

/-- little-endian `uint32(len(domain))` of a Go `int` length: the regenerated four bytes are the model's
`leBytes 4 (len % 2^32)` -/
theorem gen_createMessage_dl (wc : BitVec 32) (len : Nat) (_hl : len < 2 ^ 63) (ts : BitVec 64) :
    (Gen.TonConnectMsg.createMessageInts wc (BitVec.ofNat 64 len) ts).2.1.map UInt8.ofBitVec
      = TonConnect.leBytes 4 (len % 4294967296) := by
  rw [gen_leBytes4]
  unfold Gen.TonConnectMsg.createMessageInts
  have h : (BitVec.setWidth 32 (BitVec.ofNat 64 len)).toNat = len % 4294967296 := by
    simp only [BitVec.toNat_setWidth, BitVec.toNat_ofNat]; omega
  simp only [List.map_cons, List.map_nil, gen_putByte, h]

/-- little-endian `uint64(int64 ts)`: the regenerated eight bytes are the model's `leBytes 8 (u64OfInt ts)` -/
theorem gen_createMessage_ts (wc : BitVec 32) (dl : BitVec 64) (ts : Int) :
    (Gen.TonConnectMsg.createMessageInts wc dl (BitVec.ofInt 64 ts)).2.2.map UInt8.ofBitVec
      = TonConnect.leBytes 8 (TonConnect.u64OfInt ts) := by
  rw [gen_leBytes8]
  unfold Gen.TonConnectMsg.createMessageInts TonConnect.u64OfInt
  simp only [List.map_cons, List.map_nil, gen_putByte, BitVec.toNat_ofInt]
  rfl

/-- the signed ton-proof message of the model is the Go concatenation
`prefix ++ wc ++ address ++ dl ++ domain ++ ts ++ payload` with the three regenerated integer fields (workchain an
`int32`, timestamp an `int64`, `len(domain)` a Go `int`) -/
theorem gen_createMessageInts (m : TonConnect.Parsed)
    (_hw : -(2 : Int) ^ 31 ≤ m.workchain ∧ m.workchain < 2 ^ 31) (_ht : -(2 : Int) ^ 63 ≤ m.ts ∧ m.ts < 2 ^ 63)
    (hl : m.domain.length < 2 ^ 63) :
    TonConnect.messageBytes m =
      TonConnect.tonProofPrefix
        ++ (Gen.TonConnectMsg.createMessageInts (BitVec.ofInt 32 m.workchain) (BitVec.ofNat 64 m.domain.length)
              (BitVec.ofInt 64 m.ts)).1.map UInt8.ofBitVec
        ++ m.address
        ++ (Gen.TonConnectMsg.createMessageInts (BitVec.ofInt 32 m.workchain) (BitVec.ofNat 64 m.domain.length)
              (BitVec.ofInt 64 m.ts)).2.1.map UInt8.ofBitVec
        ++ m.domain
        ++ (Gen.TonConnectMsg.createMessageInts (BitVec.ofInt 32 m.workchain) (BitVec.ofNat 64 m.domain.length)
              (BitVec.ofInt 64 m.ts)).2.2.map UInt8.ofBitVec
        ++ m.payload := by
  rw [gen_createMessage_wc, gen_createMessage_dl _ _ hl, gen_createMessage_ts]
  rfl

end Tongo.GenTies
