import TongoProofs.Lemmas.BitStringOps
/-! Round-trip helpers: what a reader placed at the old write position sees after a write. Helper lemmas only. -/
namespace Tongo.BitString
open Tongo.Bits

/-- after appending `l` to a state of length `len`, the `|l|` bits at position `len` are `l` -/
theorem nextBits_after_write (s s' : BitString) (l : List Bool) (hs : (abs s).length = s.len)
    (ha : abs s' = abs s ++ l) : nextBits { s' with rCursor := s.len } l.length = l := by
  simp only [nextBits, abs_cursor, ha]
  rw [List.drop_append_of_le_length (by omega), List.drop_of_length_le (by omega), List.nil_append, List.take_length]

theorem bitsToInt_intToBits (n : Nat) (v : Int) (hn : 1 ≤ n) (hlo : -(2 : Int) ^ (n - 1) ≤ v) (hhi : v < (2 : Int) ^ (n - 1)) :
    bitsToInt (intToBits n v) = v := by
  obtain ⟨k, rfl⟩ : ∃ k, n = k + 1 := ⟨n - 1, by omega⟩
  simp only [Nat.add_sub_cancel] at hlo hhi
  have hP : (0 : Int) < (2 : Int) ^ k := Int.pow_pos (by decide)
  rw [intToBits_repr v k hlo hhi, bitsToInt_cons, natToBits_length, bitsToNat_natToBits]
  have h0 : 0 ≤ v % (2 : Int) ^ k := Int.emod_nonneg _ (Int.ne_of_gt hP)
  have hlt : v % (2 : Int) ^ k < (2 : Int) ^ k := Int.emod_lt_of_pos _ hP
  have hm : ((v % (2 : Int) ^ k).toNat % 2 ^ k : Nat) = (v % (2 : Int) ^ k).toNat := by
    apply Nat.mod_eq_of_lt
    have : (v % (2 : Int) ^ k) < ((2 ^ k : Nat) : Int) := by push_cast; exact hlt
    omega
  rw [hm, Int.toNat_of_nonneg h0]
  by_cases hv : v < 0
  · have e : v % (2 : Int) ^ k = v + (2 : Int) ^ k := by
      rw [Int.emod_eq_add_self_emod, Int.emod_eq_of_lt (by omega) (by omega)]
    simp only [hv, decide_true, if_true, e]
    omega
  · have e : v % (2 : Int) ^ k = v := Int.emod_eq_of_lt (by omega) hhi
    simp only [hv, decide_false, Bool.false_eq_true, if_false, e]

end Tongo.BitString

namespace Tongo
open Tongo.Bits Tongo.BitString

theorem write_ne_panic (l : List Bool) (t : Ideal) (p : String) : (Ideal.write l t).1 ≠ .panic p := by
  unfold Ideal.write; split <;> simp

theorem fail_ne_panic (e : String) (t : Ideal) (p : String) : (Ideal.fail e t).1 ≠ .panic p := by
  simp [Ideal.fail]

theorem read_ne_panic (n : Nat) (f : List Bool → Out) (t : Ideal) (p : String) : (Ideal.read n f t).1 ≠ .panic p := by
  unfold Ideal.read; split <;> simp

/-- the specification never panics -/
theorem spec_ne_panic (op : Op) (t : Ideal) (p : String) : (op.spec t).1 ≠ .panic p := by
  cases op <;> simp only [Op.spec, writeUnary_spec_eq] <;> (repeat' split) <;>
    first
    | apply write_ne_panic
    | apply fail_ne_panic
    | apply read_ne_panic
    | simp

end Tongo
