import TongoModel.Json
import TongoProofs.Lemmas.Dec
import TongoProofs.Lemmas.Json
import TongoProofs.Lemmas.JsonValid
/-! Round-trip lemmas for the hand-written scalar forms (coins, magic, ton.Bits256, tl.Int256) and totality of the
scalar parsers. -/
namespace Tongo.Json
open Tongo Tongo.Dec

theorem contains3_false (c a b d : Char) (h1 : c ≠ a) (h2 : c ≠ b) (h3 : c ≠ d) : [a, b, d].contains c = false := by
  have e1 : (c == a) = false := by simpa using h1
  have e2 : (c == b) = false := by simpa using h2
  have e3 : (c == d) = false := by simpa using h3
  simp [List.contains, List.elem, e1, e2, e3]

theorem coinChars_printInt (v : Int) : ∀ c ∈ printInt v, ['"', ' ', '\n'].contains c = false := by
  intro c hc
  exact contains3_false c _ _ _ (printInt_no v '"' (by decide) (by decide) c hc)
    (printInt_no v ' ' (by decide) (by decide) c hc) (printInt_no v '\n' (by decide) (by decide) c hc)

theorem coinChars_printNat (v : Nat) : ∀ c ∈ printNat v, ['"', ' ', '\n'].contains c = false := by
  intro c hc
  exact contains3_false c _ _ _ (printNat_no v '"' (by decide) c hc)
    (printNat_no v ' ' (by decide) c hc) (printNat_no v '\n' (by decide) c hc)

theorem signedCoinsShipped_neg (v : Int) (hv : v < 0) :
    parseSignedCoinsShipped (printSignedCoins v) = .err "parse" := by
  unfold parseSignedCoinsShipped printSignedCoins trimCoins
  rw [trimSet_quote _ (by decide) _ (coinChars_printInt v)]
  unfold printInt
  simp only [hv, if_true]
  simp [parseUint, parseUintLoop, show digitOf '-' = none from by decide]

theorem printHex_no_quote (v : Nat) : ∀ c ∈ printHexNat v, c ≠ '"' := by
  intro c hc
  obtain ⟨d, hd, rfl⟩ := printNatB_digits 16 (by omega) v c hc
  have : ∀ d, d < 16 → digitChar d ≠ '"' := by decide
  exact this d hd

theorem parseMagic_print (v : Nat) (hv : v < 2 ^ 32) : parseMagic (printMagic v) = .ok v := by
  unfold parseMagic printMagic
  rw [trimQuote_quote _ (by
    intro c hc
    simp only [List.mem_cons] at hc
    rcases hc with rfl | rfl | hc
    · decide
    · decide
    · exact printHex_no_quote v c hc)]
  have hp : hasPrefix ['0', 'x'] ('0' :: 'x' :: printHexNat v) = true := by
    simp [hasPrefix, List.isPrefixOf]
  simp only [hp, if_true, List.drop_succ_cons, List.drop_zero]
  unfold printHexNat
  rw [parseUint_printNatB 16 64 (by omega) (by omega) (by omega) (by omega) v]
  have h64 : v < 2 ^ 64 := by omega
  simp only [h64, if_true]
  congr 1
  exact Nat.mod_eq_of_lt hv

/-! ### ton.Bits256 through fmt.Fscanf -/

theorem scanHexPairs_hexLower (bs : List UInt8) :
    scanHexPairs (hexLower bs ++ ['"']) = .ok (bs, ['"']) := by
  induction bs with
  | nil => simp [hexLower, scanHexPairs, isHexDigit, show Hex.charNibble? '"' = none from by decide]
  | cons b t ih =>
    have hb : b.toNat < 256 := b.toNat_lt
    show scanHexPairs (Hex.nibbleChar (b.toNat / 16) :: Hex.nibbleChar (b.toNat % 16) :: (hexLower t ++ ['"'])) = _
    rw [scanHexPairs, charNibble_nibbleChar _ (by omega), charNibble_nibbleChar _ (by omega), ih]
    simp only [u8_split]

theorem scanSkipSpace_lowerHex (c : Char) (r : Str) (h : isLowerHex c = true) : scanSkipSpace (c :: r) = .ok (c :: r) := by
  have h1 : (c == '\n') = false := by
    apply beq_false_of_ne; intro e; subst e; revert h; decide
  have h2 : isScanSpace c = false := by
    simp only [isLowerHex, Bool.or_eq_true, Bool.and_eq_true, decide_eq_true_eq] at h
    simp only [isScanSpace, Bool.or_eq_false_iff, Bool.and_eq_false_iff, decide_eq_false_iff_not, beq_eq_false_iff_ne]
    omega
  simp [scanSkipSpace, h1, h2]

theorem parseBits256ScanR_print (bs : List UInt8) (h : bs.length = 32) :
    parseBits256ScanR (printBitsN bs) = .ok bs := by
  unfold parseBits256ScanR printBitsN quote
  rw [List.cons_append]
  match hh : hexLower bs with
  | [] =>
    have := hexLower_length bs
    rw [hh, h] at this
    cases this
  | c :: r =>
    have hc : isLowerHex c = true := hexLower_chars bs c (by rw [hh]; simp)
    simp only [List.cons_append, scanSkipSpace_lowerHex c _ hc, List.isEmpty_cons, Bool.false_eq_true, if_false]
    rw [← List.cons_append, ← hh, scanHexPairs_hexLower]
    have hne : bs.isEmpty = false := by
      cases bs with
      | nil => cases h
      | cons _ _ => rfl
    simp [hne, h]

theorem parseBits256Scan_print (bs : List UInt8) (h : bs.length = 32) :
    parseBits256Scan (printBitsN bs) = .ok bs := by
  unfold parseBits256Scan
  rw [utf8Decode_ascii, parseBits256ScanR_print bs h]
  intro c hc
  simp only [printBitsN, quote, List.mem_append, List.mem_cons, List.not_mem_nil, or_false] at hc
  rcases hc with (rfl | hc) | rfl
  · decide
  · exact lowerHex_ascii c (hexLower_chars bs c hc)
  · decide

/-! ### tl.Int256 through json.Unmarshal into a string -/

theorem trimWs_quote (s : Str) : trimWs (quote s) = quote s := by
  unfold trimWs quote
  rw [List.cons_append, List.dropWhile_cons_of_neg (by decide), ← List.cons_append, List.reverse_append]
  simp only [List.reverse_cons, List.reverse_nil, List.nil_append, List.singleton_append]
  rw [List.dropWhile_cons_of_neg (by decide)]
  simp

theorem unescape_no_backslash (s : Str) (h : ∀ c ∈ s, c ≠ '\\') : unescape s = s := by
  induction s with
  | nil => rw [unescape]
  | cons c r ih =>
    have hc : c ≠ '\\' := h c (by simp)
    have ih' := ih (fun x hx => h x (by simp [hx]))
    rw [unescape]
    · rw [ih']
    all_goals (intros; rename_i hh _; exact absurd hh hc)

theorem utf8Encode_ascii (s : Str) (h : ∀ c ∈ s, isAscii c = true) : utf8Encode s = s := by
  induction s with
  | nil => rfl
  | cons c r ih =>
    have hc : c.toNat < 0x80 := by simpa [isAscii] using h c (by simp)
    have e : utf8EncodeRune c.toNat = [c] := by
      have h1 : ¬ ((0xD800 ≤ c.toNat ∧ c.toNat ≤ 0xDFFF) ∨ 0x10FFFF < c.toNat) := by omega
      simp only [utf8EncodeRune, h1, if_false, hc, if_true, Char.ofNat_toNat]
    simp only [utf8Encode, List.flatMap_cons, e] at ih ⊢
    rw [ih (fun x hx => h x (by simp [hx]))]
    rfl

theorem goUnquote_plain (s : Str) (hs : ∀ c ∈ s, isSafe c = true) (ha : ∀ c ∈ s, isAscii c = true) : goUnquote s = s := by
  unfold goUnquote
  rw [unescape_no_backslash, utf8Decode_ascii s ha, utf8Encode_ascii s ha]
  intro c hc
  have := hs c hc
  simp only [isSafe, Bool.and_eq_true, bne_iff_ne, ne_eq, decide_eq_true_eq] at this
  exact this.1.2

theorem unmarshalString_quote (s : Str) (hs : ∀ c ∈ s, isSafe c = true) (ha : ∀ c ∈ s, isAscii c = true) :
    unmarshalString (quote s) = .ok s := by
  unfold unmarshalString
  rw [valid_quote s hs, trimWs_quote]
  simp only [Bool.not_true, Bool.false_eq_true, if_false]
  unfold quote
  rw [List.cons_append]
  simp only [List.dropLast_concat]
  rw [goUnquote_plain s hs ha]

theorem parseInt256_print (bs : List UInt8) (h : bs.length = 32) : parseInt256 (printInt256 bs) = .ok bs := by
  unfold parseInt256 printInt256
  rw [unmarshalString_quote _ (hexLower_safe bs) (fun c hc => lowerHex_ascii c (hexLower_chars bs c hc))]
  simp [decodeChars_hexLower, h]

/-! ### totality (no panic) of the scalar parsers -/

theorem toOutcome_total (r : NumRes) : r.toOutcome.isPanic = false := by cases r <;> rfl

theorem total_parseUintN (bits : Nat) (p : Str) : (parseUintN bits p).isPanic = false := toOutcome_total _

theorem parseInt_total (s : Str) (base bits : Nat) : (parseInt s base bits).isPanic = false := by
  unfold parseInt
  split
  · rfl
  · simp only []
    repeat' split
    all_goals rfl

theorem total_parseIntN (bits : Nat) (p : Str) : (parseIntN bits p).isPanic = false := parseInt_total _ _ _

theorem total_parseBigJson (p : Str) : (parseBigJson p).isPanic = false := by
  unfold parseBigJson parseBig
  simp only []
  split
  · rfl
  · split <;> rfl

theorem total_parseBitsN (n : Nat) (p : Str) : (parseBitsN n p).isPanic = false := by
  unfold parseBitsN
  split
  · rfl
  · split <;> rfl

theorem scanSkipSpace_total (s : Str) : (scanSkipSpace s).isPanic = false := by
  induction s with
  | nil => rfl
  | cons c r ih =>
    unfold scanSkipSpace
    split
    · rfl
    · split
      · exact ih
      · rfl

theorem scanHexPairs_total (s : Str) : (scanHexPairs s).isPanic = false := by
  induction h : s.length using Nat.strongRecOn generalizing s with
  | _ n ih =>
    match s with
    | [] => rfl
    | [a] => unfold scanHexPairs; split <;> rfl
    | a :: b :: r =>
      have ihr := ih r.length (by subst h; simp; omega) r rfl
      unfold scanHexPairs
      split
      · rfl
      · split
        · rfl
        · split
          · rfl
          · rfl
          · rename_i e he; rw [he] at ihr; cases ihr

theorem total_parseBits256ScanR (p : Str) : (parseBits256ScanR p).isPanic = false := by
  unfold parseBits256ScanR
  split
  · rename_i r
    have h1 := scanSkipSpace_total r
    split
    · rename_i r' _
      split
      · rfl
      · have h2 := scanHexPairs_total r'
        split
        · split
          · rfl
          · split
            · rfl
            · split <;> rfl
        · rfl
        · rename_i e he; rw [he] at h2; cases h2
    · rfl
    · rename_i e he; rw [he] at h1; cases h1
  · rfl

theorem total_parseBits256Scan (p : Str) : (parseBits256Scan p).isPanic = false :=
  total_parseBits256ScanR _

theorem unmarshalString_total (p : Str) : (unmarshalString p).isPanic = false := by
  unfold unmarshalString
  split
  · rfl
  · simp only []
    split <;> rfl

theorem total_parseInt256 (p : Str) : (parseInt256 p).isPanic = false := by
  unfold parseInt256
  have h := unmarshalString_total p
  split
  · split
    · rfl
    · split <;> rfl
  · rfl
  · rename_i e he; rw [he] at h; cases h

theorem total_parseGrams (p : Str) : (parseGrams p).isPanic = false := toOutcome_total _
theorem total_parseSignedCoins (p : Str) : (parseSignedCoins p).isPanic = false := parseInt_total _ _ _

theorem total_parseMagic (p : Str) : (parseMagic p).isPanic = false := by
  unfold parseMagic
  simp only []
  split <;> rfl

theorem total_parseMaybe {α} (pa : Str → Outcome α) (p : Str) (h : ∀ q, (pa q).isPanic = false) :
    (parseMaybe pa p).isPanic = false := by
  unfold parseMaybe
  split
  · rfl
  · split
    · rfl
    · have := h (trimWs p)
      split
      · rfl
      · rfl
      · rename_i e he; rw [he] at this; cases this

end Tongo.Json
