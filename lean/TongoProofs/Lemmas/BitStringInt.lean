import TongoProofs.Lemmas.BitStringUint
/-! `ReadInt` / `WriteInt`: two's complement on top of the unsigned reader/writer, with Go's 64-bit wrap-around.
Helper lemmas only. -/
namespace Tongo.BitString
open Tongo.Bits

theorem i64OfNat_small (u : Nat) (h : u < 2 ^ 63) : i64OfNat u = (u : Int) := by
  unfold i64OfNat
  split <;> omega

theorem i64OfNat_wrap (P u : Nat) (hP : 1 ≤ P) (hP2 : P ≤ 2 ^ 63) (hu : u < P) :
    i64OfNat ((u + 2 ^ 64 - P) % 2 ^ 64) = (u : Int) - P := by
  unfold i64OfNat
  split <;> omega

theorem bitsToInt_cons (b : Bool) (t : List Bool) :
    bitsToInt (b :: t) = if b then (bitsToNat t : Int) - (2 ^ t.length : Int) else bitsToNat t := rfl

/-- `ReadInt(n)` for 1 ≤ n ≤ 64: the two's complement value of the next `n` bits -/
theorem readInt_ok (n : Nat) (s : BitString) (h8 : s.len ≤ 8 * s.buf.length) (h1 : 1 ≤ n) (h64 : n ≤ 64)
    (h : s.rCursor + n ≤ s.len) :
    readInt n s = (.ok (bitsToInt (nextBits s n)), { s with rCursor := s.rCursor + n }) := by
  obtain ⟨k, rfl⟩ : ∃ k, n = k + 1 := ⟨n - 1, by omega⟩
  have hn : s.rCursor < s.len := by omega
  have a1 : ¬ k + 1 > 64 := by omega
  have a2 : ¬ k + 1 = 0 := by omega
  have a3 : ¬ s.len < s.rCursor + (k + 1) := by omega
  rw [nextBits_succ s k h8 hn, bitsToInt_cons]
  simp only [readInt, a1, a2, a3, if_false, bind_run, needBits_run, ite_run, mustReadBit_ok s h8 hn]
  generalize (abs s)[s.rCursor]'(by rw [abs_length h8]; exact hn) = b
  by_cases hk : k = 0
  · subst hk
    cases b <;> simp [nextBits]
  · have a4 : ¬ k + 1 = 1 := by omega
    have hr := readUint_ok k { s with rCursor := s.rCursor + 1 } h8 (by omega) (by simp; omega)
    have hlen : (nextBits { s with rCursor := s.rCursor + 1 } k).length = k := nextBits_length _ _ h8 (by simp; omega)
    have hlt := bitsToNat_lt (nextBits { s with rCursor := s.rCursor + 1 } k)
    rw [hlen] at hlt
    have hp : 2 ^ k ≤ 2 ^ 63 := Nat.pow_le_pow_right (by decide) (by omega)
    simp only [a4, if_false, Nat.add_sub_cancel]
    cases b
    · simp only [Bool.false_eq_true, if_false, hr, pure_run, hlen]
      rw [i64OfNat_small _ (by omega)]
      simp [Nat.add_assoc, Nat.add_comm 1 k]
    · simp only [if_true, hr, pure_run, hlen]
      rw [i64OfNat_wrap (2 ^ k) _ (Nat.two_pow_pos k) hp hlt]
      simp [Nat.add_assoc, Nat.add_comm 1 k]

theorem readInt_underflow (n : Nat) (s : BitString) (h1 : 1 ≤ n) (h64 : n ≤ 64) (h : s.len < s.rCursor + n) :
    readInt n s = (.err errNotEnough, s) := by
  have a1 : ¬ n > 64 := by omega
  have a2 : ¬ n = 0 := by omega
  simp only [readInt, a1, a2, if_false, bind_run, needBits_run, h, if_true]

theorem readInt_zero (s : BitString) : readInt 0 s = (.err "integer can't be zero size", s) := by
  simp [readInt]

theorem readInt_toowide (n : Nat) (s : BitString) (hn : 64 < n) :
    readInt n s = (.err "too much bits for int64", s) := by
  simp only [readInt, gt_iff_lt, hn, if_true, throwErr_run]

/-! ### WriteInt -/

theorem two_pow_toNat (k : Nat) : ((2 : Int) ^ k).toNat = 2 ^ k := by
  have : ((2 : Int) ^ k) = ((2 ^ k : Nat) : Int) := by simp
  rw [this, Int.toNat_natCast]

/-- the low `k ≤ 64` bits of the uint64 image of an integer are its residue mod `2^k` -/
theorem toNat_emod_pow (a : Int) (k : Nat) (hk : k ≤ 64) :
    (a % (2 : Int) ^ 64).toNat % 2 ^ k = (a % (2 : Int) ^ k).toNat := by
  have hd : ((2 : Int) ^ k) ∣ (2 : Int) ^ 64 := pow_dvd_pow 2 hk
  have h0 : 0 ≤ a % (2 : Int) ^ 64 := Int.emod_nonneg _ (by decide)
  have h1 : (0 : Int) ≤ (2 : Int) ^ k := Int.le_of_lt (Int.pow_pos (by decide))
  rw [← Int.emod_emod_of_dvd a hd, Int.toNat_emod h0 h1, two_pow_toNat]

theorem shl1I64_dvd (k : Nat) (hk : k < 64) : ∃ c : Int, shl1I64 k = (2 : Int) ^ k * c := by
  have h1 : ¬ k ≥ 64 := by omega
  simp only [shl1I64, h1, if_false]
  by_cases h63 : k = 63
  · subst h63; exact ⟨-1, by decide⟩
  · have hp : 2 ^ k < 2 ^ 63 := Nat.pow_lt_pow_right (by decide) (by omega)
    rw [i64OfNat_small _ hp]
    exact ⟨1, by simp⟩

/-- `WriteInt(v, n)`, n ≥ 2: the sign bit, then the `n − 1` low bits of the value (for every int64 `v`) -/
theorem writeInt_eq (v : Int) (n : Nat) (hn : 2 ≤ n) :
    writeInt v n = writeBitArray (decide (v < 0) :: natToBits (n - 1) (v % (2 : Int) ^ 64).toNat) := by
  have a1 : ¬ n = 0 := by omega
  have a2 : ¬ n = 1 := by omega
  simp only [writeInt, a1, a2, if_false]
  by_cases hv : v < 0
  · simp only [hv, if_true, decide_true, writeBitArray_cons, writeUint_eq]
    congr 1
    funext _
    congr 1
    -- only the residue mod 2^(n-1) matters
    rw [← natToBits_mod (n - 1) (u64OfInt _), ← natToBits_mod (n - 1) ((v % (2 : Int) ^ 64).toNat)]
    congr 1
    by_cases hk : n - 1 < 64
    · obtain ⟨c, hc⟩ := shl1I64_dvd (n - 1) hk
      rw [u64OfInt, toNat_emod_pow _ _ (by omega), toNat_emod_pow _ _ (by omega), hc, Int.add_comm,
        Int.add_mul_emod_self_left]
    · have : shl1I64 (n - 1) = 0 := by
        have : n - 1 ≥ 64 := by omega
        simp [shl1I64, this, i64OfNat]
      rw [this, Int.zero_add, u64OfInt]
  · simp only [hv, if_false, decide_false, writeBitArray_cons, writeUint_eq, u64OfInt]

/-- for a representable value this is the two's complement encoding -/
theorem signbit_low_eq_intToBits (v : Int) (n : Nat) (hn : 1 ≤ n) (hlo : -(2 : Int) ^ (n - 1) ≤ v)
    (hhi : v < (2 : Int) ^ (n - 1)) (h64 : n ≤ 64) :
    decide (v < 0) :: natToBits (n - 1) (v % (2 : Int) ^ 64).toNat = intToBits n v := by
  obtain ⟨k, rfl⟩ : ∃ k, n = k + 1 := ⟨n - 1, by omega⟩
  simp only [Nat.add_sub_cancel] at *
  rw [intToBits, natToBits]
  have hP : (0 : Int) < (2 : Int) ^ k := Int.pow_pos (by decide)
  have hP2 : (2 : Int) ^ (k + 1) = 2 * (2 : Int) ^ k := by rw [pow_succ]; ring
  congr 1
  · -- the sign bit
    rw [Nat.testBit_eq_decide_div_mod_eq]
    by_cases hv : v < 0
    · have e : v % (2 : Int) ^ (k + 1) = v + (2 : Int) ^ (k + 1) := by
        rw [Int.emod_eq_add_self_emod, Int.emod_eq_of_lt (by omega) (by omega)]
      have e2 : (v % (2 : Int) ^ (k + 1)).toNat = 2 ^ k + (v + (2 : Int) ^ k).toNat := by
        rw [e, hP2]
        have : (0 : Int) ≤ v + 2 ^ k := by omega
        have h3 : v + 2 * (2 : Int) ^ k = ((2 ^ k : Nat) : Int) + ((v + (2 : Int) ^ k).toNat : Int) := by
          rw [Int.toNat_of_nonneg this]; push_cast; ring
        rw [h3, ← Int.natCast_add, Int.toNat_natCast]
      have hlt : (v + (2 : Int) ^ k).toNat < 2 ^ k := by
        have : (v + (2 : Int) ^ k) < ((2 ^ k : Nat) : Int) := by push_cast; omega
        omega
      rw [e2, Nat.add_div_left _ (Nat.two_pow_pos k), Nat.div_eq_of_lt hlt]
      simp [hv]
    · have hv0 : 0 ≤ v := by omega
      have e : v % (2 : Int) ^ (k + 1) = v := Int.emod_eq_of_lt hv0 (by omega)
      have hlt : v.toNat < 2 ^ k := by
        have : v < ((2 ^ k : Nat) : Int) := by push_cast; omega
        omega
      rw [e, Nat.div_eq_of_lt hlt]
      simp [hv]
  · -- the low bits: equal residues mod 2^k
    rw [← natToBits_mod k ((v % (2 : Int) ^ 64).toNat), ← natToBits_mod k ((v % (2 : Int) ^ (k + 1)).toNat)]
    congr 1
    rw [toNat_emod_pow _ _ (by omega)]
    have hd : ((2 : Int) ^ k) ∣ (2 : Int) ^ (k + 1) := pow_dvd_pow 2 (by omega)
    have h0 : 0 ≤ v % (2 : Int) ^ (k + 1) := Int.emod_nonneg _ (Int.ne_of_gt (Int.pow_pos (by decide)))
    rw [← Int.emod_emod_of_dvd v hd, Int.toNat_emod h0 (by omega), two_pow_toNat]

end Tongo.BitString
