import TongoModel.Tlb.Enc
/-! `marshal_no_panic_by_construction`: the encoder model never answers `panic` — for ANY descriptor, ANY value (also outside `inDom`:
nil pointers, wrong shapes), any builder. After the `fix:` commits that turned the three nil dereferences of the Go
encoder (a nil pointer to a MarshalerTLB type, a MsgAddress without its payload, a VmCellSlice without a cell) into
errors there is no `panic` constructor left on the encoder side of the model; this file is the proof that none is
reachable through the dictionary encoder of C05 either. -/
namespace Tongo.Tlb
open Tongo Tongo.Bits

/-- the outcome is a value or an error -/
structure NP {α : Type} (o : Outcome α) : Prop where
  np : o.isPanic = false

theorem NP.ne {α} {o : Outcome α} (h : NP o) (p : String) : o ≠ .panic p := by
  intro e; have := h.np; rw [e] at this; cases this

theorem NP.ok {α} (a : α) : NP (Outcome.ok a) := ⟨rfl⟩
theorem NP.err {α} (e : String) : NP (Outcome.err e : Outcome α) := ⟨rfl⟩
theorem NP.pure {α} (a : α) : NP (pure a : Outcome α) := NP.ok a

theorem NP.bind {α β} {x : Outcome α} {f : α → Outcome β} (hx : NP x) (hf : ∀ a, NP (f a)) : NP (x >>= f) := by
  cases x with
  | ok a => exact hf a
  | err e => exact NP.err e
  | panic p => cases hx.np

theorem NP.bind' {α β} {x : Outcome α} {f : α → Outcome β} (hx : NP x) (hf : ∀ a, NP (f a)) : NP (x.bind f) :=
  NP.bind hx hf

theorem NP.ite {α} {c : Prop} [Decidable c] {a b : Outcome α} (ha : NP a) (hb : NP b) : NP (if c then a else b) := by
  split <;> assumption

theorem np_writeBits (b : Builder) (xs : List Bool) : NP (b.writeBits xs) := by
  unfold Builder.writeBits; exact NP.ite (NP.ok _) (NP.err _)
theorem np_writeBit (b : Builder) (x : Bool) : NP (b.writeBit x) := np_writeBits _ _
theorem np_writeUint (b : Builder) (v n : Nat) : NP (b.writeUint v n) := np_writeBits _ _
theorem np_writeBytes (b : Builder) (bs : List UInt8) : NP (b.writeBytes bs) := np_writeBits _ _
theorem np_writeLimUint (b : Builder) (v n : Nat) : NP (b.writeLimUint v n) := np_writeBits _ _
theorem np_writeInt (b : Builder) (v : Int) (n : Nat) : NP (b.writeInt v n) := by
  unfold Builder.writeInt; exact NP.ite (NP.err _) (NP.ite (NP.err _) (np_writeBits _ _))
theorem np_addRef (b : Builder) (c : Cell) : NP (b.addRef c) := by
  unfold Builder.addRef; exact NP.ite (NP.ok _) (NP.err _)
theorem np_writeUnary (b : Builder) (n : Nat) : NP (b.writeUnary n) := by
  unfold Builder.writeUnary; exact NP.ite (NP.ok _) (NP.err _)
theorem np_writeBigUint (b : Builder) (v : Int) (n : Nat) : NP (b.writeBigUint v n) := by
  unfold Builder.writeBigUint; exact NP.ite (NP.err _) (np_writeBits _ _)
theorem np_writeBigInt (b : Builder) (v : Int) (n : Nat) : NP (b.writeBigInt v n) := by
  unfold Builder.writeBigInt
  refine NP.ite (NP.ite (np_writeBit _ _) (NP.ite (np_writeBit _ _) (NP.err _))) (NP.ite ?_ ?_)
  · exact NP.bind (np_writeBit _ _) fun _ => np_writeBigUint _ _ _
  · exact NP.bind (np_writeBit _ _) fun _ => np_writeBigUint _ _ _

theorem np_foldAddRef : ∀ (rs : List Cell) (b : Builder), NP (rs.foldlM (fun b r => b.addRef r) b)
  | [], b => NP.ok b
  | r :: rs, b => by
    rw [List.foldlM_cons]
    exact NP.bind (np_addRef b r) fun b' => np_foldAddRef rs b'

theorem np_mapM {α β} (f : α → Outcome β) (hf : ∀ a, NP (f a)) : ∀ l, NP (mapMOutcome f l)
  | [] => NP.ok _
  | a :: as => by
    unfold mapMOutcome
    exact NP.bind (hf a) fun _ => NP.bind (np_mapM f hf as) fun _ => NP.pure _

/-- closes goals `NP (…)` built from binds, conditionals, matches and the writers above -/
syntax "np_auto" : tactic
macro_rules
  | `(tactic| np_auto) => `(tactic| repeat (any_goals first
      | intro _ | exact NP.ok _ | exact NP.err _ | exact NP.pure _ | assumption
      | exact np_writeBits _ _ | exact np_writeBit _ _ | exact np_writeUint _ _ _ | exact np_writeBytes _ _
      | exact np_writeLimUint _ _ _ | exact np_writeInt _ _ _ | exact np_addRef _ _ | exact np_writeUnary _ _
      | exact np_writeBigUint _ _ _ | exact np_writeBigInt _ _ _ | exact np_foldAddRef _ _
      | apply NP.bind | apply NP.bind' | apply NP.ite | apply_assumption | split))

namespace Prim
theorem np_encVarUint (n : Nat) (v : Int) (b : Builder) : NP (encVarUint n v b) := by
  unfold encVarUint; np_auto
theorem np_encSnakeAux : ∀ (fuel : Nat) (bs : List Bool) (b : Builder), NP (encSnakeAux fuel bs b)
  | 0, _, _ => NP.err _
  | fuel + 1, bs, b => by
    unfold encSnakeAux
    have ih := np_encSnakeAux fuel
    simp only
    refine NP.ite (NP.bind (np_writeBits _ _) fun _ => NP.bind (ih _ _) fun _ => np_addRef _ _) (np_writeBits _ _)
theorem np_encAnycast (v : Val) (b : Builder) : NP (encAnycast v b) := by
  unfold encAnycast; np_auto
theorem np_encMaybeAnycast (v : Val) (b : Builder) : NP (encMaybeAnycast v b) := by
  unfold encMaybeAnycast
  split
  · np_auto
  · exact NP.bind (np_writeBit _ _) fun _ => np_encAnycast _ _
  · np_auto
theorem np_encMsgAddress (v : Val) (b : Builder) : NP (encMsgAddress v b) := by
  have h := np_encMaybeAnycast
  unfold encMsgAddress
  np_auto
theorem np_encPayloadItems (v : Val) (b : Builder) : NP (encPayloadItems v b) := by
  fun_induction encPayloadItems v b <;> np_auto
theorem np_encW5Actions (v : Val) (b : Builder) : NP (encW5Actions v b) := by
  fun_induction encW5Actions v b <;> np_auto
theorem np_encVmCellSlice (v : Val) (b : Builder) : NP (encVmCellSlice v b) := by
  unfold encVmCellSlice; np_auto
theorem np_enc (p : Prim) (v : Val) (b : Builder) : NP (Prim.enc p v b) := by
  have h1 := np_encVarUint
  have h2 := np_encSnakeAux
  have h3 := np_encAnycast
  have h4 := np_encMsgAddress
  have h5 := np_encPayloadItems
  have h6 := np_encW5Actions
  have h7 := np_encVmCellSlice
  unfold Prim.enc encGrams encSignedCoins encSnake encAccountStatus encAccStatusChange encComputeSkipReason
    encPayloadV1toV4
  np_auto
end Prim

/-! ### C05's dictionary encoder: the only source of a panic is the value codec -/
section hashmap
open Tongo.Hashmap
variable {V : Type}

theorem np_mkCell (bits : List Bool) (refs : List Cell) : NP (mkCell bits refs) := by
  unfold mkCell; np_auto

theorem np_labelLoop : ∀ (a c : Key) (room : Int) (bl : Bool), NP (labelLoop room bl a c)
  | [], _, _, _ => by unfold labelLoop; exact NP.ok _
  | _ :: _, [], _, _ => by unfold labelLoop; exact NP.err _
  | b' :: rest', bR :: last', room, bl => by
    unfold labelLoop
    have ih := np_labelLoop rest' last' (room - 1) b'
    refine NP.ite (NP.ok _) (NP.ite (NP.err _) ?_)
    cases h : labelLoop (room - 1) b' rest' last' with
    | ok l => exact NP.ok _
    | err e => exact NP.err _
    | panic p => rw [h] at ih; cases ih.np

theorem np_commonLabel (ks : Int) (a c : Key) : NP (commonLabel ks a c) := by
  unfold commonLabel; split
  · exact NP.err _
  · exact np_labelLoop _ _ _ _

theorem np_splitKeys (l : Nat) : ∀ (kvs : List (Key × V)), NP (splitKeys l kvs)
  | [] => by unfold splitKeys; exact NP.ok _
  | (k, v) :: rest => by
    unfold splitKeys
    have ih := np_splitKeys l rest
    refine NP.ite (NP.err _) ?_
    split
    · exact NP.err _
    · cases h : splitKeys l rest with
      | ok r => obtain ⟨L, R⟩ := r; exact NP.ok _
      | err e => exact NP.err _
      | panic p => rw [h] at ih; cases ih.np

theorem np_encodeMap (C : Codec V) (hC : ∀ v, NP (C.enc v)) :
    ∀ (fuel : Nat) (kvs : List (Key × V)) (ks : Int), NP (encodeMap C fuel kvs ks)
  | 0, _, _ => by unfold encodeMap; exact NP.err _
  | fuel + 1, kvs, ks => by
    have ih := np_encodeMap C hC fuel
    unfold encodeMap
    split
    · exact NP.err _
    · rename_i k v
      have := hC v
      cases h : C.enc v with
      | ok r => obtain ⟨vb, vr⟩ := r; exact np_mkCell _ _
      | err e => exact NP.err _
      | panic p => rw [h] at this; cases this.np
    · unfold encodeFork
      rename_i k0 v0 kv1 more
      generalize hk : ((k0, v0) :: kv1 :: more) = kvs'
      have h1 := np_commonLabel ks k0 ((kv1 :: more).getLast (by simp)).1
      cases hl : commonLabel ks k0 ((kv1 :: more).getLast (by simp)).1 with
      | panic p => rw [hl] at h1; cases h1.np
      | err e => exact NP.err _
      | ok label =>
        simp only
        have h2 := np_splitKeys (V := V) label.length kvs'
        cases hs : splitKeys label.length kvs' with
        | panic p => rw [hs] at h2; cases h2.np
        | err e => exact NP.err _
        | ok r =>
          obtain ⟨L, R⟩ := r
          dsimp only
          have h3 := ih L (ks - label.length - 1)
          cases hL : encodeMap C fuel L (ks - label.length - 1) with
          | panic p => rw [hL] at h3; cases h3.np
          | err e => exact NP.err _
          | ok l =>
            dsimp only
            have h4 := ih R (ks - label.length - 1)
            cases hR : encodeMap C fuel R (ks - label.length - 1) with
            | panic p => rw [hR] at h4; cases h4.np
            | err e => exact NP.err _
            | ok r => dsimp only; exact np_mkCell _ _

theorem np_marshal (C : Codec V) (hC : ∀ v, NP (C.enc v)) (n : Nat) (kvs : List (Key × V)) : NP (marshal C n kvs) := by
  unfold marshal
  exact NP.ite (NP.ok _) (np_encodeMap C hC _ _ _)
end hashmap

/-- the four mutually recursive encoders at one fuel level -/
structure NPInv (env : Env) (f : Nat) : Prop where
  enc : ∀ T v b, NP (encode env f T v b)
  field : ∀ ft T v b, NP (encodeField env f ft T v b)
  fields : ∀ fs v b, NP (encodeFields env f fs v b)
  stack : ∀ e v b, NP (encodeStack env f e v b)

theorem np_encodeTag (tg : Option Tag) (b : Builder) : NP (encodeTag tg b) := by
  unfold encodeTag; np_auto

theorem np_valueCodecEnc (enc : Val → Outcome Builder) (h : ∀ v, NP (enc v)) (v : Val) :
    NP ((valueCodecEnc enc).enc v) := by
  unfold valueCodecEnc
  exact NP.bind' (h v) fun _ => NP.ok _

theorem NPInv.zero (env : Env) : NPInv env 0 :=
  ⟨fun _ _ _ => by unfold encode; exact NP.err _, fun _ _ _ _ => by unfold encodeField; exact NP.err _,
   fun _ _ _ => by unfold encodeFields; exact NP.err _, fun _ _ _ => by unfold encodeStack; exact NP.err _⟩

section
variable {env : Env} {f : Nat}

theorem np_hmap (ih : NPInv env f) (k : Ty) (ks : List Val) :
    NP (mapMOutcome (fun kv => (encode env f k kv Builder.empty).bind fun kb => .ok kb.bits) ks) :=
  np_mapM _ (fun _ => NP.bind' (ih.enc _ _ _) fun _ => NP.ok _) ks

theorem np_hmar (ih : NPInv env f) (t : Ty) (n : Nat) (kvs : List (Hashmap.Key × Val)) :
    NP (Hashmap.marshal (valueCodecEnc (fun x => encode env f t x Builder.empty)) n kvs) :=
  np_marshal _ (np_valueCodecEnc _ (fun _ => ih.enc _ _ _)) n kvs

theorem np_hemap (ih : NPInv env f) (t : Ty) (fuel : Nat) (kvs : List (Hashmap.Key × Val)) (ks : Int) :
    NP (Hashmap.encodeMap (valueCodecEnc (fun x => encode env f t x Builder.empty)) fuel kvs ks) :=
  np_encodeMap _ (np_valueCodecEnc _ (fun _ => ih.enc _ _ _)) fuel kvs ks

theorem np_enc_uint (ih : NPInv env f) (n : Nat) (v : Val) (b : Builder) : NP (encode env (f + 1) (.uint n) v b) := by
  have he := ih.enc
  have hfs := ih.fields
  have hst := ih.stack
  have htag := np_encodeTag
  have hprim := Prim.np_enc
  have hmap := np_hmap ih
  have hmar := np_hmar ih
  have hemap := np_hemap ih
  simp only [encode]
  np_auto

theorem np_enc_int (ih : NPInv env f) (n : Nat) (v : Val) (b : Builder) : NP (encode env (f + 1) (.int n) v b) := by
  have he := ih.enc
  have hfs := ih.fields
  have hst := ih.stack
  have htag := np_encodeTag
  have hprim := Prim.np_enc
  have hmap := np_hmap ih
  have hmar := np_hmar ih
  have hemap := np_hemap ih
  simp only [encode]
  np_auto

theorem np_enc_bool (ih : NPInv env f)  (v : Val) (b : Builder) : NP (encode env (f + 1) .bool v b) := by
  have he := ih.enc
  have hfs := ih.fields
  have hst := ih.stack
  have htag := np_encodeTag
  have hprim := Prim.np_enc
  have hmap := np_hmap ih
  have hmar := np_hmar ih
  have hemap := np_hemap ih
  simp only [encode]
  np_auto

theorem np_enc_bytes (ih : NPInv env f) (n : Nat) (v : Val) (b : Builder) : NP (encode env (f + 1) (.bytes n) v b) := by
  have he := ih.enc
  have hfs := ih.fields
  have hst := ih.stack
  have htag := np_encodeTag
  have hprim := Prim.np_enc
  have hmap := np_hmap ih
  have hmar := np_hmar ih
  have hemap := np_hemap ih
  simp only [encode]
  np_auto

theorem np_enc_cell (ih : NPInv env f)  (v : Val) (b : Builder) : NP (encode env (f + 1) .cell v b) := by
  have he := ih.enc
  have hfs := ih.fields
  have hst := ih.stack
  have htag := np_encodeTag
  have hprim := Prim.np_enc
  have hmap := np_hmap ih
  have hmar := np_hmar ih
  have hemap := np_hemap ih
  simp only [encode]
  np_auto

theorem np_enc_ptr (ih : NPInv env f) (m : Bool) (t : Ty) (v : Val) (b : Builder) : NP (encode env (f + 1) (.ptr m t) v b) := by
  have he := ih.enc
  have hfs := ih.fields
  have hst := ih.stack
  have htag := np_encodeTag
  have hprim := Prim.np_enc
  have hmap := np_hmap ih
  have hmar := np_hmar ih
  have hemap := np_hemap ih
  simp only [encode]
  np_auto

theorem np_enc_struct (ih : NPInv env f) (fs : Fields) (v : Val) (b : Builder) : NP (encode env (f + 1) (.struct fs) v b) := by
  have he := ih.enc
  have hfs := ih.fields
  have hst := ih.stack
  have htag := np_encodeTag
  have hprim := Prim.np_enc
  have hmap := np_hmap ih
  have hmar := np_hmar ih
  have hemap := np_hemap ih
  simp only [encode]
  np_auto

theorem np_enc_sum (ih : NPInv env f) (cs : Ctors) (v : Val) (b : Builder) : NP (encode env (f + 1) (.sum cs) v b) := by
  have he := ih.enc
  have hfs := ih.fields
  have hst := ih.stack
  have htag := np_encodeTag
  have hprim := Prim.np_enc
  have hmap := np_hmap ih
  have hmar := np_hmar ih
  have hemap := np_hemap ih
  simp only [encode]
  np_auto

theorem np_enc_named (ih : NPInv env f) (id : Nat) (v : Val) (b : Builder) : NP (encode env (f + 1) (.named id) v b) := by
  have he := ih.enc
  have hfs := ih.fields
  have hst := ih.stack
  have htag := np_encodeTag
  have hprim := Prim.np_enc
  have hmap := np_hmap ih
  have hmar := np_hmar ih
  have hemap := np_hemap ih
  simp only [encode]
  np_auto

theorem np_enc_magic (ih : NPInv env f) (tg : Option Tag) (v : Val) (b : Builder) : NP (encode env (f + 1) (.magic tg) v b) := by
  have he := ih.enc
  have hfs := ih.fields
  have hst := ih.stack
  have htag := np_encodeTag
  have hprim := Prim.np_enc
  have hmap := np_hmap ih
  have hmar := np_hmar ih
  have hemap := np_hemap ih
  simp only [encode]
  np_auto

theorem np_enc_maybe (ih : NPInv env f) (t : Ty) (v : Val) (b : Builder) : NP (encode env (f + 1) (.maybe t) v b) := by
  have he := ih.enc
  have hfs := ih.fields
  have hst := ih.stack
  have htag := np_encodeTag
  have hprim := Prim.np_enc
  have hmap := np_hmap ih
  have hmar := np_hmar ih
  have hemap := np_hemap ih
  simp only [encode]
  np_auto

theorem np_enc_either (ih : NPInv env f) (l r : Ty) (v : Val) (b : Builder) : NP (encode env (f + 1) (.either l r) v b) := by
  have he := ih.enc
  have hfs := ih.fields
  have hst := ih.stack
  have htag := np_encodeTag
  have hprim := Prim.np_enc
  have hmap := np_hmap ih
  have hmar := np_hmar ih
  have hemap := np_hemap ih
  simp only [encode]
  np_auto

theorem np_enc_eitherRef (ih : NPInv env f) (t : Ty) (v : Val) (b : Builder) : NP (encode env (f + 1) (.eitherRef t) v b) := by
  have he := ih.enc
  have hfs := ih.fields
  have hst := ih.stack
  have htag := np_encodeTag
  have hprim := Prim.np_enc
  have hmap := np_hmap ih
  have hmar := np_hmar ih
  have hemap := np_hemap ih
  simp only [encode]
  np_auto

theorem np_enc_refT (ih : NPInv env f) (t : Ty) (v : Val) (b : Builder) : NP (encode env (f + 1) (.refT t) v b) := by
  have he := ih.enc
  have hfs := ih.fields
  have hst := ih.stack
  have htag := np_encodeTag
  have hprim := Prim.np_enc
  have hmap := np_hmap ih
  have hmar := np_hmar ih
  have hemap := np_hemap ih
  simp only [encode]
  np_auto

theorem np_enc_prim (ih : NPInv env f) (p : Prim) (v : Val) (b : Builder) : NP (encode env (f + 1) (.prim p) v b) := by
  have he := ih.enc
  have hfs := ih.fields
  have hst := ih.stack
  have htag := np_encodeTag
  have hprim := Prim.np_enc
  have hmap := np_hmap ih
  have hmar := np_hmar ih
  have hemap := np_hemap ih
  simp only [encode]
  np_auto

theorem np_enc_vmStack (ih : NPInv env f) (e : Ty) (v : Val) (b : Builder) : NP (encode env (f + 1) (.vmStack e) v b) := by
  have he := ih.enc
  have hfs := ih.fields
  have hst := ih.stack
  have htag := np_encodeTag
  have hprim := Prim.np_enc
  have hmap := np_hmap ih
  have hmar := np_hmar ih
  have hemap := np_hemap ih
  simp only [encode]
  np_auto

theorem np_enc_dictE (ih : NPInv env f) (k t : Ty) (v : Val) (b : Builder) : NP (encode env (f + 1) (.dictE k t) v b) := by
  have he := ih.enc
  have hfs := ih.fields
  have hst := ih.stack
  have htag := np_encodeTag
  have hprim := Prim.np_enc
  have hmap := np_hmap ih
  have hmar := np_hmar ih
  have hemap := np_hemap ih
  simp only [encode]
  np_auto

theorem np_enc_dict (ih : NPInv env f) (k t : Ty) (v : Val) (b : Builder) : NP (encode env (f + 1) (.dict k t) v b) := by
  have he := ih.enc
  have hfs := ih.fields
  have hst := ih.stack
  have htag := np_encodeTag
  have hprim := Prim.np_enc
  have hmap := np_hmap ih
  have hmar := np_hmar ih
  have hemap := np_hemap ih
  simp only [encode]
  np_auto

theorem np_enc_chain (ih : NPInv env f) (e : Ty) (v : Val) (b : Builder) : NP (encode env (f + 1) (.chain e) v b) := by
  have he := ih.enc
  simp only [encode]
  split
  · exact NP.ok _
  · refine NP.bind (he _ _ _) fun b1 => ?_
    split
    · exact NP.ok _
    · exact NP.bind (he _ _ _) fun _ => np_addRef _ _
  · exact NP.err _

theorem np_enc_highload (ih : NPInv env f)  (v : Val) (b : Builder) : NP (encode env (f + 1) .highload v b) := by
  have he := ih.enc
  have hfs := ih.fields
  have hst := ih.stack
  have htag := np_encodeTag
  have hprim := Prim.np_enc
  have hmap := np_hmap ih
  have hmar := np_hmar ih
  have hemap := np_hemap ih
  simp only [encode]
  np_auto

theorem np_enc_dictAugE (ih : NPInv env f) (k t x : Ty) (v : Val) (b : Builder) : NP (encode env (f + 1) (.dictAugE k t x) v b) := by
  have he := ih.enc
  have hfs := ih.fields
  have hst := ih.stack
  have htag := np_encodeTag
  have hprim := Prim.np_enc
  have hmap := np_hmap ih
  have hmar := np_hmar ih
  have hemap := np_hemap ih
  simp only [encode]
  np_auto

theorem np_enc_dictAug (ih : NPInv env f) (k t x : Ty) (v : Val) (b : Builder) : NP (encode env (f + 1) (.dictAug k t x) v b) := by
  have he := ih.enc
  have hfs := ih.fields
  have hst := ih.stack
  have htag := np_encodeTag
  have hprim := Prim.np_enc
  have hmap := np_hmap ih
  have hmar := np_hmar ih
  have hemap := np_hemap ih
  simp only [encode]
  np_auto

theorem np_enc_binTree (ih : NPInv env f) (t : Ty) (v : Val) (b : Builder) : NP (encode env (f + 1) (.binTree t) v b) := by
  have he := ih.enc
  have hfs := ih.fields
  have hst := ih.stack
  have htag := np_encodeTag
  have hprim := Prim.np_enc
  have hmap := np_hmap ih
  have hmar := np_hmar ih
  have hemap := np_hemap ih
  simp only [encode]
  np_auto

theorem np_enc_custom (ih : NPInv env f) (id : String) (body aux : Ty) (v : Val) (b : Builder) : NP (encode env (f + 1) (.custom id body aux) v b) := by
  have he := ih.enc
  have hfs := ih.fields
  have hst := ih.stack
  have htag := np_encodeTag
  have hprim := Prim.np_enc
  have hmap := np_hmap ih
  have hmar := np_hmar ih
  have hemap := np_hemap ih
  simp only [encode]
  np_auto

theorem np_enc_encErr (ih : NPInv env f) (id : String) (v : Val) (b : Builder) : NP (encode env (f + 1) (.encErr id) v b) := by
  have he := ih.enc
  have hfs := ih.fields
  have hst := ih.stack
  have htag := np_encodeTag
  have hprim := Prim.np_enc
  have hmap := np_hmap ih
  have hmar := np_hmar ih
  have hemap := np_hemap ih
  simp only [encode]
  np_auto

theorem np_enc_opaque (ih : NPInv env f) (id : String) (v : Val) (b : Builder) : NP (encode env (f + 1) (.opaque id) v b) := by
  have he := ih.enc
  have hfs := ih.fields
  have hst := ih.stack
  have htag := np_encodeTag
  have hprim := Prim.np_enc
  have hmap := np_hmap ih
  have hmar := np_hmar ih
  have hemap := np_hemap ih
  simp only [encode]
  np_auto

theorem np_encField (ih : NPInv env f) (ft : FieldTag) (T : Ty) (v : Val) (b : Builder) :
    NP (encodeField env (f + 1) ft T v b) := by
  have he := ih.enc
  have href : ∀ (T : Ty) (v : Val) (b : Builder), NP (if b.refs.length < cellRefs then do
        let child ← encode env f T v Builder.empty
        pure { b with refs := b.refs ++ [child.toCell] }
      else Outcome.err "too many refs") :=
    fun T v b => NP.ite (NP.bind (he _ _ _) fun _ => NP.pure _) (NP.err _)
  unfold encodeField
  split
  · exact np_encodeTag _ _
  · cases ft with
    | bad => exact NP.err _
    | plain => exact he _ _ _
    | ref => exact href _ _ _
    | maybe =>
      dsimp only
      split
      · exact np_writeBit _ _
      · exact NP.bind (np_writeBit _ _) fun _ => he _ _ _
    | maybeRef =>
      dsimp only
      split
      · exact np_writeBit _ _
      · exact NP.bind (np_writeBit _ _) fun _ => href _ _ _

theorem np_encFields (ih : NPInv env f) : ∀ (fs : Fields) (v : Val) (b : Builder),
    NP (encodeFields env (f + 1) fs v b)
  | .nil, .nil, b => by unfold encodeFields; exact NP.ok _
  | .cons _ ft t rest, .cons v vs, b => by
    unfold encodeFields
    exact NP.bind (ih.field _ _ _ _) fun _ => ih.fields _ _ _
  | .nil, .cons _ _, _ | .nil, .int _, _ | .nil, .bool _, _ | .nil, .bytes _, _ | .nil, .bits _, _ | .nil, .cell _, _
  | .nil, .sym _, _ | .nil, .none, _ | .nil, .magic, _ => by unfold encodeFields; exact NP.err _
  | .cons _ _ _ _, .nil, _ | .cons _ _ _ _, .int _, _ | .cons _ _ _ _, .bool _, _ | .cons _ _ _ _, .bytes _, _
  | .cons _ _ _ _, .bits _, _ | .cons _ _ _ _, .cell _, _ | .cons _ _ _ _, .sym _, _ | .cons _ _ _ _, .none, _
  | .cons _ _ _ _, .magic, _ => by unfold encodeFields; exact NP.err _

theorem np_encStack (ih : NPInv env f) (e : Ty) : ∀ (v : Val) (b : Builder), NP (encodeStack env (f + 1) e v b)
  | .nil, b => by unfold encodeStack; exact NP.ok _
  | .cons x rest, b => by
    unfold encodeStack
    exact NP.bind (ih.stack _ _ _) fun _ => NP.bind (np_addRef _ _) fun _ => ih.enc _ _ _
  | .int _, _ | .bool _, _ | .bytes _, _ | .bits _, _ | .cell _, _ | .sym _, _ | .none, _ | .magic, _ => by
    unfold encodeStack; exact NP.err _

theorem NPInv.succ (ih : NPInv env f) : NPInv env (f + 1) := by
  refine ⟨?_, ?_, ?_, ?_⟩
  · intro T v b
    cases T with
    | uint n => exact np_enc_uint ih _ v b
    | int n => exact np_enc_int ih _ v b
    | bool  => exact np_enc_bool ih  v b
    | bytes n => exact np_enc_bytes ih _ v b
    | cell  => exact np_enc_cell ih  v b
    | ptr m t => exact np_enc_ptr ih _ _ v b
    | struct fs => exact np_enc_struct ih _ v b
    | sum cs => exact np_enc_sum ih _ v b
    | named id => exact np_enc_named ih _ v b
    | magic tg => exact np_enc_magic ih _ v b
    | maybe t => exact np_enc_maybe ih _ v b
    | either l r => exact np_enc_either ih _ _ v b
    | eitherRef t => exact np_enc_eitherRef ih _ v b
    | refT t => exact np_enc_refT ih _ v b
    | prim p => exact np_enc_prim ih _ v b
    | vmStack e => exact np_enc_vmStack ih _ v b
    | dictE k t => exact np_enc_dictE ih _ _ v b
    | dict k t => exact np_enc_dict ih _ _ v b
    | chain e => exact np_enc_chain ih _ v b
    | highload  => exact np_enc_highload ih  v b
    | dictAugE k t x => exact np_enc_dictAugE ih _ _ _ v b
    | dictAug k t x => exact np_enc_dictAug ih _ _ _ v b
    | binTree t => exact np_enc_binTree ih _ v b
    | custom id body aux => exact np_enc_custom ih _ _ _ v b
    | encErr id => exact np_enc_encErr ih _ v b
    | «opaque» id => exact np_enc_opaque ih _ v b
  · exact np_encField ih
  · exact np_encFields ih
  · exact np_encStack ih
end

theorem NPInv.all (env : Env) : ∀ f, NPInv env f
  | 0 => NPInv.zero env
  | f + 1 => (NPInv.all env f).succ
end Tongo.Tlb
