import TongoModel.Boc
/-! A small Hoare calculus for the allocation-counting monad `Tongo.Boc.M`, and the basic facts about slices and
Go integers used by the bag-of-cells proofs. -/
namespace Tongo.Boc
open Tongo

/-! ### slices -/

theorem hasAtLeast_iff (b : Bytes) (n : Nat) : hasAtLeast b n = true ↔ n ≤ b.length := by
  induction b generalizing n with
  | nil => cases n <;> simp [hasAtLeast]
  | cons x t ih => cases n with
    | zero => simp [hasAtLeast]
    | succ n => simp [hasAtLeast, ih]

theorem hasAtLeast_false_iff (b : Bytes) (n : Nat) : hasAtLeast b n = false ↔ b.length < n := by
  rw [← Bool.not_eq_true, hasAtLeast_iff]; omega

theorem lenLt_nat (b : Bytes) (n : Nat) : lenLt b (n : Int) = true ↔ b.length < n := by
  unfold lenLt
  by_cases h : (n : Int) ≤ 0
  · have : n = 0 := by omega
    simp [this]
  · simp only [h, if_false, Bool.not_eq_true', Int.toNat_natCast, hasAtLeast_false_iff]

theorem lenLt_nat_false (b : Bytes) (n : Nat) : lenLt b (n : Int) = false ↔ n ≤ b.length := by
  rw [← Bool.not_eq_true, lenLt_nat]; omega

/-- for any Go int: the test is false exactly when the slice is at least that long (negative ints included) -/
theorem lenLt_false (b : Bytes) (e : Int) : lenLt b e = false ↔ e ≤ (b.length : Int) := by
  unfold lenLt
  by_cases h : e ≤ 0
  · simp only [h, if_true, true_iff]; omega
  · simp only [h, if_false, Bool.not_eq_false', hasAtLeast_iff]; omega

theorem sliceFrom_ok (b : Bytes) (n : Nat) (h : n ≤ b.length) : sliceFrom b n = .ok (b.drop n) := by
  simp [sliceFrom, (hasAtLeast_iff b n).2 h]

theorem sliceTo_ok (b : Bytes) (n : Nat) (h : n ≤ b.length) : sliceTo b n = .ok (b.take n) := by
  simp [sliceTo, (hasAtLeast_iff b n).2 h]

theorem head_ok (b : Bytes) (h : 1 ≤ b.length) : ∃ x, head b = .ok x ∧ b = x :: b.drop 1 := by
  cases b with
  | nil => simp at h
  | cons x t => exact ⟨x, rfl, by simp⟩

/-! ### Go integers -/

theorem toInt_small (x : Nat) (h : x < two63) : toInt x = (x : Int) := by
  have h2 : x < two64 := by unfold two63 at h; unfold two64; omega
  simp [toInt, Nat.mod_eq_of_lt h2, h]

theorem toInt_toNat_le (x : Nat) : (toInt x).toNat ≤ x := by
  unfold toInt
  have := Nat.mod_le x two64
  simp only [Int.ofNat_eq_natCast]
  split <;> omega

theorem wrapI_small (x : Int) (h0 : 0 ≤ x) (h : x < (two63 : Int)) : wrapI x = x := by
  unfold wrapI
  have h2 : x % (Int.ofNat two64) = x := by
    apply Int.emod_eq_of_lt h0
    unfold two63 at h; unfold two64; simp only [Int.ofNat_eq_natCast]; omega
  rw [h2]
  have : (x.toNat : Int) = x := Int.toNat_of_nonneg h0
  rw [toInt_small _ (by omega)]
  exact this

/-- readN never panics when the slice is long enough; it returns a value below 2⁶⁴ and below 256ⁿ -/
theorem readN_ok (n : Nat) (b : Bytes) (acc : Nat) (h : n ≤ b.length) (hacc : acc < two64) :
    ∃ v, readN n b acc = .ok v ∧ v < two64 := by
  induction n generalizing b acc with
  | zero => exact ⟨acc, rfl, hacc⟩
  | succ n ih =>
    cases b with
    | nil => simp at h
    | cons x t =>
      simp only [readN]
      apply ih
      · simpa using h
      · exact Nat.mod_lt _ (by unfold two64; omega)

theorem readN_bound (n : Nat) (b : Bytes) (acc v : Nat) (h : readN n b acc = .ok v) (hacc : acc < 256 ^ k) :
    v < 256 ^ (k + n) := by
  induction n generalizing b acc k with
  | zero => simp [readN] at h; subst h; simpa using hacc
  | succ n ih =>
    cases b with
    | nil => simp [readN] at h
    | cons x t =>
      simp only [readN] at h
      have hx : x.toNat < 256 := x.toNat_lt
      have h1 : (acc * 256 + x.toNat) % two64 < 256 ^ (k + 1) := by
        apply Nat.lt_of_le_of_lt (Nat.mod_le _ _)
        rw [Nat.pow_succ]
        calc acc * 256 + x.toNat < acc * 256 + 256 := by omega
          _ = (acc + 1) * 256 := by omega
          _ ≤ 256 ^ k * 256 := Nat.mul_le_mul_right _ hacc
      have := ih t _ h h1
      rwa [Nat.add_assoc, Nat.add_comm 1 n] at this

theorem readN_lt (n : Nat) (b : Bytes) (v : Nat) (h : readN n b 0 = .ok v) : v < 256 ^ n := by
  have := readN_bound (k := 0) n b 0 v h (by simp)
  simpa using this

/-! ### Hoare triples for `M` -/

/-- `Spec x s Q E`: started with allocation counter `s`, the computation does not panic; if it returns `a` with
counter `s'` then `Q a s'`; if it fails with counter `s'` then `E s'`. -/
def Spec {α} (x : M α) (s : Nat) (Q : α → Nat → Prop) (E : Nat → Prop) : Prop :=
  match x s with
  | (.ok a, s') => Q a s'
  | (.err _, s') => E s'
  | (.panic _, _) => False

theorem M.bind_eq {α β} (x : M α) (f : α → M β) : (x >>= f) = M.bind' x f := rfl
theorem M.pure_eq {α} (a : α) : (pure a : M α) = M.pure' a := rfl

theorem spec_pure {α} {a : α} {s Q E} (h : Q a s) : Spec (pure a : M α) s Q E := h

theorem spec_fail {α} {e s} {Q : α → Nat → Prop} {E} (h : E s) : Spec (M.fail e : M α) s Q E := h

theorem spec_bind {α β} {x : M α} {f : α → M β} {s Q E}
    (h : Spec x s (fun a s' => Spec (f a) s' Q E) E) : Spec (x >>= f) s Q E := by
  unfold Spec at *
  rw [M.bind_eq]
  unfold M.bind'
  rcases hx : x s with ⟨o, s'⟩
  rw [hx] at h
  cases o <;> simp at h ⊢ <;> exact h

theorem spec_mono {α} {x : M α} {s} {Q Q' : α → Nat → Prop} {E E' : Nat → Prop}
    (h : Spec x s Q E) (hq : ∀ a s', Q a s' → Q' a s') (he : ∀ s', E s' → E' s') : Spec x s Q' E' := by
  unfold Spec at *
  rcases hx : x s with ⟨o, s'⟩
  rw [hx] at h
  cases o
  · exact hq _ _ h
  · exact he _ h
  · exact h

theorem spec_ite {α} {c : Prop} [Decidable c] {a b : M α} {s Q E}
    (ha : c → Spec a s Q E) (hb : ¬c → Spec b s Q E) : Spec (if c then a else b) s Q E := by
  split
  · exact ha ‹_›
  · exact hb ‹_›

/-- a partial step that is known to succeed -/
theorem spec_lift_ok {α} {o : Outcome α} {a : α} {s Q E} (ho : o = .ok a) (h : Q a s) : Spec (M.lift o) s Q E := by
  subst ho; exact h

/-- a partial step that may fail but does not panic -/
theorem spec_lift {α} {o : Outcome α} {s} {Q : α → Nat → Prop} {E : Nat → Prop}
    (hp : ∀ p, o ≠ .panic p) (hok : ∀ a, o = .ok a → Q a s) (he : ∀ e, o = .err e → E s) : Spec (M.lift o) s Q E := by
  unfold Spec M.lift
  cases o with
  | ok a => exact hok a rfl
  | err e => exact he e rfl
  | panic p => exact absurd rfl (hp p)

theorem spec_makeSlice {elem n s} {Q : Unit → Nat → Prop} {E} (hn : elem * n ≤ 281474976710656)
    (h : Q () (s + elem * n)) : Spec (M.makeSlice elem n) s Q E := by
  unfold Spec M.makeSlice
  have : ¬ elem * n > 281474976710656 := by omega
  simp only [this, if_false]
  exact h

theorem spec_alloc {n s} {Q : Unit → Nat → Prop} {E} (h : Q () (s + n)) : Spec (M.alloc n) s Q E := h

/-- reading the conclusions off a triple -/
theorem Spec.no_panic {α} {x : M α} {s Q E} (h : Spec x s Q E) : ∀ p, (x s).1 ≠ .panic p := by
  intro p hp
  unfold Spec at h
  rcases hx : x s with ⟨o, s'⟩
  rw [hx] at h hp
  simp only at hp
  subst hp
  exact h

theorem Spec.on_ok {α} {x : M α} {s Q E} (h : Spec x s Q E) {a s'} (hx : x s = (.ok a, s')) : Q a s' := by
  unfold Spec at h; rw [hx] at h; exact h

theorem Spec.on_err {α} {x : M α} {s Q E} (h : Spec x s Q E) {e s'} (hx : x s = (.err e, s')) : E s' := by
  unfold Spec at h; rw [hx] at h; exact h

end Tongo.Boc
