import TongoProofs.Lemmas.CellHashTree
import TongoProofs.Lemmas.CellOrd
/-! The representation hash determines the tree (C02 `reprHash_inj_wfExotic`): for trees satisfying the exotic-cell
rules, under collision-freedom of `H` on the finite list of representations that are actually hashed. -/
open Tongo
namespace Tongo.CellHashLemmas

theorem inj_facts : ∀ m, m < 8 → ∀ l, l < 5 →
    Spec.significant m (Spec.level m) = true ∧ Spec.level m ≤ 3 ∧ Spec.maskBelow m (Spec.level m) = m ∧
    (Spec.level m < l + 1 → Spec.significant m (l + 1) = false) ∧
    (l < Spec.level m → Spec.popcount (Spec.maskBelow m l) < Spec.popcount m) ∧
    Spec.popcount m ≤ 3 := by decide +kernel

theorem mask_order_facts : ∀ a, a < 8 → ∀ b, b < 8 →
    Spec.level a ≤ Spec.level (a ||| b) ∧ Spec.level b ≤ Spec.level (a ||| b) ∧
    Spec.level a ≤ Spec.level (a >>> 1) + 1 ∧ (a ||| b) < 8 := by decide +kernel

/-- at a computed level the hash is `H` of the representation -/
theorem hashLevel_computed (H : List UInt8 → List UInt8) (ty mask : Nat) (bits : List Bool)
    (kh : List (Nat → List UInt8)) (kd : List (Nat → Nat)) (l : Nat) (hc : Spec.computed ty mask l = true) :
    Spec.hashLevel H ty mask bits kh kd l = H (Spec.reprLevel H ty mask bits kh kd l) := by
  simp only [Spec.computed, Bool.and_eq_true, Bool.not_eq_true', Bool.and_eq_false_iff, beq_eq_false_iff_ne,
    decide_eq_false_iff_not] at hc
  obtain ⟨hs, hp⟩ := hc
  have hnp : ¬ (ty = tyPruned ∧ l < Spec.level mask) := by
    rintro ⟨h1, h2⟩
    rcases hp with h | h
    · exact h h1
    · exact h h2
  cases l with
  | zero => simp [Spec.hashLevel, Spec.reprLevel, hnp]
  | succ j =>
    simp only [Spec.hashLevel, hnp, if_false, hs, Bool.not_true, Bool.false_eq_true, Spec.reprLevel,
      Nat.add_sub_cancel, Nat.succ_ne_zero, false_or]
    by_cases hty : ty = tyPruned <;> simp [hty]

/-- above the level of the mask nothing changes any more -/
theorem hashLevel_ge_level (H : List UInt8 → List UInt8) (ty mask : Nat) (bits : List Bool)
    (kh : List (Nat → List UInt8)) (kd : List (Nat → Nat)) (hm : mask < 8) :
    ∀ l, Spec.level mask ≤ l → l ≤ 4 →
      Spec.hashLevel H ty mask bits kh kd l = Spec.hashLevel H ty mask bits kh kd (Spec.level mask) := by
  intro l
  induction l with
  | zero => intro h _; have : Spec.level mask = 0 := by omega
            rw [this]
  | succ j ih =>
    intro h h4
    by_cases he : Spec.level mask = j + 1
    · rw [he]
    · have hns := (inj_facts mask hm j (by omega)).2.2.2.1 (by omega)
      have hnp : ¬ (ty = tyPruned ∧ j + 1 < Spec.level mask) := by rintro ⟨_, h2⟩; omega
      rw [Spec.hashLevel]
      simp only [hnp, if_false, hns, Bool.not_false, if_true]
      exact ih (by omega) (by omega)

theorem computed_top (ty mask : Nat) (hm : mask < 8) : Spec.computed ty mask (Spec.level mask) = true := by
  simp [Spec.computed, (inj_facts mask hm 0 (by omega)).1]

/-- the representation hash is `H` of the representation at the level of the mask -/
theorem hashLevel_top (H : List UInt8 → List UInt8) (ty mask : Nat) (bits : List Bool)
    (kh : List (Nat → List UInt8)) (kd : List (Nat → Nat)) (hm : mask < 8) (l : Nat) (hl : Spec.level mask ≤ l)
    (h4 : l ≤ 4) :
    Spec.hashLevel H ty mask bits kh kd l = H (Spec.reprLevel H ty mask bits kh kd (Spec.level mask)) := by
  rw [hashLevel_ge_level H ty mask bits kh kd hm l hl h4, hashLevel_computed _ _ _ _ _ _ _ (computed_top ty mask hm)]

theorem packBytes_length (bits : List Bool) : (Spec.packBytes bits).length = (bits.length + 7) / 8 := by
  simp [Spec.packBytes]

/-- every hash of a well-formed node has 32 bytes (given 32-byte digests): computed ones are digests, the ones a
pruned branch stores are complete -/
theorem hashLevel_len32 (H : List UInt8 → List UInt8) (hlen : ∀ x, (H x).length = 32) (ty mask : Nat)
    (bits : List Bool) (kids : List Cell) (kh : List (Nat → List UInt8)) (kd : List (Nat → Nat))
    (hwf : Spec.wfNode ty mask bits kids = true) :
    ∀ l, l ≤ 4 → (Spec.hashLevel H ty mask bits kh kd l).length = 32 := by
  have hm : mask < 8 := by
    simp only [Spec.wfNode, Bool.and_eq_true, decide_eq_true_eq] at hwf; omega
  have hpr : ty = tyPruned → bits.length = 8 + 8 + Spec.popcount mask * (256 + 16) := by
    intro h; subst h
    simp only [Spec.wfNode, show tyPruned ≠ tyOrdinary from by decide, if_false, if_true, Bool.and_eq_true,
      beq_iff_eq] at hwf
    exact hwf.2.2
  have stored : ∀ l, l ≤ 4 → ty = tyPruned → l < Spec.level mask →
      (Spec.storedHash bits (Spec.popcount (Spec.maskBelow mask l))).length = 32 := by
    intro l hl hty hlt
    have hk := (inj_facts mask hm l (by omega)).2.2.2.2.1 hlt
    have hb := hpr hty
    simp only [Spec.storedHash, List.length_take, List.length_drop, packBytes_length]
    omega
  intro l
  induction l with
  | zero =>
    intro _
    rw [Spec.hashLevel]
    split
    · rename_i h; have := stored 0 (by omega) h.1 h.2
      simpa [Spec.maskBelow, Nat.mod_one, show Spec.popcount 0 = 0 from by decide] using this
    · exact hlen _
  | succ j ih =>
    intro h4
    rw [Spec.hashLevel]
    split
    · rename_i h; exact stored (j + 1) h4 h.1 h.2
    · split
      · exact ih (by omega)
      · split <;> exact hlen _


/-! ### splitting byte strings -/

theorem flatten_inj32 : ∀ (xs ys : List (List UInt8)), xs.length = ys.length → (∀ x ∈ xs, x.length = 32) →
    (∀ y ∈ ys, y.length = 32) → xs.flatten = ys.flatten → xs = ys
  | [], [], _, _, _, _ => rfl
  | [], _ :: _, h, _, _, _ => by simp at h
  | _ :: _, [], h, _, _, _ => by simp at h
  | x :: xs, y :: ys, hl, hx, hy, h => by
    simp only [List.flatten_cons] at h
    have h1 := hx x (by simp)
    have h2 := hy y (by simp)
    obtain ⟨e1, e2⟩ := List.append_inj h (by omega)
    rw [e1, flatten_inj32 xs ys (by simpa using hl) (fun a ha => hx a (by simp [ha]))
      (fun a ha => hy a (by simp [ha])) e2]

theorem depthPart_length (ds : List Nat) : (ds.flatMap Spec.depthBytes).length = 2 * ds.length := by
  induction ds with
  | nil => rfl
  | cons d t ih => simp [List.flatMap_cons, Spec.depthBytes, ih]; omega

/-- equal children parts (same number of children, 32-byte hashes) have equal hash lists -/
theorem childrenPart_inj (ty ty' : Nat) (kh kh' : List (Nat → List UInt8)) (kd kd' : List (Nat → Nat)) (l l' : Nat)
    (hn : kh.length = kh'.length) (hkd : kd.length = kh.length) (hkd' : kd'.length = kh'.length)
    (h32 : ∀ k ∈ kh, (k (Spec.childLevel ty l)).length = 32)
    (h32' : ∀ k ∈ kh', (k (Spec.childLevel ty' l')).length = 32)
    (h : Spec.childrenPart ty kh kd l = Spec.childrenPart ty' kh' kd' l') :
    kh.map (· (Spec.childLevel ty l)) = kh'.map (· (Spec.childLevel ty' l')) := by
  unfold Spec.childrenPart at h
  obtain ⟨_, e2⟩ := List.append_inj h (by rw [depthPart_length, depthPart_length]; simp; omega)
  apply flatten_inj32 _ _ (by simp [hn]) _ _ e2
  · intro x hx
    obtain ⟨k, hk, rfl⟩ := List.mem_map.mp hx
    exact h32 k hk
  · intro x hx
    obtain ⟨k, hk, rfl⟩ := List.mem_map.mp hx
    exact h32' k hk

theorem paddedData_length (bits : List Bool) : (Spec.paddedData bits).length = (bits.length + 7) / 8 := by
  rw [paddedData_eq, Bits.toppedUp_length]

/-- the two descriptor bytes at the level of the mask determine ref count, exotic flag, mask and length class -/
theorem descr_inj (ty ty' m m' n n' : Nat) (bits bits' : List Bool) (hm : m < 8) (hm' : m' < 8) (hn : n ≤ 4)
    (hn' : n' ≤ 4) (hb : bits.length ≤ 1023) (hb' : bits'.length ≤ 1023)
    (h : Spec.descr ty m bits n (Spec.level m) = Spec.descr ty' m' bits' n' (Spec.level m')) :
    n = n' ∧ (ty = 0 ↔ ty' = 0) ∧ m = m' ∧
    (bits.length + 7) / 8 + bits.length / 8 = (bits'.length + 7) / 8 + bits'.length / 8 := by
  simp only [Spec.descr, (inj_facts m hm 0 (by omega)).2.2.1, (inj_facts m' hm' 0 (by omega)).2.2.1,
    List.cons.injEq, and_true] at h
  obtain ⟨h1, h2⟩ := h
  have a1 := congrArg UInt8.toNat h1
  have a2 := congrArg UInt8.toNat h2
  simp only [UInt8.toNat_ofNat'] at a1 a2
  by_cases z : ty = 0 <;> by_cases z' : ty' = 0 <;> simp only [z, z', if_true, if_false] at a1 ⊢ <;>
    (refine ⟨by omega, by simp [z, z'] <;> omega, by omega, ?_⟩; split at a2 <;> split at a2 <;> omega)


/-- what is known of one node for the injectivity argument -/
structure NodeOK (H : List UInt8 → List UInt8) (S : List (List UInt8)) (ty mask : Nat) (bits : List Bool)
    (kids : List Cell) : Prop where
  wf : Spec.wfNode ty mask bits kids = true
  /-- the representations of its computed levels are in the collision-free set -/
  mem : ∀ l, l < 4 → Spec.computed ty mask l = true →
    Spec.reprLevel H ty mask bits (Spec.hashAtL H kids) (Spec.depthAtL kids) l ∈ S
  /-- the children's hashes have 32 bytes -/
  kids32 : ∀ k ∈ Spec.hashAtL H kids, ∀ l, l ≤ 4 → (k l).length = 32

theorem NodeOK.mask_lt {H S ty mask bits kids} (h : NodeOK H S ty mask bits kids) : mask < 8 := by
  have := h.wf
  simp only [Spec.wfNode, Bool.and_eq_true, decide_eq_true_eq] at this; omega

theorem NodeOK.bits_le {H S ty mask bits kids} (h : NodeOK H S ty mask bits kids) : bits.length ≤ 1023 := by
  have := h.wf
  simp only [Spec.wfNode, Bool.and_eq_true, decide_eq_true_eq] at this; omega

theorem NodeOK.kids_le {H S ty mask bits kids} (h : NodeOK H S ty mask bits kids) : kids.length ≤ 4 := by
  have := h.wf
  simp only [Spec.wfNode, Bool.and_eq_true, decide_eq_true_eq] at this; omega

theorem hashAtL_length' (H : List UInt8 → List UInt8) (cs : List Cell) : (Spec.hashAtL H cs).length = cs.length := by
  induction cs with
  | nil => rfl
  | cons c t ih => simp [Spec.hashAtL, ih]

theorem depthAtL_length' (cs : List Cell) : (Spec.depthAtL cs).length = cs.length := by
  induction cs with
  | nil => rfl
  | cons c t ih => simp [Spec.depthAtL, ih]

section Chain
variable {H : List UInt8 → List UInt8} {S : List (List UInt8)} {ty ty' mask : Nat} {bits bits' : List Bool}
  {kids kids' : List Cell}

/-- two nodes that are not pruned branches and have the same mask: equal hashes at a level force equal level-0
representations (walk down the significant levels; each step is one use of collision-freedom) -/
theorem chain_to_zero (hlen : ∀ x, (H x).length = 32) (cf : CollisionFree H S)
    (A : NodeOK H S ty mask bits kids) (B : NodeOK H S ty' mask bits' kids')
    (hp : ty ≠ tyPruned) (hp' : ty' ≠ tyPruned) :
    ∀ l, l ≤ 3 →
      Spec.hashLevel H ty mask bits (Spec.hashAtL H kids) (Spec.depthAtL kids) l =
        Spec.hashLevel H ty' mask bits' (Spec.hashAtL H kids') (Spec.depthAtL kids') l →
      Spec.reprLevel H ty mask bits (Spec.hashAtL H kids) (Spec.depthAtL kids) 0 =
        Spec.reprLevel H ty' mask bits' (Spec.hashAtL H kids') (Spec.depthAtL kids') 0 := by
  have c0 : Spec.computed ty mask 0 = true := by simp [Spec.computed, Spec.significant, hp]
  have c0' : Spec.computed ty' mask 0 = true := by simp [Spec.computed, Spec.significant, hp']
  intro l
  induction l with
  | zero =>
    intro _ h
    rw [hashLevel_computed _ _ _ _ _ _ _ c0, hashLevel_computed _ _ _ _ _ _ _ c0'] at h
    exact cf _ (A.mem 0 (by omega) c0) _ (B.mem 0 (by omega) c0') h
  | succ j ih =>
    intro hl h
    cases hs : Spec.significant mask (j + 1) with
    | false =>
      apply ih (by omega)
      have e1 : ∀ (t : Nat) (b : List Bool) (kh : List (Nat → List UInt8)) (kd : List (Nat → Nat)), t ≠ tyPruned →
          Spec.hashLevel H t mask b kh kd (j + 1) = Spec.hashLevel H t mask b kh kd j := by
        intro t b kh kd ht
        rw [Spec.hashLevel]
        simp [ht, hs]
      rwa [e1 _ _ _ _ hp, e1 _ _ _ _ hp'] at h
    | true =>
      have c : Spec.computed ty mask (j + 1) = true := by simp [Spec.computed, hs, hp]
      have c' : Spec.computed ty' mask (j + 1) = true := by simp [Spec.computed, hs, hp']
      rw [hashLevel_computed _ _ _ _ _ _ _ c, hashLevel_computed _ _ _ _ _ _ _ c'] at h
      have e := cf _ (A.mem (j + 1) (by omega) c) _ (B.mem (j + 1) (by omega) c') h
      -- descr (2 bytes) ++ previous hash (32 bytes) ++ children
      simp only [Spec.reprLevel, Nat.succ_ne_zero, hp, hp', or_self, if_false, Nat.add_sub_cancel, Spec.descr,
        List.cons_append, List.nil_append, List.cons.injEq] at e
      obtain ⟨_, _, e3⟩ := e
      have l1 := hashLevel_len32 H hlen ty mask bits kids (Spec.hashAtL H kids) (Spec.depthAtL kids) A.wf j (by omega)
      have l2 := hashLevel_len32 H hlen ty' mask bits' kids' (Spec.hashAtL H kids') (Spec.depthAtL kids') B.wf j
        (by omega)
      exact ih (by omega) (List.append_inj e3 (by omega)).1

end Chain


/-- the exotic-cell rules fix the type of a non-pruned exotic cell by its bit length -/
theorem ty_of_wf {ty ty' mask mask' : Nat} {bits : List Bool} {kids kids' : List Cell}
    (h : Spec.wfNode ty mask bits kids = true) (h' : Spec.wfNode ty' mask' bits kids' = true)
    (hp : ty ≠ tyPruned) (hp' : ty' ≠ tyPruned) (hz : ty = 0 ↔ ty' = 0) : ty = ty' := by
  simp only [Spec.wfNode, Bool.and_eq_true, decide_eq_true_eq] at h h'
  obtain ⟨_, h⟩ := h
  obtain ⟨_, h'⟩ := h'
  by_cases z : ty = 0
  · rw [z, hz.mp z]
  · have z' : ty' ≠ 0 := fun e => z (hz.mpr e)
    have c : ty = tyLibrary ∨ ty = tyMerkleProof ∨ ty = tyMerkleUpdate := by
      by_contra hc
      simp only [not_or] at hc
      simp [tyOrdinary, z, hp, hc.1, hc.2.1, hc.2.2] at h
    have c' : ty' = tyLibrary ∨ ty' = tyMerkleProof ∨ ty' = tyMerkleUpdate := by
      by_contra hc
      simp only [not_or] at hc
      simp [tyOrdinary, z', hp', hc.1, hc.2.1, hc.2.2] at h'
    rcases c with rfl | rfl | rfl <;> rcases c' with rfl | rfl | rfl <;>
      simp [tyOrdinary, tyPruned, tyLibrary, tyMerkleProof, tyMerkleUpdate] at h h' ⊢ <;> omega

section Node
variable {H : List UInt8 → List UInt8} {S : List (List UInt8)} {ty ty' mask mask' : Nat} {bits bits' : List Bool}
  {kids kids' : List Cell}

/-- **One node.** Two well-formed nodes with the same representation hash have the same type, mask and data bits, the
same number of children, and their children have pairwise equal hashes at the child level of the top level. -/
theorem node_inj (hlen : ∀ x, (H x).length = 32) (cf : CollisionFree H S)
    (A : NodeOK H S ty mask bits kids) (B : NodeOK H S ty' mask' bits' kids')
    (h : Spec.hashLevel H ty mask bits (Spec.hashAtL H kids) (Spec.depthAtL kids) 3 =
         Spec.hashLevel H ty' mask' bits' (Spec.hashAtL H kids') (Spec.depthAtL kids') 3) :
    ty = ty' ∧ mask = mask' ∧ bits = bits' ∧ kids.length = kids'.length ∧
    (Spec.hashAtL H kids).map (· (Spec.childLevel ty (Spec.level mask))) =
      (Spec.hashAtL H kids').map (· (Spec.childLevel ty (Spec.level mask))) := by
  have hm := A.mask_lt
  have hm' := B.mask_lt
  have hT := (inj_facts mask hm 0 (by omega)).2.1
  have hT' := (inj_facts mask' hm' 0 (by omega)).2.1
  rw [hashLevel_top H ty mask bits _ _ hm 3 hT (by omega), hashLevel_top H ty' mask' bits' _ _ hm' 3 hT' (by omega)] at h
  have e := cf _ (A.mem _ (by omega) (computed_top ty mask hm)) _ (B.mem _ (by omega) (computed_top ty' mask' hm')) h
  -- the two descriptor bytes
  have ed : Spec.descr ty mask bits (Spec.hashAtL H kids).length (Spec.level mask) =
      Spec.descr ty' mask' bits' (Spec.hashAtL H kids').length (Spec.level mask') := by
    have := congrArg (List.take 2) e
    simpa [Spec.reprLevel, Spec.descr] using this
  obtain ⟨hn, hz, hmm, hd2⟩ := descr_inj ty ty' mask mask' _ _ bits bits' hm hm'
    (by rw [hashAtL_length']; exact A.kids_le) (by rw [hashAtL_length']; exact B.kids_le) A.bits_le B.bits_le ed
  subst hmm
  rw [hashAtL_length', hashAtL_length'] at hn
  have erest : (if Spec.level mask = 0 ∨ ty = tyPruned then Spec.paddedData bits
        else Spec.hashLevel H ty mask bits (Spec.hashAtL H kids) (Spec.depthAtL kids) (Spec.level mask - 1)) ++
        Spec.childrenPart ty (Spec.hashAtL H kids) (Spec.depthAtL kids) (Spec.level mask) =
      (if Spec.level mask = 0 ∨ ty' = tyPruned then Spec.paddedData bits'
        else Spec.hashLevel H ty' mask bits' (Spec.hashAtL H kids') (Spec.depthAtL kids') (Spec.level mask - 1)) ++
        Spec.childrenPart ty' (Spec.hashAtL H kids') (Spec.depthAtL kids') (Spec.level mask) := by
    have := congrArg (List.drop 2) e
    simpa [Spec.reprLevel, Spec.descr, List.append_assoc] using this
  have hplen : (Spec.paddedData bits).length = (Spec.paddedData bits').length := by
    rw [paddedData_length, paddedData_length]; omega
  -- pruned branches
  have pruned_of : ∀ {t t' : Nat} {b b' : List Bool} {k k' : List Cell}, Spec.wfNode t mask b k = true →
      Spec.wfNode t' mask b' k' = true → t = tyPruned → k.length = k'.length → (t = 0 ↔ t' = 0) → t' = tyPruned := by
    intro t t' b b' k k' w w' ht hk hzz
    subst ht
    simp only [Spec.wfNode, Bool.and_eq_true, decide_eq_true_eq] at w w'
    obtain ⟨_, w⟩ := w
    obtain ⟨_, w'⟩ := w'
    simp only [show tyPruned ≠ tyOrdinary from by decide, if_false, if_true, Bool.and_eq_true, List.isEmpty_iff,
      bne_iff_ne, ne_eq] at w
    obtain ⟨⟨hk0, hmne⟩, _⟩ := w
    subst hk0
    have hk' : k'.length = 0 := by simpa using hk.symm
    have z' : t' ≠ 0 := fun e => by have := hzz.mpr e; exact absurd this (by decide)
    by_contra hne
    by_cases c2 : t' = tyLibrary
    · simp [tyOrdinary, z', hne, c2, tyLibrary, tyPruned] at w'
      exact hmne w'.1.2
    · by_cases c3 : t' = tyMerkleProof
      · simp [tyOrdinary, z', hne, c2, c3, tyMerkleProof, tyPruned, tyLibrary, hk'] at w'
      · by_cases c4 : t' = tyMerkleUpdate
        · simp [tyOrdinary, z', hne, c2, c3, c4, tyMerkleProof, tyMerkleUpdate, tyPruned, tyLibrary, hk'] at w'
        · simp [tyOrdinary, z', hne, c2, c3, c4] at w'
  by_cases hp : ty = tyPruned
  · have hp' : ty' = tyPruned := pruned_of A.wf B.wf hp hn hz
    subst hp; subst hp'
    simp only [or_true, if_true] at erest
    have hb := Bits.toppedUp_inj A.bits_le B.bits_le hd2 (by
      rw [← paddedData_eq, ← paddedData_eq]; exact (List.append_inj erest hplen).1)
    have hk0 : kids = [] := by
      have := A.wf
      simp only [Spec.wfNode, show tyPruned ≠ tyOrdinary from by decide, if_false, if_true, Bool.and_eq_true,
        List.isEmpty_iff] at this
      exact this.2.1.1
    have hk0' : kids' = [] := by
      have := B.wf
      simp only [Spec.wfNode, show tyPruned ≠ tyOrdinary from by decide, if_false, if_true, Bool.and_eq_true,
        List.isEmpty_iff] at this
      exact this.2.1.1
    subst hk0; subst hk0'
    exact ⟨rfl, rfl, hb, rfl, rfl⟩
  · have hp' : ty' ≠ tyPruned := fun hq => hp (pruned_of B.wf A.wf hq hn.symm hz.symm)
    -- level-0 representations and the children part at the top level
    have hkd : (Spec.depthAtL kids).length = (Spec.hashAtL H kids).length := by rw [depthAtL_length', hashAtL_length']
    have hkd' : (Spec.depthAtL kids').length = (Spec.hashAtL H kids').length := by
      rw [depthAtL_length', hashAtL_length']
    have top : Spec.reprLevel H ty mask bits (Spec.hashAtL H kids) (Spec.depthAtL kids) 0 =
          Spec.reprLevel H ty' mask bits' (Spec.hashAtL H kids') (Spec.depthAtL kids') 0 ∧
        Spec.childrenPart ty (Spec.hashAtL H kids) (Spec.depthAtL kids) (Spec.level mask) =
          Spec.childrenPart ty' (Spec.hashAtL H kids') (Spec.depthAtL kids') (Spec.level mask) := by
      by_cases hl0 : Spec.level mask = 0
      · rw [hl0] at e erest
        simp only [true_or, if_true] at erest
        rw [hl0]
        exact ⟨e, (List.append_inj erest hplen).2⟩
      · simp only [hl0, hp, hp', or_self, if_false] at erest
        have l1 := hashLevel_len32 H hlen ty mask bits kids (Spec.hashAtL H kids) (Spec.depthAtL kids) A.wf
          (Spec.level mask - 1) (by omega)
        have l2 := hashLevel_len32 H hlen ty' mask bits' kids' (Spec.hashAtL H kids') (Spec.depthAtL kids') B.wf
          (Spec.level mask - 1) (by omega)
        obtain ⟨e1, e2⟩ := List.append_inj erest (by omega)
        exact ⟨chain_to_zero hlen cf A B hp hp' _ (by omega) e1, e2⟩
    obtain ⟨e0, ecp⟩ := top
    -- data bits from the level-0 representation
    have e0r : Spec.paddedData bits ++ Spec.childrenPart ty (Spec.hashAtL H kids) (Spec.depthAtL kids) 0 =
        Spec.paddedData bits' ++ Spec.childrenPart ty' (Spec.hashAtL H kids') (Spec.depthAtL kids') 0 := by
      have := congrArg (List.drop 2) e0
      simpa [Spec.reprLevel, Spec.descr, List.append_assoc] using this
    have hb := Bits.toppedUp_inj A.bits_le B.bits_le hd2 (by
      rw [← paddedData_eq, ← paddedData_eq]; exact (List.append_inj e0r hplen).1)
    subst hb
    have hty := ty_of_wf A.wf B.wf hp hp' hz
    subst hty
    refine ⟨rfl, rfl, rfl, hn, ?_⟩
    exact childrenPart_inj ty ty _ _ _ _ _ _ (by rw [hashAtL_length', hashAtL_length']; exact hn) hkd hkd'
      (fun k hk => A.kids32 k hk _ (by unfold Spec.childLevel; split <;> omega))
      (fun k hk => B.kids32 k hk _ (by unfold Spec.childLevel; split <;> omega)) ecp

end Node


/-! ### the tree -/

theorem wfExotic_node {ty mask : Nat} {bits : List Bool} {kids : List Cell}
    (h : Spec.wfExotic (.mk ty mask bits kids) = true) :
    Spec.wfNode ty mask bits kids = true ∧ Spec.wfExoticL kids = true := by
  simpa [Spec.wfExotic] using h

theorem wfExoticL_mem : ∀ (cs : List Cell), Spec.wfExoticL cs = true → ∀ c ∈ cs, Spec.wfExotic c = true
  | [], _, c, hc => by simp at hc
  | x :: xs, h, c, hc => by
    simp only [Spec.wfExoticL, Bool.and_eq_true] at h
    rcases List.mem_cons.mp hc with rfl | hc
    · exact h.1
    · exact wfExoticL_mem xs h.2 c hc

theorem wf_mask_lt {c : Cell} (h : Spec.wfExotic c = true) : c.mask < 8 := by
  cases c with
  | mk ty mask bits kids =>
    have := (wfExotic_node h).1
    simp only [Spec.wfNode, Bool.and_eq_true, decide_eq_true_eq] at this
    show mask < 8; omega

theorem mem_hashAtL (H : List UInt8 → List UInt8) : ∀ (cs : List Cell) (k : Nat → List UInt8),
    k ∈ Spec.hashAtL H cs → ∃ c ∈ cs, k = Spec.hashAt H c
  | [], k, h => by simp [Spec.hashAtL] at h
  | x :: xs, k, h => by
    simp only [Spec.hashAtL, List.mem_cons] at h
    rcases h with rfl | h
    · exact ⟨x, by simp, rfl⟩
    · obtain ⟨c, hc, e⟩ := mem_hashAtL H xs k h
      exact ⟨c, by simp [hc], e⟩

theorem hashAt_len32 (H : List UInt8 → List UInt8) (hlen : ∀ x, (H x).length = 32) (c : Cell)
    (h : Spec.wfExotic c = true) (l : Nat) (hl : l ≤ 4) : (Spec.hashAt H c l).length = 32 := by
  cases c with
  | mk ty mask bits kids =>
    simp only [Spec.hashAt]
    exact hashLevel_len32 H hlen ty mask bits kids _ _ (wfExotic_node h).1 l hl

/-- at and above the level of its mask, the hash of a cell is its representation hash -/
theorem hashAt_ge_level (H : List UInt8 → List UInt8) (c : Cell) (hm : c.mask < 8) (l : Nat)
    (hl : Spec.level c.mask ≤ l) (h4 : l ≤ 4) : Spec.hashAt H c l = Spec.hashAt H c 3 := by
  cases c with
  | mk ty mask bits kids =>
    simp only [Spec.hashAt]
    have hm' : mask < 8 := hm
    rw [hashLevel_ge_level H ty mask bits _ _ hm' l hl h4,
      hashLevel_ge_level H ty mask bits _ _ hm' 3 (inj_facts mask hm' 0 (by omega)).2.1 (by omega)]

theorem orMasks_level : ∀ (cs : List Cell) (acc : Nat), acc < 8 → (∀ c ∈ cs, c.mask < 8) →
    cs.foldl (fun a c => a ||| c.mask) acc < 8 ∧ Spec.level acc ≤ Spec.level (cs.foldl (fun a c => a ||| c.mask) acc) ∧
    ∀ c ∈ cs, Spec.level c.mask ≤ Spec.level (cs.foldl (fun a c => a ||| c.mask) acc)
  | [], acc, h, _ => ⟨h, Nat.le_refl _, fun c hc => by simp at hc⟩
  | x :: xs, acc, h, hk => by
    have hx := hk x (by simp)
    obtain ⟨f1, f2, _, f4⟩ := mask_order_facts acc h x.mask hx
    obtain ⟨r1, r2, r3⟩ := orMasks_level xs (acc ||| x.mask) f4 (fun c hc => hk c (by simp [hc]))
    refine ⟨r1, Nat.le_trans f1 r2, ?_⟩
    intro c hc
    rcases List.mem_cons.mp hc with rfl | hc
    · exact Nat.le_trans f2 r2
    · exact r3 c hc

/-- consistent masks: a child's level is at most the level its parent asks it for at the parent's top level -/
theorem kid_level_le {ty mask : Nat} {bits : List Bool} {kids : List Cell}
    (h : Spec.wfNode ty mask bits kids = true) (hk : ∀ c ∈ kids, c.mask < 8) :
    ∀ c ∈ kids, Spec.level c.mask ≤ Spec.childLevel ty (Spec.level mask) ∧ Spec.childLevel ty (Spec.level mask) ≤ 4 := by
  intro c hc
  have hm : mask < 8 := by
    simp only [Spec.wfNode, Bool.and_eq_true, decide_eq_true_eq] at h; omega
  have hT := (inj_facts mask hm 0 (by omega)).2.1
  obtain ⟨o1, _, o3⟩ := orMasks_level kids 0 (by omega) hk
  have hcl : Spec.childLevel ty (Spec.level mask) ≤ 4 := by unfold Spec.childLevel; split <;> omega
  refine ⟨?_, hcl⟩
  simp only [Spec.wfNode, Bool.and_eq_true, decide_eq_true_eq] at h
  obtain ⟨_, h⟩ := h
  by_cases t0 : ty = tyOrdinary
  · subst t0
    simp only [if_true, beq_iff_eq] at h
    have : Spec.childLevel tyOrdinary (Spec.level mask) = Spec.level mask := by simp [Spec.childLevel, Spec.isMerkle, tyOrdinary, tyMerkleProof, tyMerkleUpdate]
    rw [this, h]
    exact o3 c hc
  · by_cases t1 : ty = tyPruned
    · subst t1
      simp only [show tyPruned ≠ tyOrdinary from by decide, if_false, if_true, Bool.and_eq_true,
        List.isEmpty_iff] at h
      rw [h.1.1] at hc; simp at hc
    · by_cases t2 : ty = tyLibrary
      · subst t2
        simp only [show tyLibrary ≠ tyOrdinary from by decide, show tyLibrary ≠ tyPruned from by decide, if_false,
          if_true, Bool.and_eq_true, List.isEmpty_iff] at h
        rw [h.1.1] at hc; simp at hc
      · have mk : ∀ (t : Nat), (t = tyMerkleProof ∨ t = tyMerkleUpdate) → ty = t →
            mask = Spec.orMasks kids >>> 1 → Spec.level c.mask ≤ Spec.childLevel ty (Spec.level mask) := by
          intro t ht e hmask
          have : Spec.childLevel ty (Spec.level mask) = Spec.level mask + 1 := by
            rcases ht with rfl | rfl <;> simp [e, Spec.childLevel, Spec.isMerkle, tyMerkleProof, tyMerkleUpdate]
          rw [this, hmask]
          have hc' := o3 c hc
          have := (mask_order_facts _ o1 0 (by omega)).2.2.1
          exact Nat.le_trans hc' this
        by_cases t3 : ty = tyMerkleProof
        · subst t3
          simp only [show tyMerkleProof ≠ tyOrdinary from by decide, show tyMerkleProof ≠ tyPruned from by decide,
            show tyMerkleProof ≠ tyLibrary from by decide, if_false, if_true, Bool.and_eq_true, beq_iff_eq] at h
          exact mk _ (Or.inl rfl) rfl h.2
        · by_cases t4 : ty = tyMerkleUpdate
          · subst t4
            simp only [show tyMerkleUpdate ≠ tyOrdinary from by decide, show tyMerkleUpdate ≠ tyPruned from by decide,
              show tyMerkleUpdate ≠ tyLibrary from by decide, show tyMerkleUpdate ≠ tyMerkleProof from by decide,
              if_false, if_true, Bool.and_eq_true, beq_iff_eq] at h
            exact mk _ (Or.inr rfl) rfl h.2
          · simp [t0, t1, t2, t3, t4] at h


theorem reprLevel_mem_allReprs (H : List UInt8 → List UInt8) (ty mask : Nat) (bits : List Bool) (kids : List Cell)
    (l : Nat) (hl : l < 4) (hc : Spec.computed ty mask l = true) :
    Spec.reprLevel H ty mask bits (Spec.hashAtL H kids) (Spec.depthAtL kids) l ∈ Spec.allReprs H (.mk ty mask bits kids) := by
  simp only [Spec.allReprs, List.mem_append, List.mem_map, List.mem_filter, List.mem_range]
  exact Or.inl ⟨l, ⟨hl, hc⟩, rfl⟩

theorem allReprsL_mem (H : List UInt8 → List UInt8) : ∀ (cs : List Cell) (c : Cell), c ∈ cs →
    ∀ x ∈ Spec.allReprs H c, x ∈ Spec.allReprsL H cs
  | [], c, hc, _, _ => by simp at hc
  | y :: ys, c, hc, x, hx => by
    simp only [Spec.allReprsL, List.mem_append]
    rcases List.mem_cons.mp hc with rfl | hc
    · exact Or.inl hx
    · exact Or.inr (allReprsL_mem H ys c hc x hx)

theorem nodeOK_of (H : List UInt8 → List UInt8) (hlen : ∀ x, (H x).length = 32) (S : List (List UInt8))
    (ty mask : Nat) (bits : List Bool) (kids : List Cell) (hwf : Spec.wfExotic (.mk ty mask bits kids) = true)
    (hS : ∀ x ∈ Spec.allReprs H (.mk ty mask bits kids), x ∈ S) : NodeOK H S ty mask bits kids := by
  obtain ⟨w1, w2⟩ := wfExotic_node hwf
  refine ⟨w1, fun l hl hc => hS _ (reprLevel_mem_allReprs H ty mask bits kids l hl hc), ?_⟩
  intro k hk l hl
  obtain ⟨c, hc, rfl⟩ := mem_hashAtL H kids k hk
  exact hashAt_len32 H hlen c (wfExoticL_mem kids w2 c hc) l hl

theorem map_hashAtL_congr (H : List UInt8 → List UInt8) (l : Nat) : ∀ (cs : List Cell),
    (∀ c ∈ cs, Spec.hashAt H c l = Spec.hashAt H c 3) →
    (Spec.hashAtL H cs).map (· l) = (Spec.hashAtL H cs).map (· 3)
  | [], _ => rfl
  | c :: cs, h => by
    simp only [Spec.hashAtL, List.map_cons]
    rw [h c (by simp), map_hashAtL_congr H l cs (fun x hx => h x (by simp [hx]))]

mutual
/-- induction over the tree: equal representation hashes (level 3), collision-freedom on the representations of both
trees, both well-formed — equal trees -/
theorem inj_cell (H : List UInt8 → List UInt8) (hlen : ∀ x, (H x).length = 32) (S : List (List UInt8))
    (cf : CollisionFree H S) : ∀ (a b : Cell), Spec.wfExotic a = true → Spec.wfExotic b = true →
      (∀ x ∈ Spec.allReprs H a, x ∈ S) → (∀ x ∈ Spec.allReprs H b, x ∈ S) →
      Spec.hashAt H a 3 = Spec.hashAt H b 3 → a = b
  | .mk ty mask bits kids, .mk ty' mask' bits' kids', wa, wb, sa, sb, h => by
    have A := nodeOK_of H hlen S ty mask bits kids wa sa
    have B := nodeOK_of H hlen S ty' mask' bits' kids' wb sb
    simp only [Spec.hashAt] at h
    obtain ⟨e1, e2, e3, e4, e5⟩ := node_inj hlen cf A B h
    subst e1; subst e2; subst e3
    obtain ⟨_, wka⟩ := wfExotic_node wa
    obtain ⟨_, wkb⟩ := wfExotic_node wb
    have lvA := kid_level_le A.wf (fun c hc => wf_mask_lt (wfExoticL_mem kids wka c hc))
    have lvB := kid_level_le B.wf (fun c hc => wf_mask_lt (wfExoticL_mem kids' wkb c hc))
    have cA := map_hashAtL_congr H (Spec.childLevel ty (Spec.level mask)) kids (fun c hc =>
      hashAt_ge_level H c (wf_mask_lt (wfExoticL_mem kids wka c hc)) _ (lvA c hc).1 (lvA c hc).2)
    have cB := map_hashAtL_congr H (Spec.childLevel ty (Spec.level mask)) kids' (fun c hc =>
      hashAt_ge_level H c (wf_mask_lt (wfExoticL_mem kids' wkb c hc)) _ (lvB c hc).1 (lvB c hc).2)
    rw [cA, cB] at e5
    have := inj_list H hlen S cf kids kids' wka wkb
      (fun x hx => sa x (by simp only [Spec.allReprs, List.mem_append]; exact Or.inr hx))
      (fun x hx => sb x (by simp only [Spec.allReprs, List.mem_append]; exact Or.inr hx)) e5
    rw [this]
theorem inj_list (H : List UInt8 → List UInt8) (hlen : ∀ x, (H x).length = 32) (S : List (List UInt8))
    (cf : CollisionFree H S) : ∀ (as bs : List Cell), Spec.wfExoticL as = true → Spec.wfExoticL bs = true →
      (∀ x ∈ Spec.allReprsL H as, x ∈ S) → (∀ x ∈ Spec.allReprsL H bs, x ∈ S) →
      (Spec.hashAtL H as).map (· 3) = (Spec.hashAtL H bs).map (· 3) → as = bs
  | [], [], _, _, _, _, _ => rfl
  | [], _ :: _, _, _, _, _, h => by simp [Spec.hashAtL] at h
  | _ :: _, [], _, _, _, _, h => by simp [Spec.hashAtL] at h
  | a :: as, b :: bs, wa, wb, sa, sb, h => by
    simp only [Spec.wfExoticL, Bool.and_eq_true] at wa wb
    simp only [Spec.hashAtL, List.map_cons, List.cons.injEq] at h
    have e1 := inj_cell H hlen S cf a b wa.1 wb.1
      (fun x hx => sa x (by simp only [Spec.allReprsL, List.mem_append]; exact Or.inl hx))
      (fun x hx => sb x (by simp only [Spec.allReprsL, List.mem_append]; exact Or.inl hx)) h.1
    have e2 := inj_list H hlen S cf as bs wa.2 wb.2
      (fun x hx => sa x (by simp only [Spec.allReprsL, List.mem_append]; exact Or.inr hx))
      (fun x hx => sb x (by simp only [Spec.allReprsL, List.mem_append]; exact Or.inr hx)) h.2
    rw [e1, e2]
end

/-- **The representation hash determines the tree.** For two trees satisfying the exotic-cell rules (all five types,
masks ≤ 7), if `H` has 32-byte digests and no collision among the byte strings that are hashed when their hashes are
computed (`Spec.allReprs`: the representations of the computed levels of all sub-cells — a finite list), then equal
representation hashes (level 3, what `Cell.Hash()`/`HashString()` return) imply equal trees. The exotic type is fixed
by the bit lengths the rules prescribe; a pruned branch is identified by its own data (it is NOT identified with the
tree it stands for: pruned cells are cells). -/
theorem reprHash_inj_wfExotic (H : List UInt8 → List UInt8) (hlen : ∀ x, (H x).length = 32) (a b : Cell)
    (ha : Spec.wfExotic a = true) (hb : Spec.wfExotic b = true)
    (cf : CollisionFree H (Spec.allReprs H a ++ Spec.allReprs H b))
    (h : Spec.reprHash H a = Spec.reprHash H b) : a = b :=
  inj_cell H hlen _ cf a b ha hb (fun x hx => List.mem_append.mpr (Or.inl hx))
    (fun x hx => List.mem_append.mpr (Or.inr hx)) h

end Tongo.CellHashLemmas
