import TongoModel.Address
import TongoProofs.Lemmas.Crc16Lin
/-! Bit-level view of base64 decoding and the single-character error detection of the friendly address form:
the 36 decoded bytes of a 48-digit string are, bit for bit, the concatenation of the 6-bit digit values, the checksum
test is "CRC of all 36 bytes is zero", and the CRC register is an injective linear function of a 6-bit block.
Kernel only. -/
namespace Tongo.Address
open Tongo Tongo.Crc16 Tongo.Base64

/-- the 6 bits of a digit value, most significant first -/
def bits6 (v : BitVec 6) : List Bool :=
  [v.getLsbD 5, v.getLsbD 4, v.getLsbD 3, v.getLsbD 2, v.getLsbD 1, v.getLsbD 0]

theorem bits6_length (v : BitVec 6) : (bits6 v).length = 6 := rfl

theorem bits6_xor (v w : BitVec 6) : List.zipWith xor (bits6 v) (bits6 w) = bits6 (v ^^^ w) := by
  simp [bits6]

/-- the bits of the three bytes of a group are the bits of its four digits -/
theorem bitsOfBytes_join4 (a b c d : BitVec 6) (x y z : Byte) (h : join4 a b c d = (x, y, z)) :
    bitsOfBytes [x, y, z] = bits6 a ++ bits6 b ++ bits6 c ++ bits6 d := by
  simp only [join4, Prod.mk.injEq] at h
  obtain ⟨rfl, rfl, rfl⟩ := h
  simp only [bitsOfBytes, bitsOfByte, bits6, List.flatMap_cons, List.flatMap_nil, List.cons_append, List.nil_append,
    List.append_nil, BitVec.getLsbD_extractLsb', BitVec.getLsbD_append]
  simp

theorem bitsOfBytes_cons3 (x y z : Byte) (r : List Byte) :
    bitsOfBytes (x :: y :: z :: r) = bitsOfBytes [x, y, z] ++ bitsOfBytes r := by
  simp [bitsOfBytes]

/-- value of a character, 0 for a non-digit -/
def dval (url : Bool) (c : Byte) : BitVec 6 := (decChar url c).getD 0

/-- `decodeCore` yields at most 3 bytes per 4 characters; when it yields exactly that many, all characters are digits
and the bits of the bytes are the bits of the digits -/
theorem decodeCore_full (url : Bool) (l b : List Byte) (h : decodeCore url l = some b) :
    4 * b.length ≤ 3 * l.length ∧ (3 * l.length ≤ 4 * b.length →
      (∀ c ∈ l, (decChar url c).isSome = true) ∧ bitsOfBytes b = l.flatMap (fun c => bits6 (dval url c))) := by
  fun_induction decodeCore url l generalizing b
  case case1 =>
    cases h; simp [bitsOfBytes]
  case case2 c0 c1 c2 c3 rest va vb h1 h0 vc h2 vd h3 r hr x y z hj ih =>
    cases h
    obtain ⟨ih1, ih2⟩ := ih r hr
    refine ⟨by simp only [List.length_cons]; omega, fun hle => ?_⟩
    obtain ⟨ihd, ihb⟩ := ih2 (by simp only [List.length_cons] at hle; omega)
    constructor
    · intro c hc
      simp only [List.mem_cons] at hc
      rcases hc with rfl | rfl | rfl | rfl | hc
      · simp [h0]
      · simp [h1]
      · simp [h2]
      · simp [h3]
      · exact ihd c hc
    · rw [bitsOfBytes_cons3, bitsOfBytes_join4 _ _ _ _ _ _ _ hj, ihb]
      simp [dval, h0, h1, h2, h3]
  case case4 c0 c1 c2 c3 rest va vb h1 h0 vc h2 h3 hp x y z hj =>
    cases h
    obtain ⟨_, rfl⟩ := hp
    exact ⟨by simp, fun hle => by simp at hle⟩
  case case6 c0 c1 c2 c3 rest va vb h1 h0 h2 hp x y z hj =>
    cases h
    obtain ⟨_, _, rfl⟩ := hp
    exact ⟨by simp, fun hle => by simp at hle⟩
  all_goals (first | cases h)

/-! ### the friendly form -/

/-- 6-bit value of a character of the friendly form after the `+`→`-`, `/`→`_` mapping; `none` = not a base64 digit -/
def digitVal (c : Byte) : Option (BitVec 6) := Base64.decChar true (mapStd c)

/-- the bit string carried by a friendly string (non-digits count as value 0) -/
def friendlyBits (s : Str) : List Bool := s.flatMap (fun c => bits6 ((digitVal c).getD 0))

theorem fromBase64Url_not_panic (s : Str) : (fromBase64Url s).isPanic = false := by
  unfold fromBase64Url
  split
  · rfl
  · split
    · rfl
    · split <;> rfl

theorem isErr_of_not_isOk (s : Str) (h : (fromBase64Url s).isOk = false) : (fromBase64Url s).isErr = true := by
  have := fromBase64Url_not_panic s
  revert h this
  cases fromBase64Url s <;> simp [Outcome.isOk, Outcome.isErr, Outcome.isPanic]

/-- the checksum test of a 36-byte payload is "the CRC of all 36 bytes is zero" -/
theorem checksum_iff_crc16_zero (b : List Byte) (hb : b.length = 36) :
    be16 (crc16 (b.take 34)) = b.drop 34 ↔ crc16 b = 0#16 := by
  have hd : (b.drop 34).length = 2 := by simp [hb]
  match hm : b.drop 34, hd with
  | [h, l], _ =>
    have hsplit : b = b.take 34 ++ [h, l] := by rw [← hm, List.take_append_drop]
    have hc : crc16 b = byteStep (byteStep (crc16 (b.take 34)) h) l := by
      conv => lhs; rw [hsplit, crc16_append]
      rfl
    rw [hc, byteStep_byteStep_eq_zero]
    generalize crc16 (b.take 34) = v
    simp only [be16, List.cons.injEq, and_true]
    constructor
    · rintro ⟨rfl, rfl⟩
      apply BitVec.eq_of_getLsbD_eq; intro i hi
      simp only [BitVec.getLsbD_append, BitVec.getLsbD_extractLsb']
      by_cases h8 : i < 8
      · simp [h8]
      · have : 8 + (i - 8) = i := by omega
        have h2 : i - 8 < 8 := by omega
        simp [h8, this, h2]
    · rintro rfl
      constructor
      · apply BitVec.eq_of_getLsbD_eq; intro i hi
        simp only [BitVec.getLsbD_append, BitVec.getLsbD_extractLsb']
        have : ¬ (8 + i < 8) := by omega
        simp [hi, this]
      · apply BitVec.eq_of_getLsbD_eq; intro i hi
        simp only [BitVec.getLsbD_append, BitVec.getLsbD_extractLsb']
        simp [hi]

/-- a valid 48-character friendly string consists of 48 digits, and the CRC register fed with their bits ends at zero -/
theorem valid_digits_feed (s : Str) (hlen : s.length = 48) (hvalid : (fromBase64Url s).isOk = true) :
    (∀ c ∈ s, (digitVal c).isSome = true) ∧ feed 0#16 (friendlyBits s) = 0#16 := by
  unfold fromBase64Url at hvalid
  split at hvalid
  · simp [Outcome.isOk] at hvalid
  · rename_i b hdec
    split at hvalid
    · simp [Outcome.isOk] at hvalid
    · rename_i hb
      split at hvalid
      · simp [Outcome.isOk] at hvalid
      · rename_i hck
        have hb : b.length = 36 := by simpa using hb
        have hck : be16 (crc16 (b.take 34)) = b.drop 34 := by simpa using hck
        have hcrc := (checksum_iff_crc16_zero b hb).mp hck
        unfold Base64.decode at hdec
        obtain ⟨h1, h2⟩ := decodeCore_full _ _ _ hdec
        have hfl := List.length_filter_le (fun c => !isNewline c) (s.map mapStd)
        rw [List.length_map] at hfl
        have hfeq : (List.filter (fun c => !isNewline c) (s.map mapStd)).length = (s.map mapStd).length := by
          rw [List.length_map]; omega
        have hfs := List.filter_eq_self.mpr (List.length_filter_eq_length_iff.mp hfeq)
        rw [hfs] at h2
        obtain ⟨hd, hbits⟩ := h2 (by rw [List.length_map]; omega)
        constructor
        · intro c hc
          exact hd (mapStd c) (List.mem_map_of_mem hc)
        · rw [crc16_eq_feed, hbits, List.flatMap_map] at hcrc
          exact hcrc

/-- 64 cases: a non-zero 6-bit block brings the zero register to a non-zero value -/
theorem feed_bits6_eq_zero (w : BitVec 6) (h : feed 0#16 (bits6 w) = 0#16) : w = 0#6 := by
  revert w; decide +kernel

/-- the register after a 6-bit block determines the block -/
theorem feed_bits6_injective (r : BitVec 16) (v w : BitVec 6) (h : feed r (bits6 v) = feed r (bits6 w)) : v = w := by
  have hx := feed_xor r r (bits6 v) (bits6 w) rfl
  rw [h, BitVec.xor_self, BitVec.xor_self, bits6_xor] at hx
  exact BitVec.xor_eq_zero_iff.mp (feed_bits6_eq_zero _ hx)

theorem friendlyBits_append (s t : Str) : friendlyBits (s ++ t) = friendlyBits s ++ friendlyBits t := by
  simp [friendlyBits]

theorem friendlyBits_cons (c : Byte) (t : Str) :
    friendlyBits (c :: t) = bits6 ((digitVal c).getD 0) ++ friendlyBits t := by
  simp [friendlyBits]

/-- full statement: every single-character substitution by a digit of another value is rejected -/
theorem single_char_rejected (s : Str) (i : Nat) (d : Byte)
    (hlen : s.length = 48) (hvalid : (fromBase64Url s).isOk = true) (hi : i < 48)
    (hd : ∃ v, digitVal d = some v ∧ digitVal (s.getD i 0) ≠ some v) :
    (fromBase64Url (s.set i d)).isErr = true := by
  apply isErr_of_not_isOk
  cases hok : (fromBase64Url (s.set i d)).isOk with
  | false => rfl
  | true =>
    exfalso
    obtain ⟨v', hv', hne⟩ := hd
    obtain ⟨hdig, hf⟩ := valid_digits_feed s hlen hvalid
    obtain ⟨_, hf'⟩ := valid_digits_feed (s.set i d) (by simp [hlen]) hok
    have hil : i < s.length := by omega
    have hs : s = s.take i ++ s[i] :: s.drop (i + 1) := by simp
    have hs' : s.set i d = s.take i ++ d :: s.drop (i + 1) := by
      rw [List.set_eq_take_append_cons_drop, if_pos hil]
    have hget : s.getD i 0 = s[i] := by simp [List.getD, hil]
    rw [hget] at hne
    obtain ⟨v, hv⟩ := Option.isSome_iff_exists.mp (hdig s[i] (List.getElem_mem hil))
    rw [hs'] at hf'
    rw [hs] at hf
    rw [friendlyBits_append, friendlyBits_cons, feed_append, feed_append] at hf hf'
    rw [hv] at hf
    rw [hv'] at hf'
    have := feed_bits6_injective _ _ _ (feed_injective _ (hf.trans hf'.symm))
    simp only [Option.getD_some] at this
    exact hne (by rw [hv, this])

end Tongo.Address
