import TongoModel.Tlb.OpBody
import TongoProofs.Lemmas.TlbGeneric
import TongoProofs.Lemmas.TlbSpec
/-! Round trip of the opcode-tagged bodies (abi.InMsgBody / ExtOutMsgBody / ExtInMessageDecoder, abi.JettonPayload /
NFTPayload): for an opcode that has exactly one registered layout, a well-formed one (`opEntryOk`), the decoder of
what the encoder wrote selects the same layout and returns the same value. -/
namespace Tongo.Tlb
open Tongo Tongo.Bits

theorem findByName_single (n : String) (t : Ty) : findByName (strBytes n) [(n, t)] = some t := by
  simp [findByName]

theorem opEntryOk_elim {env : Env} {cs : Ctors} {op : Nat} (h : opEntryOk env cs op = true) :
    ∃ n t, cs.byOp op = [(n, t)] ∧ op < 2 ^ 32 ∧ wfb env t = true ∧ strBytes n ≠ [] ∧ strBytes n ≠ unknownMsgOp := by
  unfold opEntryOk at h
  split at h
  · rename_i n t hby
    simp only [Bool.and_eq_true, decide_eq_true_eq, Bool.not_eq_true', List.isEmpty_eq_false_iff, bne_iff_ne, ne_eq] at h
    exact ⟨n, t, hby, h.1.1.1, h.1.1.2, h.1.2, h.2⟩
  · cases h

/-- the slice of an encoded body: the opcode, then the chunk of the layout -/
theorem opBody_slice (op : Nat) (xs : List Bool) (rs : List Cell) :
    Slice.ofCell ((Builder.empty.app (natToBits 32 op) []).app xs rs).toCell
      = { ty := 0, mask := 0, bits := natToBits 32 op ++ xs, refs := rs } := by
  simp [Builder.empty, Builder.app, Builder.toCell, Slice.ofCell]

variable {env : Env} {f : Nat}

/-- **opBody_roundtrip** (messages) -/
theorem opBody_roundtrip (h : Inv env f) (cs : Ctors) (op : Nat) (hok : opEntryOk env cs op = true)
    (n : String) (t : Ty) (hby : cs.byOp op = [(n, t)]) (x : Val) (hd : inDom env f t x = true)
    (extOut : Bool) (b' : Builder)
    (he : encodeOpBody env f cs (opVal (strBytes n) (some op) x) Builder.empty = .ok b') :
    ∃ rest, decodeOpBody env f extOut cs (Slice.ofCell b'.toCell) = .ok (opVal (strBytes n) (some op) x, rest) := by
  obtain ⟨n', t', hby', hop, hw, hne, hnu⟩ := opEntryOk_elim hok
  rw [hby] at hby'
  simp only [List.cons.injEq, Prod.mk.injEq, and_true] at hby'
  obtain ⟨rfl, rfl⟩ := hby'
  simp only [encodeOpBody, opVal, Val.list, Val.some, hne, hnu, ↓reduceIte, bodyType, Int.toNat_natCast, hby,
    findByName_single] at he
  cases hwu : Builder.empty.writeUint op 32 with
  | err e => rw [hwu] at he; cases he
  | panic p => rw [hwu] at he; cases he
  | ok b1 =>
    rw [hwu] at he
    simp only [bind, Outcome.bind] at he
    have hb1 := Spec.writeUint_spec _ _ _ _ (by omega) hwu
    subst hb1
    obtain ⟨xs, rs, hb, hrt⟩ := h.enc t x _ b' hw hd he
    subst hb
    obtain ⟨s', hs', _⟩ := hrt {} rfl (Or.inr ⟨rfl, rfl, rfl⟩)
    rw [opBody_slice]
    have hlen : ¬ ((natToBits 32 op ++ xs).length < 32) := by simp
    have hdrop : (natToBits 32 op ++ xs).drop 32 = xs := by
      rw [List.drop_append_of_le_length (by simp)]; simp
    have htake : (natToBits 32 op ++ xs).take 32 = natToBits 32 op := by
      rw [List.take_append_of_le_length (by simp)]; simp
    have hopv : bitsToNat (natToBits 32 op) = op := by
      rw [bitsToNat_natToBits]; exact Nat.mod_eq_of_lt hop
    have hs'' : decode env f t { ty := 0, mask := 0, bits := xs, refs := rs } = .ok (x, s') := by
      simpa [Slice.prepend] using hs'
    refine ⟨{ ty := 0, mask := 0, bits := natToBits 32 op ++ xs, refs := rs }, ?_⟩
    simp only [decodeOpBody, Slice.isLibrary, hlen, ↓reduceIte, htake, hopv, hby, dispatch, hdrop, hs'', opVal,
      Val.list, Val.some]
    rfl

/-! ### payload unions -/

theorem findByName_firstOp (nm : List UInt8) : ∀ (cs : Ctors) (op : Nat) (n : String) (t : Ty) (c : Bool),
    cs.firstOp op = some (n, t, c) → strBytes n = nm → cs.opOfName nm = some op →
    findByName nm cs.entries = some t
  | .nil, _, _, _, _, h, _, _ => by simp [Ctors.firstOp] at h
  | .cons n0 tg t0 rest, op, n, t, c, h, hn, ho => by
    simp only [Ctors.entries, findByName]
    simp only [Ctors.opOfName] at ho
    by_cases h0 : strBytes n0 = nm
    · simp only [h0, ↓reduceIte] at ho ⊢
      cases tg with
      | none => simp at ho
      | some g =>
        simp only [Option.map_some, Option.some.injEq] at ho
        simp only [Ctors.firstOp, ho, ↓reduceIte, Option.some.injEq, Prod.mk.injEq] at h
        rw [h.2.1]
    · simp only [h0, ↓reduceIte] at ho ⊢
      apply findByName_firstOp nm rest op n t c _ hn ho
      cases tg with
      | none => simpa [Ctors.firstOp] using h
      | some g =>
        simp only [Ctors.firstOp] at h
        split at h
        · simp only [Option.some.injEq, Prod.mk.injEq] at h
          exact absurd (h.1 ▸ hn) h0
        · exact h

/-- **payload_roundtrip** (abi.JettonPayload / abi.NFTPayload) -/
theorem payload_roundtrip (h : Inv env f) (cs : Ctors) (op : Nat) (hok : payloadEntryOk env cs op = true)
    (n : String) (t : Ty) (c : Bool) (hby : cs.firstOp op = some (n, t, c)) (x : Val) (hd : inDom env f t x = true)
    (b' : Builder)
    (he : encodePayload env f cs (opVal (strBytes n) (some op) x) Builder.empty = .ok b') :
    ∃ rest, decodePayload env f cs (Slice.ofCell b'.toCell) = .ok (opVal (strBytes n) (some op) x, rest) := by
  unfold payloadEntryOk at hok
  rw [hby] at hok
  simp only [Bool.and_eq_true, decide_eq_true_eq, Bool.not_eq_true', List.isEmpty_eq_false_iff, bne_iff_ne, ne_eq,
    beq_iff_eq, Bool.or_eq_true] at hok
  obtain ⟨⟨⟨⟨⟨hop, hw⟩, hne⟩, hnu⟩, hnm⟩, hc⟩ := hok
  have hfind := findByName_firstOp _ cs op n t c hby rfl hnm
  simp only [encodePayload, opVal, Val.list, Val.some, hne, hnu, ↓reduceIte, Int.toNat_natCast, hfind] at he
  cases hwu : Builder.empty.writeUint op 32 with
  | err e => rw [hwu] at he; cases he
  | panic p => rw [hwu] at he; cases he
  | ok b1 =>
    rw [hwu] at he
    simp only [bind, Outcome.bind] at he
    have hb1 := Spec.writeUint_spec _ _ _ _ (by omega) hwu
    subst hb1
    obtain ⟨xs, rs, hb, hrt⟩ := h.enc t x _ b' hw hd he
    subst hb
    rw [opBody_slice]
    have hlen : ¬ ((natToBits 32 op ++ xs).length < 32) := by simp
    have hdrop : (natToBits 32 op ++ xs).drop 32 = xs := by
      rw [List.drop_append_of_le_length (by simp)]; simp
    have htake : (natToBits 32 op ++ xs).take 32 = natToBits 32 op := by
      rw [List.take_append_of_le_length (by simp)]; simp
    have hopv : bitsToNat (natToBits 32 op) = op := by
      rw [bitsToNat_natToBits]; exact Nat.mod_eq_of_lt hop
    have hemp : ((natToBits 32 op ++ xs).isEmpty && rs.isEmpty) = false := by
      cases hx : natToBits 32 op ++ xs with
      | nil => have := congrArg List.length hx; simp at this
      | cons _ _ => rfl
    refine ⟨{ ty := 0, mask := 0, bits := [], refs := rs }, ?_⟩
    cases c with
    | false =>
      obtain ⟨s', hs', _⟩ := hrt {} rfl (Or.inr ⟨rfl, rfl, rfl⟩)
      have hs'' : decode env f t { ty := 0, mask := 0, bits := xs, refs := rs } = .ok (x, s') := by
        simpa [Slice.prepend] using hs'
      simp only [decodePayload, Slice.isLibrary, hemp, hlen, ↓reduceIte, htake, hopv, hby, hdrop, hs'', opVal,
        Val.list, Val.some, Bool.false_and]
      rfl
    | true =>
      have hng : NG env t := ⟨greedyFuel, by simpa using hc⟩
      obtain ⟨s', hs', hs0⟩ := hrt {} rfl (Or.inl hng)
      rw [hs0 hng] at hs'
      have hs'' : decode env f t { ty := 0, mask := 0, bits := xs, refs := rs } = .ok (x, {}) := by
        simpa [Slice.prepend] using hs'
      simp only [decodePayload, Slice.isLibrary, hemp, hlen, ↓reduceIte, htake, hopv, hby, hdrop, hs'', opVal,
        Val.list, Val.some]
      rfl
end Tongo.Tlb
