import TongoProofs.Lemmas.HashmapOrder
/-! Get / Put / sortByKeyBits on the slice-order list of entries. -/
namespace Tongo.Hashmap
open Tongo Tongo.Bits

variable {V : Type}

def keysOf (d : List (Key × V)) : List Key := d.map Prod.fst

/-- `lt` (the `Compare(..) < 0` of a key family) is a strict total order on keys of width `n` -/
structure StrictTotalOn (lt : Key → Key → Bool) (n : Nat) : Prop where
  irrefl : ∀ a, lt a a = false
  trans : ∀ a b c, lt a b = true → lt b c = true → lt a c = true
  total : ∀ a b, a.length = n → b.length = n → a ≠ b → lt a b = true ∨ lt b a = true

def SortedBy (lt : Key → Key → Bool) (d : List (Key × V)) : Prop := d.Pairwise fun a b => lt a.1 b.1 = true

theorem sortedKV_iff_sortedBy (d : List (Key × V)) : SortedKV d ↔ SortedBy lexLt d := Iff.rfl

/-! ### the three comparison families -/

theorem strictTotal_lexLt (n : Nat) : StrictTotalOn lexLt n :=
  ⟨lexLt_irrefl, lexLt_trans, fun a b ha hb hne => lexLt_total a b (by omega) hne⟩

theorem strictTotal_ltUnsigned (n : Nat) : StrictTotalOn ltUnsigned n := by
  refine ⟨?_, ?_, ?_⟩
  · intro a; simp [ltUnsigned]
  · intro a b c h1 h2; simp [ltUnsigned] at *; omega
  · intro a b ha hb hne
    have : bitsToNat a ≠ bitsToNat b := fun h => hne (bitsToNat_inj a b (by omega) h)
    simp [ltUnsigned]; omega

theorem bitsToInt_inj : ∀ (a b : Key), a.length = b.length → bitsToInt a = bitsToInt b → a = b
  | [], [], _, _ => rfl
  | [], _ :: _, h, _ => by simp at h
  | _ :: _, [], h, _ => by simp at h
  | x :: a, y :: b, hl, h => by
    have hl' : a.length = b.length := by simpa using hl
    have ha := bitsToNat_lt a
    have hb := bitsToNat_lt b
    rw [hl'] at ha
    have hpow : (2 ^ b.length : Int) = ((2 ^ b.length : Nat) : Int) := by norm_cast
    cases x <;> cases y <;> simp [bitsToInt, hl'] at h
    · rw [bitsToNat_inj a b hl' (by omega)]
    · exfalso; omega
    · exfalso; omega
    · rw [bitsToNat_inj a b hl' (by omega)]

theorem strictTotal_ltSigned (n : Nat) : StrictTotalOn ltSigned n := by
  refine ⟨?_, ?_, ?_⟩
  · intro a; simp [ltSigned]
  · intro a b c h1 h2; simp [ltSigned] at *; omega
  · intro a b ha hb hne
    have : bitsToInt a ≠ bitsToInt b := fun h => hne (bitsToInt_inj a b (by omega) h)
    simp [ltSigned]; omega

/-! ### Get -/

theorem get_eq_none_iff (d : List (Key × V)) (k : Key) : get d k = none ↔ k ∉ keysOf d := by
  induction d with
  | nil => simp [get, keysOf]
  | cons x d ih =>
    obtain ⟨k', v'⟩ := x
    simp only [get, keysOf, List.map_cons, List.mem_cons, not_or] at *
    by_cases h : k' = k
    · simp [h]
    · have : (k' == k) = false := by simpa using h
      simp only [this, Bool.false_eq_true, if_false, ih]
      constructor
      · intro hn; exact ⟨fun e => h e.symm, hn⟩
      · intro hn; exact hn.2

theorem get_eq_some_iff (d : List (Key × V)) (hnd : (keysOf d).Nodup) (k : Key) (v : V) :
    get d k = some v ↔ (k, v) ∈ d := by
  induction d with
  | nil => simp [get]
  | cons x d ih =>
    obtain ⟨k', v'⟩ := x
    simp only [keysOf, List.map_cons, List.nodup_cons] at hnd
    have ih := ih hnd.2
    simp only [get, List.mem_cons, Prod.mk.injEq]
    by_cases h : k' = k
    · subst h
      simp only [beq_self_eq_true, if_true, Option.some.injEq]
      constructor
      · intro e; left; exact ⟨trivial, e.symm⟩
      · intro e
        rcases e with e | e
        · exact e.2.symm
        · exfalso; exact hnd.1 (List.mem_map.mpr ⟨(k', v), e, rfl⟩)
    · have hb : (k' == k) = false := by simpa using h
      simp only [hb, Bool.false_eq_true, if_false, ih]
      constructor
      · intro e; right; exact e
      · intro e
        rcases e with e | e
        · exact absurd e.1.symm h
        · exact e

theorem get_perm (d1 d2 : List (Key × V)) (hp : d1.Perm d2) (hnd : (keysOf d1).Nodup) (k : Key) :
    get d1 k = get d2 k := by
  have hnd2 : (keysOf d2).Nodup := (hp.map Prod.fst).nodup hnd
  cases h1 : get d1 k with
  | none =>
    have := (get_eq_none_iff d1 k).mp h1
    have h2 : k ∉ keysOf d2 := fun h => this ((hp.map Prod.fst).mem_iff.mpr h)
    exact ((get_eq_none_iff d2 k).mpr h2).symm
  | some v =>
    have := (get_eq_some_iff d1 hnd k v).mp h1
    exact ((get_eq_some_iff d2 hnd2 k v).mpr (hp.mem_iff.mp this)).symm

/-! ### Put -/

theorem replaceKV_none_iff (k : Key) (v : V) (d : List (Key × V)) : replaceKV k v d = none ↔ k ∉ keysOf d := by
  induction d with
  | nil => simp [replaceKV, keysOf]
  | cons x d ih =>
    obtain ⟨k', v'⟩ := x
    simp only [replaceKV, keysOf, List.map_cons, List.mem_cons, not_or] at *
    by_cases h : k' = k
    · simp [h]
    · have hb : (k' == k) = false := by simpa using h
      simp only [hb, Bool.false_eq_true, if_false]
      cases hr : replaceKV k v d with
      | none =>
        simp only [hr, true_iff] at ih
        simp only [true_iff]
        exact ⟨fun e => h e.symm, ih⟩
      | some r =>
        simp only [hr] at ih
        have ih' : k ∈ List.map Prod.fst d := by
          have := ih.not
          simp at this
          exact Classical.not_not.mp (by simpa using this)
        simp only [reduceCtorEq, false_iff, not_and, Classical.not_not]
        intro _; exact ih'

theorem replaceKV_some (k : Key) (v : V) : ∀ (d r : List (Key × V)), replaceKV k v d = some r →
    keysOf r = keysOf d ∧ (∀ k', get r k' = if k' = k then some v else get d k')
  | [], r, h => by simp [replaceKV] at h
  | (k', v') :: d, r, h => by
    simp only [replaceKV] at h
    by_cases hk : k' = k
    · subst hk
      simp only [beq_self_eq_true, if_true, Option.some.injEq] at h
      subst h
      refine ⟨by simp [keysOf], ?_⟩
      intro k''
      simp only [get]
      by_cases h2 : k' = k''
      · subst h2; simp
      · have hb : (k' == k'') = false := by simpa using h2
        have : ¬ (k'' = k') := fun e => h2 e.symm
        simp [hb, this]
    · have hb : (k' == k) = false := by simpa using hk
      simp only [hb, Bool.false_eq_true, if_false] at h
      cases hr : replaceKV k v d with
      | none => simp [hr] at h
      | some r' =>
        simp only [hr, Option.some.injEq] at h
        subst h
        obtain ⟨ih1, ih2⟩ := replaceKV_some k v d r' hr
        refine ⟨by simp [keysOf] at ih1 ⊢; exact ih1, ?_⟩
        intro k''
        simp only [get]
        by_cases h2 : k' = k''
        · subst h2
          have : ¬ (k' = k) := hk
          simp [this]
        · have hb2 : (k' == k'') = false := by simpa using h2
          simp [hb2, ih2 k'']

theorem mem_insertBefore (lt : Key → Key → Bool) (k : Key) (v : V) (d : List (Key × V)) (x : Key × V) :
    x ∈ insertBefore lt k v d ↔ x = (k, v) ∨ x ∈ d := by
  induction d with
  | nil => simp [insertBefore]
  | cons y d ih =>
    obtain ⟨k', v'⟩ := y
    simp only [insertBefore]
    split
    · simp
    · simp only [List.mem_cons, ih]
      constructor
      · rintro (h | h | h)
        · right; left; exact h
        · left; exact h
        · right; right; exact h
      · rintro (h | h | h)
        · right; left; exact h
        · left; exact h
        · right; right; exact h

theorem insertBefore_perm (lt : Key → Key → Bool) (k : Key) (v : V) (d : List (Key × V)) :
    (insertBefore lt k v d).Perm ((k, v) :: d) := by
  induction d with
  | nil => simp [insertBefore]
  | cons y d ih =>
    obtain ⟨k', v'⟩ := y
    simp only [insertBefore]
    split
    · exact List.Perm.refl _
    · exact (List.Perm.cons _ ih).trans (List.Perm.swap _ _ _)

theorem get_insertBefore (lt : Key → Key → Bool) (k : Key) (v : V) (d : List (Key × V)) (hk : k ∉ keysOf d) (k' : Key) :
    get (insertBefore lt k v d) k' = if k' = k then some v else get d k' := by
  induction d with
  | nil =>
    simp only [insertBefore, get]
    by_cases h : k = k'
    · subst h; simp
    · have hb : (k == k') = false := by simpa using h
      have : ¬ (k' = k) := fun e => h e.symm
      simp [hb, this]
  | cons y d ih =>
    obtain ⟨k1, v1⟩ := y
    simp only [keysOf, List.map_cons, List.mem_cons, not_or] at hk
    have ih := ih hk.2
    simp only [insertBefore]
    split
    · simp only [get]
      by_cases h : k = k'
      · subst h; simp
      · have hb : (k == k') = false := by simpa using h
        have : ¬ (k' = k) := fun e => h e.symm
        simp [hb, this]
    · simp only [get]
      by_cases h1 : k1 = k'
      · subst h1
        have : ¬ (k1 = k) := fun e => hk.1 e.symm
        simp [this]
      · have hb : (k1 == k') = false := by simpa using h1
        simp [hb, ih]

/-- Put realises the map update: afterwards `k ↦ v`, every other key as before -/
theorem get_put (lt : Key → Key → Bool) (d : List (Key × V)) (k : Key) (v : V) (k' : Key) :
    get (put lt d k v) k' = if k' = k then some v else get d k' := by
  unfold put
  cases hr : replaceKV k v d with
  | some r => exact (replaceKV_some k v d r hr).2 k'
  | none => exact get_insertBefore lt k v d ((replaceKV_none_iff k v d).mp hr) k'

theorem keysOf_put_mem (lt : Key → Key → Bool) (d : List (Key × V)) (k : Key) (v : V) (x : Key) :
    x ∈ keysOf (put lt d k v) ↔ x = k ∨ x ∈ keysOf d := by
  unfold put
  cases hr : replaceKV k v d with
  | some r =>
    have h1 := (replaceKV_some k v d r hr).1
    simp only [h1]
    constructor
    · intro h; right; exact h
    · rintro (h | h)
      · subst h
        have : ¬ (replaceKV x v d = none) := by simp [hr]
        rw [replaceKV_none_iff] at this
        exact Classical.not_not.mp this
      · exact h
  | none =>
    simp only [keysOf, List.mem_map]
    constructor
    · rintro ⟨y, hy, rfl⟩
      rcases (mem_insertBefore lt k v d y).mp hy with h | h
      · left; rw [h]
      · right; exact ⟨y, h, rfl⟩
    · rintro (h | ⟨y, hy, rfl⟩)
      · exact ⟨(k, v), (mem_insertBefore lt k v d _).mpr (Or.inl rfl), h.symm⟩
      · exact ⟨y, (mem_insertBefore lt k v d _).mpr (Or.inr hy), rfl⟩

theorem insertBefore_sorted (lt : Key → Key → Bool) (n : Nat) (hlt : StrictTotalOn lt n) (k : Key) (v : V)
    (hk : k.length = n) : ∀ (d : List (Key × V)), SortedBy lt d → (∀ x ∈ keysOf d, x.length = n) → k ∉ keysOf d →
    SortedBy lt (insertBefore lt k v d)
  | [], _, _, _ => by simp [insertBefore, SortedBy]
  | (k', v') :: d, hs, hw, hnk => by
    simp only [keysOf, List.map_cons, List.mem_cons, not_or] at hnk
    have hs' := List.pairwise_cons.mp hs
    simp only [insertBefore]
    split
    · rename_i hlt1
      apply List.pairwise_cons.mpr
      refine ⟨?_, hs⟩
      intro y hy
      rcases List.mem_cons.mp hy with h | h
      · rw [h]; exact hlt1
      · exact hlt.trans _ _ _ hlt1 (hs'.1 y h)
    · rename_i hlt1
      apply List.pairwise_cons.mpr
      refine ⟨?_, insertBefore_sorted lt n hlt k v hk d hs'.2
        (fun x hx => hw x (by simp [keysOf] at hx ⊢; right; exact hx)) hnk.2⟩
      intro y hy
      rcases (mem_insertBefore lt k v d y).mp hy with h | h
      · rw [h]
        have hk' : k'.length = n := hw k' (by simp [keysOf])
        rcases hlt.total k k' hk hk' hnk.1 with h1 | h1
        · exact absurd h1 hlt1
        · exact h1
      · exact hs'.1 y h

theorem replaceKV_sorted (lt : Key → Key → Bool) (k : Key) (v : V) : ∀ (d r : List (Key × V)),
    replaceKV k v d = some r → SortedBy lt d → SortedBy lt r := by
  intro d r hr hs
  have hk := (replaceKV_some k v d r hr).1
  unfold SortedBy at hs ⊢
  have h1 : (keysOf d).Pairwise (fun a b => lt a b = true) := by
    unfold keysOf; rw [List.pairwise_map]; exact hs
  rw [← hk] at h1
  unfold keysOf at h1
  rw [List.pairwise_map] at h1
  exact h1

/-- Put keeps the slice sorted by Compare (and the keys of the declared width) -/
theorem put_sortedBy (lt : Key → Key → Bool) (n : Nat) (hlt : StrictTotalOn lt n) (d : List (Key × V)) (k : Key) (v : V)
    (hk : k.length = n) (hs : SortedBy lt d) (hw : ∀ x ∈ keysOf d, x.length = n) :
    SortedBy lt (put lt d k v) := by
  unfold put
  cases hr : replaceKV k v d with
  | some r => exact replaceKV_sorted lt k v d r hr hs
  | none => exact insertBefore_sorted lt n hlt k v hk d hs hw ((replaceKV_none_iff k v d).mp hr)

theorem put_perm_of_not_mem (lt : Key → Key → Bool) (d : List (Key × V)) (k : Key) (v : V) (hk : k ∉ keysOf d) :
    (put lt d k v).Perm ((k, v) :: d) := by
  unfold put
  rw [(replaceKV_none_iff k v d).mpr hk]
  exact insertBefore_perm lt k v d

theorem sortedBy_nodup (lt : Key → Key → Bool) (hirr : ∀ a, lt a a = false) (d : List (Key × V)) (hs : SortedBy lt d) :
    (keysOf d).Nodup := by
  unfold keysOf List.Nodup
  rw [List.pairwise_map]
  exact hs.imp (fun {a b} h e => by rw [e, hirr] at h; cases h)

/-! ### buildPut: a dictionary filled by successive Put -/

theorem foldl_put_sorted (lt : Key → Key → Bool) (n : Nat) (hlt : StrictTotalOn lt n) :
    ∀ (ops d : List (Key × V)), SortedBy lt d → (∀ x ∈ keysOf d, x.length = n) → (∀ x ∈ keysOf ops, x.length = n) →
    SortedBy lt (ops.foldl (fun d kv => put lt d kv.1 kv.2) d) ∧
      ∀ x ∈ keysOf (ops.foldl (fun d kv => put lt d kv.1 kv.2) d), x.length = n
  | [], d, hs, hw, _ => ⟨hs, hw⟩
  | (k, v) :: ops, d, hs, hw, hwo => by
    simp only [List.foldl_cons]
    have hk : k.length = n := hwo k (by simp [keysOf])
    apply foldl_put_sorted lt n hlt ops (put lt d k v) (put_sortedBy lt n hlt d k v hk hs hw)
    · intro x hx
      rcases (keysOf_put_mem lt d k v x).mp hx with h | h
      · rw [h]; exact hk
      · exact hw x h
    · intro x hx; exact hwo x (by simp [keysOf] at hx ⊢; right; exact hx)

theorem foldl_put_perm (lt : Key → Key → Bool) :
    ∀ (ops d : List (Key × V)), (keysOf ops).Nodup → (∀ x ∈ keysOf ops, x ∉ keysOf d) →
    (ops.foldl (fun d kv => put lt d kv.1 kv.2) d).Perm (d ++ ops)
  | [], d, _, _ => by simp
  | (k, v) :: ops, d, hnd, hdis => by
    simp only [List.foldl_cons]
    simp only [keysOf, List.map_cons, List.nodup_cons] at hnd
    have hkd : k ∉ keysOf d := hdis k (by simp [keysOf])
    have ih := foldl_put_perm lt ops (put lt d k v) hnd.2 (by
      intro x hx hx2
      rcases (keysOf_put_mem lt d k v x).mp hx2 with h | h
      · subst h; exact hnd.1 hx
      · exact hdis x (by simp [keysOf] at hx ⊢; right; exact hx) h)
    refine ih.trans ?_
    refine ((put_perm_of_not_mem lt d k v hkd).append_right ops).trans ?_
    simp only [List.cons_append]
    exact List.perm_middle.symm

theorem buildPut_sorted (lt : Key → Key → Bool) (n : Nat) (hlt : StrictTotalOn lt n) (ops : List (Key × V))
    (hw : ∀ x ∈ keysOf ops, x.length = n) :
    SortedBy lt (buildPut lt ops) ∧ ∀ x ∈ keysOf (buildPut lt ops), x.length = n :=
  foldl_put_sorted lt n hlt ops [] (by simp [SortedBy]) (by simp [keysOf]) hw

theorem buildPut_perm (lt : Key → Key → Bool) (ops : List (Key × V)) (hnd : (keysOf ops).Nodup) :
    (buildPut lt ops).Perm ops := by
  have := foldl_put_perm lt ops [] hnd (by simp [keysOf])
  simpa [buildPut] using this

theorem sortedBy_perm_eq (lt : Key → Key → Bool) (n : Nat) (hlt : StrictTotalOn lt n) (d1 d2 : List (Key × V))
    (h1 : SortedBy lt d1) (h2 : SortedBy lt d2) (hp : d1.Perm d2) : d1 = d2 := by
  refine List.Perm.eq_of_pairwise (le := fun (a b : Key × V) => lt a.1 b.1 = true) ?_ h1 h2 hp
  intro a b _ _ hab hba
  have := hlt.trans _ _ _ hab hba
  rw [hlt.irrefl] at this
  cases this

/-! ### sortKV (sortByKeyBits) -/

theorem insertKV_perm (x : Key × V) (l : List (Key × V)) : (insertKV x l).Perm (x :: l) := by
  induction l with
  | nil => simp [insertKV]
  | cons y l ih =>
    simp only [insertKV]
    split
    · exact (List.Perm.cons _ ih).trans (List.Perm.swap _ _ _)
    · exact List.Perm.refl _

theorem sortKV_perm (l : List (Key × V)) : (sortKV l).Perm l := by
  induction l with
  | nil => simp [sortKV]
  | cons x l ih =>
    have : sortKV (x :: l) = insertKV x (sortKV l) := by simp [sortKV]
    rw [this]
    exact (insertKV_perm x _).trans (List.Perm.cons _ ih)

theorem insertKV_sorted (n : Nat) (x : Key × V) (hx : x.1.length = n) : ∀ (l : List (Key × V)), SortedKV l →
    (∀ k ∈ keysOf l, k.length = n) → x.1 ∉ keysOf l → SortedKV (insertKV x l)
  | [], _, _, _ => by simp [insertKV, SortedKV]
  | y :: l, hs, hw, hnx => by
    simp only [keysOf, List.map_cons, List.mem_cons, not_or] at hnx
    have hs' := List.pairwise_cons.mp hs
    simp only [insertKV]
    split
    · rename_i h
      apply List.pairwise_cons.mpr
      refine ⟨?_, insertKV_sorted n x hx l hs'.2 (fun k hk => hw k (by simp [keysOf] at hk ⊢; right; exact hk)) hnx.2⟩
      intro z hz
      rcases List.mem_cons.mp ((insertKV_perm x l).mem_iff.mp hz) with e | e
      · rw [e]; exact h
      · exact hs'.1 z e
    · rename_i h
      apply List.pairwise_cons.mpr
      refine ⟨?_, hs⟩
      have hy : y.1.length = n := hw y.1 (by simp [keysOf])
      have hxy : lexLt x.1 y.1 = true := by
        rcases lexLt_total x.1 y.1 (by omega) hnx.1 with h1 | h1
        · exact h1
        · exact absurd h1 h
      intro z hz
      rcases List.mem_cons.mp hz with e | e
      · rw [e]; exact hxy
      · exact lexLt_trans _ _ _ hxy (hs'.1 z e)

theorem sortKV_sorted (n : Nat) : ∀ (l : List (Key × V)), (keysOf l).Nodup → (∀ k ∈ keysOf l, k.length = n) →
    SortedKV (sortKV l)
  | [], _, _ => by simp [sortKV, SortedKV]
  | x :: l, hnd, hw => by
    have : sortKV (x :: l) = insertKV x (sortKV l) := by simp [sortKV]
    rw [this]
    simp only [keysOf, List.map_cons, List.nodup_cons] at hnd
    have hwl : ∀ k ∈ keysOf l, k.length = n := fun k hk => hw k (by simp [keysOf] at hk ⊢; right; exact hk)
    have hp := (sortKV_perm l).map Prod.fst
    apply insertKV_sorted n x (hw x.1 (by simp [keysOf])) (sortKV l) (sortKV_sorted n l hnd.2 hwl)
    · intro k hk; exact hwl k (hp.mem_iff.mp hk)
    · intro h; exact hnd.1 (hp.mem_iff.mp h)

theorem sortKV_of_sorted : ∀ (l : List (Key × V)), SortedKV l → sortKV l = l
  | [], _ => by simp [sortKV]
  | x :: l, hs => by
    have : sortKV (x :: l) = insertKV x (sortKV l) := by simp [sortKV]
    have hs' := List.pairwise_cons.mp hs
    rw [this, sortKV_of_sorted l hs'.2]
    cases l with
    | nil => simp [insertKV]
    | cons y l =>
      have hxy : lexLt x.1 y.1 = true := hs'.1 y (by simp)
      simp [insertKV, lexLt_asymm _ _ hxy]

theorem sortKV_perm_eq (n : Nat) (l1 l2 : List (Key × V)) (hp : l1.Perm l2) (hnd : (keysOf l1).Nodup)
    (hw : ∀ k ∈ keysOf l1, k.length = n) : sortKV l1 = sortKV l2 := by
  have hp' := hp.map Prod.fst
  have hnd2 : (keysOf l2).Nodup := hp'.nodup hnd
  have hw2 : ∀ k ∈ keysOf l2, k.length = n := fun k hk => hw k (hp'.mem_iff.mpr hk)
  exact sortedBy_perm_eq lexLt n (strictTotal_lexLt n) _ _ (sortKV_sorted n l1 hnd hw) (sortKV_sorted n l2 hnd2 hw2)
    (((sortKV_perm l1).trans hp).trans (sortKV_perm l2).symm)

/-! ### entries of a dictionary after Put -/

theorem mem_replaceKV (k : Key) (v : V) : ∀ (d r : List (Key × V)), replaceKV k v d = some r →
    ∀ x ∈ r, x.2 = v ∨ x ∈ d
  | [], r, h => by simp [replaceKV] at h
  | (k', v') :: d, r, h => by
    simp only [replaceKV] at h
    by_cases hk : k' = k
    · subst hk
      simp only [beq_self_eq_true, if_true, Option.some.injEq] at h
      subst h
      intro x hx
      rcases List.mem_cons.mp hx with e | e
      · left; rw [e]
      · right; exact List.mem_cons_of_mem _ e
    · have hb : (k' == k) = false := by simpa using hk
      simp only [hb, Bool.false_eq_true, if_false] at h
      cases hr : replaceKV k v d with
      | none => simp [hr] at h
      | some r' =>
        simp only [hr, Option.some.injEq] at h
        subst h
        intro x hx
        rcases List.mem_cons.mp hx with e | e
        · right; rw [e]; exact List.mem_cons_self
        · rcases mem_replaceKV k v d r' hr x e with h1 | h1
          · left; exact h1
          · right; exact List.mem_cons_of_mem _ h1

theorem mem_put (lt : Key → Key → Bool) (d : List (Key × V)) (k : Key) (v : V) :
    ∀ x ∈ put lt d k v, x.2 = v ∨ x ∈ d := by
  unfold put
  cases hr : replaceKV k v d with
  | some r => exact mem_replaceKV k v d r hr
  | none =>
    intro x hx
    rcases (mem_insertBefore lt k v d x).mp hx with e | e
    · left; rw [e]
    · right; exact e

theorem put_nodup (lt : Key → Key → Bool) (d : List (Key × V)) (k : Key) (v : V) (hnd : (keysOf d).Nodup) :
    (keysOf (put lt d k v)).Nodup := by
  unfold put
  cases hr : replaceKV k v d with
  | some r => simp only; rw [(replaceKV_some k v d r hr).1]; exact hnd
  | none =>
    have hk := (replaceKV_none_iff k v d).mp hr
    have hp := (insertBefore_perm lt k v d).map Prod.fst
    apply hp.symm.nodup
    simp only [List.map_cons, List.nodup_cons]
    exact ⟨hk, hnd⟩

/-! ### the executable comparisons used by the driver equal the numeric ones on keys of one width -/

theorem ltUnsigned_eq_fast (a b : Key) (h : a.length = b.length) : ltUnsigned a b = ltUnsignedFast a b := by
  have := lexLt_iff_bitsToNat a b h
  unfold ltUnsignedFast
  cases hl : lexLt a b
  · simp only [ltUnsigned, decide_eq_false_iff_not]; intro h2; rw [this.mpr h2] at hl; cases hl
  · simp only [ltUnsigned, decide_eq_true_eq]; exact this.mp hl

theorem ltSigned_eq_fast : ∀ (a b : Key), a.length = b.length → ltSigned a b = ltSignedFast a b
  | [], [], _ => by simp [ltSigned, ltSignedFast, bitsToInt]
  | [], _ :: _, h => by simp at h
  | _ :: _, [], h => by simp at h
  | x :: a, y :: b, hl => by
    have hl' : a.length = b.length := by simpa using hl
    have ha := bitsToNat_lt a
    have hb := bitsToNat_lt b
    rw [hl'] at ha
    have hlex := lexLt_iff_bitsToNat a b hl'
    have hpow : (2 ^ b.length : Int) = ((2 ^ b.length : Nat) : Int) := by norm_cast
    cases hlx : lexLt a b <;> cases x <;> cases y <;>
      simp [ltSigned, ltSignedFast, bitsToInt, hl', hlx] <;> simp [hlx] at hlex <;> omega

end Tongo.Hashmap
