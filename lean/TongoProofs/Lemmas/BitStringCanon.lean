import TongoProofs.Lemmas.BitStringBig
/-! Under the invariant the buffer prefix is the canonical packing of the abstract bits. Helper lemmas only. -/
namespace Tongo.Bits

/-- padding the last partial byte with zeros does not change the packing -/
theorem bitsToBytes_pad (q : Nat) : ∀ (l : List Bool), l.length / 8 = q → l.length % 8 ≠ 0 →
    bitsToBytes (l ++ List.replicate (8 - l.length % 8) false) = bitsToBytes l := by
  induction q with
  | zero =>
    intro l hq hr
    have hlt : l.length < 8 := by omega
    have hmod : l.length % 8 = l.length := Nat.mod_eq_of_lt hlt
    rw [hmod]
    match l, hr, hlt with
    | h :: t, _, hlt =>
      have hl8 : (h :: t ++ List.replicate (8 - (h :: t).length) false).length = 8 := by
        simp at hlt ⊢; omega
      have e := bitsToBytes_append8 (h :: t ++ List.replicate (8 - (h :: t).length) false) [] hl8
      rw [List.append_nil] at e
      rw [e, bitsToBytes_nil]
      conv => rhs; rw [bitsToBytes]
      have ht : List.take 8 (h :: t) = h :: t := List.take_of_length_le (by omega)
      have hd : List.drop 7 t = [] := List.drop_of_length_le (by simp at hlt; omega)
      rw [ht, hd, bitsToBytes_nil]
  | succ q ih =>
    intro l hq hr
    have hsplit : l = l.take 8 ++ l.drop 8 := (List.take_append_drop 8 l).symm
    have ht : (l.take 8).length = 8 := by rw [List.length_take]; omega
    have hd : (l.drop 8).length = l.length - 8 := List.length_drop
    have hmod : (l.drop 8).length % 8 = l.length % 8 := by rw [hd]; omega
    have e1 : l ++ List.replicate (8 - l.length % 8) false
        = l.take 8 ++ (l.drop 8 ++ List.replicate (8 - (l.drop 8).length % 8) false) := by
      rw [hmod, ← List.append_assoc, List.take_append_drop]
    rw [e1, bitsToBytes_append8 _ _ ht, ih (l.drop 8) (by rw [hd]; omega) (by rw [hmod]; exact hr)]
    conv => rhs; rw [hsplit, bitsToBytes_append8 _ _ ht]

end Tongo.Bits

namespace Tongo.BitString
open Tongo.Bits

/-- canonical buffer: with a clean tail, the first ⌈len/8⌉ buffer bytes are exactly the packing of the written bits
(what `Buffer()`/`bocReprWithoutRefs` expose, hence what the cell hash sees) -/
theorem buf_take_eq_bitsToBytes (s : BitString) (hi : Inv s) :
    s.buf.take ((s.len + 7) / 8) = bitsToBytes (abs s) := by
  obtain ⟨h1, h2, h3, h4⟩ := hi
  have hm : (s.len + 7) / 8 ≤ s.buf.length := by omega
  have hbits : bytesToBits (s.buf.take ((s.len + 7) / 8)) =
      abs s ++ List.replicate (8 * ((s.len + 7) / 8) - s.len) false := by
    rw [bytesToBits_take]
    have e : 8 * ((s.len + 7) / 8) = s.len + (8 * ((s.len + 7) / 8) - s.len) := by omega
    conv => lhs; rw [e, List.take_add]
    congr 1
    rw [h4, List.take_replicate]
    congr 1; omega
  have hX := bitsToBytes_bytesToBits (s.buf.take ((s.len + 7) / 8))
  rw [hbits] at hX
  rw [← hX]
  have hal : (abs s).length = s.len := abs_length (by omega)
  by_cases hr : s.len % 8 = 0
  · have : 8 * ((s.len + 7) / 8) - s.len = 0 := by omega
    rw [this]; simp
  · have e : 8 * ((s.len + 7) / 8) - s.len = 8 - (abs s).length % 8 := by rw [hal]; omega
    rw [e]
    exact bitsToBytes_pad _ (abs s) rfl (by rw [hal]; exact hr)

end Tongo.BitString
