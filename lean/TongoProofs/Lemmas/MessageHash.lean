import TongoProofs.Lemmas.CellHash
import TongoModel.Message
import TongoModel.CellHashSpec
import TongoModel.CellOrd
import TongoProofs.Lemmas.Message
import TongoProofs.Lemmas.CellOrd
/-! Lemmas for C16 on top of the C02 specification of the representation hash (`TongoModel/CellHashSpec.lean`):
the representation of the canonical external-in cell and its injectivity in (data bits, hash of the body). -/
namespace Tongo.Message
open Tongo Tongo.Json

/-- an ordinary cell with level mask 0 has no significant level above 0: its hash at every level is the level-0 hash -/
theorem hashLevel_mask0 (H : List UInt8 → List UInt8) (bits : List Bool) (kh : List (Nat → List UInt8))
    (kd : List (Nat → Nat)) (l : Nat) :
    Spec.hashLevel H 0 0 bits kh kd l = Spec.hashLevel H 0 0 bits kh kd 0 := by
  induction l with
  | zero => rfl
  | succ l ih =>
    conv => lhs; rw [Spec.hashLevel]
    have h1 : ¬ ((0 : Nat) = tyPruned ∧ l + 1 < Spec.level 0) := by intro h; exact absurd h.1 (by decide)
    have h2 : (!Spec.significant 0 (l + 1)) = true := by simp [Spec.significant]
    rw [if_neg h1, if_pos h2, ih]

/-- the byte string whose hash is the representation hash of the canonical cell: descriptor bytes, data with completion
tag, depth and hash of the one reference (the body) — the TON definition instantiated on `normCell` -/
def canonRepr (H : List UInt8 → List UInt8) (dest : MsgAddr) (body : Cell) : List UInt8 :=
  Spec.descr tyOrdinary 0 (normBits dest) 1 0 ++ Bits.toppedUp (normBits dest) ++
    (be16 (Spec.depthAt body 0) ++ Spec.hashAt H body 0)

theorem spec_reprHash_normCell (H : List UInt8 → List UInt8) (dest : MsgAddr) (body : Cell) :
    Spec.reprHash H (normCell dest body) = H (canonRepr H dest body) := by
  unfold Spec.reprHash normCell Cell.ordinary
  simp only [Spec.hashAt]
  rw [hashLevel_mask0]
  simp [Spec.hashLevel, tyOrdinary, tyPruned, canonRepr, Spec.hashAtL, Spec.depthAtL, Spec.childrenPart,
    Spec.childLevel, Spec.isMerkle, tyMerkleProof, tyMerkleUpdate, CellHashLemmas.paddedData_eq,
    CellHashLemmas.depthBytes_eq]

/-- for a level-0 body the hash entering the canonical representation is the body's representation hash -/
theorem spec_body_hash (H : List UInt8 → List UInt8) (bits : List Bool) (refs : List Cell) :
    Spec.hashAt H (Cell.ordinary bits refs) 0 = Spec.reprHash H (Cell.ordinary bits refs) := by
  unfold Spec.reprHash Cell.ordinary
  simp only [Spec.hashAt]
  rw [hashLevel_mask0 H bits _ _ 3]

/-- **The representation is injective in (data bits, hash of the reference).** Two canonical representations (data
of at most 1023 bits, one reference each) that are equal as byte strings have the same data bits and the same child
hash: the second descriptor byte fixes the number of data bytes and whether a completion tag is present, the tag
fixes the bit length, and the depth field has a fixed width. No assumption on the length of `H`'s outputs. -/
theorem canonRepr_injective (H : List UInt8 → List UInt8) (d1 d2 : MsgAddr) (b1 b2 : Cell)
    (h1 : (normBits d1).length ≤ 1023) (h2 : (normBits d2).length ≤ 1023)
    (h : canonRepr H d1 b1 = canonRepr H d2 b2) :
    normBits d1 = normBits d2 ∧ Spec.hashAt H b1 0 = Spec.hashAt H b2 0 := by
  unfold canonRepr at h
  rw [CellHashLemmas.descr_eq, CellHashLemmas.descr_eq] at h
  simp only [List.cons_append, List.nil_append, List.cons.injEq] at h
  obtain ⟨_, hd2, hrest⟩ := h
  have hdd : ((normBits d1).length + 7) / 8 + (normBits d1).length / 8 =
      ((normBits d2).length + 7) / 8 + (normBits d2).length / 8 := by
    have := congrArg UInt8.toNat hd2
    simp [Tongo.d2, UInt8.toNat_ofNat'] at this
    omega
  have hlen : (Bits.toppedUp (normBits d1)).length = (Bits.toppedUp (normBits d2)).length := by
    rw [Bits.toppedUp_length, Bits.toppedUp_length]; omega
  have hsplit := List.append_inj hrest hlen
  have hbits := Bits.toppedUp_inj h1 h2 hdd hsplit.1
  have htail := List.append_inj hsplit.2 (by simp [be16])
  exact ⟨hbits, htail.2⟩

theorem normBits_length_le (d : MsgAddr) (h : AddrWF d) : (normBits d).length ≤ 1023 := by
  have := encodeAddr_length_le (normDest d) (normDest_wf d h)
  simp [normBits]; omega

/-- equal canonical data bits mean equal destinations (up to a standard address's anycast) -/
theorem normBits_inj (d1 d2 : MsgAddr) (w1 : AddrWF d1) (w2 : AddrWF d2) (h : normBits d1 = normBits d2) :
    normDest d1 = normDest d2 := by
  unfold normBits at h
  simp only [List.append_assoc, List.cons_append, List.nil_append, List.cons.injEq, true_and] at h
  exact encodeAddr_injective _ _ (normDest_wf d1 w1) (normDest_wf d2 w2) (List.append_cancel_right h)

end Tongo.Message
