import TongoProofs.Lemmas.BitStringBits
/-! Slicing arithmetic on big-endian bit lists: division and remainder by powers of two are `take` and `drop`;
big-endian bytes are big-endian bits. Helper lemmas only. -/
namespace Tongo.Bits

theorem bitsToNat_replicate_false (k : Nat) : bitsToNat (List.replicate k false) = 0 := by
  induction k with
  | zero => rfl
  | succ k ih => rw [List.replicate_succ, bitsToNat_cons, ih]; simp

theorem bitsToNat_zeros_append (k : Nat) (l : List Bool) : bitsToNat (List.replicate k false ++ l) = bitsToNat l := by
  rw [bitsToNat_append, bitsToNat_replicate_false]; simp

theorem bitsToNat_append_zeros (l : List Bool) (k : Nat) : bitsToNat (l ++ List.replicate k false) = bitsToNat l * 2 ^ k := by
  rw [bitsToNat_append, bitsToNat_replicate_false]; simp

/-- the top `k` bits: divide by `2^(rest)` -/
theorem bitsToNat_take (l : List Bool) (k : Nat) :
    bitsToNat (l.take k) = bitsToNat l / 2 ^ (l.length - k) := by
  have h := bitsToNat_append (l.take k) (l.drop k)
  rw [List.take_append_drop] at h
  rw [h, List.length_drop]
  have hlt := bitsToNat_lt (l.drop k)
  rw [List.length_drop] at hlt
  rw [Nat.mul_comm, Nat.mul_add_div (Nat.two_pow_pos _), Nat.div_eq_of_lt hlt, Nat.add_zero]

/-- the low `j` bits: remainder by `2^j` -/
theorem bitsToNat_drop (l : List Bool) (j : Nat) (hj : j ≤ l.length) :
    bitsToNat (l.drop (l.length - j)) = bitsToNat l % 2 ^ j := by
  have h := bitsToNat_append (l.take (l.length - j)) (l.drop (l.length - j))
  rw [List.take_append_drop] at h
  have hl : (l.drop (l.length - j)).length = j := by rw [List.length_drop]; omega
  rw [h, hl]
  have hlt := bitsToNat_lt (l.drop (l.length - j))
  rw [hl] at hlt
  rw [Nat.mul_comm, Nat.mul_add_mod, Nat.mod_eq_of_lt hlt]

theorem bitsToNat_byteToBits (b : UInt8) : bitsToNat (byteToBits b) = b.toNat := by
  rw [byteToBits, bitsToNat_natToBits]
  exact Nat.mod_eq_of_lt b.toNat_lt

end Tongo.Bits

namespace Tongo.BitString
open Tongo.Bits

theorem beNat_foldl (bs : List UInt8) (acc : Nat) :
    bs.foldl (fun acc b => acc * 256 + b.toNat) acc = acc * 256 ^ bs.length + beNat bs := by
  induction bs generalizing acc with
  | nil => simp [beNat]
  | cons b t ih =>
    simp only [List.foldl_cons, beNat, List.length_cons]
    rw [ih, ih (0 * 256 + b.toNat)]
    simp only [Nat.zero_mul, Nat.zero_add, Nat.pow_succ]
    ring

theorem beNat_cons (b : UInt8) (t : List UInt8) : beNat (b :: t) = b.toNat * 256 ^ t.length + beNat t := by
  have := beNat_foldl t (0 * 256 + b.toNat)
  simp only [beNat, List.foldl_cons] at *
  simpa using this

/-- big-endian bytes = big-endian bits -/
theorem beNat_eq_bits (bs : List UInt8) : beNat bs = bitsToNat (bytesToBits bs) := by
  induction bs with
  | nil => rfl
  | cons b t ih =>
    rw [beNat_cons, bytesToBits_cons, bitsToNat_append, bitsToNat_byteToBits, bytesToBits_length, ih]
    congr 2
    rw [Nat.pow_mul]

/-- a window inside a prefix is a window of the whole list -/
theorem take_drop_take {α} (L : List α) (a c n : Nat) (h : c + n ≤ a) :
    ((L.take a).drop c).take n = (L.drop c).take n := by
  apply List.ext_getElem?
  intro i
  simp only [List.getElem?_take, List.getElem?_drop]
  by_cases hi : i < n
  · have : c + i < a := by omega
    simp [hi, this]
  · simp [hi]

end Tongo.BitString
