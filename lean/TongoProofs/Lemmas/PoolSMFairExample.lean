import TongoProofs.Lemmas.PoolSMTimer
/-! An explicit fair infinite execution of the repaired model (non-vacuity of the liveness theorems of C13): a waiter
for seqno 6 subscribes on a pool whose best connection is at 5, head 6 is published, `Run` notifies, the waiter
receives it and unsubscribes; afterwards nothing but the environment re-asserting a member's liveness happens
forever. Every fairness hypothesis holds (each class is disabled from some point on). -/
namespace Tongo.PoolSM.FairExample

def s0 : State := mkInit [5] (some 0) [6] [(0, 6)]

def actN (n : Nat) : Action :=
  match n with
  | 0 => .wLock 0
  | 1 => .wSub 0
  | 2 => .sLock 0
  | 3 => .sSend 0
  | 4 => .recv
  | 5 => .nRLock
  | 6 => .nCheck
  | 7 => .nDrain 0
  | 8 => .nPut
  | 9 => .nDone
  | 10 => .wRecv 0
  | 11 => .wUnsub 0
  | _ => .setAlive 0 true

def stN : Nat → State
  | 0 => s0
  | n + 1 => (step fixed (stN n) (actN n)).getD (stN n)

/-- the final state: the waiter has returned `ok`, everybody is at rest -/
def sF : State := stN 12

theorem actN_ge (n : Nat) : actN (n + 12) = .setAlive 0 true := rfl
theorem sF_fix : step fixed sF (.setAlive 0 true) = some sF := by decide
theorem st_ge (n : Nat) : stN (n + 12) = sF := by
  induction n with
  | zero => rfl
  | succ n ih =>
    show (step fixed (stN (n + 12)) (actN (n + 12))).getD (stN (n + 12)) = sF
    rw [ih, actN_ge, sF_fix]; rfl

/-- the execution -/
def exec : Exec fixed where
  st := stN
  act := actN
  ok := by
    intro n
    match n with
    | 0 => decide
    | 1 => decide
    | 2 => decide
    | 3 => decide
    | 4 => decide
    | 5 => decide
    | 6 => decide
    | 7 => decide
    | 8 => decide
    | 9 => decide
    | 10 => decide
    | 11 => decide
    | n + 12 =>
      show step fixed (stN (n + 12)) (actN (n + 12)) = some (stN ((n + 1) + 12))
      rw [st_ge, st_ge, actN_ge, sF_fix]
  init := Reachable.init [5] (some 0) [6] [(0, 6)] .bestPing [] (by decide) (by decide) (by decide)

/-- in the final state only environment actions are enabled -/
theorem sF_enabled : enabledActions fixed sF = [.tick] := by decide

/-- a class of actions none of which is enabled in the final state is (weakly and strongly) fair in `exec` -/
theorem fair_of_disabled (A : Action → Bool) (h : ∀ a, A a = true → step fixed sF a = none) :
    WeakFair exec A ∧ StrongFair exec A := by
  constructor
  · intro n hall
    obtain ⟨a, ha, hs⟩ := hall (n + 12) (by omega)
    have : exec.st (n + 12) = sF := st_ge n
    rw [this, h a ha] at hs; cases hs
  · intro n hinf
    obtain ⟨m, hm, a, ha, hs⟩ := hinf (n + 12) (by omega)
    obtain ⟨k, rfl⟩ : ∃ k, m = k + 12 := ⟨m - 12, by omega⟩
    have : exec.st (k + 12) = sF := st_ge k
    rw [this, h a ha] at hs; cases hs

theorem disabled_of_not_mem {a : Action} (hattr : a.isAttr = false) (h : a ∉ enabledActions fixed sF) :
    step fixed sF a = none := by
  cases hs : step fixed sF a with
  | none => rfl
  | some s' =>
    exact absurd (by
      simp only [enabledActions, List.mem_filter]
      exact ⟨step_some_mem hs hattr, by simp [hs]⟩) h

theorem fairRun : WeakFair exec RunAct :=
  (fair_of_disabled RunAct (fun a ha => disabled_of_not_mem (by cases a <;> simp_all [RunAct, Action.isAttr])
    (by rw [sF_enabled]; cases a <;> simp_all [RunAct]))).1

theorem fairRecv : StrongFair exec (RecvAct 0) :=
  (fair_of_disabled (RecvAct 0) (fun a ha => disabled_of_not_mem (by cases a <;> simp_all [RecvAct, Action.isAttr])
    (by rw [sF_enabled]; cases a <;> simp_all [RecvAct]))).2

theorem fairSub (k : Nat) : WeakFair exec (SubAct k) :=
  (fair_of_disabled (SubAct k) (fun a ha => disabled_of_not_mem (by cases a <;> simp_all [SubAct, Action.isAttr])
    (by rw [sF_enabled]; cases a <;> simp_all [SubAct]))).1

theorem fairUnsub : StrongFair exec (UnsubAct 0) :=
  (fair_of_disabled (UnsubAct 0) (fun a ha => disabled_of_not_mem (by cases a <;> simp_all [UnsubAct, Action.isAttr])
    (by rw [sF_enabled]; cases a <;> simp_all [UnsubAct]))).2

/-- from step 7 on (notifySubscribers iterating with head 6, waiter 0 not served yet) no timer / cancellation -/
theorem nofire : ∀ m, 7 ≤ m → exec.act m ≠ .wFire 0 ∧ exec.act m ≠ .wCancel 0 := by
  intro m hm
  match m with
  | 7 => exact ⟨by decide, by decide⟩
  | 8 => exact ⟨by decide, by decide⟩
  | 9 => exact ⟨by decide, by decide⟩
  | 10 => exact ⟨by decide, by decide⟩
  | 11 => exact ⟨by decide, by decide⟩
  | k + 12 => show actN (k + 12) ≠ _ ∧ actN (k + 12) ≠ _; rw [actN_ge]; exact ⟨by decide, by decide⟩

end Tongo.PoolSM.FairExample

/-! A second fair execution: the waiter's timeout elapses, its select takes the timer case, it unsubscribes. -/
namespace Tongo.PoolSM.FairExample2

def s0 : State := mkInit [5] (some 0) [6] []

def actN (n : Nat) : Action :=
  match n with
  | 0 => .wLock 0
  | 1 => .wSub 0
  | 2 => .wDeadline 0
  | 3 => .wFire 0
  | 4 => .wUnsub 0
  | _ => .setAlive 0 true

def stN : Nat → State
  | 0 => s0
  | n + 1 => (step fixed (stN n) (actN n)).getD (stN n)

def sF : State := stN 5

theorem actN_ge (n : Nat) : actN (n + 5) = .setAlive 0 true := rfl
theorem sF_fix : step fixed sF (.setAlive 0 true) = some sF := by decide
theorem st_ge (n : Nat) : stN (n + 5) = sF := by
  induction n with
  | zero => rfl
  | succ n ih =>
    show (step fixed (stN (n + 5)) (actN (n + 5))).getD (stN (n + 5)) = sF
    rw [ih, actN_ge, sF_fix]; rfl

def exec : Exec fixed where
  st := stN
  act := actN
  ok := by
    intro n
    match n with
    | 0 => decide
    | 1 => decide
    | 2 => decide
    | 3 => decide
    | 4 => decide
    | n + 5 =>
      show step fixed (stN (n + 5)) (actN (n + 5)) = some (stN ((n + 1) + 5))
      rw [st_ge, st_ge, actN_ge, sF_fix]
  init := Reachable.init [5] (some 0) [6] [] .bestPing [] (by decide) (by decide) (by decide)

theorem sF_enabled : enabledActions fixed sF = [.tick] := by decide

theorem fairFire : WeakFair exec (FireAct 0) := by
  intro n hall
  obtain ⟨a, ha, hs⟩ := hall (n + 5) (by omega)
  have : exec.st (n + 5) = sF := st_ge n
  rw [this] at hs
  have hm : a ∈ enabledActions fixed sF := by
    simp only [enabledActions, List.mem_filter]
    cases hst : step fixed sF a with
    | none => rw [hst] at hs; cases hs
    | some s' => exact ⟨step_some_mem hst (by cases a <;> simp_all [FireAct, Action.isAttr]), by simp [hst]⟩
  rw [sF_enabled] at hm
  cases a <;> simp_all [FireAct]

end Tongo.PoolSM.FairExample2
