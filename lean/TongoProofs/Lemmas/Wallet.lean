import TongoModel.WalletSend
import TongoProofs.Lemmas.CellOrd
/-! Helper lemmas for C15 (and C14/C19): representation of the state-init cell, injectivity of the data layouts. -/
namespace Tongo

theorem Cell.hashO_eq_H_reprO (H : List UInt8 → List UInt8) (c : Cell) : c.hashO H = H (c.reprO H) := by
  cases c; simp [Cell.hashO, Cell.reprO]

@[simp] theorem be16_length (n : Nat) : (be16 n).length = 2 := by simp [be16]

theorem CollisionFree.pair {H : List UInt8 → List UInt8} {x y : List UInt8} (cf : CollisionFree H [x, y])
    (h : H x = H y) : x = y := cf x (by simp) y (by simp) h

/-- a cell without refs: the representation is the two descriptor bytes and the tagged data -/
theorem Cell.reprO_leaf (H : List UInt8 → List UInt8) (bits : List Bool) :
    (Cell.ordinary bits []).reprO H = reprNoRefs 0 bits 0 0 := by
  simp [Cell.ordinary, Cell.reprO, Cell.depthsO, Cell.hashesO]

/-- leaves of equal bit length with the same representation have the same bits -/
theorem Cell.leaf_repr_inj (H : List UInt8 → List UInt8) {a b : List Bool} (hl : a.length = b.length)
    (h : (Cell.ordinary a []).reprO H = (Cell.ordinary b []).reprO H) : a = b := by
  rw [Cell.reprO_leaf, Cell.reprO_leaf] at h
  unfold reprNoRefs at h
  simp only [List.cons.injEq] at h
  exact Bits.toppedUp_inj_of_length_eq hl h.2.2

@[simp] theorem Cell.depthsO_length (refs : List Cell) : (Cell.depthsO refs).length = 2 * refs.length := by
  induction refs with
  | nil => rfl
  | cons r rs ih => simp [Cell.depthsO, ih]; omega

theorem Cell.hashesO_length (H : List UInt8 → List UInt8) (hlen : ∀ x, (H x).length = 32) (refs : List Cell) :
    (Cell.hashesO H refs).length = 32 * refs.length := by
  induction refs with
  | nil => rfl
  | cons r rs ih => simp [Cell.hashesO, ih, Cell.hashO_eq_H_reprO, hlen]; omega

theorem Cell.hashesO_inj (H : List UInt8 → List UInt8) (hlen : ∀ x, (H x).length = 32) :
    ∀ (a b : List Cell), a.length = b.length → Cell.hashesO H a = Cell.hashesO H b → a.map (Cell.hashO H) = b.map (Cell.hashO H)
  | [], [], _, _ => rfl
  | [], _ :: _, h, _ => by simp at h
  | _ :: _, [], h, _ => by simp at h
  | x :: xs, y :: ys, hl, h => by
    simp only [Cell.hashesO] at h
    have h1 := List.append_inj h (by rw [Cell.hashO_eq_H_reprO, Cell.hashO_eq_H_reprO, hlen, hlen])
    simp only [List.map_cons, h1.1, List.cons.injEq, true_and]
    exact Cell.hashesO_inj H hlen xs ys (by simpa using hl) h1.2

/-- The representation of an ordinary cell determines its bits and the hashes of its references (`H` has 32-byte
outputs; at most 1023 bits and 4 refs): two cells differing in any bit, in the number of refs or in the hash of any
ref have different representations. -/
theorem Cell.reprO_ordinary_inj (H : List UInt8 → List UInt8) (hlen : ∀ x, (H x).length = 32) (bits bits' : List Bool)
    (refs refs' : List Cell) (hb : bits.length ≤ 1023) (hb' : bits'.length ≤ 1023) (hr : refs.length ≤ 4) (hr' : refs'.length ≤ 4)
    (h : (Cell.ordinary bits refs).reprO H = (Cell.ordinary bits' refs').reprO H) :
    bits = bits' ∧ refs.length = refs'.length ∧ refs.map (Cell.hashO H) = refs'.map (Cell.hashO H) ∧
      Cell.depthsO refs = Cell.depthsO refs' := by
  simp only [Cell.ordinary, Cell.reprO, reprNoRefs, List.cons_append, List.cons.injEq] at h
  obtain ⟨hd1, hd2, hrest⟩ := h
  have hn : refs.length = refs'.length := by
    have := congrArg UInt8.toNat hd1
    simp [d1, UInt8.toNat_ofNat'] at this
    omega
  have hdd : (bits.length + 7) / 8 + bits.length / 8 = (bits'.length + 7) / 8 + bits'.length / 8 := by
    have := congrArg UInt8.toNat hd2
    simp [d2, UInt8.toNat_ofNat'] at this
    omega
  have h1 := List.append_inj hrest (by
    simp only [List.length_append, Bits.toppedUp_length, Cell.depthsO_length]
    omega)
  have h2 := List.append_inj h1.1 (by rw [Bits.toppedUp_length, Bits.toppedUp_length]; omega)
  exact ⟨Bits.toppedUp_inj hb hb' hdd h2.1, hn, Cell.hashesO_inj H hlen _ _ hn h1.2, h2.2⟩

namespace Wallet
open Tongo.Bits

theorem stateInit_reprO (H : List UInt8 → List UInt8) (code data : Cell) :
    (stateInitCell code data).reprO H =
      reprNoRefs 0 [false, false, true, true, false] 2 0 ++ (be16 code.depthO ++ be16 data.depthO) ++
        (code.hashO H ++ data.hashO H) := by
  simp [stateInitCell, Cell.ordinary, Cell.reprO, Cell.depthsO, Cell.hashesO]

theorem stateInit_prefix : reprNoRefs 0 [false, false, true, true, false] 2 0 = [2, 1, 0x34] := by
  simp [reprNoRefs, d1, d2, toppedUp, addTag, bitsToBytes, bitsToNat]

/-- equal state-init hashes (without a collision on the two representations) mean equal code and data hashes -/
theorem stateInit_hash_inj (H : List UInt8 → List UInt8) (hlen : ∀ x, (H x).length = 32) (c d c' d' : Cell)
    (cf : CollisionFree H [(stateInitCell c d).reprO H, (stateInitCell c' d').reprO H])
    (h : (stateInitCell c d).hashO H = (stateInitCell c' d').hashO H) :
    c.hashO H = c'.hashO H ∧ d.hashO H = d'.hashO H := by
  rw [Cell.hashO_eq_H_reprO, Cell.hashO_eq_H_reprO] at h
  have hr := cf.pair h
  rw [stateInit_reprO, stateInit_reprO] at hr
  have h1 := List.append_inj hr (by simp)
  have hcl : (c.hashO H).length = (c'.hashO H).length := by
    rw [Cell.hashO_eq_H_reprO, Cell.hashO_eq_H_reprO, hlen, hlen]
  exact List.append_inj h1.2 hcl

@[simp] theorem pkBytes_length (pk : List UInt8) : (pkBytes pk).length = 32 := by
  simp [pkBytes]; omega

@[simp] theorem pkBits_length (pk : List UInt8) : (pkBits pk).length = 256 := by
  simp [pkBits]

theorem pkBytes_of_length {pk : List UInt8} (h : pk.length = 32) : pkBytes pk = pk := by
  simp [pkBytes, h, List.take_of_length_le]

theorem pkBits_inj {pk pk' : List UInt8} (h : pk.length = 32) (h' : pk'.length = 32) (e : pkBits pk = pkBits pk') : pk = pk' := by
  unfold pkBits at e
  have := bytesToBits_inj e
  rwa [pkBytes_of_length h, pkBytes_of_length h'] at this

theorem dataBitsSeq_length (v : Version) (s : Nat) (pk : List UInt8) (o : Opts) :
    (dataBitsSeq v s pk o).length =
      match v.family with
      | .v1v2 => 288 | .v3 => 320 | .v4 => 321 | .v5beta => 370 | .v5r1 => 322 | .highload => 353 := by
  unfold dataBitsSeq
  cases v.family <;> simp

theorem dataBits_length_eq_of_family {v v' : Version} (hf : v.family = v'.family) (pk pk' : List UInt8) (o o' : Opts) :
    (dataBits v pk o).length = (dataBits v' pk' o').length := by
  unfold dataBits
  rw [dataBitsSeq_length, dataBitsSeq_length, hf]

theorem toU32_lt (x : Int) : toU32 x < 4294967296 := by
  unfold toU32; omega

theorem toU8_lt (x : Int) : toU8 x < 256 := by
  unfold toU8; omega

end Wallet
end Tongo
