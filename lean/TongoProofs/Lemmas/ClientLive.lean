import TongoProofs.Lemmas.ClientSM
/-! Infinite executions of the lite-client transition system, fairness as predicates over executions, and the
single-step persistence lemmas behind the liveness theorem `C12.reconnect_live`. -/
namespace Tongo.ClientSM

section
variable (idOf : Nat → Id) (nConn : Nat)

/-- an infinite execution: states, the action taken at each step, starting in a reachable state -/
structure Exec where
  st : Nat → State
  lab : Nat → Action
  ok : ∀ i, step idOf nConn (st i) (lab i) = some (st (i + 1))
  start : Reachable idOf nConn (st 0)

variable {idOf nConn}

theorem reachable_step {s s' : State} {a : Action} (h : Reachable idOf nConn s) (hs : step idOf nConn s a = some s') :
    Reachable idOf nConn s' := by
  obtain ⟨as, has⟩ := h
  refine ⟨as ++ [a], ?_⟩
  have : ∀ (s0 : State) (l : List Action), run idOf nConn s0 l = some s →
      run idOf nConn s0 (l ++ [a]) = some s' := by
    intro s0 l
    induction l generalizing s0 with
    | nil => intro h0; simp only [run] at h0; cases h0; simp [run, hs]
    | cons b l ih =>
      intro h0
      simp only [run, List.cons_append] at h0 ⊢
      split at h0
      · next s1 h1 => first | exact ih s1 h0 | (rw [h1]; exact ih s1 h0)
      · cases h0
  exact this init as has

theorem Exec.reachable (e : Exec idOf nConn) (i : Nat) : Reachable idOf nConn (e.st i) := by
  induction i with
  | zero => exact e.start
  | succ i ih => exact reachable_step ih (e.ok i)

theorem Exec.inv (e : Exec idOf nConn) (i : Nat) : Inv idOf (e.st i) := inv_reachable idOf nConn (e.reachable i)

/-- weak fairness: the action is infinitely often disabled or taken -/
def WeakFair (e : Exec idOf nConn) (a : Action) : Prop :=
  ∀ i, ∃ j, i ≤ j ∧ (step idOf nConn (e.st j) a = none ∨ e.lab j = a)

/-- strong fairness: if the action is enabled infinitely often it is taken infinitely often -/
def StrongFair (e : Exec idOf nConn) (a : Action) : Prop :=
  (∀ i, ∃ j, i ≤ j ∧ (step idOf nConn (e.st j) a).isSome = true) → ∀ i, ∃ j, i ≤ j ∧ e.lab j = a

/-- environment: a `Connected` socket whose peer has closed (no reader) does not stay writable for ever -/
def SockDies (e : Exec idOf nConn) (c : Nat) : Prop :=
  ∀ i, ∃ j, i ≤ j ∧ ¬ (((e.st j).conn c).status = .connected ∧ ((e.st j).conn c).sockOk = true ∧
    ((e.st j).conn c).reader = false)

/-! ### single-step facts about one connection -/

theorem step_status_connecting {s s' : State} {a : Action} {c : Nat} (h : step idOf nConn s a = some s')
    (hs : (s.conn c).status = .connecting) (ha : a ≠ .reconnectOk c) : (s'.conn c).status = .connecting := by
  cases a <;> simp only [step] at h <;> (repeat' split at h) <;> (try cases h) <;>
    (try simp only [set_apply]) <;> (try split) <;> simp_all [reconnectBody]

theorem step_reconnectOk_healthy {s s' : State} {c : Nat} (h : step idOf nConn s (.reconnectOk c) = some s') :
    Healthy (s'.conn c) := by
  simp only [step] at h
  split at h
  · cases h; simp [Healthy]
  · cases h

theorem reconnectOk_enabled {s : State} (hi : Inv idOf s) {c : Nat} (hs : (s.conn c).status = .connecting) :
    (step idOf nConn s (.reconnectOk c)).isSome = true := by
  have hl := ((hi.g c).2.mp hs)
  have hw : (s.conn c).writer = none := by
    cases hw' : (s.conn c).writer with
    | none => rfl
    | some w => have := hi.w2 c (by simp [hw']); rw [hs] at this; cases this
  simp [step, hl, hw]

/-- while the status stays `Connected`, a dead socket stays dead -/
theorem step_sockDead_persists {s s' : State} {a : Action} {c : Nat} (hi : Inv idOf s)
    (h : step idOf nConn s a = some s') (hs : (s.conn c).status = .connected) (hd : (s.conn c).sockOk = false) :
    (s'.conn c).sockOk = false := by
  have hl : (s.conn c).loops = 0 := by
    have h1 := hi.g c
    have : (s.conn c).loops ≠ 1 := fun h' => by have := h1.2.mpr h'; rw [hs] at this; cases this
    omega
  cases a <;> simp only [step] at h <;> (repeat' split at h) <;> (try cases h) <;>
    (try simp only [set_apply]) <;> (try split) <;> simp_all [reconnectBody]

/-- while the status stays `Connected`, a stopped reader stays stopped -/
theorem step_noReader_persists {s s' : State} {a : Action} {c : Nat} (hi : Inv idOf s)
    (h : step idOf nConn s a = some s') (hs : (s.conn c).status = .connected) (hd : (s.conn c).reader = false) :
    (s'.conn c).reader = false := by
  have hl : (s.conn c).loops = 0 := by
    have h1 := hi.g c
    have : (s.conn c).loops ≠ 1 := fun h' => by have := h1.2.mpr h'; rw [hs] at this; cases this
    omega
  cases a <;> simp only [step] at h <;> (repeat' split at h) <;> (try cases h) <;>
    (try simp only [set_apply]) <;> (try split) <;> simp_all [reconnectBody]

/-- `reconnectStart` on a `Connected` connection makes it `Connecting` -/
theorem step_reconnectStart_connecting {s s' : State} {c : Nat} (h : step idOf nConn s (.reconnectStart c) = some s')
    (hs : (s.conn c).status = .connected) : (s'.conn c).status = .connecting := by
  simp only [step] at h
  split at h
  · cases h; simp [reconnectBody, hs]
  · cases h

/-- the number of spawned reconnects only decreases by `reconnectStart` -/
theorem step_spawned_mono {s s' : State} {a : Action} {c : Nat} (h : step idOf nConn s a = some s')
    (ha : a ≠ .reconnectStart c) : (s.conn c).spawned ≤ (s'.conn c).spawned := by
  cases a <;> simp only [step] at h <;> (repeat' split at h) <;> (try cases h) <;>
    (try simp only [set_apply]) <;> (try split) <;> simp_all [reconnectBody] <;> (try split) <;> simp_all <;> omega

theorem step_pingFail_spawns {s s' : State} {c : Nat} (h : step idOf nConn s (.pingFail c) = some s') :
    0 < (s'.conn c).spawned := by
  simp only [step] at h
  split at h
  · cases h; simp [set_apply]
  · cases h

theorem reconnectStart_enabled {s : State} {c : Nat} (hsp : 0 < (s.conn c).spawned) (hw : (s.conn c).writer = none) :
    (step idOf nConn s (.reconnectStart c)).isSome = true := by
  simp [step, hsp, hw]

theorem pingFail_enabled {s : State} {c : Nat} (hs : (s.conn c).status = .connected) (hd : (s.conn c).sockOk = false)
    (hw : (s.conn c).writer = none) : (step idOf nConn s (.pingFail c)).isSome = true := by
  simp [step, hs, hd, hw]

/-- a writer on a dead socket: the action that ends its write is enabled -/
theorem writeFail_enabled {s : State} (hi : Inv idOf s) {c k : Nat} (hw : (s.conn c).writer = some (.call k))
    (hd : (s.conn c).sockOk = false) : (step idOf nConn s (.writeFail k)).isSome = true := by
  have hp := (hi.w c k).mp hw
  simp [step, hp, hd]

theorem pingDone_enabled {s : State} {c : Nat} (hw : (s.conn c).writer = some .ping)
    (hd : (s.conn c).sockOk = false) : (step idOf nConn s (.pingDone c)).isSome = true := by
  simp [step, hw, hd]

/-- the mutex changes hands only through its holder: while call k holds it and does not end its write, it keeps it -/
theorem step_writer_call_persists {s s' : State} {a : Action} {c k : Nat} (hi : Inv idOf s)
    (h : step idOf nConn s a = some s') (hw : (s.conn c).writer = some (.call k))
    (ha1 : a ≠ .writeFail k) (ha2 : a ≠ .writeDone k) : (s'.conn c).writer = some (.call k) := by
  have hp := (hi.w c k).mp hw
  have hst := hi.w2 c (by simp [hw])
  have hl : (s.conn c).loops = 0 := by
    have h1 := hi.g c
    have : (s.conn c).loops ≠ 1 := fun h' => by have := h1.2.mpr h'; rw [hst] at this; cases this
    omega
  have huniq : ∀ k', s.pc k' = .sending c → k' = k := by
    intro k' h'
    have := (hi.w c k').mpr h'
    rw [hw] at this; cases this; rfl
  cases a <;> simp only [step] at h <;> (repeat' split at h) <;> (try cases h) <;>
    (try simp only [set_apply]) <;> (try split) <;> simp_all [reconnectBody] <;> grind

theorem step_writer_ping_persists {s s' : State} {a : Action} {c : Nat} (hi : Inv idOf s)
    (h : step idOf nConn s a = some s') (hw : (s.conn c).writer = some .ping)
    (ha : a ≠ .pingDone c) : (s'.conn c).writer = some .ping := by
  have hst := hi.w2 c (by simp [hw])
  have hl : (s.conn c).loops = 0 := by
    have h1 := hi.g c
    have : (s.conn c).loops ≠ 1 := fun h' => by have := h1.2.mpr h'; rw [hst] at this; cases this
    omega
  have hno : ∀ k', s.pc k' ≠ .sending c := by
    intro k' h'
    have := (hi.w c k').mpr h'
    rw [hw] at this; cases this
  cases a <;> simp only [step] at h <;> (repeat' split at h) <;> (try cases h) <;>
    (try simp only [set_apply]) <;> (try split) <;> simp_all [reconnectBody] <;> grind

theorem step_writeFail_releases {s s' : State} {c k : Nat} (hi : Inv idOf s)
    (h : step idOf nConn s (.writeFail k) = some s') (hw : (s.conn c).writer = some (.call k)) :
    (s'.conn c).writer = none := by
  have hp := (hi.w c k).mp hw
  simp only [step, hp] at h
  split at h
  · cases h
  · cases h; simp [set_apply]

theorem step_pingDone_releases {s s' : State} {c : Nat} (h : step idOf nConn s (.pingDone c) = some s')
    (hd : (s.conn c).sockOk = false) : (s'.conn c).writer = none := by
  simp only [step] at h
  split at h
  · simp only [hd, Bool.false_eq_true, false_and, if_false] at h
    cases h; simp [set_apply]
  · cases h


theorem writeDone_disabled_dead {s : State} (hi : Inv idOf s) {c k : Nat} (hw : (s.conn c).writer = some (.call k))
    (hd : (s.conn c).sockOk = false) : step idOf nConn s (.writeDone k) = none := by
  have hp := (hi.w c k).mp hw
  simp [step, hp, hd]

/-! ### temporal glue -/

/-- if `P` holds at `j`, persists as long as `a` is not taken, and `a` is enabled whenever `P` holds, then under weak
fairness `a` is taken at some `t ≥ j` at which `P` still holds -/
theorem wf_leads (e : Exec idOf nConn) (a : Action) (P : Nat → Prop) (j : Nat)
    (hper : ∀ t, j ≤ t → P t → e.lab t ≠ a → P (t + 1))
    (hen : ∀ t, j ≤ t → P t → (step idOf nConn (e.st t) a).isSome = true)
    (hwf : WeakFair e a) (hP : P j) : ∃ t, j ≤ t ∧ P t ∧ e.lab t = a := by
  have persist : ∀ n, (∃ t, j ≤ t ∧ t < j + n ∧ P t ∧ e.lab t = a) ∨ P (j + n) := by
    intro n
    induction n with
    | zero => exact Or.inr hP
    | succ n ih =>
      rcases ih with ⟨t, h1, h2, h3, h4⟩ | hPn
      · exact Or.inl ⟨t, h1, by omega, h3, h4⟩
      · by_cases hl : e.lab (j + n) = a
        · exact Or.inl ⟨j + n, by omega, by omega, hPn, hl⟩
        · exact Or.inr (hper (j + n) (by omega) hPn hl)
  obtain ⟨j', hj', hdis⟩ := hwf j
  obtain ⟨n, rfl⟩ : ∃ n, j' = j + n := ⟨j' - j, by omega⟩
  rcases persist n with ⟨t, h1, _, h3, h4⟩ | hPn
  · exact ⟨t, h1, h3, h4⟩
  · rcases hdis with hnone | htaken
    · have := hen (j + n) (by omega) hPn
      rw [hnone] at this; cases this
    · exact ⟨j + n, by omega, hPn, htaken⟩

/-- LIVENESS of reconnection. In every infinite execution that is fair in the sense of the six hypotheses, connection
`c` is healthy (Connected, writable, with a running reader) infinitely often — in particular again after every drop. -/
theorem reconnect_live_core (e : Exec idOf nConn) (c : Nat)
    (hF1 : SockDies e c)
    (hOk : WeakFair e (.reconnectOk c))
    (hWf : ∀ k, WeakFair e (.writeFail k))
    (hPd : WeakFair e (.pingDone c))
    (hRs : StrongFair e (.reconnectStart c))
    (hPf : StrongFair e (.pingFail c)) :
    ∀ i, ∃ j, i ≤ j ∧ Healthy ((e.st j).conn c) := by
  intro i0
  apply Classical.byContradiction
  intro hno
  have hU : ∀ j, i0 ≤ j → ¬ Healthy ((e.st j).conn c) := fun j hj hH => hno ⟨j, hj, hH⟩
  -- A: the status is Connected from i0 on
  have hA : ∀ j, i0 ≤ j → ((e.st j).conn c).status = .connected := by
    intro j hj
    cases hs : ((e.st j).conn c).status with
    | connected => rfl
    | connecting =>
      exfalso
      obtain ⟨t, ht, hPt, hlab⟩ := wf_leads e (.reconnectOk c) (fun t => ((e.st t).conn c).status = .connecting) j
        (fun t _ hP hl => step_status_connecting (e.ok t) hP hl)
        (fun t _ hP => reconnectOk_enabled (e.inv t) hP) hOk hs
      have hstep := e.ok t
      rw [hlab] at hstep
      exact hU (t + 1) (by omega) (step_reconnectOk_healthy hstep)
  -- B: from some j1 on the socket is dead
  obtain ⟨j1, hj1, hnot⟩ := hF1 i0
  have hdead1 : ((e.st j1).conn c).sockOk = false := by
    have hst := hA j1 hj1
    have hu := hU j1 hj1
    cases hok : ((e.st j1).conn c).sockOk with
    | false => rfl
    | true =>
      exfalso
      cases hrd : ((e.st j1).conn c).reader with
      | true => exact hu ⟨hst, hok, hrd⟩
      | false => exact hnot ⟨hst, hok, hrd⟩
  have hdead : ∀ n, ((e.st (j1 + n)).conn c).sockOk = false := by
    intro n
    induction n with
    | zero => exact hdead1
    | succ n ih =>
      exact step_sockDead_persists (e.inv (j1 + n)) (e.ok (j1 + n)) (hA (j1 + n) (by omega)) ih
  have hdead' : ∀ t, j1 ≤ t → ((e.st t).conn c).sockOk = false := by
    intro t ht
    obtain ⟨n, rfl⟩ : ∃ n, t = j1 + n := ⟨t - j1, by omega⟩
    exact hdead n
  -- B2: reconnectStart is never taken from i0 on
  have hB2 : ∀ t, i0 ≤ t → e.lab t ≠ .reconnectStart c := by
    intro t ht hl
    have hstep := e.ok t
    rw [hl] at hstep
    have := step_reconnectStart_connecting hstep (hA t ht)
    rw [hA (t + 1) (by omega)] at this
    cases this
  -- B3: the mutex is free infinitely often
  have hB3 : ∀ t, j1 ≤ t → ∃ t', t ≤ t' ∧ ((e.st t').conn c).writer = none := by
    intro t ht
    cases hw : ((e.st t).conn c).writer with
    | none => exact ⟨t, Nat.le_refl t, hw⟩
    | some w =>
      cases w with
      | call k =>
        obtain ⟨t', ht', hPt, hlab⟩ := wf_leads e (.writeFail k)
          (fun t' => ((e.st t').conn c).writer = some (.call k)) t
          (fun t' ht' hP hl => by
            refine step_writer_call_persists (e.inv t') (e.ok t') hP hl ?_
            intro hl2
            have hstep := e.ok t'
            rw [hl2, writeDone_disabled_dead (e.inv t') hP (hdead' t' (by omega))] at hstep
            cases hstep)
          (fun t' ht' hP => writeFail_enabled (e.inv t') hP (hdead' t' (by omega))) (hWf k) hw
        have hstep := e.ok t'
        rw [hlab] at hstep
        exact ⟨t' + 1, by omega, step_writeFail_releases (e.inv t') hstep hPt⟩
      | ping =>
        obtain ⟨t', ht', hPt, hlab⟩ := wf_leads e (.pingDone c)
          (fun t' => ((e.st t').conn c).writer = some .ping) t
          (fun t' _ hP hl => step_writer_ping_persists (e.inv t') (e.ok t') hP hl)
          (fun t' ht' hP => pingDone_enabled hP (hdead' t' (by omega))) hPd hw
        have hstep := e.ok t'
        rw [hlab] at hstep
        exact ⟨t' + 1, by omega, step_pingDone_releases hstep (hdead' t' (by omega))⟩
  -- B4: a spawned reconnect exists at some point, or never
  by_cases hsp : ∃ t, j1 ≤ t ∧ 0 < ((e.st t).conn c).spawned
  · obtain ⟨t0, ht0, hpos⟩ := hsp
    have hpos' : ∀ n, 0 < ((e.st (t0 + n)).conn c).spawned := by
      intro n
      induction n with
      | zero => exact hpos
      | succ n ih =>
        have := step_spawned_mono (c := c) (e.ok (t0 + n)) (hB2 (t0 + n) (by omega))
        have e1 : t0 + (n + 1) = t0 + n + 1 := by omega
        rw [e1]; omega
    have hinf : ∀ i, ∃ j, i ≤ j ∧ (step idOf nConn (e.st j) (.reconnectStart c)).isSome = true := by
      intro i
      obtain ⟨t', ht', hfree⟩ := hB3 (max i t0) (by omega)
      obtain ⟨n, hn⟩ : ∃ n, t' = t0 + n := ⟨t' - t0, by omega⟩
      exact ⟨t', by omega, reconnectStart_enabled (by rw [hn]; exact hpos' n) hfree⟩
    obtain ⟨j, hj, hl⟩ := hRs hinf i0
    exact hB2 j hj hl
  · have hzero : ∀ t, j1 ≤ t → ((e.st t).conn c).spawned = 0 := by
      intro t ht
      cases h0 : ((e.st t).conn c).spawned with
      | zero => rfl
      | succ m => exact absurd ⟨t, ht, by omega⟩ hsp
    have hinf : ∀ i, ∃ j, i ≤ j ∧ (step idOf nConn (e.st j) (.pingFail c)).isSome = true := by
      intro i
      obtain ⟨t', ht', hfree⟩ := hB3 (max i j1) (by omega)
      exact ⟨t', by omega, pingFail_enabled (hA t' (by omega)) (hdead' t' (by omega)) hfree⟩
    obtain ⟨j, hj, hl⟩ := hPf hinf j1
    have hstep := e.ok j
    rw [hl] at hstep
    have := step_pingFail_spawns hstep
    rw [hzero (j + 1) (by omega)] at this
    cases this

end

/-! ### a fair execution with real drops: connDrop → sockDead → pingFail → reconnectStart → reconnectOk, for ever -/

def cycAct : Nat → Action
  | 0 => .connDrop 0
  | 1 => .sockDead 0
  | 2 => .pingFail 0
  | 3 => .reconnectStart 0
  | _ => .reconnectOk 0

def cycConn : Nat → Conn
  | 0 => {}
  | 1 => { reader := false }
  | 2 => { reader := false, sockOk := false }
  | 3 => { reader := false, sockOk := false, spawned := 1 }
  | _ => { status := .connecting, reader := false, sockOk := false, loops := 1 }

def cycSt (idOf : Nat → Id) : Nat → State
  | 0 => init
  | i + 1 => (step idOf 1 (cycSt idOf i) (cycAct (i % 5))).getD init

theorem cyc_conn (idOf : Nat → Id) : ∀ i, ((cycSt idOf i).conn 0 = cycConn (i % 5)) ∧
    (step idOf 1 (cycSt idOf i) (cycAct (i % 5))).isSome = true := by
  intro i
  induction i with
  | zero => exact ⟨rfl, rfl⟩
  | succ i ih =>
    obtain ⟨hc, hs⟩ := ih
    have hm : i % 5 = 0 ∨ i % 5 = 1 ∨ i % 5 = 2 ∨ i % 5 = 3 ∨ i % 5 = 4 := by omega
    have key : ((cycSt idOf (i + 1)).conn 0 = cycConn ((i + 1) % 5)) := by
      simp only [cycSt]
      rcases hm with h | h | h | h | h <;>
        (have h' : (i + 1) % 5 = (i % 5 + 1) % 5 := by omega
         rw [h', h]
         rw [h] at hc
         simp only [cycAct, cycConn] at hc ⊢
         simp [step, hc, set_apply, reconnectBody])
    refine ⟨key, ?_⟩
    have hm' : (i + 1) % 5 = 0 ∨ (i + 1) % 5 = 1 ∨ (i + 1) % 5 = 2 ∨ (i + 1) % 5 = 3 ∨ (i + 1) % 5 = 4 := by omega
    rcases hm' with h | h | h | h | h <;>
      (rw [h] at key
       rw [h]
       simp only [cycAct, cycConn] at key ⊢
       simp [step, key])

/-- the periodic execution -/
def cycExec (idOf : Nat → Id) : Exec idOf 1 where
  st := cycSt idOf
  lab := fun i => cycAct (i % 5)
  ok := by
    intro i
    have := (cyc_conn idOf i).2
    simp only [cycSt]
    cases h : step idOf 1 (cycSt idOf i) (cycAct (i % 5)) with
    | none => rw [h] at this; cases this
    | some s => rfl
  start := ⟨[], rfl⟩


theorem cyc_pc (idOf : Nat → Id) : ∀ i k, (cycSt idOf i).pc k = .start := by
  intro i
  induction i with
  | zero => intro k; rfl
  | succ i ih =>
    intro k
    have hs := (cyc_conn idOf i).2
    simp only [cycSt]
    cases h : step idOf 1 (cycSt idOf i) (cycAct (i % 5)) with
    | none => rw [h] at hs; cases hs
    | some s =>
      simp only [Option.getD_some]
      have hm : i % 5 = 0 ∨ i % 5 = 1 ∨ i % 5 = 2 ∨ i % 5 = 3 ∨ i % 5 = 4 := by omega
      rcases hm with h' | h' | h' | h' | h' <;>
        (rw [h'] at h
         simp only [cycAct, step] at h
         (repeat' split at h) <;> (try cases h) <;> simp [ih k])

theorem exists_later_mod (i r : Nat) (hr : r < 5) : ∃ j, i ≤ j ∧ j % 5 = r :=
  ⟨5 * (i + 1) + r, by omega, by omega⟩

/-- the periodic execution meets all six fairness hypotheses of `reconnect_live`, and it is not the trivial one: the
connection is dropped infinitely often, and both strong-fairness premises are true (the actions ARE enabled infinitely
often and taken infinitely often) -/
theorem cycExec_fair (idOf : Nat → Id) :
    SockDies (cycExec idOf) 0 ∧ WeakFair (cycExec idOf) (.reconnectOk 0) ∧
    (∀ k, WeakFair (cycExec idOf) (.writeFail k)) ∧ WeakFair (cycExec idOf) (.pingDone 0) ∧
    StrongFair (cycExec idOf) (.reconnectStart 0) ∧ StrongFair (cycExec idOf) (.pingFail 0) ∧
    (∀ i, ∃ j, i ≤ j ∧ (cycExec idOf).lab j = .connDrop 0) ∧
    (∀ i, ∃ j, i ≤ j ∧ ¬ Healthy (((cycExec idOf).st j).conn 0)) ∧
    (∀ i, ∃ j, i ≤ j ∧ (step idOf 1 ((cycExec idOf).st j) (.reconnectStart 0)).isSome = true) := by
  refine ⟨?_, ?_, ?_, ?_, ?_, ?_, ?_, ?_, ?_⟩
  · intro i
    obtain ⟨j, hj, hm⟩ := exists_later_mod i 0 (by omega)
    refine ⟨j, hj, ?_⟩
    have := (cyc_conn idOf j).1
    simp only [cycExec]
    rw [this, hm]
    simp [cycConn]
  · intro i
    obtain ⟨j, hj, hm⟩ := exists_later_mod i 4 (by omega)
    exact ⟨j, hj, Or.inr (by simp [cycExec, hm, cycAct])⟩
  · intro k i
    refine ⟨i, Nat.le_refl i, Or.inl ?_⟩
    simp [cycExec, step, cyc_pc idOf i k]
  · intro i
    refine ⟨i, Nat.le_refl i, Or.inl ?_⟩
    have := (cyc_conn idOf i).1
    have hm : i % 5 = 0 ∨ i % 5 = 1 ∨ i % 5 = 2 ∨ i % 5 = 3 ∨ i % 5 = 4 := by omega
    simp only [cycExec, step]
    rcases hm with h | h | h | h | h <;> (rw [h] at this; simp [this, cycConn])
  · intro _ i
    obtain ⟨j, hj, hm⟩ := exists_later_mod i 3 (by omega)
    exact ⟨j, hj, by simp [cycExec, hm, cycAct]⟩
  · intro _ i
    obtain ⟨j, hj, hm⟩ := exists_later_mod i 2 (by omega)
    exact ⟨j, hj, by simp [cycExec, hm, cycAct]⟩
  · intro i
    obtain ⟨j, hj, hm⟩ := exists_later_mod i 0 (by omega)
    exact ⟨j, hj, by simp [cycExec, hm, cycAct]⟩
  · intro i
    obtain ⟨j, hj, hm⟩ := exists_later_mod i 1 (by omega)
    refine ⟨j, hj, ?_⟩
    have := (cyc_conn idOf j).1
    simp only [cycExec]
    rw [this, hm]
    simp [cycConn, Healthy]
  · intro i
    obtain ⟨j, hj, hm⟩ := exists_later_mod i 3 (by omega)
    refine ⟨j, hj, ?_⟩
    have := (cyc_conn idOf j).1
    rw [hm] at this
    simp [cycExec, step, this, cycConn]

end Tongo.ClientSM
