import TongoModel.Adnl
/-! Helper lemmas for C11 (ADNL framing and stream ciphers). -/
namespace Tongo.Adnl

/-! ### little-endian length field -/

@[simp] theorem le32_length (n : Nat) : (le32 n).length = 4 := rfl

theorem readLe32_le32 {n : Nat} (h : n < 4294967296) : readLe32 (le32 n) = n := by
  simp only [le32, readLe32, UInt8.toNat_ofNat']
  omega

/-! ### XOR with a keystream -/

@[simp] theorem xorStream_length (ks : Nat → UInt8) (off : Nat) (bs : Bytes) :
    (xorStream ks off bs).length = bs.length := by
  simp [xorStream]

@[simp] theorem xorStream_nil (ks : Nat → UInt8) (off : Nat) : xorStream ks off [] = [] := rfl

theorem xorStream_append (ks : Nat → UInt8) (off : Nat) (a b : Bytes) :
    xorStream ks off (a ++ b) = xorStream ks off a ++ xorStream ks (off + a.length) b := by
  simp only [xorStream, List.mapIdx_append]
  congr 1
  apply List.mapIdx_eq_mapIdx_iff.mpr
  intro i hi
  rw [Nat.add_assoc, Nat.add_comm i]

theorem xorStream_getElem (ks : Nat → UInt8) (off : Nat) (bs : Bytes) (i : Nat) (h : i < (xorStream ks off bs).length) :
    (xorStream ks off bs)[i] = bs[i]'(by simpa using h) ^^^ ks (off + i) := by
  simp [xorStream]

/-- decrypting what was encrypted at the same keystream offset gives the plaintext back -/
@[simp] theorem xorStream_xorStream (ks : Nat → UInt8) (off : Nat) (bs : Bytes) :
    xorStream ks off (xorStream ks off bs) = bs := by
  apply List.ext_getElem
  · simp
  · intro i h1 h2
    rw [xorStream_getElem, xorStream_getElem]
    rw [UInt8.xor_assoc, UInt8.xor_self, UInt8.xor_zero]

theorem xorStream_take (ks : Nat → UInt8) (off n : Nat) (bs : Bytes) :
    (xorStream ks off bs).take n = xorStream ks off (bs.take n) := by
  by_cases hn : n ≤ bs.length
  · conv => lhs; rw [← List.take_append_drop n bs, xorStream_append]
    have hl : (xorStream ks off (bs.take n)).length = n := by simp [List.length_take]; omega
    rw [List.take_append_of_le_length (by omega), List.take_of_length_le (by omega)]
  · rw [List.take_of_length_le (by simp; omega), List.take_of_length_le (by omega)]

theorem xorStream_drop (ks : Nat → UInt8) (off n : Nat) (bs : Bytes) (h : n ≤ bs.length) :
    (xorStream ks off bs).drop n = xorStream ks (off + n) (bs.drop n) := by
  conv => lhs; rw [← List.take_append_drop n bs, xorStream_append]
  have hl : (xorStream ks off (bs.take n)).length = n := by simp [List.length_take]; omega
  rw [List.drop_append_of_le_length (by omega), List.drop_of_length_le (by omega)]
  simp [List.length_take, Nat.min_eq_left h]

/-- a ciphertext position is altered exactly when the plaintext position is -/
theorem xorStream_getElem_eq_iff (ks : Nat → UInt8) (off : Nat) (a b : Bytes) (i : Nat) (ha : i < a.length)
    (hb : i < b.length) :
    (xorStream ks off a)[i]'(by simpa using ha) = (xorStream ks off b)[i]'(by simpa using hb) ↔ a[i] = b[i] := by
  rw [xorStream_getElem, xorStream_getElem]
  constructor
  · intro h
    have := congrArg (· ^^^ ks (off + i)) h
    simpa [UInt8.xor_assoc] using this
  · intro h; rw [h]

theorem xorStream_injective (ks : Nat → UInt8) (off : Nat) {a b : Bytes}
    (h : xorStream ks off a = xorStream ks off b) : a = b := by
  have := congrArg (xorStream ks off) h
  simpa using this

/-! ### magic of a payload -/

theorem readLe32_four_eq_iff (a b c d : UInt8) (n : Nat) (hn : n < 4294967296) :
    readLe32 [a, b, c, d] = n ↔ [a, b, c, d] = le32 n := by
  have ha := a.toNat_lt; have hb := b.toNat_lt; have hc := c.toNat_lt; have hd := d.toNat_lt
  simp only [readLe32, le32, List.cons.injEq, and_true]
  constructor
  · intro h
    refine ⟨?_, ?_, ?_, ?_⟩ <;> apply UInt8.toNat_inj.mp <;> simp only [UInt8.toNat_ofNat'] <;> omega
  · rintro ⟨h1, h2, h3, h4⟩
    have e1 := congrArg UInt8.toNat h1; have e2 := congrArg UInt8.toNat h2
    have e3 := congrArg UInt8.toNat h3; have e4 := congrArg UInt8.toNat h4
    simp only [UInt8.toNat_ofNat'] at e1 e2 e3 e4
    omega

/-! ### frames -/

section
variable (H : Bytes → Bytes)

theorem marshal_eq (p : Packet) :
    marshal H p = le32 (p.payload.length + 64) ++ (p.nonce ++ (p.payload ++ H (p.nonce ++ p.payload))) := by
  simp [marshal, Packet.hash, List.append_assoc]

theorem marshal_length (hH : ∀ x, (H x).length = 32) (p : Packet) (hn : p.nonce.length = 32) :
    (marshal H p).length = frameLen p := by
  simp [marshal_eq, hH, hn, frameLen]; omega

/-- The parser on an encrypted frame-shaped plaintext `le32 L ‖ n ‖ pl ‖ c` followed by anything: delivered exactly
when the trailing 32 bytes are the hash of nonce ‖ payload; a checksum error otherwise. All the frame theorems are
instances. -/
theorem parse_plain (ks : Nat → UInt8) (off : Nat) (n pl c rest : Bytes)
    (hn : n.length = 32) (hc : c.length = 32) (hl : pl.length + 64 ≤ maxLen) :
    parsePacket H ks off (xorStream ks off (le32 (pl.length + 64) ++ (n ++ (pl ++ c))) ++ rest) =
      if c = H (n ++ pl) then .ok (some (⟨n, pl⟩, rest)) else .err "checksum error" := by
  have hmax : maxLen = 8388608 := rfl
  rw [xorStream_append]
  simp only [le32_length]
  generalize hA : xorStream ks off (le32 (pl.length + 64)) = A
  generalize hB : xorStream ks (off + 4) (n ++ (pl ++ c)) = B
  have hAl : A.length = 4 := by rw [← hA]; simp
  have hBl : B.length = pl.length + 64 := by rw [← hB]; simp [hn, hc]; omega
  have hS4 : ¬ (A ++ B ++ rest).length < 4 := by simp only [List.length_append]; omega
  have htake : (A ++ B ++ rest).take 4 = A := by
    rw [List.append_assoc, List.take_append_of_le_length (by omega), List.take_of_length_le (by omega)]
  have hdrop : (A ++ B ++ rest).drop 4 = B ++ rest := by
    rw [List.append_assoc, List.drop_append_of_le_length (by omega), List.drop_of_length_le (by omega)]
    rfl
  have hread : readLe32 (xorStream ks off A) = pl.length + 64 := by
    rw [← hA, xorStream_xorStream, readLe32_le32 (by omega)]
  have hbnd : ¬ (pl.length + 64 < 64 ∨ pl.length + 64 > maxLen) := by omega
  have hbl : ¬ (B ++ rest).length < pl.length + 64 := by simp only [List.length_append]; omega
  have htk : (B ++ rest).take (pl.length + 64) = B := by
    rw [List.take_append_of_le_length (by omega), List.take_of_length_le (by omega)]
  have hdr : (B ++ rest).drop (pl.length + 64) = rest := by
    rw [List.drop_append_of_le_length (by omega), List.drop_of_length_le (by omega)]
    rfl
  have hdec : xorStream ks (off + 4) B = n ++ (pl ++ c) := by rw [← hB, xorStream_xorStream]
  have e1 : (n ++ (pl ++ c)).take 32 = n := by
    rw [List.take_append_of_le_length (by omega), List.take_of_length_le (by omega)]
  have e2 : ((n ++ (pl ++ c)).drop 32).take (pl.length + 64 - 64) = pl := by
    rw [List.drop_append_of_le_length (by omega), List.drop_of_length_le (by omega)]
    simp
  have e3 : (n ++ (pl ++ c)).drop (pl.length + 64 - 32) = c := by
    rw [← List.append_assoc, List.drop_append_of_le_length (by simp [hn]; omega),
      List.drop_of_length_le (by simp [hn]; omega)]
    rfl
  unfold parsePacket
  simp only [hS4, htake, hdrop, hread, hbnd, hbl, htk, hdr, hdec, e1, e2, e3, Packet.hash, if_false]

/-- a frame sent at keystream offset `off`, followed by anything, is parsed back at offset `off` -/
theorem parse_frame_append (hH : ∀ x, (H x).length = 32) (ks : Nat → UInt8) (off : Nat) (p : Packet) (hp : p.WF)
    (rest : Bytes) :
    parsePacket H ks off (xorStream ks off (marshal H p) ++ rest) = .ok (some (p, rest)) := by
  rw [marshal_eq, parse_plain H ks off p.nonce p.payload _ rest hp.1 (hH _) hp.2]
  simp

/-- fewer bytes than the frame needs: blocked in ReadFull, nothing delivered, no error -/
theorem parse_truncated (hH : ∀ x, (H x).length = 32) (ks : Nat → UInt8) (off : Nat) (p : Packet) (hp : p.WF)
    (k : Nat) (hk : k < frameLen p) :
    parsePacket H ks off ((xorStream ks off (marshal H p)).take k) = .ok none := by
  have hmax : maxLen = 8388608 := rfl
  have hlen := marshal_length H hH p hp.1
  have hwf := hp.2
  unfold frameLen at hk hlen
  unfold parsePacket
  by_cases h4 : k < 4
  · rw [if_pos (by simp [List.length_take]; omega)]
  · rw [if_neg (by simp [List.length_take, hlen]; omega)]
    have htake : ((xorStream ks off (marshal H p)).take k).take 4 = xorStream ks off (le32 (p.payload.length + 64)) := by
      rw [List.take_take, Nat.min_eq_left (by omega), xorStream_take, marshal_eq,
        List.take_append_of_le_length (by simp), List.take_of_length_le (by simp)]
    simp only [htake, xorStream_xorStream]
    rw [readLe32_le32 (by omega), if_neg (by omega)]
    rw [if_pos (by simp [List.length_take, List.length_drop, hlen]; omega)]

/-! ### the receive loop -/

theorem recvAll_deliver {ks : Nat → UInt8} {off : Nat} {s : Bytes} {p : Packet} {rest : Bytes}
    (h : parsePacket H ks off s = .ok (some (p, rest))) :
    recvAll H ks off s = (p :: (recvAll H ks (off + frameLen p) rest).1, (recvAll H ks (off + frameLen p) rest).2) := by
  rw [recvAll]
  split
  · next p' rest' h' =>
    rw [h] at h'
    cases h'
    rfl
  · next h' => rw [h] at h'; cases h'
  · next h1 h2 => exact absurd h (by intro hh; exact h1 _ _ hh)

theorem recvAll_wait {ks : Nat → UInt8} {off : Nat} {s : Bytes}
    (h : parsePacket H ks off s = .ok none) : recvAll H ks off s = ([], .waiting) := by
  rw [recvAll]
  split
  · next h' => rw [h] at h'; cases h'
  · rfl
  · next h1 h2 => exact absurd h h2

theorem recvAll_err {ks : Nat → UInt8} {off : Nat} {s : Bytes} {e : String}
    (h : parsePacket H ks off s = .err e) : recvAll H ks off s = ([], .dead) := by
  rw [recvAll]
  split
  · next h' => rw [h] at h'; cases h'
  · next h' => rw [h] at h'; cases h'
  · rfl

theorem sendAll_length (hH : ∀ x, (H x).length = 32) (ks : Nat → UInt8) (off : Nat) (ps : List Packet)
    (hps : ∀ p ∈ ps, p.WF) : (sendAll H ks off ps).length = (ps.map frameLen).sum := by
  induction ps generalizing off with
  | nil => rfl
  | cons p ps ih =>
    simp only [sendAll, send, List.length_append, xorStream_length, List.map_cons, List.sum_cons]
    rw [marshal_length H hH p (hps p (by simp)).1, ih _ (fun q hq => hps q (by simp [hq]))]

/-- the receive loop on everything a sender wrote, followed by `tail`: the packets, then whatever `tail` gives -/
theorem recvAll_sendAll_append (hH : ∀ x, (H x).length = 32) (ks : Nat → UInt8) (ps : List Packet)
    (hps : ∀ p ∈ ps, p.WF) (off : Nat) (tail : Bytes) :
    recvAll H ks off (sendAll H ks off ps ++ tail) =
      (ps ++ (recvAll H ks (off + (ps.map frameLen).sum) tail).1, (recvAll H ks (off + (ps.map frameLen).sum) tail).2) := by
  induction ps generalizing off with
  | nil => simp [sendAll]
  | cons p ps ih =>
    have hp := hps p (by simp)
    simp only [sendAll, send, List.append_assoc]
    rw [recvAll_deliver H (parse_frame_append H hH ks off p hp _)]
    rw [marshal_length H hH p hp.1, ih (fun q hq => hps q (by simp [hq]))]
    simp [Nat.add_assoc]

theorem parsePacket_nil (ks : Nat → UInt8) (off : Nat) : parsePacket H ks off [] = .ok none := by
  unfold parsePacket; rfl

/-- Segmentation: after ANY prefix of the bytes a sender wrote, the receiver has delivered exactly the packets whose
frames are complete, in order, and is waiting (never dead). `j` is the number of complete frames. -/
theorem recvAll_prefix (hH : ∀ x, (H x).length = 32) (ks : Nat → UInt8) (ps : List Packet) (hps : ∀ p ∈ ps, p.WF)
    (off k : Nat) :
    ∃ j, j ≤ ps.length ∧ ((ps.take j).map frameLen).sum ≤ k ∧
      (j < ps.length → k < ((ps.take (j + 1)).map frameLen).sum) ∧
      recvAll H ks off ((sendAll H ks off ps).take k) = (ps.take j, .waiting) := by
  induction ps generalizing off k with
  | nil =>
    refine ⟨0, by simp, by simp, by simp, ?_⟩
    simp [sendAll, recvAll_wait H (parsePacket_nil H ks off)]
  | cons p ps ih =>
    have hp := hps p (by simp)
    have hlen := marshal_length H hH p hp.1
    simp only [sendAll, send]
    by_cases hk : k < frameLen p
    · refine ⟨0, by simp, by simp, by simp; omega, ?_⟩
      rw [List.take_append_of_le_length (by simp [hlen]; omega)]
      simp [recvAll_wait H (parse_truncated H hH ks off p hp k hk)]
    · obtain ⟨j, hj1, hj2, hj3, hj4⟩ := ih (fun q hq => hps q (by simp [hq])) (off + frameLen p) (k - frameLen p)
      refine ⟨j + 1, by simp; omega, ?_, ?_, ?_⟩
      · simp only [List.take_succ_cons, List.map_cons, List.sum_cons]; omega
      · intro hlt
        have := hj3 (by simpa using hlt)
        simp only [List.take_succ_cons, List.map_cons, List.sum_cons] at this ⊢
        omega
      · rw [List.take_append, List.take_of_length_le (by simp [hlen]; omega)]
        simp only [xorStream_length, hlen]
        rw [recvAll_deliver H (parse_frame_append H hH ks off p hp _), hj4]
        simp

/-! ### alterations, plaintext level -/

theorem parse_checksum_altered (ks : Nat → UInt8) (off : Nat) (p : Packet) (hp : p.WF) (c' rest : Bytes)
    (hc : c'.length = 32) (hne : c' ≠ p.hash H) :
    parsePacket H ks off (xorStream ks off (le32 (p.payload.length + 64) ++ (p.nonce ++ (p.payload ++ c'))) ++ rest)
      = .err "checksum error" := by
  rw [parse_plain H ks off p.nonce p.payload c' rest hp.1 hc hp.2]
  exact if_neg hne

theorem parse_body_altered (ks : Nat → UInt8) (off : Nat) (p : Packet) (hp : p.WF) (n' pl' rest : Bytes)
    (hH : (p.hash H).length = 32)
    (hn : n'.length = 32) (hpl : pl'.length = p.payload.length) (hne : ¬ (n' = p.nonce ∧ pl' = p.payload))
    (hcf : H (p.nonce ++ p.payload) = H (n' ++ pl') → p.nonce ++ p.payload = n' ++ pl') :
    parsePacket H ks off (xorStream ks off (le32 (pl'.length + 64) ++ (n' ++ (pl' ++ p.hash H))) ++ rest)
      = .err "checksum error" := by
  rw [parse_plain H ks off n' pl' _ rest hn hH (by rw [hpl]; exact hp.2), if_neg]
  intro heq
  have := hcf heq
  have := List.append_inj this (by rw [hp.1, hn])
  exact hne ⟨this.1.symm, this.2.symm⟩

/-- declared length outside 64..8 MiB: error, whatever follows -/
theorem parse_bad_length (ks : Nat → UInt8) (off : Nat) (s : Bytes) (h4 : 4 ≤ s.length)
    (hL : readLe32 (xorStream ks off (s.take 4)) < 64 ∨ readLe32 (xorStream ks off (s.take 4)) > maxLen) :
    parsePacket H ks off s = .err "invalid length of data" := by
  unfold parsePacket
  rw [if_neg (by omega)]
  simp only [hL, if_true]

/-- declared length larger than what the stream holds: blocked, nothing delivered -/
theorem parse_length_too_long (ks : Nat → UInt8) (off : Nat) (L : Nat) (body : Bytes)
    (h1 : 64 ≤ L) (h2 : L ≤ maxLen) (hb : body.length < L) :
    parsePacket H ks off (xorStream ks off (le32 L ++ body)) = .ok none := by
  have hmax : maxLen = 8388608 := rfl
  unfold parsePacket
  rw [if_neg (by simp)]
  have : (xorStream ks off (le32 L ++ body)).take 4 = xorStream ks off (le32 L) := by
    rw [xorStream_take, List.take_append_of_le_length (by simp), List.take_of_length_le (by simp)]
  simp only [this, xorStream_xorStream]
  rw [readLe32_le32 (by omega), if_neg (by omega), if_pos (by simp; omega)]

/-- EXACT characterisation of delivery, for an ARBITRARY byte stream: a packet is delivered iff the stream holds a
complete frame with an in-bounds length whose last 32 decrypted bytes equal the hash of the decrypted bytes before them;
the packet and the remainder are then determined. Every statement about corrupted streams is a corollary. -/
theorem parse_delivers_iff (ks : Nat → UInt8) (off : Nat) (s : Bytes) (p : Packet) (rest : Bytes) :
    parsePacket H ks off s = .ok (some (p, rest)) ↔
      4 ≤ s.length ∧
      64 ≤ readLe32 (xorStream ks off (s.take 4)) ∧ readLe32 (xorStream ks off (s.take 4)) ≤ maxLen ∧
      readLe32 (xorStream ks off (s.take 4)) ≤ (s.drop 4).length ∧
      (xorStream ks (off + 4) ((s.drop 4).take (readLe32 (xorStream ks off (s.take 4))))).drop
          (readLe32 (xorStream ks off (s.take 4)) - 32) =
        H ((xorStream ks (off + 4) ((s.drop 4).take (readLe32 (xorStream ks off (s.take 4))))).take 32 ++
           ((xorStream ks (off + 4) ((s.drop 4).take (readLe32 (xorStream ks off (s.take 4))))).drop 32).take
             (readLe32 (xorStream ks off (s.take 4)) - 64)) ∧
      p = ⟨(xorStream ks (off + 4) ((s.drop 4).take (readLe32 (xorStream ks off (s.take 4))))).take 32,
           ((xorStream ks (off + 4) ((s.drop 4).take (readLe32 (xorStream ks off (s.take 4))))).drop 32).take
             (readLe32 (xorStream ks off (s.take 4)) - 64)⟩ ∧
      rest = (s.drop 4).drop (readLe32 (xorStream ks off (s.take 4))) := by
  unfold parsePacket
  generalize readLe32 (xorStream ks off (s.take 4)) = L
  by_cases h4 : s.length < 4
  · simp only [h4, if_true]
    constructor
    · intro h; cases h
    · intro h; omega
  · simp only [h4, if_false]
    by_cases hb : L < 64 ∨ L > maxLen
    · simp only [hb, if_true]
      constructor
      · intro h; cases h
      · intro h; omega
    · simp only [hb, if_false]
      by_cases hl : (s.drop 4).length < L
      · simp only [hl, if_true]
        constructor
        · intro h; cases h
        · intro h; omega
      · simp only [hl, if_false, Packet.hash]
        by_cases hc : (xorStream ks (off + 4) ((s.drop 4).take L)).drop (L - 32) =
            H ((xorStream ks (off + 4) ((s.drop 4).take L)).take 32 ++
               ((xorStream ks (off + 4) ((s.drop 4).take L)).drop 32).take (L - 64))
        · simp only [hc, ↓reduceIte]
          constructor
          · intro h
            cases h
            exact ⟨by omega, by omega, by omega, by omega, trivial, rfl, rfl⟩
          · rintro ⟨_, _, _, _, _, hp, hr⟩
            rw [hp, hr]
        · simp only [hc, ↓reduceIte]
          constructor
          · intro h; cases h
          · rintro ⟨_, _, _, _, hc', _, _⟩
            exact hc'.elim

/-- a frame whose nonce/payload bytes were replaced (length field and checksum bytes as sent): delivered EXACTLY when
the hash collides on the original and the altered nonce ‖ payload -/
theorem parse_body_altered_iff (ks : Nat → UInt8) (off : Nat) (p : Packet) (hp : p.WF) (n' pl' rest : Bytes)
    (hH : (p.hash H).length = 32) (hn : n'.length = 32) (hpl : pl'.length = p.payload.length) (q : Packet) (r : Bytes) :
    parsePacket H ks off (xorStream ks off (le32 (pl'.length + 64) ++ (n' ++ (pl' ++ p.hash H))) ++ rest)
        = .ok (some (q, r)) ↔
      (H (p.nonce ++ p.payload) = H (n' ++ pl') ∧ q = ⟨n', pl'⟩ ∧ r = rest) := by
  rw [parse_plain H ks off n' pl' _ rest hn hH (by rw [hpl]; exact hp.2)]
  simp only [Packet.hash]
  by_cases hc : H (p.nonce ++ p.payload) = H (n' ++ pl')
  · simp only [hc, ↓reduceIte]
    constructor
    · intro h; cases h; exact ⟨trivial, rfl, rfl⟩
    · rintro ⟨_, rfl, rfl⟩; rfl
  · simp only [hc, ↓reduceIte]
    constructor
    · intro h; cases h
    · rintro ⟨h, _, _⟩; exact h.elim

/-! ### the frame grammar (independent of the parser) -/

/-- A WELL-FORMED FRAME for packet `p`, as the protocol describes it — not as the parser computes it: four bytes of
little-endian length, a 32-byte nonce, the payload, and the 32-byte hash of nonce ‖ payload; the length counts nonce,
payload and hash and does not exceed the limit. -/
def WellFormedFrame (frame : Bytes) (p : Packet) : Prop :=
  ∃ c : Bytes, frame = le32 (p.payload.length + 64) ++ (p.nonce ++ (p.payload ++ c)) ∧
    p.nonce.length = 32 ∧ c.length = 32 ∧ p.payload.length + 64 ≤ maxLen ∧ c = H (p.nonce ++ p.payload)

theorem le32_of_take4 (m : Bytes) (h4 : 4 ≤ m.length) (hL : readLe32 (m.take 4) < 4294967296) :
    m.take 4 = le32 (readLe32 (m.take 4)) := by
  have hlen : (m.take 4).length = 4 := by simp [List.length_take]; omega
  match hq : m.take 4, hlen with
  | [a, b, c, d], _ => exact (readLe32_four_eq_iff a b c d _ (by rw [hq] at hL; exact hL)).mp rfl

/-- PARSER = GRAMMAR: `ParsePacket` delivers `(p, rest)` from a stream exactly when the stream is the encryption (at the
current keystream offset) of a well-formed frame for `p`, followed by `rest`. -/
theorem parse_delivers_iff_frame (ks : Nat → UInt8) (off : Nat) (s : Bytes) (p : Packet) (rest : Bytes) :
    parsePacket H ks off s = .ok (some (p, rest)) ↔
      ∃ frame, WellFormedFrame H frame p ∧ s = xorStream ks off frame ++ rest := by
  constructor
  · intro h
    obtain ⟨h4, hlo, hhi, hlen, hsum, hp, hr⟩ := (parse_delivers_iff H ks off s p rest).mp h
    generalize hL : readLe32 (xorStream ks off (s.take 4)) = L at hlo hhi hlen hsum hp hr
    generalize hdata : xorStream ks (off + 4) ((s.drop 4).take L) = data at hsum hp
    have hmax : maxLen = 8388608 := rfl
    have hlen' : L ≤ s.length - 4 := by simpa [List.length_drop] using hlen
    have hdl : data.length = L := by rw [← hdata]; simp [List.length_take]; omega
    -- the decrypted header is le32 L
    have hhdr : xorStream ks off (s.take 4) = le32 L := by
      have h1 : (xorStream ks off (s.take 4)).take 4 = xorStream ks off (s.take 4) := by
        rw [List.take_of_length_le (by simp [List.length_take]; omega)]
      have := le32_of_take4 (xorStream ks off (s.take 4)) (by simp [List.length_take]; omega)
        (by rw [h1, hL]; omega)
      rw [h1, hL] at this
      exact this
    have hpn : p.nonce = data.take 32 := by rw [hp]
    have hpp : p.payload = (data.drop 32).take (L - 64) := by rw [hp]
    have hpl : p.payload.length = L - 64 := by rw [hpp]; simp [List.length_take, hdl]; omega
    have hsplit : data = p.nonce ++ (p.payload ++ data.drop (L - 32)) := by
      rw [hpn, hpp]
      conv => lhs; rw [← List.take_append_drop 32 data]
      congr 1
      conv => lhs; rw [← List.take_append_drop (L - 64) (data.drop 32)]
      congr 1
      rw [List.drop_drop]
      congr 1
      omega
    refine ⟨le32 (p.payload.length + 64) ++ (p.nonce ++ (p.payload ++ data.drop (L - 32))),
      ⟨data.drop (L - 32), rfl, by rw [hpn]; simp [List.length_take, hdl]; omega,
        by simp [List.length_drop, hdl]; omega, by omega, by rw [hsum, hpn, hpp]⟩, ?_⟩
    have hL' : p.payload.length + 64 = L := by omega
    have h4' : (s.take 4).length = 4 := by simp [List.length_take]; omega
    rw [hL', ← hsplit, xorStream_append, ← hhdr, xorStream_xorStream, xorStream_length, h4', ← hdata, xorStream_xorStream, hr]
    rw [List.append_assoc]
    conv => lhs; rw [← List.take_append_drop 4 s]
    congr 1
    exact (List.take_append_drop L (s.drop 4)).symm
  · rintro ⟨frame, ⟨c, hf, hn, hc, hl, hsum⟩, hs⟩
    rw [hs, hf, parse_plain H ks off p.nonce p.payload c rest hn hc hl, if_pos hsum]

/-! ### handshake -/

section
variable (ctr : Bytes → Bytes → Nat → UInt8)

theorem handshakePacket_ok (hH : ∀ x, (H x).length = 32) (serverPub ephPub shared params : Bytes)
    (hsh : shared.length = 32) :
    handshakePacket H ctr serverPub ephPub shared params =
      .ok (keyId H serverPub ++ ephPub ++ H params ++
        xorStream (ctr (hsKey shared (H params)) (hsIv shared (H params))) 0 params) := by
  unfold handshakePacket
  simp only []
  rw [if_neg (by rw [hH, hsh]; omega)]

theorem serverAccept_handshake (hH : ∀ x, (H x).length = 32) (serverPub ephPub shared params : Bytes)
    (sharedOf : Bytes → Bytes) (heph : ephPub.length = 32) (hpar : params.length = 160)
    (hDH : sharedOf ephPub = shared) :
    serverAccept H ctr serverPub sharedOf (keyId H serverPub ++ ephPub ++ H params ++
        xorStream (ctr (hsKey shared (H params)) (hsIv shared (H params))) 0 params) = .ok params := by
  have hk : (keyId H serverPub).length = 32 := hH _
  have hh : (H params).length = 32 := hH _
  generalize hE : xorStream (ctr (hsKey shared (H params)) (hsIv shared (H params))) 0 params = E
  have hEl : E.length = 160 := by rw [← hE]; simp [hpar]
  have t1 : (keyId H serverPub ++ ephPub ++ H params ++ E).take 32 = keyId H serverPub := by
    rw [List.append_assoc, List.append_assoc, List.take_append_of_le_length (by omega),
      List.take_of_length_le (by omega)]
  have t2 : ((keyId H serverPub ++ ephPub ++ H params ++ E).drop 32).take 32 = ephPub := by
    rw [List.append_assoc, List.append_assoc, List.drop_append_of_le_length (by omega),
      List.drop_of_length_le (by omega), List.nil_append, List.take_append_of_le_length (by omega),
      List.take_of_length_le (by omega)]
  have t3 : ((keyId H serverPub ++ ephPub ++ H params ++ E).drop 64).take 32 = H params := by
    rw [List.append_assoc, List.drop_append_of_le_length (by simp; omega),
      List.drop_of_length_le (by simp; omega), List.nil_append, List.take_append_of_le_length (by omega),
      List.take_of_length_le (by omega)]
  have t4 : ((keyId H serverPub ++ ephPub ++ H params ++ E).drop 96).take 160 = E := by
    rw [List.drop_append_of_le_length (by simp; omega), List.drop_of_length_le (by simp; omega), List.nil_append,
      List.take_of_length_le (by omega)]
  unfold serverAccept
  rw [if_neg (by simp; omega)]
  simp only [t1, t2, t3, t4, hDH, ne_eq, not_true_eq_false, if_false]
  rw [← hE, xorStream_xorStream]
  simp

end
end
end Tongo.Adnl
