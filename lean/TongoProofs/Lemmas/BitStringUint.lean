import TongoProofs.Lemmas.BitStringRead
import TongoProofs.Lemmas.BitStringSlice
/-! `ReadUint`: the bit loop, the byte-aligned path and the shifted 8-byte load all return the big-endian value of the
next `n` bits. Helper lemmas only. -/
namespace Tongo.BitString
open Tongo.Bits

/-- the bit loop of `ReadUint` -/
theorem readUintLoop_ok (i : Nat) : ∀ (res : Nat) (s : BitString), s.len ≤ 8 * s.buf.length → s.rCursor + i ≤ s.len →
    res % 2 ^ i = 0 →
    readUintLoop i res s = (.ok (res + bitsToNat (nextBits s i)), { s with rCursor := s.rCursor + i }) := by
  induction i with
  | zero => intro res s _ _ _; simp [readUintLoop, nextBits]
  | succ i ih =>
    intro res s h8 h hres
    have hn : s.rCursor < s.len := by omega
    rw [readUintLoop, bind_run, mustReadBit_ok s h8 hn]
    simp only
    rw [nextBits_succ s i h8 hn]
    generalize hb : (abs s)[s.rCursor]'(by rw [abs_length h8]; exact hn) = b
    have hlen : (nextBits { s with rCursor := s.rCursor + 1 } i).length = i :=
      nextBits_length _ _ h8 (by simp; omega)
    have hres' : (if b = true then res ||| 1 <<< i else res) % 2 ^ i = 0 := by
      cases b
      · simp only [Bool.false_eq_true, if_false]
        rw [Nat.pow_succ] at hres
        exact Nat.mod_mul_right_mod res (2 ^ i) 2 ▸ (by rw [hres]; simp)
      · simp only [if_true]
        rw [or_shift_eq_add res i hres, Nat.add_mod]
        have : res % 2 ^ i = 0 := by
          rw [Nat.pow_succ] at hres
          exact Nat.mod_mul_right_mod res (2 ^ i) 2 ▸ (by rw [hres]; simp)
        simp [this]
    rw [ih _ { s with rCursor := s.rCursor + 1 } h8 (by simp; omega) hres', bitsToNat_cons, hlen]
    cases b
    · simp [Nat.add_assoc, Nat.add_comm 1 i]
    · simp only [if_true, or_shift_eq_add res i hres, Bool.toNat_true, Nat.one_mul]
      simp [Nat.add_assoc, Nat.add_comm 1 i]

theorem nextBits_eq (s : BitString) (n : Nat) (h : s.rCursor + n ≤ s.len) :
    nextBits s n = ((bytesToBits s.buf).drop s.rCursor).take n := by
  simp only [nextBits, abs]
  exact take_drop_take _ _ _ _ h

/-- the byte-aligned path: `copy(buf[8-l:], s.buf[c:c+l]); BigEndian.Uint64(buf)` -/
theorem readUint_aligned_value (s : BitString) (n : Nat)
    (h : s.rCursor + n ≤ s.len) (hc : s.rCursor % 8 = 0) (hn : n % 8 = 0) :
    beNat (List.replicate (8 - n / 8) 0 ++ (s.buf.drop (s.rCursor / 8)).take (n / 8)) = bitsToNat (nextBits s n) := by
  rw [beNat_eq_bits, bytesToBits_append, bytesToBits_replicate_zero, bitsToNat_zeros_append, bytesToBits_take,
    bytesToBits_drop, nextBits_eq s n h]
  have e1 : 8 * (s.rCursor / 8) = s.rCursor := by omega
  have e2 : 8 * (n / 8) = n := by omega
  rw [e1, e2]

/-- the shifted 8-byte load: for `off + n ≤ 64` inside the buffer, `(load >> (64 − n − off)) & (2^n − 1)` -/
theorem readUint_shift_value (s : BitString) (n : Nat) (h8 : s.len ≤ 8 * s.buf.length)
    (h : s.rCursor + n ≤ s.len) (hn : s.rCursor % 8 + n ≤ 64) :
    let b := (s.buf.drop (s.rCursor / 8)).take 8
    (beNat (b ++ List.replicate (8 - b.length) 0) >>> (64 - n - s.rCursor % 8)) &&& ((1 <<< n) - 1)
      = bitsToNat (nextBits s n) := by
  intro b
  have hbl : b.length = min 8 (s.buf.length - s.rCursor / 8) := by simp [b]
  -- the 64 bits of the load
  let L := bytesToBits b ++ List.replicate (8 * (8 - b.length)) false
  have hL : L.length = 64 := by simp [L]; omega
  have hW : beNat (b ++ List.replicate (8 - b.length) 0) = bitsToNat L := by
    rw [beNat_eq_bits, bytesToBits_append, bytesToBits_replicate_zero]
  rw [hW, Nat.shiftRight_eq_div_pow, Nat.one_shiftLeft, Nat.and_two_pow_sub_one_eq_mod]
  -- top off+n bits, then the low n of those
  have hk : 64 - n - s.rCursor % 8 = L.length - (s.rCursor % 8 + n) := by omega
  rw [hk, ← bitsToNat_take]
  have hlt : (L.take (s.rCursor % 8 + n)).length = s.rCursor % 8 + n := by rw [List.length_take]; omega
  have hd := bitsToNat_drop (L.take (s.rCursor % 8 + n)) n (by omega)
  rw [← hd, hlt]
  have e0 : s.rCursor % 8 + n - n = s.rCursor % 8 := by omega
  rw [e0, nextBits_eq s n h]
  -- the window lies inside the real bytes of the load
  have hin : s.rCursor % 8 + n ≤ (bytesToBits b).length := by
    rw [bytesToBits_length, hbl]; omega
  have e1 : L.take (s.rCursor % 8 + n) = (bytesToBits b).take (s.rCursor % 8 + n) := by
    simp only [L]; rw [List.take_append_of_le_length hin]
  rw [e1]
  simp only [b, bytesToBits_take, bytesToBits_drop]
  congr 1
  apply List.ext_getElem?
  intro i
  simp only [List.getElem?_take, List.getElem?_drop]
  by_cases hi : i < n
  · have a1 : s.rCursor % 8 + i < s.rCursor % 8 + n := by omega
    have a2 : s.rCursor % 8 + i < 8 * 8 := by omega
    have a3 : 8 * (s.rCursor / 8) + (s.rCursor % 8 + i) = s.rCursor + i := by omega
    simp [hi, a1, a2, a3]
  · simp [hi]

/-- `ReadUint` refines the ideal reader on all three paths -/
theorem readUint_ok (n : Nat) (s : BitString) (h8 : s.len ≤ 8 * s.buf.length) (hn : n ≤ 64)
    (h : s.rCursor + n ≤ s.len) :
    readUint n s = (.ok (bitsToNat (nextBits s n)), { s with rCursor := s.rCursor + n }) := by
  have h64 : ¬ n > 64 := by omega
  have hnb : ¬ s.len < s.rCursor + n := by omega
  simp only [readUint, h64, if_false, bind_run, needBits_run, hnb, get_run, ite_run]
  by_cases hal : s.rCursor % 8 = 0 ∧ n % 8 = 0
  · -- path 1
    have hs : ¬ s.rCursor / 8 + n / 8 > s.buf.length := by omega
    simp only [hal, and_self, if_true, hs, if_false, advance_run, pure_run]
    rw [readUint_aligned_value s n h hal.1 hal.2]
  · simp only [hal, if_false]
    by_cases h57 : n < 57
    · -- path 2
      have hs : ¬ s.rCursor / 8 > s.buf.length := by omega
      simp only [h57, if_true, hs, if_false, advance_run, pure_run]
      have := readUint_shift_value s n h8 h (by omega)
      simp only at this
      rw [this]
    · -- path 3
      simp only [h57, if_false]
      rw [readUintLoop_ok n 0 s h8 h (by simp)]
      simp

theorem readUint_underflow (n : Nat) (s : BitString) (hn : n ≤ 64) (h : s.len < s.rCursor + n) :
    readUint n s = (.err errNotEnough, s) := by
  have h64 : ¬ n > 64 := by omega
  simp only [readUint, h64, if_false, bind_run, needBits_run, h, if_true]

theorem readUint_toowide (n : Nat) (s : BitString) (hn : 64 < n) :
    readUint n s = (.err "too much bits for uint64", s) := by
  simp only [readUint, gt_iff_lt, hn, if_true, throwErr_run]

end Tongo.BitString
