import TongoModel.CellOrd
import TongoProofs.Lemmas.NoPanic
/-! `Cell.hashO` (the TON definition for level-0 cells) agrees with `Cell.reprHash`, the line-by-line model of
boc/immutable_cell.go shared with C02: for a tree whose cells all have level mask 0 and are not pruned branches, and
whose depth does not exceed Go's limit, `Cell.reprHash H c = ok (c.hashO H)`. -/
namespace Tongo

/-- what `newImmutableCell` keeps for a level-0 cell -/
def Cell.infoO (H : List UInt8 → List UInt8) (c : Cell) : HashInfo :=
  { ty := c.ty, mask := 0, buf := parsedBuf c.bits, hashes := [c.hashO H], depths := [c.depthO] }

theorem LevelMask.hashIndex_zero : LevelMask.hashIndex 0 = 0 := by decide
theorem LevelMask.apply_zero (l : Nat) : LevelMask.apply 0 l = 0 := by simp [LevelMask.apply]

theorem HashInfo.depthAt_infoO (H : List UInt8 → List UInt8) (c : Cell) (hty : c.ty ≠ tyPruned) (lvl : Nat) :
    (Cell.infoO H c).depthAt lvl = .ok c.depthO := by
  simp [HashInfo.depthAt, Cell.infoO, LevelMask.apply_zero, LevelMask.hashIndex_zero, hty]

theorem HashInfo.hashAt_infoO (H : List UInt8 → List UInt8) (c : Cell) (hty : c.ty ≠ tyPruned) (lvl : Nat) :
    (Cell.infoO H c).hashAt lvl = .ok (c.hashO H) := by
  simp [HashInfo.hashAt, Cell.infoO, LevelMask.apply_zero, LevelMask.hashIndex_zero, hty]

theorem lvl0List_mem {cs : List Cell} (h : Cell.lvl0List cs = true) : ∀ c ∈ cs, c.lvl0 = true := by
  induction cs with
  | nil => intro c hc; cases hc
  | cons x xs ih =>
    simp only [Cell.lvl0List, Bool.and_eq_true] at h
    intro c hc
    simp only [List.mem_cons] at hc
    rcases hc with rfl | hc
    · exact h.1
    · exact ih h.2 c hc

theorem lvl0_ty {c : Cell} (h : c.lvl0 = true) : c.ty ≠ tyPruned ∧ c.mask = 0 := by
  cases c with
  | mk ty mask bits refs =>
    simp only [Cell.lvl0, Bool.and_eq_true, beq_iff_eq, bne_iff_ne, ne_eq] at h
    exact ⟨h.1.2, h.1.1⟩

theorem mapM_depthAt (H : List UInt8 → List UInt8) (lvl : Nat) :
    ∀ (cs : List Cell), (∀ c ∈ cs, c.ty ≠ tyPruned) →
      (cs.map (Cell.infoO H)).mapM (fun i => i.depthAt lvl) = .ok (cs.map Cell.depthO)
  | [], _ => rfl
  | c :: cs, h => by
    rw [List.map_cons, List.mapM_cons, HashInfo.depthAt_infoO H c (h c (by simp))]
    simp only [bind, Outcome.bind]
    rw [mapM_depthAt H lvl cs (fun x hx => h x (by simp [hx]))]
    rfl

theorem mapM_hashAt (H : List UInt8 → List UInt8) (lvl : Nat) :
    ∀ (cs : List Cell), (∀ c ∈ cs, c.ty ≠ tyPruned) →
      (cs.map (Cell.infoO H)).mapM (fun i => i.hashAt lvl) = .ok (cs.map (Cell.hashO H))
  | [], _ => rfl
  | c :: cs, h => by
    rw [List.map_cons, List.mapM_cons, HashInfo.hashAt_infoO H c (h c (by simp))]
    simp only [bind, Outcome.bind]
    rw [mapM_hashAt H lvl cs (fun x hx => h x (by simp [hx]))]
    rfl

theorem foldl_max_depths (cs : List Cell) (a : Nat) : (cs.map Cell.depthO).foldl max a = max a (Cell.maxDepthO cs) := by
  induction cs generalizing a with
  | nil => simp [Cell.maxDepthO]
  | cons c cs ih => simp only [List.map_cons, List.foldl_cons, ih, Cell.maxDepthO]; omega

theorem flatMap_be16_depths (cs : List Cell) : (cs.map Cell.depthO).flatMap be16 = Cell.depthsO cs := by
  induction cs with
  | nil => rfl
  | cons c cs ih => simp [Cell.depthsO, ih]

theorem flatten_hashes (H : List UInt8 → List UInt8) (cs : List Cell) : (cs.map (Cell.hashO H)).flatten = Cell.hashesO H cs := by
  induction cs with
  | nil => rfl
  | cons c cs ih => simp [Cell.hashesO, ih]

theorem maxDepthO_mem (cs : List Cell) : ∀ c ∈ cs, c.depthO ≤ Cell.maxDepthO cs := by
  induction cs with
  | nil => intro c hc; cases hc
  | cons x xs ih =>
    intro c hc
    simp only [List.mem_cons] at hc
    simp only [Cell.maxDepthO]
    rcases hc with rfl | hc
    · omega
    · have := ih c hc; omega

/-- `newImmutableCell` on a level-0 cell whose children's infos are the level-0 infos -/
theorem computeInfo_lvl0 (H : List UInt8 → List UInt8) (ty : Nat) (bits : List Bool) (refs : List Cell)
    (hty : ty ≠ tyPruned) (hch : ∀ c ∈ refs, c.ty ≠ tyPruned)
    (hdep : (Cell.mk ty 0 bits refs).depthO ≤ maxDepth) :
    computeInfo H ty 0 bits (parsedBuf bits) (refs.map (Cell.infoO H)) = .ok (Cell.infoO H (.mk ty 0 bits refs)) := by
  have hmd : refs.isEmpty = false → Cell.maxDepthO refs < maxDepth := by
    intro he
    simp only [Cell.depthO, he, Bool.false_eq_true, ↓reduceIte] at hdep
    omega
  unfold computeInfo
  have hl : LevelMask.level 0 = 0 := rfl
  have hr : List.range (0 + 1) = [0] := rfl
  simp only [hl, hr, hty, ↓reduceIte, List.foldlM_cons, List.foldlM_nil, bind, Outcome.bind, pure]
  unfold levelStep
  have hsig : LevelMask.isSignificant 0 0 = true := rfl
  simp only [hsig, Bool.not_true, Bool.false_eq_true, ↓reduceIte, Nat.lt_irrefl, bind, Outcome.bind, pure,
    LevelMask.apply_zero, List.length_map]
  rw [mapM_depthAt H _ refs hch]
  simp only []
  rw [foldl_max_depths, flatMap_be16_depths]
  have hnot : ¬ (refs.length > 0 ∧ max 0 (Cell.maxDepthO refs) ≥ maxDepth) := by
    intro h
    obtain ⟨h1, h2⟩ := h
    have : refs.isEmpty = false := by cases refs <;> simp_all
    have := hmd this
    omega
  rw [if_neg hnot]
  rw [mapM_hashAt H _ refs hch]
  simp only [flatten_hashes]
  simp only [Cell.infoO, Cell.ty, Cell.bits, Cell.hashO, Cell.depthO, List.nil_append, HashInfo.mk.injEq, true_and,
    List.cons.injEq, and_true, Outcome.ok.injEq]
  cases refs with
  | nil => simp [Cell.maxDepthO]
  | cons r rs => simp

mutual
theorem Cell.info_lvl0 (H : List UInt8 → List UInt8) : ∀ (c : Cell), c.lvl0 = true → c.depthO ≤ maxDepth →
    Cell.info H c = .ok (Cell.infoO H c)
  | .mk ty mask bits refs, hl, hd => by
    have hm := (lvl0_ty hl)
    simp only [Cell.ty, Cell.mask] at hm
    obtain ⟨hty, hmask⟩ := hm
    subst hmask
    have hlist : Cell.lvl0List refs = true := by
      simp only [Cell.lvl0, Bool.and_eq_true] at hl
      exact hl.2
    have hchd : ∀ c ∈ refs, c.depthO ≤ maxDepth := by
      intro c hc
      have h1 := maxDepthO_mem refs c hc
      have hne : refs.isEmpty = false := by cases refs <;> simp_all
      simp only [Cell.depthO, hne, Bool.false_eq_true, ↓reduceIte] at hd
      omega
    unfold Cell.info
    rw [Cell.infoList_lvl0 H refs hlist hchd]
    simp only [bind, Outcome.bind]
    exact computeInfo_lvl0 H ty bits refs hty (fun c hc => (lvl0_ty (lvl0List_mem hlist c hc)).1) hd
theorem Cell.infoList_lvl0 (H : List UInt8 → List UInt8) : ∀ (cs : List Cell), Cell.lvl0List cs = true →
    (∀ c ∈ cs, c.depthO ≤ maxDepth) → Cell.infoList H cs = .ok (cs.map (Cell.infoO H))
  | [], _, _ => rfl
  | c :: cs, hl, hd => by
    simp only [Cell.lvl0List, Bool.and_eq_true] at hl
    unfold Cell.infoList
    rw [Cell.info_lvl0 H c hl.1 (hd c (by simp)), Cell.infoList_lvl0 H cs hl.2 (fun x hx => hd x (by simp [hx]))]
    rfl
end

/-- `Cell.Hash()` as modelled line by line (C02's `Cell.reprHash`) equals the TON definition `hashO` on level-0 trees
within the depth limit -/
theorem Cell.reprHash_lvl0 (H : List UInt8 → List UInt8) (c : Cell) (hl : c.lvl0 = true) (hd : c.depthO ≤ maxDepth) :
    Cell.reprHash H c = .ok (c.hashO H) := by
  unfold Cell.reprHash
  rw [Cell.info_lvl0 H c hl hd]
  simp only [bind, Outcome.bind]
  exact HashInfo.hashAt_infoO H c (lvl0_ty hl).1 3

end Tongo
