import TongoModel.TlbRead
/-! Lemmas for the TL-B side of C08: no primitive and no modelled custom decoder panics; walks visit every cell of the
unfolded tree at most once; the cost of the two SnakeData decoders. -/
namespace Tongo.Tlb
open Tongo

theorem readBit_np (r : Rd) : (readBit r).isPanic = false := by
  unfold readBit; split <;> rfl

theorem nextRef_np (r : Rd) : (nextRef r).isPanic = false := by
  unfold nextRef; split <;> rfl

theorem readUnary_np (r : Rd) : (readUnary r).isPanic = false := by
  unfold readUnary; split <;> rfl

theorem readUint_np (n : Int) (_hn : 0 ≤ n) (r : Rd) : (readUint n r).isPanic = false := by
  unfold readUint
  split
  · rfl
  · split
    · rfl
    · split <;> rfl

theorem readBits_np (n : Int) (_hn : 0 ≤ n) (r : Rd) : (readBits n r).isPanic = false := by
  unfold readBits
  split
  · rfl
  · split <;> rfl

theorem skip_np (n : Int) (_hn : 0 ≤ n) (r : Rd) : (skip n r).isPanic = false := by
  unfold skip
  split
  · rfl
  · split <;> rfl

/-- a negative width is an error of the repaired readers (it was a panic before repo fix 31abce9) -/
theorem readUint_negative_is_error : (readUint (-8) ⟨[], []⟩).isErr = true := by decide

theorem minBits_nonneg (n : Int) : (0 : Int) ≤ (minBits n : Int) := Int.natCast_nonneg _

/-- `ReadLimUint` never panics, whatever (even negative) bound it is given: the width is computed, never negative -/
theorem readLimUint_np (n : Int) (r : Rd) : (readLimUint n r).isPanic = false := by
  unfold readLimUint
  have h := readUint_np (minBits n) (minBits_nonneg n) r
  split <;> simp_all [Outcome.isPanic]

theorem writeBit_np (key : List Bool) (cap : Nat) (b : Bool) : (writeBit key cap b).isPanic = false := by
  unfold writeBit; split <;> rfl

theorem copyBits_np (n : Nat) (r : Rd) (key : List Bool) (cap : Nat) : (copyBits n r key cap).isPanic = false := by
  induction n generalizing r key with
  | zero => rfl
  | succ n ih =>
    unfold copyBits
    have h1 := readBit_np r
    split
    · rename_i b r' _
      have h2 := writeBit_np key cap b
      split
      · exact ih _ _
      · rfl
      · simp_all [Outcome.isPanic]
    · rfl
    · simp_all [Outcome.isPanic]

theorem fillBits_np (n : Nat) (key : List Bool) (cap : Nat) (b : Bool) : (fillBits n key cap b).isPanic = false := by
  unfold fillBits; split <;> rfl

/-- `loadLabel` never panics: for every claimed remaining key size (negative included), every cell content, every
key prefix and capacity -/
theorem loadLabel_np (size : Int) (r : Rd) (key : List Bool) (cap : Nat) : (loadLabel size r key cap).isPanic = false := by
  unfold loadLabel
  have h1 := readBit_np r
  split
  · rfl
  · simp_all [Outcome.isPanic]
  · rename_i first r1 _
    split
    · have h2 := readUnary_np r1
      split
      · rfl
      · simp_all [Outcome.isPanic]
      · rename_i ln r2 _
        have h3 := copyBits_np ln r2 key cap
        split <;> simp_all [Outcome.isPanic]
    · have h2 := readBit_np r1
      split
      · rfl
      · simp_all [Outcome.isPanic]
      · rename_i second r2 _
        split
        · have h3 := readLimUint_np size r2
          split
          · rfl
          · simp_all [Outcome.isPanic]
          · rename_i ln r3 _
            have h4 := copyBits_np ln.toNat r3 key cap
            split <;> simp_all [Outcome.isPanic]
        · have h3 := readBit_np r2
          split
          · rfl
          · simp_all [Outcome.isPanic]
          · rename_i bt r3 _
            have h4 := readLimUint_np size r3
            split
            · rfl
            · simp_all [Outcome.isPanic]
            · rename_i ln r4 _
              have h5 := fillBits_np ln.toNat key cap bt
              split <;> simp_all [Outcome.isPanic]

theorem loadLabelSize_np (size : Int) (r : Rd) : (loadLabelSize size r).isPanic = false := by
  unfold loadLabelSize
  have h1 := readBit_np r
  split
  · rfl
  · simp_all [Outcome.isPanic]
  · rename_i first r1 _
    split
    · have h2 := readUnary_np r1
      split <;> simp_all [Outcome.isPanic]
    · have h2 := readBit_np r1
      split
      · rfl
      · simp_all [Outcome.isPanic]
      · rename_i second r2 _
        split
        · exact readLimUint_np size r2
        · have h3 := readBit_np r2
          split
          · rfl
          · simp_all [Outcome.isPanic]
          · exact readLimUint_np size _

/-! ### induction over cell trees -/

mutual
theorem cell_ind {P : Cell → Prop} (h : ∀ ty mask bits refs, (∀ c ∈ refs, P c) → P (.mk ty mask bits refs)) :
    (c : Cell) → P c
  | .mk ty mask bits refs => h ty mask bits refs (cell_ind_list h refs)
theorem cell_ind_list {P : Cell → Prop} (h : ∀ ty mask bits refs, (∀ c ∈ refs, P c) → P (.mk ty mask bits refs)) :
    (l : List Cell) → ∀ c ∈ l, P c
  | [] => by intro c hc; simp at hc
  | a :: t => by
    have ha := cell_ind h a
    have ht := cell_ind_list h t
    intro c hc
    rcases List.mem_cons.mp hc with h1 | h2
    · rw [h1]; exact ha
    · exact ht c h2
end

theorem cellCountList_mem {c : Cell} {l : List Cell} (h : c ∈ l) : cellCount c ≤ cellCount.cellCountList l := by
  induction l with
  | nil => simp at h
  | cons a t ih =>
    unfold cellCount.cellCountList
    rcases List.mem_cons.mp h with h1 | h2
    · subst h1; omega
    · have := ih h2; omega

theorem cellCount_two {a b : Cell} {t : List Cell} :
    cellCount a + cellCount b ≤ cellCount.cellCountList (a :: b :: t) := by
  simp only [cellCount.cellCountList]; omega

/-! ### the hashmap walk -/

theorem mapNode_np (leaf : Rd → Outcome Unit) (hleaf : ∀ r, (leaf r).isPanic = false) (keySize : Nat)
    (hk : keySize ≤ 1023) (ty : Nat) (bits : List Bool) (refs : List Cell) (left : Int) (pfx : List Bool)
    (recL recR : Child (List (List Bool)))
    (hL : ∀ f, recL = some f → ∀ l p, (f l p).1.isPanic = false)
    (hR : ∀ f, recR = some f → ∀ l p, (f l p).1.isPanic = false) :
    (mapNode leaf keySize ty bits refs left pfx recL recR).1.isPanic = false := by
  unfold mapNode
  split
  · rfl
  · have h1 := loadLabel_np left ⟨bits, refs⟩ pfx keySize
    split
    · rfl
    · simp_all [Outcome.isPanic]
    · rename_i size pfx' r' _
      split
      · split
        · rfl
        · rename_i goL
          have h2 := writeBit_np pfx' keySize false
          split
          · rfl
          · simp_all [Outcome.isPanic]
          · rename_i lp _
            have h3 := hL goL rfl (left - (1 + size)) lp
            split
            · rfl
            · simp_all [Outcome.isPanic]
            · split
              · rfl
              · rename_i goR
                have h4 := writeBit_np pfx' keySize true
                split
                · rfl
                · simp_all [Outcome.isPanic]
                · rename_i rp _
                  have h5 := hR goR rfl (left - (1 + size)) rp
                  split
                  · rfl
                  · simp_all [Outcome.isPanic]
                  · rfl
      · split
        · rfl
        have h2 := hleaf r'
        split
        · rfl
        · simp_all [Outcome.isPanic]
        · have h3 := readBits_np keySize (Int.natCast_nonneg _) ⟨pfx', []⟩
          split
          · rfl
          · simp_all [Outcome.isPanic]
          · rename_i key _ hrb
            -- the key read back has exactly keySize bits
            have hlen : key.length ≤ keySize := by
              unfold readBits at hrb
              split at hrb
              · simp at hrb
              · split at hrb
                · simp at hrb
                · simp only [Outcome.ok.injEq, Prod.mk.injEq] at hrb
                  obtain ⟨rfl, _⟩ := hrb
                  simp [List.length_take]; omega
            rw [if_neg (by omega)]
            rfl

theorem mapInner_eq (leaf : Rd → Outcome Unit) (keySize ty mask : Nat) (bits : List Bool) (refs : List Cell)
    (left : Int) (pfx : List Bool) :
    mapInner leaf keySize (.mk ty mask bits refs) left pfx = mapNode leaf keySize ty bits refs left pfx
      (match refs with | l :: _ => some (mapInner leaf keySize l) | [] => none)
      (match refs with | _ :: r :: _ => some (mapInner leaf keySize r) | _ => none) := by
  match refs with
  | [] => rfl
  | [_] => rfl
  | _ :: _ :: _ => rfl

/-- the hashmap walk never panics provided the value decoder does not and the key fits a cell -/
theorem mapInner_np (leaf : Rd → Outcome Unit) (hleaf : ∀ r, (leaf r).isPanic = false) (keySize : Nat)
    (hk : keySize ≤ 1023) (c : Cell) : ∀ (left : Int) (pfx : List Bool),
    (mapInner leaf keySize c left pfx).1.isPanic = false := by
  refine cell_ind (P := fun c => ∀ (left : Int) (pfx : List Bool),
    (mapInner leaf keySize c left pfx).1.isPanic = false) ?_ c
  intro ty mask bits refs ih left pfx
  rw [mapInner_eq]
  apply mapNode_np leaf hleaf keySize hk
  · intro f hf l p
    cases refs with
    | nil => simp at hf
    | cons a t => simp only [Option.some.injEq] at hf; subst hf; exact ih a (by simp) l p
  · intro f hf l p
    match refs, hf, ih with
    | [], hf, _ => simp at hf
    | [_], hf, _ => simp at hf
    | _ :: b :: _, hf, ih => simp only [Option.some.injEq] at hf; subst hf; exact ih b (by simp) l p

theorem mapNode_steps (leaf : Rd → Outcome Unit) (keySize ty : Nat) (bits : List Bool) (refs : List Cell) (left : Int)
    (pfx : List Bool) (recL recR : Child (List (List Bool))) (bL bR : Nat)
    (hL : ∀ f, recL = some f → ∀ l p, (f l p).2 ≤ bL) (hR : ∀ f, recR = some f → ∀ l p, (f l p).2 ≤ bR) :
    (mapNode leaf keySize ty bits refs left pfx recL recR).2 ≤ 1 + bL + bR := by
  unfold mapNode
  split
  · simp only; omega
  · split
    · simp only; omega
    · simp only; omega
    · rename_i size pfx' r' _
      split
      · split
        · simp only; omega
        · rename_i goL
          split
          · simp only; omega
          · simp only; omega
          · rename_i lp _
            have h3 := hL goL rfl (left - (1 + size)) lp
            split
            · rename_i e n1 hg; rw [hg] at h3; simp only at h3 ⊢; omega
            · rename_i e n1 hg; rw [hg] at h3; simp only at h3 ⊢; omega
            · rename_i ks1 n1 hg
              rw [hg] at h3
              simp only at h3
              split
              · simp only; omega
              · rename_i goR
                split
                · simp only; omega
                · simp only; omega
                · rename_i rp _
                  have h5 := hR goR rfl (left - (1 + size)) rp
                  split
                  · rename_i e n2 hg2; rw [hg2] at h5; simp only at h5 ⊢; omega
                  · rename_i e n2 hg2; rw [hg2] at h5; simp only at h5 ⊢; omega
                  · rename_i ks2 n2 hg2; rw [hg2] at h5; simp only at h5 ⊢; omega
      · split
        · simp only; omega
        split
        · simp only; omega
        · simp only; omega
        · split
          · simp only; omega
          · simp only; omega
          · split <;> (simp only; omega)

/-- the hashmap walk visits at most every cell of the unfolded tree once -/
theorem mapInner_steps (leaf : Rd → Outcome Unit) (keySize : Nat) (c : Cell) : ∀ (left : Int) (pfx : List Bool),
    (mapInner leaf keySize c left pfx).2 ≤ cellCount c := by
  refine cell_ind (P := fun c => ∀ (left : Int) (pfx : List Bool),
    (mapInner leaf keySize c left pfx).2 ≤ cellCount c) ?_ c
  intro ty mask bits refs ih left pfx
  rw [mapInner_eq]
  unfold cellCount
  match refs, ih with
  | [], _ =>
    have := mapNode_steps leaf keySize ty bits [] left pfx none none 0 0 (by simp) (by simp)
    simp only [cellCount.cellCountList] at this ⊢
    omega
  | [a], ih =>
    have := mapNode_steps leaf keySize ty bits [a] left pfx (some (mapInner leaf keySize a)) none (cellCount a) 0
      (by intro f hf l p; simp only [Option.some.injEq] at hf; subst hf; exact ih a (by simp) l p) (by simp)
    simp only [cellCount.cellCountList] at this ⊢
    omega
  | a :: b :: t, ih =>
    have := mapNode_steps leaf keySize ty bits (a :: b :: t) left pfx (some (mapInner leaf keySize a))
      (some (mapInner leaf keySize b)) (cellCount a) (cellCount b)
      (by intro f hf l p; simp only [Option.some.injEq] at hf; subst hf; exact ih a (by simp) l p)
      (by intro f hf l p; simp only [Option.some.injEq] at hf; subst hf; exact ih b (by simp) l p)
    have h2 := @cellCount_two a b t
    simp only at this ⊢
    omega

/-! ### countLeafs -/

theorem countLeafs_eq (keySize : Int) (ty mask : Nat) (bits : List Bool) (refs : List Cell) (left : Int) :
    countLeafs keySize (.mk ty mask bits refs) left = countNode keySize ty bits refs left
      (match refs with | l :: _ => some (countLeafs keySize l) | [] => none)
      (match refs with | _ :: r :: _ => some (countLeafs keySize r) | _ => none) := by
  match refs with
  | [] => rfl
  | [_] => rfl
  | _ :: _ :: _ => rfl

theorem countNode_spec (keySize : Int) (ty : Nat) (bits : List Bool) (refs : List Cell) (left : Int)
    (recL recR : Option (Int → Walk Nat)) (bL bR : Nat)
    (hL : ∀ f, recL = some f → ∀ l, (f l).1.isPanic = false ∧ (f l).2 ≤ bL)
    (hR : ∀ f, recR = some f → ∀ l, (f l).1.isPanic = false ∧ (f l).2 ≤ bR) :
    (countNode keySize ty bits refs left recL recR).1.isPanic = false ∧
    (countNode keySize ty bits refs left recL recR).2 ≤ 1 + bL + bR := by
  unfold countNode
  split
  · exact ⟨rfl, by simp only; omega⟩
  · have h1 := loadLabelSize_np left ⟨bits, refs⟩
    split
    · exact ⟨rfl, by simp only; omega⟩
    · simp_all [Outcome.isPanic]
    · rename_i size _ _
      split
      · split
        · exact ⟨rfl, by simp only; omega⟩
        · rename_i goL
          obtain ⟨h3, h3'⟩ := hL goL rfl (left - (1 + size))
          split
          · rename_i e n1 hg; rw [hg] at h3'; exact ⟨rfl, by simp only at h3' ⊢; omega⟩
          · rename_i e n1 hg; rw [hg] at h3; simp [Outcome.isPanic] at h3
          · rename_i c1 n1 hg
            rw [hg] at h3'
            simp only at h3'
            split
            · exact ⟨rfl, by simp only; omega⟩
            · rename_i goR
              obtain ⟨h5, h5'⟩ := hR goR rfl (left - (1 + size))
              split
              · rename_i e n2 hg2; rw [hg2] at h5'; exact ⟨rfl, by simp only at h5' ⊢; omega⟩
              · rename_i e n2 hg2; rw [hg2] at h5; simp [Outcome.isPanic] at h5
              · rename_i c2 n2 hg2; rw [hg2] at h5'; exact ⟨rfl, by simp only at h5' ⊢; omega⟩
      · exact ⟨rfl, by simp only; omega⟩

/-- `countLeafs` never panics (for ANY key sizes, negative included) and visits each cell at most once -/
theorem countLeafs_spec (keySize : Int) (c : Cell) : ∀ (left : Int),
    (countLeafs keySize c left).1.isPanic = false ∧ (countLeafs keySize c left).2 ≤ cellCount c := by
  refine cell_ind (P := fun c => ∀ (left : Int),
    (countLeafs keySize c left).1.isPanic = false ∧ (countLeafs keySize c left).2 ≤ cellCount c) ?_ c
  intro ty mask bits refs ih left
  rw [countLeafs_eq]
  unfold cellCount
  match refs, ih with
  | [], _ =>
    have := countNode_spec keySize ty bits [] left none none 0 0 (by simp) (by simp)
    simp only [cellCount.cellCountList] at this ⊢
    exact ⟨this.1, by omega⟩
  | [a], ih =>
    have := countNode_spec keySize ty bits [a] left (some (countLeafs keySize a)) none (cellCount a) 0
      (by intro f hf l; simp only [Option.some.injEq] at hf; subst hf; exact ih a (by simp) l) (by simp)
    simp only [cellCount.cellCountList] at this ⊢
    exact ⟨this.1, by omega⟩
  | a :: b :: t, ih =>
    have := countNode_spec keySize ty bits (a :: b :: t) left (some (countLeafs keySize a))
      (some (countLeafs keySize b)) (cellCount a) (cellCount b)
      (by intro f hf l; simp only [Option.some.injEq] at hf; subst hf; exact ih a (by simp) l)
      (by intro f hf l; simp only [Option.some.injEq] at hf; subst hf; exact ih b (by simp) l)
    have h2 := @cellCount_two a b t
    simp only at this ⊢
    exact ⟨this.1, by omega⟩

/-! ### SnakeData -/

theorem snake_eq (orig : Bool) (ty mask : Nat) (bits : List Bool) (refs : List Cell) :
    snake orig (.mk ty mask bits refs) =
      snakeNode orig bits (match refs with | c :: _ => some (c.ty, c.bits, snake orig c) | [] => none) := by
  match refs with
  | [] => rfl
  | _ :: _ => rfl

/-- both SnakeData decoders: no panic, one visit per cell of the chain, the same data; the repaired one copies every
bit below the root exactly once, the original at least as much -/
def SnakeSpec (c : Cell) : Prop :=
    (snake true c).1.isPanic = false ∧ (snake false c).1.isPanic = false ∧
    (snake true c).2 ≤ cellCount c ∧ (snake false c).2 ≤ cellCount c ∧
    (snake true c).2 = (snake false c).2 ∧
    (∀ d k, (snake true c).1 = .ok (d, k) →
      (snake false c).1 = .ok (d, d.length - c.bits.length) ∧ c.bits.length ≤ d.length ∧ d.length - c.bits.length ≤ k) ∧
    (∀ e, (snake true c).1 = .err e → (snake false c).1 = .err e)

theorem bits_mk (ty mask : Nat) (bits : List Bool) (refs : List Cell) : (Cell.mk ty mask bits refs).bits = bits := rfl

theorem snake_spec (c : Cell) : SnakeSpec c := by
  refine cell_ind (P := SnakeSpec) ?_ c
  intro ty mask bits refs ih
  unfold SnakeSpec
  rw [snake_eq, snake_eq]
  unfold cellCount
  match refs, ih with
  | [], _ =>
    simp only [snakeNode, cellCount.cellCountList, bits_mk]
    refine ⟨by first | rfl | trivial, by first | rfl | trivial, by omega, by omega, by first | rfl | trivial, ?_, ?_⟩
    · intro d k h
      simp only [Outcome.ok.injEq, Prod.mk.injEq] at h
      obtain ⟨rfl, rfl⟩ := h
      simp
    · intro e h; simp at h
  | a :: t, ih =>
    obtain ⟨h1, h2, h3, h4, h5, h6, h7⟩ := ih a (by simp)
    simp only [snakeNode, cellCount.cellCountList, bits_mk]
    split
    · refine ⟨by first | rfl | trivial, by first | rfl | trivial, by simp only; omega, by simp only; omega,
        by first | rfl | trivial, ?_, ?_⟩
      · intro d k h; simp at h
      · intro e h; exact h
    · rcases ht : snake true a with ⟨ot, nt⟩
      rcases hf : snake false a with ⟨of, nf⟩
      rw [ht] at h1 h3 h5 h6 h7
      rw [hf] at h2 h4 h5 h6 h7
      simp only at h1 h2 h3 h4 h5 h6 h7
      subst h5
      cases ot with
      | panic p => simp [Outcome.isPanic] at h1
      | err e =>
        have := h7 e rfl
        subst this
        simp only
        refine ⟨by first | rfl | trivial, by first | rfl | trivial, by omega, by omega, by first | rfl | trivial, ?_, ?_⟩
        · intro d k h; simp at h
        · intro e' h; exact h
      | ok v =>
        obtain ⟨tail, copied⟩ := v
        obtain ⟨hk1, hk2, hk3⟩ := h6 tail copied rfl
        subst hk1
        simp only [if_true, Bool.false_eq_true, if_false]
        refine ⟨by first | rfl | trivial, by first | rfl | trivial, by omega, by omega, by first | rfl | trivial, ?_, ?_⟩
        · intro d k h
          simp only [Outcome.ok.injEq, Prod.mk.injEq] at h
          obtain ⟨rfl, rfl⟩ := h
          simp only [List.length_append]
          refine ⟨?_, by omega, by omega⟩
          congr 2
          omega
        · intro e h; simp at h

/-! ### BinTree -/

theorem binTree_eq (ty mask : Nat) (bits : List Bool) (refs : List Cell) :
    binTree (.mk ty mask bits refs) = binNode ty bits
      (match refs with | l :: _ => some (binTree l) | [] => none)
      (match refs with | _ :: r :: _ => some (binTree r) | _ => none) := by
  match refs with
  | [] => rfl
  | [_] => rfl
  | _ :: _ :: _ => rfl

theorem binNode_spec (ty : Nat) (bits : List Bool) (recL recR : Option (Walk Nat)) (bL bR : Nat)
    (hL : ∀ w, recL = some w → w.1.isPanic = false ∧ w.2 ≤ bL)
    (hR : ∀ w, recR = some w → w.1.isPanic = false ∧ w.2 ≤ bR) :
    (binNode ty bits recL recR).1.isPanic = false ∧ (binNode ty bits recL recR).2 ≤ 1 + bL + bR := by
  unfold binNode
  split
  · exact ⟨rfl, by simp only; omega⟩
  · split <;> exact ⟨rfl, by simp only; omega⟩
  · split
    · exact ⟨rfl, by simp only; omega⟩
    · rename_i e n1; have := hL _ rfl; exact ⟨rfl, by simp only at this ⊢; omega⟩
    · rename_i p n1; have := (hL _ rfl).1; simp [Outcome.isPanic] at this
    · rename_i c1 n1
      have h1 := (hL _ rfl).2
      simp only at h1
      split
      · exact ⟨rfl, by simp only; omega⟩
      · rename_i e n2; have := hR _ rfl; exact ⟨rfl, by simp only at this ⊢; omega⟩
      · rename_i p n2; have := (hR _ rfl).1; simp [Outcome.isPanic] at this
      · rename_i c2 n2; have := hR _ rfl; exact ⟨rfl, by simp only at this ⊢; omega⟩

/-- `decodeRecursiveBinTree` never panics and visits each cell at most once -/
theorem binTree_spec (c : Cell) : (binTree c).1.isPanic = false ∧ (binTree c).2 ≤ cellCount c := by
  refine cell_ind (P := fun c => (binTree c).1.isPanic = false ∧ (binTree c).2 ≤ cellCount c) ?_ c
  intro ty mask bits refs ih
  rw [binTree_eq]
  unfold cellCount
  match refs, ih with
  | [], _ =>
    have := binNode_spec ty bits none none 0 0 (by simp) (by simp)
    simp only [cellCount.cellCountList] at this ⊢
    exact ⟨this.1, by omega⟩
  | [a], ih =>
    have := binNode_spec ty bits (some (binTree a)) none (cellCount a) 0
      (by intro w hw; simp only [Option.some.injEq] at hw; subst hw; exact ih a (by simp)) (by simp)
    simp only [cellCount.cellCountList] at this ⊢
    exact ⟨this.1, by omega⟩
  | a :: b :: t, ih =>
    have := binNode_spec ty bits (some (binTree a)) (some (binTree b)) (cellCount a) (cellCount b)
      (by intro w hw; simp only [Option.some.injEq] at hw; subst hw; exact ih a (by simp))
      (by intro w hw; simp only [Option.some.injEq] at hw; subst hw; exact ih b (by simp))
    have h2 := @cellCount_two a b t
    simp only at this ⊢
    exact ⟨this.1, by omega⟩

/-! ### VM stack list -/

theorem stackList_eq (tos : Rd → Outcome Unit) (ty mask : Nat) (bits : List Bool) (refs : List Cell) (depth : Nat) :
    stackList tos (.mk ty mask bits refs) depth = stackNode tos bits refs depth
      (match refs with | c :: _ => some (stackList tos c) | [] => none) := by
  match refs with
  | [] => rfl
  | _ :: _ => rfl

theorem stackNode_spec (tos : Rd → Outcome Unit) (htos : ∀ r, (tos r).isPanic = false) (bits : List Bool)
    (refs : List Cell) (depth : Nat) (rec : Option (Nat → Walk Nat)) (bC : Nat)
    (hC : ∀ f, rec = some f → ∀ d, (f d).1.isPanic = false ∧ (f d).2 ≤ bC) :
    (stackNode tos bits refs depth rec).1.isPanic = false ∧ (stackNode tos bits refs depth rec).2 ≤ 1 + bC := by
  unfold stackNode
  split
  · exact ⟨rfl, by simp only; omega⟩
  · split
    · exact ⟨rfl, by simp only; omega⟩
    · rename_i go
      obtain ⟨h1, h2⟩ := hC go rfl (depth - 1)
      split
      · rename_i e n hg; rw [hg] at h2; exact ⟨rfl, by simp only at h2 ⊢; omega⟩
      · rename_i p n hg; rw [hg] at h1; simp [Outcome.isPanic] at h1
      · rename_i k n hg
        rw [hg] at h2
        simp only at h2
        have h3 := htos ⟨bits, refs.drop 1⟩
        split
        · exact ⟨rfl, by simp only; omega⟩
        · exact ⟨rfl, by simp only; omega⟩
        · rename_i p hp; rw [hp] at h3; simp [Outcome.isPanic] at h3

/-- `getStackListItems` never panics (the 24-bit depth from the wire only bounds how far the chain is followed) and
visits each cell at most once -/
theorem stackList_spec (tos : Rd → Outcome Unit) (htos : ∀ r, (tos r).isPanic = false) (c : Cell) : ∀ depth,
    (stackList tos c depth).1.isPanic = false ∧ (stackList tos c depth).2 ≤ cellCount c := by
  refine cell_ind (P := fun c => ∀ depth,
    (stackList tos c depth).1.isPanic = false ∧ (stackList tos c depth).2 ≤ cellCount c) ?_ c
  intro ty mask bits refs ih depth
  rw [stackList_eq]
  unfold cellCount
  match refs, ih with
  | [], _ =>
    have := stackNode_spec tos htos bits [] depth none 0 (by simp)
    simp only [cellCount.cellCountList] at this ⊢
    exact ⟨this.1, by omega⟩
  | a :: t, ih =>
    have := stackNode_spec tos htos bits (a :: t) depth (some (stackList tos a)) (cellCount a)
      (by intro f hf d; simp only [Option.some.injEq] at hf; subst hf; exact ih a (by simp) d)
    simp only [cellCount.cellCountList] at this ⊢
    exact ⟨this.1, by omega⟩

/-! ### Maybe / Either / Ref -/

theorem maybe_np (inner : Rd → Outcome Rd) (h : ∀ r, (inner r).isPanic = false) (r : Rd) :
    (maybe inner r).isPanic = false := by
  unfold maybe
  have := readBit_np r
  split <;> simp_all [Outcome.isPanic]

theorem either_np (l rt : Rd → Outcome Rd) (hl : ∀ r, (l r).isPanic = false) (hr : ∀ r, (rt r).isPanic = false)
    (r : Rd) : (either l rt r).isPanic = false := by
  unfold either
  have := readBit_np r
  split <;> simp_all [Outcome.isPanic]

theorem ref_np (inner : Rd → Outcome Rd) (h : ∀ r, (inner r).isPanic = false) (r : Rd) :
    (ref inner r).isPanic = false := by
  unfold ref
  have h1 := nextRef_np r
  split
  · rename_i c r' _
    split
    · rfl
    · split
      · rfl
      · have := h (Rd.ofCell c)
        split <;> simp_all [Outcome.isPanic]
  · rfl
  · simp_all [Outcome.isPanic]

end Tongo.Tlb
