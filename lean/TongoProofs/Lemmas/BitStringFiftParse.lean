import TongoProofs.Lemmas.BitStringFift
/-! The language accepted by `BitStringFromFiftHex`: hex digits of either case, optionally followed by one digit of the
completion table and `_`. Helper lemmas only. -/
namespace Tongo.BitString
open Tongo.Bits

/-- the bits of a string of hex digits (either case), `none` if some character is not a hex digit -/
def hexDigitsBits : List Char → Option (List Bool)
  | [] => some []
  | c :: t =>
    match Hex.charNibble? c, hexDigitsBits t with
    | some v, some r => some (natToBits 4 v ++ r)
    | _, _ => none

/-- the Fift hex language and its meaning: `digits*` or `digits* s _` with `s` in the completion table
(`suffixToBits`: 4 C c 2 6 A a E e 1 3 5 7 9 B b D d F f) -/
def fiftParse (txt : List Char) : Option (List Bool) :=
  if txt.getLast? = some '_' then
    if txt.length < 2 then none
    else match txt.dropLast.getLast? with
      | none => none
      | some c =>
        match suffixToBits c, hexDigitsBits txt.dropLast.dropLast with
        | some e, some l => some (l ++ e)
        | _, _ => none
  else hexDigitsBits txt

theorem hexDigitsBits_length : ∀ (d : List Char) (l : List Bool), hexDigitsBits d = some l → l.length = d.length * 4 := by
  intro d
  induction d with
  | nil => intro l h; simp [hexDigitsBits] at h; subst h; rfl
  | cons c t ih =>
    intro l h
    simp only [hexDigitsBits] at h
    cases hv : Hex.charNibble? c with
    | none => simp [hv] at h
    | some v =>
      cases hr : hexDigitsBits t with
      | none => simp [hv, hr] at h
      | some r =>
        simp only [hv, hr, Option.some.injEq] at h
        subst h
        simp [ih r hr]; omega

/-- valid digits: `writeNibbles` is the bit-list write of their bits -/
theorem writeNibbles_some : ∀ (d : List Char) (l : List Bool), hexDigitsBits d = some l →
    writeNibbles d = writeBitArray l := by
  intro d
  induction d with
  | nil => intro l h; simp [hexDigitsBits] at h; subst h; rfl
  | cons c t ih =>
    intro l h
    simp only [hexDigitsBits] at h
    cases hv : Hex.charNibble? c with
    | none => simp [hv] at h
    | some v =>
      cases hr : hexDigitsBits t with
      | none => simp [hv, hr] at h
      | some r =>
        simp only [hv, hr, Option.some.injEq] at h
        subst h
        simp only [writeNibbles, hv, ih r hr, writeUint_eq, writeBitArray_append]

/-- an invalid digit somewhere: `writeNibbles` fails (with the invalid-hex error, or earlier with overflow) -/
theorem writeNibbles_none : ∀ (d : List Char), hexDigitsBits d = none → ∀ s, Inv s →
    ∃ e s', writeNibbles d s = (.err e, s') := by
  intro d
  induction d with
  | nil => intro h; simp [hexDigitsBits] at h
  | cons c t ih =>
    intro h s hi
    cases hv : Hex.charNibble? c with
    | none => exact ⟨"invalid hex", s, by simp only [writeNibbles, hv, throwErr_run]⟩
    | some v =>
      have ht : hexDigitsBits t = none := by
        cases hr : hexDigitsBits t with
        | none => rfl
        | some r => simp [hexDigitsBits, hv, hr] at h
      obtain ⟨s1, hw, _, hi1, _, _⟩ := writeBitArray_spec (natToBits 4 v) s hi
      simp only [writeNibbles, hv, bind_run, writeUint_eq, hw]
      by_cases hfit : s.len + (natToBits 4 v).length ≤ s.cap
      · simp only [hfit, if_true]
        exact ih ht s1 hi1
      · simp only [hfit, if_false]
        exact ⟨_, s1, rfl⟩

/-- `BitStringFromFiftHex` accepts exactly the language of `fiftParse` and returns exactly those bits -/
theorem fromFiftHex_spec (txt : List Char) :
    (∀ l, fiftParse txt = some l → ∃ s', fromFiftHex txt = .ok s' ∧ abs s' = l ∧ Inv s' ∧ s'.cap = l.length) ∧
    (fiftParse txt = none → ∃ e, fromFiftHex txt = .err e) := by
  unfold fiftParse fromFiftHex
  by_cases hu : txt.getLast? = some '_'
  · simp only [hu, if_true]
    by_cases h2 : txt.length < 2
    · simp only [h2, if_true]
      exact ⟨fun l h => (by cases h), fun _ => ⟨_, rfl⟩⟩
    · simp only [h2, if_false]
      cases hc : txt.dropLast.getLast? with
      | none => exact ⟨fun l h => (by cases h), fun _ => ⟨_, rfl⟩⟩
      | some c =>
        simp only
        cases he : suffixToBits c with
        | none => exact ⟨fun l h => (by cases h), fun _ => ⟨_, rfl⟩⟩
        | some e =>
          simp only
          cases hd : hexDigitsBits txt.dropLast.dropLast with
          | none =>
            refine ⟨fun l h => (by cases h), fun _ => ?_⟩
            obtain ⟨er, s', hw⟩ := writeNibbles_none _ hd (new (txt.dropLast.dropLast.length * 4 + e.length)) (inv_new _)
            simp only [bind_run, hw]
            exact ⟨_, rfl⟩
          | some l0 =>
            refine ⟨fun l h => ?_, fun h => (by cases h)⟩
            simp only [Option.some.injEq] at h
            subst h
            have hlen := hexDigitsBits_length _ _ hd
            obtain ⟨s', hw, ha, hi', hcap⟩ := writeBitArray_new (l0 ++ e)
            have hcap' : txt.dropLast.dropLast.length * 4 + e.length = (l0 ++ e).length := by
              rw [List.length_append, hlen]
            rw [hcap']
            have hprog : (writeNibbles txt.dropLast.dropLast >>= fun _ => writeBitArray e) = writeBitArray (l0 ++ e) := by
              rw [writeNibbles_some _ _ hd, ← writeBitArray_append]
            have : (do writeNibbles txt.dropLast.dropLast; writeBitArray e : M Unit) = writeBitArray (l0 ++ e) := hprog
            simp only [this, hw]
            exact ⟨s', rfl, ha, hi', hcap⟩
  · simp only [hu, if_false]
    cases hd : hexDigitsBits txt with
    | none =>
      refine ⟨fun l h => (by cases h), fun _ => ?_⟩
      obtain ⟨er, s', hw⟩ := writeNibbles_none _ hd (new (txt.length * 4 + ([] : List Bool).length)) (inv_new _)
      simp only [bind_run, hw]
      exact ⟨_, rfl⟩
    | some l0 =>
      refine ⟨fun l h => ?_, fun h => (by cases h)⟩
      simp only [Option.some.injEq] at h
      subst h
      have hlen := hexDigitsBits_length _ _ hd
      obtain ⟨s', hw, ha, hi', hcap⟩ := writeBitArray_new l0
      have hcap' : txt.length * 4 + ([] : List Bool).length = l0.length := by simp [hlen]
      rw [hcap']
      have hprog : (writeNibbles txt >>= fun _ => writeBitArray []) = writeBitArray l0 := by
        rw [writeNibbles_some _ _ hd]; exact bind_pure_unit _
      have : (do writeNibbles txt; writeBitArray [] : M Unit) = writeBitArray l0 := hprog
      simp only [this, hw]
      exact ⟨s', rfl, ha, hi', hcap⟩

end Tongo.BitString
