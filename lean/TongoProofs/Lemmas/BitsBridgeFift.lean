import TongoModel.Json
import TongoProofs.Lemmas.BitStringFiftParse
/-! BRIDGE part 3: the Fift-hex functions of C20 (`Json.toFift` / `Json.fromFift`, TongoModel/Json.lean) are the C06
ones: `toFift = fiftSpec` (which `C06.toFiftHex_spec` proves to be what `ToFiftHex` returns) and `fromFift` accepts the
language `fiftParse` with the same bits (which `C06.fifthex_parse_spec` proves about `BitStringFromFiftHex`). -/
namespace Tongo.Bridge
open Tongo Tongo.Bits Tongo.BitString

theorem nibblesOf_map (l : List Bool) : (Json.nibblesOf l).map Hex.nibbleCharUpper = nibbles l := by
  fun_induction nibbles l with
  | case1 a b c d rest ih =>
    simp only [Json.nibblesOf, List.map_cons, ih]
    congr 2
    cases a <;> cases b <;> cases c <;> cases d <;> rfl
  | case2 l h =>
    match l, h with
    | [], _ => rfl
    | [_], _ => rfl
    | [_, _], _ => rfl
    | [_, _, _], _ => rfl
    | a :: b :: c :: d :: r, h => exact absurd rfl (h a b c d r)

/-- `Json.toFift` is the Fift hex text of C06 -/
theorem fift_toFift (l : List Bool) : Json.toFift l = fiftSpec l := by
  unfold Json.toFift fiftSpec
  split <;> simp only [nibblesOf_map]

theorem nibblesOfHex_bits : ∀ (s : List Char),
    (Json.nibblesOfHex s).map Json.nibblesToBits = hexDigitsBits s := by
  intro s
  induction s with
  | nil => rfl
  | cons c r ih =>
    simp only [Json.nibblesOfHex, hexDigitsBits]
    cases hc : Hex.charNibble? c with
    | none => simp
    | some n =>
      cases hr : Json.nibblesOfHex r with
      | none => rw [hr] at ih; simp at ih; simp [← ih]
      | some ns =>
        rw [hr] at ih
        simp only [Option.map_some] at ih
        simp [← ih, Json.nibblesToBits]

/-- a completion digit: C20's `endingBits ∘ hexToInt` is the table `suffixToBits` of C06 (regenerated from the Go map) -/
theorem ending_eq_suffix (c : Char) : (Hex.charNibble? c).bind Json.endingBits = suffixToBits c := by
  have hc : c = Char.ofNat c.toNat := (Char.ofNat_toNat c).symm
  by_cases hhex : (48 ≤ c.toNat ∧ c.toNat ≤ 57) ∨ (97 ≤ c.toNat ∧ c.toNat ≤ 102) ∨ (65 ≤ c.toNat ∧ c.toNat ≤ 70)
  · have hcases : c.toNat = 48 ∨ c.toNat = 49 ∨ c.toNat = 50 ∨ c.toNat = 51 ∨ c.toNat = 52 ∨ c.toNat = 53 ∨
        c.toNat = 54 ∨ c.toNat = 55 ∨ c.toNat = 56 ∨ c.toNat = 57 ∨ c.toNat = 97 ∨ c.toNat = 98 ∨ c.toNat = 99 ∨
        c.toNat = 100 ∨ c.toNat = 101 ∨ c.toNat = 102 ∨ c.toNat = 65 ∨ c.toNat = 66 ∨ c.toNat = 67 ∨
        c.toNat = 68 ∨ c.toNat = 69 ∨ c.toNat = 70 := by omega
    rcases hcases with h | h | h | h | h | h | h | h | h | h | h | h | h | h | h | h | h | h | h | h | h | h <;>
      (rw [hc, h]; decide +kernel)
  · have hnone : Hex.charNibble? c = none := by
      unfold Hex.charNibble?
      simp only
      split
      · omega
      · split
        · omega
        · split
          · omega
          · rfl
    rw [hnone]
    simp only [Option.bind_none]
    unfold suffixToBits
    split <;> first | rfl | (exfalso; apply hhex; decide)

theorem take_sub_two {α} (s : List α) (h : 2 ≤ s.length) : s.take (s.length - 2) = s.dropLast.dropLast := by
  rw [List.dropLast_eq_take, List.dropLast_eq_take, List.take_take]
  congr 1
  simp only [List.length_take]
  omega

theorem get_sub_two {α} (s : List α) (h : 2 ≤ s.length) : s[s.length - 2]? = s.dropLast.getLast? := by
  rw [List.getLast?_eq_getElem?, List.dropLast_eq_take, List.getElem?_take]
  simp only [List.length_take]
  have : min (s.length - 1) s.length - 1 = s.length - 2 := by omega
  rw [this]
  have : s.length - 2 < s.length - 1 := by omega
  simp [this]

/-- `Json.fromFift` accepts exactly the C06 language and returns the same bits -/
theorem fift_fromFift (s : List Char) :
    Json.fromFift s = match fiftParse s with
      | some l => .ok l
      | none => .err "invalid hex" := by
  unfold Json.fromFift fiftParse Json.hasSuffixChar
  by_cases hu : s.getLast? = some '_'
  · simp only [hu, beq_self_eq_true, if_true]
    by_cases h2 : s.length < 2
    · simp only [h2, if_true]
    · have h2' : 2 ≤ s.length := by omega
      simp only [h2, if_false, take_sub_two s h2', get_sub_two s h2']
      cases hc : s.dropLast.getLast? with
      | none =>
        exfalso
        have : s.dropLast ≠ [] := by
          intro h; have := congrArg List.length h; simp at this; omega
        exact absurd hc (by simp [List.getLast?_eq_none_iff, this])
      | some c =>
        simp only
        rw [ending_eq_suffix c, ← nibblesOfHex_bits]
        cases suffixToBits c <;> cases Json.nibblesOfHex s.dropLast.dropLast <;> rfl
  · have hu' : (s.getLast? == some '_') = false := by simpa using hu
    simp only [hu', hu, if_false, Bool.false_eq_true]
    rw [← nibblesOfHex_bits]
    cases Json.nibblesOfHex s <;> rfl

end Tongo.Bridge
