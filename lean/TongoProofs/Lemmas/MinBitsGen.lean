import TongoGen.MinBits
import TongoProofs.Lemmas.BitStringMisc
/-! Tie between the definition of `minBitsRequired` REGENERATED from boc/bitString.go by translator X4
(`TongoGen/MinBits.lean`, on `BitVec 64`) and the hand model on `Nat` (`TongoModel/BitString.lean`). -/
namespace Tongo.BitString

theorem gen_tab64_map : Gen.MinBits.tab64.map BitVec.toNat = tab64 := by decide

theorem tab64_getD_le (i : Nat) : tab64.getD i 0 ≤ 63 := by
  by_cases h : i < 64
  · revert i; decide
  · have : tab64.length ≤ i := by simp [tab64]; omega
    simp [List.getD_eq_getElem?_getD, List.getElem?_eq_none this]

theorem gen_tab64_getD (i : Nat) : (Gen.MinBits.tab64.getD i 0#64).toNat = tab64.getD i 0 := by
  rw [← gen_tab64_map, List.getD_eq_getElem?_getD, List.getD_eq_getElem?_getD, List.getElem?_map]
  cases Gen.MinBits.tab64[i]? <;> rfl

def bvStep (v : BitVec 64) (k : Nat) : BitVec 64 := v ||| (v >>> k)
def natStep (v k : Nat) : Nat := v ||| (v >>> k)

theorem bvStep_toNat (v : BitVec 64) (k : Nat) : (bvStep v k).toNat = natStep v.toNat k := by
  simp [bvStep, natStep, BitVec.toNat_or, BitVec.toNat_ushiftRight]

def bvFinal (v : BitVec 64) : BitVec 64 :=
  Gen.MinBits.tab64.getD (((v - (v >>> 1)) * 0x7edd5e59a4e28c2#64) >>> 58).toNat 0#64 + 1#64
def natFinal (v : Nat) : Nat := tab64.getD (((v - (v >>> 1)) * deBruijn % 2 ^ 64) >>> 58) 0 + 1

theorem deBruijn_const : (0x7edd5e59a4e28c2#64 : BitVec 64).toNat = deBruijn := by decide

theorem bvFinal_toNat (v : BitVec 64) : (bvFinal v).toNat = natFinal v.toNat := by
  unfold bvFinal natFinal
  have hC := deBruijn_const
  generalize (0x7edd5e59a4e28c2#64 : BitVec 64) = c at hC
  have h1 : (1#64 : BitVec 64).toNat = 1 := by decide
  generalize (1#64 : BitVec 64) = one at h1
  rw [BitVec.toNat_add, gen_tab64_getD, h1]
  have hle := tab64_getD_le
  rw [BitVec.toNat_ushiftRight, BitVec.toNat_mul, BitVec.toNat_sub, BitVec.toNat_ushiftRight, hC]
  have hb : v.toNat >>> 1 ≤ v.toNat := by
    rw [Nat.shiftRight_eq_div_pow]; exact Nat.div_le_self _ _
  have hlt := v.isLt
  have e : (2 ^ 64 - v.toNat >>> 1 + v.toNat) % 2 ^ 64 = v.toNat - v.toNat >>> 1 := by
    generalize v.toNat >>> 1 = b at hb
    omega
  rw [e]
  have := hle (((v.toNat - v.toNat >>> 1) * deBruijn % 2 ^ 64) >>> 58)
  omega

theorem gen_minBitsRequired_eq (x : BitVec 64) :
    (Gen.MinBits.minBitsRequired x).toNat = minBitsRequired x.toNat := by
  have hg : Gen.MinBits.minBitsRequired x = if (x == 0#64) then 0#64 else
      bvFinal (bvStep (bvStep (bvStep (bvStep (bvStep (bvStep x 1) 2) 4) 8) 16) 32) := rfl
  have hm : minBitsRequired x.toNat = if x.toNat = 0 then 0 else
      natFinal (natStep (natStep (natStep (natStep (natStep (natStep x.toNat 1) 2) 4) 8) 16) 32) := rfl
  rw [hg, hm]
  by_cases h0 : x = 0#64
  · subst h0; simp
  · have h0' : (x == 0#64) = false := by simpa using h0
    have h0'' : ¬ x.toNat = 0 := by
      intro h; apply h0; apply BitVec.eq_of_toNat_eq; simpa using h
    simp only [h0', Bool.false_eq_true, if_false, h0'', bvFinal_toNat, bvStep_toNat]

end Tongo.BitString
