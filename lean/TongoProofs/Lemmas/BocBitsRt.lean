import TongoProofs.Lemmas.BocBytes
/-! Bit packing and the completion tag: `SetTopUppedArray` undoes `bocReprWithoutRefs` for every bit length. -/
namespace Tongo.Boc
open Tongo Tongo.Bits

theorem bitsToBytes_cons (h : Bool) (t : List Bool) :
    bitsToBytes (h :: t) =
      UInt8.ofNat (bitsToNat ((h :: t).take 8 ++ List.replicate (8 - ((h :: t).take 8).length) false))
        :: bitsToBytes (t.drop 7) := by
  rw [bitsToBytes]

theorem bitsToBytes_append8 (a rest : List Bool) (ha : a.length = 8) :
    bitsToBytes (a ++ rest) = UInt8.ofNat (bitsToNat a) :: bitsToBytes rest := by
  cases a with
  | nil => simp at ha
  | cons h t =>
    have ht : t.length = 7 := by simpa using ha
    rw [List.cons_append, bitsToBytes_cons]
    have h1 : (h :: (t ++ rest)).take 8 = h :: t := by
      rw [List.take_succ_cons, List.take_append_of_le_length (by omega), List.take_of_length_le (by omega)]
    rw [h1]
    have h2 : (t ++ rest).drop 7 = rest := by
      rw [← ht]; exact List.drop_left
    rw [h2]
    simp [ht]

theorem bitsToBytes_length (l : List Bool) : (bitsToBytes l).length = (l.length + 7) / 8 := by
  generalize hn : l.length = n
  induction n using Nat.strong_induction_on generalizing l with
  | _ n ih =>
    cases l with
    | nil => simp at hn; subst hn; rw [bitsToBytes]; rfl
    | cons h t =>
      rw [bitsToBytes_cons, List.length_cons]
      simp only [List.length_cons] at hn
      rw [ih (t.length - 7) (by omega) (t.drop 7) (by simp)]
      omega

theorem byteToBits_ofNat (a : List Bool) (ha : a.length = 8) : byteToBits (UInt8.ofNat (bitsToNat a)) = a := by
  unfold byteToBits
  have hlt : bitsToNat a < 256 := by
    have := bitsToNat_lt a
    rw [ha] at this
    simpa using this
  have : (UInt8.ofNat (bitsToNat a)).toNat = bitsToNat a := by
    simp [Nat.mod_eq_of_lt hlt]
  rw [this]
  have h := natToBits_bitsToNat a
  rwa [ha] at h

/-- packing aligned bits into bytes and unpacking gives the bits back -/
theorem bytesToBits_bitsToBytes_aligned (l : List Bool) (h : l.length % 8 = 0) : bytesToBits (bitsToBytes l) = l := by
  generalize hn : l.length = n
  induction n using Nat.strong_induction_on generalizing l with
  | _ n ih =>
    by_cases h0 : n = 0
    · subst h0
      have : l = [] := List.eq_nil_of_length_eq_zero hn
      subst this
      rw [bitsToBytes]; rfl
    · have hge : 8 ≤ l.length := by omega
      have hsplit : l = l.take 8 ++ l.drop 8 := (List.take_append_drop 8 l).symm
      have hta : (l.take 8).length = 8 := by rw [List.length_take]; omega
      rw [hsplit, bitsToBytes_append8 _ _ hta]
      simp only [bytesToBits, List.flatMap_cons]
      rw [byteToBits_ofNat _ hta]
      have := ih (n - 8) (by omega) (l.drop 8) (by simp; omega) (by simp; omega)
      simp only [bytesToBits] at this
      rw [this]

theorem addTag_length_mod (l : List Bool) : (addTag l).length % 8 = 0 := by
  unfold addTag
  split
  · assumption
  · simp only [List.length_append, List.length_cons, List.length_replicate]; omega

theorem addTag_length (l : List Bool) : (addTag l).length = (l.length + 7) / 8 * 8 := by
  unfold addTag
  split
  · omega
  · simp only [List.length_append, List.length_cons, List.length_replicate]; omega

theorem toppedUp_length (l : List Bool) : (toppedUp l).length = (l.length + 7) / 8 := by
  unfold toppedUp
  rw [bitsToBytes_length, addTag_length]; omega

theorem stripLoop_tag (k m : Nat) (r : List Bool) :
    stripLoop (k + 1 + m) (List.replicate k false ++ true :: r) = .ok r.reverse := by
  induction k with
  | zero =>
    have : 0 + 1 + m = m + 1 := by omega
    rw [this]; rfl
  | succ k ih =>
    have : k + 1 + 1 + m = (k + 1 + m) + 1 := by omega
    rw [this, List.replicate_succ, List.cons_append]
    simp only [stripLoop]
    exact ih

/-- the completion-tag path: for EVERY bit length, reading back the topped-up array returns the bits -/
theorem setTopUpped_toppedUp (l : List Bool) :
    setTopUpped (toppedUp l) (decide (l.length % 8 = 0)) = .ok l := by
  unfold setTopUpped toppedUp
  rw [bytesToBits_bitsToBytes_aligned _ (addTag_length_mod l)]
  by_cases h : l.length % 8 = 0
  · simp [h, addTag]
  · have hne : (bitsToBytes (addTag l)).isEmpty = false := by
      have hl := bitsToBytes_length (addTag l)
      rw [addTag_length] at hl
      cases hb : bitsToBytes (addTag l) with
      | nil => rw [hb] at hl; simp at hl; omega
      | cons _ _ => rfl
    simp only [h, decide_false, hne, Bool.or_self, Bool.false_eq_true, if_false]
    unfold addTag
    simp only [h, if_false]
    rw [List.reverse_append, List.reverse_cons, List.reverse_replicate, List.append_assoc]
    have hk : 7 = (7 - l.length % 8) + 1 + (l.length % 8 - 1) := by omega
    rw [show stripLoop 7 = stripLoop ((7 - l.length % 8) + 1 + (l.length % 8 - 1)) from by rw [← hk]]
    rw [List.singleton_append, stripLoop_tag, List.reverse_reverse]

end Tongo.Boc
